#!/usr/bin/env python3
"""Seeded-change tooling (DESIGN.md §13).

  seedtool.py confirm <src_dir> <i> <seed_id>   confirm change i of a seeding agent's output directory in a scratch
                                                worktree (applies, compiles, stable test suite passes 2x, demo PASSes
                                                without and FAILs with the change) and store it as /verif/seeded/<seed_id>/
  seedtool.py run <seed_id> [Cxx ...]           apply /verif/seeded/<seed_id>/patch.diff in a scratch worktree and run the
                                                quick check of its property (or the listed ones) with LP_REPO pointing there;
                                                records caught/missed in /verif/seeded/<seed_id>/result.json
Scratch worktrees live under /tmp/seedrun-* and are removed afterwards.
"""
import json, os, re, shutil, subprocess, sys, time

VERIF = os.path.dirname(os.path.dirname(os.path.abspath(__file__)))
FLAKY = {"TestIntegration.TestIntegrate2DMC", "TestStatistics.TestMetropolis2D"}


def sh(cmd, cwd=None, timeout=3600, env=None):
    e = dict(os.environ); e.update(env or {})
    p = subprocess.run(cmd, shell=isinstance(cmd, str), cwd=cwd, stdout=subprocess.PIPE, stderr=subprocess.STDOUT, text=True, timeout=timeout, env=e)
    return p.returncode, p.stdout


def worktree(name):
    wt = "/tmp/seedrun-%s-%d" % (name, os.getpid())
    sh("git -C /repo worktree remove --force %s" % wt)
    # SEED_BASE: commit to base the scratch worktree on (default HEAD); used for changes recorded against an earlier /repo HEAD
    rc, out = sh("git -C /repo worktree add --detach %s %s" % (wt, os.environ.get("SEED_BASE", "HEAD")))
    assert rc == 0, out
    return wt


def drop(wt):
    sh("git -C /repo worktree remove --force %s" % wt)
    shutil.rmtree(wt, ignore_errors=True)
    sh("git -C /repo worktree prune")


def apply_patch(wt, patch):
    rc, out = sh("git apply %s" % patch, cwd=wt)
    if rc:  # context drifted (later fix: commits): retry with fuzz
        rc, out2 = sh("patch -p1 -F3 --no-backup-if-mismatch < %s" % patch, cwd=wt)
        out += out2
    return rc, out


def build_and_test(wt, runs=2):
    rc, out = sh("cmake -G Ninja -B _build -S . -DFETCHCONTENT_SOURCE_DIR_GOOGLETEST=/usr/src/googletest -DCMAKE_BUILD_TYPE=Release", cwd=wt)
    if rc:
        return False, "configure failed\n" + out[-1500:]
    rc, out = sh("cmake --build _build", cwd=wt)
    if rc:
        return False, "build failed\n" + out[-2500:]
    failed = set()
    for _ in range(runs):
        for exe in sorted(os.listdir(os.path.join(wt, "_build", "tests"))):
            p = os.path.join(wt, "_build", "tests", exe)
            if exe.startswith("test_") and os.access(p, os.X_OK) and os.path.isfile(p):
                rc, out = sh(p, cwd=os.path.join(wt, "_build", "tests"), timeout=900)
                for m in re.finditer(r"\[  FAILED  \] (\S+)", out):
                    t = m.group(1).rstrip(",")
                    if "." in t:
                        failed.add(t)
                if rc and not re.search(r"\[  FAILED  \]", out):
                    failed.add(exe + " (crashed)")
    bad = {t for t in failed if t not in FLAKY}
    return not bad, "failed tests: %s" % sorted(failed)


def build_demo(wt, demo, exe):
    lib = None
    for d, _, names in os.walk(os.path.join(wt, "_build")):
        for n in names:
            if n.startswith("libphysica") and n.endswith(".a"):
                lib = os.path.join(d, n)
    # SEED_DEMO_CXX / SEED_DEMO_EXTRA: a change that only manifests in another compiler's build (C20 quantifies over
    # g++ and clang++ builds) is demonstrated by compiling the named extra sources of the worktree with that compiler
    cxx = os.environ.get("SEED_DEMO_CXX", "g++")
    extra = [os.path.join(wt, x) for x in os.environ.get("SEED_DEMO_EXTRA", "").split()]
    rc, out = sh([cxx, "-std=c++14", "-O1" if cxx == "g++" else "-O0", "-w", "-I" + wt + "/include", "-I" + wt + "/_build/generated", demo] + extra + [lib, "-lconfig++", "-o", exe])
    return rc == 0, out[-2000:]


def confirm(src, i, sid):
    patch = os.path.join(src, "patch%s.diff" % i)
    demo = os.path.join(src, "demo%s.cpp" % i)
    meta = json.load(open(os.path.join(src, "meta%s.json" % i)))
    wt = worktree(sid)
    res = dict(seed_id=sid, steps=[])
    try:
        ok, msg = build_and_test(wt, runs=1)
        res["steps"].append(["baseline build+tests", ok, msg])
        okd, msg = build_demo(wt, demo, wt + "/demo_base")
        res["steps"].append(["demo builds on unchanged tree", okd, msg])
        rc0, out0 = sh([wt + "/demo_base"], cwd=wt, timeout=600) if okd else (99, "")
        res["steps"].append(["demo passes without the change", rc0 == 0, out0[-600:]])
        rc, out = apply_patch(wt, os.path.abspath(patch))
        res["steps"].append(["patch applies", rc == 0, out])
        okb, msg = build_and_test(wt, runs=2)
        res["steps"].append(["changed tree compiles and the stable suite passes (2 runs)", okb, msg])
        okd2, msg = build_demo(wt, demo, wt + "/demo_mut")
        rc1, out1 = sh([wt + "/demo_mut"], cwd=wt, timeout=600) if okd2 else (0, msg)
        res["steps"].append(["demo fails with the change", okd2 and rc1 != 0, out1[-800:]])
        touched = sh("git diff --name-only", cwd=wt)[1].split()
        res["rediff"] = sh("git diff", cwd=wt)[1]
        res["touches_only_src_include"] = all(t.startswith(("src/", "include/")) for t in touched)
    finally:
        drop(wt)
    res["confirmed"] = all(s[1] for s in res["steps"]) and res["touches_only_src_include"]
    if res["confirmed"]:
        dst = os.path.join(VERIF, "seeded", sid)
        os.makedirs(dst, exist_ok=True)
        open(os.path.join(dst, "patch.diff"), "w").write(res["rediff"])   # relative to the current /repo HEAD
        shutil.copy(demo, os.path.join(dst, "demo.cpp"))
        meta.update(seed_id=sid, confirmed_by="tools/seedtool.py confirm (scratch worktree: baseline suite, demo PASS unchanged / FAIL changed, stable suite passes 2x with the change)",
                    confirm_log=[[s[0], s[1]] for s in res["steps"]], repo_head=sh("git -C /repo rev-parse --short HEAD")[1].strip())
        json.dump(meta, open(os.path.join(dst, "meta.json"), "w"), indent=1)
    res.pop("rediff", None)
    print(json.dumps(res, indent=1)[:3000])
    return 0 if res["confirmed"] else 1


def run(sid, props):
    d = os.path.join(VERIF, "seeded", sid)
    meta = json.load(open(os.path.join(d, "meta.json")))
    props = props or [meta["property"]]
    wt = worktree(sid)
    results = {}
    try:
        rc, out = apply_patch(wt, os.path.join(d, "patch.diff"))
        if rc:
            print("patch does not apply:", out)
            print(sid, "PATCH-DOES-NOT-APPLY (re-port it to the current HEAD)"); return 2
        for p in props:
            t0 = time.time()
            rc, out = sh(["python3", os.path.join(VERIF, "check.py"), p, "--tier", "quick"], cwd=VERIF,
                         env={"LP_REPO": wt, "VERIF_SEED": os.environ.get("VERIF_SEED", "1")}, timeout=3000)
            vl = [l for l in out.splitlines() if l.startswith("VIOLATION")]
            first = [l.strip() for l in out.splitlines() if l.strip().startswith("[") or " x [" in l][:4]
            results[p] = dict(exit=rc, violation=vl[0] if vl else None, concrete=bool(vl) and "no-failing-input-found" not in vl[0],
                              clauses=first, wall_s=round(time.time() - t0, 1))
            print(sid, p, "exit", rc, vl[0] if vl else "NO VIOLATION", first[:2])
    finally:
        drop(wt)
    prev = {}
    rp = os.path.join(d, "result.json")
    if os.path.exists(rp):
        prev = json.load(open(rp))
    prev.update(results)
    json.dump(prev, open(rp, "w"), indent=1)
    return 0


if __name__ == "__main__":
    if sys.argv[1] == "confirm":
        sys.exit(confirm(sys.argv[2], sys.argv[3], sys.argv[4]))
    if sys.argv[1] == "run":
        sys.exit(run(sys.argv[2], sys.argv[3:]))
