#!/usr/bin/env python3
"""Regenerate /verif/MANIFEST.json from the per-property table below.
A property is claimed only when all six of its files exist and its id is listed in CLAIMED;
every other property goes to not_applicable with the reason given here."""
import json, os

VERIF = os.path.dirname(os.path.dirname(os.path.abspath(__file__)))

# id -> (technique, level text, level note (assumed / trusted / correspondence-only clauses))
T = {
 "C01": ("Lean 4 proof over an exact-rational model of the Steffen/bilinear kernels + model-vs-library correspondence (class B) + oracle",
         "Theorems for every table (any N>=3, any strictly increasing abscissae, any ordinates): knots reproduced, C1 at knots, derivatives 1-3 are those of the cubic, Steffen limiter box, monotone and bounded on every segment, linear/parabola exactness, bilinear hull/continuity/exactness. Tied to /repo on every run by comparing Interpolate/Derivative/2-D Interpolate of the compiled library with the compiled Lean model on generated tables.",
         "exact real arithmetic in the model; rounding-level overshoot is correspondence-only (tolerance K*eps*scale); NaN ordinates and the 1% extrapolation zone are covered by value correspondence only"),
 "C02": ("Lean 4 proof of the Ridder loop invariants over any function + trace correspondence (class C) + sign-change oracle",
         "Theorems for every function f (no regularity), every bracket and accuracy: evaluations stay inside the bracket, the sign-change invariant and halving of the bracket, either order of the ends, zero ends, diagnostics for missing sign change/NaN, exactness on linear functions, the accuracy clause for the repaired termination rule, the iteration-limit bound, and the driver's own rounded-up rational square root as an instance of the square-root hypothesis. Tied to /repo by comparing the evaluation trace and result of Find_Root with the model on generated functions/brackets; the oracle checks the sign change within the accuracy on the library's own output.",
         "sqrt enters as a parameter with its algebraic property as hypothesis; floating-point rounding is absorbed by trace tolerances (margin-excused divergences are counted)"),
 "C03": ("Lean 4 proof by induction on the recursion depth of adaptive Simpson + trace/value correspondence + mpmath oracle",
         "Theorems for every depth/eps/interval: exact on every polynomial of degree <=5, swap/equal limits/sign of eps, evaluation locations, evaluation count <= 2^(depth+2)+1, value reuse invariant, tolerance budget; 4*eps bound conditional on the classical Simpson error term. Tied to /repo by comparing abscissae sequence, count and value of Integrate with the model.",
         "the Simpson error representation (Peano kernel) is a named hypothesis, not formalised; estimator-regular families are checked against an mpmath reference (correspondence-only)"),
 "C04": ("Lean 4 refinement proof to Mathlib's Matrix + class A/B/D correspondence on all shapes",
         "Every Vector/Matrix operation of the model refines the corresponding Mathlib Matrix operation for all shapes; the algebraic laws follow from Mathlib; shape rules (defined iff conformable) proved. Tied to /repo by exhaustive shape sweeps comparing every public member and operator spelling with the model (values, outcomes, bit-identical spellings).",
         "exact arithmetic; Norm uses a sqrt parameter"),
 "C05": ("Lean 4 proof: Laplace determinant = Matrix.det, Gauss-Jordan invariant and soundness + kappa-scaled correspondence",
         "det model equals Matrix.det for every n (all determinant laws follow from Mathlib); the Gauss-Jordan elimination with row exchanges keeps Left = Right*M and its result is a two-sided inverse; singular/non-square -> diagnostic. Tied to /repo by comparing Determinant/Inverse with exact rational results on structured matrices of size 1..7 with a tolerance scaled by the exactly computed condition number.",
         "backward-error constant is correspondence-only; Invertible() tests a floating-point determinant against zero (nearly singular matrices outside the quantifier)"),
 "C06": ("Lean 4 proof of the memo machine, binomial floor formula, branch totality, Lentz/series recurrences + mpmath-reference correspondence",
         "Proved: factorial memo for every call order, binomial floor formula = Nat.choose, exactly one GammaQ branch, P+Q=1, Lentz index advance and convergents, series terms. Accuracy over the (x,a) domain is decided by correspondence at the property's own tolerances against mpmath.",
         "accuracy of Lanczos, limits of series/continued fraction, quadrature branch, Halley inversion: correspondence-only (mpmath 50 digits, validated not verified)"),
 "C07": ("Lean 4 proof of the algebraic coherence identities + mpmath-reference correspondence and integral oracle",
         "Proved: uniform family completely, non-negativity, sums/mixtures/likelihood identities, quantile inverts CDF given erf/invErf; remaining clauses by correspondence against definitions evaluated with mpmath.",
         "CDF = integral of pdf for transcendental families, tails, KDE normalisation: correspondence-only"),
 "C08": ("Lean 4 proof of the antiderivative/extrema/prefactor laws on the shared interpolation model + class B correspondence + sampling oracle",
         "Proved: piece-wise antiderivative is the integral of the cubic, additive, antisymmetric, derivative = curve; Local_Minimum/Maximum bound every curve value on [x1,x2] and are attained (composed with C01's monotonicity and C09's canonical index), min*(x2-x1) <= Integrate <= max*(x2-x1); prefactor scaling of either sign. Tied to /repo by comparing Integrate/Local_*/Global_* (1-D, 2-D) with the model.",
         "exact arithmetic; extrapolation zone by value correspondence only"),
 "C09": ("Lean 4 proof that Locate is a function of x alone from every cache state + class A/D correspondence on long histories",
         "Proved for every table, every search state and every history: the index search brackets x, is canonical (same index from hunting up, hunting down and bisection, also at knots), and every query answer is independent of the history. Tied to /repo by comparing Locate indices along call sequences of thousands of steps with the model and used objects/copies against fresh objects bit-for-bit.",
         "exact arithmetic; the 1e-2 edge tolerance is modelled as 1/100 (generators keep a margin)"),
 "C10": ("Lean 4 proof of guard <-> meaningfulness per entry point + outcome correspondence under ASan/UBSan",
         "For each guarded entry point: the model's guard fires exactly on meaningless requests and meaningful requests never index out of range. Tied to /repo by running every entry point on both sides of every guard in a forked child of the sanitizer build and comparing outcomes.",
         "actual memory safety is observed by the sanitizers, the theorems cover the index arithmetic"),
 "C11": ("Lean 4 proof of best-so-far invariants of Bracket/Brent/Nelder-Mead for every objective + trace correspondence + descent/convergence oracle",
         "Proved for every objective and every rounding of intermediate arithmetic: the result is never worse than any starting point, reported state is consistent (fmin = f(x_min), y[i] = f(simplex[i]), best-first), Find_Maximum f = Find_Minimum (-f). Tied to /repo by comparing evaluation traces with the model.",
         "convergence on bowls is decided by the oracle only (no general theorem exists for Nelder-Mead)"),
 "C12": ("Lean 4 proof of symmetry/orientation/affine-transfer of the rule assembly + per-order evaluation against an mpmath reference",
         "Proved for every n and any root values: mirror symmetry of nodes/weights, reversed limits, overloads agree, affine transfer, size mismatch -> diagnostic. Exactness to degree 2n-1, positivity, ordering are evaluated per order on the library's nodes/weights (exhaustive n<=512 in the thorough tier).",
         "exactness for all n is an evaluation per n (a test), not a theorem; reference nodes by mpmath"),
 "C13": ("Lean 4 proof of dispatch/nesting/region layout over abstract 1-D integrators + exact-integral correspondence",
         "Proved: swap/equal limits for every method, unknown method -> diagnostic, nesting order per axis, separable => product, Monte-Carlo region layout, spherical wrapper integrand. Tied to /repo on asymmetric polynomial integrands with distinct limits per axis against exact rational integrals.",
         "accuracy of the Boost rules: correspondence-only"),
 "C14": ("Lean 4 proof of containment/accounting/history-independence + seeded self-differential correspondence",
         "Proved: sample points inside the region (brute force; every Miser sample through the whole recursion), Miser accounting/totality/constants exact, independence of the static dithering state after the repair, Rebin keeps the Vegas grid increasing and ending at 1 without reading out of range, every Vegas array cell read is written first when init = 0. Tied to /repo with a fixed random_device seed: results after arbitrary histories vs a fresh process bit-for-bit; recorded abscissae inside the region.",
         "six-sigma accuracy and Vegas constants: correspondence-only; random_device interposed in the harness executable"),
 "C15": ("Lean 4 proof of Householder/QR algebra over Mathlib matrices + class B correspondence; eigenvector defect as known finding",
         "Proved: Householder reflector symmetric orthogonal and maps to alpha*e1; for the executable list model Q*R = M, Q orthogonal, R upper triangular (the explicit zeroing is a no-op); every Eigenvalues iterate is orthogonally similar to M and a returned spectrum sums to the trace; Rayleigh fixed point. Tied to /repo by comparing Q, R, eigenvalues with the model / exact spectra.",
         "convergence of QR iteration and inverse iteration: correspondence-only; Eigensystem/Eigenvectors known finding by call site"),
 "C16": ("Lean 4 proof of the Rodrigues and spherical-frame identities + mpmath-glue correspondence",
         "Proved as polynomial identities for every unit axis and every (cos, sin) pair: proper orthogonality, fixed axis, right-handed turn, composition; spherical norm/polar angle/handedness including axes parallel and antiparallel to z. Tied to /repo on generated angles/axes.",
         "sqrt/cos/sin enter as parameters with their algebraic properties as hypotheses"),
 "C17": ("Lean 4 proof of Round/Sign/Floats_Equal laws and VSH coefficient-table sum rules + mpmath-reference correspondence",
         "Proved: Round laws with the exponent as constrained parameter, Sign/Step/Floats_Equal laws, Dawson oddness, VSH table normalisation/orthogonality/selection rules for all l, m. Accuracy of Dawson/Erfi/Inv_Erf and point-wise VSH identities by correspondence against mpmath.",
         "Boost spherical harmonics and libm: trusted, compared against mpmath"),
 "C18": ("Lean 4 proof of the sample-count/draw-count/domain/acceptance logic + exact MT19937 prediction and fixed-seed statistical oracle",
         "Proved for all (sample, thinning>=1, burn_in): exactly `sample` values, draw counts, domain containment, detailed balance; Knuth-Poisson equivalence for every mean including several exp(STEP) rescalings (with a proved tie witness). Tied to /repo by predicting generator draws with an exact MT19937 model, equal-state reproducibility (class D) and deterministic fixed-seed goodness-of-fit tests.",
         "distribution of the output: correspondence-only (KS/chi-square at fixed seeds)"),
 "C19": ("Lean 4 proof of the helper specifications + exhaustive class A correspondence on the property's grids",
         "Proved for all arguments: Workload_Distribution spec, Range, Linear_Space, closest-index optimality, list templates = library functions, statistics laws. Tied to /repo by exhaustive enumeration of (workers,tasks), integer ranges and small sorted lists, plus random value cases.",
         "Log_Space (exp/log) and sqrt in Standard_Deviation: correspondence-only"),
 "C20": ("Lean 4 proof on a model REGENERATED from Natural_Units.cpp on every run (translator) + byte-level export correspondence + four-compiler-configuration run",
         "Proved: six-digit round trip at token level, table shape, In_Units laws; initialisation-order soundness and derived-unit identities on the unit table that the translator regenerates from the current source on every run (kernel `decide`). Tied to /repo by comparing exported bytes with the model's rendering and the constants of builds with g++/clang++ at -O0/-O2 with the model's values and static/dynamic classification.",
         "the translator (Python) and the one assumption about compilers (foldable initialisers are folded) are trusted and cross-checked with nm; character-level %g lemma is a stated extension"),
}

CLAIMED_FILE = os.path.join(VERIF, "tools", "claimed.json")


def files_ok(p):
    l = p.lower()
    need = ["lean/LpModel/%s.lean" % p, "lean/Driver/%s.lean" % p, "lean/LpProofs/%s.lean" % p,
            "lean/obligations/%s.txt" % p, "harness/%s.cpp" % l, "props/%s.py" % l]
    return all(os.path.exists(os.path.join(VERIF, f)) for f in need)


def main():
    claimed = json.load(open(CLAIMED_FILE)) if os.path.exists(CLAIMED_FILE) else {}
    ids = [json.loads(l)["id"] for l in open(os.path.join(VERIF, "properties.jsonl"))]
    checks, na = [], []
    for p in ids:
        if p in claimed.get("claimed", []) and files_ok(p):
            tech, text, note = T[p]
            checks.append(dict(
                property_id=p,
                quick_cmd="python3 check.py %s --tier quick" % p,
                thorough_cmd="python3 check.py %s --tier thorough" % p,
                evidence_file="/verif/evidence/%s.json" % p,
                replay_cmd_template="python3 check.py %s --replay {path}" % p,
                engine="lean4-proof+correspondence",
                level_claimed=dict(category="proof", text=text, design_ref="DESIGN.md section 6 (%s), sections 3-5" % p),
                level_note=note + "; trusted base: Lean 4.33 kernel, axioms propext/Classical.choice/Quot.sound only (audited every run), the correspondence check (harness + comparator), see DESIGN.md section 3.4",
                technique=tech))
        else:
            na.append(dict(property_id=p, reason=claimed.get("reasons", {}).get(p, "check not claimed yet: its Lean model, theorems and correspondence check are still being built/validated (work in progress)")))
    m = dict(version=1, setup_cmd="./setup.sh",
             hooks=dict(guard="LIBPHYSICA_VERIF",
                        enable="no source hook is needed (DESIGN.md section 7): internal functions have external linkage, callbacks are wrapped, std::random_device is interposed in the harness executable; the guard name is reserved",
                        baseline_off_cmd="cmake --build /repo/_build && ctest --test-dir /repo/_build -j8 --timeout 900",
                        source_commits=[], add_only=True),
             engines=[dict(name="lean4-proof+correspondence", path="/verif/check.py", serves_properties=[c["property_id"] for c in checks],
                           kind_free_text="Lean 4 theorems about a hand-written executable model (lake build + #print axioms audit every run), tied to /repo by a correspondence run of the compiled library (ASan/UBSan) against the compiled Lean driver on generated requests, plus a property oracle on the library's own output that produces the replay")],
             checks=checks,
             notes="python3 check.py <Cxx> --tier quick|thorough; VERIF_SEED selects the generator seed; fixes to /repo are `fix:` commits listed in known_findings.json; see DESIGN.md",
             not_applicable=na)
    json.dump(m, open(os.path.join(VERIF, "MANIFEST.json"), "w"), indent=1)
    print("claimed:", [c["property_id"] for c in checks], "not claimed:", [n["property_id"] for n in na])


if __name__ == "__main__":
    main()
