#!/usr/bin/env python3
"""Regenerate /verif/MANIFEST.json from the per-property table below.
A property is claimed only when all six of its files exist and its id is listed in CLAIMED;
every other property goes to not_applicable with the reason given here."""
import json, os

VERIF = os.path.dirname(os.path.dirname(os.path.abspath(__file__)))

# id -> (technique, level text, level note (assumed / trusted / correspondence-only clauses))
T = {
 "C01": ("Lean 4 proof over an exact-rational model of the Steffen/bilinear kernels (constants regenerated from the source by translators/constants.py) + model-vs-library correspondence (class B) + oracle at the literal statement",
         "Theorems for every table (any N>=3, strictly increasing abscissae, any ordinates): every knot INCLUDING the last reproduced exactly, C1 at knots, derivatives 1-3 are those of the cubic, Steffen limiter box, monotone and bounded on every segment, linear/parabola exactness, scale covariance under x->lam x, y->mu y, the closed 1% extrapolation zone with the sharp excursion bound 2.0302% of the last data step, bilinear hull/continuity/exactness. Tied to /repo on every run by comparing Interpolate/Derivative/2-D Interpolate of the compiled library with the compiled Lean model on generated tables (joint x/y scales over the double range, exact zone edge).",
         "exact real arithmetic in the model; interior rounding-level overshoot/backward steps of evaluating the cubic in doubles are accepted up to 32 eps*max|y| (measured 21.8) and listed in the evidence; knots, plateaus and 2-D nodes are bit-exact"),
 "C02": ("Lean 4 proof of the Ridder loop invariants over any function (as coded incl. the power-of-two scaling) + trace correspondence (class C) + zero-slack sign-change witness oracle",
         "Theorems for every function f (no regularity), every bracket and accuracy: evaluations stay inside the bracket, sign-change invariant and halving, either order of the ends, the end-value decision table over {neg,pos,zero,nan} (NaN beats zero), exactness on linear functions, the accuracy clause, the 2200-iteration bound, scale invariance of the step (ridder_scale_invariant, frexpExp_spec), the fallback unreachable in exact arithmetic, and the driver's own rational square root as an instance of the sqrt hypothesis. Tied to /repo by comparing evaluation traces and results on generated functions/brackets (value scales 1e-320..1e300, brackets to 600 decades and DBL_MAX ends); the oracle demands an evaluated sign change within the accuracy on the library's own evaluations.",
         "sqrt enters as a parameter with its property as hypothesis at the arguments used; infinite end values are oracle-only"),
 "C03": ("Lean 4 proof by induction on the recursion depth of adaptive Simpson (constants regenerated from the source) + multiset-of-abscissae/value correspondence + mpmath oracle",
         "Theorems for every depth/eps/interval: exact on every polynomial of degree <=5, swap/equal limits/sign of eps, evaluation locations, count between 5 and 2^(depth+2)+1, value reuse, tolerance budget, independence of what the integrand does internally and of the evaluation order (integrate_nested_independent, integrate_evals_perm); 4*eps bound conditional on the classical Simpson error term. Tied to /repo by comparing the multiset and count of abscissae and the value with the model, incl. nested re-entrant calls and narrow intervals far from the origin.",
         "the Simpson error representation (Peano kernel) is a named hypothesis; the 4|eps| clause is evaluated only on runs without the non-convergence warning"),
 "C04": ("Lean 4 refinement proof to Mathlib's Matrix + bitwise IEEE replay correspondence on all shapes + object-history ops",
         "Every Vector/Matrix operation of the model refines the corresponding Mathlib Matrix operation for all shapes; algebraic laws from Mathlib; shape rules (defined iff conformable), block-constructor layout (defined iff rectangular non-empty layout with consistent sizes), chained compound assignment, observers after mutators, Norm/Normalized as coded (power-of-two scaling value-neutral). Tied to /repo by exhaustive shape sweeps: every value clause is a zero-slack replay of correctly rounded IEEE operations in loop order; Norm within (n+2) eps over the whole double range.",
         "assumes no FMA contraction in the library build (stated in the evidence); Matrix::Norm (unscaled) stays within 1e+-21"),
 "C05": ("Lean 4 proof: Laplace determinant (with the zero-skip as coded) = Matrix.det, Gauss-Jordan with partial pivoting invariant, soundness and totality + kappa-scaled correspondence + exact-rank oracle",
         "det model equals Matrix.det for every n; Gauss-Jordan with row exchanges keeps Left = Right*M, its result is a two-sided inverse and it is total on invertible matrices; singular/non-square -> diagnostic. Tied to /repo against exact rational results on structured matrices of size 1..7 (4 n kappa eps for the inverse, (n+2) eps perm for the determinant, laws on general doubles).",
         "known findings C05-singular-residue (exactly singular matrices whose cofactor determinant is a non-zero rounding residue are inverted) and C05-laplace-cancellation (Laplace determinant loses its sign on matrices with two small singular values); determinants that round to 0 are an exclusion (listed)"),
 "C06": ("Lean 4 proof of the memo machine, binomial formulas (floor formula and gcd-reduced product = Nat.choose), branch totality, clamp, Lentz/series recurrences on a model whose 31 gamma-family constants (170, Lanczos table, aMax, Inv_GammaP constants) are REGENERATED from Special_Functions.cpp on every run (translator) + mpmath-reference correspondence at the literal tolerances",
         "Proved: factorial memo for every call order, Binomial_Coefficient = Nat.choose on both code paths and symmetric, exactly one GammaQ branch, P,Q in [0,1] and P+Q=1, Lentz index advance and convergents, series positivity, guards (Gamma x<=0, Inv_GammaP/Q p outside [0,1]). Accuracy over the (x,a) domain (a from 1e-320 to 1e4) by correspondence against mpmath: 8/6/16 ulp for the recurrences, 1e-14 references, P,Q in [0,1] exact, monotone at rounding.",
         "accuracy of Lanczos/tgamma, limits of series/continued fraction, quadrature branch, Halley inversion: correspondence-only (mpmath 50 digits)"),
 "C07": ("Lean 4 proof of the algebraic coherence identities, guards, series branch and KDE normalisation + mpmath-reference correspondence and integral oracle",
         "Proved: uniform family completely, non-negativity, sums/mixtures/likelihood identities (incl. empty bins and n=0), scale covariance of the scale families, the Maxwell-Boltzmann series branch non-negative and monotone, CDF_Binomial <= 1 and = sum, the normalised KDE table integrates to exactly 1 in the model, reject-or-formula theorems for every parameter guard; remaining clauses by correspondence against definitions evaluated with mpmath at the literal tolerances (every CDF inside [0,1] exactly).",
         "CDF = integral of pdf for transcendental families, tails: correspondence-only"),
 "C08": ("Lean 4 proof of the antiderivative/extrema/prefactor laws on the shared interpolation model (sqrt as a class parameter) + class B correspondence + sampling oracle incl. the extrapolation zone",
         "Proved: piece-wise antiderivative (relative to the left knot, as coded) is the integral of the cubic, additive, antisymmetric, derivative = curve; Local_Minimum/Maximum bound every curve value on [x1,x2] and are attained - also for limits in the closed 1% zone, where the continued edge cubic is monotone between consecutive candidates (stationary values as coded); min*len <= Integrate <= max*len; prefactor scaling of either sign. Tied to /repo on tables as in C01: Integrate at 16 eps*scale, evaluations vs Local/Global at 64/32/8 eps, prefactor scaling bit-equal.",
         "exact arithmetic; SqrtOk only at the discriminant actually passed"),
 "C09": ("Lean 4 proof that Locate is a function of x alone from every cache state + class A/D correspondence on long histories and object pools",
         "Proved for every table, search state and history: the index search brackets x, is canonical (same index from hunting up/down and bisection, also at knots and in the closed zone), every query answer is independent of the history, prefactors act exactly. Tied to /repo by comparing Locate indices along call sequences of thousands of steps and used objects/copies against fresh objects bit-for-bit; prefactor scaling bit-equal to factor x unit output.",
         "exact arithmetic"),
 "C10": ("Lean 4 proof of guard <-> meaningfulness per entry point on guards REGENERATED from the source on every run (translators/guards.py: 95 guards and 81 early-exit lists, gen_*_eq / gen_*_early_eq theorems, 282 obligations) + outcome correspondence under ASan/UBSan",
         "For each guarded entry point: the regenerated guard equals the model's guard for all arguments, the model's guard fires exactly on meaningless requests, and meaningful requests never index out of range, also after object histories (Resize/Assign/Delete). Tied to /repo by running every entry point on both sides of every guard (zero margin at the 1% edge, tables of length 0..3, parameters on both sides of their range) in a forked child of the sanitizer build.",
         "actual memory safety is observed by the sanitizers; the translator (Python) is trusted and cross-checked by the equality proofs and the correspondence run"),
 "C11": ("Lean 4 proof of best-so-far invariants and the exit rule of Bracket/Brent/Nelder-Mead for every objective (constants regenerated) + trace correspondence on distinct points + descent/convergence oracle",
         "Proved for every objective and rounding: result never worse than any starting point, reported state consistent, Find_Maximum f = Find_Minimum (-f), the Nelder-Mead exit rule, independence under memoisation and nested minimisation. Tied to /repo by comparing evaluation traces (bit-exact round-to-double model); an iteration-limit exit on a stated bowl class is a property failure whatever the model does.",
         "convergence on bowls is decided by the oracle (Brent's own bound in 1-D; empirical constant 256 in 1-2 D); four known findings, all of the Nelder-Mead fractional stopping rule (premature termination, 3-D collapse, NMAX creep in 3-D, value ties)"),
 "C12": ("Lean 4 proof of Gauss-Legendre exactness for every n from the CODED recurrence and weights (orthogonality, Christoffel-Darboux, real simple roots in (-1,1), positive weights) + per-order correspondence",
         "Proved for every n: mirror symmetry, reversed limits, overloads agree, affine transfer, size mismatch -> diagnostic; the polynomials of the coded recurrence are orthogonal, have n distinct real roots in (-1,1), the coded weight at the returned node is 2/((1-z^2)P_n'(z)^2) > 0, and the rule is exact to degree 2n-1 on every interval with weights summing to b-a; nested re-entrant use. What is evaluated per order on the library's output is only that its doubles are those roots/weights to rounding (Newton convergence).",
         "convergence of the coded Newton loop and the ordering of the output table: correspondence (rounding-only tolerances since f38103c)"),
 "C13": ("Lean 4 proof of dispatch/nesting/region layout over abstract 1-D integrators + exact-integral correspondence + bitwise limit-reversal oracle",
         "Proved: swap/equal limits for every method, unknown method -> diagnostic at every level, nesting order per axis, separable => product, nested accuracy 2-D/3-D (conditional), Monte-Carlo region layout, spherical wrapper incl. the full sphere, explicit Gauss-Kronrod depth honoured. Tied to /repo on asymmetric integrands with distinct limits per axis against exact integrals: 1e-9 relative to |I| for five methods, reversal negates bit for bit.",
         "accuracy of the Boost rules: correspondence-only; Trapezoidal's 1e-6 is read relative to the integral of |f| (stated); known finding C13-adaptive-simpson-accidental-zero"),
 "C14": ("Lean 4 proof of containment/accounting/history-independence/cell arithmetic on a model whose MISER/VEGAS constants are REGENERATED from Integration.cpp on every run (translator) + seeded self-differential correspondence incl. abandoned and nested calls",
         "Proved: sample points inside the region (brute force; every Miser sample through the whole recursion), Miser accounting/totality/constants exact, independence of the static dithering state, Rebin keeps the Vegas grid increasing, every Vegas array cell read is written first, the stratification odometer (range, maximum attained, full sweep, stale sweep). Tied to /repo with a fixed random_device seed: results after arbitrary histories vs a fresh process bit-for-bit; constants at (n+100) eps / 32 eps.",
         "six-sigma accuracy: correspondence-only; known findings C14-vegas-constants, C14-vegas-peaked-bias, C14-vegas-constant-overflow"),
 "C15": ("Lean 4 proof of Householder/QR algebra over Mathlib matrices + class B correspondence modulo the sign gauge; eigenvector defects as known findings",
         "Proved: Householder reflector symmetric orthogonal and maps to alpha*e1; for the executable list model Q*R = M, Q orthogonal, R upper triangular; sign-gauge invariance; every Eigenvalues iterate is orthogonally similar to M and a returned spectrum sums to the trace. Tied to /repo by comparing Q, R (gauge R_kk >= 0), eigenvalues with the model / exact spectra at flat 64 eps, exact zeros below the diagonal.",
         "convergence of QR iteration: correspondence-only; known findings: Eigenvalues slow-swap and nine clause-restricted Eigensystem/Eigenvectors entries"),
 "C16": ("Lean 4 proof of the Rodrigues and spherical-frame identities (norm and hypot as coded) + mpmath-glue correspondence over the whole range of axis lengths and tilts",
         "Proved as polynomial identities for every unit axis and (cos, sin) pair: proper orthogonality, fixed axis, right-handed turn, composition; spherical norm/polar angle/handedness through the three branches of the repaired code. Tied to /repo on generated angles/axes: lengths 5e-324..1.7e308, tilts from +-z 5e-324..1e-1, at 32/32/8 eps.",
         "sqrt/cos/sin enter as parameters with their algebraic properties as hypotheses"),
 "C17": ("Lean 4 proof of Round/Sign/Floats_Equal laws and VSH coefficient-table sum rules + mpmath-reference correspondence + bitwise law oracle + pre-main probe",
         "Proved: Round laws as coded (carry branch value-neutral), Sign/Step/Floats_Equal laws (reflexive for every tol >= 0), Dawson oddness and coefficient table, Erfi order, VSH table sum rules for all l, m, history independence. Round odd/idempotent/monotone and Y_{l,-m} conjugation are judged bit for bit on the implementation; accuracy of Dawson/Erfi/Inv_Erf and point-wise VSH identities against mpmath.",
         "Boost spherical harmonics and libm: trusted, compared against mpmath; Erfi beyond |x| = 26.71 overflows the double range (stated)"),
 "C18": ("Lean 4 proof of the sample-count/draw-count/domain/acceptance logic + exact MT19937 prediction and fixed-seed statistical oracle",
         "Proved for all (sample, thinning>=1, burn_in): exactly `sample` values, draw counts, domain containment, detailed balance; Knuth-Poisson equivalence for every mean; inverse-transform tolerance follows the width of the domain. Tied to /repo by predicting generator draws with an exact MT19937 model, the model's chain on the same uniforms, equal-state reproducibility and deterministic fixed-seed goodness-of-fit tests.",
         "distribution of the output: correspondence-only (KS/chi-square at fixed seeds)"),
 "C19": ("Lean 4 proof of the helper specifications + exhaustive class A correspondence on the property's grids + literal-statement oracle",
         "Proved for all arguments: Workload_Distribution spec, Range, Linear_Space (overflow branch value-neutral), Log_Space two-ended form (ends exact, equal spacing in the log), closest-index optimality for any minimiser, list templates (IEEE element type for Lists_Equal), statistics laws. Tied to /repo by exhaustive enumeration and by every pair of doubles for the grids (start == min, strict monotonicity always).",
         "exp/log and sqrt: correspondence-only; rounding-level near ties of Locate_Closest_Location and < 3 ulp per step of Log_Space are listed exclusions"),
 "C20": ("Lean 4 proof on a model REGENERATED from Natural_Units.cpp on every run (translator) + byte-level export/import proofs and correspondence + four-compiler-configuration run; added coverage outside the property: exact text models of Time_Display, Print_Box, Print_Progress_Bar with box-geometry theorems",
         "Proved: six-digit round trip from characters to values (parseDec o render, tokenizer, line counting under any chunking, bytes round trip for tables and lists incl. the empty table), In_Units laws; initialisation-order soundness and derived-unit identities on the regenerated unit table (kernel decide); every quotient of finite doubles is inside the long double reader range. Tied to /repo by comparing exported bytes with the model's rendering and the constants and round trips of builds with g++/clang++ at -O0/-O2.",
         "the translator (Python) and the assumption about compilers (foldable initialisers are folded) are trusted and cross-checked with nm; known finding C20-ragged-total (ragged file whose entry count is divisible by the first row's length); long double is assumed to be x87 80-bit (where it is double the repair 5c3fb95 is a no-op)"),
}

CLAIMED_FILE = os.path.join(VERIF, "tools", "claimed.json")


def files_ok(p):
    l = p.lower()
    need = ["lean/LpModel/%s.lean" % p, "lean/Driver/%s.lean" % p, "lean/LpProofs/%s.lean" % p,
            "lean/obligations/%s.txt" % p, "harness/%s.cpp" % l, "props/%s.py" % l]
    return all(os.path.exists(os.path.join(VERIF, f)) for f in need)


def main():
    claimed = json.load(open(CLAIMED_FILE)) if os.path.exists(CLAIMED_FILE) else {}
    ids = [json.loads(l)["id"] for l in open(os.path.join(VERIF, "properties.jsonl"))]
    checks, na = [], []
    for p in ids:
        if p in claimed.get("claimed", []) and files_ok(p):
            tech, text, note = T[p]
            checks.append(dict(
                property_id=p,
                quick_cmd="python3 check.py %s --tier quick" % p,
                thorough_cmd="python3 check.py %s --tier thorough" % p,
                evidence_file="/verif/evidence/%s.json" % p,
                replay_cmd_template="python3 check.py %s --replay {path}" % p,
                engine="lean4-proof+correspondence",
                level_claimed=dict(category="proof", text=text, design_ref="DESIGN.md section 6 (%s), sections 3-5" % p),
                level_note=note + "; trusted base: Lean 4.33 kernel, axioms propext/Classical.choice/Quot.sound only (audited every run), the correspondence check (harness + comparator), see DESIGN.md section 3.4",
                technique=tech))
        else:
            na.append(dict(property_id=p, reason=claimed.get("reasons", {}).get(p, "check not claimed yet: its Lean model, theorems and correspondence check are still being built/validated (work in progress)")))
    m = dict(version=1, setup_cmd="./setup.sh",
             hooks=dict(guard="LIBPHYSICA_VERIF",
                        enable="no source hook is needed (DESIGN.md section 7): internal functions have external linkage, callbacks are wrapped, std::random_device is interposed in the harness executable; the guard name is reserved",
                        baseline_off_cmd="cmake --build /repo/_build && ctest --test-dir /repo/_build -j8 --timeout 900",
                        source_commits=[], add_only=True),
             engines=[dict(name="lean4-proof+correspondence", path="/verif/check.py", serves_properties=[c["property_id"] for c in checks],
                           kind_free_text="Lean 4 theorems about a hand-written executable model (lake build + #print axioms audit every run), tied to /repo by a correspondence run of the compiled library (ASan/UBSan) against the compiled Lean driver on generated requests, plus a property oracle on the library's own output that produces the replay")],
             checks=checks,
             notes="python3 check.py <Cxx> --tier quick|thorough; VERIF_SEED selects the generator seed; fixes to /repo are `fix:` commits listed in known_findings.json; every request list is run twice (clean environment, and with sticky FP flags raised / errno set before each request) and must agree bit for bit; concurrent callers and directed rounding modes are outside every quantifier (DESIGN.md section 9); see DESIGN.md",
             not_applicable=na)
    json.dump(m, open(os.path.join(VERIF, "MANIFEST.json"), "w"), indent=1)
    print("claimed:", [c["property_id"] for c in checks], "not claimed:", [n["property_id"] for n in na])


if __name__ == "__main__":
    main()
