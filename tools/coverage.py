#!/usr/bin/env python3
"""Line/function coverage of /repo/src reached by the correspondence runs of all quick checks (gcov).
Writes findings/coverage.md. Not a check: documentation of which parts of the code the model is tied to."""
import json, os, re, subprocess, sys, glob
V = os.path.dirname(os.path.dirname(os.path.abspath(__file__)))
env = dict(os.environ, LP_COVERAGE="1", VERIF_SEED=os.environ.get("VERIF_SEED", "1"), LP_EVIDENCE_SKIP="1")
sys.path.insert(0, V)
os.environ["LP_COVERAGE"] = "1"
import check
libdir, err = check.build_lib()
assert not err, err
if not os.environ.get("COV_KEEP"):  # COV_KEEP=1 COV_PROPS="C18": add the listed checks to the counters of an earlier run
    for f in glob.glob(os.path.join(libdir, "obj", "*.gcda")):
        os.unlink(f)
props = os.environ.get("COV_PROPS", "").split() or [c["property_id"] for c in json.load(open(os.path.join(V, "MANIFEST.json")))["checks"]]
for p in props:
    r = subprocess.run(["python3", os.path.join(V, "check.py"), p, "--tier", "quick"], cwd=V, env=env, stdout=subprocess.PIPE, stderr=subprocess.STDOUT, text=True)
    print(p, r.stdout.strip().splitlines()[-1][:120], flush=True)
rows, never = [], []
for src in sorted(glob.glob("/repo/src/*.cpp")):
    b = os.path.basename(src)[:-4]
    r = subprocess.run(["gcov", "-f", "-o", os.path.join(libdir, "obj"), os.path.join(libdir, "obj", b + ".o")], cwd=os.path.join(libdir, "obj"),
                       stdout=subprocess.PIPE, stderr=subprocess.STDOUT, text=True)
    out = r.stdout
    m = re.search(r"File '/repo/src/%s.cpp'\nLines executed:([\d.]+)%% of (\d+)" % b, out)
    if m:
        rows.append((b + ".cpp", m.group(1), m.group(2)))
    for fm in re.finditer(r"Function '([^']+)'\nLines executed:([\d.]+)% of (\d+)", out):
        name = subprocess.run(["c++filt", fm.group(1)], stdout=subprocess.PIPE, text=True).stdout.strip()
        if name.startswith("libphysica") and float(fm.group(2)) == 0.0:
            never.append("%s (%s lines)" % (name[:140], fm.group(3)))
with open(os.path.join(V, "findings", "coverage.md"), "w") as f:
    f.write("# Line coverage of /repo/src reached by the correspondence runs (all 20 quick checks, seed %s, gcov, no sanitizers)\n\n" % env["VERIF_SEED"])
    f.write("| file | lines executed | of |\n|---|---|---|\n")
    for b, pc, n in rows:
        f.write("| %s | %s%% | %s |\n" % (b, pc, n))
    f.write("\nlibphysica functions never executed by any quick check (not tied to the model by correspondence):\n\n")
    for n in sorted(set(never)):
        f.write("* `%s`\n" % n)
print(open(os.path.join(V, "findings", "coverage.md")).read())
