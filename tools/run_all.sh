#!/bin/bash
# run every claimed check (or the listed ones) at several seeds on the unchanged tree; print one line per run
cd "$(dirname "$0")/.."
TIER=${TIER:-quick}
SEEDS=${SEEDS:-"1 2 3"}
PROPS=${@:-$(python3 -c "import json;print(' '.join(c['property_id'] for c in json.load(open('MANIFEST.json'))['checks']))")}
for p in $PROPS; do for s in $SEEDS; do
  out=$(VERIF_SEED=$s python3 check.py $p --tier $TIER 2>&1); rc=$?
  echo "$p seed=$s rc=$rc :: $(echo "$out" | grep -E "^(VIOLATION|KNOWN-FINDING)" | head -2 | tr '\n' ' ') $(echo "$out" | tail -1)"
done; done
