#!/usr/bin/env python3
"""Print the prompt given to an independent mutation ("seeding") sub-agent for one property.
The agent gets ONLY the property text and a scratch worktree - nothing from /verif."""
import json, sys
pid = sys.argv[1]
p = next(json.loads(l) for l in open('/verif/properties.jsonl') if json.loads(l)['id'] == pid)
print(f"""You are testing how well a verification effort detects subtle bugs. Work ONLY inside /tmp/seed4-{pid}/ (create it). Do NOT read or use anything under /verif, and never modify /repo itself.

The C++ library temken/libphysica is checked out at /repo (a git repository; small scientific-computing library: src/*.cpp, include/libphysica/*.hpp, tests/*.cpp with GoogleTest). Create your own scratch worktree of it:
  git -C /repo worktree add /tmp/seed4-{pid}/wt HEAD
Build and run its test suite offline like this (about 30 s):
  cd /tmp/seed4-{pid}/wt && cmake -G Ninja -B _build -S . -DFETCHCONTENT_SOURCE_DIR_GOOGLETEST=/usr/src/googletest -DCMAKE_BUILD_TYPE=Release >/dev/null && cmake --build _build && ctest --test-dir _build -j8
(The tests TestIntegration.TestIntegrate2DMC and TestStatistics.TestMetropolis2D are randomly flaky even on the unchanged code; ignore those two. Re-run ctest 3 times to make sure your change does not make anything else fail.)

Here is a semantic property that the library is supposed to satisfy:

  id: {pid}
  title: {p['title']}
  statement: {p['statement']}
  it must hold over: {p['quantifier']['text']}
  relevant files: {', '.join(p['anchors']['files'])}

YOUR TASK: produce TWO different, independent changes (mutations) to the library source (src/ or include/ only, not the tests) each of which BREAKS this property while the code still compiles and the existing test suite still passes. Make them realistic, the kind of slip a maintainer could make in a refactor or "optimisation", and SUBTLE: they must need something specific to manifest - an unusual input, a particular size/shape/parameter region, a boundary case, a multi-step sequence of calls (history), two cooperating sites that each look fine alone - NOT something ordinary use or a casual smoke test would expose at once. The two changes should break different clauses/aspects of the property, in different functions if possible. Assume the people checking this property are thorough: they already test single calls on generic random inputs and exhaustive small grids; sequences of calls on one object and across copies of objects (stale caches, static state, aliasing); exact ties, zeros, tiny/huge magnitudes, dense one-dimensional scans of the main argument; structured operands; every overload and spelling; and they compare against an exact reference model of the CURRENT code, so any change of an intermediate value on a COMMON input is noticed. Find something they are still likely to miss, for example: a change that only shows at the LARGE end of the stated size range (hundreds or thousands of elements, high orders, deep recursion, long sequences) such as an integer type that is too narrow, an index or count that overflows, a quadratic loop bound, or accumulated rounding; a change that depends on a rarely occurring relation among THREE or more quantities; a helper in ANOTHER source file that this property's functions call (change it there so that only a narrow class of this property's inputs is affected); behaviour on the error path that still 'terminates' but violates the statement (wrong exit status, empty message, partial output already returned); an uninitialised or indeterminate value that happens to be benign for typical inputs; a change that is correct for every input in a neighbourhood of the tested defaults but wrong for explicit non-default optional arguments in an unusual combination.

For EACH change i in {{1,2}} deliver in /tmp/seed4-{pid}/out/:
  patch{{i}}.diff   - `git diff` of the worktree for that change alone (relative to HEAD; must apply with `git -C <repo> apply patch{{i}}.diff`)
  demo{{i}}.cpp     - a small standalone program (it may include the library headers and is linked against the library objects) that exits 0 and prints PASS on the UNCHANGED library and exits non-zero printing FAIL (with the offending input and values) on the library with the change applied; it must demonstrate a violation of the property as stated above, not just "output differs"
  meta{{i}}.json    - {{"property": "{pid}", "breaks": "<which clause>", "needs": "<what specific input/history/condition is needed for it to manifest>", "files": [...], "ran": "<the commands you ran: test suite result with the patch, demo result with and without the patch>"}}
A convenient way to build a demo against a worktree: g++ -std=c++14 -O1 -I/tmp/seed4-{pid}/wt/include -I/tmp/seed4-{pid}/wt/_build/generated demo1.cpp /tmp/seed4-{pid}/wt/_build/lib/libphysica.a -lconfig++ -o demo1   (check where the static library is: find _build -name 'libphysica*.a').
Verify everything yourself: with each patch applied the full test suite passes (except the two known-flaky tests) and the demo FAILS; without it the demo PASSES. Keep the two patches independent (each relative to the unchanged HEAD).

When done, remove the worktree and its build output (git -C /repo worktree remove --force /tmp/seed4-{pid}/wt) but KEEP /tmp/seed4-{pid}/out/. Your final message: for each change one paragraph (what it does, why tests miss it, what is needed to expose it) and confirmation of what you ran.""")
