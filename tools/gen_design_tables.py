#!/usr/bin/env python3
"""Regenerate the generated sections of DESIGN.md (between <!-- BEGIN x --> / <!-- END x --> markers)
from known_findings.json, seeded/*/{meta,result}.json and lean/obligations/*.txt."""
import json, os, re, glob

V = os.path.dirname(os.path.dirname(os.path.abspath(__file__)))


def findings():
    kf = json.load(open(os.path.join(V, "known_findings.json")))["findings"]
    out = ["| property | commit | what failed on the pinned tree (replayed by the machinery / demo before the repair) |", "|---|---|---|"]
    for f in kf:
        if f["status"] == "fixed":
            out.append("| %s | `%s` | %s |" % (f["property"], f["commit"], f["what"].replace("|", "\\|")))
    out += ["", "Known findings (genuine defects recorded, not repaired; matched narrowly, everything else of the property still alarms):", "",
            "| id | property | match | what fails | why not repaired |", "|---|---|---|---|---|"]
    for f in kf:
        if f["status"] == "known":
            out.append("| %s | %s | `%s` | %s | %s |" % (f["id"], f["property"], json.dumps(f["match"]).replace("|", "\\|"),
                                                       f["what"].replace("|", "\\|"), f.get("why_not_fixed", "")))
    return "\n".join(out)


def seeded():
    rows = ["| seed id | property | what the change does / what it needs to manifest | caught by (quick, seed 1) | concrete input? |", "|---|---|---|---|---|"]
    for d in sorted(glob.glob(os.path.join(V, "seeded", "*"))):
        sid = os.path.basename(d)
        try:
            m = json.load(open(os.path.join(d, "meta.json")))
        except Exception:
            continue
        r = json.load(open(os.path.join(d, "result.json"))) if os.path.exists(os.path.join(d, "result.json")) else {}
        caught = []
        concrete = []
        for p, x in sorted(r.items()):
            if x.get("violation"):
                cl = "; ".join(re.sub(r"^\s*\d+ x ", "", c) for c in x.get("clauses", [])[:2])
                caught.append("%s: %s" % (p, cl[:220]))
                concrete.append("yes" if x.get("concrete") else "no (no-failing-input-found)")
            else:
                why = m.get("absorbed") and "absorbed by a later repair: " + str(m["absorbed"]) or m.get("outside") and "outside the quantifier: " + str(m["outside"])
                caught.append("%s: **not caught**%s" % (p, " (%s)" % why[:260] if why else ""))
                concrete.append("-")
        desc = (str(m.get("breaks", "")) + " — needs: " + str(m.get("needs", "")))[:420].replace("|", "\\|").replace("\n", " ")
        rows.append("| %s | %s | %s | %s | %s |" % (sid, m.get("property"), desc, "<br>".join(caught).replace("|", "\\|") or "not run", "<br>".join(concrete)))
    return "\n".join(rows)


def benign():
    rows = ["| id | property | kind | what the change does | observable difference | quick check (seed 1) |", "|---|---|---|---|---|---|"]
    for d in sorted(glob.glob(os.path.join(V, "benign", "*"))):
        bid = os.path.basename(d)
        try:
            m = json.load(open(os.path.join(d, "meta.json")))
        except Exception:
            continue
        r = json.load(open(os.path.join(d, "result.json"))) if os.path.exists(os.path.join(d, "result.json")) else {}
        res = []
        for p, x in sorted(r.items()):
            if not x.get("alarm"):
                res.append("%s: silent" % p)
            elif x.get("claims_failing_input"):
                res.append("%s: **FALSE ALARM with a claimed input**: %s" % (p, "; ".join(re.sub(r"^\s*\d+ x ", "", c) for c in x.get("clauses", [])[:1])[:200]))
            else:
                res.append("%s: no-failing-input-found (%s)" % (p, "; ".join(re.sub(r"^\s*\d+ x ", "", c) for c in x.get("clauses", [])[:1])[:160]))
        cut = lambda t, n: str(t)[:n].replace("|", "\\|").replace("\n", " ")
        rows.append("| %s | %s | %s | %s | %s | %s |" % (bid, m.get("property"), m.get("kind", ""), cut(m.get("what", ""), 300), cut(m.get("observable_difference", ""), 160),
                                               "<br>".join(res).replace("|", "\\|") or "not run"))
    return "\n".join(rows)


def status():
    rows = ["| property | obligations (theorems audited every run) | proof files (lines) | model files (lines) |", "|---|---|---|---|"]
    def wc(paths):
        n = 0
        for p in paths:
            n += sum(1 for _ in open(p))
        return n
    for i in range(1, 21):
        p = "C%02d" % i
        ob = [l.split("#")[0].strip() for l in open(os.path.join(V, "lean", "obligations", p + ".txt")) if l.split("#")[0].strip()] if os.path.exists(os.path.join(V, "lean", "obligations", p + ".txt")) else []
        pf = glob.glob(os.path.join(V, "lean", "LpProofs", p + ".lean")) + glob.glob(os.path.join(V, "lean", "LpProofs", p, "*.lean"))
        mf = glob.glob(os.path.join(V, "lean", "LpModel", p + ".lean")) + glob.glob(os.path.join(V, "lean", "LpModel", p, "*.lean"))
        rows.append("| %s | %d | %d files, %d lines | %d files, %d lines |" % (p, len(ob), len(pf), wc(pf), len(mf), wc(mf)))
    return "\n".join(rows)


def splice(text, name, body):
    a, b = "<!-- BEGIN %s -->" % name, "<!-- END %s -->" % name
    if a not in text:
        return text
    i, j = text.index(a) + len(a), text.index(b)
    return text[:i] + "\n" + body + "\n" + text[j:]


def main():
    p = os.path.join(V, "DESIGN.md")
    t = open(p).read()
    t = splice(t, "findings", findings())
    t = splice(t, "seeded", seeded())
    t = splice(t, "status", status())
    t = splice(t, "benign", benign())
    open(p, "w").write(t)


if __name__ == "__main__":
    main()
