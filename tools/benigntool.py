#!/usr/bin/env python3
"""Harmless-change tooling (DESIGN.md §15b): measures false alarms.

  benigntool.py confirm <src_dir> <i> <benign_id>  confirm change i of a benign-change agent's output directory in a scratch
                                                   worktree (applies, compiles, stable suite passes 2x, the agent's check
                                                   program PASSes with and without the change) and store it as
                                                   /verif/benign/<benign_id>/
  benigntool.py run <benign_id> [Cxx ...]          apply /verif/benign/<benign_id>/patch.diff in a scratch worktree and run the
                                                   quick check of its property (or the listed ones) with LP_REPO pointing there;
                                                   records silent / alarm (and whether the alarm is [prop] = claims a failing
                                                   input, or only proof/correspondence = no-failing-input-found) in result.json
"""
import json, os, shutil, sys, time
sys.path.insert(0, os.path.dirname(os.path.abspath(__file__)))
from seedtool import sh, worktree, drop, apply_patch, build_and_test, build_demo, VERIF


def confirm(src, i, bid):
    patch = os.path.join(src, "patch%s.diff" % i)
    chk = os.path.join(src, "check%s.cpp" % i)
    meta = json.load(open(os.path.join(src, "meta%s.json" % i)))
    wt = worktree(bid)
    res = dict(benign_id=bid, steps=[])
    try:
        ok, msg = build_and_test(wt, runs=1)
        res["steps"].append(["baseline build+tests", ok, msg])
        okd, msg = build_demo(wt, chk, wt + "/chk_base")
        rc0, out0 = sh([wt + "/chk_base"], cwd=wt, timeout=900) if okd else (99, msg)
        res["steps"].append(["check program passes without the change", okd and rc0 == 0, out0[-600:]])
        rc, out = apply_patch(wt, os.path.abspath(patch))
        res["steps"].append(["patch applies", rc == 0, out])
        okb, msg = build_and_test(wt, runs=2)
        res["steps"].append(["changed tree compiles and the stable suite passes (2 runs)", okb, msg])
        okd2, msg = build_demo(wt, chk, wt + "/chk_mut")
        rc1, out1 = sh([wt + "/chk_mut"], cwd=wt, timeout=900) if okd2 else (99, msg)
        res["steps"].append(["check program passes with the change", okd2 and rc1 == 0, out1[-800:]])
        touched = sh("git diff --name-only", cwd=wt)[1].split()
        res["rediff"] = sh("git diff", cwd=wt)[1]
        res["touches_only_src_include"] = all(t.startswith(("src/", "include/")) for t in touched)
    finally:
        drop(wt)
    res["confirmed"] = all(s[1] for s in res["steps"]) and res["touches_only_src_include"]
    if res["confirmed"]:
        dst = os.path.join(VERIF, "benign", bid)
        os.makedirs(dst, exist_ok=True)
        open(os.path.join(dst, "patch.diff"), "w").write(res["rediff"])
        shutil.copy(chk, os.path.join(dst, "check.cpp"))
        meta.update(benign_id=bid, confirm_log=[[s[0], s[1]] for s in res["steps"]], repo_head=sh("git -C /repo rev-parse --short HEAD")[1].strip())
        json.dump(meta, open(os.path.join(dst, "meta.json"), "w"), indent=1)
    res.pop("rediff", None)
    print(json.dumps(res, indent=1)[:3000])
    return 0 if res["confirmed"] else 1


def run(bid, props):
    d = os.path.join(VERIF, "benign", bid)
    meta = json.load(open(os.path.join(d, "meta.json")))
    props = props or [meta["property"]]
    wt = worktree(bid)
    results = {}
    try:
        rc, out = apply_patch(wt, os.path.join(d, "patch.diff"))
        if rc:
            print("patch does not apply:", out)
            print(bid, "PATCH-DOES-NOT-APPLY (re-port it to the current HEAD)"); return 2
        for p in props:
            t0 = time.time()
            rc, out = sh(["python3", os.path.join(VERIF, "check.py"), p, "--tier", "quick"], cwd=VERIF,
                         env={"LP_REPO": wt, "VERIF_SEED": os.environ.get("VERIF_SEED", "1")}, timeout=3000)
            vl = [l for l in out.splitlines() if l.startswith("VIOLATION")]
            first = [l.strip() for l in out.splitlines() if l.strip().startswith("[") or " x [" in l][:6]
            results[p] = dict(exit=rc, alarm=bool(vl) or rc != 0, violation=vl[0] if vl else None,
                              claims_failing_input=bool(vl) and "no-failing-input-found" not in vl[0],
                              clauses=first, wall_s=round(time.time() - t0, 1))
            print(bid, p, "exit", rc, vl[0] if vl else "SILENT", first[:3])
    finally:
        drop(wt)
    rp = os.path.join(d, "result.json")
    prev = json.load(open(rp)) if os.path.exists(rp) else {}
    prev.update(results)
    json.dump(prev, open(rp, "w"), indent=1)
    return 0


if __name__ == "__main__":
    if sys.argv[1] == "confirm":
        sys.exit(confirm(sys.argv[2], sys.argv[3], sys.argv[4]))
    if sys.argv[1] == "run":
        sys.exit(run(sys.argv[2], sys.argv[3:]))
