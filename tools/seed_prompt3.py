#!/usr/bin/env python3
"""Print the prompt given to an independent mutation ("seeding") sub-agent for one property.
The agent gets ONLY the property text and a scratch worktree - nothing from /verif."""
import json, sys
pid = sys.argv[1]
p = next(json.loads(l) for l in open('/verif/properties.jsonl') if json.loads(l)['id'] == pid)
print(f"""You are testing how well a verification effort detects subtle bugs. Work ONLY inside /tmp/seed3-{pid}/ (create it). Do NOT read or use anything under /verif, and never modify /repo itself.

The C++ library temken/libphysica is checked out at /repo (a git repository; small scientific-computing library: src/*.cpp, include/libphysica/*.hpp, tests/*.cpp with GoogleTest). Create your own scratch worktree of it:
  git -C /repo worktree add /tmp/seed3-{pid}/wt HEAD
Build and run its test suite offline like this (about 30 s):
  cd /tmp/seed3-{pid}/wt && cmake -G Ninja -B _build -S . -DFETCHCONTENT_SOURCE_DIR_GOOGLETEST=/usr/src/googletest -DCMAKE_BUILD_TYPE=Release >/dev/null && cmake --build _build && ctest --test-dir _build -j8
(The tests TestIntegration.TestIntegrate2DMC and TestStatistics.TestMetropolis2D are randomly flaky even on the unchanged code; ignore those two. Re-run ctest 3 times to make sure your change does not make anything else fail.)

Here is a semantic property that the library is supposed to satisfy:

  id: {pid}
  title: {p['title']}
  statement: {p['statement']}
  it must hold over: {p['quantifier']['text']}
  relevant files: {', '.join(p['anchors']['files'])}

YOUR TASK: produce TWO different, independent changes (mutations) to the library source (src/ or include/ only, not the tests) each of which BREAKS this property while the code still compiles and the existing test suite still passes. Make them realistic, the kind of slip a maintainer could make in a refactor or "optimisation", and SUBTLE: they must need something specific to manifest - an unusual input, a particular size/shape/parameter region, a boundary case, a multi-step sequence of calls (history), two cooperating sites that each look fine alone - NOT something ordinary use or a casual smoke test would expose at once. The two changes should break different clauses/aspects of the property, in different functions if possible. Assume the people checking this property already test: single calls on generic random inputs, exhaustive small grids, sequences of calls on one object (stale caches, static state), exact ties and zeros, tiny/huge magnitudes, and the obvious operator/constant flips. Find something they are still likely to miss, for example: a change that is only wrong for a narrow arithmetic relation between TWO parameters (a ratio, a difference, a parity, a divisibility, equality of two sizes); a wrong result only on a rarely taken path that is still inside the stated input domain (a fallback branch, the last iteration, a secondary overload or default argument, an early exit); behaviour that depends on argument aliasing (the same object passed twice, self-assignment, x op= x); an accuracy loss only in a mid-range region away from all boundaries; a change of evaluation count/locations or of which object is mutated that leaves values intact; two edits in different functions that only fail in combination.

For EACH change i in {{1,2}} deliver in /tmp/seed3-{pid}/out/:
  patch{{i}}.diff   - `git diff` of the worktree for that change alone (relative to HEAD; must apply with `git -C <repo> apply patch{{i}}.diff`)
  demo{{i}}.cpp     - a small standalone program (it may include the library headers and is linked against the library objects) that exits 0 and prints PASS on the UNCHANGED library and exits non-zero printing FAIL (with the offending input and values) on the library with the change applied; it must demonstrate a violation of the property as stated above, not just "output differs"
  meta{{i}}.json    - {{"property": "{pid}", "breaks": "<which clause>", "needs": "<what specific input/history/condition is needed for it to manifest>", "files": [...], "ran": "<the commands you ran: test suite result with the patch, demo result with and without the patch>"}}
A convenient way to build a demo against a worktree: g++ -std=c++14 -O1 -I/tmp/seed3-{pid}/wt/include -I/tmp/seed3-{pid}/wt/_build/generated demo1.cpp /tmp/seed3-{pid}/wt/_build/lib/libphysica.a -lconfig++ -o demo1   (check where the static library is: find _build -name 'libphysica*.a').
Verify everything yourself: with each patch applied the full test suite passes (except the two known-flaky tests) and the demo FAILS; without it the demo PASSES. Keep the two patches independent (each relative to the unchanged HEAD).

When done, remove the worktree and its build output (git -C /repo worktree remove --force /tmp/seed3-{pid}/wt) but KEEP /tmp/seed3-{pid}/out/. Your final message: for each change one paragraph (what it does, why tests miss it, what is needed to expose it) and confirmation of what you ran.""")
