#!/usr/bin/env python3
"""Print the prompt given to an independent sub-agent that produces HARMLESS changes for one property
(to measure false alarms).  The agent gets ONLY the property text and a scratch worktree - nothing from /verif."""
import json, sys
pid = sys.argv[1]
p = next(json.loads(l) for l in open('/verif/properties.jsonl') if json.loads(l)['id'] == pid)
print(f"""You are testing whether a verification effort raises FALSE ALARMS on harmless code changes. Work ONLY inside /tmp/benign-{pid}/ (create it). Do NOT read or use anything under /verif, and never modify /repo itself.

The C++ library temken/libphysica is checked out at /repo (a git repository; small scientific-computing library: src/*.cpp, include/libphysica/*.hpp, tests/*.cpp with GoogleTest). Create your own scratch worktree of it:
  git -C /repo worktree add /tmp/benign-{pid}/wt HEAD
Build and run its test suite offline like this (about 30 s):
  cd /tmp/benign-{pid}/wt && cmake -G Ninja -B _build -S . -DFETCHCONTENT_SOURCE_DIR_GOOGLETEST=/usr/src/googletest -DCMAKE_BUILD_TYPE=Release >/dev/null && cmake --build _build && ctest --test-dir _build -j8
(The tests TestIntegration.TestIntegrate2DMC and TestStatistics.TestMetropolis2D are randomly flaky even on the unchanged code; ignore those two.)

Here is a semantic property that the library satisfies and must keep satisfying:

  id: {pid}
  title: {p['title']}
  statement: {p['statement']}
  it must hold over: {p['quantifier']['text']}
  relevant files: {', '.join(p['anchors']['files'])}

YOUR TASK: produce TWO different, independent changes to the library source (src/ or include/ only, not the tests), both touching the functions this property is about, under which the property STILL HOLDS for every input it quantifies over, the code compiles and the test suite passes. They are the kind of change a maintainer makes all the time:
  change 1 - a pure REFACTOR with bit-identical observable behaviour: rename locals, extract or inline a helper, restructure a loop (index vs iterator, while vs for), reorder independent statements, replace a hand-written loop by a standard algorithm with the same evaluation order, hoist a truly loop-invariant expression, change a pass-by-value to const reference where no aliasing is possible, re-spell a condition equivalently (`a >= b` as `!(a < b)` for non-NaN operands, `i >= n` as `n <= i`), reformat diagnostics code paths without changing when they trigger. Make it substantial (tens of lines), not cosmetic whitespace.
  change 2 - an OBSERVABLE but ALLOWED change: behaviour differs in some way the property does not constrain - for example: different wording of a diagnostic message (still non-empty, still terminating where it terminated before); last-ulp differences from an algebraically equivalent, equally accurate formula (e.g. `x*x` for `pow(x,2)`, a division replaced by multiplication with a reciprocal computed once only where the accuracy clauses of the property keep holding with room to spare); a different but equally valid choice where the property leaves freedom (e.g. which of two equally near elements, which of several valid remainder placements - only if the statement really leaves it open); an internal cache or memo implemented CORRECTLY (invalidated on every mutation, keyed on everything the result depends on); extra defensive handling of inputs the property calls meaningless, provided they still terminate with a diagnostic; a performance improvement that changes the number or order of internal operations but none of the quantities the property talks about (if the property bounds an evaluation count or fixes which points are evaluated, respect that). Be careful and honest: read the statement clause by clause and make sure every clause still holds for ALL inputs in the stated range, including boundary cases, extreme magnitudes, histories of calls, copies, and every overload. If in doubt, choose a more conservative change.

For EACH change i in {{1,2}} deliver in /tmp/benign-{pid}/out/:
  patch{{i}}.diff   - `git diff` of the worktree for that change alone (relative to HEAD; must apply with `git -C <repo> apply patch{{i}}.diff`)
  check{{i}}.cpp    - a standalone program (includes the library headers, linked against the library objects) that exercises the clauses of the property most likely to be affected by your change, on boundary and random inputs, and prints PASS and exits 0 when they hold (it must PASS on both the unchanged and the changed library)
  meta{{i}}.json    - {{"property": "{pid}", "kind": "refactor" | "allowed-observable", "what": "<what was changed>", "why_preserved": "<clause by clause, why the property still holds for all inputs>", "observable_difference": "<none (bit-identical) | what differs>", "files": [...], "ran": "<commands you ran and their results>"}}
A convenient way to build against a worktree: g++ -std=c++14 -O1 -I/tmp/benign-{pid}/wt/include -I/tmp/benign-{pid}/wt/_build/generated check1.cpp $(find /tmp/benign-{pid}/wt/_build -name 'libphysica*.a') -lconfig++ -o check1
For change 1 also verify bit-identity yourself: dump the outputs (hex floats, `%a`) of the touched functions on a few thousand inputs with the unchanged and the changed library and `cmp` them; say so in meta.
Verify everything yourself: with each patch applied the full test suite passes (except the two known-flaky tests; run ctest 3 times) and check{{i}} PASSES with and without the patch. Keep the two patches independent (each relative to the unchanged HEAD).

When done, remove the worktree and its build output (git -C /repo worktree remove --force /tmp/benign-{pid}/wt) but KEEP /tmp/benign-{pid}/out/. Your final message: for each change one paragraph (what it does, why the property is preserved, what observable difference there is) and confirmation of what you ran.""")
