// C11 harness: Find_Minimum, Find_Maximum, Minimization::minimize (three overloads) of the
// real library, with the objective given by the request as a reverse-Polish program that is
// evaluated in double, one rounding per arithmetic operation (the Lean driver evaluates the
// same program with a round-to-double function).  The callback is wrapped: the abscissae at
// which the library evaluates the objective are part of the observation.
//
//   c11.min  <xl> <xr> <tol> <prog>          -> ok xmin f(xmin) ntrace x…
//   c11.max  <xl> <xr> <tol> <prog>          -> ok xmax f(xmax) ntrace x…  xmin' f'(xmin') ntrace' x'…
//                                               (primed: Find_Minimum of the negated objective)
//   c11.nm   <ftol> <mpts> <row>… <prog>     -> ok ndim pmin… fmin nfunc mpts y… rows… f(pmin) f(row_i)… ntrace pts…
//   c11.nmd  <ftol> <start> <deltas> <prog>
//   c11.nm1  <ftol> <start> <delta> <prog>
//   c11.nmre <ftolOut> <start> <deltaOut> <ftolIn> <t0> <deltaIn> <prog over x,t>   re-entrant: F(x) = inner minimize over t
//   c11.nmseq <ftol> <n> <member>...         -> ok SEQ <answers of the runs on ONE object, joined by |> FRESH <answer of each run on a fresh object, joined by |>
#define HZ_MAIN
#include "common.hpp"

#include "libphysica/Numerics.hpp"

using namespace libphysica;

namespace hz
{
struct Tok
{
	int kind;	// 0 var, 1 const, 2 + 3 - 4 * 5 / 6 neg 7 dup 8 sq 9 abs 10 swap 11 sel 12 cosh
	int j;
	double c;
};

static std::vector<Tok> prog(Args& a)
{
	size_t n = a.u64();
	std::vector<Tok> p(n);
	for(auto& t : p)
	{
		const std::string& s = a.tok();
		t.j					 = 0;
		t.c					 = 0;
		if(s == "+")
			t.kind = 2;
		else if(s == "-")
			t.kind = 3;
		else if(s == "*")
			t.kind = 4;
		else if(s == "/")
			t.kind = 5;
		else if(s == "neg")
			t.kind = 6;
		else if(s == "dup")
			t.kind = 7;
		else if(s == "sq")
			t.kind = 8;
		else if(s == "abs")
			t.kind = 9;
		else if(s == "swap")
			t.kind = 10;
		else if(s == "sel")
			t.kind = 11;
		else if(s == "cosh")
			t.kind = 12;
		else if(s.size() > 1 && s[0] == 'x')
		{
			t.kind = 0;
			t.j	   = atoi(s.c_str() + 1);
		}
		else if(s.size() > 1 && s[0] == 'k')
		{
			t.kind = 1;
			char* e;
			t.c = strtod(s.c_str() + 1, &e);
			if(*e)
				throw BadArgs("const: " + s);
		}
		else
			throw BadArgs("token: " + s);
	}
	size_t nmeta = a.u64();	  // trailing meta list: for the comparator only
	for(size_t i = 0; i < nmeta; i++)
		a.tok();
	return p;
}

static double eval(const std::vector<Tok>& p, const std::vector<double>& x)
{
	volatile double st[64];	  // volatile: no contraction / excess precision
	int n = 0;
	for(const Tok& t : p)
	{
		if(n > 60)
			throw BadArgs("stack overflow");
		switch(t.kind)
		{
			case 0:
				if((size_t) t.j >= x.size())
					throw BadArgs("variable index");
				st[n++] = x[t.j];
				break;
			case 1: st[n++] = t.c; break;
			case 2: if(n < 2) throw BadArgs("stack"); st[n - 2] = st[n - 2] + st[n - 1]; n--; break;
			case 3: if(n < 2) throw BadArgs("stack"); st[n - 2] = st[n - 2] - st[n - 1]; n--; break;
			case 4: if(n < 2) throw BadArgs("stack"); st[n - 2] = st[n - 2] * st[n - 1]; n--; break;
			case 5: if(n < 2) throw BadArgs("stack"); st[n - 2] = st[n - 2] / st[n - 1]; n--; break;
			case 6: if(n < 1) throw BadArgs("stack"); st[n - 1] = -st[n - 1]; break;
			case 7: if(n < 1) throw BadArgs("stack"); st[n] = st[n - 1]; n++; break;
			case 8: if(n < 1) throw BadArgs("stack"); st[n - 1] = st[n - 1] * st[n - 1]; break;
			case 9: if(n < 1) throw BadArgs("stack"); st[n - 1] = std::fabs(st[n - 1]); break;
			case 10: if(n < 2) throw BadArgs("stack"); { double b = st[n - 1]; st[n - 1] = st[n - 2]; st[n - 2] = b; } break;
			case 11: if(n < 3) throw BadArgs("stack"); st[n - 3] = (st[n - 3] < 0.0 ? st[n - 2] : st[n - 1]); n -= 2; break;
			case 12: if(n < 1) throw BadArgs("stack"); st[n - 1] = std::cosh(st[n - 1]); break;
		}
	}
	if(n != 1)
		throw BadArgs("program does not leave one value");
	return st[0];
}

static std::vector<std::vector<double>> rows(Args& a)
{
	size_t n = a.u64();
	std::vector<std::vector<double>> r(n);
	for(auto& l : r)
		l = a.dbls();
	return r;
}

// digest = true: the trace is reported as its length and a 64-bit FNV-style hash of the doubles (`H<hex>`), for the long
// object-reuse sequences whose answer must fit the 1 MiB result buffer of a forked child
static void report_nm(Out& o, Minimization& M, const std::vector<double>& pmin, const std::vector<Tok>& pr, const std::vector<std::vector<double>>& trace, bool digest = false)
{
	o << pmin.size() << pmin << M.fmin << M.nfunc << M.y.size() << M.y;
	for(auto& r : M.current_simplex)
		o << r;
	o << eval(pr, pmin);
	for(auto& r : M.current_simplex)
		o << eval(pr, r);
	o << trace.size();
	if(digest)
	{
		unsigned long long h = 1469598103934665603ULL;
		for(auto& t : trace)
			for(double v : t)
			{
				unsigned long long u;
				memcpy(&u, &v, 8);
				h = (h ^ u) * 1099511628211ULL;
			}
		char buf[32];
		snprintf(buf, sizeof buf, "H%016llx", h);
		o << buf;
		return;
	}
	for(auto& t : trace)
		o << t;
}

std::string handle(const std::string& op, Args& a)
{
	if(op == "c11.min" || op == "c11.max" || op == "c11.mindef" || op == "c11.maxdef")
	{
		// mindef / maxdef: the overloads with the DEFAULT tolerance argument; the answer is followed by the same call
		// with the tolerance 3e-8 written out (x f(x) ntrace trace)
		bool deftol = op == "c11.mindef" || op == "c11.maxdef";
		double xl = a.dbl(), xr = a.dbl(), tol = deftol ? 3e-8 : a.dbl();
		auto pr = prog(a);
		a.end();
		bool mx = op == "c11.max" || op == "c11.maxdef";
		return run_forked([&](Out& o) {
			std::vector<double> trace;
			std::function<double(double)> f = [&](double x) {
				trace.push_back(x);
				return eval(pr, {x});
			};
			double r = deftol ? (mx ? Find_Maximum(f, xl, xr) : Find_Minimum(f, xl, xr)) : (mx ? Find_Maximum(f, xl, xr, tol) : Find_Minimum(f, xl, xr, tol));
			o << r << eval(pr, {r});
			o.list(trace);
			if(mx)
			{
				std::vector<double> trace2;
				std::function<double(double)> g = [&](double x) {
					trace2.push_back(x);
					return -1.0 * eval(pr, {x});
				};
				double r2 = deftol ? Find_Minimum(g, xl, xr) : Find_Minimum(g, xl, xr, tol);
				o << r2 << -1.0 * eval(pr, {r2});
				o.list(trace2);
			}
			if(deftol)
			{
				std::vector<double> trace3;
				std::function<double(double)> h = [&](double x) {
					trace3.push_back(x);
					return eval(pr, {x});
				};
				double r3 = mx ? Find_Maximum(h, xl, xr, 3e-8) : Find_Minimum(h, xl, xr, 3e-8);
				o << r3 << eval(pr, {r3});
				o.list(trace3);
			}
		});
	}
	if(op == "c11.nm" || op == "c11.nmd" || op == "c11.nm1")
	{
		double ftol = a.dbl();
		std::vector<std::vector<double>> pp;
		std::vector<double> start, deltas;
		double delta = 0;
		if(op == "c11.nm")
			pp = rows(a);
		else
		{
			start = a.dbls();
			if(op == "c11.nmd")
				deltas = a.dbls();
			else
				delta = a.dbl();
		}
		auto pr = prog(a);
		a.end();
		return run_forked([&](Out& o) {
			std::vector<std::vector<double>> trace;
			std::function<double(std::vector<double>)> f = [&](std::vector<double> x) {
				trace.push_back(x);
				return eval(pr, x);
			};
			Minimization M(ftol);
			std::vector<double> pmin;
			if(op == "c11.nm")
				pmin = M.minimize(pp, f);
			else if(op == "c11.nmd")
				pmin = M.minimize(start, deltas, f);
			else
				pmin = M.minimize(start, delta, f);
			report_nm(o, M, pmin, pr, trace);
		});
	}
	if(op == "c11.nmre")
	{
		// re-entrant use: the outer objective F(x) = fmin of an inner Minimization::minimize(t0, deltaIn, t -> g(x,t)) run
		// by the callback on an object of its own.  Answer: the layout of c11.nm1 (re-evaluations through F), followed by
		// the value the callback returned at every outer evaluation.
		double fo = a.dbl();
		auto start = a.dbls();
		double dout = a.dbl();
		double fi = a.dbl();
		auto t0 = a.dbls();
		double din = a.dbl();
		auto pr = prog(a);
		a.end();
		return run_forked([&](Out& o) {
			auto F = [&](const std::vector<double>& x) {
				std::function<double(std::vector<double>)> gx = [&](std::vector<double> t) {
					std::vector<double> xt = x;
					xt.insert(xt.end(), t.begin(), t.end());
					return eval(pr, xt);
				};
				Minimization inner(fi);
				std::vector<double> t = t0;
				inner.minimize(t, din, gx);
				return inner.fmin;
			};
			std::vector<std::vector<double>> trace;
			std::vector<double> values;
			std::function<double(std::vector<double>)> f = [&](std::vector<double> x) {
				trace.push_back(x);
				double v = F(x);
				values.push_back(v);
				return v;
			};
			Minimization M(fo);
			std::vector<double> st = start;
			std::vector<double> pmin = M.minimize(st, dout, f);
			o << pmin.size() << pmin << M.fmin << M.nfunc << M.y.size() << M.y;
			for(auto& r : M.current_simplex)
				o << r;
			o << F(pmin);
			for(auto& r : M.current_simplex)
				o << F(r);
			o << trace.size();
			for(auto& t : trace)
				o << t;
			o.list(values);
		});
	}
	if(op == "c11.nmseq")
	{
		// one Minimization object runs the whole sequence in ONE child; then every member is run on a
		// fresh object in a fresh child.  Answer: ok SEQ <child answer, members joined by |> FRESH <answer> | <answer> ...
		// Restart members pass the object's OWN state as argument (aliasing): rs  = m.minimize(m.current_simplex, f),
		// rsd = m.minimize(m.current_simplex[0], deltas, f), rs1 = m.minimize(m.current_simplex[0], delta, f).
		// Their shared-object answer starts with `IN <mpts> <ndim> <values>`, a copy of the simplex taken just before the
		// call; the fresh object gets that COPY.
		struct Member
		{
			std::string kind;
			std::vector<std::vector<double>> pp;
			std::vector<double> start, deltas;
			double delta = 0;
			std::vector<Tok> pr;
			bool restart() const { return kind == "rs" || kind == "rsd" || kind == "rs1"; }
		};
		double ftol = a.dbl();
		size_t n	= a.u64();
		std::vector<Member> ms(n);
		for(auto& m : ms)
		{
			m.kind = a.tok();
			if(m.kind == "nm")
				m.pp = rows(a);
			else if(m.kind == "nmd")
			{
				m.start	 = a.dbls();
				m.deltas = a.dbls();
			}
			else if(m.kind == "nm1")
			{
				m.start = a.dbls();
				m.delta = a.dbl();
			}
			else if(m.kind == "rs")
				;
			else if(m.kind == "rsd")
				m.deltas = a.dbls();
			else if(m.kind == "rs1")
				m.delta = a.dbl();
			else
				throw BadArgs("member kind: " + m.kind);
			m.pr = prog(a);
		}
		a.end();
		// `aliased`: pass the object's own members; otherwise m.pp / m.start hold (copies of) the arguments
		auto run_member = [](Minimization& M, Member m, Out& o, bool aliased, bool digest) {	  // m by value: the library takes non-const references
			std::vector<std::vector<double>> trace;
			std::function<double(std::vector<double>)> f = [&](std::vector<double> x) {
				trace.push_back(x);
				return eval(m.pr, x);
			};
			std::vector<double> pmin;
			if(aliased)
			{
				std::vector<std::vector<double>> copy = M.current_simplex;
				o << "IN" << copy.size() << (copy.empty() ? (size_t) 0 : copy[0].size());
				for(auto& r : copy)
					o << r;
				if(copy.empty())
					throw BadArgs("restart before any run");
				if(m.kind == "rs")
					pmin = M.minimize(M.current_simplex, f);
				else if(m.kind == "rsd")
					pmin = M.minimize(M.current_simplex[0], m.deltas, f);
				else
					pmin = M.minimize(M.current_simplex[0], m.delta, f);
			}
			else if(m.kind == "nm" || m.kind == "rs")
				pmin = M.minimize(m.pp, f);
			else if(m.kind == "nmd" || m.kind == "rsd")
				pmin = M.minimize(m.start, m.deltas, f);
			else
				pmin = M.minimize(m.start, m.delta, f);
			report_nm(o, M, pmin, m.pr, trace, digest);
		};
		std::string seq = run_forked([&](Out& o) {
			Minimization M(ftol);
			for(size_t i = 0; i < ms.size(); i++)
			{
				if(i)
					o << "|";
				run_member(M, ms[i], o, ms[i].restart(), !ms[i].restart());
			}
		});
		// the copies of the aliased arguments, read back from the shared-object answer
		std::vector<std::vector<std::string>> segs(1);
		{
			std::istringstream is(seq);
			std::string t;
			while(is >> t)
			{
				if(t == "|")
					segs.emplace_back();
				else
					segs.back().push_back(t);
			}
		}
		bool seq_ok = !segs[0].empty() && segs[0][0] == "ok" && segs.size() == ms.size();
		if(seq_ok)
			segs[0].erase(segs[0].begin());
		std::string res = "ok SEQ " + seq + " FRESH";
		for(size_t i = 0; i < ms.size(); i++)
		{
			if(i)
				res += " |";
			Member m = ms[i];
			if(m.restart())
			{
				const auto& sg = segs.size() > i ? segs[i] : std::vector<std::string>();
				if(!seq_ok || sg.size() < 3 || sg[0] != "IN")
				{
					res += " skip";
					continue;
				}
				size_t mp = strtoul(sg[1].c_str(), 0, 10), nd = strtoul(sg[2].c_str(), 0, 10);
				if(sg.size() < 3 + mp * nd || mp == 0)
				{
					res += " skip";
					continue;
				}
				m.pp.assign(mp, std::vector<double>(nd));
				for(size_t r = 0; r < mp; r++)
					for(size_t c = 0; c < nd; c++)
						m.pp[r][c] = strtod(sg[3 + r * nd + c].c_str(), 0);
				m.start = m.pp[0];
			}
			res += " " + run_forked([&](Out& o) {
				Minimization M(ftol);
				run_member(M, m, o, false, false);
			});
		}
		return res;
	}
	throw BadOp();
}
}	// namespace hz
