// C05 harness: Matrix::Determinant, Matrix::Invertible, Matrix::Inverse of the real library.
// Matrices on the wire: `rows cols e00 e01 ...` (row-major).
#define HZ_MAIN
#include "common.hpp"

#include "libphysica/Linear_Algebra.hpp"

using namespace libphysica;

namespace hz
{
static Matrix rd_mat(Args& a)
{
	unsigned r = a.u64(), c = a.u64();
	if(r > 64 || c > 64)
		throw BadArgs("matrix too large");
	Matrix M(r, c);
	for(unsigned i = 0; i < r; i++)
		for(unsigned j = 0; j < c; j++)
			M[i][j] = a.dbl();
	return M;
}
static void put(Out& o, const Matrix& M)
{
	o << M.Rows() << M.Columns();
	for(unsigned i = 0; i < M.Rows(); i++)
		for(unsigned j = 0; j < M.Columns(); j++)
			o << M[i][j];
}

std::string handle(const std::string& op, Args& a)
{
	if(op == "c05.det")
	{
		Matrix A = rd_mat(a);
		a.end();
		return run_forked([&](Out& o) { o << A.Determinant(); });
	}
	if(op == "c05.invertible")
	{
		Matrix A = rd_mat(a);
		a.end();
		return run_forked([&](Out& o) { o << (int) A.Invertible(); });
	}
	if(op == "c05.inverse")
	{
		Matrix A = rd_mat(a);
		a.end();
		return run_forked([&](Out& o) { put(o, A.Inverse()); });
	}
	if(op == "c05.gate")	// the library's own Determinant() and Invertible(), then what Inverse() does on the same matrix
	{
		Matrix A = rd_mat(a);
		a.end();
		std::string r1 = run_forked([&](Out& o) { o << A.Determinant() << (int) A.Invertible(); });
		if(r1.compare(0, 3, "ok ") != 0)
			return r1;
		std::string r2 = run_forked([&](Out& o) { put(o, A.Inverse()); });
		return r1 + " | " + r2;
	}
	if(op == "c05.detlaws")	  // det A, det B, det(A*B), det(A^T), det(A with rows 0 and 1 exchanged)
	{
		Matrix A = rd_mat(a), B = rd_mat(a);
		a.end();
		return run_forked([&](Out& o) {
			o << A.Determinant() << B.Determinant() << (A * B).Determinant() << A.Transpose().Determinant();
			Matrix S(A);
			if(S.Rows() >= 2)
				std::swap(S[0], S[1]);
			o << S.Determinant();
		});
	}
	throw BadOp();
}
}	// namespace hz
