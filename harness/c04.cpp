// C04 harness: every public member and free operator of libphysica::Vector / libphysica::Matrix
// (src/Linear_Algebra.cpp §1, §3).  Matrices on the wire: `rows cols e00 e01 ...` (row-major),
// vectors length-prefixed.  Every request that can reach a shape guard runs in a forked child.
#define HZ_MAIN
#include "common.hpp"

#include <cfenv>
#include <utility>

#include "libphysica/Linear_Algebra.hpp"

using namespace libphysica;

namespace hz
{
static Matrix rd_mat(Args& a)
{
	unsigned r = a.u64(), c = a.u64();
	if(r > 64 || c > 64)
		throw BadArgs("matrix too large");
	Matrix M(r, c);
	for(unsigned i = 0; i < r; i++)
		for(unsigned j = 0; j < c; j++)
			M[i][j] = a.dbl();
	return M;
}
static Vector rd_vec(Args& a)
{
	return Vector(a.dbls());
}
static void put(Out& o, const Matrix& M)
{
	o << M.Rows() << M.Columns();
	for(unsigned i = 0; i < M.Rows(); i++)
		for(unsigned j = 0; j < M.Columns(); j++)
			o << M[i][j];
}
static void put(Out& o, const Vector& v)
{
	o << v.Size();
	for(unsigned i = 0; i < v.Size(); i++)
		o << v[i];
}
// conformable requests cannot reach a guard: run in-process (check.py re-runs the remainder of the stream with
// HZ_FORK_ALL=1 should the process die anyway); everything else runs in a forked child
static std::string run_if(bool conformable, const std::function<void(Out&)>& body)
{
	return conformable ? run(body) : run_forked(body);
}
// returning a by-value parameter: the return value is move-constructed from the parameter (no elision)
static Matrix pass_through(Matrix m) { return m; }
static Vector pass_through(Vector v) { return v; }
static void need(bool ok)
{
	if(!ok)
		throw BadArgs("spelling");
}

std::string handle(const std::string& op, Args& a)
{
	if(op == "c04.plus" || op == "c04.minus")
	{
		std::string sp = a.tok();
		Matrix A = rd_mat(a), B = rd_mat(a);
		a.end();
		need(sp == "m" || sp == "o" || sp == "a");
		bool plus = op == "c04.plus";
		return run_if(A.Rows() == B.Rows() && A.Columns() == B.Columns() && A.Rows() > 0, [&](Out& o) {
			if(sp == "m")
				put(o, plus ? A.Plus(B) : A.Minus(B));
			else if(sp == "o")
				put(o, plus ? A + B : A - B);
			else
			{
				Matrix C(A);
				if(plus)
					C += B;
				else
					C -= B;
				put(o, C);
			}
		});
	}
	if(op == "c04.mul")
	{
		std::string sp = a.tok();
		Matrix A = rd_mat(a), B = rd_mat(a);
		a.end();
		need(sp == "m" || sp == "o");
		return run_if(A.Columns() == B.Rows(), [&](Out& o) { put(o, sp == "m" ? A.Product(B) : A * B); });
	}
	if(op == "c04.smul")
	{
		std::string sp = a.tok();
		Matrix A	   = rd_mat(a);
		double s	   = a.dbl();
		a.end();
		need(sp == "m" || sp == "o" || sp == "f");
		return run([&](Out& o) { put(o, sp == "m" ? A.Product(s) : (sp == "o" ? A * s : s * A)); });
	}
	if(op == "c04.sdiv")
	{
		std::string sp = a.tok();
		Matrix A	   = rd_mat(a);
		double s	   = a.dbl();
		a.end();
		need(sp == "m" || sp == "o");
		return run([&](Out& o) { put(o, sp == "m" ? A.Division(s) : A / s); });
	}
	if(op == "c04.matvec")
	{
		std::string sp = a.tok();
		Matrix A	   = rd_mat(a);
		Vector v	   = rd_vec(a);
		a.end();
		need(sp == "m" || sp == "o");
		return run_if(A.Columns() == v.Size(), [&](Out& o) { put(o, sp == "m" ? A.Product(v) : A * v); });
	}
	if(op == "c04.vecmat")
	{
		Vector v = rd_vec(a);
		Matrix A = rd_mat(a);
		a.end();
		return run_if(A.Rows() == v.Size(), [&](Out& o) { put(o, v * A); });
	}
	if(op == "c04.transpose")
	{
		Matrix A = rd_mat(a);
		a.end();
		return run([&](Out& o) { put(o, A.Transpose()); });
	}
	if(op == "c04.trace")
	{
		Matrix A = rd_mat(a);
		a.end();
		return run_forked([&](Out& o) { o << A.Trace(); });
	}
	if(op == "c04.subm")
	{
		Matrix A = rd_mat(a);
		int r = a.i64(), c = a.i64();
		a.end();
		return run_forked([&](Out& o) { put(o, A.Sub_Matrix(r, c)); });
	}
	if(op == "c04.delrow" || op == "c04.delcol" || op == "c04.retrow" || op == "c04.retcol")
	{
		Matrix A   = rd_mat(a);
		unsigned r = a.u64();
		a.end();
		return run_forked([&](Out& o) {
			if(op == "c04.delrow")
			{
				A.Delete_Row(r);
				put(o, A);
			}
			else if(op == "c04.delcol")
			{
				A.Delete_Column(r);
				put(o, A);
			}
			else if(op == "c04.retrow")
				put(o, A.Return_Row(r));
			else
				put(o, A.Return_Column(r));
		});
	}
	if(op == "c04.preds")
	{
		Matrix A = rd_mat(a);
		a.end();
		return run([&](Out& o) { o << (int) A.Square() << (int) A.Symmetric() << (int) A.Antisymmetric() << (int) A.Diagonal(); });
	}
	if(op == "c04.identity")
	{
		unsigned n = a.u64();
		a.end();
		return run([&](Out& o) { put(o, Identity_Matrix(n)); });
	}
	if(op == "c04.diag")
	{
		auto d = a.dbls();
		a.end();
		return run([&](Out& o) { put(o, Matrix(d)); });
	}
	if(op == "c04.const")
	{
		unsigned r = a.u64(), c = a.u64();
		double e = a.dbl();
		a.end();
		return run([&](Out& o) { put(o, Matrix(r, c, e)); });
	}
	if(op == "c04.ctor")
	{
		size_t n = a.u64();
		std::vector<std::vector<double>> e(n);
		for(auto& r : e)
			r = a.dbls();
		a.end();
		return run_forked([&](Out& o) { put(o, Matrix(e)); });
	}
	if(op == "c04.block")
	{
		unsigned R = a.u64(), C = a.u64();
		if(R > 8 || C > 8)
			throw BadArgs("grid too large");
		std::vector<std::vector<Matrix>> g(R);
		for(auto& row : g)
			for(unsigned c = 0; c < C; c++)
				row.push_back(rd_mat(a));
		a.end();
		return run_forked([&](Out& o) { put(o, Matrix(g)); });
	}
	if(op == "c04.blockr")	 // block constructor, arbitrary layout: <#rows> then per row <#blocks> blocks...
	{
		unsigned R = a.u64();
		if(R > 8)
			throw BadArgs("grid too large");
		std::vector<std::vector<Matrix>> g(R);
		for(auto& row : g)
		{
			unsigned C = a.u64();
			if(C > 8)
				throw BadArgs("grid too large");
			for(unsigned c = 0; c < C; c++)
				row.push_back(rd_mat(a));
		}
		a.end();
		return run_forked([&](Out& o) { put(o, Matrix(g)); });
	}
	if(op == "c04.outer")
	{
		Vector u = rd_vec(a), v = rd_vec(a);
		a.end();
		return run([&](Out& o) { put(o, Outer_Vector_Product(u, v)); });
	}
	if(op == "c04.dot")
	{
		std::string sp = a.tok();
		Vector u = rd_vec(a), v = rd_vec(a);
		a.end();
		need(sp == "m" || sp == "o");
		return run_if(u.Size() == v.Size(), [&](Out& o) { o << (sp == "m" ? u.Dot(v) : u * v); });
	}
	if(op == "c04.cross")
	{
		Vector u = rd_vec(a), v = rd_vec(a);
		a.end();
		return run_forked([&](Out& o) { put(o, u.Cross(v)); });
	}
	if(op == "c04.vadd" || op == "c04.vsub")
	{
		std::string sp = a.tok();
		Vector u = rd_vec(a), v = rd_vec(a);
		a.end();
		need(sp == "o" || sp == "a");
		bool plus = op == "c04.vadd";
		return run_if(u.Size() == v.Size(), [&](Out& o) {
			if(sp == "o")
				put(o, plus ? u + v : u - v);
			else
			{
				Vector w(u);
				if(plus)
					w += v;
				else
					w -= v;
				put(o, w);
			}
		});
	}
	if(op == "c04.vsmul")
	{
		std::string sp = a.tok();
		Vector u	   = rd_vec(a);
		double s	   = a.dbl();
		a.end();
		need(sp == "o" || sp == "f");
		return run([&](Out& o) { put(o, sp == "o" ? u * s : s * u); });
	}
	if(op == "c04.vsdiv")
	{
		Vector u = rd_vec(a);
		double s = a.dbl();
		a.end();
		return run([&](Out& o) { put(o, u / s); });
	}
	if(op == "c04.veq")
	{
		Vector u = rd_vec(a), v = rd_vec(a);
		a.end();
		return run([&](Out& o) { o << (int) (u == v); });
	}
	if(op == "c04.meq")
	{
		Matrix A = rd_mat(a), B = rd_mat(a);
		a.end();
		return run([&](Out& o) { o << (int) (A == B); });
	}
	if(op == "c04.vnorm")
	{
		Vector u = rd_vec(a);
		a.end();
		return run([&](Out& o) { o << u.Norm(); });
	}
	if(op == "c04.mnorm")
	{
		Matrix A = rd_mat(a);
		a.end();
		return run([&](Out& o) { o << A.Norm(); });
	}
	if(op == "c04.vget")
	{
		Vector u   = rd_vec(a);
		unsigned i = a.u64();
		a.end();
		return run_forked([&](Out& o) { o << u[i]; });
	}
	if(op == "c04.mget")
	{
		Matrix A   = rd_mat(a);
		unsigned i = a.u64(), j = a.u64();
		a.end();
		return run_forked([&](Out& o) { o << A[i][j]; });
	}
	if(op == "c04.laws")
	{
		Matrix A = rd_mat(a), B = rd_mat(a);
		a.end();
		return run_if(A.Columns() == B.Rows() && A.Rows() > 0 && B.Columns() > 0 && A.Columns() > 0, [&](Out& o) {
			Matrix AB	= A * B;
			Matrix BtAt = B.Transpose() * A.Transpose();
			o << (int) (AB.Transpose() == BtAt);
			o << (int) (A * Identity_Matrix(A.Columns()) == A);
			o << (int) (Identity_Matrix(A.Rows()) * A == A);
			o << (int) (A.Transpose().Transpose() == A);
		});
	}
	if(op == "c04.vhist")	// one Vector object, a sequence of member calls on it, every observer's value
	{
		Vector v   = rd_vec(a);
		size_t nop = a.u64();
		struct Op
		{
			std::string k;
			unsigned i = 0;
			double x   = 0;
			std::vector<double> u;
		};
		std::vector<Op> ops(nop);
		for(auto& o : ops)
		{
			o.k = a.tok();
			if(o.k == "R" || o.k == "Z")
				o.i = a.u64();
			else if(o.k == "W" || o.k == "A")
			{
				o.i = a.u64();
				o.x = a.dbl();
			}
			else if(o.k == "+" || o.k == "-" || o.k == "=" || o.k == "C")
				o.u = a.dbls();
			else if(!(o.k == "N" || o.k == "D" || o.k == "S" || o.k == "M" || o.k == "U"))
				throw BadArgs("vector op " + o.k);
		}
		a.end();
		return run([&](Out& o) {   // generated histories are valid: in-process; check.py re-runs forked if the process dies
			for(auto& p : ops)
			{
				if(p.k == "N")
					o << v.Norm();
				else if(p.k == "D")
					o << v.Dot(v);
				else if(p.k == "S")
					o << v.Size();
				else if(p.k == "M")
				{
					Vector w = v.Normalized();
					for(unsigned i = 0; i < w.Size(); i++)
						o << w[i];
				}
				else if(p.k == "U")
					v.Normalize();
				else if(p.k == "R")
				{
					const Vector& cv = v;
					o << cv[p.i];
				}
				else if(p.k == "W")
					v[p.i] = p.x;
				else if(p.k == "+")
					v += Vector(p.u);
				else if(p.k == "-")
					v -= Vector(p.u);
				else if(p.k == "=")
				{
					Vector src(p.u);
					v = src;
				}
				else if(p.k == "C")
				{
					Vector w(v);
					w -= Vector(p.u);
					o << w.Norm() << v.Norm();
				}
				else if(p.k == "Z")
					v.Resize(p.i);
				else if(p.k == "A")
					v.Assign(p.i, p.x);
			}
		});
	}
	if(op == "c04.mhist")	// one Matrix object, a sequence of member calls on it
	{
		Matrix A   = rd_mat(a);
		size_t nop = a.u64();
		struct Op
		{
			std::string k;
			unsigned i = 0, j = 0;
			double x = 0;
			Matrix B;
		};
		std::vector<Op> ops(nop);
		for(auto& o : ops)
		{
			o.k = a.tok();
			if(o.k == "R" || o.k == "Z")
			{
				o.i = a.u64();
				o.j = a.u64();
			}
			else if(o.k == "W" || o.k == "A")
			{
				o.i = a.u64();
				o.j = a.u64();
				o.x = a.dbl();
			}
			else if(o.k == "DR" || o.k == "DC" || o.k == "RR" || o.k == "RC")
				o.i = a.u64();
			else if(o.k == "SM")
			{
				o.i = a.u64();
				o.j = a.u64();
			}
			else if(o.k == "+" || o.k == "-" || o.k == "=" || o.k == "C")
				o.B = rd_mat(a);
			else if(!(o.k == "N" || o.k == "T" || o.k == "D" || o.k == "P" || o.k == "Y" || o.k == "S" || o.k == "O" || o.k == "I" || o.k == "AY" || o.k == "DG"))
				throw BadArgs("matrix op " + o.k);
		}
		a.end();
		return run([&](Out& o) {   // generated histories are valid: in-process; check.py re-runs forked if the process dies
			for(auto& p : ops)
			{
				if(p.k == "N")
					o << A.Norm();
				else if(p.k == "T")
					o << A.Trace();
				else if(p.k == "D")
					o << A.Determinant();
				else if(p.k == "P")
					put(o, A.Transpose());
				else if(p.k == "Y")
					o << (int) A.Symmetric();
				else if(p.k == "S")
					o << A.Rows() << A.Columns();
				else if(p.k == "R")
				{
					const Matrix& cA = A;
					o << cA[p.i][p.j];
				}
				else if(p.k == "W")
					A[p.i][p.j] = p.x;
				else if(p.k == "+")
					A += p.B;
				else if(p.k == "-")
					A -= p.B;
				else if(p.k == "=")
					A = p.B;
				else if(p.k == "C")
				{
					Matrix C(A);
					C -= p.B;
					o << C.Norm() << A.Norm();
				}
				else if(p.k == "Z")
					A.Resize(p.i, p.j);
				else if(p.k == "A")
					A.Assign(p.i, p.j, p.x);
				else if(p.k == "DR")
					A.Delete_Row(p.i);
				else if(p.k == "DC")
					A.Delete_Column(p.i);
				else if(p.k == "RR")
				{
					Vector w = A.Return_Row(p.i);
					for(unsigned i = 0; i < w.Size(); i++)
						o << w[i];
				}
				else if(p.k == "RC")
				{
					Vector w = A.Return_Column(p.i);
					for(unsigned i = 0; i < w.Size(); i++)
						o << w[i];
				}
				else if(p.k == "SM")
					put(o, A.Sub_Matrix((int) p.i, (int) p.j));
				else if(p.k == "O")
					o << (int) A.Orthogonal();
				else if(p.k == "I")
					o << (int) A.Invertible();
				else if(p.k == "AY")
					o << (int) A.Antisymmetric();
				else if(p.k == "DG")
					o << (int) A.Diagonal();
			}
		});
	}
	if(op == "c04.mchain" || op == "c04.vchain")
	{
		// chained compound assignment ((x op0 b0) op1 b1) ... on ONE object; spelled so that it compiles whether
		// operator+=/-= return a reference or a value (nothing is bound to a non-const reference)
#define HZ_STEP(x, s, b) ((s) == '+' ? ((x) += (b)) : ((x) -= (b)))
		std::string sg = a.tok();
		if(sg.size() < 1 || sg.size() > 3 || sg.find_first_not_of("+-") != std::string::npos)
			throw BadArgs("signs");
		if(op == "c04.mchain")
		{
			Matrix X = rd_mat(a);
			std::vector<Matrix> b;
			for(size_t i = 0; i < sg.size(); i++)
				b.push_back(rd_mat(a));
			a.end();
			bool conf = X.Rows() > 0;
			for(auto& m : b)
				conf = conf && m.Rows() == X.Rows() && m.Columns() == X.Columns();
			return run_if(conf, [&](Out& o) {
				Matrix X2(X);
				if(sg.size() == 1)
					HZ_STEP(X, sg[0], b[0]);
				else if(sg.size() == 2)
					HZ_STEP(HZ_STEP(X, sg[0], b[0]), sg[1], b[1]);
				else
					HZ_STEP(HZ_STEP(HZ_STEP(X, sg[0], b[0]), sg[1], b[1]), sg[2], b[2]);
				put(o, X);
				Matrix r(HZ_STEP(X2, sg[0], b[0]));	  // value of the expression, then the object
				put(o, r);
				put(o, X2);
			});
		}
		Vector x = rd_vec(a);
		std::vector<Vector> b;
		for(size_t i = 0; i < sg.size(); i++)
			b.push_back(rd_vec(a));
		a.end();
		bool conf = true;
		for(auto& v : b)
			conf = conf && v.Size() == x.Size();
		return run_if(conf, [&](Out& o) {
			Vector x2(x);
			if(sg.size() == 1)
				HZ_STEP(x, sg[0], b[0]);
			else if(sg.size() == 2)
				HZ_STEP(HZ_STEP(x, sg[0], b[0]), sg[1], b[1]);
			else
				HZ_STEP(HZ_STEP(HZ_STEP(x, sg[0], b[0]), sg[1], b[1]), sg[2], b[2]);
			put(o, x);
			Vector r(HZ_STEP(x2, sg[0], b[0]));
			put(o, r);
			put(o, x2);
		});
#undef HZ_STEP
	}
	if(op == "c04.rowcol")	 // A*v, w*A, Outer(w,v), v.v against the products of the corresponding row / column matrices
	{
		Matrix A = rd_mat(a);
		Vector v = rd_vec(a), w = rd_vec(a);
		a.end();
		return run_if(v.Size() == A.Columns() && w.Size() == A.Rows() && A.Rows() > 0 && A.Columns() > 0, [&](Out& o) {
			Matrix colv(v.Size(), 1), roww(1, w.Size()), colw(w.Size(), 1), rowv(1, v.Size());
			for(unsigned i = 0; i < v.Size(); i++)
				colv[i][0] = rowv[0][i] = v[i];
			for(unsigned i = 0; i < w.Size(); i++)
				roww[0][i] = colw[i][0] = w[i];
			Vector Av = A * v;
			Matrix Ac = A * colv;
			bool e1	  = Ac.Rows() == Av.Size() && Ac.Columns() == 1;
			for(unsigned i = 0; e1 && i < Av.Size(); i++)
				e1 = Av[i] == Ac[i][0];
			Vector wA = w * A;
			Matrix rA = roww * A;
			bool e2	  = rA.Columns() == wA.Size() && rA.Rows() == 1;
			for(unsigned i = 0; e2 && i < wA.Size(); i++)
				e2 = wA[i] == rA[0][i];
			bool e3 = Outer_Vector_Product(w, v) == colw * rowv;
			Matrix d = rowv * colv;
			bool e4	 = d.Rows() == 1 && d.Columns() == 1 && d[0][0] == v.Dot(v) && d[0][0] == v * v;
			o << (int) e1 << (int) e2 << (int) e3 << (int) e4;
		});
	}
	if(op == "c04.crossdot")	 // Cross(u,v) == skew(u)*v and Dot(p,q) == row(p)*column(q), zero slack
	{
		Vector u = rd_vec(a), v = rd_vec(a), p = rd_vec(a), q = rd_vec(a);
		a.end();
		return run_if(u.Size() == 3 && v.Size() == 3 && p.Size() == q.Size() && p.Size() > 0, [&](Out& o) {
			Matrix S(std::vector<std::vector<double>>{{0.0, -u[2], u[1]}, {u[2], 0.0, -u[0]}, {-u[1], u[0], 0.0}});
			Vector c = u.Cross(v), s = S * v;
			bool e1 = c.Size() == 3 && s.Size() == 3 && c[0] == s[0] && c[1] == s[1] && c[2] == s[2];
			Matrix row(1, p.Size()), col(q.Size(), 1);
			for(unsigned i = 0; i < p.Size(); i++)
			{
				row[0][i] = p[i];
				col[i][0] = q[i];
			}
			Matrix d = row * col;
			bool e2	 = d.Rows() == 1 && d.Columns() == 1 && d[0][0] == p.Dot(q) && d[0][0] == p * q;
			o << (int) e1 << (int) e2;
		});
	}
	if(op == "c04.alias")	// the operand is the object itself
	{
		std::string k = a.tok();
		Matrix A	  = rd_mat(a);
		Vector v	  = rd_vec(a);
		a.end();
		need(k == "pa" || k == "ma" || k == "ss" || k == "vs" || k == "vv");
		bool conf = (k == "ss") ? A.Rows() == A.Columns() : (k == "vs" ? v.Size() == A.Rows() : true);
		return run_if(conf && A.Rows() > 0, [&](Out& o) {
			if(k == "pa")
			{
				A += A;
				put(o, A);
			}
			else if(k == "ma")
			{
				A -= A;
				put(o, A);
			}
			else if(k == "ss")
			{
				A = A * A;
				put(o, A);
			}
			else if(k == "vs")
			{
				v = v * A;
				put(o, v);
			}
			else
			{
				v += v;
				put(o, v);
			}
		});
	}
	if(op == "c04.moves")	// objects constructed from rvalues: the new object must hold the value of its source
	{
		std::string k = a.tok();
		Matrix A = rd_mat(a), B = rd_mat(a);
		a.end();
		need(k == "swap" || k == "move" || k == "push" || k == "ret" || k == "assign" || k == "blocks");
		bool conf = A.Rows() > 0 && B.Rows() > 0 && (k != "blocks" || A.Rows() == B.Rows());
		return run_if(conf, [&](Out& o) {
			if(k == "swap")
			{
				std::swap(A, B);
				put(o, A);
				put(o, B);
			}
			else if(k == "move")
			{
				Matrix C(std::move(A));
				put(o, C);
			}
			else if(k == "push")
			{
				std::vector<Matrix> v;
				v.push_back(Matrix(A));
				v.push_back(Matrix(B));
				put(o, v[0]);
				put(o, v[1]);
			}
			else if(k == "ret")
				put(o, pass_through(A));
			else if(k == "assign")
			{
				Matrix C;
				C = std::move(A);
				put(o, C);
			}
			else
			{
				std::vector<Matrix> row;
				row.push_back(Matrix(A));
				row.push_back(Matrix(B));
				std::vector<std::vector<Matrix>> g;
				g.push_back(std::move(row));
				put(o, Matrix(g));
			}
		});
	}
	if(op == "c04.vmoves")
	{
		std::string k = a.tok();
		Vector u = rd_vec(a), v = rd_vec(a);
		a.end();
		need(k == "swap" || k == "move" || k == "push" || k == "ret" || k == "assign");
		return run([&](Out& o) {
			if(k == "swap")
			{
				std::swap(u, v);
				put(o, u);
				put(o, v);
			}
			else if(k == "move")
			{
				Vector w(std::move(u));
				put(o, w);
			}
			else if(k == "push")
			{
				std::vector<Vector> l;
				l.push_back(Vector(u));
				l.push_back(Vector(v));
				put(o, l[0]);
				put(o, l[1]);
			}
			else if(k == "ret")
				put(o, pass_through(u));
			else
			{
				Vector w;
				w = std::move(u);
				put(o, w);
			}
		});
	}
	if(op == "c04.fenv")	// the library leaves the caller's rounding mode as it found it (a statement about the mode only)
	{
		std::string k = a.tok();
		Vector u	  = rd_vec(a);
		a.end();
		need(k == "norm" || k == "normalize" || k == "normalized");
		return run_forked([&](Out& o) {
			std::fesetround(FE_UPWARD);
			if(k == "norm")
				(void) u.Norm();
			else if(k == "normalize")
				u.Normalize();
			else
				(void) u.Normalized();
			int mode = std::fegetround();
			std::fesetround(FE_TONEAREST);
			o << (int) (mode == FE_UPWARD);
		});
	}
	throw BadOp();
}
}	// namespace hz
