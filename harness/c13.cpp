// C13 harness: named 1-D methods, nested 2-D/3-D integrals, spherical overload (src/Integration.cpp §1.3, §2.1).
#define HZ_MAIN
#include "common.hpp"

#include <map>
#include <random>

#include "libphysica/Integration.hpp"
#include "libphysica/Linear_Algebra.hpp"

using namespace libphysica;

// The Monte-Carlo integrators seed std::mt19937 from std::random_device: make them reproducible.
static unsigned int g_seed = 12345;
unsigned int std::random_device::_M_getval() { return g_seed++; }

namespace libphysica
{
extern void Check_Integration_Limits(double& a, double& b, double& sign);
}

namespace hz
{
struct Term
{
	double c;
	int i, j, k;
};
static std::vector<Term> terms(Args& a)
{
	size_t n = a.u64();
	std::vector<Term> t(n);
	for(auto& x : t)
	{
		x.c = a.dbl();
		x.i = a.i64();
		x.j = a.i64();
		x.k = a.i64();
	}
	return t;
}
static double ipow(double x, int n)
{
	double r = 1.0;
	for(int i = 0; i < n; i++)
		r *= x;
	return r;
}
static double eval(const std::vector<Term>& t, double x, double y, double z)
{
	double r = 0.0;
	for(auto& q : t)
		r += q.c * ipow(x, q.i) * ipow(y, q.j) * ipow(z, q.k);
	return r;
}

// 1-D families of the property's quantifier: id, three parameters
static double fam(int id, double p0, double p1, double p2, double x)
{
	switch(id)
	{
		case 0: return exp(-p0 * x) * cos(p1 * x + p2);				  // damped oscillation
		case 1: return 1.0 / (1.0 + p0 * (x - p1) * (x - p1)) + p2;	  // rational
		case 2: return exp(-(x - p0) * (x - p0) / (2.0 * p1 * p1)) + p2;   // Gaussian
		default: return p0 + p1 * x + p2 * x * x;
	}
}
struct Fam
{
	int id;
	double p0, p1, p2;
	double operator()(double x) const { return fam(id, p0, p1, p2, x); }
};
static Fam famarg(Args& a)
{
	Fam f;
	f.id = a.i64();
	f.p0 = a.dbl();
	f.p1 = a.dbl();
	f.p2 = a.dbl();
	return f;
}

struct Rec	 // range of the arguments the integrand received
{
	double lo[3] = {INFINITY, INFINITY, INFINITY}, hi[3] = {-INFINITY, -INFINITY, -INFINITY};
	long long calls = 0;
	void see(int ax, double v)
	{
		if(!(v >= lo[ax]))
			lo[ax] = std::isnan(v) ? v : std::min(lo[ax], v);
		if(!(v <= hi[ax]))
			hi[ax] = std::isnan(v) ? v : std::max(hi[ax], v);
	}
	void out(Out& o, int dim)
	{
		o << calls;
		for(int i = 0; i < dim; i++)
			o << lo[i] << hi[i];
	}
};

static bool is_mc(const std::string& m) { return m == "Monte-Carlo" || m == "Vegas" || m == "Miser"; }

std::string handle(const std::string& op, Args& a)
{
	g_fork_timeout_s = 120;
	if(op == "c13.selftest")
	{
		a.end();
		return "ok";
	}
	if(op == "c13.int1" || op == "c13.fam1" || op == "c13.asknownp" || op == "c13.asknown")
	{
		std::string m = a.tok();
		int p		  = a.i64();
		double x1 = a.dbl(), x2 = a.dbl();
		std::function<double(double)> f;
		if(op == "c13.int1" || op == "c13.asknownp")
		{
			auto t = terms(a);
			f	   = [t](double x) { return eval(t, x, 1.0, 1.0); };
		}
		else
		{
			Fam g = famarg(a);
			f	  = g;
		}
		a.end();
		return run_forked([&](Out& o) {
			Rec r;
			auto w = [&](double x) { r.calls++; r.see(0, x); return f(x); };
			double v  = Integrate(w, x1, x2, m, p);
			double v0 = (p == 0) ? Integrate(f, x1, x2, m) : v;	  // default method_parameter is 0
			o << v << v0;
			r.out(o, 1);
			o << Integrate(f, x2, x1, m, p);	 // reversed limits: must be the exact negative
		});
	}
	if(op == "c13.neg")
	{
		// 'reversing the limits negates the result', per axis: base value, one axis reversed at a time, all reversed
		int dim		  = a.i64();
		std::string m = a.tok();
		int p		  = a.i64();
		if(dim != 2 && dim != 3)
			throw BadArgs("dim");
		double l[6];
		for(int i = 0; i < 2 * dim; i++)
			l[i] = a.dbl();
		Fam f[3];
		for(int i = 0; i < dim; i++)
			f[i] = famarg(a);
		a.end();
		return run_forked([&](Out& o) {
			auto call = [&](unsigned mask) {
				double q[6];
				for(int i = 0; i < dim; i++)
				{
					bool rev	 = (mask >> i) & 1;
					q[2 * i]	 = rev ? l[2 * i + 1] : l[2 * i];
					q[2 * i + 1] = rev ? l[2 * i] : l[2 * i + 1];
				}
				Fam g = f[0], h = f[1], k = f[2];
				if(dim == 2)
					return Integrate_2D([g, h](double x, double y) { return g(x) * h(y); }, q[0], q[1], q[2], q[3], m, p);
				return Integrate_3D([g, h, k](double x, double y, double z) { return g(x) * h(y) * k(z); }, q[0], q[1], q[2], q[3], q[4], q[5], m, p);
			};
			o << call(0);
			for(int i = 0; i < dim; i++)
				o << call(1u << i);
			o << call((1u << dim) - 1);
		});
	}
	if(op == "c13.nest")
	{
		// re-entrant use of the named front end: the integrand of Integrate(F,a,b,M1,p1) calls Integrate(g(x,.),lo(x),hi(x),M2,p2)
		std::string m1 = a.tok();
		int p1		   = a.i64();
		std::string m2 = a.tok();
		int p2		   = a.i64();
		double x1 = a.dbl(), x2 = a.dbl(), l0 = a.dbl(), l1 = a.dbl(), h0 = a.dbl(), h1 = a.dbl();
		auto t = terms(a);
		a.end();
		return run_forked([&](Out& o) {
			// run 1: the nested computation, recording (x, F(x)) at every outer evaluation
			std::map<double, double> seen;
			std::vector<double> xs;
			double v1 = Integrate([&](double x) {
				double F = Integrate([&](double y) { return eval(t, x, y, 1.0); }, l0 + l1 * x, h0 + h1 * x, m2, p2);
				seen[x] = F;
				xs.push_back(x);
				return F;
			}, x1, x2, m1, p1);
			// run 2: the outer method alone on the recorded integrand values (no inner integration takes place)
			long long misses = 0, calls2 = 0;
			double v2 = Integrate([&](double x) {
				calls2++;
				auto it = seen.find(x);
				if(it == seen.end())
				{
					misses++;
					return 0.0;
				}
				return it->second;
			}, x1, x2, m1, p1);
			double lo = INFINITY, hi = -INFINITY;
			for(double x : xs)
			{
				lo = std::min(lo, x);
				hi = std::max(hi, x);
			}
			o << v1 << v2 << (long long) xs.size() << calls2 << misses << lo << hi;
		});
	}
	if(op == "c13.sphfirst")
	{
		// The vectors of the FIRST evaluations of the spherical overload in a fresh process (the integrand stops the
		// integration after K evaluations by throwing), and the (r, cos theta, phi) of the first evaluations of the
		// Cartesian overload with the same method and limits.
		std::string m = a.tok();
		int p		  = a.i64();
		double r1 = a.dbl(), r2 = a.dbl(), c1 = a.dbl(), c2 = a.dbl(), f1 = a.dbl(), f2 = a.dbl();
		a.end();
		return run_forked([&](Out& o) {
			const size_t K = 12;
			struct Stop {};
			std::vector<std::vector<double>> vecs, pts;
			auto val = [](double r, double c, double ph) { return exp(-r) * (1.0 + c * c) * (2.0 + cos(ph)); };
			try
			{
				(void) Integrate_3D([&](Vector v) {
					std::vector<double> q = {v.Size() == 3 ? v[0] : NAN, v.Size() == 3 ? v[1] : NAN, v.Size() == 3 ? v[2] : NAN};
					vecs.push_back(q);
					if(vecs.size() >= K)
						throw Stop();
					double nrm = v.Norm();
					return val(nrm, nrm > 0.0 ? v[2] / nrm : 0.0, atan2(v[1], v[0])) ;
				}, r1, r2, c1, c2, f1, f2, m, p);
			}
			catch(const Stop&) {}
			try
			{
				(void) Integrate_3D([&](double r, double c, double ph) {
					pts.push_back({r, c, ph});
					if(pts.size() >= K)
						throw Stop();
					return r * r * val(r, c, ph);
				}, r1, r2, c1, c2, f1, f2, m, p);
			}
			catch(const Stop&) {}
			o << vecs.size();
			for(auto& q : vecs)
				o << q[0] << q[1] << q[2];
			o << pts.size();
			for(auto& q : pts)
				o << q[0] << q[1] << q[2];
		});
	}
	if(op == "c13.seq")
	{
		// history: all calls in ONE child process, one after the other; then each call alone in a fresh child
		size_t k = a.u64();
		struct Member
		{
			int dim;
			std::string m;
			int p;
			double l[4];
			Fam f[2];
		};
		std::vector<Member> mem(k);
		for(auto& c : mem)
		{
			c.dim = a.i64();
			if(c.dim != 1 && c.dim != 2)
				throw BadArgs("dim");
			c.m = a.tok();
			c.p = a.i64();
			for(int i = 0; i < 2 * c.dim; i++)
				c.l[i] = a.dbl();
			for(int i = 0; i < c.dim; i++)
				c.f[i] = famarg(a);
		}
		a.end();
		auto call = [](const Member& c) {
			if(c.dim == 1)
				return Integrate(c.f[0], c.l[0], c.l[1], c.m, c.p);
			Fam g = c.f[0], h = c.f[1];
			return Integrate_2D([g, h](double x, double y) { return g(x) * h(y); }, c.l[0], c.l[1], c.l[2], c.l[3], c.m, c.p);
		};
		std::string seq = run_forked([&](Out& o) {
			for(auto& c : mem)
				o << call(c);
		});
		if(seq.compare(0, 2, "ok") != 0)
			return seq;
		std::string res = "ok " + std::to_string(k) + seq.substr(2) + " alone";
		for(auto& c : mem)
		{
			std::string one = run_forked([&](Out& o) { o << call(c); });
			if(one.compare(0, 2, "ok") != 0)
				return one;
			res += one.substr(2);
		}
		return res;
	}
	if(op == "c13.default1")   // default method is "Gauss-Legendre"
	{
		double x1 = a.dbl(), x2 = a.dbl();
		auto t = terms(a);
		a.end();
		return run_forked([&](Out& o) {
			auto f = [&](double x) { return eval(t, x, 1.0, 1.0); };
			o << Integrate(f, x1, x2) << Integrate(f, x1, x2, "Gauss-Legendre", 0);
		});
	}
	if(op == "c13.int2" || op == "c13.fam2")
	{
		std::string m = a.tok();
		int p		  = a.i64();
		double x1 = a.dbl(), x2 = a.dbl(), y1 = a.dbl(), y2 = a.dbl();
		g_seed = a.u64();
		std::function<double(double, double)> f;
		if(op == "c13.int2")
		{
			auto t = terms(a);
			f	   = [t](double x, double y) { return eval(t, x, y, 1.0); };
		}
		else
		{
			Fam g = famarg(a), h = famarg(a);
			f = [g, h](double x, double y) { return g(x) * h(y); };
		}
		a.end();
		return run_forked([&](Out& o) {
			Rec r;
			auto w = [&](double x, double y) { r.calls++; r.see(0, x); r.see(1, y); return f(x, y); };
			double v = Integrate_2D(w, x1, x2, y1, y2, m, p);
			// class D: the explicitly nested 1-D calls (deterministic methods only)
			double vn = v;
			if(!is_mc(m))
				vn = Integrate([&](double x) { return Integrate([&](double y) { return f(x, y); }, y1, y2, m, p); }, x1, x2, m, p);
			o << v << vn;
			r.out(o, 2);
		});
	}
	if(op == "c13.int3" || op == "c13.fam3")
	{
		std::string m = a.tok();
		int p		  = a.i64();
		double x1 = a.dbl(), x2 = a.dbl(), y1 = a.dbl(), y2 = a.dbl(), z1 = a.dbl(), z2 = a.dbl();
		g_seed = a.u64();
		std::function<double(double, double, double)> f;
		if(op == "c13.int3")
		{
			auto t = terms(a);
			f	   = [t](double x, double y, double z) { return eval(t, x, y, z); };
		}
		else
		{
			Fam g = famarg(a), h = famarg(a), k = famarg(a);
			f = [g, h, k](double x, double y, double z) { return g(x) * h(y) * k(z); };
		}
		a.end();
		return run_forked([&](Out& o) {
			Rec r;
			auto w = [&](double x, double y, double z) { r.calls++; r.see(0, x); r.see(1, y); r.see(2, z); return f(x, y, z); };
			double v  = Integrate_3D(w, x1, x2, y1, y2, z1, z2, m, p);
			double vn = v;
			if(!is_mc(m))
				vn = Integrate([&](double x) {
					return Integrate([&](double y) { return Integrate([&](double z) { return f(x, y, z); }, z1, z2, m, p); }, y1, y2, m, p);
				}, x1, x2, m, p);
			o << v << vn;
			r.out(o, 3);
		});
	}
	if(op == "c13.sph")
	{
		std::string m = a.tok();
		int p		  = a.i64();
		double r1 = a.dbl(), r2 = a.dbl(), c1 = a.dbl(), c2 = a.dbl(), f1 = a.dbl(), f2 = a.dbl();
		g_seed = a.u64();
		auto t = terms(a);	 // terms in (|v|, v_z/|v|, atan2(v_y, v_x))
		a.end();
		return run_forked([&](Out& o) {
			Rec r;
			double maxdim = 0.0;
			auto f = [&](Vector v) {
				r.calls++;
				if(v.Size() != 3)
					maxdim = 1.0;
				double nrm = v.Norm();
				double ct  = nrm > 0.0 ? v[2] / nrm : 0.0;
				// azimuth modulo 2 pi (undefined on the polar axis)
				double ph  = atan2(v[1], v[0]);
				double pmid = 0.5 * (f1 + f2);
				ph += 2.0 * M_PI * std::round((pmid - ph) / (2.0 * M_PI));	// the representative nearest to the middle of the phi range
				r.see(0, nrm);
				r.see(1, ct);
				if(v[0] != 0.0 || v[1] != 0.0)
					r.see(2, ph);
				return eval(t, nrm, ct, ph);
			};
			double v = Integrate_3D(f, r1, r2, c1, c2, f1, f2, m, p);
			// class D: the Cartesian overload on the integrand the wrapper is specified to build
			double vn = v;
			// (judged for the fixed-node rules only: an adaptive rule may take another refinement decision on an ulp)
			if(m == "Gauss-Legendre" || m == "Gauss-Legendre_2")
			{
				auto g = [&](double rr, double c, double ph) {
					Vector rv = Spherical_Coordinates(rr, acos(c), ph);
					double nrm = rv.Norm();
					double ph2 = atan2(rv[1], rv[0]);
					double pmid = 0.5 * (f1 + f2);
					ph2 += 2.0 * M_PI * std::round((pmid - ph2) / (2.0 * M_PI));
					return rr * rr * eval(t, nrm, nrm > 0.0 ? rv[2] / nrm : 0.0, ph2);
				};
				vn = Integrate_3D(g, r1, r2, c1, c2, f1, f2, m, p);
			}
			o << v << vn << maxdim;
			r.out(o, 3);
		});
	}
	if(op == "c13.sphrad")	 // radial exp / Gaussian integrand on the full sphere (default angular limits)
	{
		std::string m = a.tok();
		int p		  = a.i64();
		double r1 = a.dbl(), r2 = a.dbl();
		int kind   = a.i64();
		double par = a.dbl();
		a.end();
		return run_forked([&](Out& o) {
			auto f = [&](Vector v) { double n = v.Norm(); return kind == 0 ? exp(-par * n) : exp(-n * n / (2.0 * par * par)); };
			o << Integrate_3D(f, r1, r2, -1.0, 1.0, 0.0, 2.0 * M_PI, m, p);
		});
	}
	if(op == "c13.default23")	 // defaults of Integrate_2D, the Cartesian Integrate_3D and the partial angular defaults
	{
		double x1 = a.dbl(), x2 = a.dbl(), y1 = a.dbl(), y2 = a.dbl(), z1 = a.dbl(), z2 = a.dbl();
		a.end();
		return run_forked([&](Out& o) {
			auto f2 = [](double x, double y) { return 1.0 + x * y * y - 0.5 * y; };
			auto f3 = [](double x, double y, double z) { return 1.0 + x + 2.0 * y * z + 3.0 * z * z * x; };
			auto fv = [](Vector v) { double n = v.Norm(); return exp(-n) * (1.0 + v[2] / n); };
			const std::string GL = "Gauss-Legendre";
			o << Integrate_2D(f2, x1, x2, y1, y2) << Integrate_2D(f2, x1, x2, y1, y2, GL, 0) << Integrate_2D(f2, x1, x2, y1, y2, GL);
			o << Integrate_3D(f3, x1, x2, y1, y2, z1, z2) << Integrate_3D(f3, x1, x2, y1, y2, z1, z2, GL, 0) << Integrate_3D(f3, x1, x2, y1, y2, z1, z2, GL);
			double r1 = 0.5, r2 = 2.0, c1 = -0.25, c2 = 0.5, p1 = 0.5;
			o << Integrate_3D(fv, r1, r2, c1) << Integrate_3D(fv, r1, r2, c1, 1.0, 0.0, 2.0 * M_PI, GL, 0);
			o << Integrate_3D(fv, r1, r2, c1, c2) << Integrate_3D(fv, r1, r2, c1, c2, 0.0, 2.0 * M_PI, GL, 0);
			o << Integrate_3D(fv, r1, r2, c1, c2, p1) << Integrate_3D(fv, r1, r2, c1, c2, p1, 2.0 * M_PI, GL, 0);
		});
	}
	if(op == "c13.sweep")
	{
		// batch: N integrands of the property's families (the generator's own parameter ranges) through the named 1-D
		// method, judged in the harness against closed forms in long double
		std::string m = a.tok();
		long long N	  = a.i64();
		unsigned sd	  = a.u64();
		a.end();
		return run_forked([&](Out& o) {
			std::mt19937_64 g(sd * 2654435761ull + 17);
			auto U = [&](double lo, double hi) { return lo + (hi - lo) * ((g() >> 11) * (1.0 / 9007199254740992.0)); };
			const bool trap	  = m == "Trapezoidal";
			const double rel  = trap ? 1e-6 : 1e-9;
			const long double eps = ldexpl(1.0L, -53);
			long long nfail = 0;
			std::vector<std::vector<double>> bad;
			double worst = 0.0;
			for(long long it = 0; it < N; it++)
			{
				double lo = U(-5.0, 4.5);
				double hi = lo + U(0.3, 5.0 - lo > 0.3 ? std::min(5.0 - lo, 7.0) : 0.3);
				double L  = hi - lo;
				int fam_id = it % 3;
				Fam f;
				f.id = fam_id;
				long double I, A;
				if(fam_id == 0)
				{
					f.p0 = U(0.1, 2.0) / L;
					f.p1 = 2.0 * M_PI * U(0.2, 2.0) / L;
					f.p2 = U(0.0, 1.0) - f.p1 * lo;
					long double la = f.p0, om = f.p1, ph = f.p2;
					auto F = [&](long double x) { return expl(-la * x) * (om * sinl(om * x + ph) - la * cosl(om * x + ph)) / (la * la + om * om); };
					I = F(hi) - F(lo);
					A = 0.0L;
					for(int k = 0; k < 400; k++)
						A += fabsl((long double) f(lo + L * (k + 0.5) / 400.0)) * L / 400.0L;
				}
				else if(fam_id == 1)
				{
					f.p0 = U(0.5, 6.0) / (L * L);
					f.p1 = U(lo, hi);
					f.p2 = U(0.1, 1.0);
					long double rt = sqrtl((long double) f.p0);
					I = (atanl(rt * ((long double) hi - f.p1)) - atanl(rt * ((long double) lo - f.p1))) / rt + (long double) f.p2 * ((long double) hi - lo);
					A = I;
				}
				else
				{
					f.p0 = U(lo, hi);
					f.p1 = U(0.25, 1.0) * L;
					f.p2 = U(0.1, 1.0);
					long double sg = f.p1, s2 = sg * sqrtl(2.0L);
					I = sg * sqrtl(acosl(-1.0L) / 2.0L) * (erfl(((long double) hi - f.p0) / s2) - erfl(((long double) lo - f.p0) / s2)) + (long double) f.p2 * ((long double) hi - lo);
					A = I;
				}
				bool rev   = (it / 3) % 2;
				double val = rev ? Integrate(f, hi, lo, m, 0) : Integrate(f, lo, hi, m, 0);
				long double ref = rev ? -I : I;
				long double tol = trap ? rel * A : rel * fabsl(I) + 256.0L * eps * A;
				long double err = fabsl((long double) val - ref);
				if(!(err <= tol))
				{
					nfail++;
					if(bad.size() < 4)
						bad.push_back({(double) f.id, f.p0, f.p1, f.p2, rev ? hi : lo, rev ? lo : hi, val, (double) ref, (double) (err / fabsl(I))});
				}
				if(tol > 0 && (double) (err / tol) > worst)
					worst = (double) (err / tol);
			}
			o << N << nfail << worst << bad.size();
			for(auto& b : bad)
				for(double x : b)
					o << x;
		});
	}
	if(op == "c13.sphdefault")	 // default angular limits: the full sphere
	{
		double r1 = a.dbl(), r2 = a.dbl();
		auto t = terms(a);
		a.end();
		return run_forked([&](Out& o) {
			auto f = [&](Vector v) { return eval(t, v.Norm(), 1.0, 1.0); };
			o << Integrate_3D(f, r1, r2) << Integrate_3D(f, r1, r2, -1.0, 1.0, 0.0, 2.0 * M_PI, "Gauss-Legendre", 0);
		});
	}
	if(op == "c13.outcome1")
	{
		std::string m = a.tok();
		double x1 = a.dbl(), x2 = a.dbl();
		a.end();
		return run_forked([&](Out& o) { (void) Integrate([](double) { return 1.0; }, x1, x2, m, 0); });
	}
	if(op == "c13.outcome2")
	{
		std::string m = a.tok();
		a.end();
		return run_forked([&](Out& o) { (void) Integrate_2D([](double, double) { return 1.0; }, 0.0, 1.0, 0.0, 1.0, m, 0); });
	}
	if(op == "c13.outcome3")
	{
		std::string m = a.tok();
		a.end();
		return run_forked([&](Out& o) { (void) Integrate_3D([](double, double, double) { return 1.0; }, 0.0, 1.0, 0.0, 1.0, 0.0, 1.0, m, 0); });
	}
	if(op == "c13.outcomesph")
	{
		std::string m = a.tok();
		a.end();
		return run_forked([&](Out& o) { (void) Integrate_3D([](Vector) { return 1.0; }, 0.0, 1.0, -1.0, 1.0, 0.0, 1.0, m, 0); });
	}
	if(op == "c13.outcomemc")
	{
		std::string m = a.tok();
		a.end();
		return run_forked([&](Out& o) {
			std::function<double(std::vector<double>&, const double)> f = [](std::vector<double>&, const double) { return 1.0; };
			std::vector<double> region = {0.0, 0.0, 1.0, 1.0};
			(void) Integrate_MC(f, region, 1000, m);
		});
	}
	if(op == "c13.findeps")
	{
		double x1 = a.dbl(), x2 = a.dbl(), pr = a.dbl();
		auto c = a.dbls();
		a.end();
		return run([&](Out& o) {
			o << Find_Epsilon([&](double x) { double r = 0.0; for(size_t i = c.size(); i-- > 0;) r = c[i] + x * r; return r; }, x1, x2, pr);
		});
	}
	if(op == "c13.checklimits")
	{
		double x1 = a.dbl(), x2 = a.dbl();
		a.end();
		return run([&](Out& o) {
			double s = 1.0;
			Check_Integration_Limits(x1, x2, s);
			o << x1 << x2 << s;
		});
	}
	throw BadOp();
}
}	// namespace hz
