// C13 harness: named 1-D methods, nested 2-D/3-D integrals, spherical overload (src/Integration.cpp §1.3, §2.1).
#define HZ_MAIN
#include "common.hpp"

#include <random>

#include "libphysica/Integration.hpp"
#include "libphysica/Linear_Algebra.hpp"

using namespace libphysica;

// The Monte-Carlo integrators seed std::mt19937 from std::random_device: make them reproducible.
static unsigned int g_seed = 12345;
unsigned int std::random_device::_M_getval() { return g_seed++; }

namespace libphysica
{
extern void Check_Integration_Limits(double& a, double& b, double& sign);
}

namespace hz
{
struct Term
{
	double c;
	int i, j, k;
};
static std::vector<Term> terms(Args& a)
{
	size_t n = a.u64();
	std::vector<Term> t(n);
	for(auto& x : t)
	{
		x.c = a.dbl();
		x.i = a.i64();
		x.j = a.i64();
		x.k = a.i64();
	}
	return t;
}
static double ipow(double x, int n)
{
	double r = 1.0;
	for(int i = 0; i < n; i++)
		r *= x;
	return r;
}
static double eval(const std::vector<Term>& t, double x, double y, double z)
{
	double r = 0.0;
	for(auto& q : t)
		r += q.c * ipow(x, q.i) * ipow(y, q.j) * ipow(z, q.k);
	return r;
}

// 1-D families of the property's quantifier: id, three parameters
static double fam(int id, double p0, double p1, double p2, double x)
{
	switch(id)
	{
		case 0: return exp(-p0 * x) * cos(p1 * x + p2);				  // damped oscillation
		case 1: return 1.0 / (1.0 + p0 * (x - p1) * (x - p1)) + p2;	  // rational
		case 2: return exp(-(x - p0) * (x - p0) / (2.0 * p1 * p1)) + p2;   // Gaussian
		default: return p0 + p1 * x + p2 * x * x;
	}
}
struct Fam
{
	int id;
	double p0, p1, p2;
	double operator()(double x) const { return fam(id, p0, p1, p2, x); }
};
static Fam famarg(Args& a)
{
	Fam f;
	f.id = a.i64();
	f.p0 = a.dbl();
	f.p1 = a.dbl();
	f.p2 = a.dbl();
	return f;
}

struct Rec	 // range of the arguments the integrand received
{
	double lo[3] = {INFINITY, INFINITY, INFINITY}, hi[3] = {-INFINITY, -INFINITY, -INFINITY};
	long long calls = 0;
	void see(int ax, double v)
	{
		if(!(v >= lo[ax]))
			lo[ax] = std::isnan(v) ? v : std::min(lo[ax], v);
		if(!(v <= hi[ax]))
			hi[ax] = std::isnan(v) ? v : std::max(hi[ax], v);
	}
	void out(Out& o, int dim)
	{
		o << calls;
		for(int i = 0; i < dim; i++)
			o << lo[i] << hi[i];
	}
};

static bool is_mc(const std::string& m) { return m == "Monte-Carlo" || m == "Vegas" || m == "Miser"; }

std::string handle(const std::string& op, Args& a)
{
	g_fork_timeout_s = 120;
	if(op == "c13.selftest")
	{
		a.end();
		return "ok";
	}
	if(op == "c13.int1" || op == "c13.fam1")
	{
		std::string m = a.tok();
		int p		  = a.i64();
		double x1 = a.dbl(), x2 = a.dbl();
		std::function<double(double)> f;
		if(op == "c13.int1")
		{
			auto t = terms(a);
			f	   = [t](double x) { return eval(t, x, 1.0, 1.0); };
		}
		else
		{
			Fam g = famarg(a);
			f	  = g;
		}
		a.end();
		return run_forked([&](Out& o) {
			Rec r;
			auto w = [&](double x) { r.calls++; r.see(0, x); return f(x); };
			double v  = Integrate(w, x1, x2, m, p);
			double v0 = (p == 0) ? Integrate(f, x1, x2, m) : v;	  // default method_parameter is 0
			o << v << v0;
			r.out(o, 1);
			o << Integrate(f, x2, x1, m, p);	 // reversed limits: must be the exact negative
		});
	}
	if(op == "c13.neg")
	{
		// 'reversing the limits negates the result', per axis: base value, one axis reversed at a time, all reversed
		int dim		  = a.i64();
		std::string m = a.tok();
		int p		  = a.i64();
		if(dim != 2 && dim != 3)
			throw BadArgs("dim");
		double l[6];
		for(int i = 0; i < 2 * dim; i++)
			l[i] = a.dbl();
		Fam f[3];
		for(int i = 0; i < dim; i++)
			f[i] = famarg(a);
		a.end();
		return run_forked([&](Out& o) {
			auto call = [&](unsigned mask) {
				double q[6];
				for(int i = 0; i < dim; i++)
				{
					bool rev	 = (mask >> i) & 1;
					q[2 * i]	 = rev ? l[2 * i + 1] : l[2 * i];
					q[2 * i + 1] = rev ? l[2 * i] : l[2 * i + 1];
				}
				Fam g = f[0], h = f[1], k = f[2];
				if(dim == 2)
					return Integrate_2D([g, h](double x, double y) { return g(x) * h(y); }, q[0], q[1], q[2], q[3], m, p);
				return Integrate_3D([g, h, k](double x, double y, double z) { return g(x) * h(y) * k(z); }, q[0], q[1], q[2], q[3], q[4], q[5], m, p);
			};
			o << call(0);
			for(int i = 0; i < dim; i++)
				o << call(1u << i);
			o << call((1u << dim) - 1);
		});
	}
	if(op == "c13.seq")
	{
		// history: all calls in ONE child process, one after the other; then each call alone in a fresh child
		size_t k = a.u64();
		struct Member
		{
			int dim;
			std::string m;
			int p;
			double l[4];
			Fam f[2];
		};
		std::vector<Member> mem(k);
		for(auto& c : mem)
		{
			c.dim = a.i64();
			if(c.dim != 1 && c.dim != 2)
				throw BadArgs("dim");
			c.m = a.tok();
			c.p = a.i64();
			for(int i = 0; i < 2 * c.dim; i++)
				c.l[i] = a.dbl();
			for(int i = 0; i < c.dim; i++)
				c.f[i] = famarg(a);
		}
		a.end();
		auto call = [](const Member& c) {
			if(c.dim == 1)
				return Integrate(c.f[0], c.l[0], c.l[1], c.m, c.p);
			Fam g = c.f[0], h = c.f[1];
			return Integrate_2D([g, h](double x, double y) { return g(x) * h(y); }, c.l[0], c.l[1], c.l[2], c.l[3], c.m, c.p);
		};
		std::string seq = run_forked([&](Out& o) {
			for(auto& c : mem)
				o << call(c);
		});
		if(seq.compare(0, 2, "ok") != 0)
			return seq;
		std::string res = "ok " + std::to_string(k) + seq.substr(2) + " alone";
		for(auto& c : mem)
		{
			std::string one = run_forked([&](Out& o) { o << call(c); });
			if(one.compare(0, 2, "ok") != 0)
				return one;
			res += one.substr(2);
		}
		return res;
	}
	if(op == "c13.default1")   // default method is "Gauss-Legendre"
	{
		double x1 = a.dbl(), x2 = a.dbl();
		auto t = terms(a);
		a.end();
		return run_forked([&](Out& o) {
			auto f = [&](double x) { return eval(t, x, 1.0, 1.0); };
			o << Integrate(f, x1, x2) << Integrate(f, x1, x2, "Gauss-Legendre", 0);
		});
	}
	if(op == "c13.int2" || op == "c13.fam2")
	{
		std::string m = a.tok();
		int p		  = a.i64();
		double x1 = a.dbl(), x2 = a.dbl(), y1 = a.dbl(), y2 = a.dbl();
		g_seed = a.u64();
		std::function<double(double, double)> f;
		if(op == "c13.int2")
		{
			auto t = terms(a);
			f	   = [t](double x, double y) { return eval(t, x, y, 1.0); };
		}
		else
		{
			Fam g = famarg(a), h = famarg(a);
			f = [g, h](double x, double y) { return g(x) * h(y); };
		}
		a.end();
		return run_forked([&](Out& o) {
			Rec r;
			auto w = [&](double x, double y) { r.calls++; r.see(0, x); r.see(1, y); return f(x, y); };
			double v = Integrate_2D(w, x1, x2, y1, y2, m, p);
			// class D: the explicitly nested 1-D calls (deterministic methods only)
			double vn = v;
			if(!is_mc(m))
				vn = Integrate([&](double x) { return Integrate([&](double y) { return f(x, y); }, y1, y2, m, p); }, x1, x2, m, p);
			o << v << vn;
			r.out(o, 2);
		});
	}
	if(op == "c13.int3" || op == "c13.fam3")
	{
		std::string m = a.tok();
		int p		  = a.i64();
		double x1 = a.dbl(), x2 = a.dbl(), y1 = a.dbl(), y2 = a.dbl(), z1 = a.dbl(), z2 = a.dbl();
		g_seed = a.u64();
		std::function<double(double, double, double)> f;
		if(op == "c13.int3")
		{
			auto t = terms(a);
			f	   = [t](double x, double y, double z) { return eval(t, x, y, z); };
		}
		else
		{
			Fam g = famarg(a), h = famarg(a), k = famarg(a);
			f = [g, h, k](double x, double y, double z) { return g(x) * h(y) * k(z); };
		}
		a.end();
		return run_forked([&](Out& o) {
			Rec r;
			auto w = [&](double x, double y, double z) { r.calls++; r.see(0, x); r.see(1, y); r.see(2, z); return f(x, y, z); };
			double v  = Integrate_3D(w, x1, x2, y1, y2, z1, z2, m, p);
			double vn = v;
			if(!is_mc(m))
				vn = Integrate([&](double x) {
					return Integrate([&](double y) { return Integrate([&](double z) { return f(x, y, z); }, z1, z2, m, p); }, y1, y2, m, p);
				}, x1, x2, m, p);
			o << v << vn;
			r.out(o, 3);
		});
	}
	if(op == "c13.sph")
	{
		std::string m = a.tok();
		int p		  = a.i64();
		double r1 = a.dbl(), r2 = a.dbl(), c1 = a.dbl(), c2 = a.dbl(), f1 = a.dbl(), f2 = a.dbl();
		g_seed = a.u64();
		auto t = terms(a);	 // terms in (|v|, v_z/|v|, atan2(v_y, v_x))
		a.end();
		return run_forked([&](Out& o) {
			Rec r;
			double maxdim = 0.0;
			auto f = [&](Vector v) {
				r.calls++;
				if(v.Size() != 3)
					maxdim = 1.0;
				double nrm = v.Norm();
				double ct  = nrm > 0.0 ? v[2] / nrm : 0.0;
				double ph  = atan2(v[1], v[0]);
				r.see(0, nrm);
				r.see(1, ct);
				r.see(2, ph);
				return eval(t, nrm, ct, ph);
			};
			double v = Integrate_3D(f, r1, r2, c1, c2, f1, f2, m, p);
			// class D: the Cartesian overload on the integrand the wrapper is specified to build
			double vn = v;
			// (judged for the fixed-node rules only: an adaptive rule may take another refinement decision on an ulp)
			if(m == "Gauss-Legendre" || m == "Gauss-Legendre_2")
			{
				auto g = [&](double rr, double c, double ph) {
					Vector rv = Spherical_Coordinates(rr, acos(c), ph);
					double nrm = rv.Norm();
					return rr * rr * eval(t, nrm, nrm > 0.0 ? rv[2] / nrm : 0.0, atan2(rv[1], rv[0]));
				};
				vn = Integrate_3D(g, r1, r2, c1, c2, f1, f2, m, p);
			}
			o << v << vn << maxdim;
			r.out(o, 3);
		});
	}
	if(op == "c13.sphdefault")	 // default angular limits: the full sphere
	{
		double r1 = a.dbl(), r2 = a.dbl();
		auto t = terms(a);
		a.end();
		return run_forked([&](Out& o) {
			auto f = [&](Vector v) { return eval(t, v.Norm(), 1.0, 1.0); };
			o << Integrate_3D(f, r1, r2) << Integrate_3D(f, r1, r2, -1.0, 1.0, 0.0, 2.0 * M_PI, "Gauss-Legendre", 0);
		});
	}
	if(op == "c13.outcome1")
	{
		std::string m = a.tok();
		double x1 = a.dbl(), x2 = a.dbl();
		a.end();
		return run_forked([&](Out& o) { (void) Integrate([](double) { return 1.0; }, x1, x2, m, 0); });
	}
	if(op == "c13.outcome2")
	{
		std::string m = a.tok();
		a.end();
		return run_forked([&](Out& o) { (void) Integrate_2D([](double, double) { return 1.0; }, 0.0, 1.0, 0.0, 1.0, m, 0); });
	}
	if(op == "c13.outcome3")
	{
		std::string m = a.tok();
		a.end();
		return run_forked([&](Out& o) { (void) Integrate_3D([](double, double, double) { return 1.0; }, 0.0, 1.0, 0.0, 1.0, 0.0, 1.0, m, 0); });
	}
	if(op == "c13.outcomesph")
	{
		std::string m = a.tok();
		a.end();
		return run_forked([&](Out& o) { (void) Integrate_3D([](Vector) { return 1.0; }, 0.0, 1.0, -1.0, 1.0, 0.0, 1.0, m, 0); });
	}
	if(op == "c13.outcomemc")
	{
		std::string m = a.tok();
		a.end();
		return run_forked([&](Out& o) {
			std::function<double(std::vector<double>&, const double)> f = [](std::vector<double>&, const double) { return 1.0; };
			std::vector<double> region = {0.0, 0.0, 1.0, 1.0};
			(void) Integrate_MC(f, region, 1000, m);
		});
	}
	if(op == "c13.findeps")
	{
		double x1 = a.dbl(), x2 = a.dbl(), pr = a.dbl();
		auto c = a.dbls();
		a.end();
		return run([&](Out& o) {
			o << Find_Epsilon([&](double x) { double r = 0.0; for(size_t i = c.size(); i-- > 0;) r = c[i] + x * r; return r; }, x1, x2, pr);
		});
	}
	if(op == "c13.checklimits")
	{
		double x1 = a.dbl(), x2 = a.dbl();
		a.end();
		return run([&](Out& o) {
			double s = 1.0;
			Check_Integration_Limits(x1, x2, s);
			o << x1 << x2 << s;
		});
	}
	throw BadOp();
}
}	// namespace hz
