// Shared part of every per-property harness: line protocol, exact hex-float I/O, forked
// execution of requests that may terminate the process, sanitizer outcome classification.
//
//   stdin :  <id> <op> <args...>           (one request per line, doubles as C99 hex floats)
//   out   :  <id> <observation>            ok <values...> | err | exit-nodiag <st> | exit0 |
//                                          signal <n> | asan | timeout | bad-op | bad-args
//
// The library's own chatter on stdout/stderr never reaches the protocol stream: the harness
// writes to a private duplicate of the original stdout and redirects fds 1/2 to a log file.
#pragma once
#include <cstdio>
#include <cstdlib>
#include <cstring>
#include <cmath>
#include <cstdint>
#include <climits>
#include <cerrno>
#include <cfenv>
#include <locale>
#include <functional>
#include <iostream>
#include <sstream>
#include <stdexcept>
#include <string>
#include <vector>
#include <fcntl.h>
#include <signal.h>
#include <sys/stat.h>
#include <sys/types.h>
#include <sys/wait.h>
#include <unistd.h>

extern "C" const char* __asan_default_options()
{
	return "exitcode=99:detect_leaks=0:abort_on_error=0:allocator_may_return_null=1:handle_segv=1";
}
extern "C" const char* __ubsan_default_options() { return "print_stacktrace=0:halt_on_error=1"; }

// built with --coverage by tools/coverage.py: children leave through _exit, so flush the counters by hand
#ifdef HZ_COVERAGE
extern "C" void __gcov_dump(void);
#define HZ_GCOV_DUMP() __gcov_dump()
#else
#define HZ_GCOV_DUMP() ((void) 0)
#endif

namespace hz
{
struct BadArgs : std::runtime_error
{
	BadArgs(const std::string& s) : std::runtime_error(s) {}
};
struct BadOp : std::runtime_error
{
	BadOp() : std::runtime_error("bad-op") {}
};

inline std::string hex(double x)
{
	char buf[64];
	if(std::isnan(x))
		return "nan";
	if(std::isinf(x))
		return x > 0 ? "inf" : "-inf";
	snprintf(buf, sizeof buf, "%a", x);
	return buf;
}

struct Args
{
	std::vector<std::string> t;
	size_t pos = 0;
	bool more() const { return pos < t.size(); }
	const std::string& tok()
	{
		if(pos >= t.size())
			throw BadArgs("missing token");
		return t[pos++];
	}
	long long i64()
	{
		const std::string& s = tok();
		char* e;
		long long v = strtoll(s.c_str(), &e, 10);
		if(*e || s.empty())
			throw BadArgs("int: " + s);
		return v;
	}
	unsigned long long u64()
	{
		const std::string& s = tok();
		char* e;
		unsigned long long v = strtoull(s.c_str(), &e, 10);
		if(*e || s.empty())
			throw BadArgs("uint: " + s);
		return v;
	}
	double dbl()
	{
		const std::string& s = tok();
		if(s == "nan")
			return NAN;
		if(s == "inf")
			return INFINITY;
		if(s == "-inf")
			return -INFINITY;
		char* e;
		double v = strtod(s.c_str(), &e);
		if(*e || s.empty())
			throw BadArgs("double: " + s);
		return v;
	}
	void kw(const char* k)
	{
		if(tok() != k)
			throw BadArgs(std::string("expected ") + k);
	}
	std::vector<double> dbls()
	{
		size_t n = u64();
		std::vector<double> v(n);
		for(auto& x : v)
			x = dbl();
		return v;
	}
	std::vector<int> ints()
	{
		size_t n = u64();
		std::vector<int> v(n);
		for(auto& x : v)
			x = (int) i64();
		return v;
	}
	void end()
	{
		if(pos != t.size())
			throw BadArgs("trailing tokens");
	}
};

struct Out
{
	std::ostringstream s;
	Out& operator<<(double x)
	{
		s << " " << hex(x);
		return *this;
	}
	Out& operator<<(long long x)
	{
		s << " " << x;
		return *this;
	}
	Out& operator<<(int x) { return *this << (long long) x; }
	Out& operator<<(unsigned x) { return *this << (long long) x; }
	Out& operator<<(size_t x) { return *this << (long long) x; }
	Out& operator<<(const std::string& x)
	{
		s << " " << x;
		return *this;
	}
	Out& operator<<(const char* x)
	{
		s << " " << x;
		return *this;
	}
	Out& operator<<(const std::vector<double>& v)
	{
		for(double x : v)
			*this << x;
		return *this;
	}
	Out& list(const std::vector<double>& v)
	{
		*this << (long long) v.size();
		return *this << v;
	}
	template <class I>
	Out& ilist(const std::vector<I>& v)
	{
		*this << (long long) v.size();
		for(auto x : v)
			*this << (long long) x;
		return *this;
	}
};

extern int g_out_fd;	// private duplicate of the original stdout
extern int g_fork_timeout_s;
extern long g_forks, g_asan, g_signals;

inline void emit(const std::string& line)
{
	std::string l = line + "\n";
	const char* p = l.data();
	size_t n	  = l.size();
	while(n)
	{
		ssize_t w = write(g_out_fd, p, n);
		if(w <= 0)
			_exit(3);
		p += w;
		n -= w;
	}
}

inline std::string slurp_fd(int fd, size_t cap = 1 << 20)
{
	std::string r;
	lseek(fd, 0, SEEK_SET);
	char buf[4096];
	ssize_t k;
	while((k = read(fd, buf, sizeof buf)) > 0 && r.size() < cap)
		r.append(buf, k);
	return r;
}

inline int tmpfd()
{
	char name[] = "/dev/shm/lpharnessXXXXXX";
	int fd		= mkstemp(name);
	if(fd < 0)
	{
		char name2[] = "/var/tmp/lpharnessXXXXXX";
		fd			 = mkstemp(name2);
		if(fd >= 0)
			unlink(name2);
		return fd;
	}
	unlink(name);
	return fd;
}

// Process-global state the library does not own (DESIGN.md section 16, sixth wave). With HZ_DIRTY_ENV set the harness raises
// every sticky floating-point exception flag and sets errno = ERANGE or EDOM (by a hash of the request id) right before each request body: a library that READS that
// state answers differently from the clean run (check.py compares the two runs bitwise). After each body the rounding mode, the
// formatting state of std::cout/std::cerr and the global locale must be what they were: a library that LEAVES them changed is
// reported as " env-changed:<what>" behind the observation.
extern bool g_dirty_env;
extern int g_dirty_errno;	// ERANGE or EDOM, chosen per request from a hash of its id (seventh wave: stale EDOM as well as ERANGE)
inline void env_dirty()
{
	if(g_dirty_env)
	{
		feraiseexcept(FE_ALL_EXCEPT);
		errno = g_dirty_errno;
	}
}
struct EnvSnapshot
{
	int round;
	std::ios_base::fmtflags cout_flags, cerr_flags;
	std::streamsize cout_prec, cerr_prec;
	char cout_fill, cerr_fill;
	std::string loc;
	EnvSnapshot()
	: round(fegetround()), cout_flags(std::cout.flags()), cerr_flags(std::cerr.flags()), cout_prec(std::cout.precision()), cerr_prec(std::cerr.precision()), cout_fill(std::cout.fill()), cerr_fill(std::cerr.fill()), loc(std::locale().name())
	{
	}
	// what differs now; restores the snapshot
	std::string changed()
	{
		std::string w;
		if(fegetround() != round)
		{
			w += " env-changed:rounding-mode";
			fesetround(round);
		}
		if(std::cout.flags() != cout_flags || std::cout.precision() != cout_prec || std::cout.fill() != cout_fill)
		{
			w += " env-changed:cout-format";
			std::cout.flags(cout_flags);
			std::cout.precision(cout_prec);
			std::cout.fill(cout_fill);
		}
		if(std::cerr.flags() != cerr_flags || std::cerr.precision() != cerr_prec || std::cerr.fill() != cerr_fill)
		{
			w += " env-changed:cerr-format";
			std::cerr.flags(cerr_flags);
			std::cerr.precision(cerr_prec);
			std::cerr.fill(cerr_fill);
		}
		if(std::locale().name() != loc)
		{
			w += " env-changed:global-locale";
			std::locale::global(std::locale::classic());
		}
		return w;
	}
};

// Run `body` in a forked child. The child's fds 1/2 go to a scratch file (the "diagnostic");
// the observation it produces goes to another scratch file. Classification:
//   normal return                          -> what body wrote ("ok ...")
//   exit status != 0, diagnostic non-empty -> "err"
//   exit status != 0, diagnostic empty     -> "exit-nodiag <status>"
//   exit(0) without returning              -> "exit0"
//   sanitizer report                       -> "asan"       (exit code 99 / report text)
//   signal                                 -> "signal <n>"
inline std::string run_forked(const std::function<void(Out&)>& body, std::string* diag_text = nullptr)
{
	g_forks++;
	int rfd = tmpfd(), dfd = tmpfd();
	if(rfd < 0 || dfd < 0)
	{
		emit("harness-internal-error tmpfd");
		_exit(3);
	}
	fflush(stdout);
	fflush(stderr);
	pid_t pid = fork();
	if(pid == 0)
	{
		dup2(dfd, 1);
		dup2(dfd, 2);
		alarm(g_fork_timeout_s);
		Out o;
		EnvSnapshot snap;
		env_dirty();
		body(o);
		o.s << snap.changed();
		std::cout.flush();
		std::cerr.flush();
		fflush(stdout);
		std::string r = "R" + o.s.str();
		if(write(rfd, r.data(), r.size()) < 0) {}
		HZ_GCOV_DUMP();
		_exit(0);
	}
	int st = 0;
	waitpid(pid, &st, 0);
	std::string res	 = slurp_fd(rfd);
	std::string diag = slurp_fd(dfd);
	close(rfd);
	close(dfd);
	if(diag_text)
		*diag_text = diag;
	bool san = diag.find("AddressSanitizer") != std::string::npos || diag.find("runtime error:") != std::string::npos || diag.find("LeakSanitizer") != std::string::npos;
	if(WIFSIGNALED(st))
	{
		if(WTERMSIG(st) == SIGALRM)
			return "timeout";
		if(san)
		{
			g_asan++;
			return "asan";
		}
		g_signals++;
		return "signal " + std::to_string(WTERMSIG(st));
	}
	int code = WEXITSTATUS(st);
	if(san || code == 99)
	{
		g_asan++;
		return "asan";
	}
	if(code == 0)
	{
		if(!res.empty() && res[0] == 'R')
			return "ok" + res.substr(1);
		return "exit0";
	}
	bool nonempty = false;
	for(char c : diag)
		if(!isspace((unsigned char) c))
			nonempty = true;
	if(nonempty)
		return "err";
	return "exit-nodiag " + std::to_string(code);
}

// in-process execution for requests that cannot terminate the process
inline std::string run_inline(const std::function<void(Out&)>& body)
{
	Out o;
	EnvSnapshot snap;
	env_dirty();
	body(o);
	o.s << snap.changed();
	return "ok" + o.s.str();
}

extern bool g_fork_all;
// `run`: inline unless HZ_FORK_ALL is set (fallback used by check.py after a harness crash)
inline std::string run(const std::function<void(Out&)>& body)
{
	return g_fork_all ? run_forked(body) : run_inline(body);
}

// each harness defines this: return the observation for one request
std::string handle(const std::string& op, Args& a);

}	// namespace hz

#ifdef HZ_MAIN
namespace hz
{
int g_out_fd		 = 1;
int g_fork_timeout_s = 20;
long g_forks = 0, g_asan = 0, g_signals = 0;
bool g_fork_all = false;
bool g_dirty_env = false;
int g_dirty_errno = ERANGE;
}	// namespace hz

int main(int argc, char** argv)
{
	using namespace hz;
	g_out_fd		= dup(1);
	g_fork_all		= getenv("HZ_FORK_ALL") != nullptr;
	g_dirty_env		= getenv("HZ_DIRTY_ENV") != nullptr;
	const char* log = argc > 1 ? argv[1] : "/dev/null";
	int lfd			= open(log, O_WRONLY | O_CREAT | O_TRUNC, 0644);
	if(lfd >= 0)
	{
		dup2(lfd, 1);
		dup2(lfd, 2);
		close(lfd);
	}
	std::string line;
	while(std::getline(std::cin, line))
	{
		std::istringstream is(line);
		Args a;
		std::string tok;
		while(is >> tok)
			a.t.push_back(tok);
		if(a.t.empty())
			continue;
		std::string id = a.t[0];
		{
			// the stale errno of the dirty run: a pseudo-random half of the requests sees ERANGE, the other half EDOM
			unsigned long h = 1469598103934665603UL;
			for(char ch : id)
				h = (h ^ (unsigned char) ch) * 1099511628211UL;
			g_dirty_errno = ((h >> 17) & 1) ? EDOM : ERANGE;
		}
		if(a.t.size() < 2)
		{
			emit(id + " bad-op");
			continue;
		}
		std::string op = a.t[1];
		a.pos		   = 2;
		std::string obs;
		try
		{
			obs = handle(op, a);
		}
		catch(const BadOp&)
		{
			obs = "bad-op";
		}
		catch(const BadArgs& e)
		{
			obs = std::string("bad-args ") + e.what();
		}
		emit(id + " " + obs);
	}
	emit("# forks " + std::to_string(g_forks) + " asan " + std::to_string(g_asan) + " signals " + std::to_string(g_signals));
	return 0;
}
#endif
