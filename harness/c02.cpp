// C02 harness: libphysica::Find_Root(func, xLeft, xRight, xAccuracy) — Ridder's method.
// The function is described in the request so that the model can evaluate the same function;
// the callback records every abscissa at which the library calls it.
#define HZ_MAIN
#include "common.hpp"

#include <memory>

#include "libphysica/Numerics.hpp"
#include "libphysica/Special_Functions.hpp"

using namespace libphysica;

namespace hz
{
struct Fn
{
	std::string kind;
	std::vector<double> p, q;
	double w = 0, s = 0, c = 0, t = 0, q0 = 0;
	long long ip = 0;
	std::shared_ptr<Fn> inner;
	static double horner(const std::vector<double>& c, double x)
	{
		double r = 0.0;
		for(size_t i = c.size(); i-- > 0;)
			r = c[i] + x * r;
		return r;
	}
	double operator()(double x) const
	{
		if(kind == "poly")
			return horner(p, x);
		if(kind == "rat")
			return horner(p, x) / horner(q, x);
		if(kind == "powc")	 // x^p - c, integer p
			return std::pow(x, (double) ip) - c;
		if(kind == "sat")	// (x-s)/(1+|x-s|) - c
			return (x - s) / (1.0 + std::fabs(x - s)) - c;
		if(kind == "rbump")	  // c * (x-s) * (1+x^2)^-p
			return c * (x - s) * std::pow(1.0 / (1.0 + x * x), (double) ip);
		if(kind == "plat")	 // 1/(1+x^2)^k - d : tiny same-sign plateaus far from the root
			return std::pow(1.0 / (1.0 + x * x), (double) ip) - c;
		if(kind == "scale")	  // c * inner(x): the value scale of the function (down to subnormal, up to 1e300)
			return w * (*inner)(x);
		if(kind == "at")   // the value v (any double incl. nan, +-inf, 0) at x == t, the inner function elsewhere
			return x == t ? w : (*inner)(x);
		if(kind == "nanle")
			return x <= t ? NAN : (*inner)(x);
		if(kind == "nange")
			return x >= t ? NAN : (*inner)(x);
		// transcendental families (oracle only): parameters w, s, c
		if(kind == "atan")
			return std::atan(w * (x - s)) - c;
		if(kind == "erf")
			return std::erf(w * (x - s)) - c;
		if(kind == "tanh")
			return std::tanh(w * (x - s)) - c;
		if(kind == "rpow")	 // x^w - c, real exponent
			return std::pow(x, w) - c;
		if(kind == "expm")	 // exp(w*(x-s)) - c
			return std::exp(w * (x - s)) - c;
		if(kind == "logx")	 // log(x/s)*w - c
			return w * std::log(x / s) - c;
		if(kind == "dip")	// tiny positive plateau right of the root r, deep negative dip left of it (a = left end of the bracket)
			return x > s ? c * std::tanh((x - s) / w) : -(s - x) * ((x - t) + q0);
		if(kind == "gbump")	  // c * (x-s) * exp(-w*x^2): sign change at s, tails hundreds of decades below the interior
			return c * (x - s) * std::exp(-w * x * x);
		if(kind == "gauss")	  // exp(-w*(x-s)^2) - c
			return std::exp(-w * (x - s) * (x - s)) - c;
		if(kind == "dexp")	 // exp(-t) - c*exp(-|w|*t), t = x-s (w>0) or s-x (w<0): steep crossing next to s, slow decay
		{
			double t = w > 0 ? x - s : s - x;
			return std::exp(-t) - c * std::exp(-std::fabs(w) * t);
		}
		if(kind == "cosx")	 // cos(w*(x-s)) - c : several roots
			return std::cos(w * (x - s)) - c;
		throw BadArgs("fn kind " + kind);
	}
};

static Fn parse_fn(Args& a)
{
	Fn f;
	f.kind = a.tok();
	if(f.kind == "poly")
		f.p = a.dbls();
	else if(f.kind == "rat")
	{
		f.p = a.dbls();
		f.q = a.dbls();
	}
	else if(f.kind == "powc" || f.kind == "plat")
	{
		f.ip = a.i64();
		f.c	 = a.dbl();
	}
	else if(f.kind == "dip")   // dip <a> <r> <w> <eta> <kappa>
	{
		f.t	 = a.dbl();
		f.s	 = a.dbl();
		f.w	 = a.dbl();
		f.c	 = a.dbl();
		f.q0 = a.dbl();
	}
	else if(f.kind == "rbump")
	{
		f.ip = a.i64();
		f.s	 = a.dbl();
		f.c	 = a.dbl();
	}
	else if(f.kind == "sat")
	{
		f.s = a.dbl();
		f.c = a.dbl();
	}
	else if(f.kind == "scale")
	{
		f.w		= a.dbl();
		f.inner = std::make_shared<Fn>(parse_fn(a));
	}
	else if(f.kind == "at")
	{
		f.t		= a.dbl();
		f.w		= a.dbl();
		f.inner = std::make_shared<Fn>(parse_fn(a));
	}
	else if(f.kind == "nanle" || f.kind == "nange")
	{
		f.t		= a.dbl();
		f.inner = std::make_shared<Fn>(parse_fn(a));
	}
	else
	{
		f.w = a.dbl();
		f.s = a.dbl();
		f.c = a.dbl();
		f(1.0);	  // validates the kind
	}
	return f;
}

// number of evaluations so far, reported on the diagnostic stream when the library terminates the process
// (on a private scratch file, NOT on the diagnostic stream: an exit without diagnostic must stay recognisable)
static long g_evals = 0;
static int g_count_fd = -1;
static void report_evals_at_exit()
{
	if(g_count_fd >= 0)
		dprintf(g_count_fd, "%ld", g_evals);
}

static std::string do_root(Args& a)
{
	Fn fn	   = parse_fn(a);
	double xl  = a.dbl();
	double xr  = a.dbl();
	double acc = a.dbl();
	a.end();
	g_count_fd		= tmpfd();
	std::string res = run_forked([&](Out& o) {
		std::vector<double> xs;
		std::vector<double> fs;	  // the values the library saw (the "double function")
		g_evals = 0;
		std::atexit(report_evals_at_exit);	 // (child process only) std::exit of the library runs it
		auto cb = [&](double x) {
			g_evals++;
			xs.push_back(x);
			double v = fn(x);
			fs.push_back(v);
			return v;
		};
		// the max-iteration warning goes to std::cout; diagnostics of the exit paths go to std::cerr
		std::ostringstream cap_out;
		std::streambuf* ob = std::cout.rdbuf(cap_out.rdbuf());
		double r		   = Find_Root(cb, xl, xr, acc);
		std::cout.rdbuf(ob);
		// the iteration-limit warning (the only output of Find_Root on stdout) is recognised by its existence, not its wording
		int maxit = cap_out.str().find("Warning") != std::string::npos;
		o << r << maxit;
		o.list(xs);
		o.list(fs);
	});
	if(g_count_fd >= 0)
	{
		std::string cnt = slurp_fd(g_count_fd);
		close(g_count_fd);
		g_count_fd = -1;
		if(res == "err" && !cnt.empty())   // how many evaluations preceded the diagnostic exit
			res += " evals " + std::to_string(atol(cnt.c_str()));
	}
	return res;
}

std::string handle(const std::string& op, Args& a)
{
	if(op == "c02.root" || op == "c02.fam")
		return do_root(a);
	if(op == "c02.sign")   // the two-argument Sign used by the re-bracketing tests
	{
		double x = a.dbl(), y = a.dbl();
		a.end();
		return run([&](Out& o) { o << Sign(x, y); });
	}
	throw BadOp();
}
}	// namespace hz
