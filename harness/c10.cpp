// C10 harness: one operation per guarded entry point, taking the boundary arguments.
// EVERY request runs in a forked child (any of them may std::exit or crash); the library is
// compiled with ASan+UBSan, so an out-of-range access is observed as `asan`.
#define HZ_MAIN
#include "common.hpp"

#include <complex>
#include <fstream>
#include <memory>
#include <random>
#include <utility>

#include "libphysica/Integration.hpp"
#include "libphysica/Linear_Algebra.hpp"
#include "libphysica/List_Manipulations.hpp"
#include "libphysica/Natural_Units.hpp"
#include "libphysica/Numerics.hpp"
#include "libphysica/Special_Functions.hpp"
#include "libphysica/Statistics.hpp"
#include "libphysica/Utilities.hpp"

using namespace libphysica;

namespace hz
{
static unsigned U(Args& a) { return (unsigned) a.u64(); }

static std::vector<std::vector<double>> rows_of(const std::vector<int>& lens, double v = 1.0)
{
	std::vector<std::vector<double>> r;
	for(int l : lens)
		r.push_back(std::vector<double>(l, v));
	return r;
}

static std::vector<std::vector<double>> table(Args& a)
{
	size_t n = a.u64();
	std::vector<std::vector<double>> t(n);
	for(auto& r : t)
		r = a.dbls();
	return t;
}

static std::string method(Args& a)
{
	const std::string& t = a.tok();
	if(t.rfind("m:", 0) != 0)
		throw BadArgs("method token");
	return t.substr(2);
}

static std::vector<double> ramp(size_t n)
{
	std::vector<double> y(n);
	for(size_t i = 0; i < n; i++)
		y[i] = (double) ((i * 7) % 5) - 1.5;
	return y;
}

// scratch file path (created empty); the caller unlinks it
static std::string scratch_file()
{
	char name[] = "/dev/shm/lpc10XXXXXX";
	int fd		= mkstemp(name);
	if(fd >= 0)
	{
		close(fd);
		return name;
	}
	char name2[] = "/var/tmp/lpc10XXXXXX";
	fd			 = mkstemp(name2);
	if(fd < 0)
		throw BadArgs("no scratch file");
	close(fd);
	return name2;
}

std::string handle(const std::string& op, Args& a)
{
	// ---------------------------------------------------------------- 1. Vector
	if(op == "c10.vec.index" || op == "c10.vec.cindex")
	{
		unsigned d = U(a), i = U(a);
		a.end();
		bool cst = op == "c10.vec.cindex";
		return run_forked([&](Out& o) {
			Vector v(d, 1.5);
			if(cst)
			{
				const Vector& cv = v;
				o << cv[i];
			}
			else
			{
				v[i] = 2.5;
				o << v[i];
			}
		});
	}
	if(op == "c10.vec.dot" || op == "c10.vec.cross" || op == "c10.vec.add" || op == "c10.vec.sub" || op == "c10.vec.addeq" || op == "c10.vec.subeq" || op == "c10.vec.mul")
	{
		unsigned n = U(a), m = U(a);
		a.end();
		return run_forked([&](Out& o) {
			Vector x(n, 1.5), y(m, 0.5);
			if(op == "c10.vec.dot")
				o << x.Dot(y);
			else if(op == "c10.vec.mul")
				o << x * y;
			else
			{
				Vector r;
				if(op == "c10.vec.cross")
					r = x.Cross(y);
				else if(op == "c10.vec.add")
					r = x + y;
				else if(op == "c10.vec.sub")
					r = x - y;
				else if(op == "c10.vec.addeq")
				{
					x += y;
					r = x;
				}
				else
				{
					x -= y;
					r = x;
				}
				o << r.Size();
				for(unsigned i = 0; i < r.Size(); i++)
					o << r[i];
			}
		});
	}
	// ---------------------------------------------------------------- 2. Matrix
	if(op == "c10.vec.move" || op == "c10.mat.move")	// objects moved / swapped / pushed into containers, then requests relative to the REPORTED shape
	{
		bool mat = op == "c10.mat.move";
		size_t np = a.u64();
		std::vector<std::pair<unsigned, unsigned>> sh(np);
		for(auto& p : sh)
		{
			p.first	 = U(a);
			p.second = mat ? U(a) : 0;
		}
		size_t k = a.u64();
		struct Step
		{
			std::string name;
			std::vector<unsigned> n;
		};
		std::vector<Step> steps;
		for(size_t i = 0; i < k; i++)
		{
			std::string t = a.tok();
			Step st;
			size_t pos = t.find(':');
			st.name	   = t.substr(0, pos);
			while(pos != std::string::npos)
			{
				size_t nx = t.find(':', pos + 1);
				st.n.push_back((unsigned) strtoull(t.substr(pos + 1, nx == std::string::npos ? std::string::npos : nx - pos - 1).c_str(), nullptr, 10));
				pos = nx;
			}
			const std::string& n = st.name;
			size_t want			 = (n == "use" || n == "atsize") ? 1 : 2;
			if(!(n == "mc" || n == "ma" || n == "pb" || n == "sw" || n == "cp" || n == "use" || n == "atsize" || n == "grow") || st.n.size() != want)
				throw BadArgs("move step " + t);
			for(size_t j = 0; j < st.n.size() && !(n == "grow" && j == 1); j++)
				if(st.n[j] >= np)
					throw BadArgs("slot " + t);
			steps.push_back(st);
		}
		a.end();
		if(!mat)
			return run_forked([&](Out& o) {
				std::vector<std::unique_ptr<Vector>> pool;
				for(auto& p : sh)
					pool.push_back(std::unique_ptr<Vector>(new Vector(p.first, 1.5)));
				std::vector<Vector> list;
				for(auto& st : steps)
				{
					const std::string& n = st.name;
					if(n == "mc")
						pool[st.n[1]].reset(new Vector(std::move(*pool[st.n[0]])));
					else if(n == "ma")
					{
						if(st.n[0] != st.n[1])
							*pool[st.n[1]] = std::move(*pool[st.n[0]]);
					}
					else if(n == "pb")
					{
						list.push_back(std::move(*pool[st.n[0]]));
						pool[st.n[1]].reset(new Vector(list.back()));
					}
					else if(n == "sw")
						std::swap(*pool[st.n[0]], *pool[st.n[1]]);
					else if(n == "cp")
						pool[st.n[1]].reset(new Vector(*pool[st.n[0]]));
					else
					{
						Vector& v  = *pool[st.n[0]];
						unsigned d = v.Size();
						if(n == "use")
						{
							for(unsigned i = 0; i < d; i++)
								v[i] = v[i] + 1.0;
							v += Vector(d, 0.5);
							v -= Vector(d, 0.25);
							const Vector& cv = v;
							double s		 = cv.Dot(Vector(d, 2.0)) + cv.Norm();
							for(unsigned i = 0; i < d; i++)
								s += cv[i];
							Vector w = v + Vector(d, 1.0);
							o << d << w.Size() << (std::isnan(s) ? 1 : 0);
						}
						else if(n == "atsize")
							o << v[d];
						else
						{
							v.Resize(d + st.n[1]);
							for(unsigned i = 0; i < v.Size(); i++)
								v[i] = 2.5;
							o << v.Size();
						}
					}
				}
				for(auto& p : pool)
					o << p->Size();
			});
		return run_forked([&](Out& o) {
			std::vector<std::unique_ptr<Matrix>> pool;
			for(auto& p : sh)
				pool.push_back(std::unique_ptr<Matrix>(new Matrix(p.first, p.second, 1.5)));
			std::vector<Matrix> list;
			for(auto& st : steps)
			{
				const std::string& n = st.name;
				if(n == "mc")
					pool[st.n[1]].reset(new Matrix(std::move(*pool[st.n[0]])));
				else if(n == "ma")
				{
					if(st.n[0] != st.n[1])
						*pool[st.n[1]] = std::move(*pool[st.n[0]]);
				}
				else if(n == "pb")
				{
					list.push_back(std::move(*pool[st.n[0]]));
					pool[st.n[1]].reset(new Matrix(list.back()));
				}
				else if(n == "sw")
					std::swap(*pool[st.n[0]], *pool[st.n[1]]);
				else if(n == "cp")
					pool[st.n[1]].reset(new Matrix(*pool[st.n[0]]));
				else
				{
					Matrix& M  = *pool[st.n[0]];
					unsigned r = M.Rows(), c = M.Columns();
					if(n == "use")
					{
						for(unsigned i = 0; i < r; i++)
							for(unsigned j = 0; j < c; j++)
								M[i][j] = M[i][j] + 1.0;
						M += Matrix(r, c, 0.5);
						const Matrix& cM = M;
						Matrix S		 = cM.Plus(Matrix(r, c, 1.0));
						Matrix T		 = cM.Transpose();
						Vector w		 = cM.Product(Vector(c, 1.0));
						double s		 = cM.Norm();
						for(unsigned i = 0; i < r; i++)
							s += cM.Return_Row(i).Size();
						for(unsigned j = 0; j < c; j++)
							s += cM.Return_Column(j).Size();
						o << r << c << T.Rows() << T.Columns() << w.Size() << S.Rows() << (std::isnan(s) ? 1 : 0);
					}
					else if(n == "atsize")
						o << M[r].size();
					else
					{
						M.Resize(r + st.n[1], c);
						for(unsigned i = 0; i < M.Rows(); i++)
							for(unsigned j = 0; j < M.Columns(); j++)
								M[i][j] = 2.5;
						o << M.Rows() << M.Columns();
					}
				}
			}
			for(auto& p : pool)
				o << p->Rows() << p->Columns();
		});
	}
	if(op == "c10.mat.hist" || op == "c10.vec.hist")   // mutators and guarded requests on ONE object, in ONE child
	{
		bool mat   = op == "c10.mat.hist";
		unsigned r = U(a), c = mat ? U(a) : 0;
		size_t k   = a.u64();
		struct Step
		{
			std::string name;
			std::vector<unsigned> n;
		};
		std::vector<Step> steps;
		for(size_t i = 0; i < k; i++)
		{
			std::string t = a.tok();
			Step st;
			size_t pos = t.find(':');
			st.name	   = t.substr(0, pos);
			while(pos != std::string::npos)
			{
				size_t nx = t.find(':', pos + 1);
				st.n.push_back((unsigned) strtoull(t.substr(pos + 1, nx == std::string::npos ? std::string::npos : nx - pos - 1).c_str(), nullptr, 10));
				pos = nx;
			}
			steps.push_back(st);
		}
		a.end();
		auto need = [](const Step& st, size_t m) {
			if(st.n.size() != m)
				throw BadArgs("history step " + st.name);
		};
		if(mat)
		{
			for(auto& st : steps)
			{
				const std::string& n = st.name;
				if(n == "trace" || n == "transpose")
					need(st, 0);
				else if(n == "delrow" || n == "delcol" || n == "prodv" || n == "row" || n == "col")
					need(st, 1);
				else if(n == "resize" || n == "assign" || n == "set" || n == "at" || n == "plus" || n == "minus" || n == "addeq" || n == "subeq" || n == "prod")
					need(st, 2);
				else
					throw BadArgs("history step " + n);
			}
			return run_forked([&](Out& o) {
				Matrix M(r, c, 1.5);
				for(auto& st : steps)
				{
					const std::string& n = st.name;
					if(n == "resize")
						M.Resize(st.n[0], st.n[1]);
					else if(n == "assign")
						M.Assign(st.n[0], st.n[1], 2.5);
					else if(n == "set")
						M = Matrix(st.n[0], st.n[1], 3.5);
					else if(n == "delrow")
						M.Delete_Row(st.n[0]);
					else if(n == "delcol")
						M.Delete_Column(st.n[0]);
					else if(n == "at")
					{
						M[st.n[0]][st.n[1]] += 1.0;
						const Matrix& cM = M;
						o << cM[st.n[0]][st.n[1]];
					}
					else if(n == "plus")
						o << M.Plus(Matrix(st.n[0], st.n[1], 0.5)).Rows();
					else if(n == "minus")
						o << M.Minus(Matrix(st.n[0], st.n[1], 0.5)).Rows();
					else if(n == "addeq")
						M += Matrix(st.n[0], st.n[1], 0.5);
					else if(n == "subeq")
						M -= Matrix(st.n[0], st.n[1], 0.5);
					else if(n == "prod")
						o << M.Product(Matrix(st.n[0], st.n[1], 0.5)).Columns();
					else if(n == "prodv")
						o << M.Product(Vector(st.n[0], 0.5)).Size();
					else if(n == "trace")
						o << M.Trace();
					else if(n == "transpose")
					{
						Matrix T = M.Transpose();
						o << T.Rows() << T.Columns() << T.Norm();
					}
					else if(n == "row")
						o << M.Return_Row(st.n[0]).Size();
					else if(n == "col")
						o << M.Return_Column(st.n[0]).Size();
				}
				o << M.Rows() << M.Columns();
			});
		}
		for(auto& st : steps)
		{
			const std::string& n = st.name;
			if(!(n == "resize" || n == "assign" || n == "set" || n == "at" || n == "dot" || n == "add" || n == "sub" || n == "addeq" || n == "subeq" || n == "cross"))
				throw BadArgs("history step " + n);
			need(st, 1);
		}
		return run_forked([&](Out& o) {
			Vector v(r, 1.5);
			for(auto& st : steps)
			{
				const std::string& n = st.name;
				unsigned x			 = st.n[0];
				if(n == "resize")
					v.Resize(x);
				else if(n == "assign")
					v.Assign(x, 2.5);
				else if(n == "set")
					v = Vector(x, 3.5);
				else if(n == "at")
				{
					v[x] += 1.0;
					const Vector& cv = v;
					o << cv[x];
				}
				else if(n == "dot")
					o << v.Dot(Vector(x, 0.5));
				else if(n == "add")
					o << (v + Vector(x, 0.5)).Size();
				else if(n == "sub")
					o << (v - Vector(x, 0.5)).Size();
				else if(n == "addeq")
					v += Vector(x, 0.5);
				else if(n == "subeq")
					v -= Vector(x, 0.5);
				else if(n == "cross")
					o << v.Cross(Vector(x, 0.5)).Size();
			}
			o << v.Size();
		});
	}
	if(op == "c10.mat.index" || op == "c10.mat.cindex")
	{
		unsigned r = U(a), c = U(a), i = U(a);
		a.end();
		bool cst = op == "c10.mat.cindex";
		return run_forked([&](Out& o) {
			Matrix M(r, c, 1.5);
			if(cst)
			{
				const Matrix& cM = M;
				o << cM[i].size();
			}
			else
				o << M[i].size();
		});
	}
	if(op == "c10.mat.entries")
	{
		auto lens = a.ints();
		a.end();
		return run_forked([&](Out& o) {
			Matrix M(rows_of(lens));
			o << M.Rows() << M.Columns();
		});
	}
	if(op == "c10.mat.block" || op == "c10.mat.block.empty")
	{
		unsigned R = U(a), C = U(a);
		std::vector<std::pair<unsigned, unsigned>> sh;
		for(unsigned k = 0; k < R * C; k++)
		{
			unsigned r = U(a), c = U(a);
			sh.push_back({r, c});
		}
		a.end();
		return run_forked([&](Out& o) {
			std::vector<std::vector<Matrix>> blocks(R);
			for(unsigned r = 0; r < R; r++)
				for(unsigned c = 0; c < C; c++)
					blocks[r].push_back(Matrix(sh[r * C + c].first, sh[r * C + c].second, 1.0 + r + c));
			Matrix M(blocks);
			o << M.Rows() << M.Columns();
		});
	}
	if(op == "c10.mat.blockr")	 // a possibly ragged / empty list of rows of blocks: k rows, each `n (r c)*n`
	{
		size_t k = a.u64();
		std::vector<std::vector<std::pair<unsigned, unsigned>>> sh(k);
		for(auto& row : sh)
		{
			size_t n = a.u64();
			for(size_t i = 0; i < n; i++)
			{
				unsigned r = U(a), c = U(a);
				row.push_back({r, c});
			}
		}
		a.end();
		return run_forked([&](Out& o) {
			std::vector<std::vector<Matrix>> blocks(k);
			for(size_t r = 0; r < k; r++)
				for(auto& s : sh[r])
					blocks[r].push_back(Matrix(s.first, s.second, 1.5));
			Matrix M(blocks);
			o << M.Rows() << M.Columns();
			for(unsigned i = 0; i < M.Rows(); i++)
				for(unsigned j = 0; j < M.Columns(); j++)
					o << M[i][j];
		});
	}
	if(op == "c10.mat.delrow" || op == "c10.mat.delcol" || op == "c10.mat.row" || op == "c10.mat.col")
	{
		unsigned r = U(a), c = U(a), i = U(a);
		a.end();
		return run_forked([&](Out& o) {
			Matrix M(r, c, 1.5);
			if(op == "c10.mat.delrow")
			{
				M.Delete_Row(i);
				o << M.Rows() << M.Columns();
			}
			else if(op == "c10.mat.delcol")
			{
				M.Delete_Column(i);
				o << M.Rows() << M.Columns();
			}
			else
			{
				Vector v = op == "c10.mat.row" ? M.Return_Row(i) : M.Return_Column(i);
				o << v.Size();
			}
		});
	}
	if(op == "c10.mat.plus" || op == "c10.mat.minus" || op == "c10.mat.addeq" || op == "c10.mat.subeq" || op == "c10.mat.opplus" || op == "c10.mat.opminus" || op == "c10.mat.prod" || op == "c10.mat.opprod")
	{
		unsigned r1 = U(a), c1 = U(a), r2 = U(a), c2 = U(a);
		a.end();
		return run_forked([&](Out& o) {
			Matrix A(r1, c1, 1.5), B(r2, c2, 0.5);
			Matrix R;
			if(op == "c10.mat.plus")
				R = A.Plus(B);
			else if(op == "c10.mat.minus")
				R = A.Minus(B);
			else if(op == "c10.mat.opplus")
				R = A + B;
			else if(op == "c10.mat.opminus")
				R = A - B;
			else if(op == "c10.mat.addeq")
			{
				A += B;
				R = A;
			}
			else if(op == "c10.mat.subeq")
			{
				A -= B;
				R = A;
			}
			else if(op == "c10.mat.prod")
				R = A.Product(B);
			else
				R = A * B;
			o << R.Rows() << R.Columns();
			if(R.Rows() > 0 && R.Columns() > 0)
				o << R[R.Rows() - 1][R.Columns() - 1];
		});
	}
	if(op == "c10.mat.prodv" || op == "c10.mat.opprodv")
	{
		unsigned r = U(a), c = U(a), n = U(a);
		a.end();
		return run_forked([&](Out& o) {
			Matrix A(r, c, 1.5);
			Vector v(n, 0.5);
			Vector w = op == "c10.mat.prodv" ? A.Product(v) : A * v;
			o << w.Size();
		});
	}
	if(op == "c10.mat.vprod")
	{
		unsigned n = U(a), r = U(a), c = U(a);
		a.end();
		return run_forked([&](Out& o) {
			Matrix A(r, c, 1.5);
			Vector v(n, 0.5);
			Vector w = v * A;
			o << w.Size();
		});
	}
	if(op == "c10.mat.trace" || op == "c10.mat.det")
	{
		unsigned r = U(a), c = U(a);
		a.end();
		return run_forked([&](Out& o) {
			Matrix A(r, c, 1.5);
			o << (op == "c10.mat.trace" ? A.Trace() : A.Determinant());
		});
	}
	if(op == "c10.mat.inv")
	{
		unsigned r = U(a), c = U(a);
		std::vector<std::vector<double>> e(r, std::vector<double>(c));
		for(auto& row : e)
			for(auto& x : row)
				x = a.dbl();
		a.end();
		return run_forked([&](Out& o) {
			Matrix A(r, c, 0.0);
			for(unsigned i = 0; i < r; i++)
				for(unsigned j = 0; j < c; j++)
					A[i][j] = e[i][j];
			Matrix X = A.Inverse();
			o << X.Rows() << X.Columns();
		});
	}
	if(op == "c10.rot")
	{
		int dim	   = a.i64();
		unsigned n = U(a);
		a.end();
		return run_forked([&](Out& o) {
			Vector axis(n, 1.0);
			Matrix R = Rotation_Matrix(0.5, dim, axis);
			o << R.Rows() << R.Columns();
		});
	}
	// ---------------------------------------------------------------- 3. Interpolation
	if(op == "c10.interp.ctor")
	{
		auto xs = a.dbls(), ys = a.dbls();
		double xd = a.dbl(), fd = a.dbl();
		a.end();
		return run_forked([&](Out& o) {
			Interpolation I(xs, ys, xd, fd);
			o << I.domain[0] << I.domain[1];
		});
	}
	if(op == "c10.interp.ctornan")	 // abscissae 0,1,…,n-1 with a NaN at position k
	{
		unsigned n = U(a), k = U(a);
		a.end();
		return run_forked([&](Out& o) {
			std::vector<double> xs(n), ys(n, 1.0);
			for(unsigned i = 0; i < n; i++)
				xs[i] = i;
			if(k < n)
				xs[k] = NAN;
			Interpolation I(xs, ys);
			o << I.domain[0] << I.domain[1];
		});
	}
	if(op == "c10.interp.table")
	{
		auto t	  = table(a);
		double xd = a.dbl(), fd = a.dbl();
		a.end();
		return run_forked([&](Out& o) {
			Interpolation I(t, xd, fd);
			o << I.domain[0] << I.domain[1];
		});
	}
	if(op == "c10.interp.locate" || op == "c10.interp.eval")
	{
		auto xs	  = a.dbls();
		double xd = a.dbl(), fd = a.dbl();
		double x  = a.dbl();
		a.end();
		return run_forked([&](Out& o) {
			Interpolation I(xs, ramp(xs.size()), xd, fd);
			if(op == "c10.interp.locate")
				o << I.Locate(x);
			else
				o << I.Interpolate(x) << I(x);
		});
	}
	if(op == "c10.interp.deriv")
	{
		auto xs	   = a.dbls();
		double xd = a.dbl(), fd = a.dbl();
		double x   = a.dbl();
		unsigned k = U(a);
		a.end();
		return run_forked([&](Out& o) {
			Interpolation I(xs, ramp(xs.size()), xd, fd);
			o << I.Derivative(x, k);
		});
	}
	if(op == "c10.interp.hist")	  // a history of Interpolate calls on ONE object
	{
		auto xs	  = a.dbls();
		double xd = a.dbl(), fd = a.dbl();
		auto vs	  = a.dbls();
		a.end();
		return run_forked([&](Out& o) {
			Interpolation I(xs, ramp(xs.size()), xd, fd);
			for(double v : vs)
				o << I.Interpolate(v);
		});
	}
	if(op == "c10.interp.integ" || op == "c10.interp.lmin" || op == "c10.interp.lmax")
	{
		auto xs	  = a.dbls();
		double xd = a.dbl(), fd = a.dbl();
		double x1 = a.dbl(), x2 = a.dbl();
		a.end();
		return run_forked([&](Out& o) {
			Interpolation I(xs, ramp(xs.size()), xd, fd);
			if(op == "c10.interp.integ")
				o << I.Integrate(x1, x2);
			else if(op == "c10.interp.lmin")
				o << I.Local_Minimum(x1, x2);
			else
				o << I.Local_Maximum(x1, x2);
		});
	}
	if(op == "c10.interp2.ctor")
	{
		auto xs = a.dbls(), ys = a.dbls();
		auto lens = a.ints();
		a.end();
		return run_forked([&](Out& o) {
			Interpolation_2D I(xs, ys, rows_of(lens));
			o << I.domain.size();
		});
	}
	if(op == "c10.interp2.table")
	{
		auto t = table(a);
		a.end();
		return run_forked([&](Out& o) {
			Interpolation_2D I(t);
			o << I.domain.size();
		});
	}
	if(op == "c10.interp2.eval")
	{
		auto xs = a.dbls(), ys = a.dbls();
		double xd = a.dbl(), yd = a.dbl();
		double x = a.dbl(), y = a.dbl();
		a.end();
		return run_forked([&](Out& o) {
			std::vector<std::vector<double>> f(xs.size(), std::vector<double>(ys.size()));
			for(size_t i = 0; i < xs.size(); i++)
				for(size_t j = 0; j < ys.size(); j++)
					f[i][j] = 1.0 + i - 0.5 * j;
			Interpolation_2D I(xs, ys, f, xd, yd);
			o << I.Interpolate(x, y) << I(x, y);
		});
	}
	if(op == "c10.mat.resize" || op == "c10.mat.assign")
	{
		int r = a.i64(), c = a.i64();
		a.end();
		return run_forked([&](Out& o) {
			Matrix M(2, 3, 1.5);
			if(op == "c10.mat.resize")
				M.Resize(r, c);
			else
				M.Assign(r, c, 2.5);
			o << M.Rows() << M.Columns();
		});
	}
	if(op == "c10.integmc.shape")
	{
		std::string m = method(a);
		int n		  = a.i64();
		unsigned rs	  = U(a);
		a.end();
		return run_forked([&](Out& o) {
			std::function<double(std::vector<double>&, const double)> f = [](std::vector<double>& x, const double w) { return 1.0; };
			std::vector<double> region(rs);
			for(unsigned i = 0; i < rs; i++)
				region[i] = i < (rs + 1) / 2 ? 0.0 : 1.0;
			o << Integrate_MC(f, region, n, m);
		});
	}
	if(op == "c10.simplex.delta" || op == "c10.simplex.deltas" || op == "c10.simplex.pp")
	{
		unsigned n = 0, m = 0;
		std::vector<int> lens;
		if(op == "c10.simplex.pp")
			lens = a.ints();
		else
		{
			n = U(a);
			m = op == "c10.simplex.deltas" ? U(a) : n;
		}
		a.end();
		return run_forked([&](Out& o) {
			auto f = [](std::vector<double> x) {
				double s = 0.0;
				for(double v : x)
					s += (v - 1.0) * (v - 1.0);
				return s;
			};
			Minimization M(1e-8);
			std::vector<double> r;
			if(op == "c10.simplex.pp")
			{
				std::vector<std::vector<double>> pp;
				for(size_t i = 0; i < lens.size(); i++)
				{
					std::vector<double> row(lens[i], 0.5);
					if(i > 0 && i - 1 < row.size())
						row[i - 1] += 0.1;
					pp.push_back(row);
				}
				r = M.minimize(pp, f);
			}
			else
			{
				std::vector<double> start(n, 0.5), deltas(m, 0.1);
				r = op == "c10.simplex.delta" ? M.minimize(start, 0.1, f) : M.minimize(start, deltas, f);
			}
			o.list(r);
		});
	}
	if(op == "c10.mean" || op == "c10.median" || op == "c10.variance" || op == "c10.stddev" || op == "c10.wavg")
	{
		unsigned n = U(a);
		a.end();
		return run_forked([&](Out& o) {
			std::vector<double> d(n);
			for(unsigned i = 0; i < n; i++)
				d[i] = 1.5 + 0.25 * ((i * 7) % 5);
			if(op == "c10.mean")
				o << Arithmetic_Mean(d);
			else if(op == "c10.median")
				o << Median(d);
			else if(op == "c10.variance")
				o << Variance(d);
			else if(op == "c10.stddev")
				o << Standard_Deviation(d);
			else
			{
				std::vector<DataPoint> w;
				for(unsigned i = 0; i < n; i++)
					w.push_back(DataPoint(d[i], 1.0 + (i % 2)));
				auto r = Weighted_Average(w);
				o << r[0] << r[1];
			}
		});
	}
	// ---------------------------------------------------------------- 4. Find_Root
	if(op == "c10.findroot")
	{
		double fl = a.dbl(), fr = a.dbl();
		a.end();
		return run_forked([&](Out& o) {
			// linear between the bracket values on [0,1]; a NaN end is replaced inside the interval
			double l = std::isnan(fl) ? (std::isnan(fr) ? -0.5 : -fr) : fl;
			double r = std::isnan(fr) ? (std::isnan(fl) ? 0.5 : -fl) : fr;
			auto f	 = [&](double x) {
				  if(x == 0.0)
					  return fl;
				  if(x == 1.0)
					  return fr;
				  return l + (r - l) * x;
			};
			o << Find_Root(f, 0.0, 1.0, 1e-6);
		});
	}
	// ---------------------------------------------------------------- 5. Integration
	if(op == "c10.integ1")
	{
		std::string m = method(a);
		double x1 = a.dbl(), x2 = a.dbl();
		a.end();
		return run_forked([&](Out& o) { o << Integrate([](double x) { return 1.0 + x; }, x1, x2, m, 0); });
	}
	if(op == "c10.integ2" || op == "c10.integ3" || op == "c10.integ3s" || op == "c10.integmc")
	{
		std::string m = method(a);
		a.end();
		int par = (m == "Monte-Carlo" || m == "Vegas" || m == "Miser") ? 2000 : 0;
		return run_forked([&](Out& o) {
			if(op == "c10.integ2")
				o << Integrate_2D([](double x, double y) { return 1.0 + 0.5 * x * y; }, 0.0, 1.0, 0.0, 1.0, m, par);
			else if(op == "c10.integ3")
				o << Integrate_3D([](double x, double y, double z) { return 1.0 + 0.5 * x * y * z; }, 0.0, 1.0, 0.0, 1.0, 0.0, 1.0, m, par);
			else if(op == "c10.integ3s")
				o << Integrate_3D([](Vector v) { return 1.0 + 0.25 * v[2]; }, 0.5, 1.0, -1.0, 1.0, 0.0, 1.0, m, par);
			else
			{
				std::function<double(std::vector<double>&, const double)> f = [](std::vector<double>& x, const double w) { return 1.0 + 0.5 * x[0] * x[1]; };
				std::vector<double> region									 = {0.0, 0.0, 1.0, 1.0};
				o << Integrate_MC(f, region, 2000, m);
			}
		});
	}
	if(op == "c10.integmc.hist")   // a history of Integrate_MC calls in ONE process (Vegas keeps static grids)
	{
		size_t k = a.u64();
		std::vector<std::string> ms;
		for(size_t i = 0; i < k; i++)
			ms.push_back(method(a));
		a.end();
		return run_forked([&](Out& o) {
			std::function<double(std::vector<double>&, const double)> f = [](std::vector<double>& x, const double w) { return 1.0 + 0.5 * x[0] * x[1]; };
			for(auto& m : ms)
			{
				std::vector<double> region = {0.0, 0.0, 1.0, 1.0};
				o << Integrate_MC(f, region, 1000, m);
			}
		});
	}
	if(op == "c10.glrows" || op == "c10.glfunc")   // a rule whose rows have the given lengths
	{
		unsigned n = op == "c10.glrows" ? U(a) : 0;
		auto lens  = a.ints();
		a.end();
		return run_forked([&](Out& o) {
			std::vector<std::vector<double>> rw;
			for(int l : lens)
			{
				std::vector<double> row(l, 0.25);
				if(l > 0)
					row[0] = 0.5;
				rw.push_back(row);
			}
			if(op == "c10.glrows")
				o << Integrate_Gauss_Legendre(std::vector<double>(n, 1.5), rw);
			else
				o << Integrate_Gauss_Legendre([](double x) { return 1.0 + x; }, rw);
		});
	}
	if(op == "c10.gl")
	{
		unsigned n = U(a), m = U(a);
		a.end();
		return run_forked([&](Out& o) {
			std::vector<double> fv(n, 1.5);
			std::vector<std::vector<double>> rw(m, std::vector<double> {0.5, 0.25});
			o << Integrate_Gauss_Legendre(fv, rw);
		});
	}
	// ---------------------------------------------------------------- 6. Special functions
	if(op == "c10.factorial")
	{
		unsigned n = U(a);
		a.end();
		return run_forked([&](Out& o) { o << Factorial(n); });
	}
	if(op == "c10.factorial.hist")	 // a history of Factorial / Binomial_Coefficient calls in ONE process (static memo table)
	{
		size_t k = a.u64();
		std::vector<std::string> items;
		for(size_t i = 0; i < k; i++)
			items.push_back(a.tok());
		a.end();
		for(auto& it : items)
			if(it.size() < 2 || (it[0] != 'F' && it[0] != 'B'))
				throw BadArgs("history item " + it);
		return run_forked([&](Out& o) {
			for(auto& it : items)
			{
				if(it[0] == 'F')
					o << Factorial((unsigned) strtoull(it.c_str() + 1, nullptr, 10));
				else
				{
					size_t c = it.find(':');
					o << Binomial_Coefficient(atoi(it.substr(1, c - 1).c_str()), atoi(it.substr(c + 1).c_str()));
				}
			}
		});
	}
	if(op == "c10.binom")
	{
		int n = a.i64(), k = a.i64();
		a.end();
		return run_forked([&](Out& o) { o << Binomial_Coefficient(n, k); });
	}
	if(op == "c10.gammaln")
	{
		double x = a.dbl();
		a.end();
		return run_forked([&](Out& o) { o << GammaLn(x); });
	}
	if(op == "c10.gammaq" || op == "c10.invgammap" || op == "c10.invgammap.p" || op == "c10.invgammaq" || op == "c10.uppergamma" || op == "c10.lowergamma")
	{
		double x = a.dbl(), y = a.dbl();
		a.end();
		return run_forked([&](Out& o) {
			o << (op == "c10.gammaq" ? GammaQ(x, y) : (op == "c10.invgammap" || op == "c10.invgammap.p") ? Inv_GammaP(x, y) : op == "c10.invgammaq" ? Inv_GammaQ(x, y) : op == "c10.uppergamma" ? Upper_Incomplete_Gamma(x, y) : Lower_Incomplete_Gamma(x, y));
		});
	}
	if(op == "c10.gamma")
	{
		double x = a.dbl();
		a.end();
		return run_forked([&](Out& o) { o << Gamma(x); });
	}
	if(op == "c10.round")
	{
		double x   = a.dbl();
		unsigned d = U(a);
		a.end();
		return run_forked([&](Out& o) { o << Round(x, d); });
	}
	if(op == "c10.vshy" || op == "c10.vshpsi")
	{
		int c = a.i64();
		a.end();
		return run_forked([&](Out& o) {
			std::complex<double> z = op == "c10.vshy" ? VSH_Y_Component(c, 2, 1, 3, 1 + (c == 2 ? 0 : 1)) : VSH_Psi_Component(c, 2, 1, 3, 1 + (c == 2 ? 0 : 1));
			o << z.real() << z.imag();
		});
	}
	if(op == "c10.inverf")
	{
		double p = a.dbl();
		a.end();
		return run_forked([&](Out& o) { o << Inv_Erf(p); });
	}
	// ---------------------------------------------------------------- 7. Statistics
	if(op == "c10.pmfbinom" || op == "c10.cdfbinom")
	{
		unsigned t = U(a);
		double p   = a.dbl();
		unsigned x = U(a);
		a.end();
		return run_forked([&](Out& o) { o << (op == "c10.pmfbinom" ? PMF_Binomial(t, p, x) : CDF_Binomial(t, p, x)); });
	}
	if(op == "c10.pmfpoisson" || op == "c10.cdfpoisson")
	{
		double mu  = a.dbl();
		unsigned n = U(a);
		a.end();
		return run_forked([&](Out& o) { o << (op == "c10.pmfpoisson" ? PMF_Poisson(mu, n) : CDF_Poisson(mu, n)); });
	}
	if(op == "c10.invcdfpoisson")
	{
		unsigned n = U(a);
		double c   = a.dbl();
		a.end();
		return run_forked([&](Out& o) { o << Inv_CDF_Poisson(n, c); });
	}
	if(op == "c10.pdfexp" || op == "c10.cdfexp" || op == "c10.pdfmb" || op == "c10.cdfmb")
	{
		double x = a.dbl(), p = a.dbl();
		a.end();
		return run_forked([&](Out& o) {
			if(op == "c10.pdfexp")
				o << PDF_Exponential(x, p);
			else if(op == "c10.cdfexp")
				o << CDF_Exponential(x, p);
			else if(op == "c10.pdfmb")
				o << PDF_Maxwell_Boltzmann(x, p);
			else
				o << CDF_Maxwell_Boltzmann(x, p);
		});
	}
	if(op == "c10.pdfuniform" || op == "c10.cdfuniform" || op == "c10.pdfgauss" || op == "c10.cdfgauss" || op == "c10.quantilegauss")
	{
		double x = a.dbl(), p1 = a.dbl(), p2 = a.dbl();
		a.end();
		return run_forked([&](Out& o) {
			o << (op == "c10.pdfuniform" ? PDF_Uniform(x, p1, p2) : op == "c10.cdfuniform" ? CDF_Uniform(x, p1, p2) : op == "c10.pdfgauss" ? PDF_Gauss(x, p1, p2) : op == "c10.cdfgauss" ? CDF_Gauss(x, p1, p2) : Quantile_Gauss(x, p1, p2));
		});
	}
	if(op == "c10.pdfgauss2d")
	{
		double sx = a.dbl(), sy = a.dbl();
		a.end();
		return run_forked([&](Out& o) {
			std::pair<double, double> mean(0.5, -0.5), sigma(sx, sy);
			o << PDF_Gauss_2D(0.25, 0.75, mean, sigma);
		});
	}
	if(op == "c10.pdfchisq" || op == "c10.cdfchisq")
	{
		double x = a.dbl(), d = a.dbl();
		a.end();
		return run_forked([&](Out& o) { o << (op == "c10.pdfchisq" ? PDF_Chi_Square(x, d) : CDF_Chi_Square(x, d)); });
	}
	if(op == "c10.llpoisson" || op == "c10.lpoisson")
	{
		double pred = a.dbl();
		unsigned n	= U(a);
		double bkg	= a.dbl();
		a.end();
		return run_forked([&](Out& o) { o << (op == "c10.llpoisson" ? Log_Likelihood_Poisson(pred, n, bkg) : Likelihood_Poisson(pred, n, bkg)); });
	}
	if(op == "c10.sampleuniform" || op == "c10.samplegauss")
	{
		double p1 = a.dbl(), p2 = a.dbl();
		a.end();
		return run_forked([&](Out& o) {
			std::mt19937 PRNG(4711);
			for(int i = 0; i < 3; i++)
				o << (op == "c10.sampleuniform" ? Sample_Uniform(PRNG, p1, p2) : Sample_Gauss(PRNG, p1, p2));
		});
	}
	if(op == "c10.samplepoisson")
	{
		double mu = a.dbl();
		a.end();
		return run_forked([&](Out& o) {
			std::mt19937 PRNG(4711);
			o << Sample_Poisson(PRNG, mu);
		});
	}
	if(op == "c10.samplepoissonv")
	{
		auto mus = a.dbls();
		a.end();
		return run_forked([&](Out& o) {
			std::mt19937 PRNG(4711);
			o.ilist(Sample_Poisson(PRNG, mus));
		});
	}
	if(op == "c10.metropolissigma")
	{
		double sg = a.dbl();
		a.end();
		return run_forked([&](Out& o) {
			std::mt19937 PRNG(12345);
			auto s = Sample_Metropolis(PRNG, [](double x) { return exp(-0.5 * x * x); }, sg, 5, 2, 3, std::vector<double> {});
			o << s.size();
		});
	}
	if(op == "c10.pdfchibar" || op == "c10.cdfchibar")
	{
		double x = a.dbl();
		auto ws	 = a.dbls();
		a.end();
		return run_forked([&](Out& o) { o << (op == "c10.pdfchibar" ? PDF_Chi_Bar_Square(x, ws) : CDF_Chi_Bar_Square(x, ws)); });
	}
	if(op == "c10.llbinned" || op == "c10.lbinned")
	{
		unsigned n = U(a), m = U(a), k = U(a);
		a.end();
		return run_forked([&](Out& o) {
			std::vector<double> pred(n, 2.5), bkg(k, 0.5);
			std::vector<unsigned long int> obs(m, 3);
			o << (op == "c10.llbinned" ? Log_Likelihood_Poisson_Binned(pred, obs, bkg) : Likelihood_Poisson_Binned(pred, obs, bkg));
		});
	}
	if(op == "c10.metropolis" || op == "c10.metropolis2d")
	{
		unsigned n = U(a);
		a.end();
		return run_forked([&](Out& o) {
			std::mt19937 PRNG(12345);
			std::vector<double> domain(n);
			for(unsigned i = 0; i < n; i++)
				domain[i] = (i % 2 == 0) ? -1.0 : 1.0;
			if(op == "c10.metropolis")
			{
				auto s = Sample_Metropolis(PRNG, [](double x) { return exp(-0.5 * x * x); }, 0.5, 5, 2, 3, domain);
				o << s.size();
			}
			else
			{
				auto s = Sample_Metropolis_2D(PRNG, [](double x, double y) { return exp(-0.5 * (x * x + y * y)); }, {0.5, 0.5}, 5, 2, 3, domain);
				o << s.size();
			}
		});
	}
	// ---------------------------------------------------------------- 8. lists, utilities, units
	if(op == "c10.transpose" || op == "c10.transpose.empty")
	{
		auto lens = a.ints();
		a.end();
		return run_forked([&](Out& o) {
			auto r = Transpose_Lists(rows_of(lens));
			o << r.size();
		});
	}
	if(op == "c10.transpose2")
	{
		unsigned n = U(a), m = U(a);
		a.end();
		return run_forked([&](Out& o) {
			auto r = Transpose_Lists(std::vector<double>(n, 1.0), std::vector<double>(m, 2.0));
			o << r.size();
		});
	}
	if(op == "c10.closest" || op == "c10.closest.empty")
	{
		auto l	 = a.dbls();
		double t = a.dbl();
		a.end();
		return run_forked([&](Out& o) { o << Locate_Closest_Location(l, t); });
	}
	if(op == "c10.sublist")
	{
		unsigned n	= U(a);
		int i1		= a.i64();
		unsigned i2 = U(a);
		a.end();
		return run_forked([&](Out& o) {
			std::vector<double> v(n);
			for(unsigned i = 0; i < n; i++)
				v[i] = 10.0 + i;
			o.list(Sub_List(v, i1, i2));
		});
	}
	if(op == "c10.inunits")
	{
		auto lens	= a.ints();
		unsigned nd = U(a);
		a.end();
		return run_forked([&](Out& o) {
			auto r = natural_units::In_Units(rows_of(lens), std::vector<double>(nd, 2.0));
			o << r.size();
		});
	}
	if(op == "c10.exporttable")
	{
		auto lens	= a.ints();
		unsigned nd = U(a);
		a.end();
		std::string path = scratch_file();
		std::string r	 = run_forked([&](Out& o) {
			   Export_Table(path, rows_of(lens), std::vector<double>(nd, 2.0));
			   o << lens.size();
		   });
		unlink(path.c_str());
		return r;
	}
	if(op == "c10.importlist")
	{
		unsigned ex = U(a);
		a.end();
		std::string path = scratch_file();
		if(ex)
		{
			std::ofstream f(path);
			f << "1.5\n2.5\n3.5\n";
		}
		else
			unlink(path.c_str());
		std::string r = run_forked([&](Out& o) { o.list(Import_List(path)); });
		unlink(path.c_str());
		return r;
	}
	if(op == "c10.importtable" || op == "c10.importtable.empty")
	{
		unsigned ex = U(a), rows = U(a), cols = U(a), nd = U(a);
		a.end();
		std::string path = scratch_file();
		if(ex)
		{
			std::ofstream f(path);
			for(unsigned i = 0; i < rows; i++)
			{
				for(unsigned j = 0; j < cols; j++)
					f << (j ? "\t" : "") << (1.5 + i + j);
				f << "\n";
			}
		}
		else
			unlink(path.c_str());
		std::string r = run_forked([&](Out& o) {
			auto t = Import_Table(path, std::vector<double>(nd, 2.0));
			o << t.size();
		});
		unlink(path.c_str());
		return r;
	}
	if(op == "c10.importtable.fill")   // lines with the given numbers of entries, then `blank` blank lines
	{
		auto lens	   = a.ints();
		unsigned blank = U(a), nd = U(a);
		a.end();
		std::string path = scratch_file();
		{
			std::ofstream f(path);
			double v = 1.5;
			for(int l : lens)
			{
				for(int j = 0; j < l; j++)
					f << (j ? "\t" : "") << (v += 0.25);
				f << "\n";
			}
			for(unsigned i = 0; i < blank; i++)
				f << (i % 2 ? "  \n" : "\n");
		}
		std::string r = run_forked([&](Out& o) {
			auto t = Import_Table(path, std::vector<double>(nd, 2.0));
			o << t.size() << (t.empty() ? 0 : t[0].size());
		});
		unlink(path.c_str());
		return r;
	}
	if(op == "c10.checkerr")
	{
		unsigned c = U(a);
		a.end();
		return run_forked([&](Out& o) {
			Check_For_Error(c != 0, "c10 harness", "requested error condition");
			o << 1;
		});
	}
	throw BadOp();
}
}	// namespace hz
