// C19 harness: helpers of Utilities.cpp, List_Manipulations.hpp, Statistics.cpp §5.
#define HZ_MAIN
#include "common.hpp"

#include "libphysica/Utilities.hpp"
#include "libphysica/List_Manipulations.hpp"
#include "libphysica/Statistics.hpp"

#include <algorithm>
#include <functional>

using namespace libphysica;

namespace hz
{
static std::vector<std::vector<int>> int_lists(Args& a)
{
	size_t n = a.u64();
	std::vector<std::vector<int>> r(n);
	for(auto& l : r)
		l = a.ints();
	return r;
}

// one double element of a Lists_Equal request: a hex float / nan / inf / -inf, or a negative zero
// produced the way real code produces it (the operands are volatile so nothing is folded away)
static double dbl_elem(Args& a)
{
	if(a.more() && a.t[a.pos].size() > 2 && a.t[a.pos][0] == 'z' && a.t[a.pos][1] == '.')
	{
		const std::string s = a.tok();
		volatile double q = -0.25, r = -0.4, u = -1e-200, w = 1e-200;
		if(s == "z.lit")
			return -0.0;
		if(s == "z.ceil")
			return std::ceil(q);
		if(s == "z.round")
			return std::round(r);
		if(s == "z.under")
			return u * w;
		throw BadArgs("zero kind: " + s);
	}
	return a.dbl();
}
static std::vector<double> dbl_elems(Args& a)
{
	size_t n = a.u64();
	std::vector<double> v(n);
	for(auto& x : v)
		x = dbl_elem(a);
	return v;
}
static std::vector<std::vector<double>> dbl_lists(Args& a)
{
	size_t n = a.u64();
	std::vector<std::vector<double>> r(n);
	for(auto& l : r)
		l = dbl_elems(a);
	return r;
}

std::string handle(const std::string& op, Args& a)
{
	if(op == "c19.workload")
	{
		unsigned w = a.u64(), t = a.u64();
		a.end();
		if(w == 0)
			return run_forked([&](Out& o) { o.ilist(Workload_Distribution(w, t)); });
		return run([&](Out& o) { auto v = Workload_Distribution(w, t); for(int x : v) o << x; });
	}
	if(op == "c19.range")
	{
		int mn = a.i64(), mx = a.i64(), st = a.i64();
		a.end();
		return run([&](Out& o) { o.ilist(Range(mn, mx, st)); });
	}
	if(op == "c19.range1")	 // Range(max) == Range(0,max,1)
	{
		int mx = a.i64();
		a.end();
		return run([&](Out& o) { o.ilist(Range(mx)); });
	}
	if(op == "c19.linspace")
	{
		double mn = a.dbl(), mx = a.dbl();
		unsigned st = a.u64();
		a.end();
		return run([&](Out& o) { o.list(Linear_Space(mn, mx, st)); });
	}
	if(op == "c19.logspace")
	{
		double mn = a.dbl(), mx = a.dbl();
		unsigned st = a.u64();
		a.end();
		return run([&](Out& o) { o.list(Log_Space(mn, mx, st)); });
	}
	if(op == "c19.closest")
	{
		auto l	 = a.dbls();
		double t = a.dbl();
		a.end();
		return run_forked([&](Out& o) { o << Locate_Closest_Location(l, t); });
	}
	if(op == "c19.listseq")
	{
		auto x = a.ints(), y = a.ints();
		a.end();
		return run([&](Out& o) { o << (int) Lists_Equal(x, y); });
	}
	if(op == "c19.listseq2")   // nested overload
	{
		auto x = int_lists(a), y = int_lists(a);
		a.end();
		return run([&](Out& o) { o << (int) Lists_Equal(x, y); });
	}
	if(op == "c19.listseqd")   // element type double: signed zeros, NaN, infinities
	{
		auto x = dbl_elems(a), y = dbl_elems(a);
		a.end();
		return run([&](Out& o) { o << (int) Lists_Equal(x, y); });
	}
	if(op == "c19.listseqd2")	// nested overload over double
	{
		auto x = dbl_lists(a), y = dbl_lists(a);
		a.end();
		return run([&](Out& o) { o << (int) Lists_Equal(x, y); });
	}
	if(op == "c19.aliasd")	 // every two-list template with THE SAME vector object as both arguments (directly, through a second reference) and with an equal copy
	{
		auto x = dbl_elems(a);
		a.end();
		return run_forked([&](Out& o) {
			const std::vector<double>& ref = x;
			std::vector<double> copy	   = x;
			o << (int) Lists_Equal(x, x) << (int) Lists_Equal(x, ref) << (int) Lists_Equal(x, copy);
			o.list(Combine_Lists(x, x));
			auto t = Transpose_Lists(x, x);
			o << t.size();
			for(auto& row : t)
				o.list(row);
		});
	}
	if(op == "c19.aliasd2")	  // nested: Lists_Equal(vv, vv), through a reference, with a copy; Combine_Lists(vv, vv) checked by its sizes
	{
		auto x = dbl_lists(a);
		a.end();
		return run_forked([&](Out& o) {
			const std::vector<std::vector<double>>& ref = x;
			std::vector<std::vector<double>> copy		= x;
			o << (int) Lists_Equal(x, x) << (int) Lists_Equal(x, ref) << (int) Lists_Equal(x, copy);
			auto c = Combine_Lists(x, x);
			o << c.size();
			for(auto& row : c)
				o.list(row);
		});
	}
	if(op == "c19.combine")
	{
		auto x = a.ints(), y = a.ints();
		a.end();
		return run([&](Out& o) { o.ilist(Combine_Lists(x, y)); });
	}
	if(op == "c19.transpose")
	{
		auto ls = int_lists(a);
		a.end();
		return run_forked([&](Out& o) {
			auto r = Transpose_Lists(ls);
			o << r.size();
			for(auto& l : r)
				o.ilist(l);
		});
	}
	if(op == "c19.transpose2")	 // two-list overload
	{
		auto x = a.ints(), y = a.ints();
		a.end();
		return run_forked([&](Out& o) {
			auto r = Transpose_Lists(x, y);
			o << r.size();
			for(auto& l : r)
				o.ilist(l);
		});
	}
	if(op == "c19.sublist")
	{
		auto l		= a.ints();
		int i1		= a.i64();
		unsigned i2 = a.u64();
		a.end();
		return run_forked([&](Out& o) { o.ilist(Sub_List(l, i1, i2)); });
	}
	if(op == "c19.sublistd")   // element type double
	{
		auto l		= a.dbls();
		int i1		= a.i64();
		unsigned i2 = a.u64();
		a.end();
		return run_forked([&](Out& o) { o.list(Sub_List(l, i1, i2)); });
	}
	if(op == "c19.sublists")   // element type std::string
	{
		size_t n = a.u64();
		std::vector<std::string> l(n);
		for(auto& x : l)
			x = a.tok();
		int i1		= a.i64();
		unsigned i2 = a.u64();
		a.end();
		return run_forked([&](Out& o) {
			auto r = Sub_List(l, i1, i2);
			o << r.size();
			for(auto& x : r)
				o << x;
		});
	}
	if(op == "c19.flatten")
	{
		auto ls = int_lists(a);
		a.end();
		return run([&](Out& o) { o.ilist(Flatten_List(ls)); });
	}
	if(op == "c19.contains")
	{
		auto l = a.ints();
		int x  = a.i64();
		a.end();
		return run([&](Out& o) { o << (int) List_Contains(l, x); });
	}
	if(op == "c19.findidx")
	{
		auto l = a.ints();
		int x  = a.i64();
		a.end();
		return run([&](Out& o) { o.ilist(Find_Indices(l, x)); });
	}
	if(op == "c19.mean")
	{
		auto l = a.dbls();
		a.end();
		return run_forked([&](Out& o) { o << Arithmetic_Mean(l); });   // too short a list stops with a diagnostic
	}
	if(op == "c19.variance")
	{
		auto l = a.dbls();
		a.end();
		return run_forked([&](Out& o) { o << Variance(l); });   // too short a list stops with a diagnostic
	}
	if(op == "c19.stddev")
	{
		auto l = a.dbls();
		a.end();
		return run_forked([&](Out& o) { o << Standard_Deviation(l); });   // too short a list stops with a diagnostic
	}
	if(op == "c19.median")
	{
		auto l = a.dbls();
		a.end();
		return run_forked([&](Out& o) { o << Median(l); });   // too short a list stops with a diagnostic
	}
	if(op == "c19.wavg")
	{
		size_t n = a.u64();
		std::vector<DataPoint> d;
		for(size_t i = 0; i < n; i++)
		{
			double v = a.dbl(), w = a.dbl();
			d.push_back(DataPoint(v, w));
		}
		a.end();
		return run_forked([&](Out& o) { auto r = Weighted_Average(d); o << r[0] << r[1]; });
	}
	if(op == "c19.dpcmp")	// DataPoint ordering operators
	{
		double v1 = a.dbl(), w1 = a.dbl(), v2 = a.dbl(), w2 = a.dbl();
		a.end();
		return run([&](Out& o) {
			DataPoint x(v1, w1), y(v2, w2);
			o << (int) (x < y) << (int) (x > y) << (int) (x == y);
		});
	}
	if(op == "c19.dpsort")	 // std::sort with operator< (as Perform_KDE), with operator> (std::greater), std::count with operator==
	{
		size_t n = a.u64();
		std::vector<DataPoint> d;
		for(size_t i = 0; i < n; i++)
		{
			double v = a.dbl(), w = a.dbl();
			d.push_back(DataPoint(v, w));
		}
		a.end();
		return run([&](Out& o) {
			std::vector<DataPoint> asc = d, desc = d;
			std::sort(asc.begin(), asc.end());
			std::sort(desc.begin(), desc.end(), std::greater<DataPoint>());
			o << n;
			for(auto& p : asc)
				o << p.value << p.weight;
			for(auto& p : desc)
				o << p.value << p.weight;
			o << (n == 0 ? 0 : (long long) std::count(d.begin(), d.end(), d[0]));
		});
	}
	throw BadOp();
}
}	// namespace hz
