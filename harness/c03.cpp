// C03 harness: libphysica::Integrate(func,a,b,epsilon,maxRecursionDepth) — adaptive Simpson.
// The integrand is described in the request so that the model can evaluate the same function;
// the callback records every abscissa at which the library calls it.
#define HZ_MAIN
#include "common.hpp"

#include "libphysica/Integration.hpp"

using namespace libphysica;

namespace hz
{
struct Fn
{
	std::string kind;
	std::vector<double> p, q;
	double w = 0, s = 0, k = 0;
	double operator()(double x) const
	{
		if(kind == "poly")
			return horner(p, x);
		if(kind == "rat")
			return horner(p, x) / horner(q, x);
		if(kind == "exp")
			return std::exp(w * x);
		if(kind == "cosh")
			return std::cosh(w * x);
		if(kind == "ipow")	 // (x+s)^-k
			return std::pow(x + s, -k);
		if(kind == "pow")	// x^k
			return std::pow(x, k);
		if(kind == "sin")
			return std::sin(w * x + s);
		if(kind == "abs")	// |x-s|^k
			return std::pow(std::fabs(x - s), k);
		if(kind == "step")
			return x < s ? w : k;
		if(kind == "runge")	  // 1/(1+w*(x-s)^2)
			return 1.0 / (1.0 + w * (x - s) * (x - s));
		throw BadArgs("fn kind " + kind);
	}
	static double horner(const std::vector<double>& c, double x)
	{
		double r = 0.0;
		for(size_t i = c.size(); i-- > 0;)
			r = c[i] + x * r;
		return r;
	}
};

static Fn parse_fn(Args& a)
{
	Fn f;
	f.kind = a.tok();
	if(f.kind == "poly")
		f.p = a.dbls();
	else if(f.kind == "rat")
	{
		f.p = a.dbls();
		f.q = a.dbls();
	}
	else
	{
		f.w = a.dbl();
		f.s = a.dbl();
		f.k = a.dbl();
		f(1.0);	  // validates the kind
	}
	return f;
}

static std::string do_int(Args& a)
{
	int tr	   = (int) a.i64();
	Fn fn	   = parse_fn(a);
	double lo  = a.dbl();
	double hi  = a.dbl();
	double eps = a.dbl();
	int depth  = (int) a.i64();
	a.end();
	return run([&](Out& o) {
		std::vector<double> xs;
		long long n = 0;
		long double sum = 0;
		double mn = INFINITY, mx = -INFINITY;
		auto cb = [&](double x) {
			n++;
			sum += x;
			if(x < mn)
				mn = x;
			if(x > mx)
				mx = x;
			if(tr)
				xs.push_back(x);
			return fn(x);
		};
		std::ostringstream cap_out, cap_err;
		std::streambuf* ob = std::cout.rdbuf(cap_out.rdbuf());
		std::streambuf* eb = std::cerr.rdbuf(cap_err.rdbuf());
		double r		   = Integrate(cb, lo, hi, eps, depth);
		std::cout.rdbuf(ob);
		std::cerr.rdbuf(eb);
		int warn = cap_out.str().find("did not converge") != std::string::npos;
		int swapw = cap_err.str().find("Sign will get swapped") != std::string::npos;
		o << r << warn << n << (double) sum << mn << mx << swapw;
		if(tr)
			o << xs;
	});
}

std::string handle(const std::string& op, Args& a)
{
	if(op == "c03.int" || op == "c03.fam")
		return do_int(a);
	throw BadOp();
}
}	// namespace hz
