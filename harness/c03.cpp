// C03 harness: libphysica::Integrate(func,a,b,epsilon,maxRecursionDepth) — adaptive Simpson.
// The integrand is described in the request so that the model can evaluate the same function;
// the callback records every abscissa at which the library calls it.
#define HZ_MAIN
#include "common.hpp"

#include "libphysica/Integration.hpp"

using namespace libphysica;

namespace hz
{
struct Fn
{
	std::string kind;
	std::vector<double> p, q;
	double w = 0, s = 0, k = 0;
	double operator()(double x) const
	{
		if(kind == "poly")
			return horner(p, x);
		if(kind == "rat")
			return horner(p, x) / horner(q, x);
		if(kind == "exp")
			return std::exp(w * x);
		if(kind == "cosh")
			return std::cosh(w * x);
		if(kind == "ipow")	 // (x+s)^-k
			return std::pow(x + s, -k);
		if(kind == "pow")	// x^k
			return std::pow(x, k);
		if(kind == "sin")
			return std::sin(w * x + s);
		if(kind == "abs")	// |x-s|^k
			return std::pow(std::fabs(x - s), k);
		if(kind == "noise")	  // rough at every scale: the Simpson estimates of a panel never agree
			return std::fmod(std::sin(x * w + s) * 43758.5453, 1.0);
		if(kind == "step")
			return x < s ? w : k;
		if(kind == "runge")	  // 1/(1+w*(x-s)^2)
			return 1.0 / (1.0 + w * (x - s) * (x - s));
		throw BadArgs("fn kind " + kind);
	}
	static double horner(const std::vector<double>& c, double x)
	{
		double r = 0.0;
		for(size_t i = c.size(); i-- > 0;)
			r = c[i] + x * r;
		return r;
	}
};

static Fn parse_fn(Args& a)
{
	Fn f;
	f.kind = a.tok();
	if(f.kind == "poly")
		f.p = a.dbls();
	else if(f.kind == "rat")
	{
		f.p = a.dbls();
		f.q = a.dbls();
	}
	else
	{
		f.w = a.dbl();
		f.s = a.dbl();
		f.k = a.dbl();
		f(1.0);	  // validates the kind
	}
	return f;
}

// `nested`: the outer integrand performs, at every evaluation, an inner Integrate call with its own
// integrand, limits, epsilon and depth, discards its value and returns fn(x).  The outer run must not notice.
static std::string do_int(Args& a, bool nested = false)
{
	int tr	   = (int) a.i64();
	Fn fn	   = parse_fn(a);
	double lo  = a.dbl();
	double hi  = a.dbl();
	double eps = a.dbl();
	int depth  = (int) a.i64();
	Fn ifn;
	double ilo = 0, ihi = 0, ieps = 0;
	int idepth = 0;
	if(nested)
	{
		ifn	   = parse_fn(a);
		ilo	   = a.dbl();
		ihi	   = a.dbl();
		ieps   = a.dbl();
		idepth = (int) a.i64();
	}
	a.end();
	return run([&](Out& o) {
		std::vector<double> xs;
		long long n = 0;
		long double sum = 0;
		double mn = INFINITY, mx = -INFINITY;
		auto cb = [&](double x) {
			n++;
			sum += x;
			if(x < mn)
				mn = x;
			if(x > mx)
				mx = x;
			if(tr)
				xs.push_back(x);
			if(nested)
			{
				// the inner call's warnings must not be mistaken for the outer call's
				std::ostringstream sink_out, sink_err;
				std::streambuf* o2 = std::cout.rdbuf(sink_out.rdbuf());
				std::streambuf* e2 = std::cerr.rdbuf(sink_err.rdbuf());
				volatile double inner = Integrate([&](double y) { return ifn(y); }, ilo, ihi, ieps, idepth);
				(void) inner;
				std::cout.rdbuf(o2);
				std::cerr.rdbuf(e2);
			}
			return fn(x);
		};
		std::ostringstream cap_out, cap_err;
		std::streambuf* ob = std::cout.rdbuf(cap_out.rdbuf());
		std::streambuf* eb = std::cerr.rdbuf(cap_err.rdbuf());
		double r		   = Integrate(cb, lo, hi, eps, depth);
		std::cout.rdbuf(ob);
		std::cerr.rdbuf(eb);
		// the non-convergence warning is recognised by its existence, not by its wording: every warning of Integrate on
		// stdout starts with "Warning"; a nan / inf result produces exactly one further warning of its own
		long nwarn = 0;
		{
			const std::string txt = cap_out.str();
			for(size_t p = txt.find("Warning"); p != std::string::npos; p = txt.find("Warning", p + 1))
				nwarn++;
		}
		if(std::isnan(r) || std::isinf(r))
			nwarn--;
		int warn  = nwarn > 0;
		int swapw = !cap_err.str().empty();
		o << r << warn << n << (double) sum << mn << mx << swapw;
		if(tr)
			o << xs;
	});
}

// history across the two entry points: Find_Epsilon(g, lo, hi, precision) immediately followed by
// Integrate(f, a, b, eps, depth) with a DIFFERENT integrand of the SAME callable type on the same (ordered) limits.
// The Integrate run must be the run of the plain call.
struct Rec
{
	long long n = 0;
	long double sum = 0;
	double mn = INFINITY, mx = -INFINITY;
	std::vector<double> xs;
	int tr = 0;
};
static std::string do_hist(Args& a)
{
	int tr	   = (int) a.i64();
	Fn fn	   = parse_fn(a);
	double lo  = a.dbl();
	double hi  = a.dbl();
	double eps = a.dbl();
	int depth  = (int) a.i64();
	Fn gfn	   = parse_fn(a);
	double prec = a.dbl();
	a.end();
	return run([&](Out& o) {
		Rec rec, grec;
		rec.tr = tr;
		// one lambda expression -> one closure type for both integrands (std::function::target_type() is the same)
		auto make = [](const Fn* F, Rec* r) {
			return [F, r](double x) {
				r->n++;
				r->sum += x;
				if(x < r->mn)
					r->mn = x;
				if(x > r->mx)
					r->mx = x;
				if(r->tr)
					r->xs.push_back(x);
				return (*F)(x);
			};
		};
		std::function<double(double)> g = make(&gfn, &grec);
		std::function<double(double)> f = make(&fn, &rec);
		std::ostringstream cap_out, cap_err;
		std::streambuf* ob = std::cout.rdbuf(cap_out.rdbuf());
		std::streambuf* eb = std::cerr.rdbuf(cap_err.rdbuf());
		volatile double e0 = Find_Epsilon(g, std::min(lo, hi), std::max(lo, hi), prec);
		(void) e0;
		double r = Integrate(f, lo, hi, eps, depth);
		std::cout.rdbuf(ob);
		std::cerr.rdbuf(eb);
		long nwarn = 0;
		{
			const std::string txt = cap_out.str();
			for(size_t p = txt.find("Warning"); p != std::string::npos; p = txt.find("Warning", p + 1))
				nwarn++;
		}
		if(std::isnan(r) || std::isinf(r))
			nwarn--;
		int warn  = nwarn > 0;
		int swapw = !cap_err.str().empty();
		o << r << warn << rec.n << (double) rec.sum << rec.mn << rec.mx << swapw;
		if(tr)
			o << rec.xs;
	});
}

std::string handle(const std::string& op, Args& a)
{
	if(op == "c03.int" || op == "c03.fam")
		return do_int(a);
	if(op == "c03.hist" || op == "c03.histf")
		return do_hist(a);
	if(op == "c03.nested" || op == "c03.nestedf")
		return do_int(a, true);
	throw BadOp();
}
}	// namespace hz
