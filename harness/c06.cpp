// C06 harness: Gamma-function family of src/Special_Functions.cpp §2.1 (the real library).
#define HZ_MAIN
#include "common.hpp"

#include "libphysica/Special_Functions.hpp"

namespace libphysica
{
// internal functions / state with external linkage (not in the header)
extern std::vector<double> FactorialList;
extern double GammaQcf(double, double);
extern double GammaPser(double, double);
extern double GammaQint(double, double);
}	// namespace libphysica

using namespace libphysica;

namespace hz
{
static void fresh_table()
{
	FactorialList = std::vector<double> {1.0};
}

std::string handle(const std::string& op, Args& a)
{
	if(op == "c06.fact")   // fresh table
	{
		unsigned n = a.u64();
		a.end();
		fresh_table();
		if(n > 170)
			return run_forked([&](Out& o) { o << Factorial(n) << FactorialList.size(); });
		return run([&](Out& o) { o << Factorial(n) << FactorialList.size(); });
	}
	if(op == "c06.facthist")   // a history of calls from a fresh table; values of every call, final size
	{
		size_t k = a.u64();
		std::vector<unsigned> calls(k);
		bool over = false;
		for(auto& c : calls)
		{
			c = a.u64();
			over |= c > 170;
		}
		a.end();
		fresh_table();
		auto body = [&](Out& o) {
			for(unsigned c : calls)
				o << Factorial(c);
			o << FactorialList.size();
		};
		return over ? run_forked(body) : run(body);
	}
	if(op == "c06.binom")
	{
		int n = a.i64(), k = a.i64();
		a.end();
		fresh_table();
		if(n < 0 || k < 0)
			return run_forked([&](Out& o) { o << Binomial_Coefficient(n, k) << FactorialList.size(); });
		return run([&](Out& o) { o << Binomial_Coefficient(n, k) << FactorialList.size(); });
	}
	if(op == "c06.gammaln")
	{
		double x = a.dbl();
		a.end();
		if(!(x > 0))
			return run_forked([&](Out& o) { o << GammaLn(x); });
		return run([&](Out& o) { o << GammaLn(x); });
	}
	if(op == "c06.gamma")
	{
		double x = a.dbl();
		a.end();
		if(!(x > 0))
			return run_forked([&](Out& o) { o << Gamma(x); });
		return run([&](Out& o) { o << Gamma(x); });
	}
	if(op == "c06.pser" || op == "c06.qcf" || op == "c06.qint")
	{
		double x = a.dbl(), s = a.dbl();
		a.end();
		if(!(x > 0) || !(s > 0))
			throw BadArgs("internal evaluators are only called inside their domain");
		if(op == "c06.pser")
			return run([&](Out& o) { o << GammaPser(x, s); });
		if(op == "c06.qcf")
			return run([&](Out& o) { o << GammaQcf(x, s); });
		return run([&](Out& o) { o << GammaQint(x, s); });
	}
	if(op == "c06.gammaq" || op == "c06.gammap" || op == "c06.uplow")
	{
		double x = a.dbl(), s = a.dbl();
		a.end();
		bool bad  = !(x >= 0) || !(s > 0);
		auto body = [&](Out& o) {
			if(op == "c06.gammaq" || op == "c06.gammap")
			{
				o << (op == "c06.gammaq" ? GammaQ(x, s) : GammaP(x, s));
				// the three evaluators called directly (as Q values), to observe which branch GammaQ took
				bool in = x > 0 && s > 0;
				o << (in ? 1.0 - GammaPser(x, s) : NAN);
				o << (in && x - s >= 0.5 ? GammaQcf(x, s) : NAN);
				o << (in && s > 50.0 ? GammaQint(x, s) : NAN);
			}
			else
				o << Upper_Incomplete_Gamma(x, s) << Lower_Incomplete_Gamma(x, s) << Gamma(s) << GammaQ(x, s) << GammaP(x, s);
		};
		return bad ? run_forked(body) : run(body);
	}
	if(op == "c06.qscan")	// a fine scan of GammaQ in r = (x-(a-1))/sqrt(a) for a > 100: pairs (x_i, GammaQ(x_i,a))
	{
		double s = a.dbl(), r0 = a.dbl(), dr = a.dbl();
		size_t n = a.u64();
		a.end();
		if(!(s > 100.0) || n > 100000)
			throw BadArgs("qscan needs a > 100");
		return run([&](Out& o) {
			double sq = std::sqrt(s);
			for(size_t i = 0; i < n; i++)
			{
				double x = (s - 1.0) + (r0 + i * dr) * sq;
				o << x;
				o << (x > 0 ? GammaQ(x, s) : NAN);
			}
		});
	}
	if(op == "c06.invp" || op == "c06.invq")
	{
		double p = a.dbl(), s = a.dbl();
		a.end();
		bool bad  = !(s > 0) || !(p >= 0.0 && p <= 1.0);
		auto body = [&](Out& o) {
			double x = (op == "c06.invp") ? Inv_GammaP(p, s) : Inv_GammaQ(p, s);
			o << x;
			if(x >= 0)
				o << GammaP(x, s) << GammaQ(x, s);
			else
				o << "nan"
				  << "nan";
		};
		return bad ? run_forked(body) : run(body);
	}
	throw BadOp();
}
}	// namespace hz
