// C09 harness: call histories on libphysica::Interpolation / Interpolation_2D.
//   c09.hist  <xs> <ys> <n> op... <m> finalop...
//   c09.hist2 <xs> <ys> <rows> <row>... <n> op... <m> finalop...
//   c09.locate1 <xs> <jLast> <corr> <x>      one look-up from a search state reached by public calls
// op tokens: I x | D x k | G a b | m a b | M a b | gm | gM | L x | P p | X p | C
// Per history call the observation holds the answer of the used object and the answer of an
// object that has never been queried (constructed from the same table, same prefactor); per
// final query additionally the answers of every copy taken mid-sequence (class D of DESIGN.md).
#define HZ_MAIN
#include "common.hpp"

#include "libphysica/Numerics.hpp"
#include <memory>
#include <new>
#include <utility>

using namespace libphysica;

namespace hz
{
struct Op
{
	std::string t;
	double a = 0, b = 0;
	unsigned k = 0;
};

static Op read_op(Args& a, bool twod)
{
	Op o;
	o.t = a.tok();
	if(twod)
	{
		if(o.t == "I" || o.t == "Io")
		{
			o.a = a.dbl();
			o.b = a.dbl();
		}
		else if(o.t == "P" || o.t == "X")
			o.a = a.dbl();
		else if(o.t == "Sv")
			o.k = a.u64();
		else if(o.t == "Z")
		{
			o.k = a.u64();
			o.a = a.dbl();
			o.b = a.dbl();
		}
		else if(o.t != "gm" && o.t != "gM" && o.t != "C" && o.t != "Cs" && o.t != "Cm")
			throw BadArgs("op2 " + o.t);
		return o;
	}
	if(o.t == "I" || o.t == "Io" || o.t == "L" || o.t == "P" || o.t == "X")
		o.a = a.dbl();
	else if(o.t == "Sv")
		o.k = a.u64();
	else if(o.t == "D")
	{
		o.a = a.dbl();
		o.k = a.u64();
	}
	else if(o.t == "G" || o.t == "m" || o.t == "M")
	{
		o.a = a.dbl();
		o.b = a.dbl();
	}
	else if(o.t != "gm" && o.t != "gM" && o.t != "C" && o.t != "Cs" && o.t != "Cm")
		throw BadArgs("op " + o.t);
	return o;
}

static std::vector<Op> read_ops(Args& a, bool twod)
{
	size_t n = a.u64();
	std::vector<Op> v;
	for(size_t i = 0; i < n; i++)
		v.push_back(read_op(a, twod));
	return v;
}

static bool is_value(const Op& o) { return o.t == "Io" || o.t == "I" || o.t == "D" || o.t == "G" || o.t == "m" || o.t == "M" || o.t == "gm" || o.t == "gM"; }

static double query(Interpolation& f, const Op& o)
{
	if(o.t == "I")
		return f.Interpolate(o.a);
	if(o.t == "Io")
		return f(o.a);	 // operator()
	if(o.t == "D")
		return f.Derivative(o.a, o.k);
	if(o.t == "G")
		return f.Integrate(o.a, o.b);
	if(o.t == "m")
		return f.Local_Minimum(o.a, o.b);
	if(o.t == "M")
		return f.Local_Maximum(o.a, o.b);
	if(o.t == "gm")
		return f.Global_Minimum();
	if(o.t == "gM")
		return f.Global_Maximum();
	throw BadArgs("query " + o.t);
}

static double query2(Interpolation_2D& f, const Op& o)
{
	if(o.t == "I")
		return f.Interpolate(o.a, o.b);
	if(o.t == "Io")
		return f(o.a, o.b);	  // operator()
	if(o.t == "gm")
		return f.Global_Minimum();
	if(o.t == "gM")
		return f.Global_Maximum();
	throw BadArgs("query2 " + o.t);
}

std::string handle(const std::string& op, Args& a)
{
	if(op == "c09.hist")
	{
		auto xs = a.dbls(), ys = a.dbls();
		double xd = a.dbl(), fd = a.dbl();
		auto h = read_ops(a, false), q = read_ops(a, false);
		a.end();
		return run_forked([&](Out& o) {
			Interpolation obj(xs, ys, xd, fd);
			const Interpolation pristine(xs, ys, xd, fd);
			double p   = 1.0;
			bool p_set = false;
			struct Saved
			{
				Interpolation f;
				double p;
				bool p_set;
			};
			std::vector<Saved> saved;
			size_t step = 0;
			auto fresh	= [&](double pp, bool set, bool construct) {
				 Interpolation f = (construct || xs.size() <= 64 || step % 16 == 0) ? Interpolation(xs, ys, xd, fd) : Interpolation(pristine);
				 if(set)
					 f.Set_Prefactor(pp);
				 return f;
			};
			for(const Op& c : h)
			{
				step++;
				if(c.t == "P")
				{
					obj.Set_Prefactor(c.a);
					p	  = c.a;
					p_set = true;
					o << "U";
				}
				else if(c.t == "X")
				{
					obj.Multiply(c.a);
					p *= c.a;
					p_set = true;
					o << "U";
				}
				else if(c.t == "C")
				{
					if(saved.size() < 6)
						saved.push_back(Saved {Interpolation(obj), p, p_set});
					Interpolation tmp(obj);	  // copy construction + assignment back: the object continues as its own copy
					obj = tmp;
					o << "U";
				}
				else if(c.t == "Cs")
				{
					Interpolation& self = obj;	 // self-assignment
					obj					= self;
					o << "U";
				}
				else if(c.t == "Cm")
				{
					Interpolation tmp(std::move(obj));	 // move construction + move assignment back
					obj = std::move(tmp);
					o << "U";
				}
				else if(c.t == "Sv")
				{
					obj.Save_Function("/dev/null", c.k);   // evaluates the curve at c.k points of the domain
					o << "U";
				}
				else if(c.t == "L")
				{
					Interpolation f = fresh(p, p_set, false);
					unsigned ju		= obj.Locate(c.a);
					unsigned jf		= f.Locate(c.a);
					o << "L" << ju << jf;
				}
				else
				{
					Interpolation f = fresh(p, p_set, false);
					double vu		= query(obj, c);
					double vf		= query(f, c);
					o << "V" << vu << vf;
					// "changes all outputs by exactly the factor": the same query (extrema swapped for a negative factor)
					// on an object whose prefactor was never touched
					if(p_set && (c.t == "I" || c.t == "Io" || c.t == "D" || c.t == "G" || c.t == "m" || c.t == "M" || c.t == "gm" || c.t == "gM"))
					{
						Interpolation u = fresh(1.0, false, false);
						Op cu			= c;
						if(p < 0)
							cu.t = c.t == "m" ? "M" : c.t == "M" ? "m" : c.t == "gm" ? "gM" : c.t == "gM" ? "gm" : c.t;
						o << "S" << query(u, cu) << p;
					}
				}
			}
			for(const Op& c : q)
			{
				step++;
				if(c.t == "L")
				{
					Interpolation f = fresh(p, p_set, true);
					o << "FL" << (long long) (2 + 2 * saved.size()) << obj.Locate(c.a) << f.Locate(c.a);
					for(auto& s : saved)
					{
						Interpolation fs = fresh(s.p, s.p_set, true);
						o << s.f.Locate(c.a) << fs.Locate(c.a);
					}
				}
				else if(is_value(c))
				{
					Interpolation f = fresh(p, p_set, true);
					o << "F" << (long long) (2 + 2 * saved.size()) << query(obj, c) << query(f, c);
					for(auto& s : saved)
					{
						Interpolation fs = fresh(s.p, s.p_set, true);
						o << query(s.f, c) << query(fs, c);
					}
				}
				else
					throw BadArgs("final query must return a value");
			}
		});
	}
	if(op == "c09.hist2")
	{
		auto xs = a.dbls(), ys = a.dbls();
		size_t rows = a.u64();
		std::vector<std::vector<double>> f(rows);
		for(auto& r : f)
			r = a.dbls();
		double xd = a.dbl(), yd = a.dbl(), fd = a.dbl();
		auto h = read_ops(a, true), q = read_ops(a, true);
		a.end();
		// another table of the same shape (abscissae compressed towards the first one), used to overwrite the source of copies
		auto squeeze = [](const std::vector<double>& v) {
			std::vector<double> r(v);
			for(size_t i = 1; i < r.size(); i++)
			{
				r[i] = v[0] + 0.4375 * (v[i] - v[0]);
				if(!(r[i] > r[i - 1]))
					r[i] = std::nextafter(r[i - 1], INFINITY);
			}
			return r;
		};
		return run_forked([&](Out& o) {
			std::unique_ptr<Interpolation_2D> objp(new Interpolation_2D(xs, ys, f, xd, yd, fd));
			double p   = 1.0;
			bool p_set = false;
			struct Saved
			{
				Interpolation_2D f;
				double p;
				bool p_set;
			};
			std::vector<Saved> saved;
			auto fresh = [&](double pp, bool set) {
				Interpolation_2D g(xs, ys, f, xd, yd, fd);
				if(set)
					g.Set_Prefactor(pp);
				return g;
			};
			for(const Op& c : h)
			{
				if(c.t == "P")
				{
					objp->Set_Prefactor(c.a);
					p	  = c.a;
					p_set = true;
					o << "U";
				}
				else if(c.t == "X")
				{
					objp->Multiply(c.a);
					p *= c.a;
					p_set = true;
					o << "U";
				}
				else if(c.t == "C")
				{
					if(saved.size() < 6)
						saved.push_back(Saved {Interpolation_2D(*objp), p, p_set});
					Interpolation_2D tmp(*objp);
					*objp = tmp;
					o << "U";
				}
				else if(c.t == "Cs")
				{
					Interpolation_2D& self = *objp;
					*objp				   = self;
					o << "U";
				}
				else if(c.t == "Cm")
				{
					Interpolation_2D tmp(std::move(*objp));
					*objp = std::move(tmp);
					o << "U";
				}
				else if(c.t == "Sv")
				{
					objp->Save_Function("/dev/null", c.k, c.k);
					o << "U";
				}
				else if(c.t == "Z")
				{
					// copies are queried while their source is overwritten in place by another table (k = 0) or destroyed (k = 1)
					Op qi;
					qi.t = "I";
					qi.a = c.a;
					qi.b = c.b;
					double vu, vf;
					{
						Interpolation_2D g = fresh(p, p_set);
						vu				   = query2(*objp, qi);
						vf				   = query2(g, qi);
					}
					if(c.k == 0)
					{
						Interpolation_2D other(squeeze(xs), squeeze(ys), f, xd, yd, fd);
						*objp = other;
					}
					else
						objp.reset();
					o << "F" << (long long) (2 + 2 * saved.size()) << vu << vf;
					for(auto& sv : saved)
					{
						Interpolation_2D gs = fresh(sv.p, sv.p_set);
						o << query2(sv.f, qi) << query2(gs, qi);
					}
					objp.reset(new Interpolation_2D(xs, ys, f, xd, yd, fd));
					if(p_set)
						objp->Set_Prefactor(p);
				}
				else
				{
					Interpolation_2D g = fresh(p, p_set);
					double vu		   = query2(*objp, c);
					double vf		   = query2(g, c);
					o << "V" << vu << vf;
					if(p_set)
					{
						Interpolation_2D u = fresh(1.0, false);
						Op cu			   = c;
						if(p < 0)
							cu.t = c.t == "gm" ? "gM" : c.t == "gM" ? "gm" : c.t;
						o << "S" << query2(u, cu) << p;
					}
				}
			}
			for(const Op& c : q)
			{
				Interpolation_2D g = fresh(p, p_set);
				o << "F" << (long long) (2 + 2 * saved.size()) << query2(*objp, c) << query2(g, c);
				for(auto& s : saved)
				{
					Interpolation_2D gs = fresh(s.p, s.p_set);
					o << query2(s.f, c) << query2(gs, c);
				}
			}
		});
	}
	if(op == "c09.pool")
	{
		size_t nt = a.u64();
		std::vector<std::pair<std::vector<double>, std::vector<double>>> tb(nt);
		for(auto& t : tb)
		{
			t.first	 = a.dbls();
			t.second = a.dbls();
		}
		size_t ns  = a.u64();
		size_t nop = a.u64();
		struct POp
		{
			std::string t;
			size_t i = 0, j = 0;
			Op q;
		};
		std::vector<POp> ops(nop);
		for(auto& c : ops)
		{
			c.t = a.tok();
			if(c.t == "N" || c.t == "K" || c.t == "A")
			{
				c.i = a.u64();
				c.j = a.u64();
			}
			else if(c.t == "X")
				c.i = a.u64();
			else if(c.t == "Q")
			{
				c.i = a.u64();
				c.q = read_op(a, false);
			}
			else if(c.t == "R")	  // R mode slot table xold xnew
			{
				c.q.k = a.u64();
				c.i	  = a.u64();
				c.j	  = a.u64();
				c.q.a = a.dbl();
				c.q.b = a.dbl();
			}
			else
				throw BadArgs("pop " + c.t);
		}
		a.end();
		return run_forked([&](Out& o) {
			struct Info
			{
				size_t table = 0;
				double p	 = 1.0;
				bool p_set	 = false;
			};
			std::vector<std::unique_ptr<Interpolation>> slot(ns), keep;
			std::vector<Info> info(ns);
			auto live = [&](size_t k) {
				if(k >= ns || !slot[k])
					throw BadArgs("dead slot");
			};
			for(const POp& c : ops)
			{
				if(c.t == "N")
				{
					if(c.i >= ns || c.j >= nt)
						throw BadArgs("slot/table");
					if(slot[c.i])
					{
						// a named, longer-lived object: copy assignment, buffers reused in place (its destruction is the business of op X)
						keep.emplace_back(new Interpolation(tb[c.j].first, tb[c.j].second));
						*slot[c.i] = *keep.back();
					}
					else
						slot[c.i].reset(new Interpolation(tb[c.j].first, tb[c.j].second));
					info[c.i] = Info {c.j, 1.0, false};
					o << "U";
				}
				else if(c.t == "K")
				{
					live(c.i);
					if(c.j >= ns)
						throw BadArgs("slot");
					slot[c.j].reset(new Interpolation(*slot[c.i]));
					info[c.j] = info[c.i];
					o << "U";
				}
				else if(c.t == "A")
				{
					live(c.i);
					live(c.j);
					*slot[c.j] = *slot[c.i];
					info[c.j]  = info[c.i];
					o << "U";
				}
				else if(c.t == "X")
				{
					if(c.i >= ns)
						throw BadArgs("slot");
					slot[c.i].reset();
					o << "U";
				}
				else if(c.t == "R")
				{
					// the old object evaluates, then another curve takes its place in the SAME storage (mode 0: destructor +
					// placement new; mode 1: assignment of a newly constructed object), and the new object's first call follows
					// immediately - no call on any other object in between
					live(c.i);
					if(c.j >= nt)
						throw BadArgs("table");
					Interpolation* ptr = slot[c.i].get();
					(void) ptr->Interpolate(c.q.a);
					if(c.q.k == 0)
					{
						ptr->~Interpolation();
						new(ptr) Interpolation(tb[c.j].first, tb[c.j].second);
					}
					else
						*ptr = Interpolation(tb[c.j].first, tb[c.j].second);
					info[c.i] = Info {c.j, 1.0, false};
					double vu = ptr->Interpolate(c.q.b);
					Interpolation g(tb[c.j].first, tb[c.j].second);
					double vf = g.Interpolate(c.q.b);
					o << "V" << vu << vf;
				}
				else
				{
					live(c.i);
					Interpolation& f = *slot[c.i];
					Info& in		 = info[c.i];
					const Op& q		 = c.q;
					if(q.t == "P")
					{
						f.Set_Prefactor(q.a);
						in.p	 = q.a;
						in.p_set = true;
						o << "U";
					}
					else if(q.t == "X")
					{
						f.Multiply(q.a);
						in.p *= q.a;
						in.p_set = true;
						o << "U";
					}
					else if(q.t == "C")
						o << "U";
					else if(q.t == "Cs")
					{
						Interpolation& self = f;
						f					= self;
						o << "U";
					}
					else if(q.t == "Cm")
					{
						Interpolation tmp(std::move(f));
						f = std::move(tmp);
						o << "U";
					}
					else if(q.t == "Sv")
					{
						f.Save_Function("/dev/null", q.k);
						o << "U";
					}
					else
					{
						Interpolation g(tb[in.table].first, tb[in.table].second);
						if(in.p_set)
							g.Set_Prefactor(in.p);
						if(q.t == "L")
						{
							unsigned ju = f.Locate(q.a);
							unsigned jf = g.Locate(q.a);
							o << "L" << ju << jf;
						}
						else
						{
							double vu = query(f, q);
							double vf = query(g, q);
							o << "V" << vu << vf;
						}
					}
				}
			}
		});
	}
	if(op == "c09.locate1")
	{
		auto xs			= a.dbls();
		unsigned jl		= a.u64();
		unsigned corr	= a.u64();
		double x		= a.dbl();
		a.end();
		size_t N = xs.size();
		if(N < 3 || jl + 2 > N)
			return "skip";
		// reach the search state (jLast = jl, correlated_calls = corr) through public calls only
		std::vector<double> prefix;
		if(corr)
			prefix = {xs[jl], xs[jl]};
		else if(jl == 0)
			prefix = {};   // the state of a new object
		else if(jl + 1 <= N - 2)
			prefix = {xs[jl + 1], xs[jl]};	 // a downward step: fabs(j - jLast) wraps around
		else if(jl >= 10)
			prefix = {xs[0], xs[jl]};	// a far jump
		else
			return "skip";	 // not reachable
		return run_forked([&](Out& o) {
			Interpolation obj(xs, std::vector<double>(N, 0.0));
			unsigned last = 0;
			for(double v : prefix)
				last = obj.Locate(v);
			if(!prefix.empty() && last != jl)
			{
				o << "prefix-failed" << last;
				return;
			}
			unsigned j = obj.Locate(x);
			o << j;
		});
	}
	throw BadOp();
}
}	// namespace hz
