// C12 harness: Gauss-Legendre rules of src/Integration.cpp §1.2.
#define HZ_MAIN
#include "common.hpp"

#include "libphysica/Integration.hpp"

using namespace libphysica;

namespace hz
{
static double horner(const std::vector<double>& c, double x)
{
	double r = 0.0;
	for(size_t i = c.size(); i-- > 0;)
		r = c[i] + x * r;
	return r;
}

static std::vector<std::vector<double>> pairs(Args& a)
{
	size_t n = a.u64();
	std::vector<std::vector<double>> rw(n, std::vector<double>(2, 0.0));
	for(auto& p : rw)
	{
		p[0] = a.dbl();
		p[1] = a.dbl();
	}
	return rw;
}

std::string handle(const std::string& op, Args& a)
{
	if(op == "c12.rule" || op == "c12.sel")
	{
		unsigned n = a.u64();
		double x0 = a.dbl(), x1 = a.dbl();
		if(op == "c12.sel")
			a.ints();
		a.end();
		// forked: a Newton loop that does not converge becomes `timeout`
		return run_forked([&](Out& o) {
			auto rw = Compute_Gauss_Legendre_Roots_and_Weights(n, x0, x1);
			o << rw.size();
			for(auto& p : rw)
			{
				o << p.size();
				for(double v : p)
					o << v;
			}
		});
	}
	if(op == "c12.seq")
	{
		// history: the whole sequence of rules is computed in ONE child process, one after the other;
		// then every member once more alone in a fresh child (the parent never computes a rule itself).
		size_t k = a.u64();
		std::vector<unsigned> ns(k);
		std::vector<double> lo(k), hi(k);
		for(size_t i = 0; i < k; i++)
		{
			ns[i] = a.u64();
			lo[i] = a.dbl();
			hi[i] = a.dbl();
		}
		a.end();
		auto dump = [](Out& o, const std::vector<std::vector<double>>& rw) {
			o << rw.size();
			for(auto& p : rw)
			{
				o << p.size();
				for(double v : p)
					o << v;
			}
		};
		std::string seq = run_forked([&](Out& o) {
			for(size_t i = 0; i < k; i++)
				dump(o, Compute_Gauss_Legendre_Roots_and_Weights(ns[i], lo[i], hi[i]));
		});
		if(seq.compare(0, 2, "ok") != 0)
			return seq;
		std::string res = "ok " + std::to_string(k) + seq.substr(2) + " alone";
		for(size_t i = 0; i < k; i++)
		{
			std::string one = run_forked([&](Out& o) { dump(o, Compute_Gauss_Legendre_Roots_and_Weights(ns[i], lo[i], hi[i])); });
			if(one.compare(0, 2, "ok") != 0)
				return one;
			res += one.substr(2);
		}
		return res;
	}
	if(op == "c12.iseq")
	{
		// history of the INTEGRATING overload (func,a,b,n): all calls in one child, then every call alone in a
		// fresh child together with the two rule-taking overloads on Compute_(n,a,b)
		auto c	 = a.dbls();
		size_t k = a.u64();
		std::vector<unsigned> ns(k);
		std::vector<double> lo(k), hi(k);
		for(size_t i = 0; i < k; i++)
		{
			ns[i] = a.u64();
			lo[i] = a.dbl();
			hi[i] = a.dbl();
		}
		a.end();
		auto f			= [&](double x) { return horner(c, x); };
		std::string seq = run_forked([&](Out& o) {
			for(size_t i = 0; i < k; i++)
				o << Integrate_Gauss_Legendre(f, lo[i], hi[i], ns[i]);
		});
		if(seq.compare(0, 2, "ok") != 0)
			return seq;
		std::string res = "ok " + std::to_string(k) + seq.substr(2) + " alone";
		for(size_t i = 0; i < k; i++)
		{
			std::string one = run_forked([&](Out& o) {
				double r1 = Integrate_Gauss_Legendre(f, lo[i], hi[i], ns[i]);
				auto rw	  = Compute_Gauss_Legendre_Roots_and_Weights(ns[i], lo[i], hi[i]);
				double r2 = Integrate_Gauss_Legendre(f, rw);
				std::vector<double> fv;
				for(auto& p : rw)
					fv.push_back(f(p[0]));
				o << r1 << r2 << Integrate_Gauss_Legendre(fv, rw);
			});
			if(one.compare(0, 2, "ok") != 0)
				return one;
			res += one.substr(2);
		}
		return res;
	}
	if(op == "c12.reent")
	{
		// re-entrancy: the integrand of overload 1 calls overload 1 with limits depending on the outer variable
		unsigned nO = a.u64(), nI = a.u64();
		double x0 = a.dbl(), x1 = a.dbl(), l0 = a.dbl(), l1 = a.dbl(), h0 = a.dbl(), h1 = a.dbl();
		size_t k = a.u64();
		std::vector<double> cs(k);
		std::vector<int> is(k), js(k);
		for(size_t t = 0; t < k; t++)
		{
			cs[t] = a.dbl();
			is[t] = a.i64();
			js[t] = a.i64();
		}
		a.end();
		auto ipow = [](double x, int n) { double r = 1.0; for(int i = 0; i < n; i++) r *= x; return r; };
		auto g	  = [&](double x, double y) { double r = 0.0; for(size_t t = 0; t < k; t++) r += cs[t] * ipow(x, is[t]) * ipow(y, js[t]); return r; };
		return run_forked([&](Out& o) {
			// (1) overload (func,a,b,n) at both levels
			double v1 = Integrate_Gauss_Legendre([&](double x) {
				return Integrate_Gauss_Legendre([&](double y) { return g(x, y); }, l0 + l1 * x, h0 + h1 * x, nI);
			}, x0, x1, nO);
			// (2) overload (func, rule) with explicitly computed rules at both levels
			auto rule_out = Compute_Gauss_Legendre_Roots_and_Weights(nO, x0, x1);
			double v2	  = Integrate_Gauss_Legendre([&](double x) {
				auto rule_in = Compute_Gauss_Legendre_Roots_and_Weights(nI, l0 + l1 * x, h0 + h1 * x);
				return Integrate_Gauss_Legendre([&](double y) { return g(x, y); }, rule_in);
			}, rule_out);
			// (3) overload (values, rule)
			std::vector<double> outer_values;
			for(auto& p : rule_out)
			{
				double x	 = p[0];
				auto rule_in = Compute_Gauss_Legendre_Roots_and_Weights(nI, l0 + l1 * x, h0 + h1 * x);
				std::vector<double> fv;
				for(auto& q : rule_in)
					fv.push_back(g(x, q[0]));
				outer_values.push_back(Integrate_Gauss_Legendre(fv, rule_in));
			}
			double v3 = Integrate_Gauss_Legendre(outer_values, rule_out);
			// (4) mixed: overload 1 outside, explicit rule inside; and the reverse
			double v4 = Integrate_Gauss_Legendre([&](double x) {
				auto rule_in = Compute_Gauss_Legendre_Roots_and_Weights(nI, l0 + l1 * x, h0 + h1 * x);
				return Integrate_Gauss_Legendre([&](double y) { return g(x, y); }, rule_in);
			}, x0, x1, nO);
			o << v1 << v2 << v3 << v4;
		});
	}
	if(op == "c12.rev")
	{
		unsigned n = a.u64();
		double x0 = a.dbl(), x1 = a.dbl();
		a.end();
		return run_forked([&](Out& o) {
			for(int dir = 0; dir < 2; dir++)
			{
				auto rw = dir == 0 ? Compute_Gauss_Legendre_Roots_and_Weights(n, x0, x1) : Compute_Gauss_Legendre_Roots_and_Weights(n, x1, x0);
				o << rw.size();
				for(auto& p : rw)
				{
					o << p.size();
					for(double v : p)
						o << v;
				}
			}
		});
	}
	if(op == "c12.rowsvals" || op == "c12.rowsfunc")
	{
		// rule-taking overloads on raw rows of any length (0, 1, 2, 3, transposed rule)
		auto first = a.dbls();	 // values resp. polynomial coefficients
		size_t nr  = a.u64();
		std::vector<std::vector<double>> rows(nr);
		for(auto& r : rows)
			r = a.dbls();
		a.end();
		bool vals = op == "c12.rowsvals";
		return run_forked([&](Out& o) {
			if(vals)
				o << Integrate_Gauss_Legendre(first, rows);
			else
				o << Integrate_Gauss_Legendre([&](double x) { return horner(first, x); }, rows);
		});
	}
	if(op == "c12.sumvals")
	{
		auto v	= a.dbls();
		auto rw = pairs(a);
		a.end();
		return run_forked([&](Out& o) { o << Integrate_Gauss_Legendre(v, rw); });
	}
	if(op == "c12.sumfunc")
	{
		auto c	= a.dbls();
		auto rw = pairs(a);
		a.end();
		return run_forked([&](Out& o) {
			std::vector<double> seen;
			double r = Integrate_Gauss_Legendre([&](double x) { seen.push_back(x); return horner(c, x); }, rw);
			o << r;
			o.list(seen);
		});
	}
	if(op == "c12.integ")
	{
		auto c	   = a.dbls();
		double x0 = a.dbl(), x1 = a.dbl();
		unsigned n = a.u64();
		a.end();
		return run_forked([&](Out& o) {
			auto f	  = [&](double x) { return horner(c, x); };
			double r1 = Integrate_Gauss_Legendre(f, x0, x1, n);
			auto rw	  = Compute_Gauss_Legendre_Roots_and_Weights(n, x0, x1);
			double r2 = Integrate_Gauss_Legendre(f, rw);
			std::vector<double> fv;
			for(auto& p : rw)
				fv.push_back(f(p[0]));
			double r3 = Integrate_Gauss_Legendre(fv, rw);
			o << r1 << r2 << r3;
		});
	}
	if(op == "c12.default")	  // default arguments: n = 30 in the integrating overload, [-1,1] for the rule
	{
		auto c = a.dbls();
		double x0 = a.dbl(), x1 = a.dbl();
		a.end();
		return run_forked([&](Out& o) {
			auto f = [&](double x) { return horner(c, x); };
			o << Integrate_Gauss_Legendre(f, x0, x1) << Integrate_Gauss_Legendre(f, x0, x1, 30);
			auto r1 = Compute_Gauss_Legendre_Roots_and_Weights(7);
			auto r2 = Compute_Gauss_Legendre_Roots_and_Weights(7, -1.0, 1.0);
			o << (int) (r1 == r2);
		});
	}
	throw BadOp();
}
}	// namespace hz
