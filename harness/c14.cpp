// C14 harness: Monte-Carlo integrators of Integration.cpp §2.2 with a controlled seed.
#define HZ_MAIN
#include "common.hpp"

#include <random>

#include "libphysica/Integration.hpp"

// The integrators seed a std::mt19937 from std::random_device on every call: make that source
// deterministic (libstdc++: random_device::operator() calls _M_getval()).
static unsigned int g_seed = 1;
unsigned int std::random_device::_M_getval() { return g_seed; }

using namespace libphysica;

namespace hz
{
struct Rec
{
	int d = 0;
	long long calls = 0;
	std::vector<double> mn, mx, first;
	long long badsize = 0;	  // callbacks whose argument vector did not have exactly d entries
	size_t maxsize	  = 0;
	void init(int dim)
	{
		d		= dim;
		calls	= 0;
		badsize = 0;
		maxsize = 0;
		mn.assign(dim, INFINITY);
		mx.assign(dim, -INFINITY);
		first.clear();
	}
	void see(const double* x)
	{
		for(int i = 0; i < d; i++)
		{
			if(!(x[i] >= mn[i]))
				mn[i] = x[i];
			if(!(x[i] <= mx[i]))
				mx[i] = x[i];
			if(calls < 3)
				first.push_back(x[i]);
		}
		calls++;
	}
	void see(const std::vector<double>& x)
	{
		if(x.size() != (size_t) d)
			badsize++;
		if(x.size() > maxsize)
			maxsize = x.size();
		if(x.size() >= (size_t) d)
			see(x.data());
		else
			calls++;
	}
	// every recorded point inside the (possibly reversed) limits lo[i], hi[i]
	bool inside(const std::vector<double>& lo, const std::vector<double>& hi) const
	{
		if(calls == 0)
			return true;
		for(int i = 0; i < d; i++)
			if(!(mn[i] >= std::min(lo[i], hi[i]) && mx[i] <= std::max(lo[i], hi[i])))
				return false;
		return true;
	}
};

// integrand families; p = parameters (per family)
static double fam(int fid, int d, const double* x, const std::vector<double>& p, size_t n = 0)
{
	double s = 0.0;
	switch(fid)
	{
		case 0: return p[0];													   // constant
		case 1: for(int i = 0; i < d; i++) s += x[i]; return s;					   // sum of coordinates
		case 2: s = 1.0; for(int i = 0; i < d; i++) s *= x[i]; return s;			   // product
		case 3: for(int i = 0; i < d; i++) s += p[i] * x[i]; return std::exp(-s);   // separable exponential
		case 4: for(int i = 0; i < d; i++) s += (x[i] - p[i]) * (x[i] - p[i]); return std::exp(-0.5 * s / (p[d] * p[d]));	// off-centre Gaussian
		case 5: for(int i = 0; i < d; i++) s += x[i] * x[i]; return s + 1.0;		   // polynomial
		case 6: for(size_t i = 0; i < (n ? n : (size_t) d); i++) s += x[i]; return s;   // sum over the WHOLE argument vector (all x.size() entries)
	}
	return 0.0;
}

struct Call
{
	std::string method;
	unsigned seed;
	int d;
	std::vector<double> region;
	int ncalls;
	int fid;
	std::vector<double> p;
};

static Call parse_call(Args& a)
{
	Call c;
	c.method = a.tok();
	c.seed	 = (unsigned) a.u64();
	c.d		 = (int) a.i64();
	c.region = a.dbls();
	c.ncalls = (int) a.i64();
	c.fid	 = (int) a.i64();
	c.p		 = a.dbls();
	if((int) c.region.size() != 2 * c.d && c.d != 0)	  // d == 0 marks a guard probe: the region is passed on as it is
		throw BadArgs("region size");
	return c;
}

static double do_call(const Call& c, Rec& rec)
{
	rec.init(c.d);
	g_seed = c.seed;
	std::function<double(std::vector<double>&, const double)> f = [&](std::vector<double>& x, const double) {
		rec.see(x);
		return fam(c.fid, c.d, x.data(), c.p, x.size());
	};
	std::vector<double> region = c.region;
	return Integrate_MC(f, region, c.ncalls, c.method);
}

// an integration that does not run to completion: the integrand throws at its k-th evaluation and the caller catches;
// `at_k` (optional) runs first at that evaluation (used for a call nested inside another call's integrand)
struct Abandon
{
};
static void do_call_abandoned(const Call& c, long long k, const std::function<void()>& at_k = nullptr)
{
	Rec rec;
	rec.init(c.d);
	g_seed = c.seed;
	std::function<double(std::vector<double>&, const double)> f = [&](std::vector<double>& x, const double) {
		rec.see(x);
		if(rec.calls >= k)
		{
			if(at_k)
				at_k();
			throw Abandon();
		}
		return fam(c.fid, c.d, x.data(), c.p, x.size());
	};
	std::vector<double> region = c.region;
	try
	{
		Integrate_MC(f, region, c.ncalls, c.method);
	}
	catch(const Abandon&)
	{
	}
}

// record of one observed run in the history ops: value, evaluations, all points inside the region, argument sizes all == d
static void emit_run(Out& o, double v, const Rec& r, const Call& c)
{
	std::vector<double> lo(c.region.begin(), c.region.begin() + c.d), hi(c.region.begin() + c.d, c.region.end());
	o << v << r.calls << (int) r.inside(lo, hi) << r.badsize;
}

std::string handle(const std::string& op, Args& a)
{
	if(op == "c14.regobj")
	{
		// ONE region vector object reused by a sequence of Integrate_MC calls (it is taken by non-const reference), some of
		// them abandoned late (the integrand throws at its k-th evaluation); after every call: is the vector still bitwise
		// what was passed in?  Integrand 7 returns the sum of the entries of the CALLER's region vector as it reads it
		// during the integration (a constant iff the integrator leaves the vector alone).
		//    d  region  nitems  ( C | A k )  method seed ncalls fid params ...
		int d		= (int) a.i64();
		auto region0 = a.dbls();
		if((int) region0.size() != 2 * d)
			throw BadArgs("region size");
		size_t ni = a.u64();
		struct It
		{
			bool abandon;
			long long k;
			Call c;
		};
		std::vector<It> items(ni);
		for(auto& it : items)
		{
			std::string m = a.tok();
			if(m != "C" && m != "A")
				throw BadArgs("item mode");
			it.abandon	= m == "A";
			it.k		= it.abandon ? a.i64() : 0;
			it.c.method = a.tok();
			it.c.seed	= (unsigned) a.u64();
			it.c.ncalls = (int) a.i64();
			it.c.fid	= (int) a.i64();
			it.c.p		= a.dbls();
			it.c.d		= d;
			it.c.region = region0;
		}
		a.end();
		auto run_on = [&](std::vector<double>& region, const It& it, Rec& rec, bool& seen_changed) {
			rec.init(d);
			g_seed = it.c.seed;
			std::function<double(std::vector<double>&, const double)> f = [&](std::vector<double>& x, const double) {
				rec.see(x);
				if(memcmp(region.data(), region0.data(), region0.size() * sizeof(double)) != 0)
					seen_changed = true;
				if(it.abandon && rec.calls >= it.k)
					throw Abandon();
				if(it.c.fid == 7)
				{
					double s = 0.0;
					for(double v : region)
						s += v;
					return s;
				}
				return fam(it.c.fid, d, x.data(), it.c.p, x.size());
			};
			double v = NAN;
			try
			{
				v = Integrate_MC(f, region, it.c.ncalls, it.c.method);
			}
			catch(const Abandon&)
			{
			}
			return v;
		};
		// each completed call alone on a pristine vector in a fresh process (reference), then the whole sequence on one object
		std::string res = "ok";
		std::string seq = run_forked([&](Out& o) {
			std::vector<double> region = region0;
			for(auto& it : items)
			{
				Rec rec;
				bool seen = false;
				double v	= run_on(region, it, rec, seen);
				bool intact = memcmp(region.data(), region0.data(), region0.size() * sizeof(double)) == 0;
				o << v << rec.calls << (int) intact << (int) seen << (int) rec.inside(std::vector<double>(region0.begin(), region0.begin() + d), std::vector<double>(region0.begin() + d, region0.end()));
			}
		});
		if(seq.substr(0, 2) != "ok")
			return seq;
		res += seq.substr(2);
		for(auto& it : items)
		{
			if(it.abandon)
				continue;
			std::string one = run_forked([&](Out& o) {
				std::vector<double> region = region0;
				Rec rec;
				bool seen = false;
				o << run_on(region, it, rec, seen) << rec.calls;
			});
			if(one.substr(0, 2) != "ok")
				return one;
			res += " ref" + one.substr(2);
		}
		return res;
	}
	if(op == "c14.outer")
	{
		// STATISTIC, not a property clause: an outer call whose integrand runs another complete integration at its k-th
		// evaluation, against the same outer call alone:   <outer call> <k> <inner call>
		Call outer = parse_call(a);
		long long k = a.i64();
		Call inner = parse_call(a);
		a.end();
		std::string alone = run_forked([&](Out& o) { Rec r; double v = do_call(outer, r); o << v << r.calls; });
		std::string with  = run_forked([&](Out& o) {
			 Rec rec, r2;
			 rec.init(outer.d);
			 g_seed = outer.seed;
			 std::function<double(std::vector<double>&, const double)> f = [&](std::vector<double>& x, const double) {
				 rec.see(x);
				 if(rec.calls == k)
				 {
					 std::vector<double> keep = x;
					 do_call(inner, r2);
					 return fam(outer.fid, outer.d, keep.data(), outer.p, keep.size());
				 }
				 return fam(outer.fid, outer.d, x.data(), outer.p, x.size());
			 };
			 std::vector<double> region = outer.region;
			 double v					= Integrate_MC(f, region, outer.ncalls, outer.method);
			 o << v << rec.calls;
		 });
		if(alone.substr(0, 2) != "ok" || with.substr(0, 2) != "ok")
			return "ok nan 0 nan 0";   // a statistic: never a failure
		return "ok" + alone.substr(2) + with.substr(2);
	}
	if(op == "c14.histx")
	{
		// class D with histories that contain ABANDONED integrations (integrand throws, caller catches) and with the
		// observed call made from INSIDE the integrand of another (then abandoned) integration:
		//   <target>  nh  (C <call> | A <k> <call>)*   (T | N <k> <outer call>)
		Call c	  = parse_call(a);
		size_t nh = a.u64();
		struct H
		{
			char mode;
			long long k;
			Call c;
		};
		std::vector<H> hist;
		for(size_t i = 0; i < nh; i++)
		{
			H h;
			std::string m = a.tok();
			if(m != "C" && m != "A")
				throw BadArgs("history mode");
			h.mode = m[0];
			h.k	   = m == "A" ? a.i64() : 0;
			h.c	   = parse_call(a);
			hist.push_back(h);
		}
		std::string fin = a.tok();
		long long nk	= 0;
		Call outer;
		if(fin == "N")
		{
			nk	  = a.i64();
			outer = parse_call(a);
		}
		else if(fin != "T")
			throw BadArgs("final mode");
		a.end();
		std::string fresh = run_forked([&](Out& o) { Rec r; double v = do_call(c, r); emit_run(o, v, r, c); });
		std::string after = run_forked([&](Out& o) {
			Rec r;
			for(auto& h : hist)
			{
				if(h.mode == 'C')
					do_call(h.c, r);
				else
					do_call_abandoned(h.c, h.k);
			}
			double v = NAN;
			bool ran = false;
			if(fin == "T")
			{
				v	= do_call(c, r);
				ran = true;
			}
			else
			{
				do_call_abandoned(outer, nk, [&]() { v = do_call(c, r); ran = true; });
				if(!ran)	 // the outer call made fewer than nk evaluations
				{
					v	= do_call(c, r);
					ran = true;
				}
			}
			emit_run(o, v, r, c);
		});
		if(fresh.substr(0, 2) != "ok")
			return fresh;
		if(after.substr(0, 2) != "ok")
			return after;
		return "ok" + fresh.substr(2) + after.substr(2);
	}
	if(op == "c14.call")
	{
		// one call first in a fresh process: value, number of integrand calls, bounding box, first points
		Call c = parse_call(a);
		a.end();
		return run_forked([&](Out& o) {
			Rec r;
			double v = do_call(c, r);
			o << v << r.calls;
			o << r.mn << r.mx;
			o << (long long) r.first.size() << r.first;
			o << "sz" << r.badsize << (long long) r.maxsize;
		});
	}
	if(op == "c14.hist")
	{
		// class D: target call after a history vs. the same call first in a fresh process
		Call c	   = parse_call(a);
		size_t nh  = a.u64();
		std::vector<Call> hist;
		for(size_t i = 0; i < nh; i++)
			hist.push_back(parse_call(a));
		a.end();
		std::string fresh = run_forked([&](Out& o) { Rec r; double v = do_call(c, r); emit_run(o, v, r, c); });
		std::string after = run_forked([&](Out& o) {
			Rec r;
			for(auto& h : hist)
				do_call(h, r);
			double v = do_call(c, r);
			emit_run(o, v, r, c);
		});
		if(fresh.substr(0, 2) != "ok")
			return fresh;
		if(after.substr(0, 2) != "ok")
			return after;
		return "ok" + fresh.substr(2) + after.substr(2);
	}
	if(op == "c14.histinline")
	{
		// debugging aid: history and target in-process, diagnostics go to the harness log (argv[1])
		Call c	  = parse_call(a);
		size_t nh = a.u64();
		std::vector<Call> hist;
		for(size_t i = 0; i < nh; i++)
			hist.push_back(parse_call(a));
		a.end();
		Rec r;
		for(auto& h : hist)
			do_call(h, r);
		Out o;
		o << do_call(c, r) << r.calls;
		return "ok" + o.s.str();
	}
	if(op == "c14.front2" || op == "c14.front3")
	{
		// 2-D / 3-D front ends with the Monte-Carlo methods: region order, bounding box, value
		int d			   = op == "c14.front2" ? 2 : 3;
		std::string method = a.tok();
		unsigned seed	   = (unsigned) a.u64();
		std::vector<double> lim;
		for(int i = 0; i < 2 * d; i++)
			lim.push_back(a.dbl());	  // x1 x2 y1 y2 [z1 z2]
		int n	= (int) a.i64();
		int fid = (int) a.i64();
		auto p	= a.dbls();
		a.end();
		return run_forked([&](Out& o) {
			Rec r;
			r.init(d);
			g_seed = seed;
			double v;
			if(d == 2)
				v = Integrate_2D([&](double x, double y) { double xx[2] = {x, y}; r.see(xx); return fam(fid, 2, xx, p); }, lim[0], lim[1], lim[2], lim[3], method, n);
			else
				v = Integrate_3D([&](double x, double y, double z) { double xx[3] = {x, y, z}; r.see(xx); return fam(fid, 3, xx, p); }, lim[0], lim[1], lim[2], lim[3], lim[4], lim[5], method, n);
			o << v << r.calls << r.mn << r.mx;
		});
	}
	if(op == "c14.front3v")
	{
		// Integrate_3D(std::function<double(Vector)>, r1, r2, cos1, cos2, phi1, phi2, method, n): spherical coordinates;
		// integrand kinds: 0 constant p[0], 1 |v|^2, 2 v_z
		std::string method = a.tok();
		unsigned seed	   = (unsigned) a.u64();
		std::vector<double> lim;
		for(int i = 0; i < 6; i++)
			lim.push_back(a.dbl());
		int n	= (int) a.i64();
		int fid = (int) a.i64();
		auto p	= a.dbls();
		a.end();
		return run_forked([&](Out& o) {
			Rec r;
			r.init(3);	 // recorded as (|v|, cos(theta), phi)
			g_seed	 = seed;
			double v = Integrate_3D([&](Vector vec) {
				double rr	 = vec.Norm();
				double xx[3] = {rr, rr > 0 ? vec[2] / rr : 0.0, std::atan2(vec[1], vec[0])};
				r.see(xx);
				return fid == 0 ? p[0] : (fid == 1 ? rr * rr : vec[2]);
			}, lim[0], lim[1], lim[2], lim[3], lim[4], lim[5], method, n);
			o << v << r.calls << r.mn << r.mx;
		});
	}
	if(op == "c14.fhist2" || op == "c14.fhist3")
	{
		// class D through the front ends: target call after earlier calls on the IDENTICAL limits and method (other
		// integrands/budgets/seeds) vs the same call first in a fresh process
		int d			   = op == "c14.fhist2" ? 2 : 3;
		std::string method = a.tok();
		struct F
		{
			unsigned seed;
			int n, fid;
			std::vector<double> p;
		};
		F tgt;
		tgt.seed = (unsigned) a.u64();
		std::vector<double> lim;
		for(int i = 0; i < 2 * d; i++)
			lim.push_back(a.dbl());
		tgt.n	= (int) a.i64();
		tgt.fid = (int) a.i64();
		tgt.p	= a.dbls();
		size_t nh = a.u64();
		std::vector<F> hist(nh);
		for(auto& h : hist)
		{
			h.seed = (unsigned) a.u64();
			h.n	   = (int) a.i64();
			h.fid  = (int) a.i64();
			h.p	   = a.dbls();
		}
		a.end();
		auto front = [&](const F& f, Rec& r) {
			r.init(d);
			g_seed = f.seed;
			if(d == 2)
				return Integrate_2D([&](double x, double y) { double xx[2] = {x, y}; r.see(xx); return fam(f.fid, 2, xx, f.p); }, lim[0], lim[1], lim[2], lim[3], method, f.n);
			return Integrate_3D([&](double x, double y, double z) { double xx[3] = {x, y, z}; r.see(xx); return fam(f.fid, 3, xx, f.p); }, lim[0], lim[1], lim[2], lim[3], lim[4], lim[5], method, f.n);
		};
		std::vector<double> flo, fhi;
		for(int i = 0; i < d; i++)
		{
			flo.push_back(lim[2 * i]);
			fhi.push_back(lim[2 * i + 1]);
		}
		std::string fresh = run_forked([&](Out& o) { Rec r; double v = front(tgt, r); o << v << r.calls << (int) r.inside(flo, fhi) << 0; });
		std::string after = run_forked([&](Out& o) {
			Rec r;
			for(auto& h : hist)
				front(h, r);
			double v = front(tgt, r);
			o << v << r.calls << (int) r.inside(flo, fhi) << 0;
		});
		if(fresh.substr(0, 2) != "ok")
			return fresh;
		if(after.substr(0, 2) != "ok")
			return after;
		return "ok" + fresh.substr(2) + after.substr(2);
	}
	throw BadOp();
}
}	// namespace hz
