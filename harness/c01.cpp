// C01 harness: Interpolation::Interpolate / Derivative, Interpolation_2D::Interpolate on the real library.
//
//   c01.eval  <tag> <xs> <ys> <xdim> <fdim> <pref> <mul> <M> (<x> <code>)^M     (in-process)
//   c01.evalx (same, forked: the request may stop the process)
//        code -1: Interpolate(x) through operator() ; code k >= 0: Derivative(x,k)
//        answer: ok <value>^M
//   c01.eval2 / c01.eval2x  <tag> <xs> <ys> <rows> (<row>)^rows <xdim> <ydim> <fdim> <pref> <mul> <M> (<x> <y>)^M
//        answer: ok <value>^M
#define HZ_MAIN
#include "common.hpp"

#include "libphysica/Numerics.hpp"

using namespace libphysica;

namespace hz
{
struct Q1
{
	double x;
	long long code;
};

std::string handle(const std::string& op, Args& a)
{
	if(op == "c01.eval" || op == "c01.evalx")
	{
		a.tok();	// family tag (used by the comparator only)
		auto xs		= a.dbls();
		auto ys		= a.dbls();
		double xdim = a.dbl(), fdim = a.dbl(), pref = a.dbl(), mul = a.dbl();
		size_t m = a.u64();
		std::vector<Q1> qs(m);
		for(auto& q : qs)
		{
			q.x	   = a.dbl();
			q.code = a.i64();
		}
		a.end();
		auto body = [&](Out& o) {
			Interpolation f(xs, ys, xdim, fdim);
			f.Set_Prefactor(pref);
			f.Multiply(mul);
			for(auto& q : qs)
			{
				if(q.code < 0)
					o << f(q.x);
				else
					o << f.Derivative(q.x, (unsigned int) q.code);
			}
		};
		return op == "c01.evalx" ? run_forked(body) : run(body);
	}
	if(op == "c01.eval2" || op == "c01.eval2x")
	{
		a.tok();	// family tag
		auto xs		= a.dbls();
		auto ys		= a.dbls();
		size_t rows = a.u64();
		std::vector<std::vector<double>> f(rows);
		for(auto& r : f)
			r = a.dbls();
		double xdim = a.dbl(), ydim = a.dbl(), fdim = a.dbl(), pref = a.dbl(), mul = a.dbl();
		size_t m = a.u64();
		std::vector<std::pair<double, double>> qs(m);
		for(auto& q : qs)
		{
			q.first	 = a.dbl();
			q.second = a.dbl();
		}
		a.end();
		auto body = [&](Out& o) {
			Interpolation_2D g(xs, ys, f, xdim, ydim, fdim);
			g.Set_Prefactor(pref);
			g.Multiply(mul);
			for(auto& q : qs)
				o << g(q.first, q.second);
		};
		return op == "c01.eval2x" ? run_forked(body) : run(body);
	}
	throw BadOp();
}
}	// namespace hz
