// C01 harness: Interpolation::Interpolate / Derivative, Interpolation_2D::Interpolate on the real library.
//
//   c01.eval  <tag> <ctor> <xs> <ys> <xdim> <fdim> <pref> <mul> <M> (<x> <code>)^M     (in-process)
//   c01.evalx (same, forked: the request may stop the process)
//        code -1: Interpolate(x) through operator() ; code k >= 0: Derivative(x,k)
//        answer: ok <value>^M
//   c01.eval2 / c01.eval2x  <tag> <ctor> <xs> <ys> <rows> (<row>)^rows <xdim> <ydim> <fdim> <pref> <mul> <M> (<x> <y>)^M
//        answer: ok <value>^M
#define HZ_MAIN
#include "common.hpp"

#include "libphysica/Numerics.hpp"

using namespace libphysica;

namespace hz
{
struct Q1
{
	double x;
	long long code;
};

std::string handle(const std::string& op, Args& a)
{
	if(op == "c01.eval" || op == "c01.evalx")
	{
		a.tok();	// family tag (used by the comparator only)
		long long ctor = a.i64();	// 0: lists + operator(); 1: lists + named Interpolate(); 2: table constructor vector<vector<double>>; 3: default constructor
		auto xs		= a.dbls();
		auto ys		= a.dbls();
		double xdim = a.dbl(), fdim = a.dbl(), pref = a.dbl(), mul = a.dbl();
		size_t m = a.u64();
		std::vector<Q1> qs(m);
		for(auto& q : qs)
		{
			q.x	   = a.dbl();
			q.code = a.i64();
		}
		a.end();
		auto body = [&](Out& o) {
			Interpolation f;   // the default constructor: table {-1,0,1} -> {0,0,0}
			if(ctor == 2)
			{
				std::vector<std::vector<double>> data;
				for(size_t i = 0; i < xs.size(); i++)
					data.push_back(i < ys.size() ? std::vector<double>{xs[i], ys[i]} : std::vector<double>{xs[i]});
				f = Interpolation(data, xdim, fdim);
			}
			else if(ctor != 3)
				f = Interpolation(xs, ys, xdim, fdim);
			f.Set_Prefactor(pref);
			f.Multiply(mul);
			for(auto& q : qs)
			{
				if(q.code < 0)
					o << (ctor == 1 ? f.Interpolate(q.x) : f(q.x));
				else
					o << f.Derivative(q.x, (unsigned int) q.code);
			}
		};
		return op == "c01.evalx" ? run_forked(body) : run(body);
	}
	if(op == "c01.eval2" || op == "c01.eval2x")
	{
		a.tok();	// family tag
		long long ctor = a.i64();	// 0: lists + operator(); 1: lists + named Interpolate(); 2: data-table constructor (rows x,y,f; x-major); 3: default constructor
		auto xs		= a.dbls();
		auto ys		= a.dbls();
		size_t rows = a.u64();
		std::vector<std::vector<double>> f(rows);
		for(auto& r : f)
			r = a.dbls();
		double xdim = a.dbl(), ydim = a.dbl(), fdim = a.dbl(), pref = a.dbl(), mul = a.dbl();
		size_t m = a.u64();
		std::vector<std::pair<double, double>> qs(m);
		for(auto& q : qs)
		{
			q.first	 = a.dbl();
			q.second = a.dbl();
		}
		a.end();
		auto body = [&](Out& o) {
			Interpolation_2D g;   // the default constructor: 3x3 grid on {-1,0,1}^2, all values 0
			if(ctor == 2)
			{
				std::vector<std::vector<double>> data;
				for(size_t i = 0; i < xs.size(); i++)
					for(size_t j = 0; j < ys.size(); j++)
						data.push_back({xs[i], ys[j], f[i][j]});
				g = Interpolation_2D(data, xdim, ydim, fdim);
			}
			else if(ctor != 3)
				g = Interpolation_2D(xs, ys, f, xdim, ydim, fdim);
			g.Set_Prefactor(pref);
			g.Multiply(mul);
			for(auto& q : qs)
				o << (ctor == 1 ? g.Interpolate(q.first, q.second) : g(q.first, q.second));
		};
		return op == "c01.eval2x" ? run_forked(body) : run(body);
	}
	throw BadOp();
}
}	// namespace hz
