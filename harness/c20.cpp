// C20 harness: Export_List/Table/Function, Import_List/Table, Count_Lines (Utilities.cpp §2),
// In_Units overloads (Natural_Units.cpp §5).  Files are written below the directory of the
// harness log (the check's work directory) and removed after each request.
// Byte strings travel hex-encoded ("-" = empty).
#define HZ_MAIN
#include "common.hpp"

#include <fstream>
#include <iostream>
#include <sstream>
#include <locale>

#include "libphysica/Linear_Algebra.hpp"
#include "libphysica/Natural_Units.hpp"
#include "libphysica/Numerics.hpp"
#include "libphysica/Statistics.hpp"
#include "libphysica/Utilities.hpp"

namespace libphysica
{
extern unsigned int Count_Lines(std::string filepath);
}
using namespace libphysica;
using namespace libphysica::natural_units;

namespace hz
{
static std::string g_dir;
static long g_nfile = 0;

static std::string scratch_dir()
{
	if(!g_dir.empty())
		return g_dir;
	// argv[1] is the log file inside the check's work directory
	std::ifstream f("/proc/self/cmdline", std::ios::binary);
	std::string all((std::istreambuf_iterator<char>(f)), std::istreambuf_iterator<char>());
	size_t p = all.find('\0');
	std::string a1;
	if(p != std::string::npos)
	{
		size_t q = all.find('\0', p + 1);
		a1		 = all.substr(p + 1, q == std::string::npos ? std::string::npos : q - p - 1);
	}
	size_t s = a1.rfind('/');
	g_dir	 = (s == std::string::npos || a1.compare(0, 5, "/dev/") == 0) ? std::string("/dev/shm") : a1.substr(0, s);
	return g_dir;
}

static std::string new_path()
{
	return scratch_dir() + "/c20_" + std::to_string((long) getpid()) + "_" + std::to_string(g_nfile++) + ".dat";
}

static std::string unhex(const std::string& s)
{
	if(s == "-")
		return "";
	if(s.size() % 2)
		throw BadArgs("hex");
	std::string r;
	for(size_t i = 0; i < s.size(); i += 2)
		r.push_back((char) std::stoi(s.substr(i, 2), nullptr, 16));
	return r;
}

static std::string enhex(const std::string& s)
{
	if(s.empty())
		return "-";
	static const char* d = "0123456789abcdef";
	std::string r;
	for(unsigned char c : s)
	{
		r.push_back(d[c >> 4]);
		r.push_back(d[c & 15]);
	}
	return r;
}

static std::string slurp(const std::string& path)
{
	std::ifstream f(path, std::ios::binary);
	return std::string((std::istreambuf_iterator<char>(f)), std::istreambuf_iterator<char>());
}

static void spit(const std::string& path, const std::string& bytes)
{
	std::ofstream f(path, std::ios::binary);
	f << bytes;
}

static std::vector<std::vector<double>> table(Args& a)
{
	size_t n = a.u64();
	std::vector<std::vector<double>> t(n);
	for(auto& r : t)
		r = a.dbls();
	return t;
}

static void put_table(Out& o, const std::vector<std::vector<double>>& t)
{
	o << t.size();
	for(auto& r : t)
		o.list(r);
}

static int header_lines(const std::string& h)
{
	if(h.empty())
		return 0;
	int n = 1;
	for(char c : h)
		if(c == '\n')
			n++;
	return n;
}

struct Cleanup
{
	std::string p;
	~Cleanup() { unlink(p.c_str()); }
};

std::string handle(const std::string& op, Args& a)
{
	if(op == "c20.fmt")
	{
		double x = a.dbl();
		a.end();
		return run([&](Out& o) {
			std::ostringstream s;
			s << x;
			std::istringstream is(s.str());
			double y = 0;
			is >> y;
			o << enhex(s.str()) << y;
		});
	}
	if(op == "c20.lines")
	{
		std::string b = unhex(a.tok());
		a.end();
		std::string p = new_path();
		Cleanup c{p};
		spit(p, b);
		return run([&](Out& o) { o << Count_Lines(p); });
	}
	if(op == "c20.rtlist")
	{
		std::string h = unhex(a.tok());
		double u	  = a.dbl();
		auto xs		  = a.dbls();
		a.end();
		std::string p = new_path();
		Cleanup c{p};
		return run_forked([&](Out& o) {
			Export_List(p, xs, u, h);
			std::string bytes = slurp(p);
			unsigned lines	  = Count_Lines(p);
			auto back		  = Import_List(p, u, header_lines(h));
			o << enhex(bytes) << lines;
			o.list(back);
		});
	}
	if(op == "c20.rttable")
	{
		std::string h = unhex(a.tok());
		auto us		  = a.dbls();
		auto t		  = table(a);
		a.end();
		std::string p = new_path();
		Cleanup c{p};
		// stage 1: export (may stop with a diagnostic on a dimension mismatch)
		std::string r1 = run_forked([&](Out& o) {
			Export_Table(p, t, us, h);
			o << enhex(slurp(p)) << Count_Lines(p);
		});
		if(r1.compare(0, 2, "ok") != 0)
			return r1;
		// stage 2: import with the number of header lines written
		std::string r2 = run_forked([&](Out& o) { put_table(o, Import_Table(p, us, header_lines(h))); });
		if(r2.compare(0, 2, "ok") == 0)
			return r1 + r2.substr(2);
		return r1 + " import:" + r2;
	}
	if(op == "c20.rtloc" || op == "c20.rtlocL")
	{
		// round trip in a program whose GLOBAL C++ locale writes the decimal point as ',' (a numpunct facet installed by the
		// caller, as std::locale("de_DE.UTF-8") would): export and import both inside one forked body; only the values
		// read back are returned (the byte model is for the classic locale)
		struct Comma : std::numpunct<char>
		{
			char do_decimal_point() const override { return ','; }
		};
		std::string h = unhex(a.tok());
		std::string p = new_path();
		Cleanup c{p};
		if(op == "c20.rtlocL")
		{
			double u = a.dbl();
			auto xs	 = a.dbls();
			a.end();
			return run_forked([&](Out& o) {
				std::locale::global(std::locale(std::locale::classic(), new Comma));
				Export_List(p, xs, u, h);
				auto back = Import_List(p, u, header_lines(h));
				std::locale::global(std::locale::classic());	  // the caller restores what the caller installed
				o.list(back);
			});
		}
		auto us = a.dbls();
		auto t	= table(a);
		a.end();
		return run_forked([&](Out& o) {
			std::locale::global(std::locale(std::locale::classic(), new Comma));
			Export_Table(p, t, us, h);
			auto back = Import_Table(p, us, header_lines(h));
			std::locale::global(std::locale::classic());	  // the caller restores what the caller installed
			put_table(o, back);
		});
	}
	if(op == "c20.expfunc" || op == "c20.expfuncL")
	{
		std::string h = unhex(a.tok());
		auto us		  = a.dbls();
		std::vector<double> xs;
		double lo = 0, hi = 0;
		unsigned n = 0;
		if(op == "c20.expfunc")
			xs = a.dbls();
		else
		{
			lo = a.dbl();
			hi = a.dbl();
			n  = a.u64();
		}
		auto cf = a.dbls();
		a.end();
		std::function<double(double)> f = [cf](double x) {
			double acc = 0.0;
			for(size_t i = cf.size(); i-- > 0;)
				acc = cf[i] + x * acc;
			return acc;
		};
		std::string p = new_path();
		Cleanup c{p};
		return run_forked([&](Out& o) {
			if(op == "c20.expfunc")
				Export_Function(p, f, xs, us, h);
			else
				Export_Function(p, f, lo, hi, n, us, false, h);
			o << enhex(slurp(p));
		});
	}
	if(op == "c20.rtfuncL" || op == "c20.rtfuncG")
	{
		std::string h = unhex(a.tok());
		auto us		  = a.dbls();
		double lo = a.dbl(), hi = a.dbl();
		unsigned n = a.u64();
		auto cf	   = a.dbls();
		a.end();
		bool logarithmic				= op == "c20.rtfuncG";
		std::function<double(double)> f = [cf](double x) {
			double acc = 0.0;
			for(size_t i = cf.size(); i-- > 0;)
				acc = cf[i] + x * acc;
			return acc;
		};
		std::string p = new_path();
		Cleanup c{p};
		std::string r1 = run_forked([&](Out& o) {
			Export_Function(p, f, lo, hi, n, us, logarithmic, h);
			o << enhex(slurp(p)) << Count_Lines(p);
		});
		if(r1.compare(0, 2, "ok") != 0)
			return r1;
		std::string r2 = run_forked([&](Out& o) { put_table(o, Import_Table(p, us, header_lines(h))); });
		if(r2.compare(0, 2, "ok") == 0)
			return r1 + r2.substr(2);
		return r1 + " import:" + r2;
	}
	if(op == "c20.implist")
	{
		std::string b = unhex(a.tok());
		double u	  = a.dbl();
		unsigned k	  = a.u64();
		a.end();
		std::string p = new_path();
		Cleanup c{p};
		spit(p, b);
		return run_forked([&](Out& o) { o.list(Import_List(p, u, k)); });
	}
	if(op == "c20.imptable" || op == "c20.imptable2")
	{
		std::string b = unhex(a.tok());
		auto us		  = a.dbls();
		unsigned k	  = a.u64();
		a.end();
		std::string p = new_path();
		Cleanup c{p};
		spit(p, b);
		return run_forked([&](Out& o) { put_table(o, Import_Table(p, us, k)); });
	}
	if(op == "c20.inunits")
	{
		double x = a.dbl(), u = a.dbl();
		bool r = a.u64() != 0;
		int d  = a.i64();
		a.end();
		return run_forked([&](Out& o) { o << In_Units(x, u, r, d); });
	}
	if(op == "c20.inunitsL" || op == "c20.inunitsV")
	{
		auto x	 = a.dbls();
		double u = a.dbl();
		bool r	 = a.u64() != 0;
		int d	 = a.i64();
		a.end();
		if(op == "c20.inunitsL")
			return run_forked([&](Out& o) { o.list(In_Units(x, u, r, d)); });
		return run_forked([&](Out& o) {
			Vector v = In_Units(Vector(x), u, r, d);
			o << v.Size();
			for(unsigned i = 0; i < v.Size(); i++)
				o << v[i];
		});
	}
	if(op == "c20.inunitsT" || op == "c20.inunitsM")
	{
		auto x	 = table(a);
		double u = a.dbl();
		bool r	 = a.u64() != 0;
		int d	 = a.i64();
		a.end();
		if(op == "c20.inunitsT")
			return run_forked([&](Out& o) { put_table(o, In_Units(x, u, r, d)); });
		return run_forked([&](Out& o) {
			Matrix m = In_Units(Matrix(x), u, r, d);
			o << m.Rows();
			for(unsigned i = 0; i < m.Rows(); i++)
			{
				o << m.Columns();
				for(unsigned j = 0; j < m.Columns(); j++)
					o << m[i][j];
			}
		});
	}
	if(op == "c20.inunitsC")
	{
		auto x	= table(a);
		auto us = a.dbls();
		bool r	= a.u64() != 0;
		int d	= a.i64();
		a.end();
		return run_forked([&](Out& o) { put_table(o, In_Units(x, us, r, d)); });
	}
	if(op == "c20.unit" || op == "c20.units")
	{
		// the constants are read in the four separately compiled builds (props/c20.py); the
		// sanitizer build contributes the few the file formats depend on
		return "ok -";
	}
	// ---- coverage extension: Time_Display, Reduced_Mass, Formatted_String, Check_For_Warning, File_Exists,
	//      operator<< (Vector, Matrix, DataPoint), Save_Function (1-D, 2-D), Interpolation_2D() ----
	if(op == "c20.timedisp")
	{
		double x = a.dbl();
		a.end();
		return run_forked([&](Out& o) { o << enhex(Time_Display(x)); });
	}
	if(op == "c20.redmass")
	{
		double m1 = a.dbl(), m2 = a.dbl();
		a.end();
		return run([&](Out& o) { o << Reduced_Mass(m1, m2); });
	}
	if(op == "c20.fmtstr")
	{
		std::string str = unhex(a.tok()), col = unhex(a.tok());
		bool bold = a.u64() != 0, ul = a.u64() != 0;
		std::string bg = unhex(a.tok());
		a.end();
		std::string diag;
		std::string r = run_forked([&](Out& o) { o << enhex(Formatted_String(str, col, bold, ul, bg)); }, &diag);
		if(r.compare(0, 2, "ok") != 0)
			return r;
		return r + (diag.empty() ? " 0 " : " 1 ") + enhex(diag);
	}
	if(op == "c20.warn")
	{
		bool cond		= a.u64() != 0;
		std::string fn = unhex(a.tok()), msg = unhex(a.tok());
		a.end();
		std::string diag;
		// the body returns normally iff Check_For_Warning returns
		std::string r = run_forked([&](Out& o) { Check_For_Warning(cond, fn, msg); o << "returned"; }, &diag);
		if(r != "ok returned")
			return r;
		return "ok " + enhex(diag);
	}
	if(op == "c20.printbox")
	{
		std::string str = unhex(a.tok());
		unsigned int tabs = (unsigned int) a.u64();
		int rank = (int) a.i64();
		std::string bc = unhex(a.tok()), tc = unhex(a.tok());
		a.end();
		// what Print_Box writes to std::cout (an unknown colour also writes a warning to std::cerr: not compared here)
		return run_forked([&](Out& o) {
			std::ostringstream cap;
			std::streambuf* old = std::cout.rdbuf(cap.rdbuf());
			Print_Box(str, tabs, rank, bc, tc);
			std::cout.flush();
			std::cout.rdbuf(old);
			o << enhex(cap.str());
		});
	}
	if(op == "c20.progbar")
	{
		double progress = a.dbl();
		unsigned int rank = (unsigned int) a.u64(), len = (unsigned int) a.u64();
		double time = a.dbl();
		std::string col = unhex(a.tok());
		a.end();
		return run_forked([&](Out& o) {
			std::ostringstream cap;
			std::streambuf* old = std::cout.rdbuf(cap.rdbuf());
			Print_Progress_Bar(progress, rank, len, time, col);
			std::cout.flush();
			std::cout.rdbuf(old);
			o << enhex(cap.str());
		});
	}
	if(op == "c20.fexists")
	{
		std::string k = a.tok();
		a.end();
		std::string p;
		Cleanup c{""};
		if(k == "file")
		{
			p = new_path();
			spit(p, "x\n");
			c.p = p;
		}
		else if(k == "dir")
			p = scratch_dir();
		else if(k == "missing")
			p = new_path() + ".absent";
		else if(k == "empty")
			p = "";
		else
			throw BadArgs("kind");
		return run([&](Out& o) { o << (int) File_Exists(p); });
	}
	if(op == "c20.vecout")
	{
		auto x = a.dbls();
		a.end();
		return run([&](Out& o) {
			std::ostringstream s;
			s << Vector(x);
			o << enhex(s.str());
		});
	}
	if(op == "c20.matout")
	{
		auto t = table(a);
		a.end();
		return run_forked([&](Out& o) {
			std::ostringstream s;
			s << Matrix(t);
			o << enhex(s.str());
		});
	}
	if(op == "c20.dpout")
	{
		double v = a.dbl(), w = a.dbl();
		a.end();
		return run([&](Out& o) {
			std::ostringstream s;
			s << DataPoint(v, w);
			o << enhex(s.str());
		});
	}
	if(op == "c20.save1")
	{
		auto xs = a.dbls(), ys = a.dbls();
		unsigned n = a.u64();
		a.end();
		std::string p = new_path();
		Cleanup c{p};
		return run_forked([&](Out& o) {
			Interpolation f(xs, ys);
			f.Save_Function(p, n);
			o << enhex(slurp(p));
		});
	}
	if(op == "c20.save2" || op == "c20.save2d0")
	{
		std::vector<double> xs, ys;
		std::vector<std::vector<double>> t;
		if(op == "c20.save2")
		{
			xs = a.dbls();
			ys = a.dbls();
			t  = table(a);
		}
		unsigned xp = a.u64(), yp = a.u64();
		a.end();
		std::string p = new_path();
		Cleanup c{p};
		return run_forked([&](Out& o) {
			Interpolation_2D f = (op == "c20.save2") ? Interpolation_2D(xs, ys, t) : Interpolation_2D();
			f.Save_Function(p, xp, yp);
			// the default object must also evaluate to zero at the corners and the centre of its domain
			o << enhex(slurp(p));
			if(op == "c20.save2d0")
				o << f(-1.0, -1.0) << f(1.0, 1.0) << f(0.0, 0.0) << f(0.5, -0.25);
		});
	}
	throw BadOp();
}
}	// namespace hz
