// C16 harness: Rotation_Matrix, Spherical_Coordinates (both overloads), Angle, Norm/Normalize/Normalized.
// Requests carry, besides each angle, its cosine and sine as exact rationals for the model; the
// harness skips those tokens and hands the angle itself to the library.
#define HZ_MAIN
#include "common.hpp"

#include "libphysica/Linear_Algebra.hpp"

using namespace libphysica;

namespace hz
{
static void out_matrix(Out& o, const Matrix& M)
{
	for(unsigned int i = 0; i < M.Rows(); i++)
		for(unsigned int j = 0; j < M.Columns(); j++)
			o << M[i][j];
}
static void out_vector(Out& o, const Vector& v)
{
	for(unsigned int i = 0; i < v.Size(); i++)
		o << v[i];
}
static Vector vec3(Args& a)
{
	double x = a.dbl(), y = a.dbl(), z = a.dbl();
	return Vector(std::vector<double> {x, y, z});
}

std::string handle(const std::string& op, Args& a)
{
	if(op == "c16.rot2")
	{
		double alpha = a.dbl();
		a.tok();
		a.tok();
		a.end();
		return run([&](Out& o) {
			Matrix M = Rotation_Matrix(alpha, 2);
			if(M.Rows() != 2 || M.Columns() != 2)
				o << "shape";
			out_matrix(o, M);
		});
	}
	if(op == "c16.rot3")
	{
		double alpha = a.dbl();
		a.tok();
		a.tok();
		Vector ax = vec3(a);
		a.end();
		return run([&](Out& o) {
			Matrix M = Rotation_Matrix(alpha, 3, ax);
			if(M.Rows() != 3 || M.Columns() != 3)
				o << "shape";
			out_matrix(o, M);
		});
	}
	if(op == "c16.rot3d")
	{
		double alpha = a.dbl();
		a.tok();
		a.tok();
		a.end();
		return run([&](Out& o) { out_matrix(o, Rotation_Matrix(alpha, 3)); });
	}
	if(op == "c16.rotg")
	{
		double alpha = a.dbl();
		a.tok();
		a.tok();
		int dim = (int) a.i64();
		auto ax = a.dbls();
		a.end();
		return run_forked([&](Out& o) {
			Matrix M = Rotation_Matrix(alpha, dim, Vector(ax));
			o << (int) M.Rows();
			if(M.Rows() != M.Columns())
				o << "shape";
			out_matrix(o, M);
		});
	}
	if(op == "c16.sph")
	{
		double r = a.dbl(), th = a.dbl(), ph = a.dbl();
		for(int i = 0; i < 4; i++)
			a.tok();
		a.end();
		return run([&](Out& o) { out_vector(o, Spherical_Coordinates(r, th, ph)); });
	}
	if(op == "c16.sphax")
	{
		double r = a.dbl(), th = a.dbl(), ph = a.dbl();
		for(int i = 0; i < 4; i++)
			a.tok();
		Vector ax = vec3(a);
		a.end();
		return run([&](Out& o) { out_vector(o, Spherical_Coordinates(r, th, ph, ax)); });
	}
	if(op == "c16.angle")
	{
		auto v = a.dbls(), w = a.dbls();
		a.end();
		return run_forked([&](Out& o) { o << Angle(Vector(v), Vector(w)); });
	}
	if(op == "c16.norm")
	{
		auto v = a.dbls();
		a.end();
		return run([&](Out& o) {
			Vector x(v);
			o << x.Norm();
			out_vector(o, x.Normalized());
			Vector y(v);
			y.Normalize();
			out_vector(o, y);
		});
	}
	throw BadOp();
}
}	// namespace hz
