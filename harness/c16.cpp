// C16 harness: Rotation_Matrix, Spherical_Coordinates (both overloads), Angle, Norm/Normalize/Normalized.
// Requests carry, besides each angle, its cosine and sine as exact rationals for the model; the
// harness skips those tokens and hands the angle itself to the library.
#define HZ_MAIN
#include "common.hpp"

#include "libphysica/Linear_Algebra.hpp"

using namespace libphysica;

namespace hz
{
static void out_matrix(Out& o, const Matrix& M)
{
	for(unsigned int i = 0; i < M.Rows(); i++)
		for(unsigned int j = 0; j < M.Columns(); j++)
			o << M[i][j];
}
static void out_vector(Out& o, const Vector& v)
{
	for(unsigned int i = 0; i < v.Size(); i++)
		o << v[i];
}
static Vector vec3(Args& a)
{
	double x = a.dbl(), y = a.dbl(), z = a.dbl();
	return Vector(std::vector<double> {x, y, z});
}

// The axis (x,y,z) as an OBJECT produced by a short history (kind), with extra entries used as hidden tail / junk.
// Every history ends in a Vector of Size() 3 with the components (x,y,z); the results must not depend on the history.
static Vector axis_with_history(int kind, double x, double y, double z, const std::vector<double>& ex)
{
	std::vector<double> xyz {x, y, z};
	std::vector<double> longer(xyz);
	longer.insert(longer.end(), ex.begin(), ex.end());
	Vector shrunk(longer);
	shrunk.Resize(3);
	switch(kind)
	{
		case 0:
			return Vector(xyz);
		case 1:
			return shrunk;
		case 2:
		{
			Vector v(longer);
			v.Resize(2);
			v.Resize(3);
			v[2] = z;
			return v;
		}
		case 3:
		{
			Vector v(ex);
			v.Assign(3, 0.0);
			v[0] = x;
			v[1] = y;
			v[2] = z;
			return v;
		}
		case 4:
		{
			Vector w(ex);
			w = shrunk;
			return w;
		}
		case 5:
		{
			Vector t(shrunk);
			return t;
		}
		case 6:
		{
			std::vector<double> big(ex);
			big.insert(big.end(), xyz.begin(), xyz.end());
			big.insert(big.end(), ex.begin(), ex.end());
			std::vector<double> slice(big.begin() + ex.size(), big.begin() + ex.size() + 3);
			return Vector(slice);
		}
		case 7:
		{
			Vector v(std::vector<double> {x, y});
			v.Resize(3);
			v[2] = z;
			return v;
		}
		default:
			return shrunk * 1.0;
	}
}

std::string handle(const std::string& op, Args& a)
{
	if(op == "c16.rot2")
	{
		double alpha = a.dbl();
		a.tok();
		a.tok();
		a.end();
		return run([&](Out& o) {
			Matrix M = Rotation_Matrix(alpha, 2);
			if(M.Rows() != 2 || M.Columns() != 2)
				o << "shape";
			out_matrix(o, M);
		});
	}
	if(op == "c16.rot3")
	{
		double alpha = a.dbl();
		a.tok();
		a.tok();
		Vector ax = vec3(a);
		a.end();
		return run([&](Out& o) {
			Matrix M = Rotation_Matrix(alpha, 3, ax);
			if(M.Rows() != 3 || M.Columns() != 3)
				o << "shape";
			out_matrix(o, M);
		});
	}
	if(op == "c16.rot3d")
	{
		double alpha = a.dbl();
		a.tok();
		a.tok();
		a.end();
		return run([&](Out& o) { out_matrix(o, Rotation_Matrix(alpha, 3)); });
	}
	if(op == "c16.rotg")
	{
		double alpha = a.dbl();
		a.tok();
		a.tok();
		int dim = (int) a.i64();
		auto ax = a.dbls();
		a.end();
		return run_forked([&](Out& o) {
			Matrix M = Rotation_Matrix(alpha, dim, Vector(ax));
			o << (int) M.Rows();
			if(M.Rows() != M.Columns())
				o << "shape";
			out_matrix(o, M);
		});
	}
	if(op == "c16.rot3h")
	{
		double alpha = a.dbl();
		a.tok();
		a.tok();
		double x = a.dbl(), y = a.dbl(), z = a.dbl();
		int kind = (int) a.i64();
		auto ex	 = a.dbls();
		a.end();
		return run_forked([&](Out& o) {
			Vector ax = axis_with_history(kind, x, y, z, ex);
			if(ax.Size() != 3 || !(ax[0] == x && ax[1] == y && ax[2] == z))
				o << "history";
			Matrix M = Rotation_Matrix(alpha, 3, ax);
			if(M.Rows() != 3 || M.Columns() != 3)
				o << "shape";
			out_matrix(o, M);
		});
	}
	if(op == "c16.sphaxh")
	{
		double r = a.dbl(), th = a.dbl(), ph = a.dbl();
		for(int i = 0; i < 4; i++)
			a.tok();
		double x = a.dbl(), y = a.dbl(), z = a.dbl();
		int kind = (int) a.i64();
		auto ex	 = a.dbls();
		a.end();
		return run_forked([&](Out& o) {
			Vector ax = axis_with_history(kind, x, y, z, ex);
			if(ax.Size() != 3 || !(ax[0] == x && ax[1] == y && ax[2] == z))
				o << "history";
			out_vector(o, Spherical_Coordinates(r, th, ph, ax));
		});
	}
	if(op == "c16.sph")
	{
		double r = a.dbl(), th = a.dbl(), ph = a.dbl();
		for(int i = 0; i < 4; i++)
			a.tok();
		a.end();
		return run([&](Out& o) { out_vector(o, Spherical_Coordinates(r, th, ph)); });
	}
	if(op == "c16.sphax")
	{
		double r = a.dbl(), th = a.dbl(), ph = a.dbl();
		for(int i = 0; i < 4; i++)
			a.tok();
		Vector ax = vec3(a);
		a.end();
		return run([&](Out& o) { out_vector(o, Spherical_Coordinates(r, th, ph, ax)); });
	}
	if(op == "c16.angle")
	{
		auto v = a.dbls(), w = a.dbls();
		a.end();
		return run_forked([&](Out& o) { o << Angle(Vector(v), Vector(w)); });
	}
	if(op == "c16.norm")
	{
		auto v = a.dbls();
		a.end();
		return run([&](Out& o) {
			Vector x(v);
			o << x.Norm();
			out_vector(o, x.Normalized());
			Vector y(v);
			y.Normalize();
			out_vector(o, y);
		});
	}
	throw BadOp();
}
}	// namespace hz
