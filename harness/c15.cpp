// C15 harness: Householder_Matrix, QR_Decomposition, Eigenvalues, Eigensystem, Eigenvectors.
#define HZ_MAIN
#include "common.hpp"

#include "libphysica/Linear_Algebra.hpp"

namespace libphysica
{
// internal functions with external linkage (not declared in the header)
extern Matrix Householder_Matrix(const Matrix& M);
extern Vector Find_Eigenvector_Rayleigh(Matrix& M, double& eigenvalue);
}	// namespace libphysica

using namespace libphysica;

namespace hz
{
static Matrix square(Args& a)
{
	size_t n = a.u64();
	std::vector<std::vector<double>> e(n, std::vector<double>(n));
	for(auto& r : e)
		for(auto& x : r)
			x = a.dbl();
	return Matrix(e);
}
static void out_matrix(Out& o, const Matrix& M, unsigned n)
{
	if(M.Rows() != n || M.Columns() != n)
		o << "shape";
	for(unsigned int i = 0; i < M.Rows(); i++)
		for(unsigned int j = 0; j < M.Columns(); j++)
			o << M[i][j];
}
static void out_vector(Out& o, const Vector& v)
{
	for(unsigned int i = 0; i < v.Size(); i++)
		o << v[i];
}

// a short alarm for the requests that are known to loop on many inputs
struct ShortTimeout
{
	int saved;
	ShortTimeout(int s) : saved(g_fork_timeout_s) { g_fork_timeout_s = s; }
	~ShortTimeout() { g_fork_timeout_s = saved; }
};

// an `err` outcome is only what the property/known findings describe if the diagnostic is the expected one;
// any other diagnostic is reported as `err-other <text>` (never excused as a known behaviour)
static std::string classify_err(const std::string& obs, const std::string& diag, std::initializer_list<const char*> expected)
{
	if(obs != "err")
		return obs;
	for(const char* e : expected)
		if(diag.find(e) != std::string::npos)
			return obs;
	std::string snip;
	for(char c : diag.substr(0, 120))
		snip += (c == '\n' || c == ' ' || c == '\t') ? '_' : c;
	return "err-other " + snip;
}

std::string handle(const std::string& op, Args& a)
{
	if(op == "c15.householder")
	{
		Matrix M = square(a);
		a.end();
		unsigned n = M.Rows();
		return run_forked([&](Out& o) { out_matrix(o, Householder_Matrix(M), n); });
	}
	if(op == "c15.qr")
	{
		Matrix M = square(a);
		a.end();
		unsigned n = M.Rows();
		return run_forked([&](Out& o) {
			auto qr = QR_Decomposition(M);
			out_matrix(o, qr.first, n);
			out_matrix(o, qr.second, n);
		});
	}
	if(op == "c15.spectrum")
	{
		Matrix M = square(a);
		a.end();
		std::string diag;
		std::string obs = run_forked([&](Out& o) {
			auto ev = Eigenvalues(M);
			o << ev.size();
			for(double x : ev)
				o << x;
		}, &diag);
		return classify_err(obs, diag, {"Eigenvalues(): The QR algorithm did not converge"});
	}
	if(op == "c15.eigensystem" || op == "c15.eigenvectors")
	{
		Matrix M = square(a);
		a.end();
		bool sys = op == "c15.eigensystem";
		ShortTimeout t(1);
		std::string diag;
		std::string obs = run_forked([&](Out& o) {
			Matrix W(M);
			if(sys)
			{
				auto es = Eigensystem(W);
				o << es.first.size();
				for(double x : es.first)
					o << x;
				o << es.second.size();
				for(auto& v : es.second)
				{
					o << v.Size();
					out_vector(o, v);
				}
			}
			else
			{
				auto vs = Eigenvectors(W);
				o << vs.size();
				for(auto& v : vs)
				{
					o << v.Size();
					out_vector(o, v);
				}
			}
			// the argument is taken by non-const reference: report whether it was modified
			bool same = W.Rows() == M.Rows() && W.Columns() == M.Columns();
			for(unsigned i = 0; same && i < M.Rows(); i++)
				for(unsigned j = 0; j < M.Columns(); j++)
					if(!(W[i][j] == M[i][j]))
						same = false;
			o << (same ? "same" : "modified");
		}, &diag);
		return classify_err(obs, diag, {"Matrix::Inverse()", "Eigenvalues(): The QR algorithm did not converge"});
	}
	if(op == "c15.rayleigh")   // model-only illustration; the harness does not answer it
		throw BadOp();
	throw BadOp();
}
}	// namespace hz
