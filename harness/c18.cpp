// C18 harness: samplers of Statistics.cpp §3 on a caller-owned std::mt19937.
#define HZ_MAIN
#include "common.hpp"

#include <random>
#include <utility>

#include "libphysica/Statistics.hpp"

using namespace libphysica;

namespace hz
{
static std::mt19937 mk(Args& a)
{
	unsigned seed			= (unsigned) a.u64();
	unsigned long long skip = a.u64();
	std::mt19937 g(seed);
	g.discard(skip);
	return g;
}

// A CRAFTED generator state loaded through operator>> : std::mt19937(seed), one draw (the state table is regenerated, read
// position 1), then the two state words consumed by the k-th canonical uniform from here are set to 0 for every listed k
// (the tempering of a zero word is zero): that uniform is exactly 0.0.  Needs 1 + 2k + 1 < 624.
static std::mt19937 mk_zeroed(unsigned seed, const std::vector<int>& ks)
{
	std::mt19937 g(seed);
	g();
	std::stringstream ss;
	ss << g;
	std::vector<std::string> tok;
	std::string t;
	while(ss >> t)
		tok.push_back(t);
	if(tok.size() != 625)
		throw BadArgs("unexpected mt19937 serialisation");
	for(int k : ks)
	{
		if(k < 0 || 1 + 2 * k + 1 >= 624)
			throw BadArgs("zeroed uniform index");
		tok[1 + 2 * k]	   = "0";
		tok[1 + 2 * k + 1] = "0";
	}
	std::string joined;
	for(auto& x : tok)
		joined += x + " ";
	std::stringstream in(joined);
	std::mt19937 crafted;
	in >> crafted;
	if(in.fail())
		throw BadArgs("could not load the crafted state");
	return crafted;
}

// number of 32-bit draws that lead from `ref` to the state of `g` (ref is advanced); -1 if not reached
static long long draws_between(std::mt19937& ref, const std::mt19937& g, long long limit = 200000000LL)
{
	long long n = 0;
	while(!(ref == g))
	{
		ref();
		if(++n > limit)
			return -1;
	}
	return n;
}

// rational test densities shared with lean/LpModel/C18.lean (pdf1, pdf2, cdf1)
static double pdf1(int id, double x)
{
	switch(id)
	{
		case 0: return 1.0;
		case 1: return 1.0 / (1.0 + x * x);
		case 2: return std::fabs(x) < 1.0 ? 1.0 - std::fabs(x) : 0.0;
		case 3: return x * x + 0.125;
		case 4: return 1.0 / (1.0 + x * x * x * x);
		case 5: return x * x * (1.0 - x) * (1.0 - x);
		case 6: return x;
		// transcendental targets: statistical oracle only (no model)
		case 20: return std::exp(-0.5 * x * x);
		case 21: return std::exp(-std::fabs(x));
		case 22: return 4.0 * std::exp(-0.5 * x * x);
		case 24: return std::fabs(x - 5.0) < 1.0 ? 1.0 - std::fabs(x - 5.0) : 0.0;	// triangle on [4,6]: support is a small part of a wide domain
		case 26: return std::exp(-0.5 * (x - 90.0) * (x - 90.0));				// unit Gaussian at 90: the tails underflow to exactly 0 beyond ~38.6
		case 25: return (x >= 2.0 && x <= 3.0) ? 1.0 : 0.0;						// box on [2,3]
		case 23: return std::exp(-0.5 * (x - 50.0) * (x - 50.0) / 0.25);   // narrow peak: underflows to exactly 0 beyond |x-50| > 19.4
	}
	return 0.0;
}
static double pdf2(int id, double x, double y)
{
	switch(id)
	{
		case 0: return 1.0;
		case 1: return 1.0 / (1.0 + x * x + y * y);
		case 2: return (std::fabs(x) < 1.0 ? 1.0 - std::fabs(x) : 0.0) * (std::fabs(y) < 1.0 ? 1.0 - std::fabs(y) : 0.0);
		case 3: return x * x + y * y + 0.125;
		case 4: return 1.0 / ((1.0 + x * x) * (1.0 + y * y * y * y));
		case 20: return std::exp(-0.5 * (x * x + 0.25 * y * y));
		case 22: return 3.0 * std::exp(-0.5 * (x * x + y * y));
		case 24: return (std::fabs(x - 5.0) < 1.0 ? 1.0 - std::fabs(x - 5.0) : 0.0) * (std::fabs(y) < 1.0 ? 1.0 - std::fabs(y) : 0.0);	 // support [4,6]x[-1,1]
		case 25: return std::exp(-0.5 * ((x - 90.0) * (x - 90.0) + y * y));	  // N((90,0),(1,1)): exactly 0 far from the peak
		case 23: return std::exp(-0.5 * ((x - 50.0) * (x - 50.0) + (y - 50.0) * (y - 50.0)) / 0.25);   // exact-zero plateau around a narrow peak
	}
	return 0.0;
}
static double cdf1(int id, double x, double a, double b)
{
	switch(id)
	{
		case 0: return x;
		case 1: return x * x;
		case 2: return x * x * x;
		case 3: return x / (1.0 + x);
		case 20: return (1.0 - std::exp(-x)) / (1.0 - std::exp(-b));   // truncated exponential on [0,b]
		case 21: return (x - a) / (b - a);
		// non-linear CDFs of the relative position t = (x-a)/(b-a): usable on domains far from the origin
		case 22: { double t = (x - a) / (b - a); double t2 = t * t, t4 = t2 * t2; return t4 * t4; }
		case 23: { double t = (x - a) / (b - a); return t * t; }
		case 24: { double t = 1.0 - (x - a) / (b - a); return 1.0 - t * t * t; }
	}
	return x;
}

// one sampler call of the class-D script; appends the bits of its output to `out`
static void script_op(int opc, std::mt19937& g, std::vector<double>& out)
{
	std::function<double(double)> f1	  = [](double x) { return pdf1(1, x); };
	std::function<double(double)> f3	  = [](double x) { return pdf1(3, x); };
	std::function<double(double, double)> g1 = [](double x, double y) { return pdf2(1, x, y); };
	std::function<double(double, double)> g3 = [](double x, double y) { return pdf2(3, x, y); };
	switch(opc)
	{
		case 0: out.push_back(Sample_Uniform(g, -2.0, 3.0)); break;
		case 1: out.push_back(Sample_Gauss(g, 1.0, 2.0)); break;
		case 2: out.push_back(Sample_Poisson(g, 3.5)); break;
		case 3: out.push_back(Sample_Poisson(g, 700.0)); break;
		case 4:
			for(unsigned k : Sample_Poisson(g, std::vector<double> {0.5, 20.0}))
				out.push_back(k);
			break;
		case 5: out.push_back(Inverse_Transform_Sampling([](double x) { return x * x; }, 0.0, 1.0, g)); break;
		case 6: out.push_back(Rejection_Sampling(f1, -3.0, 3.0, 1.0, g)); break;
		case 7:
		{
			auto p = Rejection_Sampling_2D(g, g1, -1.0, 1.0, -2.0, 2.0, 1.0);
			out.push_back(p.first);
			out.push_back(p.second);
			break;
		}
		case 8:
			for(double x : Sample_Metropolis(g, f1, 1.0, 5, 2, 3))
				out.push_back(x);
			break;
		case 9:
			for(double x : Sample_Metropolis(g, f3, 0.7, 4, 3, 2, {-1.0, 2.0}))
				out.push_back(x);
			break;
		case 10:
			for(auto& p : Sample_Metropolis_2D(g, g1, {1.0, 0.5}, 4, 2, 3))
			{
				out.push_back(p.first);
				out.push_back(p.second);
			}
			break;
		case 11:
			for(auto& p : Sample_Metropolis_2D(g, g3, {0.5, 0.8}, 3, 2, 1, {-1.0, 1.0, 0.0, 2.0}))
			{
				out.push_back(p.first);
				out.push_back(p.second);
			}
			break;
		default: throw BadArgs("script opcode");
	}
}

std::string handle(const std::string& op, Args& a)
{
	if(op == "c18.mt")
	{
		unsigned seed = a.u64();
		size_t n	  = a.u64();
		a.end();
		return run([&](Out& o) { std::mt19937 g(seed); for(size_t i = 0; i < n; i++) o << (long long) g(); });
	}
	if(op == "c18.canon")
	{
		auto g	 = mk(a);
		size_t n = a.u64();
		a.end();
		return run([&](Out& o) { for(size_t i = 0; i < n; i++) o << Sample_Uniform(g, 0.0, 1.0); });
	}
	if(op == "c18.canonz")
	{
		// canonical uniforms from a crafted state:  seed  nz k…  n
		unsigned seed = (unsigned) a.u64();
		auto ks		  = a.ints();
		size_t n	  = a.u64();
		a.end();
		auto g = mk_zeroed(seed, ks);
		return run([&](Out& o) { for(size_t i = 0; i < n; i++) o << Sample_Uniform(g, 0.0, 1.0); });
	}
	if(op == "c18.metroz")
	{
		// Metropolis from a crafted state whose accept/reject deviates are exactly 0.0:
		//   seed dim sample thin burn sigma1 [sigma2] pdfid  ndom dom…   nz k…
		unsigned seed = (unsigned) a.u64();
		int dim		  = (int) a.i64();
		unsigned s = a.u64(), t = a.u64(), b = a.u64();
		double s1 = a.dbl(), s2 = dim == 2 ? a.dbl() : 0.0;
		int id	  = (int) a.i64();
		auto dom  = a.dbls();
		auto ks	  = a.ints();
		a.end();
		auto g = mk_zeroed(seed, ks);
		return run_forked([&](Out& o) {
			auto ref = g;
			if(dim == 1)
			{
				std::function<double(double)> f = [&](double x) { return pdf1(id, x); };
				auto v = Sample_Metropolis(g, f, s1, s, t, b, dom);
				o.list(v);
			}
			else
			{
				std::function<double(double, double)> f = [&](double x, double y) { return pdf2(id, x, y); };
				auto v = Sample_Metropolis_2D(g, f, {s1, s2}, s, t, b, dom);
				o << (long long) (2 * v.size());
				for(auto& p : v)
					o << p.first << p.second;
			}
			o << "u" << draws_between(ref, g) / 2;
		});
	}
	if(op == "c18.uniform" || op == "c18.gauss")
	{
		auto g	 = mk(a);
		double p = a.dbl(), q = a.dbl();
		a.end();
		return run_forked([&](Out& o) {
			auto ref = g;
			double x = op == "c18.uniform" ? Sample_Uniform(g, p, q) : Sample_Gauss(g, p, q);
			o << x << draws_between(ref, g) / 2;
		});
	}
	if(op == "c18.itrans")
	{
		auto g	 = mk(a);
		int id	 = a.i64();
		double p = a.dbl(), q = a.dbl();
		a.end();
		return run_forked([&](Out& o) {
			auto ref = g;
			double x = Inverse_Transform_Sampling([id, p, q](double x) { return cdf1(id, x, p, q); }, p, q, g);
			o << x << draws_between(ref, g) / 2;
		});
	}
	if(op == "c18.poisson")
	{
		auto g	   = mk(a);
		double lam = a.dbl();
		a.end();
		return run_forked([&](Out& o) {	  // a negative mean exits with a diagnostic
			auto ref   = g;
			unsigned k = Sample_Poisson(g, lam);
			o << (long long) k << draws_between(ref, g) / 2;
		});
	}
	if(op == "c18.poissonv")
	{
		auto g	 = mk(a);
		auto lam = a.dbls();
		a.end();
		return run_forked([&](Out& o) {	  // a negative mean exits with a diagnostic
			auto ref = g;
			auto ks	 = Sample_Poisson(g, lam);
			o.ilist(ks);
			o << draws_between(ref, g) / 2;
		});
	}
	if(op == "c18.reject1")
	{
		auto g	  = mk(a);
		int id	  = a.i64();
		double x0 = a.dbl(), x1 = a.dbl(), ym = a.dbl();
		a.end();
		return run_forked([&](Out& o) {
			auto ref  = g;
			long long calls = 0;
			std::function<double(double)> f = [&](double x) { calls++; return pdf1(id, x); };
			double x  = Rejection_Sampling(f, x0, x1, ym, g);
			o << x << calls << draws_between(ref, g) / 2;
		});
	}
	if(op == "c18.reject2")
	{
		auto g	  = mk(a);
		int id	  = a.i64();
		double x0 = a.dbl(), x1 = a.dbl(), y0 = a.dbl(), y1 = a.dbl(), zm = a.dbl();
		a.end();
		return run_forked([&](Out& o) {
			auto ref  = g;
			long long calls = 0;
			std::function<double(double, double)> f = [&](double x, double y) { calls++; return pdf2(id, x, y); };
			auto p	  = Rejection_Sampling_2D(g, f, x0, x1, y0, y1, zm);
			o << p.first << p.second << calls << draws_between(ref, g) / 2;
		});
	}
	if(op == "c18.mcount")
	{
		auto g		= mk(a);
		int dim		= a.i64();
		int bounded = a.i64();
		unsigned s = a.u64(), t = a.u64(), b = a.u64();
		a.end();
		return run_forked([&](Out& o) {
			auto ref	 = g;
			long long n	 = 0;
			bool inside	 = true;
			if(dim == 1)
			{
				std::function<double(double)> f = [](double x) { return pdf1(1, x); };
				std::vector<double> dom;
				if(bounded)
					dom = {-1.0, 2.0};
				auto v = Sample_Metropolis(g, f, 1.5, s, t, b, dom);
				n	   = v.size();
				for(double x : v)
					if(bounded && !(x >= -1.0 && x <= 2.0))
						inside = false;
			}
			else
			{
				std::function<double(double, double)> f = [](double x, double y) { return pdf2(1, x, y); };
				std::vector<double> dom;
				if(bounded)
					dom = {-1.0, 2.0, 0.5, 1.5};
				auto v = Sample_Metropolis_2D(g, f, {1.5, 0.7}, s, t, b, dom);
				n	   = v.size();
				for(auto& p : v)
					if(bounded && !(p.first >= -1.0 && p.first <= 2.0 && p.second >= 0.5 && p.second <= 1.5))
						inside = false;
			}
			o << n << draws_between(ref, g) / 2 << (int) inside;
		});
	}
	if(op == "c18.metro1")
	{
		// seed skip sample thin burn sigma pdfid  ndom dom…  [hasx0 x0  ncand cand…  ignored here]
		auto g	   = mk(a);
		unsigned s = a.u64(), t = a.u64(), b = a.u64();
		double sigma = a.dbl();
		int id		 = a.i64();
		auto dom	 = a.dbls();
		a.pos		 = a.t.size();	 // recorded candidates are input of the model only
		return run_forked([&](Out& o) {
			auto ref	  = g;
			long long cnt = 0;
			std::vector<std::pair<long long, double>> log;
			std::function<double(double)> f = [&](double x) {
				cnt += draws_between(ref, g);
				log.push_back({cnt, x});
				return pdf1(id, x);
			};
			auto v = Sample_Metropolis(g, f, sigma, s, t, b, dom);
			cnt += draws_between(ref, g);
			o.list(v);
			o << "u" << cnt / 2 << "log" << (long long) log.size();
			for(auto& e : log)
				o << e.first / 2 << e.second;
		});
	}
	if(op == "c18.metro2")
	{
		auto g	   = mk(a);
		unsigned s = a.u64(), t = a.u64(), b = a.u64();
		double s1 = a.dbl(), s2 = a.dbl();
		int id	  = a.i64();
		auto dom  = a.dbls();
		a.pos	  = a.t.size();
		return run_forked([&](Out& o) {
			auto ref	  = g;
			long long cnt = 0;
			struct E
			{
				long long c;
				double x, y;
			};
			std::vector<E> log;
			std::function<double(double, double)> f = [&](double x, double y) {
				cnt += draws_between(ref, g);
				log.push_back({cnt, x, y});
				return pdf2(id, x, y);
			};
			auto v = Sample_Metropolis_2D(g, f, {s1, s2}, s, t, b, dom);
			cnt += draws_between(ref, g);
			o << (long long) v.size();
			for(auto& p : v)
				o << p.first << p.second;
			o << "u" << cnt / 2 << "log" << (long long) log.size();
			for(auto& e : log)
				o << e.c / 2 << e.x << e.y;
		});
	}
	if(op == "c18.det")
	{
		// class D: the same script on two generators in equal states, an unrelated generator used in between
		auto g	 = mk(a);
		auto ops = a.ints();
		a.end();
		return run_forked([&](Out& o) {
			std::mt19937 g1 = g, g2 = g, other(12345u);
			int first_diff = -1, not_advanced = -1;
			bool states = true;
			long long total = 0;
			for(size_t i = 0; i < ops.size(); i++)
			{
				std::vector<double> o1, o2, o3;
				auto before = g1;
				script_op(ops[i], g1, o1);
				for(int k = 0; k < 3; k++)
					script_op((ops[i] + 5 + k) % 12, other, o3);   // unrelated sampling in between
				script_op(ops[i], g2, o2);
				bool same = o1.size() == o2.size() && (o1.empty() || memcmp(o1.data(), o2.data(), o1.size() * sizeof(double)) == 0);
				if(!same && first_diff < 0)
					first_diff = (int) i;
				if(!(g1 == g2))
					states = false;
				if(before == g1 && not_advanced < 0)
					not_advanced = (int) i;
				total += draws_between(before, g1);
			}
			o << first_diff << (int) states << not_advanced << total / 2;
		});
	}
	if(op == "c18.stat")
	{
		// statistical oracle: n samples of one sampler from a fixed seed
		std::string kind = a.tok();
		auto g			 = mk(a);
		size_t n		 = a.u64();
		auto p			 = a.dbls();
		a.end();
		auto need = [&](size_t k) { if(p.size() != k) throw BadArgs("stat params"); };
		if(kind == "uniform")
		{
			need(2);
			return run_forked([&](Out& o) { for(size_t i = 0; i < n; i++) o << Sample_Uniform(g, p[0], p[1]); });
		}
		if(kind == "gauss")
		{
			need(2);
			return run_forked([&](Out& o) { for(size_t i = 0; i < n; i++) o << Sample_Gauss(g, p[0], p[1]); });
		}
		if(kind == "poisson")
		{
			need(1);
			return run_forked([&](Out& o) { for(size_t i = 0; i < n; i++) o << (long long) Sample_Poisson(g, p[0]); });
		}
		if(kind == "itrans")
		{
			need(3);
			int id = (int) p[0];
			return run_forked([&](Out& o) {
				std::function<double(double)> c = [&](double x) { return cdf1(id, x, p[1], p[2]); };
				for(size_t i = 0; i < n; i++)
					o << Inverse_Transform_Sampling(c, p[1], p[2], g);
			});
		}
		if(kind == "rej1")
		{
			need(4);
			int id = (int) p[0];
			return run_forked([&](Out& o) {
				std::function<double(double)> f = [&](double x) { return pdf1(id, x); };
				for(size_t i = 0; i < n; i++)
					o << Rejection_Sampling(f, p[1], p[2], p[3], g);
			});
		}
		if(kind == "rej2")
		{
			need(6);
			int id = (int) p[0];
			return run_forked([&](Out& o) {
				std::function<double(double, double)> f = [&](double x, double y) { return pdf2(id, x, y); };
				for(size_t i = 0; i < n; i++)
				{
					auto q = Rejection_Sampling_2D(g, f, p[1], p[2], p[3], p[4], p[5]);
					o << q.first << q.second;
				}
			});
		}
		if(kind == "metro1")
		{
			// id sigma thin burn [lo hi]
			if(p.size() != 4 && p.size() != 6)
				throw BadArgs("stat params");
			int id = (int) p[0];
			std::vector<double> dom(p.begin() + 4, p.end());
			// in-process: up to 1e5 samples exceed the size cap of a forked child's answer; no exit path on these inputs
			return run([&](Out& o) {
				std::function<double(double)> f = [&](double x) { return pdf1(id, x); };
				o << Sample_Metropolis(g, f, p[1], n, (unsigned) p[2], (unsigned) p[3], dom);
			});
		}
		if(kind == "metro2")
		{
			// id s1 s2 thin burn [x0 x1 y0 y1]
			if(p.size() != 5 && p.size() != 9)
				throw BadArgs("stat params");
			int id = (int) p[0];
			std::vector<double> dom(p.begin() + 5, p.end());
			return run([&](Out& o) {
				std::function<double(double, double)> f = [&](double x, double y) { return pdf2(id, x, y); };
				for(auto& q : Sample_Metropolis_2D(g, f, {p[1], p[2]}, n, (unsigned) p[3], (unsigned) p[4], dom))
					o << q.first << q.second;
			});
		}
		throw BadArgs("stat kind");
	}
	throw BadOp();
}
}	// namespace hz
