// C07 harness: distributions, quantiles, likelihoods, KDE of src/Statistics.cpp (the real library).
#define HZ_MAIN
#include "common.hpp"

#include "libphysica/Numerics.hpp"
#include "libphysica/Statistics.hpp"

using namespace libphysica;

namespace hz
{
static std::vector<unsigned long int> ulist(Args& a)
{
	size_t n = a.u64();
	std::vector<unsigned long int> v(n);
	for(auto& x : v)
		x = a.u64();
	return v;
}

std::string handle(const std::string& op, Args& a)
{
	if(op == "c07.unif_pdf" || op == "c07.unif_cdf" || op == "c07.gauss_pdf" || op == "c07.gauss_cdf")
	{
		double x = a.dbl(), p1 = a.dbl(), p2 = a.dbl();
		a.end();
		// parameters the library rejects (fix d65f15f): empty domain x_min >= x_max, sigma <= 0
		bool rejected = (op == "c07.unif_pdf" || op == "c07.unif_cdf") ? !(p1 < p2) : !(p2 > 0);
		auto body = [&](Out& o) {
			if(op == "c07.unif_pdf")
				o << PDF_Uniform(x, p1, p2);
			else if(op == "c07.unif_cdf")
				o << CDF_Uniform(x, p1, p2);
			else if(op == "c07.gauss_pdf")
				o << PDF_Gauss(x, p1, p2);
			else
				o << CDF_Gauss(x, p1, p2);
		};
		return rejected ? run_forked(body) : run(body);
	}
	if(op == "c07.gauss2d")	  // PDF_Gauss_2D and the two one-dimensional densities it should be the product of
	{
		double x = a.dbl(), y = a.dbl(), m1 = a.dbl(), m2 = a.dbl(), s1 = a.dbl(), s2 = a.dbl();
		a.end();
		auto body = [&](Out& o) {
			std::pair<double, double> mean(m1, m2), sigma(s1, s2);
			o << PDF_Gauss_2D(x, y, mean, sigma) << PDF_Gauss(x, m1, s1) << PDF_Gauss(y, m2, s2);
		};
		return (s1 > 0 && s2 > 0) ? run(body) : run_forked(body);
	}
	if(op == "c07.gauss_q")
	{
		double p = a.dbl(), mu = a.dbl(), s = a.dbl();
		a.end();
		return run_forked([&](Out& o) {
			double q = Quantile_Gauss(p, mu, s);
			o << q << CDF_Gauss(q, mu, s);
		});
	}
	if(op == "c07.binom_pmf" || op == "c07.binom_cdf")
	{
		unsigned t = a.u64();
		double p   = a.dbl();
		unsigned x = a.u64();
		a.end();
		auto body = [&](Out& o) { o << (op == "c07.binom_pmf" ? PMF_Binomial(t, p, x) : CDF_Binomial(t, p, x)); };
		return (p >= 0.0 && p <= 1.0) ? run(body) : run_forked(body);
	}
	if(op == "c07.pois_pmf" || op == "c07.pois_cdf")
	{
		double mu  = a.dbl();
		unsigned n = a.u64();
		a.end();
		auto body = [&](Out& o) { o << (op == "c07.pois_pmf" ? PMF_Poisson(mu, n) : CDF_Poisson(mu, n)); };
		return (mu >= 0.0) ? run(body) : run_forked(body);
	}
	if(op == "c07.pois_inv")
	{
		unsigned n = a.u64();
		double c   = a.dbl();
		a.end();
		auto body = [&](Out& o) {
			double mu = Inv_CDF_Poisson(n, c);
			o << mu;
			if(mu >= 0)
				o << CDF_Poisson(mu, n);
			else
				o << "nan";
		};
		return (c >= 0.0 && c <= 1.0) ? run(body) : run_forked(body);
	}
	if(op == "c07.chi_pdf" || op == "c07.chi_cdf")
	{
		double x = a.dbl(), d = a.dbl();
		a.end();
		auto body = [&](Out& o) { o << (op == "c07.chi_pdf" ? PDF_Chi_Square(x, d) : CDF_Chi_Square(x, d)); };
		return d >= 0 ? run(body) : run_forked(body);
	}
	if(op == "c07.chibar_pdf" || op == "c07.chibar_cdf")
	{
		double x = a.dbl();
		auto w	 = a.dbls();
		a.end();
		return run([&](Out& o) { o << (op == "c07.chibar_pdf" ? PDF_Chi_Bar_Square(x, w) : CDF_Chi_Bar_Square(x, w)); });
	}
	if(op == "c07.exp_pdf" || op == "c07.exp_cdf" || op == "c07.mb_pdf" || op == "c07.mb_cdf")
	{
		double x = a.dbl(), m = a.dbl();
		a.end();
		auto body = [&](Out& o) {
			if(op == "c07.exp_pdf")
				o << PDF_Exponential(x, m);
			else if(op == "c07.exp_cdf")
				o << CDF_Exponential(x, m);
			else if(op == "c07.mb_pdf")
				o << PDF_Maxwell_Boltzmann(x, m);
			else
				o << CDF_Maxwell_Boltzmann(x, m);
		};
		return m > 0 ? run(body) : run_forked(body);
	}
	if(op == "c07.loglik" || op == "c07.lik")
	{
		double s			= a.dbl();
		unsigned long int n = a.u64();
		double b			= a.dbl();
		a.end();
		// Likelihood, the mass function at signal plus background, and both spellings of the default background
		auto body = [&](Out& o) {
			if(op == "c07.loglik")
				o << Log_Likelihood_Poisson(s, n, b);
			else
				o << Likelihood_Poisson(s, n, b);
			o << PMF_Poisson(s + b, n);
		};
		return (s >= 0 && b >= 0) ? run(body) : run_forked(body);   // negative expectations are rejected (fix d65f15f)
	}
	if(op == "c07.loglik_b" || op == "c07.lik_b")
	{
		auto s = a.dbls();
		auto n = ulist(a);
		auto b = a.dbls();
		a.end();
		return run_forked([&](Out& o) {
			if(op == "c07.loglik_b")
				o << Log_Likelihood_Poisson_Binned(s, n, b);
			else
				o << Likelihood_Poisson_Binned(s, n, b);
			// the per-bin values the product/sum is made of
			for(size_t i = 0; i < s.size(); i++)
				o << (op == "c07.loglik_b" ? Log_Likelihood_Poisson(s[i], n[i], b.empty() ? 0.0 : b[i]) : Likelihood_Poisson(s[i], n[i], b.empty() ? 0.0 : b[i]));
		});
	}
	if(op == "c07.kde")
	{
		size_t n = a.u64();
		std::vector<DataPoint> d;
		for(size_t i = 0; i < n; i++)
		{
			double v = a.dbl(), w = a.dbl();
			d.push_back(DataPoint(v, w));
		}
		double xmin = a.dbl(), xmax = a.dbl(), bw = a.dbl();
		a.end();
		return run_forked([&](Out& o) {
			Interpolation k = Perform_KDE(d, xmin, xmax, bw);
			o << k.Integrate(xmin, xmax);
			// the 150 tabulated abscissae and the midpoints between them
			double dx = (xmax - xmin) / 149;
			for(int j = 0; j < 150; j++)
			{
				double x = std::min(xmax, xmin + j * dx);
				o << k(x);
				if(j < 149)
					o << k(std::min(xmax, x + 0.5 * dx));
			}
		});
	}
	throw BadOp();
}
}	// namespace hz
