// C08 harness: integrals, extrema and prefactor of libphysica::Interpolation / Interpolation_2D.
//   c08.seq  <xs> <ys> <xdim> <fdim> <n> op...                 calls in order on one object
//   c08.seq2 <xs> <ys> <rows> <row>... <xdim> <ydim> <fdim> <n> op...
// op tokens: I x | D x k | G a b | m a b | M a b | gm | gM | L x | P p | X p | C   (2-D: I x y | gm | gM | P p | X p | C)
// observation per call: V <value> | L <index> | U
#define HZ_MAIN
#include "common.hpp"

#include "libphysica/Numerics.hpp"

using namespace libphysica;

namespace hz
{
struct Op
{
	std::string t;
	double a = 0, b = 0;
	unsigned k = 0;
};

static Op read_op(Args& a, bool twod)
{
	Op o;
	o.t = a.tok();
	if(twod)
	{
		if(o.t == "I")
		{
			o.a = a.dbl();
			o.b = a.dbl();
		}
		else if(o.t == "P" || o.t == "X")
			o.a = a.dbl();
		else if(o.t != "gm" && o.t != "gM" && o.t != "C")
			throw BadArgs("op2 " + o.t);
		return o;
	}
	if(o.t == "I" || o.t == "L" || o.t == "P" || o.t == "X")
		o.a = a.dbl();
	else if(o.t == "D")
	{
		o.a = a.dbl();
		o.k = a.u64();
	}
	else if(o.t == "G" || o.t == "m" || o.t == "M")
	{
		o.a = a.dbl();
		o.b = a.dbl();
	}
	else if(o.t != "gm" && o.t != "gM" && o.t != "C")
		throw BadArgs("op " + o.t);
	return o;
}

static std::vector<Op> read_ops(Args& a, bool twod)
{
	size_t n = a.u64();
	std::vector<Op> v;
	for(size_t i = 0; i < n; i++)
		v.push_back(read_op(a, twod));
	return v;
}

std::string handle(const std::string& op, Args& a)
{
	if(op == "c08.seq")
	{
		auto xs = a.dbls(), ys = a.dbls();
		double xd = a.dbl(), fd = a.dbl();
		auto h = read_ops(a, false);
		a.end();
		return run_forked([&](Out& o) {
			Interpolation f(xs, ys, xd, fd);
			for(const Op& c : h)
			{
				if(c.t == "P")
				{
					f.Set_Prefactor(c.a);
					o << "U";
				}
				else if(c.t == "X")
				{
					f.Multiply(c.a);
					o << "U";
				}
				else if(c.t == "C")
				{
					Interpolation g(f);
					f = g;
					o << "U";
				}
				else if(c.t == "L")
					o << "L" << f.Locate(c.a);
				else if(c.t == "I")
					o << "V" << f(c.a);
				else if(c.t == "D")
					o << "V" << f.Derivative(c.a, c.k);
				else if(c.t == "G")
					o << "V" << f.Integrate(c.a, c.b);
				else if(c.t == "m")
					o << "V" << f.Local_Minimum(c.a, c.b);
				else if(c.t == "M")
					o << "V" << f.Local_Maximum(c.a, c.b);
				else if(c.t == "gm")
					o << "V" << f.Global_Minimum();
				else if(c.t == "gM")
					o << "V" << f.Global_Maximum();
			}
		});
	}
	if(op == "c08.seq2")
	{
		auto xs = a.dbls(), ys = a.dbls();
		size_t rows = a.u64();
		std::vector<std::vector<double>> fv(rows);
		for(auto& r : fv)
			r = a.dbls();
		double xd = a.dbl(), yd = a.dbl(), fd = a.dbl();
		auto h = read_ops(a, true);
		a.end();
		return run_forked([&](Out& o) {
			Interpolation_2D f(xs, ys, fv, xd, yd, fd);
			for(const Op& c : h)
			{
				if(c.t == "P")
				{
					f.Set_Prefactor(c.a);
					o << "U";
				}
				else if(c.t == "X")
				{
					f.Multiply(c.a);
					o << "U";
				}
				else if(c.t == "C")
				{
					Interpolation_2D g(f);
					f = g;
					o << "U";
				}
				else if(c.t == "I")
					o << "V" << f(c.a, c.b);
				else if(c.t == "gm")
					o << "V" << f.Global_Minimum();
				else if(c.t == "gM")
					o << "V" << f.Global_Maximum();
			}
		});
	}
	throw BadOp();
}
}	// namespace hz
