// C17 harness: Sign/StepFunction/Round/Relative_Difference/Floats_Equal, Dawson_Integral, Erfi,
// Inv_Erf, Spherical_Harmonics, VSH_*_Component, Vector_Spherical_Harmonics_Y/Psi
// (src/Special_Functions.cpp).
#define HZ_MAIN
#include "common.hpp"

#include <complex>

#include "libphysica/Linear_Algebra.hpp"
#include "libphysica/Special_Functions.hpp"

using namespace libphysica;

namespace hz
{
static void putc(Out& o, std::complex<double> z) { o << z.real() << z.imag(); }

std::string handle(const std::string& op, Args& a)
{
	if(op == "c17.sign1")
	{
		double x = a.dbl();
		a.end();
		return run([&](Out& o) { o << Sign(x); });
	}
	if(op == "c17.sign2")
	{
		double x = a.dbl(), y = a.dbl();
		a.end();
		return run([&](Out& o) { o << Sign(x, y) << Sign(-x, y) << Sign(x, -y); });
	}
	if(op == "c17.step")
	{
		double x = a.dbl();
		a.end();
		return run([&](Out& o) { o << StepFunction(x); });
	}
	if(op == "c17.reldiff")
	{
		double x = a.dbl(), y = a.dbl();
		a.end();
		return run([&](Out& o) { o << Relative_Difference(x, y) << Relative_Difference(y, x); });
	}
	if(op == "c17.feq")
	{
		double x = a.dbl(), y = a.dbl(), t = a.dbl();
		a.end();
		return run([&](Out& o) { o << (int) Floats_Equal(x, y, t) << (int) Floats_Equal(y, x, t) << (int) Floats_Equal(x, x, t) << (int) Floats_Equal(y, y, t); });
	}
	if(op == "c17.round")
	{
		double x   = a.dbl();
		unsigned d = a.u64();
		a.end();
		// Round(x), Round(-x), Round(Round(x)) for the laws; forked: digits > 7 exits
		return run_forked([&](Out& o) {
			double r = Round(x, d);
			o << r << Round(-x, d) << Round(r, d);
		});
	}
	if(op == "c17.roundV")
	{
		auto xs	   = a.dbls();
		unsigned d = a.u64();
		a.end();
		return run_forked([&](Out& o) {
			Vector v = Round(Vector(xs), d);
			o << v.Size();
			for(unsigned i = 0; i < v.Size(); i++)
				o << v[i];
			// the matrix overload on the same numbers as a 1 x n matrix
			Matrix m = Round(Matrix(std::vector<std::vector<double>>{xs}), d);
			for(unsigned j = 0; j < m.Columns(); j++)
				o << m[0][j];
		});
	}
	if(op == "c17.dawson")
	{
		double x = a.dbl();
		a.end();
		return run([&](Out& o) { o << Dawson_Integral(x) << Dawson_Integral(-x); });
	}
	if(op == "c17.erfi")
	{
		double x = a.dbl();
		a.end();
		return run([&](Out& o) { o << Erfi(x) << Erfi(-x); });
	}
	if(op == "c17.inverf")
	{
		double p = a.dbl();
		a.end();
		return run_forked([&](Out& o) { o << Inv_Erf(p); });
	}
	if(op == "c17.inverfscan")
	{
		// p = sign * (1 - q), q log-uniform in [qlo, qhi) with relative step `step`, first point at offset `off`
		int sign   = a.i64();
		double qlo = a.dbl(), qhi = a.dbl(), step = a.dbl(), off = a.dbl();
		a.end();
		return run_forked([&](Out& o) {
			double ls = std::log1p(step);
			for(double k = off;; k += 1.0)
			{
				double q = qlo * std::exp(k * ls);
				if(!(q < qhi) || !(q < 1.0))
					break;
				double p = sign * (1.0 - q);
				if(std::fabs(p) >= 1.0 || std::fabs(p - 1.0) < 1e-16)
					continue;
				o << p << Inv_Erf(p);
			}
		});
	}
	if(op == "c17.dawscan")
	{
		// x = sign * (lo + (k + off) * (hi - lo) / n), k = 0..n-1
		int sign  = a.i64();
		double lo = a.dbl(), hi = a.dbl();
		unsigned n = a.u64();
		double off = a.dbl();
		a.end();
		return run([&](Out& o) {
			for(unsigned k = 0; k < n; k++)
			{
				double x = sign * (lo + (k + off) * (hi - lo) / n);
				o << x << Dawson_Integral(x) << Erfi(x);
			}
		});
	}
	if(op == "c17.vshy" || op == "c17.vshpsi")
	{
		int c = a.i64(), l = a.i64(), m = a.i64(), lh = a.i64(), mh = a.i64();
		a.end();
		bool y = op == "c17.vshy";
		if(c < 0 || c > 2)
			return run_forked([&](Out& o) { putc(o, y ? VSH_Y_Component(c, l, m, lh, mh) : VSH_Psi_Component(c, l, m, lh, mh)); });
		return run([&](Out& o) { putc(o, y ? VSH_Y_Component(c, l, m, lh, mh) : VSH_Psi_Component(c, l, m, lh, mh)); });
	}
	if(op == "c17.vshsum")
	{
		a.i64();
		a.i64();
		a.end();
		return "ok -";
	}
	if(op == "c17.sph")
	{
		int l = a.i64(), m = a.i64();
		double th = a.dbl(), ph = a.dbl();
		a.end();
		return run([&](Out& o) {
			putc(o, Spherical_Harmonics(l, m, th, ph));
			putc(o, Spherical_Harmonics(l, -m, th, ph));
		});
	}
	if(op == "c17.vshY" || op == "c17.vshPsi")
	{
		int l = a.i64(), m = a.i64();
		double th = a.dbl(), ph = a.dbl();
		a.end();
		bool y = op == "c17.vshY";
		return run([&](Out& o) {
			auto v = y ? Vector_Spherical_Harmonics_Y(l, m, th, ph) : Vector_Spherical_Harmonics_Psi(l, m, th, ph);
			o << v.size();
			for(auto z : v)
				putc(o, z);
			putc(o, Spherical_Harmonics(l, m, th, ph));
		});
	}
	throw BadOp();
}
}	// namespace hz
