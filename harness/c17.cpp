// C17 harness: Sign/StepFunction/Round/Relative_Difference/Floats_Equal, Dawson_Integral, Erfi,
// Inv_Erf, Spherical_Harmonics, VSH_*_Component, Vector_Spherical_Harmonics_Y/Psi
// (src/Special_Functions.cpp).
#define HZ_MAIN
#include "common.hpp"

#include <complex>
#include <fstream>
#include <iterator>

#include "libphysica/Linear_Algebra.hpp"
#include "libphysica/Special_Functions.hpp"

using namespace libphysica;

namespace hz
{
static void putc(Out& o, std::complex<double> z) { o << z.real() << z.imag(); }

// ---------------------------------------------------------------------------------------------------
// Pre-main probe (class D, "no history at all"): every C17 function is evaluated on a small grid from the
// constructor of a namespace-scope object of THIS translation unit, which precedes the library objects on the
// link line and is therefore initialised before them (once with the default priority, once with
// init_priority(101), i.e. before every default-priority initialiser of the program). `c17.premain` returns the
// stored values next to the same calls made from main(); they must agree bit for bit.
// ---------------------------------------------------------------------------------------------------
typedef std::vector<std::pair<std::string, double>> ProbeLog;

static void probe_all(ProbeLog& log)
{
	auto put  = [&log](const std::string& name, double v) { log.push_back({name, v}); };
	auto putz = [&log](const std::string& name, std::complex<double> z) {
		log.push_back({name + ".re", z.real()});
		log.push_back({name + ".im", z.imag()});
	};
	const double xs[] = {0.0, 0.05, -0.15, 0.19, 0.2, -0.25, 0.4, 0.75, -1.2, 2.0, 3.7, -9.5, 26.0};
	for(double x : xs)
	{
		std::string t = "(" + hex(x) + ")";
		put("Sign" + t, Sign(x));
		put("Sign2" + t, Sign(x, -1.5));
		put("StepFunction" + t, StepFunction(x));
		put("Round" + t, Round(x * 1234.56789, 3));
		put("Relative_Difference" + t, Relative_Difference(x, 0.3));
		put("Floats_Equal" + t, Floats_Equal(x, x * (1.0 + 1e-12), 1e-10) ? 1.0 : 0.0);
		put("Dawson_Integral" + t, Dawson_Integral(x));
		put("Erfi" + t, Erfi(x));
	}
	const double ps[] = {0.0, 0.3, -0.77, 0.999, -0.999999};
	for(double p : ps)
		put("Inv_Erf(" + hex(p) + ")", Inv_Erf(p));
	const int lms[][2] = {{0, 0}, {1, -1}, {1, 0}, {2, 1}, {3, -3}, {5, 2}};
	for(auto& lm : lms)
	{
		int l = lm[0], m = lm[1];
		std::string t = "(" + std::to_string(l) + "," + std::to_string(m) + ")";
		putz("Spherical_Harmonics" + t, Spherical_Harmonics(l, m, 0.7, 2.1));
		for(int c = 0; c < 3; c++)
		{
			putz("VSH_Y_Component" + t + "[" + std::to_string(c) + "]", VSH_Y_Component(c, l, m, l + 1, c == 2 ? m : m + 1));
			putz("VSH_Psi_Component" + t + "[" + std::to_string(c) + "]", VSH_Psi_Component(c, l, m, l + 1, c == 2 ? m : m - 1));
		}
		std::vector<std::complex<double>> Y = Vector_Spherical_Harmonics_Y(l, m, 0.7, 2.1);
		std::vector<std::complex<double>> P = Vector_Spherical_Harmonics_Psi(l, m, 0.7, 2.1);
		for(size_t i = 0; i < Y.size(); i++)
			putz("Vector_Spherical_Harmonics_Y" + t + "[" + std::to_string(i) + "]", Y[i]);
		for(size_t i = 0; i < P.size(); i++)
			putz("Vector_Spherical_Harmonics_Psi" + t + "[" + std::to_string(i) + "]", P[i]);
	}
}

struct PreMainProbe
{
	ProbeLog log;
	PreMainProbe() { probe_all(log); }
};
static PreMainProbe g_probe_early __attribute__((init_priority(101)));
static PreMainProbe g_probe_default;

// ---------------------------------------------------------------------------------------------------
// Fresh-process evaluation (class D, reference for call sequences): `<harness> --c17-eval Y|Psi l m theta phi` evaluates
// ONE vector harmonic in a process that has made no other call of it and prints the six doubles; handled here,
// before main() of common.hpp runs. `fresh_eval` runs the harness' own executable that way.
// ---------------------------------------------------------------------------------------------------
struct FreshEvalHook
{
	FreshEvalHook()
	{
		std::ifstream f("/proc/self/cmdline", std::ios::binary);
		std::string all((std::istreambuf_iterator<char>(f)), std::istreambuf_iterator<char>());
		std::vector<std::string> av;
		size_t i = 0;
		while(i < all.size())
		{
			size_t j = all.find('\0', i);
			if(j == std::string::npos)
				j = all.size();
			av.push_back(all.substr(i, j - i));
			i = j + 1;
		}
		if(av.size() == 7 && av[1] == "--c17-eval")
		{
			int l = std::atoi(av[3].c_str()), m = std::atoi(av[4].c_str());
			double th = std::strtod(av[5].c_str(), nullptr), ph = std::strtod(av[6].c_str(), nullptr);
			std::vector<std::complex<double>> v = av[2] == "Y" ? Vector_Spherical_Harmonics_Y(l, m, th, ph) : Vector_Spherical_Harmonics_Psi(l, m, th, ph);
			std::string out = "FRESH";
			for(auto z : v)
				out += " " + hex(z.real()) + " " + hex(z.imag());
			out += "\n";
			if(write(1, out.data(), out.size()) < 0) {}
			_exit(0);
		}
	}
};
static FreshEvalHook g_fresh_hook;

static std::vector<std::string> fresh_eval(bool y, int l, int m, double th, double ph)
{
	char exe[4096];
	ssize_t n = readlink("/proc/self/exe", exe, sizeof exe - 1);
	if(n <= 0)
		return {};
	exe[n]			= 0;
	std::string cmd = std::string("'") + exe + "' --c17-eval " + (y ? "Y" : "Psi") + " " + std::to_string(l) + " " + std::to_string(m) + " " + hex(th) + " " + hex(ph) + " 2>/dev/null";
	FILE* p			= popen(cmd.c_str(), "r");
	if(!p)
		return {};
	char buf[1024];
	std::string line;
	while(fgets(buf, sizeof buf, p))
		line += buf;
	pclose(p);
	std::istringstream is(line);
	std::string t;
	std::vector<std::string> r;
	is >> t;
	if(t != "FRESH")
		return {};
	while(is >> t)
		r.push_back(t);
	return r;
}

// Hermitian product of two results taken by reference: both calls are arguments of ONE expression
static std::complex<double> herm(const std::vector<std::complex<double>>& x, const std::vector<std::complex<double>>& y)
{
	std::complex<double> s = 0.0;
	for(size_t i = 0; i < x.size() && i < y.size(); i++)
		s += std::conj(x[i]) * y[i];
	return s;
}

std::string handle(const std::string& op, Args& a)
{
	if(op == "c17.sign1")
	{
		double x = a.dbl();
		a.end();
		return run([&](Out& o) { o << Sign(x); });
	}
	if(op == "c17.sign2")
	{
		double x = a.dbl(), y = a.dbl();
		a.end();
		return run([&](Out& o) { o << Sign(x, y) << Sign(-x, y) << Sign(x, -y); });
	}
	if(op == "c17.step")
	{
		double x = a.dbl();
		a.end();
		return run([&](Out& o) { o << StepFunction(x); });
	}
	if(op == "c17.reldiff")
	{
		double x = a.dbl(), y = a.dbl();
		a.end();
		return run([&](Out& o) { o << Relative_Difference(x, y) << Relative_Difference(y, x); });
	}
	if(op == "c17.feq")
	{
		double x = a.dbl(), y = a.dbl(), t = a.dbl();
		a.end();
		return run([&](Out& o) { o << (int) Floats_Equal(x, y, t) << (int) Floats_Equal(y, x, t) << (int) Floats_Equal(x, x, t) << (int) Floats_Equal(y, y, t); });
	}
	if(op == "c17.round")
	{
		double x   = a.dbl();
		unsigned d = a.u64();
		a.end();
		// Round(x), Round(-x), Round(Round(x)) for the laws; forked: digits > 7 exits
		return run_forked([&](Out& o) {
			double r = Round(x, d);
			o << r << Round(-x, d) << Round(r, d);
		});
	}
	if(op == "c17.roundV")
	{
		auto xs	   = a.dbls();
		unsigned d = a.u64();
		a.end();
		return run_forked([&](Out& o) {
			Vector v = Round(Vector(xs), d);
			o << v.Size();
			for(unsigned i = 0; i < v.Size(); i++)
				o << v[i];
			// the matrix overload on the same numbers as a 1 x n matrix
			Matrix m = Round(Matrix(std::vector<std::vector<double>>{xs}), d);
			for(unsigned j = 0; j < m.Columns(); j++)
				o << m[0][j];
			// rounding the rounded vector / matrix again (idempotence of the overloads, bit for bit)
			Vector v2 = Round(v, d);
			for(unsigned i = 0; i < v2.Size(); i++)
				o << v2[i];
			Matrix m2 = Round(m, d);
			for(unsigned j = 0; j < m2.Columns(); j++)
				o << m2[0][j];
		});
	}
	if(op == "c17.roundscan")
	{
		// carries: x = sign * 10^e * (1 - u * 10^-d), u = 0.6 (k + off) / n in (0, 0.6]; returns x, Round(x), Round(-x), Round(Round(x))
		unsigned d = a.u64();
		int e	   = a.i64();
		unsigned n = a.u64();
		double off = a.dbl();
		int sign   = a.i64();
		a.end();
		if(d < 1 || d > 7)
			throw BadArgs("digits");
		return run([&](Out& o) {
			for(unsigned k = 0; k < n; k++)
			{
				double u = 0.6 * (k + off) / n;
				double x = sign * std::pow(10.0, e) * (1.0 - u * std::pow(10.0, -(double) d));
				double r = Round(x, d);
				o << x << r << Round(-x, d) << Round(r, d);
			}
		});
	}
	if(op == "c17.dawson")
	{
		double x = a.dbl();
		a.end();
		return run([&](Out& o) { o << Dawson_Integral(x) << Dawson_Integral(-x); });
	}
	if(op == "c17.erfi")
	{
		double x = a.dbl();
		a.end();
		return run([&](Out& o) { o << Erfi(x) << Erfi(-x); });
	}
	if(op == "c17.inverf")
	{
		double p = a.dbl();
		a.end();
		return run_forked([&](Out& o) { o << Inv_Erf(p); });
	}
	if(op == "c17.inverfscan")
	{
		// p = sign * (1 - q), q log-uniform in [qlo, qhi) with relative step `step`, first point at offset `off`
		int sign   = a.i64();
		double qlo = a.dbl(), qhi = a.dbl(), step = a.dbl(), off = a.dbl();
		a.end();
		return run_forked([&](Out& o) {
			double ls = std::log1p(step);
			for(double k = off;; k += 1.0)
			{
				double q = qlo * std::exp(k * ls);
				if(!(q < qhi) || !(q < 1.0))
					break;
				double p = sign * (1.0 - q);
				if(std::fabs(p) >= 1.0 || std::fabs(p - 1.0) < 1e-16)
					continue;
				o << p << Inv_Erf(p);
			}
		});
	}
	if(op == "c17.dawscan")
	{
		// x = sign * (lo + (k + off) * (hi - lo) / n), k = 0..n-1
		int sign  = a.i64();
		double lo = a.dbl(), hi = a.dbl();
		unsigned n = a.u64();
		double off = a.dbl();
		a.end();
		return run([&](Out& o) {
			for(unsigned k = 0; k < n; k++)
			{
				double x = sign * (lo + (k + off) * (hi - lo) / n);
				o << x << Dawson_Integral(x) << Erfi(x);
			}
		});
	}
	if(op == "c17.vshy" || op == "c17.vshpsi")
	{
		int c = a.i64(), l = a.i64(), m = a.i64(), lh = a.i64(), mh = a.i64();
		a.end();
		bool y = op == "c17.vshy";
		if(c < 0 || c > 2)
			return run_forked([&](Out& o) { putc(o, y ? VSH_Y_Component(c, l, m, lh, mh) : VSH_Psi_Component(c, l, m, lh, mh)); });
		return run([&](Out& o) { putc(o, y ? VSH_Y_Component(c, l, m, lh, mh) : VSH_Psi_Component(c, l, m, lh, mh)); });
	}
	if(op == "c17.premain")
	{
		a.end();
		return run([&](Out& o) {
			ProbeLog now;
			probe_all(now);
			size_t n = now.size();
			o << n << g_probe_early.log.size() << g_probe_default.log.size();
			for(size_t i = 0; i < n; i++)
			{
				o << now[i].first << now[i].second;
				o << (i < g_probe_early.log.size() ? g_probe_early.log[i].second : NAN);
				o << (i < g_probe_default.log.size() ? g_probe_default.log[i].second : NAN);
			}
		});
	}
	if(op == "c17.vshseq")
	{
		// consecutive calls in ONE process; every result next to the result of the same call in a fresh process
		size_t n = a.u64();
		std::vector<bool> ky(n);
		std::vector<int> l(n), m(n);
		std::vector<double> th(n), ph(n);
		for(size_t i = 0; i < n; i++)
		{
			ky[i] = a.tok() == "Y";
			l[i]  = a.i64();
			m[i]  = a.i64();
			th[i] = a.dbl();
			ph[i] = a.dbl();
		}
		a.end();
		return run([&](Out& o) {
			std::vector<std::vector<std::complex<double>>> res;
			for(size_t i = 0; i < n; i++)
				res.push_back(ky[i] ? Vector_Spherical_Harmonics_Y(l[i], m[i], th[i], ph[i]) : Vector_Spherical_Harmonics_Psi(l[i], m[i], th[i], ph[i]));
			for(size_t i = 0; i < n; i++)
			{
				o << res[i].size();
				for(auto z : res[i])
					putc(o, z);
				std::vector<std::string> f = fresh_eval(ky[i], l[i], m[i], th[i], ph[i]);
				o << f.size();
				for(auto& t : f)
					o << t;
			}
		});
	}
	if(op == "c17.vshhold")
	{
		// three results of the same function alive at the same time, bound to `const auto&` (lifetime extension with a
		// by-value API) and used inside one expression, against values copied right after each call
		bool y = a.tok() == "Y";
		int l[3], m[3];
		double th[3], ph[3];
		for(int i = 0; i < 3; i++)
		{
			l[i]  = a.i64();
			m[i]  = a.i64();
			th[i] = a.dbl();
			ph[i] = a.dbl();
		}
		a.end();
		return run([&](Out& o) {
			typedef std::vector<std::complex<double>> V;
			auto f = [y](int l_, int m_, double t_, double p_) -> V {
				return y ? Vector_Spherical_Harmonics_Y(l_, m_, t_, p_) : Vector_Spherical_Harmonics_Psi(l_, m_, t_, p_);
			};
			// copies, each taken before the next call
			V c0 = f(l[0], m[0], th[0], ph[0]);
			V c1 = f(l[1], m[1], th[1], ph[1]);
			V c2 = f(l[2], m[2], th[2], ph[2]);
			// held simultaneously without a copy
			const auto& r0 = y ? Vector_Spherical_Harmonics_Y(l[0], m[0], th[0], ph[0]) : Vector_Spherical_Harmonics_Psi(l[0], m[0], th[0], ph[0]);
			const auto& r1 = y ? Vector_Spherical_Harmonics_Y(l[1], m[1], th[1], ph[1]) : Vector_Spherical_Harmonics_Psi(l[1], m[1], th[1], ph[1]);
			const auto& r2 = y ? Vector_Spherical_Harmonics_Y(l[2], m[2], th[2], ph[2]) : Vector_Spherical_Harmonics_Psi(l[2], m[2], th[2], ph[2]);
			const V* all[6] = {&c0, &c1, &c2, &r0, &r1, &r2};
			for(const V* v : all)
			{
				o << v->size();
				for(auto z : *v)
					putc(o, z);
			}
			// two calls as arguments of one expression
			std::complex<double> h_copy = herm(c0, c1);
			std::complex<double> h_expr = y ? herm(Vector_Spherical_Harmonics_Y(l[0], m[0], th[0], ph[0]), Vector_Spherical_Harmonics_Y(l[1], m[1], th[1], ph[1]))
											: herm(Vector_Spherical_Harmonics_Psi(l[0], m[0], th[0], ph[0]), Vector_Spherical_Harmonics_Psi(l[1], m[1], th[1], ph[1]));
			putc(o, h_copy);
			putc(o, h_expr);
		});
	}
	if(op == "c17.vshsum")
	{
		a.i64();
		a.i64();
		a.end();
		return "ok -";
	}
	if(op == "c17.sph")
	{
		int l = a.i64(), m = a.i64();
		double th = a.dbl(), ph = a.dbl();
		a.end();
		return run([&](Out& o) {
			putc(o, Spherical_Harmonics(l, m, th, ph));
			putc(o, Spherical_Harmonics(l, -m, th, ph));
		});
	}
	if(op == "c17.vshY" || op == "c17.vshPsi")
	{
		int l = a.i64(), m = a.i64();
		double th = a.dbl(), ph = a.dbl();
		a.end();
		bool y = op == "c17.vshY";
		return run([&](Out& o) {
			auto v = y ? Vector_Spherical_Harmonics_Y(l, m, th, ph) : Vector_Spherical_Harmonics_Psi(l, m, th, ph);
			o << v.size();
			for(auto z : v)
				putc(o, z);
			putc(o, Spherical_Harmonics(l, m, th, ph));
		});
	}
	throw BadOp();
}
}	// namespace hz
