#!/usr/bin/env python3
"""Anchored-constants translator tie (DESIGN.md §4.5) for C03, C01 (shared Lp.Interp), C11 and C14.

The numeric literals of /repo's sources that the Lean models (and therefore the theorems) depend
on are *read from the current source text on every run* and written to

    lean/LpModel/C03/Constants.lean   namespace Lp.C03.K     (src/Integration.cpp)
    lean/LpModel/C01/Constants.lean   namespace Lp.C01.K     (src/Numerics.cpp §1; imported by LpModel/Interp.lean)
    lean/LpModel/C11/Constants.lean   namespace Lp.C11.K     (src/Numerics.cpp §3)
    lean/LpModel/C06/Constants.lean   namespace Lp.C06.K     (src/Special_Functions.cpp §2.1)
    lean/LpModel/C14/Constants.lean   namespace Lp.C14.K     (src/Integration.cpp: Miser, Integrate_MC_Miser, Integrate_MC_Vegas)

as one `abbrev name : Rat|Nat|Int := value` per constant (abbrev = reducible, so `ring`, `norm_num`,
`simp`, `decide` see through it).  The models refer to these names instead of carrying literals: a
changed `15` makes `simpson_quintic_exact` fail to compile — a broken proof obligation.

Each constant has an *anchor*: a scope (the function it lives in: text between a start pattern and an
end pattern) and a template of the statement around the literal.  Templates are matched token-wise
(white space is irrelevant, so re-formatting is harmless); `@` is the captured literal, `#` any other
literal.  Conversion of the literal to an exact value:

    dec   decimal floating literal, exactly as written  (0.5 -> 1/2, 1e-2 -> 1/100, 1.618034 -> 809017/500000)
    declist  comma-separated initialiser list of decimal literals -> `List Rat`, element-wise as `dec`
    nat   non-negative integer literal (a floating literal with integral value is accepted: 100.0 -> 100)
    eps   `std::numeric_limits<double>::epsilon()` -> 1/2^52, or a decimal literal

If an anchor is not found (or matches at several places with different values) the committed default
is used and the constant is listed under `anchor_missing` in the returned notes: a harmless refactor
must not raise an alarm by itself — the correspondence run still decides.  A literal that is found but
cannot be converted (e.g. a non-integral recursion step) raises TranslateError *after* the files have
been written with the default for it: check.py records that as a correspondence failure.

The generated text depends only on the source text (relative path, statement), never on the location of
the repository or on line numbers, and a file is rewritten only when its text changes.

Usage: constants.py [repo] [lean-dir]      (defaults: $LP_REPO or /repo, <verif>/lean)
"""
import os, re, sys
from fractions import Fraction


class TranslateError(Exception):
    pass


LIT = r"[-+]?(?:\d+\.\d*|\.\d+|\d+)(?:[eE][-+]?\d+)?"
EPS_OR_LIT = r"std\s*::\s*numeric_limits\s*<\s*double\s*>\s*::\s*epsilon\s*\(\s*\)|" + LIT

LIT_LIST = LIT + r"(?:\s*,\s*" + LIT + r")*"

_TOK = re.compile(r"\s*([A-Za-z_]\w*|\d+\.\d*(?:[eE][-+]?\d+)?|\.\d+|\d+|::|<=|>=|==|!=|&&|\|\||--|\+\+|.)", re.S)


def template_regex(tpl, cap=LIT):
    """token-wise, white-space-insensitive regular expression of a statement template"""
    toks = [m.group(1) for m in _TOK.finditer(tpl) if m.group(1).strip()]
    out, prev_word = [], False
    for t in toks:
        if t == "@":
            piece, word = "(" + cap + r")(?![\w.])", False
        elif t == "#":
            piece, word = "(?:" + LIT + r")(?![\w.])", False
        else:
            piece, word = re.escape(t), bool(re.match(r"\w", t))
            if word:
                piece = r"(?<!\w)" + piece + r"(?!\w)"
        out.append((r"\s+" if (prev_word and word) else r"\s*") + piece if out else piece)
        prev_word = word
    return "".join(out)


def strip_comments(s):
    """comments blanked, line structure kept"""
    s = re.sub(r"/\*.*?\*/", lambda m: re.sub(r"[^\n]", " ", m.group(0)), s, flags=re.S)
    return re.sub(r"//[^\n]*", lambda m: " " * len(m.group(0)), s)


# ------------------------------------------------------------------------------------------------
# specification
# ------------------------------------------------------------------------------------------------

def C(name, scope, tpl, kind, default, doc, cap=None):
    return dict(name=name, scope=scope, tpl=tpl, kind=kind, default=default, doc=doc, cap=cap)


SCOPES = {
    # name: (file, start template, end regex searched after the start)
    "adaptive": ("src/Integration.cpp", "double Adaptive_Simpson_Integration(std::function<double(double)> func, double a, double b, double epsilon, double S", r"^\}"),
    "integrate": ("src/Integration.cpp", "double Integrate(std::function<double(double)> func, double a, double b, double epsilon, int maxRecursionDepth)", r"^\}"),
    "factorial": ("src/Special_Functions.cpp", "double Factorial(unsigned int n)", r"^\}"),
    "gammaln": ("src/Special_Functions.cpp", "double GammaLn(double x)", r"^\}"),
    "gammaqint": ("src/Special_Functions.cpp", "double GammaQint(double x, double a)", r"^\}"),
    "gammapser": ("src/Special_Functions.cpp", "double GammaPser(double x, double a)", r"^\}"),
    "gammaqcf": ("src/Special_Functions.cpp", "double GammaQcf(double x, double a)", r"^\}"),
    "gammaq": ("src/Special_Functions.cpp", "double GammaQ(double x, double a)", r"^\}"),
    "invgammap": ("src/Special_Functions.cpp", "double Inv_GammaP(double p, double a)", r"^\}"),
    "steffen": ("src/Numerics.cpp", "void Interpolation::Compute_Steffen_Coefficients()", r"^\}"),
    "steffen_first": ("src/Numerics.cpp", "void Interpolation::Compute_Steffen_Coefficients()", r"else\s+if\s*\(\s*i\s*==\s*N\s*-\s*1\s*\)"),
    "steffen_last": ("src/Numerics.cpp", "else if(i == N - 1)", r"\belse\b"),
    "locate": ("src/Numerics.cpp", "unsigned int Interpolation::Locate(double x)", r"^\}"),
    "bracket": ("src/Numerics.cpp", "void Bracket(const double a, const double b, T& func)", r"^\};"),
    "brent": ("src/Numerics.cpp", "double Minimize(T& func)", r"^\};"),
    "neldermead": ("src/Numerics.cpp", "std::vector<double> Minimization::minimize(std::vector<std::vector<double>>& pp, std::function<double(std::vector<double>)> func)", r"^\}"),
    "miser": ("src/Integration.cpp", "void Miser(std::function<double(std::vector<double>&, const double)> func, std::vector<double>& region, const int npts,", r"^\}"),
    "vegas": ("src/Integration.cpp", "double Integrate_MC_Vegas(std::function<double(std::vector<double>&, const double)> func, std::vector<double>& region, const int init, const int ncall, const int itmx, const int nprn)", r"^\}"),
    "miser_top": ("src/Integration.cpp", "double Integrate_MC_Miser(std::function<double(std::vector<double>&, const double)> func, std::vector<double>& region, const int ncall)", r"^\}"),
}

SPEC = {
    "C03": dict(namespace="Lp.C03.K", out="LpModel/C03/Constants.lean", consts=[
        C("sLeftDiv", "adaptive", "double Sleft = (h / @) * (fa +", "dec", "12", "divisor of the left half-panel Simpson rule"),
        C("sLeftMidW", "adaptive", "double Sleft = (h / #) * (fa + @ * fd + fc);", "dec", "4", "mid-point weight of the left half-panel rule"),
        C("sRightDiv", "adaptive", "double Sright = (h / @) * (fc +", "dec", "12", "divisor of the right half-panel Simpson rule"),
        C("sRightMidW", "adaptive", "double Sright = (h / #) * (fc + @ * fe + fb);", "dec", "4", "mid-point weight of the right half-panel rule"),
        C("accFactor", "adaptive", "if(bottom <= 0 || fabs(S2 - S) <= @ * epsilon)", "dec", "15", "acceptance test |S2-S| <= 15 eps"),
        C("warnFactor", "adaptive", "if(bottom <= 0 && fabs(S2 - S) > @ * epsilon)", "dec", "15", "the same test where the warning is raised"),
        C("richardson", "adaptive", "return S2 + (S2 - S) / @;", "dec", "15", "Richardson correction (Boole's rule)"),
        C("epsDivL", "adaptive", "return Adaptive_Simpson_Integration(func, a, c, epsilon / @, Sleft", "dec", "2", "tolerance handed to the left half"),
        C("epsDivR", "adaptive", "+ Adaptive_Simpson_Integration(func, c, b, epsilon / @, Sright", "dec", "2", "tolerance handed to the right half"),
        C("depthStepL", "adaptive", "Sleft, fa, fc, fd, bottom - @, warning)", "nat", "1", "recursion depth consumed by the left call"),
        C("depthStepR", "adaptive", "Sright, fc, fb, fe, bottom - @, warning)", "nat", "1", "recursion depth consumed by the right call"),
        C("coarseDiv", "integrate", "double S = (h / @) * (fa +", "dec", "6", "divisor of the coarse Simpson rule"),
        C("coarseMidW", "integrate", "double S = (h / #) * (fa + @ * fc + fb);", "dec", "4", "mid-point weight of the coarse Simpson rule"),
    ]),
    "C06": dict(namespace="Lp.C06.K", out="LpModel/C06/Constants.lean", consts=[
        # Factorial
        C("factMax", "factorial", "if(n > @)", "nat", "170", "largest argument of Factorial (170! is the last finite double factorial)"),
        # GammaLn (Lanczos)
        C("cof", "gammaln", "double cof[#] = {@};", "declist", "57.1562356658629235, -59.5979603554754912, 14.1360979747417471, -0.491913816097620199, .339946499848118887e-4, .465236289270485756e-4, -.983744753048795646e-4, .158088703224912494e-3, -.210264441724104883e-3, .217439618115212643e-3, -.164318106536763890e-3, .844182239838527433e-4, -.261908384015814087e-4, .368991826595316234e-5", "the Lanczos coefficients cof[] (decimal literals, exactly)", LIT_LIST),
        C("lanczosTerms", "gammaln", "for(int j = 0; j < @; j++)", "nat", "14", "number of terms of the Lanczos sum"),
        C("lanczos0", "gammaln", "double sum = @;", "dec", "0.999999999999997092", "start value of the Lanczos sum"),
        C("tmpNum", "gammaln", "double tmp = x + @ / #;", "dec", "671.0", "tmp = x + 671/128: numerator"),
        C("tmpDen", "gammaln", "double tmp = x + # / @;", "dec", "128.0", "tmp = x + 671/128: denominator"),
        C("lnHalf", "gammaln", "tmp = (x + @) * log(tmp) - tmp;", "dec", "0.5", "(x + 1/2) log(tmp) - tmp"),
        C("sqrt2pi", "gammaln", "log(@ * sum)", "dec", "2.5066282746310005", "sqrt(2 pi) as written"),
        # GammaQint
        C("qintN", "gammaqint", "double N = @;", "dec", "13", "half width of the quadrature window in units of sqrt(a)"),
        C("qintPeak", "gammaqint", "double tPeak = a - @;", "dec", "1.0", "peak of the integrand at a - 1"),
        # GammaPser / GammaQcf
        C("pserEps", "gammapser", "double eps = @;", "eps", "std::numeric_limits<double>::epsilon()", "termination threshold of the series", EPS_OR_LIT),
        C("qcfEps", "gammaqcf", "double eps = @;", "eps", "std::numeric_limits<double>::epsilon()", "termination threshold of the continued fraction", EPS_OR_LIT),
        # GammaQ
        C("aMax", "gammaq", "double aMax = @;", "dec", "100.0", "a > aMax: quadrature branch"),
        C("seriesSwitch", "gammaq", "else if(x < a + @)", "dec", "1.0", "x < a + 1: series, else continued fraction"),
        # Inv_GammaP
        C("invTopFloor", "invgammap", "return std::max(@, a + # * sqrt(a));", "dec", "100.0", "p >= 1: max(100, a + 100 sqrt(a))"),
        C("invTopWidth", "invgammap", "return std::max(#, a + @ * sqrt(a));", "dec", "100.", "p >= 1: max(100, a + 100 sqrt(a))"),
        C("invG1a", "invgammap", "x = (@ + t * #) / (# + t * (# + t * #)) - t;", "dec", "2.30753", "initial guess 1 (A&S 26.2.22)"),
        C("invG1b", "invgammap", "x = (# + t * @) / (# + t * (# + t * #)) - t;", "dec", "0.27061", "initial guess 1"),
        C("invG1c", "invgammap", "x = (# + t * #) / (# + t * (@ + t * #)) - t;", "dec", "0.99229", "initial guess 1"),
        C("invG1d", "invgammap", "x = (# + t * #) / (# + t * (# + t * @)) - t;", "dec", "0.04481", "initial guess 1"),
        C("invG1floor", "invgammap", "x = std::max(@, a * pow(", "dec", "1.0e-3", "floor of initial guess 1"),
        C("invG1nine", "invgammap", "a * pow(# - # / (@ * a) - x / (# * sqrt(a)), #)", "dec", "9.", "Wilson-Hilferty: 1 - 1/(9a)"),
        C("invG1three", "invgammap", "a * pow(# - # / (# * a) - x / (@ * sqrt(a)), #)", "dec", "3.", "Wilson-Hilferty: x/(3 sqrt a)"),
        C("invG1cube", "invgammap", "a * pow(# - # / (# * a) - x / (# * sqrt(a)), @)", "dec", "3.0", "Wilson-Hilferty: cube"),
        C("invG2a", "invgammap", "double t = # - a * (@ + a * #);", "dec", "0.253", "initial guess 2"),
        C("invG2b", "invgammap", "double t = # - a * (# + a * @);", "dec", "0.12", "initial guess 2"),
        C("invEps", "invgammap", "double EPS = @;", "dec", "1.0e-8", "EPS of Halley's iteration"),
        C("invIter", "invgammap", "for(int i = 0; i < @; i++)", "nat", "12", "largest number of Halley passes"),
        C("halleyHalf", "invgammap", "u / (# - @ * std::min(#, u *", "dec", "0.5", "Halley correction factor"),
        C("halleyCap", "invgammap", "u / (# - # * std::min(@, u *", "dec", "1.", "cap of the Halley correction"),
        C("halleyBack", "invgammap", "x = @ * (x + t);", "dec", "0.5", "x <= 0: halve the old x"),
    ]),
    "C01": dict(namespace="Lp.C01.K", out="LpModel/C01/Constants.lean", consts=[
        # slope limiter, interior points:  min(1.0*|p|/2.0, min(1.0*|s_i|, 1.0*|s_{i-1}|))
        C("limIntP", "steffen", "std::min(@ * fabs(p[i]) / #, std::min(", "dec", "1", "interior limiter: factor of |p_i|"),
        C("limIntPDiv", "steffen", "std::min(# * fabs(p[i]) / @, std::min(", "dec", "2", "interior limiter: divisor of |p_i|"),
        C("limIntS", "steffen", "std::min(@ * fabs(s[i]), # * fabs(s[i - 1])));", "dec", "1", "interior limiter: factor of |s_i|"),
        C("limIntSm", "steffen", "std::min(# * fabs(s[i]), @ * fabs(s[i - 1])));", "dec", "1", "interior limiter: factor of |s_{i-1}|"),
        # slope limiter, first and last point:  min(1.0*|s|, 0.5*|p|)   (the model has ONE dyEdge for both ends)
        C("limEdgeS", "steffen_first", "std::min(@ * fabs(s[i]), # * fabs(p[i]));", "dec", "1", "first point: factor of |s_0|"),
        C("limEdgeP", "steffen_first", "std::min(# * fabs(s[i]), @ * fabs(p[i]));", "dec", "0.5", "first point: factor of |p_0|"),
        C("limLastS", "steffen_last", "std::min(@ * fabs(s[i - 1]), # * fabs(p[i]));", "dec", "1", "last point: factor of |s_{N-2}|"),
        C("limLastP", "steffen_last", "std::min(# * fabs(s[i - 1]), @ * fabs(p[i]));", "dec", "0.5", "last point: factor of |p_{N-1}|"),
        C("pEdgeOne", "steffen_first", "p[i] = s[i] * (@ + h[i] / (h[i] + h[i + 1]))", "dec", "1", "first point: 1 + h0/(h0+h1)"),
        C("pLastOne", "steffen_last", "p[i] = s[i - 1] * (@ + h[i - 1] / (h[i - 1] + h[i - 2]))", "dec", "1", "last point: 1 + h/(h+h')"),
        # cubic coefficients
        C("aTwo", "steffen", "a.push_back((dy[i] + dy[i + 1] - @ * s[i]) / pow(h[i], #));", "dec", "2", "a_i = (dy_i + dy_{i+1} - 2 s_i)/h_i^2"),
        C("aPow", "steffen", "a.push_back((dy[i] + dy[i + 1] - # * s[i]) / pow(h[i], @));", "nat", "2", "exponent of h_i in a_i"),
        C("bThree", "steffen", "b.push_back((@ * s[i] - # * dy[i] - dy[i + 1]) / h[i]);", "dec", "3", "b_i = (3 s_i - 2 dy_i - dy_{i+1})/h_i"),
        C("bTwo", "steffen", "b.push_back((# * s[i] - @ * dy[i] - dy[i + 1]) / h[i]);", "dec", "2", "b_i = (3 s_i - 2 dy_i - dy_{i+1})/h_i"),
        # Locate: extrapolation tolerance at the two edges
        C("edgeTolL", "locate", "double boundary_tolerance_left = @ * (x_values[1] - x_values[0]);", "dec", "1e-2", "left edge tolerance (decimal literal, exactly)"),
        C("edgeTolR", "locate", "double boundary_tolerance_right = @ * (x_values[N - 1] - x_values[N - 2]);", "dec", "1e-2", "right edge tolerance"),
    ]),
    "C11": dict(namespace="Lp.C11.K", out="LpModel/C11/Constants.lean", consts=[
        C("gold", "bracket", "const double golden_ratio = @;", "dec", "1.618034", "golden_ratio"),
        C("glimit", "bracket", "double GLIMIT = @;", "dec", "100.0", "GLIMIT"),
        C("tinyBracket", "bracket", "double TINY = @;", "dec", "1.0e-20", "TINY of Bracket"),
        C("itmax", "brent", "const int ITMAX = @;", "nat", "20000", "ITMAX of Brent::Minimize"),
        C("cgold", "brent", "const double CGOLD = @;", "dec", "0.3819660", "CGOLD"),
        C("zeps", "brent", "const double ZEPS = @;", "eps", "std::numeric_limits<double>::epsilon()", "ZEPS", EPS_OR_LIT),
        C("nmax", "neldermead", "const int NMAX = @;", "nat", "5000", "NMAX of Minimization::minimize"),
        C("tinyNM", "neldermead", "const double TINY = @;", "dec", "1.0e-10", "TINY of Minimization::minimize"),
        C("nmReflect", "neldermead", "double ytry = amotry(current_simplex, y, psum, ihi, @, func);", "dec", "-1.0", "reflection factor"),
        C("nmExpand", "neldermead", "if(ytry <= y[ilo]) ytry = amotry(current_simplex, y, psum, ihi, @, func);", "dec", "2.0", "expansion factor"),
        C("nmContract", "neldermead", "double ysave = y[ihi]; ytry = amotry(current_simplex, y, psum, ihi, @, func);", "dec", "0.5", "contraction factor"),
        C("nmShrink", "neldermead", "current_simplex[i][j] = psum[j] = @ * (current_simplex[i][j] + current_simplex[ilo][j]);", "dec", "0.5", "shrink factor"),
        C("nmRtolTwo", "neldermead", "double rtol = @ * fabs(y[ihi] - y[ilo]) / (fabs(y[ihi]) + fabs(y[ilo]) + TINY);", "dec", "2.0", "factor of the fractional range"),
    ]),
    "C14": dict(namespace="Lp.C14.K", out="LpModel/C14/Constants.lean", consts=[
        C("mnpt", "miser", "const int MNPT = @, MNBS = #;", "int", "15", "MNPT of Miser: smallest number of points handed to a half"),
        C("mnbs", "miser", "const int MNPT = #, MNBS = @;", "int", "60", "MNBS of Miser: below this budget a call is a leaf (plain sampling)"),
        C("pfac", "miser", "const double PFAC = @, TINY = #, BIG = #;", "dec", "0.1", "PFAC of Miser: fraction of the budget spent on pre-sampling"),
        C("tinyMiser", "miser", "const double PFAC = #, TINY = @, BIG = #;", "dec", "1.0e-30", "TINY of Miser (floor of the spreads; the model omits the floor, theorem miser_floors_out_of_range)"),
        C("bigMiser", "miser", "const double PFAC = #, TINY = #, BIG = @;", "dec", "1.0e30", "BIG of Miser (start value of the min/max search; omitted by the model, theorem miser_floors_out_of_range)"),
        C("mnptTwice", "miser", "nptl = int(MNPT + (npts - npre - @ * MNPT) * fracl * siglb", "int", "2", "points reserved for the two halves: 2*MNPT"),
        C("ndmx", "vegas", "static const int NDMX = @, MXDIM = #;", "nat", "50", "NDMX of Vegas: allocated grid bins per axis"),
        C("mxdim", "vegas", "static const int NDMX = #, MXDIM = @;", "nat", "10", "MXDIM of Vegas: allocated number of axes"),
        C("dith", "miser_top", "double dith = @;", "dec", "0.0", "dither of Integrate_MC_Miser (the model's rmid assumes 0, theorem miser_dith_zero)"),
    ]),
}


# ------------------------------------------------------------------------------------------------
# extraction
# ------------------------------------------------------------------------------------------------

def convert(kind, text):
    """literal text -> (lean type, Fraction)"""
    t = re.sub(r"\s+", "", text)
    if kind == "declist":
        try:
            return "List Rat", tuple(Fraction(e) for e in t.split(","))
        except (ValueError, ZeroDivisionError):
            raise TranslateError("initialiser list %r is not a list of decimal numbers" % text)
    if kind == "eps" and t.startswith("std"):
        return "Rat", Fraction(1, 2 ** 52)
    try:
        v = Fraction(t)
    except (ValueError, ZeroDivisionError):
        raise TranslateError("literal %r is not a decimal number" % text)
    if kind in ("dec", "eps"):
        return "Rat", v
    if kind == "nat":
        if v.denominator != 1 or v < 0:
            raise TranslateError("literal %r is not a non-negative integer" % text)
        return "Nat", v
    if kind == "int":
        if v.denominator != 1:
            raise TranslateError("literal %r is not an integer" % text)
        return "Int", v
    raise TranslateError("unknown conversion " + kind)


def lean_value(ty, v):
    if isinstance(v, tuple):
        return "[" + ", ".join(lean_value("Rat", e) for e in v) + "]"
    if v.denominator == 1:
        return str(v.numerator) if v >= 0 else "-%d" % -v.numerator
    return "%s%d / %d" % ("-" if v < 0 else "", abs(v.numerator), v.denominator)


def scope_text(cache, repo, scope):
    """(relative file, stripped text, original lines, start offset, end offset) or None when the scope anchor is gone"""
    rel, start_tpl, end_re = SCOPES[scope]
    if rel not in cache:
        p = os.path.join(repo, rel)
        raw = open(p, encoding="utf-8", errors="replace").read() if os.path.exists(p) else None
        cache[rel] = (raw, strip_comments(raw) if raw is not None else None)
    raw, txt = cache[rel]
    if txt is None:
        return None
    ms = list(re.finditer(template_regex(start_tpl), txt))
    if len(ms) != 1:
        return None
    m2 = re.compile(end_re, re.M).search(txt, ms[0].end())
    return rel, raw, txt, ms[0].start(), (m2.end() if m2 else len(txt))


def extract(prop, repo):
    """-> list of dicts (name, type, value: Fraction, status, rel, line, stmt)"""
    cache, out = {}, []
    for c in SPEC[prop]["consts"]:
        dty, dval = convert(c["kind"], c["default"])
        r = dict(name=c["name"], ty=dty, value=dval, status="anchor_missing", rel=SCOPES[c["scope"]][0], line=None,
                 stmt=None, doc=c["doc"], default=dval, error=None)
        sc = scope_text(cache, repo, c["scope"])
        if sc is not None:
            rel, raw, txt, lo, hi = sc
            ms = list(re.finditer(template_regex(c["tpl"], c["cap"] or LIT), txt[lo:hi]))
            vals = {re.sub(r"\s+", "", m.group(1)) for m in ms}
            if ms and len(vals) == 1:
                m = ms[0]
                pos = lo + m.start(1)
                r["line"] = txt.count("\n", 0, pos) + 1
                r["stmt"] = " ".join(txt.split("\n")[r["line"] - 1].split())   # comments stripped
                try:
                    r["ty"], r["value"] = convert(c["kind"], m.group(1))
                    r["status"] = "read"
                except TranslateError as e:
                    r["status"], r["error"] = "unconvertible", "%s:%d: %s" % (rel, r["line"], e)
            elif ms:
                r["status"] = "anchor_ambiguous"
        out.append(r)
    return out


def render(prop, consts):
    sp = SPEC[prop]
    files = sorted({c["rel"] for c in consts})
    L = ["/-",
         "  GENERATED by translators/constants.py from %s of the repository — do not edit." % ", ".join(files),
         "  Regenerated from the current source text before every `lake build` of a check (DESIGN.md §4.5).",
         "  Core-only.  One reducible constant per numeric literal the model of %s takes from the source." % prop,
         "-/",
         "namespace " + sp["namespace"],
         ""]
    for c in consts:
        if c["status"] == "read":
            src = "%s: `%s`" % (c["rel"], c["stmt"].replace("-/", "- /"))
        else:
            src = "%s: anchor not found in the current source — committed default" % c["rel"]
        L.append("/-- %s.  %s -/" % (c["doc"], src))
        L.append("abbrev %s : %s := %s" % (c["name"], c["ty"], lean_value(c["ty"], c["value"])))
        L.append("")
    L.append("end " + sp["namespace"])
    return "\n".join(L) + "\n"


def write_if_changed(path, text):
    old = open(path).read() if os.path.exists(path) else None
    if old == text:
        return False
    os.makedirs(os.path.dirname(path), exist_ok=True)
    tmp = path + ".tmp%d" % os.getpid()
    with open(tmp, "w") as f:
        f.write(text)
    os.replace(tmp, path)
    return True


def regenerate(prop, repo, lean):
    """Regenerate the constants file of one property from `repo`.  Returns the notes for the evidence.
    Call it with check.py's lake lock held (pre_build does)."""
    consts = extract(prop, repo)
    out = os.path.join(lean, SPEC[prop]["out"])
    changed = write_if_changed(out, render(prop, consts))
    notes = dict(generated=os.path.relpath(out, lean), generated_rewritten=changed,
                 constants={c["name"]: lean_value(c["ty"], c["value"]) for c in consts},
                 source_lines={c["name"]: "%s:%s" % (c["rel"], c["line"]) for c in consts if c["line"]},
                 changed_from_default={c["name"]: "%s (default %s)" % (lean_value(c["ty"], c["value"]), lean_value(c["ty"], c["default"]))
                                       for c in consts if c["value"] != c["default"]},
                 anchor_missing=[c["name"] for c in consts if c["status"] in ("anchor_missing", "anchor_ambiguous")])
    bad = [c["error"] for c in consts if c["status"] == "unconvertible"]
    if bad:
        raise TranslateError("literal found but not representable in the model (default written): " + "; ".join(bad))
    return notes


def regenerate_all(repo, lean, props=None):
    """all constants files (they are shared through LpModel/Interp.lean: every check that builds Lean
    code should see the files that belong to the repository *it* checks)"""
    notes, errs = {}, []
    for p in (props or sorted(SPEC)):
        try:
            notes[p] = regenerate(p, repo, lean)
        except TranslateError as e:
            errs.append(str(e))
    if errs:
        raise TranslateError("; ".join(errs))
    return notes


def main():
    here = os.path.dirname(os.path.abspath(__file__))
    repo = sys.argv[1] if len(sys.argv) > 1 else os.environ.get("LP_REPO", "/repo")
    lean = sys.argv[2] if len(sys.argv) > 2 else os.path.join(here, "..", "lean")
    import json
    print(json.dumps(regenerate_all(repo, os.path.abspath(lean)), indent=1))


if __name__ == "__main__":
    main()
