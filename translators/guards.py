#!/usr/bin/env python3
"""C10 [T2] — extract the integer-comparison guard conditions of the guarded entry points from the
text of /repo and compare them with the table the Lean model (lean/LpModel/C10.lean) was written from.

  python3 translators/guards.py [repo]      prints one line per entry point: same | changed | missing

The result is informational (evidence `notes.pre_build`): a changed text is not by itself a violation —
a harmless re-spelling (`dimension <= i`) changes the text and keeps the behaviour; the correspondence run
of the check decides.  A changed or missing anchor tells the reader which model guard to re-read.
"""
import os, re, sys

# (entry point, file, regex anchoring the function definition, index of the `if(` after the anchor, expected condition)
TABLE = [
    ("Vector::operator[]",        "src/Linear_Algebra.cpp", r"^double& Vector::operator\[\]\(const unsigned int i\)", 0, "i < 0 || i >= dimension"),
    ("Vector::operator[] const",  "src/Linear_Algebra.cpp", r"^const double& Vector::operator\[\]\(const unsigned int i\) const", 0, "i < 0 || i >= dimension"),
    ("Vector::Dot",               "src/Linear_Algebra.cpp", r"^double Vector::Dot\(const Vector& rhs\) const", 0, "dimension != rhs.Size()"),
    ("Vector::Cross",             "src/Linear_Algebra.cpp", r"^Vector Vector::Cross\(const Vector& rhs\) const", 0, "dimension != 3 || rhs.Size() != 3"),
    ("Vector::operator+",         "src/Linear_Algebra.cpp", r"^Vector Vector::operator\+\(Vector v\) const", 0, "dimension != v.dimension"),
    ("Vector::operator-",         "src/Linear_Algebra.cpp", r"^Vector Vector::operator-\(Vector v\) const", 0, "dimension != v.dimension"),
    ("Vector::operator+=",        "src/Linear_Algebra.cpp", r"^Vector& Vector::operator\+=\(const Vector& v\)", 0, "dimension != v.dimension"),
    ("Vector::operator-=",        "src/Linear_Algebra.cpp", r"^Vector& Vector::operator-=\(const Vector& v\)", 0, "dimension != v.dimension"),
    ("Matrix(entries)",           "src/Linear_Algebra.cpp", r"^Matrix::Matrix\(std::vector<std::vector<double>> entries\)", 0, "entries[i].size() != columns"),
    ("Matrix::Delete_Row",        "src/Linear_Algebra.cpp", r"^void Matrix::Delete_Row\(unsigned int row\)", 0, "row < 0 || row >= rows"),
    ("Matrix::Delete_Column",     "src/Linear_Algebra.cpp", r"^void Matrix::Delete_Column\(unsigned int column\)", 0, "column < 0 || column >= columns"),
    ("Matrix::Return_Row",        "src/Linear_Algebra.cpp", r"^Vector Matrix::Return_Row\(unsigned int row\) const", 0, "row < 0 || row >= rows"),
    ("Matrix::Return_Column",     "src/Linear_Algebra.cpp", r"^Vector Matrix::Return_Column\(unsigned int column\) const", 0, "column < 0 || column >= columns"),
    ("Matrix::Plus",              "src/Linear_Algebra.cpp", r"^Matrix Matrix::Plus\(const Matrix& M\) const", 0, "rows != M.Rows() || columns != M.Columns()"),
    ("Matrix::Minus",             "src/Linear_Algebra.cpp", r"^Matrix Matrix::Minus\(const Matrix& M\) const", 0, "rows != M.Rows() || columns != M.Columns()"),
    ("Matrix::operator+=",        "src/Linear_Algebra.cpp", r"^Matrix& Matrix::operator\+=\(const Matrix& M\)", 0, "rows != M.Rows() || columns != M.Columns()"),
    ("Matrix::operator-=",        "src/Linear_Algebra.cpp", r"^Matrix& Matrix::operator-=\(const Matrix& M\)", 0, "rows != M.Rows() || columns != M.Columns()"),
    ("Matrix::Product(Matrix)",   "src/Linear_Algebra.cpp", r"^Matrix Matrix::Product\(const Matrix& M\) const", 0, "columns != M.Rows()"),
    ("Matrix::Product(Vector)",   "src/Linear_Algebra.cpp", r"^Vector Matrix::Product\(const Vector& v_rhs\) const", 0, "v_rhs.Size() != columns"),
    ("Vector*Matrix",             "src/Linear_Algebra.cpp", r"^Vector operator\*\(const Vector& v_left, const Matrix& M\)", 0, "v_left.Size() != M.Rows()"),
    ("Matrix::Trace",             "src/Linear_Algebra.cpp", r"^double Matrix::Trace\(\) const", 0, "rows != columns"),
    ("Matrix::Determinant",       "src/Linear_Algebra.cpp", r"^double Matrix::Determinant\(\) const", 0, "!Square()"),
    ("Matrix::Inverse",           "src/Linear_Algebra.cpp", r"^Matrix Matrix::Inverse\(\) const", 0, "!Square()"),
    ("Matrix::operator[]",        "src/Linear_Algebra.cpp", r"^std::vector<double>& Matrix::operator\[\]\(const unsigned int i\)", 0, "i < 0 || i >= rows"),
    ("Matrix::operator[] const",  "src/Linear_Algebra.cpp", r"^const std::vector<double>& Matrix::operator\[\]\(const unsigned int i\) const", 0, "i < 0 || i >= rows"),
    ("Rotation_Matrix axis",      "src/Linear_Algebra.cpp", r"^Matrix Rotation_Matrix\(double alpha, int dim, Vector axis\)", 2, "axis.Size() != 3"),
    ("Interpolation() lengths",   "src/Numerics.cpp",       r"^Interpolation::Interpolation\(const std::vector<double>& arg_values", 0, "x_values.size() != function_values.size()"),
    ("Interpolation() N<3",       "src/Numerics.cpp",       r"^Interpolation::Interpolation\(const std::vector<double>& arg_values", 1, "N < 3"),
    ("Interpolation() order",     "src/Numerics.cpp",       r"^Interpolation::Interpolation\(const std::vector<double>& arg_values", 2, "x_values[i] <= x_values[i - 1]"),
    ("Interpolation(table) row",  "src/Numerics.cpp",       r"^Interpolation::Interpolation\(const std::vector<std::vector<double>>& data", 0, "data[i].size() != 2"),
    ("Interpolation::Locate",     "src/Numerics.cpp",       r"^unsigned int Interpolation::Locate\(double x\)", 0, "x < domain[0] || x > domain[1]"),
    ("Integrate_Gauss_Legendre",  "src/Integration.cpp",    r"^double Integrate_Gauss_Legendre\(std::vector<double> function_values", 0, "function_values.size() != roots_and_weights.size()"),
    ("Factorial",                 "src/Special_Functions.cpp", r"^double Factorial\(unsigned int n\)", 0, "n > 170"),
    ("Binomial_Coefficient",      "src/Special_Functions.cpp", r"^double Binomial_Coefficient\(int n, int k\)", 0, "k < 0 || n < 0"),
    ("GammaLn",                   "src/Special_Functions.cpp", r"^double GammaLn\(double x\)", 0, "x <= 0"),
    ("GammaQ",                    "src/Special_Functions.cpp", r"^double GammaQ\(double x, double a\)", 0, "x < 0.0 || a <= 0.0"),
    ("Inv_GammaP",                "src/Special_Functions.cpp", r"^double Inv_GammaP\(double p, double a\)", 0, "a <= 0.0"),
    ("PMF_Binomial",              "src/Statistics.cpp",     r"^double PMF_Binomial\(", 0, "p < 0.0 || p > 1.0"),
    ("CDF_Binomial",              "src/Statistics.cpp",     r"^double CDF_Binomial\(", 0, "p < 0.0 || p > 1.0"),
    ("Inv_CDF_Poisson",           "src/Statistics.cpp",     r"^double Inv_CDF_Poisson\(", 0, "cdf < 0.0 || cdf > 1.0"),
    ("PDF_Exponential",           "src/Statistics.cpp",     r"^double PDF_Exponential\(", 0, "mean <= 0.0"),
    ("CDF_Exponential",           "src/Statistics.cpp",     r"^double CDF_Exponential\(", 0, "mean <= 0.0"),
    ("PDF_Maxwell_Boltzmann",     "src/Statistics.cpp",     r"^double PDF_Maxwell_Boltzmann\(", 0, "a <= 0.0"),
    ("CDF_Maxwell_Boltzmann",     "src/Statistics.cpp",     r"^double CDF_Maxwell_Boltzmann\(", 0, "a <= 0.0"),
    ("Log_Likelihood_Poisson_Binned", "src/Statistics.cpp", r"^double Log_Likelihood_Poisson_Binned\(", 1, "N_observed_binned.size() != N_bins || expected_background_binned.size() != N_bins"),
]
CONSTANTS = [
    ("Locate tolerance left",  "src/Numerics.cpp", r"boundary_tolerance_left\s*=\s*([0-9.eE+-]+)\s*\*", "1e-2"),
    ("Locate tolerance right", "src/Numerics.cpp", r"boundary_tolerance_right\s*=\s*([0-9.eE+-]+)\s*\*", "1e-2"),
    ("Round digits_max",       "src/Special_Functions.cpp", r"unsigned int digits_max\s*=\s*([0-9]+);", "7"),
]


def _norm(s):
    return re.sub(r"\s+", " ", s).strip()


def _ifs_after(text, start):
    """conditions of the successive `if(`s after position start (balanced parentheses), up to the next top-level `}` in column 0"""
    end = text.find("\n}\n", start)
    body = text[start:end if end > 0 else len(text)]
    out, pos = [], 0
    while True:
        m = re.search(r"\bif\s*\(", body[pos:])
        if not m:
            return out
        i = pos + m.end()
        depth, j = 1, i
        while j < len(body) and depth:
            depth += body[j] == "("
            depth -= body[j] == ")"
            j += 1
        out.append(_norm(body[i:j - 1]))
        pos = j


def extract(repo):
    res = dict(same=[], changed=[], missing=[])
    cache = {}
    for name, f, anchor, k, expected in TABLE:
        p = os.path.join(repo, f)
        if p not in cache:
            cache[p] = open(p).read() if os.path.exists(p) else ""
        m = re.search(anchor, cache[p], re.M)
        if not m:
            res["missing"].append(name); continue
        conds = _ifs_after(cache[p], m.end())
        if k >= len(conds):
            res["missing"].append(name)
        elif conds[k] == _norm(expected):
            res["same"].append(name)
        else:
            res["changed"].append("%s: `%s` (model written from `%s`)" % (name, conds[k], expected))
    for name, f, rx, expected in CONSTANTS:
        p = os.path.join(repo, f)
        if p not in cache:
            cache[p] = open(p).read() if os.path.exists(p) else ""
        m = re.search(rx, cache[p])
        if not m:
            res["missing"].append(name)
        elif m.group(1) == expected:
            res["same"].append(name)
        else:
            res["changed"].append("%s: %s (model: %s)" % (name, m.group(1), expected))
    return res


if __name__ == "__main__":
    r = extract(sys.argv[1] if len(sys.argv) > 1 else "/repo")
    print("same %d, changed %d, missing %d" % (len(r["same"]), len(r["changed"]), len(r["missing"])))
    for c in r["changed"]:
        print("changed:", c)
    for c in r["missing"]:
        print("missing:", c)
