#!/usr/bin/env python3
"""C10 translator — regenerate the guard conditions of the guarded entry points from the TEXT of the C++ sources.

  python3 translators/guards.py [repo] [out.lean]     (default: /repo, lean/LpModel/C10/GeneratedGuards.lean)

For every entry of TABLE the function definition is anchored by a regular expression, the k-th `if( … )` after the
anchor is extracted (balanced parentheses), PARSED into a small expression AST (C++ precedence: `||`, `&&`,
`== != < <= > >=`, `+ -`, `*`, unary `! -`, postfix `.m`, `(args)`, `[index]`) and emitted as a core-only Lean
definition `def gen_<Entry> (params) : Bool`.  A condition (or a part of it) that is a call of a file-local free function
whose body is a single `return <expr>;`, or a `const <scalar> name = <expr>;` local declared before the test, is
expanded ONE level (arguments substituted for the parameters; a scalar argument must have the parameter's type class).
The generated text depends only on the source text of the guards (file, anchor, condition), never on line numbers.
The operands a guard may mention (the ATOMS: `i`, `dimension`,
`rhs.Size()`, `M.Rows()`, `entries[i].size()`, `Square()`, …) and their C++ types are fixed per entry in TABLE:
`unsigned int`/`size_t` -> Nat (so `i < 0` is `false`, exactly as in the C++), `int` -> Int, `double` -> Rat (exact),
`bool` -> Bool.  Anything else in the condition (an operand not listed, an unknown operator, arithmetic on unsigned
operands, a missing anchor) is NOT guessed: the entry is reported as `cannot anchor/parse`, the last committed
definition is kept so that the Lean side still builds, and the check reports a correspondence failure.

`lean/LpProofs/C10/Generated.lean` proves, for all arguments, that every regenerated `gen_<Entry>` equals the
hand-written model's guard (`(…Guard …).stops`); the `…_guard_iff` theorems therefore speak about what the source says
NOW.  A changed comparison or connective breaks that proof obligation; an equivalent re-spelling does not.
"""
import os, re, sys
from fractions import Fraction

LA, NU, IN, SF, ST, UT, UN, LM = ("src/Linear_Algebra.cpp", "src/Numerics.cpp", "src/Integration.cpp", "src/Special_Functions.cpp",
                                  "src/Statistics.cpp", "src/Utilities.cpp", "src/Natural_Units.cpp", "include/libphysica/List_Manipulations.hpp")
N, I, Q, B, S = "Nat", "Int", "Rat", "Bool", "String"


def E(name, file, anchor, k, params, atoms, pick=None):
    """k: index of the `if(` after the anchor (None: the Check_For_Error call); with `pick` the index counts only the
    `if`s whose condition mentions that operand text (robust against early returns inserted before the guard)"""
    return dict(name=name, file=file, anchor=anchor, k=k, params=params, atoms=atoms, pick=pick)


# name (Lean identifier suffix), file, anchor, index of the `if(` after the anchor, Lean parameters (name, type) in the
# order the theorems use, atoms: normalised C++ operand text -> (Lean expression, type)
TABLE = [
    E("Vector_index", LA, r"^double& Vector::operator\[\]\(const unsigned int i\)", 0, [("i", N), ("dimension", N)], {"i": ("i", N), "dimension": ("dimension", N)}),
    E("Vector_index_const", LA, r"^const double& Vector::operator\[\]\(const unsigned int i\) const", 0, [("i", N), ("dimension", N)], {"i": ("i", N), "dimension": ("dimension", N)}),
    E("Vector_Dot", LA, r"^double Vector::Dot\(const Vector& rhs\) const", 0, [("dimension", N), ("rhs_size", N)], {"dimension": ("dimension", N), "rhs.Size()": ("rhs_size", N), "rhs.dimension": ("rhs_size", N)}),
    E("Vector_Cross", LA, r"^Vector Vector::Cross\(const Vector& rhs\) const", 0, [("dimension", N), ("rhs_size", N)], {"dimension": ("dimension", N), "rhs.Size()": ("rhs_size", N), "rhs.dimension": ("rhs_size", N)}),
    E("Vector_plus", LA, r"^Vector Vector::operator\+\(Vector v\) const", 0, [("dimension", N), ("v_dimension", N)], {"dimension": ("dimension", N), "v.dimension": ("v_dimension", N), "v.Size()": ("v_dimension", N)}),
    E("Vector_minus", LA, r"^Vector Vector::operator-\(Vector v\) const", 0, [("dimension", N), ("v_dimension", N)], {"dimension": ("dimension", N), "v.dimension": ("v_dimension", N), "v.Size()": ("v_dimension", N)}),
    E("Vector_pluseq", LA, r"^Vector& Vector::operator\+=\(const Vector& v\)", 0, [("dimension", N), ("v_dimension", N)], {"dimension": ("dimension", N), "v.dimension": ("v_dimension", N), "v.Size()": ("v_dimension", N)}),
    E("Vector_minuseq", LA, r"^Vector& Vector::operator-=\(const Vector& v\)", 0, [("dimension", N), ("v_dimension", N)], {"dimension": ("dimension", N), "v.dimension": ("v_dimension", N), "v.Size()": ("v_dimension", N)}),
    E("Matrix_entries_row", LA, r"^Matrix::Matrix\(std::vector<std::vector<double>> entries\)", 0, [("row_size", N), ("columns", N)], {"entries[i].size()": ("row_size", N), "columns": ("columns", N)}),
    E("Matrix_Delete_Row", LA, r"^void Matrix::Delete_Row\(unsigned int row\)", 0, [("row", N), ("rows", N)], {"row": ("row", N), "rows": ("rows", N)}),
    E("Matrix_Delete_Column", LA, r"^void Matrix::Delete_Column\(unsigned int column\)", 0, [("column", N), ("columns", N)], {"column": ("column", N), "columns": ("columns", N)}),
    E("Matrix_Return_Row", LA, r"^Vector Matrix::Return_Row\(unsigned int row\) const", 0, [("row", N), ("rows", N)], {"row": ("row", N), "rows": ("rows", N)}),
    E("Matrix_Return_Column", LA, r"^Vector Matrix::Return_Column\(unsigned int column\) const", 0, [("column", N), ("columns", N)], {"column": ("column", N), "columns": ("columns", N)}),
] + [
    E(nm, LA, an, 0, [("rows", N), ("columns", N), ("m_rows", N), ("m_columns", N)],
      {"rows": ("rows", N), "columns": ("columns", N), "M.Rows()": ("m_rows", N), "M.Columns()": ("m_columns", N), "M.rows": ("m_rows", N), "M.columns": ("m_columns", N)})
    for nm, an in (("Matrix_Plus", r"^Matrix Matrix::Plus\(const Matrix& M\) const"), ("Matrix_Minus", r"^Matrix Matrix::Minus\(const Matrix& M\) const"),
                   ("Matrix_pluseq", r"^Matrix& Matrix::operator\+=\(const Matrix& M\)"), ("Matrix_minuseq", r"^Matrix& Matrix::operator-=\(const Matrix& M\)"),
                   ("Matrix_Product", r"^Matrix Matrix::Product\(const Matrix& M\) const"))
] + [
    E("Matrix_Product_Vector", LA, r"^Vector Matrix::Product\(const Vector& v_rhs\) const", 0, [("rows", N), ("columns", N), ("v_size", N)], {"rows": ("rows", N), "columns": ("columns", N), "v_rhs.Size()": ("v_size", N)}),
    E("Vector_times_Matrix", LA, r"^Vector operator\*\(const Vector& v_left, const Matrix& M\)", 0, [("v_size", N), ("m_rows", N), ("m_columns", N)], {"v_left.Size()": ("v_size", N), "M.Rows()": ("m_rows", N), "M.Columns()": ("m_columns", N)}),
    E("Matrix_Trace", LA, r"^double Matrix::Trace\(\) const", 0, [("rows", N), ("columns", N)], {"rows": ("rows", N), "columns": ("columns", N), "Square()": ("decide (rows = columns)", B)}),
    E("Matrix_Determinant", LA, r"^double Matrix::Determinant\(\) const", 0, [("rows", N), ("columns", N)], {"rows": ("rows", N), "columns": ("columns", N), "Square()": ("decide (rows = columns)", B)}),
    E("Matrix_Inverse_square", LA, r"^Matrix Matrix::Inverse\(\) const", 0, [("rows", N), ("columns", N)], {"rows": ("rows", N), "columns": ("columns", N), "Square()": ("decide (rows = columns)", B)}),
    E("Matrix_Inverse_singular", LA, r"^Matrix Matrix::Inverse\(\) const", 1, [("invertible", B)], {"Invertible()": ("invertible", B)}),
    E("Matrix_index", LA, r"^std::vector<double>& Matrix::operator\[\]\(const unsigned int i\)", 0, [("i", N), ("rows", N)], {"i": ("i", N), "rows": ("rows", N)}),
    E("Matrix_index_const", LA, r"^const std::vector<double>& Matrix::operator\[\]\(const unsigned int i\) const", 0, [("i", N), ("rows", N)], {"i": ("i", N), "rows": ("rows", N)}),
    E("Rotation_dim2", LA, r"^Matrix Rotation_Matrix\(double alpha, int dim, Vector axis\)", 0, [("dim", I)], {"dim": ("dim", I)}),
    E("Rotation_dim3", LA, r"^Matrix Rotation_Matrix\(double alpha, int dim, Vector axis\)", 1, [("dim", I)], {"dim": ("dim", I)}),
    E("Rotation_axis", LA, r"^Matrix Rotation_Matrix\(double alpha, int dim, Vector axis\)", 2, [("axis_size", N)], {"axis.Size()": ("axis_size", N)}),
    E("Interpolation_lengths", NU, r"^Interpolation::Interpolation\(const std::vector<double>& arg_values", 0, [("x_size", N), ("f_size", N)],
      {"x_values.size()": ("x_size", N), "function_values.size()": ("f_size", N), "arg_values.size()": ("x_size", N), "func_values.size()": ("f_size", N)}),
    E("Interpolation_short", NU, r"^Interpolation::Interpolation\(const std::vector<double>& arg_values", 1, [("n", N)], {"N": ("n", N), "x_values.size()": ("n", N), "arg_values.size()": ("n", N)}),
    E("Interpolation_order", NU, r"^Interpolation::Interpolation\(const std::vector<double>& arg_values", 0, [("x_prev", Q), ("x_i", Q)],
      {"x_values[i]": ("x_i", Q), "x_values[i - 1]": ("x_prev", Q), "arg_values[i]": ("x_i", Q), "arg_values[i - 1]": ("x_prev", Q)}, pick="[i - 1]"),
    E("Interpolation_table_row", NU, r"^Interpolation::Interpolation\(const std::vector<std::vector<double>>& data", 0, [("row_size", N)], {"data[i].size()": ("row_size", N)}),
    E("Locate_outside", NU, r"^unsigned int Interpolation::Locate\(double x\)", 0, [("x", Q), ("d0", Q), ("d1", Q)], {"x": ("x", Q), "domain[0]": ("d0", Q), "domain[1]": ("d1", Q)}),
    E("Locate_tolerated_left", NU, r"^unsigned int Interpolation::Locate\(double x\)", 1, [("x", Q), ("d0", Q), ("tol", Q)], {"x": ("x", Q), "domain[0]": ("d0", Q), "boundary_tolerance_left": ("tol", Q)}),
    E("Locate_tolerated_right", NU, r"^unsigned int Interpolation::Locate\(double x\)", 2, [("x", Q), ("d1", Q), ("tol", Q)], {"x": ("x", Q), "domain[1]": ("d1", Q), "boundary_tolerance_right": ("tol", Q)}),
    E("Local_Minimum_order", NU, r"^double Interpolation::Local_Minimum\(double x_1, double x_2\)", None, [("x_1", Q), ("x_2", Q)], {"x_1": ("x_1", Q), "x_2": ("x_2", Q)}),
    E("Local_Maximum_order", NU, r"^double Interpolation::Local_Maximum\(double x_1, double x_2\)", None, [("x_1", Q), ("x_2", Q)], {"x_1": ("x_1", Q), "x_2": ("x_2", Q)}),
    E("Gauss_Legendre_sizes", IN, r"^double Integrate_Gauss_Legendre\(std::vector<double> function_values", 0, [("f_size", N), ("rw_size", N)],
      {"function_values.size()": ("f_size", N), "roots_and_weights.size()": ("rw_size", N)}),
    E("Gauss_Legendre_row", IN, r"^double Integrate_Gauss_Legendre\(std::vector<double> function_values", 0, [("row_size", N)],
      {"roots_and_weights[i].size()": ("row_size", N)}, pick="roots_and_weights[i].size()"),
    E("Gauss_Legendre_func_row", IN, r"^double Integrate_Gauss_Legendre\(std::function<double\(double\)> func, std::vector<std::vector<double>> roots_and_weights\)", 0, [("row_size", N)],
      {"roots_and_weights[i].size()": ("row_size", N)}, pick="roots_and_weights[i].size()"),
    E("Factorial", SF, r"^double Factorial\(unsigned int n\)", 0, [("n", N)], {"n": ("n", N)}),
    E("Binomial_Coefficient", SF, r"^double Binomial_Coefficient\(int n, int k\)", 0, [("n", I), ("k", I)], {"n": ("n", I), "k": ("k", I)}),
    E("GammaLn", SF, r"^double GammaLn\(double x\)", 0, [("x", Q)], {"x": ("x", Q)}),
    E("Gamma", SF, r"^double Gamma\(double x\)", 0, [("x", Q)], {"x": ("x", Q)}),
    E("GammaQ", SF, r"^double GammaQ\(double x, double a\)", 0, [("x", Q), ("a", Q)], {"x": ("x", Q), "a": ("a", Q)}),
    E("Inv_GammaP", SF, r"^double Inv_GammaP\(double p, double a\)", 0, [("a", Q)], {"a": ("a", Q)}),
    E("Round_digits", SF, r"^double Round\(double N, unsigned int digits\)", 0, [("digits", N)], {"digits": ("digits", N), "digits_max": ("gen_Round_digits_max", N)}),
    E("Inv_Erf_saturated", SF, r"^double Inv_Erf\(double p\)", 0, [("p", Q)], {"p": ("p", Q)}),
    E("Inv_Erf_saturated_minus", SF, r"^double Inv_Erf\(double p\)", 1, [("p", Q)], {"p": ("p", Q)}),
    E("Inv_Erf_outside", SF, r"^double Inv_Erf\(double p\)", 2, [("p", Q)], {"p": ("p", Q)}),
    E("PMF_Binomial", ST, r"^double PMF_Binomial\(", 0, [("p", Q)], {"p": ("p", Q)}),
    E("CDF_Binomial", ST, r"^double CDF_Binomial\(", 0, [("p", Q)], {"p": ("p", Q)}),
    E("PMF_Poisson", ST, r"^double PMF_Poisson\(", 0, [("mu", Q), ("events", N)], {"expected_events": ("mu", Q), "events": ("events", N)}),
    E("CDF_Poisson", ST, r"^double CDF_Poisson\(", 0, [("mu", Q), ("events", N)], {"expectation_value": ("mu", Q), "observed_events": ("events", N)}),
    E("Inv_CDF_Poisson", ST, r"^double Inv_CDF_Poisson\(", 0, [("cdf", Q)], {"cdf": ("cdf", Q)}),
    E("PDF_Exponential", ST, r"^double PDF_Exponential\(", 0, [("mean", Q)], {"mean": ("mean", Q)}),
    E("CDF_Exponential", ST, r"^double CDF_Exponential\(", 0, [("mean", Q)], {"mean": ("mean", Q)}),
    E("PDF_Maxwell_Boltzmann", ST, r"^double PDF_Maxwell_Boltzmann\(", 0, [("a", Q)], {"a": ("a", Q)}),
    E("CDF_Maxwell_Boltzmann", ST, r"^double CDF_Maxwell_Boltzmann\(", 0, [("a", Q)], {"a": ("a", Q)}),
    E("PDF_Uniform", ST, r"^double PDF_Uniform\(", 0, [("x_min", Q), ("x_max", Q)], {"x_min": ("x_min", Q), "x_max": ("x_max", Q)}),
    E("CDF_Uniform", ST, r"^double CDF_Uniform\(", 0, [("x_min", Q), ("x_max", Q)], {"x_min": ("x_min", Q), "x_max": ("x_max", Q)}),
    E("PDF_Gauss", ST, r"^double PDF_Gauss\(double x, double mu, double sigma\)", 0, [("sigma", Q)], {"sigma": ("sigma", Q)}),
    E("CDF_Gauss", ST, r"^double CDF_Gauss\(", 0, [("sigma", Q)], {"sigma": ("sigma", Q)}),
    E("Quantile_Gauss", ST, r"^double Quantile_Gauss\(", 0, [("sigma", Q)], {"sigma": ("sigma", Q)}),
    E("PDF_Gauss_2D", ST, r"^double PDF_Gauss_2D\(", 0, [("sigma_x", Q), ("sigma_y", Q)], {"sigma.first": ("sigma_x", Q), "sigma.second": ("sigma_y", Q)}),
    E("PDF_Chi_Square", ST, r"^double PDF_Chi_Square\(", 0, [("dof", Q)], {"dof": ("dof", Q)}),
    E("CDF_Chi_Square", ST, r"^double CDF_Chi_Square\(", 0, [("dof", Q)], {"dof": ("dof", Q)}),
    E("Log_Likelihood_Poisson", ST, r"^double Log_Likelihood_Poisson\(", 0, [("pred", Q), ("bkg", Q)], {"N_prediction": ("pred", Q), "expected_background": ("bkg", Q)}),
    E("Sample_Uniform", ST, r"^double Sample_Uniform\(", 0, [("x_min", Q), ("x_max", Q)], {"x_min": ("x_min", Q), "x_max": ("x_max", Q)}),
    E("Sample_Gauss", ST, r"^double Sample_Gauss\(", 0, [("sd", Q)], {"standard_deviation": ("sd", Q)}),
    E("Sample_Poisson", ST, r"^unsigned int Sample_Poisson\(", 0, [("mu", Q)], {"expectation_value": ("mu", Q)}),
    E("Inv_GammaP_probability", SF, r"^double Inv_GammaP\(double p, double a\)", 1, [("p", Q)], {"p": ("p", Q)}),
    E("Inv_GammaQ_probability", SF, r"^double Inv_GammaQ\(double q, double a\)", 0, [("q", Q)], {"q": ("q", Q)}),
    E("Locate_Closest_Location_empty", UT, r"^unsigned int Locate_Closest_Location\(", 0, [("n", N)], {"sorted_list.empty()": ("decide (n = 0)", B), "sorted_list.size()": ("n", N)}),
    E("Minimize_deltas", NU, r"^std::vector<double> Minimization::minimize\(std::vector<double>& starting_point, std::vector<double>& deltas", 0, [("n", N), ("m", N)],
      {"starting_point.empty()": ("decide (n = 0)", B), "starting_point.size()": ("n", N), "deltas.size()": ("m", N)}),
    E("Arithmetic_Mean", ST, r"^double Arithmetic_Mean\(", 0, [("n", N)], {"data.empty()": ("decide (n = 0)", B), "data.size()": ("n", N)}),
    E("Median", ST, r"^double Median\(", 0, [("n", N)], {"data.empty()": ("decide (n = 0)", B), "data.size()": ("n", N)}),
    E("Variance", ST, r"^double Variance\(", 0, [("n", N)], {"data.empty()": ("decide (n = 0)", B), "data.size()": ("n", N)}),
    E("Weighted_Average", ST, r"^std::vector<double> Weighted_Average\(", 0, [("n", N)], {"data.empty()": ("decide (n = 0)", B), "data.size()": ("n", N)}),
    E("Matrix_Resize", LA, r"^void Matrix::Resize\(int row, int col\)", 0, [("row", I), ("col", I)], {"row": ("row", I), "col": ("col", I)}),
    E("Matrix_Assign", LA, r"^void Matrix::Assign\(int row, int col, double entry\)", 0, [("row", I), ("col", I)], {"row": ("row", I), "col": ("col", I)}),
    E("Integrate_MC_region", IN, r"^double Integrate_MC\(", 0, [("region_size", N)], {"region.empty()": ("decide (region_size = 0)", B), "region.size()": ("region_size", N)}),
    E("Integrate_MC_ncalls", IN, r"^double Integrate_MC\(", 1, [("ncalls", I), ("method", S)], {"ncalls": ("ncalls", I), "method": ("method", S)}),
    E("PDF_Chi_Bar_Square_weight", ST, r"^double PDF_Chi_Bar_Square\(", 0, [("weight", Q)], {"weight": ("weight", Q)}, pick="weight"),
    E("CDF_Chi_Bar_Square_weight", ST, r"^double CDF_Chi_Bar_Square\(", 0, [("weight", Q)], {"weight": ("weight", Q)}, pick="weight"),
    E("Log_Likelihood_Poisson_Binned", ST, r"^double Log_Likelihood_Poisson_Binned\(", 1, [("n_obs", N), ("n_bins", N), ("n_bkg", N)],
      {"N_observed_binned.size()": ("n_obs", N), "N_bins": ("n_bins", N), "N_prediction_binned.size()": ("n_bins", N), "expected_background_binned.size()": ("n_bkg", N)}),
    E("Sample_Metropolis_unbounded", ST, r"^std::vector<double> Sample_Metropolis\(", 0, [("n", N)], {"domain.size()": ("n", N)}),
    E("Sample_Metropolis_bounded", ST, r"^std::vector<double> Sample_Metropolis\(", 1, [("n", N)], {"domain.size()": ("n", N)}),
    E("Sample_Metropolis_2D_unbounded", ST, r"^std::vector<std::pair<double, double>> Sample_Metropolis_2D\(", 0, [("n", N)], {"domain.size()": ("n", N)}),
    E("Sample_Metropolis_2D_bounded", ST, r"^std::vector<std::pair<double, double>> Sample_Metropolis_2D\(", 1, [("n", N)], {"domain.size()": ("n", N)}),
    E("Transpose_Lists_row", LM, r"^extern std::vector<std::vector<T>> Transpose_Lists\(const std::vector<std::vector<T>>& lists\)", 0, [("row_size", N), ("m", N)], {"lists[i].size()": ("row_size", N), "M": ("m", N)}, pick="lists[i].size()"),
    E("In_Units_row", UN, r"^std::vector<std::vector<double>> In_Units\(const std::vector<std::vector<double>>& quantities, std::vector<double> dimensions", 0,
      [("row_size", N), ("n_dims", N)], {"quantities[i].size()": ("row_size", N), "dimensions.size()": ("n_dims", N)}),
    E("Export_Table_row", UT, r"^void Export_Table\(", 0, [("n_dims", N), ("columns", N)], {"dimensions.size()": ("n_dims", N), "columns": ("columns", N), "dimensions.empty()": ("decide (n_dims = 0)", B), "data[line].size()": ("columns", N)}, pick="dimensions.size()"),
    E("Import_Table_columns", UT, r"^std::vector<std::vector<double>> Import_Table\(", 0, [("n_dims", N), ("columns", N)], {"dimensions.size()": ("n_dims", N), "columns": ("columns", N), "dimensions.empty()": ("decide (n_dims = 0)", B)}, pick="dimensions.size()"),
]
# numeric constants a guard refers to by name: (Lean name, type, file, regex with one group)
CONSTANTS = [
    ("gen_Locate_tolerance_left", Q, NU, r"boundary_tolerance_left\s*=\s*([0-9.eE+-]+)\s*\*"),
    ("gen_Locate_tolerance_right", Q, NU, r"boundary_tolerance_right\s*=\s*([0-9.eE+-]+)\s*\*"),
    ("gen_Round_digits_max", N, SF, r"unsigned int digits_max\s*=\s*([0-9]+);"),
]
# `Check_For_Error(cond, …)` call sites (k = None): the condition is the first argument of the call
CALL = r"(?:libphysica::)?Check_For_Error\s*\("


class ParseError(Exception):
    pass


# ------------------------------------------------------------------------------------------------------------------
# extraction
# ------------------------------------------------------------------------------------------------------------------

def _balanced(text, i):
    """text[i-1] == '(' ; returns the index just after the matching ')'"""
    depth, j = 1, i
    while j < len(text) and depth:
        depth += text[j] == "("
        depth -= text[j] == ")"
        j += 1
    if depth:
        raise ParseError("unbalanced parentheses")
    return j


def _strip_comments(s):
    s = re.sub(r"//[^\n]*", lambda m: " " * len(m.group(0)), s)
    return re.sub(r"/\*.*?\*/", lambda m: re.sub(r"[^\n]", " ", m.group(0)), s, flags=re.S)


def extract_condition(text, e):
    """(condition text, text of the function body before the test) of entry e in the (comment-stripped) source text"""
    m = re.search(e["anchor"], text, re.M)
    if not m:
        raise ParseError("anchor not found")
    end = text.find("\n}\n", m.end())
    end = len(text) if end < 0 else end
    if e["k"] is None:
        c = re.compile(CALL).search(text, m.end(), end)
        if not c:
            raise ParseError("no Check_For_Error call")
        j = _balanced(text, c.end())
        args = text[c.end():j - 1]
        depth, cut = 0, None
        for p, ch in enumerate(args):
            depth += ch in "(["
            depth -= ch in ")]"
            if ch == "," and depth == 0:
                cut = p
                break
        if cut is None:
            raise ParseError("Check_For_Error without arguments")
        return args[:cut].strip(), text[m.end():c.start()]
    pos, k = m.end(), e["k"]
    while True:
        c = re.compile(r"\bif\s*\(").search(text, pos, end)
        if not c:
            raise ParseError("fewer than %d if-statements after the anchor" % (e["k"] + 1))
        j = _balanced(text, c.end())
        cond = re.sub(r"\s+", " ", text[c.end():j - 1]).strip()
        if e.get("pick") and e["pick"] not in cond:
            pos = j
            continue
        if k == 0:
            return cond, text[m.end():c.start()]
        k -= 1
        pos = j


SCALAR = r"(?:const\s+)?(?:unsigned\s+int|unsigned\s+long|unsigned|size_t|std::size_t|int|long|double|float|bool)"


def ctype(t):
    """C++ scalar type -> Lean type (None: an object such as `const Matrix&`, substituted textually)"""
    t = re.sub(r"\b(const|inline|static|constexpr)\b|&", " ", t).strip()
    t = re.sub(r"\s+", " ", t)
    if t in ("unsigned int", "unsigned", "unsigned long", "size_t", "std::size_t"):
        return N
    if t in ("int", "long"):
        return I
    if t in ("double", "float"):
        return Q
    if t == "bool":
        return B
    return None


HELPER = re.compile(r"(?:^|\n)[ \t]*((?:(?:static|inline|constexpr)\s+)*" + SCALAR + r")\s+([A-Za-z_]\w*)\s*\(([^()]*)\)\s*\{\s*return\s+([^;{}]+);\s*\}")


def find_helpers(text):
    """file-local free functions whose body is a single `return <expr>;`:  name -> (return type, [(param, type)], expr text)"""
    out = {}
    for m in HELPER.finditer(text):
        params = []
        ok = True
        for prm in [q.strip() for q in m.group(3).split(",") if q.strip()]:
            mm = re.match(r"(.*?)([A-Za-z_]\w*)$", prm)
            if not mm or not mm.group(1).strip():
                ok = False
                break
            params.append((mm.group(2), ctype(mm.group(1))))
        if ok:
            out[m.group(2)] = (ctype(m.group(1)), params, m.group(4).strip())
    return out


LOCAL = re.compile(r"\bconst\s+(unsigned\s+int|unsigned|size_t|std::size_t|int|double|bool)\s+([A-Za-z_]\w*)\s*=\s*([^;{}]+);")


def find_locals(before):
    """`const <scalar> name = <expr>;` declarations of the function body that precede the test:  name -> (type, expr text)"""
    return {m.group(2): (ctype(m.group(1)), m.group(3).strip()) for m in LOCAL.finditer(before)}


def subst(e, mp):
    k = e[0]
    if k == "id":
        return mp.get(e[1], e)
    if k == "num" or k == "str":
        return e
    if k == "mem":
        return ("mem", subst(e[1], mp), e[2])
    if k == "call":
        return ("call", e[1] if e[1][0] == "id" else subst(e[1], mp), tuple(subst(a, mp) for a in e[2]))
    if k == "idx":
        return ("idx", subst(e[1], mp), subst(e[2], mp))
    if k in ("cmp", "bin"):
        return (k, e[1], subst(e[2], mp), subst(e[3], mp))
    if k in ("or", "and"):
        return (k, subst(e[1], mp), subst(e[2], mp))
    if k in ("not", "neg", "paren"):
        return (k, subst(e[1], mp))
    raise ParseError("unsupported expression in a helper")


# ------------------------------------------------------------------------------------------------------------------
# parser (C++ expression subset)  ->  AST tuples
# ------------------------------------------------------------------------------------------------------------------

TOK = re.compile(r"\s*(?:(\d+\.\d*(?:[eE][+-]?\d+)?|\.\d+(?:[eE][+-]?\d+)?|\d+[eE][+-]?\d+|\d+)|([A-Za-z_][A-Za-z_0-9]*(?:::[A-Za-z_][A-Za-z_0-9]*)*)|(\|\||&&|==|!=|<=|>=|[<>!+\-*/%()\[\].,])|(\"[^\"\\\n]*\"))")


def tokenize(s):
    out, pos = [], 0
    s = s.strip()
    while pos < len(s):
        m = TOK.match(s, pos)
        if not m or m.end() == pos:
            raise ParseError("cannot tokenize at `%s`" % s[pos:pos + 12])
        out.append(("num", m.group(1)) if m.group(1) else ("id", m.group(2)) if m.group(2) else ("op", m.group(3)) if m.group(3) else ("str", m.group(4)))
        pos = m.end()
    return out


class Parser:
    def __init__(self, toks):
        self.t, self.p = toks, 0

    def peek(self):
        return self.t[self.p] if self.p < len(self.t) else (None, None)

    def take(self, v=None):
        k = self.peek()
        if k[0] is None or (v is not None and k[1] != v):
            raise ParseError("expected `%s`, found `%s`" % (v, k[1]))
        self.p += 1
        return k

    def parse(self):
        e = self.p_or()
        if self.p != len(self.t):
            raise ParseError("trailing tokens from `%s`" % self.peek()[1])
        return e

    def p_or(self):
        e = self.p_and()
        while self.peek() == ("op", "||"):
            self.take(); e = ("or", e, self.p_and())
        return e

    def p_and(self):
        e = self.p_eq()
        while self.peek() == ("op", "&&"):
            self.take(); e = ("and", e, self.p_eq())
        return e

    def p_eq(self):
        e = self.p_rel()
        while self.peek() in (("op", "=="), ("op", "!=")):
            o = self.take()[1]; e = ("cmp", o, e, self.p_rel())
        return e

    def p_rel(self):
        e = self.p_add()
        while self.peek() in (("op", "<"), ("op", "<="), ("op", ">"), ("op", ">=")):
            o = self.take()[1]; e = ("cmp", o, e, self.p_add())
        return e

    def p_add(self):
        e = self.p_mul()
        while self.peek() in (("op", "+"), ("op", "-")):
            o = self.take()[1]; e = ("bin", o, e, self.p_mul())
        return e

    def p_mul(self):
        e = self.p_un()
        while self.peek() in (("op", "*"), ("op", "%")):
            o = self.take()[1]; e = ("bin", o, e, self.p_un())
        return e

    def p_un(self):
        if self.peek() == ("op", "!"):
            self.take(); return ("not", self.p_un())
        if self.peek() == ("op", "-"):
            self.take(); return ("neg", self.p_un())
        return self.p_post()

    def p_post(self):
        k = self.peek()
        if k[0] == "num":
            self.take(); return ("num", k[1])
        if k[0] == "str":
            self.take(); return ("str", k[1])
        if k == ("op", "("):
            self.take(); e = self.p_or(); self.take(")"); return ("paren", e)
        if k[0] != "id":
            raise ParseError("unexpected `%s`" % k[1])
        self.take()
        e = ("id", k[1])
        while True:
            k = self.peek()
            if k == ("op", "."):
                self.take(); m = self.take()
                if m[0] != "id":
                    raise ParseError("member name expected")
                e = ("mem", e, m[1])
            elif k == ("op", "("):
                self.take(); args = []
                if self.peek() != ("op", ")"):
                    args.append(self.p_or())
                    while self.peek() == ("op", ","):
                        self.take(); args.append(self.p_or())
                self.take(")"); e = ("call", e, tuple(args))
            elif k == ("op", "["):
                self.take(); ix = self.p_or(); self.take("]"); e = ("idx", e, ix)
            else:
                return e


def flat(e):
    """normalised C++ text of an operand (key of the atom tables)"""
    k = e[0]
    if k == "id" or k == "num" or k == "str":
        return e[1]
    if k == "mem":
        return flat(e[1]) + "." + e[2]
    if k == "call":
        return flat(e[1]) + "(" + ", ".join(flat(a) for a in e[2]) + ")"
    if k == "idx":
        return flat(e[1]) + "[" + flat(e[2]) + "]"
    if k == "bin":
        return flat(e[2]) + " " + e[1] + " " + flat(e[3])
    if k == "neg":
        return "-" + flat(e[1])
    if k == "paren":
        return "(" + flat(e[1]) + ")"
    raise ParseError("operand too complex: %r" % (e,))


# ------------------------------------------------------------------------------------------------------------------
# typing + Lean emission
# ------------------------------------------------------------------------------------------------------------------

def lit(txt, ty):
    q = Fraction(txt)      # decimal / scientific notation, exact
    if ty in (N, I):
        if q.denominator != 1:
            raise ParseError("non-integer literal %s compared with an integer operand" % txt)
        return "(%d : %s)" % (q.numerator, ty)
    if ty == Q:
        return "(%d : Rat)" % q.numerator if q.denominator == 1 else "((%d : Rat) / %d)" % (q.numerator, q.denominator)
    raise ParseError("literal %s where a %s is expected" % (txt, ty))


class Env(dict):
    """atoms + the file's single-return helpers + the const locals preceding the test; each may be inlined ONE level"""
    def __init__(self, atoms, helpers=None, locals_=None, in_helper=False, in_local=False):
        dict.__init__(self, atoms)
        self.helpers, self.locals, self.in_helper, self.in_local = helpers or {}, locals_ or {}, in_helper, in_local


def inline(e, atoms):
    """the expression a helper call / a const local stands for (one level), or None"""
    if not isinstance(atoms, Env):
        return None
    if e[0] == "call" and e[1][0] == "id" and e[1][1] in atoms.helpers and not atoms.in_helper:
        rt, params, body = atoms.helpers[e[1][1]]
        if len(params) != len(e[2]):
            raise ParseError("helper `%s` called with %d arguments" % (e[1][1], len(e[2])))
        for (pn, pt), a in zip(params, e[2]):
            at = _type_of(a, atoms)
            if pt is not None and at is not None and at != pt:
                raise ParseError("helper `%s`: argument `%s` (%s) converted to a %s parameter" % (e[1][1], flat(a), at, pt))
            if pt is None and a[0] != "id":
                raise ParseError("helper `%s`: object argument `%s` is not a plain name" % (e[1][1], flat(a)))
        inner = subst(Parser(tokenize(body)).parse(), {pn: (a if a[0] == "id" else ("paren", a)) for (pn, _), a in zip(params, e[2])})
        return ("paren", inner), rt, Env(atoms, atoms.helpers, {}, True, True)
    if e[0] == "id" and e[1] in atoms.locals and not atoms.in_local:
        lt, body = atoms.locals[e[1]]
        return ("paren", Parser(tokenize(body)).parse()), lt, Env(atoms, atoms.helpers, {}, atoms.in_helper, True)
    return None


def emit(e, atoms, want=None):
    """returns (lean text, type); `want` is the type a literal should take"""
    k = e[0]
    if k == "paren":
        s, t = emit(e[1], atoms, want)
        return "(" + s + ")", t
    if k in ("id", "mem", "call", "idx"):
        key = flat(e)
        if key in atoms:
            return atoms[key]
        inl = inline(e, atoms)
        if inl:
            ex, ty, env2 = inl
            s_, t_ = emit(ex, env2, ty)
            if ty is not None and t_ != ty:
                raise ParseError("`%s` is declared %s but its expression is %s" % (flat(e), ty, t_))
            return s_, t_
        if k == "call" and flat(e[1]) in ("fabs", "std::fabs", "std::abs") and len(e[2]) == 1:
            s, t = emit(e[2][0], atoms, Q)
            if t != Q:
                raise ParseError("fabs of a non-double operand")
            return "(rabs " + s + ")", Q
        raise ParseError("unknown operand `%s`" % key)
    if k == "num":
        if want is None:
            raise ParseError("literal %s without a typed partner" % e[1])
        return lit(e[1], want), want
    if k == "str":
        return e[1], S
    if k == "neg":
        s, t = emit(e[1], atoms, want)
        if t not in (I, Q):
            raise ParseError("unary minus on an unsigned/boolean operand")
        return "(-" + s + ")", t
    if k == "bin":
        a, b = e[2], e[3]
        ta = _type_of(a, atoms) or _type_of(b, atoms) or want
        sa, t1 = emit(a, atoms, ta)
        sb, t2 = emit(b, atoms, ta)
        if t1 != t2:
            raise ParseError("mixed operand types in `%s`" % flat(e))
        if t1 == N and e[1] == "%":
            return "(" + sa + " % " + sb + ")", N       # the remainder of unsigned operands cannot wrap
        if t1 == N:
            raise ParseError("arithmetic on unsigned operands (`%s`) is not translated (wrap-around)" % flat(e))
        if e[1] == "%":
            raise ParseError("remainder of signed / floating operands is not translated")
        if t1 not in (I, Q):
            raise ParseError("arithmetic on %s" % t1)
        return "(" + sa + " " + e[1] + " " + sb + ")", t1
    if k == "cmp":
        a, b = e[2], e[3]
        ta = _type_of(a, atoms) or _type_of(b, atoms)
        if ta is None:
            raise ParseError("comparison of two literals")
        sa, t1 = emit(a, atoms, ta)
        sb, t2 = emit(b, atoms, ta)
        if t1 != t2:
            raise ParseError("comparison of %s with %s in `%s %s %s`" % (t1, t2, flat(a), e[1], flat(b)))
        if t1 == S and e[1] not in ("==", "!="):
            raise ParseError("ordering of strings")
        if t1 == B:
            if e[1] not in ("==", "!="):
                raise ParseError("ordering of booleans")
            return "(%s %s %s)" % (sa, "==" if e[1] == "==" else "!=", sb), B
        op = {"==": "=", "!=": "≠", "<": "<", "<=": "≤", ">": ">", ">=": "≥"}[e[1]]
        return "decide (%s %s %s)" % (sa, op, sb), B
    if k in ("or", "and"):
        sa, t1 = emit(e[1], atoms)
        sb, t2 = emit(e[2], atoms)
        if t1 != B or t2 != B:
            raise ParseError("`%s` of non-boolean operands" % ("||" if k == "or" else "&&"))
        return "(%s %s %s)" % (sa, "||" if k == "or" else "&&", sb), B
    if k == "not":
        s, t = emit(e[1], atoms)
        if t != B:
            raise ParseError("`!` of a non-boolean operand")
        return "(!" + s + ")", B
    raise ParseError("unsupported expression")


def _type_of(e, atoms):
    k = e[0]
    if k == "num":
        return None
    if k == "str":
        return S
    if k == "paren" or k == "neg":
        return _type_of(e[1], atoms)
    if k == "bin":
        return _type_of(e[2], atoms) or _type_of(e[3], atoms)
    if k in ("id", "mem", "call", "idx"):
        key = flat(e)
        if key in atoms:
            return atoms[key][1]
        if isinstance(atoms, Env):
            if k == "call" and e[1][0] == "id" and e[1][1] in atoms.helpers:
                return atoms.helpers[e[1][1]][0]
            if k == "id" and e[1] in atoms.locals:
                return atoms.locals[e[1]][0]
        if k == "call":
            return Q
    return None


def inlined_note(e, env):
    """text of the helpers / const locals the condition was expanded through (for the generated comment)"""
    notes = []

    def walk(x):
        if not isinstance(x, tuple) or not x:
            return
        if isinstance(x[0], tuple):
            for z in x:
                walk(z)
            return
        if x[0] == "call" and x[1][0] == "id" and x[1][1] in env.helpers and flat(x) not in env:
            rt, ps, body = env.helpers[x[1][1]]
            notes.append("%s(%s) { return %s; }" % (x[1][1], ", ".join(p for p, _ in ps), body))
        if x[0] == "id" and x[1] in env.locals and x[1] not in env:
            notes.append("const %s = %s" % (x[1], env.locals[x[1]][1]))
        for y in x[1:]:
            walk(y)
    walk(e)
    return sorted(set(notes))


CTYPE = {S: "std::string -> String", N: "unsigned int / size_t -> Nat (a comparison `… < 0` is false, as in the C++)", I: "int -> Int", Q: "double -> Rat (exact)", B: "bool -> Bool"}


def translate(repo):
    """returns (list of (entry, cond text, file, line, lean body | None, error | None), constants list)"""
    cache, out, helpers = {}, [], {}

    def src(f):
        if f not in cache:
            p = os.path.join(repo, f)
            cache[f] = _strip_comments(open(p).read()) if os.path.exists(p) else ""
        return cache[f]
    for e in TABLE:
        cond, line, body, err = None, None, None, None
        try:
            cond, before = extract_condition(src(e["file"]), e)
            if e["file"] not in helpers:
                helpers[e["file"]] = find_helpers(src(e["file"]))
            env = Env(e["atoms"], helpers[e["file"]], find_locals(before))
            ast = Parser(tokenize(cond)).parse()
            s, t = emit(ast, env)
            line = inlined_note(ast, env)
            if t != B:
                raise ParseError("the condition is not boolean")
            body = s
        except ParseError as x:
            err = str(x)
        out.append((e, cond, e["file"], line, body, err))
    consts = []
    for name, ty, f, rx in CONSTANTS:
        m = re.search(rx, src(f))
        val, err = None, None
        if not m:
            err = "anchor not found"
        else:
            try:
                val = lit(m.group(1), ty)
            except (ParseError, ValueError) as x:
                err = str(x)
        consts.append((name, ty, f, m.group(1) if m else None, val, err))
    return out, consts


HEADER = """/-
  GENERATED by translators/guards.py from the text of the C++ sources — do not edit.
  One definition per guarded entry point: the condition of the `if( … ){ …; std::exit(EXIT_FAILURE); }` test
  (for the dispatch tests of Rotation_Matrix / Inverse / Locate / Sample_Metropolis: of that `if`), parsed and
  re-emitted operand by operand.  C++ types: unsigned int / size_t -> Nat (so `i < 0` is `false`, as in the C++),
  int -> Int, double -> Rat (exact), bool -> Bool.  `LpProofs/C10/Generated.lean` proves each of them equal to the
  hand-written guard of `LpModel/C10.lean` for all arguments.  Core-only.
-/
import LpModel.Basic
set_option linter.unusedVariables false
namespace Lp.C10.Gen
open Lp

"""


def anchor_text(rx):
    """readable form of an anchoring regular expression (for comments only)"""
    return re.sub(r"\\(.)", r"\1", rx.lstrip("^"))


def previous_defs(path):
    """name -> full text block (comment + def) of the existing generated file (used when an entry cannot be parsed)"""
    if not os.path.exists(path):
        return {}
    txt = open(path).read()
    out = {}
    for m in re.finditer(r"(/--(?:(?!/--).)*?-/\n(?:def|abbrev) (gen_[A-Za-z0-9_]+)[^\n]*\n(?:  [^\n]*\n)*)", txt, re.S):
        out[m.group(2)] = m.group(1)
    return out


def render(entries, consts, prev, early=None):
    parts, problems = [HEADER], []
    for name, ty, f, raw, val, err in consts:
        if err:
            problems.append(name + ": " + err)
            if name in prev:
                parts.append(prev[name] + "\n")
            continue
        parts.append("/-- %s: literal `%s` -/\ndef %s : %s := %s\n\n" % (f, raw, name, ty, val))
    for e, cond, f, line, body, err in entries:
        nm = "gen_" + e["name"]
        if err:
            problems.append("%s: %s%s" % (e["name"], err, (" in `%s`" % cond) if cond else ""))
            if nm in prev:
                parts.append(re.sub(r"\s*\Z", "\n\n", prev[nm]))
            continue
        used = sorted({t for _, t in e["params"]})
        parts.append("/-- %s, anchor `%s`:  `%s`%s\n    %s -/\ndef %s %s : Bool :=\n  %s\n\n" % (
            f, anchor_text(e["anchor"]), cond, "".join("\n    with  %s" % n for n in (line or [])), "; ".join(CTYPE[t] for t in used), nm,
            " ".join("(%s : %s)" % p for p in e["params"]), body))
    for name, f, anchor, items, err in (early or []):
        nm = "gen_%s_early" % name
        if err:
            problems.append("%s (early exits): %s" % (name, err))
            if nm in prev:
                parts.append(re.sub(r"\s*\Z", "\n\n", prev[nm]))
            continue
        parts.append("/-- %s, anchor `%s`: the early exits / early returns of the function body, in source order\n    (`@gen_<Entry>` = the test regenerated above) -/\ndef %s : List String :=\n  [%s]\n\n" % (
            f, anchor_text(anchor), nm, ", ".join('"%s"' % it.replace("\\", "\\\\").replace('"', '\\"') for it in items)))
    parts.append("end Lp.C10.Gen\n")
    return "".join(parts), problems


# ------------------------------------------------------------------------------------------------------------------
# early exits / early returns of the anchored functions
# ------------------------------------------------------------------------------------------------------------------

def _blank_strings(s):
    """string and character literals replaced by spaces of the same length (braces, parentheses and semicolons inside a
    diagnostic text must not disturb the statement scanner)"""
    return re.sub(r'"(?:\\.|[^"\\\n])*"|\'(?:\\.|[^\'\\\n])\'', lambda m: m.group(0)[0] + " " * (len(m.group(0)) - 2) + m.group(0)[-1], s)


def _match(T, i, o, c):
    """T[i] == o; index just after the matching c"""
    depth, j = 0, i
    while j < len(T):
        depth += T[j] == o
        depth -= T[j] == c
        j += 1
        if depth == 0:
            return j
    raise ParseError("unbalanced `%s`" % o)


def _ws(T, i, end):
    while i < end and T[i].isspace():
        i += 1
    return i


def _kw(T, i, w):
    return T.startswith(w, i) and not (T[i + len(w):i + len(w) + 1].isalnum() or T[i + len(w):i + len(w) + 1] == "_") and not (i > 0 and (T[i - 1].isalnum() or T[i - 1] == "_"))


def _stmt_end(T, i, end):
    """index just after the statement that starts at T[i]"""
    i = _ws(T, i, end)
    if i >= end:
        return end
    if T[i] == "{":
        return _match(T, i, "{", "}")
    for w in ("if", "for", "while", "switch"):
        if _kw(T, i, w):
            j = _ws(T, i + len(w), end)
            j = _match(T, j, "(", ")")
            j = _stmt_end(T, j, end)
            if w == "if":
                k = _ws(T, j, end)
                if _kw(T, k, "else"):
                    return _stmt_end(T, k + 4, end)
            return j
    if _kw(T, i, "do"):
        j = _stmt_end(T, i + 2, end)
        return T.index(";", j) + 1
    if _kw(T, i, "else"):
        return _stmt_end(T, i + 4, end)
    depth = 0
    j = i
    while j < end:
        ch = T[j]
        depth += ch in "({["
        depth -= ch in ")}]"
        if ch == ";" and depth == 0:
            return j + 1
        j += 1
    return end


EXITS = re.compile(r"\bstd::exit\s*\(|\bexit\s*\(|\breturn\b|\bthrow\b")


def _toplevel_exit(T, i, end):
    """does the statement list T[i:end] call std::exit in a plain statement of its own level (an `else` block that stops)?"""
    while True:
        i = _ws(T, i, end)
        if i >= end:
            return False
        j = _stmt_end(T, i, end)
        if not any(_kw(T, i, w) for w in ("if", "for", "while", "switch", "do")) and T[i] != "{" and re.search(r"\b(?:std::)?exit\s*\(", T[i:j]):
            return True
        i = j


def _scan_early(T, i, end, out):
    """the `if`s (position, condition start, condition end) of the statement list T[i:end] whose controlled statement leaves
    the function (exit / return / throw), `else if` chains included; loops, switches and nested blocks are not entered,
    except the `else { … }` block of an `if` that leaves the function (`if(g){exit} else {B}` is `if(g){exit} B`)"""
    while True:
        i = _ws(T, i, end)
        if i >= end:
            return
        if _kw(T, i, "if"):
            j = _ws(T, i + 2, end)
            ce = _match(T, j, "(", ")")
            se = _stmt_end(T, ce, end)
            leaves = EXITS.search(T, ce, se) is not None
            if leaves:
                out.append(("if", i, j + 1, ce - 1))
            i = _ws(T, se, end)
            if _kw(T, i, "else"):
                k = _ws(T, i + 4, end)
                if _kw(T, k, "if"):
                    i = k
                elif leaves and k < end and T[k] == "{":
                    be = _match(T, k, "{", "}")
                    if _toplevel_exit(T, k + 1, be - 1):
                        out.append(("else", i, k, k))
                    _scan_early(T, k + 1, be - 1, out)
                    i = be
                else:
                    se2 = _stmt_end(T, k, end)
                    if re.search(r"\b(?:std::)?exit\s*\(", T[k:se2]) and (T[k] != "{" or _toplevel_exit(T, k + 1, se2 - 1)):
                        out.append(("else", i, k, k))
                    i = se2
            continue
        m = re.compile(CALL).match(T, i)
        if m:
            ce = _match(T, m.end() - 1, "(", ")")
            out.append(("call", i, m.end(), ce - 1))
            i = _stmt_end(T, i, end)
            continue
        i = _stmt_end(T, i, end)


def _light_inline(e, helpers, locals_, depth=0):
    """helper calls / const locals expanded one level, without typing (used for the conditions that are not table guards)"""
    if not isinstance(e, tuple) or not e:
        return e
    k = e[0]
    if depth == 0 and k == "call" and e[1][0] == "id" and e[1][1] in helpers and len(helpers[e[1][1]][1]) == len(e[2]):
        rt, params, body = helpers[e[1][1]]
        try:
            inner = subst(Parser(tokenize(body)).parse(), {pn: ("paren", a) for (pn, _), a in zip(params, e[2])})
            return ("paren", _light_inline(inner, helpers, locals_, 1))
        except ParseError:
            return e
    if depth == 0 and k == "id" and e[1] in locals_:
        try:
            return ("paren", _light_inline(Parser(tokenize(locals_[e[1]][1])).parse(), helpers, locals_, 1))
        except ParseError:
            return e
    if k in ("id", "num", "str"):
        return e
    if k == "mem":
        return ("mem", _light_inline(e[1], helpers, locals_, depth), e[2])
    if k == "call":
        return ("call", e[1], tuple(_light_inline(a, helpers, locals_, depth) for a in e[2]))
    if k in ("cmp", "bin"):
        return (k, e[1], _light_inline(e[2], helpers, locals_, depth), _light_inline(e[3], helpers, locals_, depth))
    if k == "idx":
        return ("idx", _light_inline(e[1], helpers, locals_, depth), _light_inline(e[2], helpers, locals_, depth))
    return (k,) + tuple(_light_inline(x, helpers, locals_, depth) for x in e[1:])


PREC = {"or": 1, "and": 2, "eq": 3, "rel": 4, "add": 5, "mul": 6, "un": 7, "post": 8}
FLIP = {"<": ">=", "<=": ">", ">": "<=", ">=": "<", "==": "!=", "!=": "=="}


def canon(e):
    """(text, precedence) of an expression in a canonical spelling: parentheses by precedence only, `>`/`>=` turned into
    `<`/`<=`, negated comparisons flipped, operands of `== != || && + *` sorted, literals as exact fractions"""
    k = e[0]
    par = lambda t, lvl: t[0] if t[1] >= lvl else "(" + t[0] + ")"
    if k == "paren":
        return canon(e[1])
    if k == "num":
        q = Fraction(e[1])
        return (str(q.numerator) if q.denominator == 1 else "%d/%d" % (q.numerator, q.denominator)), 8
    if k == "id" or k == "str":
        return e[1], 8
    if k == "mem":
        return par(canon(e[1]), 8) + "." + e[2], 8
    if k == "call":
        return par(canon(e[1]), 8) + "(" + ", ".join(canon(a)[0] for a in e[2]) + ")", 8
    if k == "idx":
        return par(canon(e[1]), 8) + "[" + canon(e[2])[0] + "]", 8
    if k == "neg":
        return "-" + par(canon(e[1]), 7), 7
    if k == "not":
        x = e[1]
        while x[0] == "paren":
            x = x[1]
        if x[0] == "cmp":
            return canon(("cmp", FLIP[x[1]], x[2], x[3]))
        if x[0] == "not":
            return canon(x[1])
        return "!" + par(canon(x), 7), 7
    if k == "cmp":
        op, a, b = e[1], e[2], e[3]
        if op in (">", ">="):
            op, a, b = {">": "<", ">=": "<="}[op], b, a
        lvl = 3 if op in ("==", "!=") else 4
        ta, tb = par(canon(a), lvl + 1), par(canon(b), lvl + 1)
        if op in ("==", "!=") and tb < ta:
            ta, tb = tb, ta
        return "%s %s %s" % (ta, op, tb), lvl
    if k in ("or", "and"):
        items = []

        def flat_(x):
            while x[0] == "paren":
                x = x[1]
            if x[0] == k:
                flat_(x[1]); flat_(x[2])
            else:
                items.append(par(canon(x), PREC[k] + 1))
        flat_(e)
        return (" || " if k == "or" else " && ").join(sorted(set(items))), PREC[k]
    if k == "bin":
        op = e[1]
        lvl = 6 if op == "*" else 5
        ta, tb = par(canon(e[2]), lvl), par(canon(e[3]), lvl + 1)
        if op in ("+", "*") and tb < ta:
            ta, tb = tb, ta
        return "%s %s %s" % (ta, op, tb), lvl
    raise ParseError("unsupported expression")


def early_lists(repo, entries):
    """for every anchored function (named after its first table entry): the canonical conditions of its early exits and
    early returns, in source order; the test of a table entry appears as `@gen_<Entry>` (its meaning is pinned by the
    `gen_<Entry>_eq` theorem, so a re-spelling of it does not change the list)"""
    out, seen, cache = [], {}, {}
    for e, cond, f, note, body, err in entries:
        key = (e["file"], e["anchor"])
        if key in seen:
            continue
        seen[key] = e["name"]
        p = os.path.join(repo, e["file"])
        if e["file"] not in cache:
            raw = _strip_comments(open(p).read()) if os.path.exists(p) else ""
            cache[e["file"]] = (raw, _blank_strings(raw), find_helpers(raw))
        raw, T, helpers = cache[e["file"]]
        try:
            m = re.search(e["anchor"], raw, re.M)
            if not m:
                raise ParseError("anchor not found")
            b0 = T.index("{", m.end())
            b1 = _match(T, b0, "{", "}")
            found = []
            _scan_early(T, b0 + 1, b1 - 1, found)
            # positions of the table guards of this function
            marks = {}
            for e2, cond2, f2, n2, body2, err2 in entries:
                if (e2["file"], e2["anchor"]) == key and cond2 is not None:
                    try:
                        c2, before = extract_condition(raw, e2)
                        marks.setdefault(m.end() + len(before), e2["name"])
                    except ParseError:
                        pass
            items = []
            for kind, pos, cs, ce in found:
                if pos in marks:
                    items.append("@gen_" + marks[pos])
                    continue
                if kind == "else":
                    items.append("else")
                    continue
                txt = raw[cs:ce]
                if kind == "call":       # first argument of Check_For_Error
                    depth = 0
                    for q, ch in enumerate(txt):
                        depth += ch in "(["
                        depth -= ch in ")]"
                        if ch == "," and depth == 0:
                            txt = txt[:q]
                            break
                txt = re.sub(r"\s+", " ", txt).strip()
                try:
                    locs = find_locals(raw[m.end():pos])
                    items.append(canon(_light_inline(Parser(tokenize(txt)).parse(), helpers, locs))[0])
                except (ParseError, ValueError, KeyError):
                    items.append("raw: " + txt)
            out.append((e["name"], e["file"], e["anchor"], items, None))
        except (ParseError, ValueError) as x:
            out.append((e["name"], e["file"], e["anchor"], None, str(x)))
    return out


def write_if_changed(path, text):
    old = open(path).read() if os.path.exists(path) else None
    if old == text:
        return False
    os.makedirs(os.path.dirname(path), exist_ok=True)
    tmp = path + ".tmp%d" % os.getpid()
    with open(tmp, "w") as f:
        f.write(text)
    os.replace(tmp, path)
    return True


def regenerate(repo, out):
    entries, consts = translate(repo)
    text, problems = render(entries, consts, previous_defs(out), early_lists(repo, entries))
    changed = write_if_changed(out, text)
    return dict(entries=len(entries), constants=len(consts), generated_rewritten=changed, problems=problems)


if __name__ == "__main__":
    here = os.path.dirname(os.path.abspath(__file__))
    repo = sys.argv[1] if len(sys.argv) > 1 else os.environ.get("LP_REPO", "/repo")
    out = sys.argv[2] if len(sys.argv) > 2 else os.path.join(here, "..", "lean", "LpModel", "C10", "GeneratedGuards.lean")
    r = regenerate(repo, os.path.abspath(out))
    print("%d entries, %d constants; %s %s" % (r["entries"], r["constants"], "rewrote" if r["generated_rewritten"] else "unchanged", os.path.abspath(out)))
    for p in r["problems"]:
        print("cannot anchor/parse:", p)
