#!/usr/bin/env python3
"""C20 translator tie (DESIGN.md §4.5): parse every namespace-scope `const double NAME = EXPR;` of
src/Natural_Units.cpp, in textual order, into lean/LpModel/C20/Generated.lean
(`unitDefs : List (String × Expr)`).

Expression language (anything else is a translator error = correspondence failure, never a default):
  decimal / integer literal  -> exact rational  `q num den`  (int op int is folded with C++ integer
                                semantics: `1/2` is 0)
  NAME                       -> `ref "NAME"`
  M_PI                       -> `pi`                (opaque)
  + - * / unary -  ( )       -> add sub mul div neg
  pow(e, <integer literal>)  -> `powi e k`          (a function call: dynamic initialisation)
  pow(e, e')                 -> `powr e e'`         (opaque, dynamic)
  sqrt(e)                    -> `sqrt e`            (opaque, dynamic)

Usage: units.py [repo] [out]     (defaults: $LP_REPO or /repo, <verif>/lean/LpModel/C20/Generated.lean)
"""
import os, re, sys
from fractions import Fraction


class TranslateError(Exception):
    pass


def strip_comments(s):
    s = re.sub(r"/\*.*?\*/", lambda m: "\n" * m.group(0).count("\n"), s, flags=re.S)
    return re.sub(r"//[^\n]*", "", s)


TOK = re.compile(r"\s*(?:(?P<num>(?:\d+\.\d*|\.\d+|\d+)(?:[eE][+-]?\d+)?)|(?P<id>[A-Za-z_]\w*(?:::[A-Za-z_]\w*)*)|(?P<op>[-+*/(),]))")


def tokenize(s):
    out, i = [], 0
    s = s.strip()
    while i < len(s):
        m = TOK.match(s, i)
        if not m:
            raise TranslateError("cannot tokenise initialiser at: %r" % s[i:i + 20])
        if m.group("num") is not None:
            out.append(("num", m.group("num")))
        elif m.group("id") is not None:
            out.append(("id", m.group("id")))
        else:
            out.append(("op", m.group("op")))
        i = m.end()
    return out


def lit(txt):
    # Fraction("1.0e-3") is exact; third field: the literal has C++ type int (no '.', no exponent)
    return ("lit", Fraction(txt), bool(re.fullmatch(r"\d+", txt)))


def is_int(e):
    return e[0] == "lit" and e[2]


def int_op(o, a, b):
    """both operands have C++ type int: integer arithmetic (division truncates towards zero)"""
    x, y = int(a[1]), int(b[1])
    if o == "add":
        r = x + y
    elif o == "sub":
        r = x - y
    elif o == "mul":
        r = x * y
    else:
        if y == 0:
            raise TranslateError("integer division by zero in an initialiser")
        r = abs(x) // abs(y) * (1 if (x >= 0) == (y >= 0) else -1)
    if not -2 ** 31 <= r < 2 ** 31:
        raise TranslateError("int overflow in an initialiser")
    return ("lit", Fraction(r), True)


class Parser:
    def __init__(self, toks):
        self.t, self.i = toks, 0

    def peek(self):
        return self.t[self.i] if self.i < len(self.t) else (None, None)

    def eat(self, kind=None, val=None):
        k, v = self.peek()
        if k is None or (kind and k != kind) or (val and v != val):
            raise TranslateError("unexpected token %r (wanted %r %r)" % (v, kind, val))
        self.i += 1
        return v

    def expr(self):
        a = self.term()
        while self.peek() in (("op", "+"), ("op", "-")):
            o = self.eat()
            b = self.term()
            o = "add" if o == "+" else "sub"
            a = int_op(o, a, b) if is_int(a) and is_int(b) else (o, a, b)
        return a

    def term(self):
        a = self.unary()
        while self.peek() in (("op", "*"), ("op", "/")):
            o = self.eat()
            b = self.unary()
            o = "mul" if o == "*" else "div"
            a = int_op(o, a, b) if is_int(a) and is_int(b) else (o, a, b)
        return a

    def unary(self):
        if self.peek() == ("op", "-"):
            self.eat()
            a = self.unary()
            return ("lit", -a[1], a[2]) if a[0] == "lit" else ("neg", a)
        if self.peek() == ("op", "+"):
            self.eat()
            return self.unary()
        return self.atom()

    def atom(self):
        k, v = self.peek()
        if k == "num":
            self.eat()
            return lit(v)
        if k == "op" and v == "(":
            self.eat()
            a = self.expr()
            self.eat("op", ")")
            return a
        if k == "id":
            self.eat()
            name = v.split("::")[-1]
            if self.peek() == ("op", "("):
                self.eat()
                args = [self.expr()]
                while self.peek() == ("op", ","):
                    self.eat()
                    args.append(self.expr())
                self.eat("op", ")")
                if name == "sqrt" and len(args) == 1:
                    return ("sqrt", args[0])
                if name == "pow" and len(args) == 2:
                    e = args[1]
                    if e[0] == "lit" and e[1].denominator == 1:
                        return ("powi", args[0], int(e[1]))
                    return ("powr", args[0], e)
                raise TranslateError("function call not in the expression language: %s/%d" % (name, len(args)))
            if name == "M_PI":
                return ("pi",)
            return ("ref", name)
        raise TranslateError("unexpected token %r" % (v,))


def parse_expr(txt):
    p = Parser(tokenize(txt))
    e = p.expr()
    if p.i != len(p.t):
        raise TranslateError("trailing tokens in initialiser: %r" % txt)
    return e


DEF = re.compile(r"^(?:static\s+|extern\s+)?(?:const|constexpr)\s+double\s+([A-Za-z_]\w*)\s*=\s*(.*)$", re.S)


def parse_units(src):
    """-> list of (name, expr) in textual order; only statements whose enclosing braces are all
    namespace braces are considered (function bodies are skipped)."""
    s = strip_comments(src)
    defs, stack, stmt, i = [], [], "", 0
    while i < len(s):
        c = s[i]
        if c == "{":
            stack.append(bool(re.search(r"\bnamespace\b[^;{}()=]*$", stmt)))
            stmt = ""
        elif c == "}":
            if stack:
                stack.pop()
            stmt = ""
        elif c == ";":
            if all(stack):
                st = stmt.strip()
                m = DEF.match(st)
                if m:
                    defs.append((m.group(1), parse_expr(m.group(2))))
                elif re.match(r"^(?:static\s+)?(?:const|constexpr)\s+(?:long\s+)?(?:double|float)\b", st):
                    raise TranslateError("definition form not understood: %r" % st[:80])
            stmt = ""
        elif c == "#":
            while i < len(s) and s[i] != "\n":
                i += 1
            continue
        else:
            stmt += c
        i += 1
    if not defs:
        raise TranslateError("no `const double NAME = EXPR;` found")
    return defs


def lean_expr(e):
    k = e[0]
    if k == "lit":
        return "(q %s %d)" % (("(%d)" % e[1].numerator) if e[1].numerator < 0 else str(e[1].numerator), e[1].denominator)
    if k == "ref":
        return '(ref "%s")' % e[1]
    if k == "pi":
        return "pi"
    if k == "neg":
        return "(neg %s)" % lean_expr(e[1])
    if k in ("add", "sub", "mul", "div", "powr"):
        return "(%s %s %s)" % (k, lean_expr(e[1]), lean_expr(e[2]))
    if k == "powi":
        return "(powi %s (%d))" % (lean_expr(e[1]), e[2])
    if k == "sqrt":
        return "(sqrt %s)" % lean_expr(e[1])
    raise TranslateError("bad node " + k)


def render(defs):
    L = ["-- GENERATED by translators/units.py from src/Natural_Units.cpp on every run of the C20 check.",
         "-- Do not edit: the file is rewritten whenever the C++ source changes (DESIGN.md §4.5).",
         "import LpModel.C20.Units",
         "namespace Lp.C20",
         "open Expr",
         "",
         "/-- every `const double NAME = EXPR;` of Natural_Units.cpp, in textual order -/",
         "def unitDefs : List (String × Expr) := ["]
    L.append(",\n".join('  ("%s", %s)' % (n, lean_expr(e)) for n, e in defs))
    L += ["]", "", "end Lp.C20", ""]
    return "\n".join(L)


def translate(repo):
    src = open(os.path.join(repo, "src", "Natural_Units.cpp")).read()
    return parse_units(src)


def write_if_changed(path, text):
    old = open(path).read() if os.path.exists(path) else None
    if old == text:
        return False
    os.makedirs(os.path.dirname(path), exist_ok=True)
    tmp = path + ".tmp%d" % os.getpid()
    with open(tmp, "w") as f:
        f.write(text)
    os.replace(tmp, path)
    return True


def main():
    here = os.path.dirname(os.path.abspath(__file__))
    repo = sys.argv[1] if len(sys.argv) > 1 else os.environ.get("LP_REPO", "/repo")
    out = sys.argv[2] if len(sys.argv) > 2 else os.path.join(here, "..", "lean", "LpModel", "C20", "Generated.lean")
    defs = translate(repo)
    ch = write_if_changed(os.path.abspath(out), render(defs))
    print("%d definitions; %s %s" % (len(defs), "rewrote" if ch else "unchanged", os.path.abspath(out)))


if __name__ == "__main__":
    main()
