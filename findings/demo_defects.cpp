// Demonstrations of the genuine defects of the pinned tree (DESIGN.md §10). Each demo runs in a
// forked child so that exits and sanitizer aborts are observations. Output: one line per demo.
//   build: g++ -std=c++14 -O1 -g -fsanitize=address,undefined -I/repo/include -I<gen> demo_defects.cpp <lib objs> -lconfig++
#define HZ_MAIN_DISABLED
#include "../harness/common.hpp"
#include <random>
#include "libphysica/Linear_Algebra.hpp"
#include "libphysica/Numerics.hpp"
#include "libphysica/Special_Functions.hpp"
#include "libphysica/Integration.hpp"
#include "libphysica/Statistics.hpp"
#include "libphysica/List_Manipulations.hpp"
namespace hz { int g_out_fd = 1; int g_fork_timeout_s = 20; long g_forks = 0, g_asan = 0, g_signals = 0; bool g_fork_all = false;
std::string handle(const std::string&, Args&) { return ""; } }
using namespace libphysica;
using namespace hz;
namespace libphysica { extern double GammaQcf(double x, double a); }
static unsigned g_seed = 12345;
unsigned int std::random_device::_M_getval() { return g_seed; }

static void demo(const char* name, const std::function<void(Out&)>& f)
{
	std::string r = run_forked(f);
	printf("%-28s %s\n", name, r.c_str());
	fflush(stdout);
}
int main()
{
	g_out_fd = dup(1);
	typedef std::vector<double> V;
	demo("matrix_plus_2x3_2x3", [](Out& o) { Matrix A(2, 3, 1.0), B(2, 3, 2.0); Matrix C = A + B; o << C[1][2]; });
	demo("matrix_plus_2x3_3x2", [](Out& o) { Matrix A(2, 3, 1.0), B(3, 2, 2.0); Matrix C = A + B; o << C[1][2]; });
	demo("matrix_pluseq_2x3_3x2", [](Out& o) { Matrix A(2, 3, 1.0), B(3, 2, 2.0); A += B; o << A[1][2]; });
	demo("inverse_exchange", [](Out& o) { Matrix M(std::vector<V>{{0, 1}, {1, 0}}); Matrix X = M.Inverse(); o << X[0][1] << X[1][0]; });
	demo("inverse_tiny_pivot", [](Out& o) { Matrix M(std::vector<V>{{1e-20, 1}, {1, 1}}); Matrix X = M.Inverse(); o << X[0][0] << X[0][1]; o << "(exact: -1 1)"; });
	demo("gammaQ_3_2", [](Out& o) { o << GammaQ(3.0, 2.0) << "(exact 4e^-3 =" << 4 * exp(-3.0) << ")"; });
	demo("find_root_powerlaw", [](Out& o) {
		int evals = 0;
		auto f = [&](double x) { evals++; return pow(x, 14.0) - pow(0.77, 14.0); };
		double r = Find_Root(f, 4e-3, 3e2, 3e-6); o << r << "(root 0.77)" << evals; });
	demo("interp_N2", [](Out& o) { Interpolation I(V{0, 1}, V{0, 1}); o << I(0.5); });
	demo("interp_N1", [](Out& o) { Interpolation I(V{0}, V{0}); o << I(0.0); });
	demo("interp2d_ragged", [](Out& o) { Interpolation_2D I(V{0, 1, 2}, V{0, 1, 2}, std::vector<V>{{1, 2, 3}, {1, 2}, {1, 2, 3}}); o << I(1.5, 1.5); });
	demo("sublist_upper_eq_size", [](Out& o) { std::vector<int> v = {1, 2, 3}; auto s = Sub_List(v, 0, 3); o << s.size(); });
	demo("vector_pluseq_longer", [](Out& o) { Vector a(V{1, 2}); Vector b(V{1, 2, 3}); a += b; o << a[0] << a[1] << a.Size(); });
	demo("vector_pluseq_shorter", [](Out& o) { Vector a(V{1, 2, 3}); Vector b(V{1, 2}); a += b; o << a[0]; });
	demo("cross_rhs_4", [](Out& o) { Vector a(V{1, 2, 3}); Vector b(V{1, 2, 3, 4}); Vector c = a.Cross(b); o << c[0]; });
	demo("matrix_index_0rows", [](Out& o) { Matrix M(0, 0); o << M[0].size(); });
	demo("matrix_ctor_empty", [](Out& o) { Matrix M(std::vector<V>{}); o << M.Rows(); });
	demo("local_min_skips_knot", [](Out& o) { Interpolation I(V{0, 1, 2, 3, 4}, V{5, 4, 1, 4, 5}); o << I.Local_Minimum(0.5, 2.5) << "(true min 1)"; });
	demo("global_max_prefactor", [](Out& o) { Interpolation I(V{0, 1, 2}, V{1, 2, 3}); I.Set_Prefactor(-2.0); o << I.Global_Maximum() << I.Global_Minimum() << I(2.0) << "(curve in [-6,-2])"; });
	demo("global2d_prefactor", [](Out& o) { Interpolation_2D I(V{0, 1, 2}, V{0, 1, 2}, std::vector<V>{{1, 2, 3}, {1, 2, 3}, {1, 2, 7}}); I.Multiply(-1.0); o << I.Global_Maximum() << I(2, 2); });
	demo("deriv2_history", [](Out& o) {
		V x = {0, 1, 2, 3, 4, 5, 6, 7, 8, 9, 10, 11, 12}, y = {0, 1, 0, 2, 0, 3, 0, 4, 0, 5, 0, 6, 0};
		Interpolation A(x, y), B(x, y);
		double fresh = A.Derivative(6.0, 2);
		B.Interpolate(5.5); B.Interpolate(5.6);   // correlated calls -> hunt mode, jLast = 5
		double used = B.Derivative(6.0, 2);
		o << fresh << used; });
	demo("miser_history", [](Out& o) {
		std::function<double(std::vector<double>&, const double)> g = [](std::vector<double>& x, const double) { double d0 = x[0] - 0.3, d1 = x[1] - 0.6; return exp(-(d0 * d0 + d1 * d1) / (2 * 4e-3 * 4e-3)); };
		std::function<double(std::vector<double>&, const double)> c3 = [](std::vector<double>& x, const double) { return x[0] + x[1] + x[2]; };
		V r2 = {0, 0, 1, 1}, r3 = {0, 0, 0, 1, 1, 1};
		double fresh = Integrate_MC(g, r2, 4000, "Miser");
		Integrate_MC(c3, r3, 3000, "Miser");
		double after = Integrate_MC(g, r2, 4000, "Miser");
		o << fresh << after; });
	demo("spherical_axis_minus_z", [](Out& o) { Vector v = Spherical_Coordinates(2.0, 0.7, 0.3, Vector(V{0, 0, -1})); o << v[0] << v[1] << v[2]; });
	demo("spherical_axis_near_z", [](Out& o) { Vector ax(V{1e-9, 0, 1}); Vector v = Spherical_Coordinates(1.0, 0.7, 0.3, ax); o << v.Norm() << (v * ax.Normalized()) << "(cos 0.7 =" << cos(0.7) << ")"; });
	demo("floats_equal_0_0", [](Out& o) { o << (int) Floats_Equal(0.0, 0.0, 1e-10); });
	demo("eigensystem_diag", [](Out& o) { Matrix M(V{3, 2, 1}); auto e = Eigensystem(M); o << e.first[0]; });
	demo("eigensystem_sym", [](Out& o) { Matrix M(std::vector<V>{{2, 1, 0}, {1, 3, 1}, {0, 1, 5}}); auto e = Eigensystem(M); o << e.first[0] << e.second[0][0]; });
	return 0;
}
