#!/bin/bash
# Build the Lean library, proofs and driver once (offline). Idempotent.
set -e
cd "$(dirname "$0")"
exec python3 check.py --setup
