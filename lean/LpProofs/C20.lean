/-
  C20 — property theorems (units part; the export/import part follows below).
-/
import LpModel.C20
import LpProofs.C20.Units
import LpProofs.C20.IO
-- coverage extension (Time_Display, Reduced_Mass, Formatted_String, Check_For_Warning, File_Exists, operator<<,
-- Save_Function, Interpolation_2D()): the property theorems live in these two modules
import LpProofs.C20.Cover
import LpProofs.C20.Cover2
-- character level of the export/import round trip (parseDec ∘ render, tokenizer, bytes)
import LpProofs.C20.Bytes
import LpProofs.C20.Chunk
import LpProofs.C20.Ragged
import LpProofs.C20.Box
namespace Lp.C20

/-! ## Initialisation order -/

/-- **units_init_sound** (generic, any table): if no name is defined twice and every name a
    dynamic definition refers to is static, or dynamic and textually earlier (`wellOrdered`),
    then after start-up every constant equals the value of its defining expression. -/
theorem units_init_sound (T : Transc) (defs : List Def) (h : wellOrdered defs = true) :
    ∀ p ∈ defs, value T defs p.1 = eval T (startup T defs) p.2 := by
  intro p hp
  simp only [wellOrdered, Bool.and_eq_true] at h
  obtain ⟨hnd, hdyn⟩ := h
  have hperm := split_perm defs []
  have hnd' : (names (staticDefs defs) ++ names (dynamicDefs defs)).Nodup := by
    have h1 : List.Perm (names (staticDefs defs) ++ names (dynamicDefs defs)) (defs.map (·.1)) := by
      have := hperm.map (·.1)
      simpa [names, staticDefs, dynamicDefs] using this
    exact h1.nodup_iff.mpr ((nodupNames_iff _).mp hnd)
  obtain ⟨hndS, hndD, hdisj⟩ := List.nodup_append.mp hnd'
  have hstat := static_readsOK defs []
  have hp' : p ∈ staticDefs defs ++ dynamicDefs defs := hperm.mem_iff.mpr hp
  unfold value startup
  rcases List.mem_append.mp hp' with hs | hd
  · -- a static definition: true after the static phase, untouched by the dynamic phase
    have h1 := run_sound T (staticDefs defs) [] [] hstat hndS (fun _ _ hc => by cases hc) p hs
    have hpn : p.1 ∈ names (staticDefs defs) := List.mem_map_of_mem hs
    have hnot : ∀ x ∈ names (staticDefs defs), x ∉ names (dynamicDefs defs) :=
      fun x hx hc => hdisj x hx x hc rfl
    rw [run_get_not_mem T _ _ _ (hnot _ hpn), h1]
    apply eval_congr
    intro x hx
    rcases readsOK_refs _ _ hstat p hs x hx with hc | hc
    · cases hc
    · exact (run_get_not_mem T _ _ _ (hnot _ hc)).symm
  · -- a dynamic definition
    exact run_sound T (dynamicDefs defs) (staticNames defs) _ hdyn hndD
      (fun n hn hc => hdisj n hc n hn rfl) p hd

example : wellOrdered [("J", .mul (.ref "kg") (.powi (.ref "m") 2)), ("kg", .q 1000 1), ("m", .q 5 1)] = true := by
  decide

/-- the model reflects the hazard: an ingredient that is itself dynamic and defined later is rejected -/
example : wellOrdered [("J", .mul (.ref "kg") (.powi (.ref "m") 2)), ("g", .q 1 1),
    ("kg", .mul (.powi (.q 10 1) 3) (.ref "g")), ("m", .q 5 1)] = false := by decide

/-- … and then the constant really is wrong after start-up (reads the zero-initialised `kg`) -/
example : valueQ [("J", .mul (.ref "kg") (.powi (.ref "m") 2)), ("g", .q 1 1),
    ("kg", .mul (.powi (.q 10 1) 3) (.ref "g")), ("m", .q 5 1)] "J" = some 0 := by decide +kernel

/-- **units_wellOrdered**: the table generated from the current `Natural_Units.cpp` is well ordered
    (kernel evaluation; re-checked whenever the translator rewrites `Generated.lean`). -/
theorem units_wellOrdered : wellOrdered unitDefs = true := by decide +kernel

/-- **units_correct**: every constant of `Natural_Units.cpp` equals its defining expression
    after start-up, in every build whose compiler folds call-free initialisers. -/
theorem units_correct (T : Transc) :
    ∀ p ∈ unitDefs, value T unitDefs p.1 = eval T (startup T unitDefs) p.2 :=
  units_init_sound T unitDefs units_wellOrdered

/-- the exact rational computed by the partial evaluator is the run-time value, for every
    interpretation of the opaque functions -/
theorem valueQ_sound (defs : List Def) (n : String) (v : Rat) (h : valueQ defs n = some v) (T : Transc) :
    value T defs n = v := by
  have hs := startupS_sound T defs n
  unfold valueQ valueS at h
  unfold value
  rw [← hs]
  split at h
  · rename_i w hw
    rw [hw]; simp only [Option.some.injEq] at h; rw [← h]; rfl
  · cases h

theorem identity_sound (defs : List Def) (lhs : String) (rhs : Expr) (h : identity defs lhs rhs = true)
    (T : Transc) : value T defs lhs = eval T (startup T defs) rhs ∧ value T defs lhs ≠ 0 := by
  unfold identity at h
  split at h
  · rename_i v w hv hw
    simp only [Bool.and_eq_true, decide_eq_true_eq] at h
    have h1 := valueQ_sound defs lhs v hv T
    have h2 := pe_sound T (startupS defs) (startup T defs) (startupS_sound T defs) rhs
    rw [hw] at h2
    refine ⟨?_, by rw [h1]; exact h.2⟩
    rw [h1, ← h2, h.1]; rfl
  · cases h

/-- **derived_units** (exact rational identities on the generated table, kernel evaluation):
    Joule = kg·m²/s², Newton, Watt, Pascal, erg, dyne, Volt·Coulomb = Joule, Ohm = Volt/Ampere,
    Tesla, Hz, the time and length multiples, … (`derivedIdentities`), each side non-zero. -/
theorem derived_units : derivedOK unitDefs = true := by decide +kernel

/-- the same, spelled out semantically for every interpretation of `M_PI`, `sqrt`, `pow` -/
theorem derived_units_sem (T : Transc) : ∀ p ∈ derivedIdentities,
    value T unitDefs p.1 = eval T (startup T unitDefs) p.2 ∧ value T unitDefs p.1 ≠ 0 := by
  intro p hp
  have h := List.all_eq_true.mp derived_units p hp
  exact identity_sound unitDefs p.1 p.2 h T

/-- e.g. Joule -/
theorem joule_def (T : Transc) :
    value T unitDefs "Joule"
      = value T unitDefs "kg" * (value T unitDefs "meter" * value T unitDefs "meter")
        / (value T unitDefs "sec" * value T unitDefs "sec") :=
  (derived_units_sem T ("Joule", .div (.mul (.ref "kg") (.mul (.ref "meter") (.ref "meter")))
      (.mul (.ref "sec") (.ref "sec"))) (by simp [derivedIdentities])).1

/-! ## Six significant digits, export / import (token level) -/
open Lp.Dec

/-- **fmt6_roundtrip** (token level): for every rational `x ≠ 0` the number written by
    `ostream << x` is a six-digit decimal `±m·10^(e'−5)`, `10^5 ≤ m < 10^6`, whose value `v`
    (what `>>` reads back) satisfies `|v − x| ≤ ½·10^(e(x)−5)`, `e(x) = ⌊log₁₀|x|⌋`.
    (Character level — `parseDec (render d) = d.value` — is `parseDec_render` /
    `fmt6_roundtrip_chars` below; the driver still validates it on every request.) -/
theorem fmt6_roundtrip (x : ℚ) (hx : x ≠ 0) :
    ∃ d : Dec6, tokOf x = .num d ∧ fmt6 x = render d ∧ (tokOf x).value = some d.value ∧
      100000 ≤ d.m ∧ d.m ≤ 999999 ∧
      pow10 (expo10 |x|) ≤ |x| ∧ |x| < pow10 (expo10 |x| + 1) ∧
      |d.value - x| ≤ 1 / 2 * pow10 (expo10 |x| - 5) := by
  obtain ⟨d, hd, hb, hm1, hm2⟩ := tokOf_bound x hx
  have hs := expo10_spec |x| (abs_pos.mpr hx)
  exact ⟨d, hd, by simp [fmt6, hd, Tok.chars], by simp [hd, Tok.value], hm1, hm2, hs.1, hs.2, hb⟩

theorem fmt6_zero : fmt6 0 = ['0'] ∧ (tokOf 0).value = some 0 := by
  simp [fmt6, tokOf, Tok.chars, Tok.value]

example : String.ofList (fmt6 (1234567 / 1000)) = "1234.57" ∧ parseDec (fmt6 (1234567 / 1000)) = some (123457 / 100) := by
  decide +kernel
example : String.ofList (fmt6 (-1 / 4000000)) = "-2.5e-07" ∧ parseDec (fmt6 (-1 / 4000000)) = some (-1 / 4000000) := by
  decide +kernel
example : String.ofList (fmt6 (9999995 / 10)) = "1e+06" ∧ String.ofList (fmt6 1234565) = "1.23456e+06" := by
  decide +kernel

/-- what one entry `x` in units `u` becomes after export and import: `v·u` with `v` the
    six-digit value of `x/u` -/
theorem back_bound (x u : ℚ) :
    ∃ v, back x u = v * u ∧ (x / u = 0 → v = 0) ∧
      (x / u ≠ 0 → |v - x / u| ≤ 1 / 2 * pow10 (expo10 |x / u| - 5)) := by
  unfold back
  by_cases h : x / u = 0
  · refine ⟨0, ?_, fun _ => rfl, fun h' => absurd h h'⟩
    simp [tokOf, h, Tok.value]
  · obtain ⟨d, hd, hb, _, _⟩ := tokOf_bound (x / u) h
    exact ⟨d.value, by simp [hd, Tok.value], fun h' => absurd h' h, fun _ => hb⟩

/-- **table_roundtrip** (token level): for every rectangular table (`r ≥ 1` rows, `c ≥ 1` columns),
    every header (any number of lines, any content), no unit factors or one per column:
    `Export_Table` succeeds, and `Import_Table` with the same unit factors and the number of
    header lines written returns a table of the same shape whose entry `(i,j)` is
    `back x_ij u_j` — within half a unit of the sixth significant digit in units `u_j`
    (`back_bound`; a unit factor `0` makes `x/u` meaningless, the bound needs `u ≠ 0` only
    through `x/u`).  `1 ≤ c` is not needed at token level; it is kept because a row without
    columns writes no line at character level. -/
theorem table_roundtrip (data : List (List ℚ)) (dims : List ℚ) (header : List (List Tok)) (c : ℕ)
    (hr : data ≠ []) (_hc : 1 ≤ c) (hrect : ∀ row ∈ data, row.length = c)
    (hd : dims = [] ∨ dims.length = c) :
    ∃ f, exportT data dims header = .ok f ∧ f.header = header ∧ f.rows.length = data.length ∧
      importT f dims header.length
        = .ok (data.map (fun row => List.zipWith back row (unitRow dims row))) := by
  have hguard : ¬ (!dims.isEmpty ∧ data.any (fun r => decide (r.length ≠ dims.length)) = true) := by
    rintro ⟨h1, h2⟩
    obtain ⟨row, hrow, hne⟩ := List.any_eq_true.mp h2
    rcases hd with h | h
    · simp [h] at h1
    · simp [hrect row hrow, h] at hne
  refine ⟨⟨header, data.map (exportRowT dims)⟩, ?_, rfl, by simp, ?_⟩
  · unfold exportT; rw [if_neg hguard]
  · unfold importT TFile.lines
    simp only [List.length_append, List.length_map, List.drop_left]
    have hnum : ∀ t ∈ (data.map (exportRowT dims)).flatten, ∃ v, t.value = some v := by
      intro t ht
      obtain ⟨l, hl, htl⟩ := List.mem_flatten.mp ht
      obtain ⟨row, _, rfl⟩ := List.mem_map.mp hl
      unfold exportRowT at htl
      obtain ⟨i, hi, rfl⟩ := List.mem_iff_getElem.mp htl
      simp only [List.getElem_zipWith]
      exact tokOf_value_some _
    rw [readAll_num _ hnum]
    have hrows : ∀ l ∈ data.map (fun row => (exportRowT dims row).map tokVal), l.length = c := by
      intro l hl
      obtain ⟨row, hrow, rfl⟩ := List.mem_map.mp hl
      rw [List.length_map, exportRowT_length dims row c (hrect row hrow) hd]
    have hvals : ((data.map (exportRowT dims)).map (List.map tokVal)).flatten
        = (data.map (fun row => (exportRowT dims row).map tokVal)).flatten := by
      rw [List.map_map]; rfl
    rw [List.map_flatten, hvals]
    unfold importCore
    have hlen : 0 < data.length := List.length_pos_iff.mpr hr
    rw [if_neg (by omega), if_neg (by omega)]
    have hrowsN : header.length + data.length - header.length = data.length := by omega
    simp only [hrowsN]
    have hflat := length_flatten_const _ c hrows
    simp only [List.length_map] at hflat
    have hcols : (data.map (fun row => (exportRowT dims row).map tokVal)).flatten.length / data.length = c := by
      rw [hflat]; exact Nat.mul_div_cancel_left c hlen
    rw [hcols]
    have hg2 : ¬ (!dims.isEmpty ∧ dims.length ≠ c) := by
      rintro ⟨h1, h2⟩
      rcases hd with h | h
      · simp [h] at h1
      · exact h2 h
    rw [if_neg hg2]
    have hch := chunks_flatten _ c hrows
    simp only [List.length_map] at hch
    rw [hch, List.map_map]
    congr 1
    apply List.map_congr_left
    intro row hrow
    exact row_back dims row c hd

/-- same shape -/
theorem table_roundtrip_shape (data : List (List ℚ)) (dims : List ℚ) (c : ℕ)
    (hrect : ∀ row ∈ data, row.length = c) (hd : dims = [] ∨ dims.length = c) :
    (data.map (fun row => List.zipWith back row (unitRow dims row))).length = data.length ∧
    ∀ row ∈ data.map (fun row => List.zipWith back row (unitRow dims row)), row.length = c := by
  refine ⟨by simp, ?_⟩
  intro l hl
  obtain ⟨row, hrow, rfl⟩ := List.mem_map.mp hl
  rw [List.length_zipWith, unitRow_length dims row c (hrect row hrow) hd, hrect row hrow]; simp

example : ∃ f, exportT [[1, 5 / 2], [3, 1099511627776]] [1, 2] [[.raw "#".toList, .raw "h".toList]] = .ok f ∧
    importT f [1, 2] 1 = .ok [[1, 5 / 2], [3, 1099512000000]] := by
  refine ⟨_, rfl, ?_⟩
  decide +kernel

/-- **list_roundtrip** (token level): `Import_List(Export_List(data, u, header), u, #header lines)`
    has the same length and entry `i` is `back x_i u` -/
theorem list_roundtrip (data : List ℚ) (u : ℚ) (header : List (List Tok)) :
    importListT (exportListT data u header) u header.length = data.map (fun x => back x u) := by
  unfold importListT exportListT
  rw [List.drop_left]
  have hnum : ∀ t ∈ (data.map (fun x => [tokOf (x / u)])).flatten, ∃ v, t.value = some v := by
    intro t ht
    obtain ⟨l, hl, htl⟩ := List.mem_flatten.mp ht
    obtain ⟨x, _, rfl⟩ := List.mem_map.mp hl
    simp only [List.mem_singleton] at htl
    subst htl
    exact tokOf_value_some _
  rw [readAll_num _ hnum]
  induction data with
  | nil => rfl
  | cons x r ih =>
    simp only [List.map_cons, List.flatten_cons, List.singleton_append, back, tokVal]
    congr 1
    apply ih
    intro t ht
    exact hnum t (by simp only [List.map_cons, List.flatten_cons, List.singleton_append, List.mem_cons]; exact Or.inr ht)

/-! ## Character level of one value -/

/-- **parseDec_render** (restated for the obligations list; proof in `LpProofs/C20/Chars.lean`, by
    induction over the digit lists through core's `Nat.toDigits` / `Nat.ofDigitChars` lemmas):
    parsing the rendered STRING of a six-digit decimal returns exactly its value — every sign, every
    mantissa `< 10^6`, every exponent; scientific branch (`e < −4 ∨ e ≥ 6`, exponent with sign and at
    least two digits), fixed branch with the point inside, fixed branch `0.000ddd`; trailing zeros
    and the bare point stripped. -/
theorem parseDec_render_all (d : Dec6) (hm : 100000 ≤ d.m ∧ d.m ≤ 999999) :
    parseDec (render d) = some d.value ∧ parseDec ['0'] = some 0 :=
  ⟨parseDec_render d (by omega), parseDec_zero⟩

example : (100000 ≤ (⟨true, 250000, -7⟩ : Dec6).m ∧ (⟨true, 250000, -7⟩ : Dec6).m ≤ 999999) := by decide

/-- **fmt6_roundtrip_chars** (character level of `fmt6_roundtrip`): the characters `ostream << x`
    writes parse (`istream >> y`) to a value within half a unit of the sixth significant digit of `x` -/
theorem fmt6_roundtrip_chars (x : ℚ) (hx : x ≠ 0) :
    ∃ v, parseDec (fmt6 x) = some v ∧ |v - x| ≤ 1 / 2 * pow10 (expo10 |x| - 5) := by
  obtain ⟨d, hd, hb, _, hm⟩ := tokOf_bound x hx
  refine ⟨d.value, ?_, hb⟩
  unfold fmt6
  rw [hd]
  exact parseDec_render d (by omega)

example : ∃ v, parseDec (fmt6 (1234567 / 1000)) = some v ∧ v = 123457 / 100 := ⟨_, by decide +kernel, rfl⟩

theorem fmt6_zero_chars : parseDec (fmt6 0) = some 0 := by
  rw [fmt6_zero.1]; exact parseDec_zero

/-- **render_no_separator**: a rendered six-digit decimal (any sign, mantissa, exponent) is not
    empty and consists of digits, `-`, `+`, `.`, `e` only; in particular it contains no blank, tab,
    line feed, carriage return, vertical tab or form feed; the same for everything `fmt6` writes -/
theorem render_no_separator (d : Dec6) :
    render d ≠ [] ∧ (∀ c ∈ render d, OkChar c) ∧ NoWs (render d) ∧ NoNl (render d) :=
  ⟨render_ne_nil d, render_chars d, fun c hc => okChar_not_ws (render_chars d c hc),
    fun c hc => okChar_ne_nl (render_chars d c hc)⟩

theorem fmt6_no_separator (x : ℚ) : fmt6 x ≠ [] ∧ NoWs (fmt6 x) ∧ NoNl (fmt6 x) := fmt6_noWs x

/-- **line_tokenize**: splitting a rendered table line `r₁ \t r₂ \t … \t r_k` on white space returns
    exactly the `k` rendered strings (any `k`, any values) -/
theorem line_tokenize (ys : List ℚ) : splitWs (joinWith '\t' (ys.map fmt6)) [] = ys.map fmt6 := by
  apply splitWs_joinWith_tokens '\t' (by decide)
  intro t ht
  obtain ⟨y, _, rfl⟩ := List.mem_map.mp ht
  exact ⟨(fmt6_noWs y).1, (fmt6_noWs y).2.1⟩

example : String.ofList (joinWith '\t' ([1, -5 / 2, 0].map fmt6)) = "1\t-2.5\t0" := by decide +kernel

/-! ## Export / import at BYTE level -/

/-- **export_import_bytes_roundtrip**: for every rectangular table of rationals (`r ≥ 1` rows,
    `c ≥ 1` columns), every header text (any number `h` of lines, each shorter than the 10000
    characters `ignore` skips at most), no unit factors or one non-zero factor per column, and every
    written six-digit value in the finite `long double` range of the reader (after 5c3fb95; true of every quotient of finite non-zero doubles: `inLd_quotient`): `Export_Table` succeeds; `Count_Lines` of
    the BYTES it writes is `h + r`; lexing those bytes the way the import does (`h` × `ignore`, then
    `>>` tokens) yields exactly the `r·c` renderings in row order; and `Import_Table` of the bytes
    with `ignored_initial_lines = h` and the same unit factors returns the table of the same shape
    whose entry `(i,j)` is `back x_ij u_j` — the six-digit value of `x_ij/u_j` times `u_j`, hence
    within half a unit of the sixth significant digit (`back_bound`). -/
theorem export_import_bytes_roundtrip (data : List (List ℚ)) (dims : List ℚ) (header : List Char) (c : ℕ)
    (hr : data ≠ []) (hc : 1 ≤ c) (hrect : ∀ row ∈ data, row.length = c)
    (hd : dims = [] ∨ dims.length = c) (_hu : ∀ u ∈ dims, u ≠ 0)
    (hh : ∀ l ∈ headerLinesC header, l.length < 10000)
    (hfin : ∀ row ∈ data, ∀ t ∈ exportRowT dims row, InLd (tokVal t)) :
    ∃ bytes, exportTable data dims header = .ok bytes ∧
      countLines bytes = headerLineCount header + data.length ∧
      lexFile bytes (headerLineCount header)
        = (data.map (fun row => (exportRowT dims row).map Tok.chars)).flatten ∧
      importTable bytes dims (headerLineCount header)
        = .ok (data.map (fun row => List.zipWith back row (unitRow dims row))) := by
  have hne : ∀ row ∈ data, row ≠ [] := by
    intro row hrow h
    have := hrect row hrow
    subst h
    simp only [List.length_nil] at this
    omega
  have hg := guard_of_rect hrect hd
  have hcount := countLines_export data dims header hr hne
  have hlex : lexFile (joinWith nl (headerLinesC header ++ data.map (rowLine dims))) (headerLineCount header)
      = ((data.map (exportRowT dims)).flatten).map Tok.chars := by
    rw [lexFile_export data dims header hr hh, List.map_flatten, List.map_map]
    congr 1
    apply List.map_congr_left
    intro row hrow
    exact rowToksC_eq_T dims row
      (by rcases hd with h | h; exact Or.inl h; exact Or.inr (by rw [h, hrect row hrow]))
  refine ⟨_, exportTable_lines data dims header hr hne hg, hcount, ?_, ?_⟩
  · rw [hlex, List.map_flatten, List.map_map]; rfl
  · -- the token-level round trip, with `h` (empty) header token lines
    obtain ⟨f, hf, _, _, himp⟩ :=
      table_roundtrip data dims (List.replicate (headerLineCount header) []) c hr hc hrect hd
    have hfe : f = ⟨List.replicate (headerLineCount header) [], data.map (exportRowT dims)⟩ := by
      unfold exportT at hf
      split at hf
      · cases hf
      · cases hf; rfl
    subst hfe
    have hnum : ∀ t ∈ (data.map (exportRowT dims)).flatten, ∃ v, t.value = some v := by
      intro t ht
      obtain ⟨l, hl, htl⟩ := List.mem_flatten.mp ht
      obtain ⟨row, _, rfl⟩ := List.mem_map.mp hl
      obtain ⟨y, rfl⟩ := mem_exportRowT htl
      exact tokOf_value_some y
    unfold importT TFile.lines at himp
    simp only at himp
    rw [List.drop_left, readAll_num _ hnum] at himp
    simp only [List.length_append, List.length_replicate, List.length_map] at himp
    have hread : readAllC (((data.map (exportRowT dims)).flatten).map Tok.chars)
        = .ok (((data.map (exportRowT dims)).flatten).map tokVal) := by
      apply readAllC_toks
      intro t ht
      obtain ⟨l, hl, htl⟩ := List.mem_flatten.mp ht
      obtain ⟨row, hrow, rfl⟩ := List.mem_map.mp hl
      obtain ⟨y, hy⟩ := mem_exportRowT htl
      exact ⟨by rw [hy]; exact parseDec_tokOf y, hfin row hrow t htl⟩
    unfold importTable
    rw [hlex, hread, hcount]
    exact himp

/-- non-vacuity: two header lines, two unit factors, fixed and scientific notation, a zero -/
example : ∃ bytes, exportTable [[1, 5 / 2], [0, -1099511627776]] [1, 2] "# a\n# x\ty".toList = .ok bytes ∧
    String.ofList bytes = "# a\n# x\ty\n1\t1.25\n0\t-5.49756e+11" ∧
    headerLineCount "# a\n# x\ty".toList = 2 ∧ countLines bytes = 4 ∧
    importTable bytes [1, 2] 2 = .ok [[1, 5 / 2], [0, -1099512000000]] := by
  refine ⟨_, rfl, ?_⟩
  decide +kernel

example : InLd (tokVal (tokOf (5 / 2))) ∧ InLd (tokVal (tokOf 0)) :=
  ⟨inLd_tokOf _ (Or.inr (by decide +kernel)), inLd_tokOf _ (Or.inl rfl)⟩

/-- non-vacuity: the hypotheses of the theorem hold for this table, and the theorem's conclusion is
    the round trip computed above -/
example : ∃ bytes, exportTable [[1, 5 / 2], [0, -1099511627776]] [1, 2] "# a\n# x\ty".toList = .ok bytes ∧
    countLines bytes = 2 + 2 ∧
    importTable bytes [1, 2] 2 = .ok ([[1, 5 / 2], [0, -1099511627776]].map
      (fun row => List.zipWith back row (unitRow [1, 2] row))) := by
  obtain ⟨b, h1, h2, _, h4⟩ := export_import_bytes_roundtrip [[1, 5 / 2], [0, -1099511627776]] [1, 2]
    "# a\n# x\ty".toList 2 (by decide) (by decide) (by decide +kernel) (by decide) (by decide +kernel)
    (by decide +kernel) (by decide +kernel)
  exact ⟨b, h1, h2, h4⟩

example : ∃ bytes f, exportTable [[1, 5 / 2], [0, -1099511627776]] [1, 2] "# a\n# x\ty".toList = .ok bytes ∧
    exportT [[1, 5 / 2], [0, -1099511627776]] [1, 2] (headerLinesT "# a\n# x\ty".toList) = .ok f ∧
    glueOK bytes f = true :=
  glue_proved _ _ _ 2 (by decide) (by decide) (by decide +kernel) (by decide)

/-- **list_bytes_roundtrip**: `Import_List` of the BYTES `Export_List` writes (any header text with
    lines shorter than 10000 characters, `ignored_initial_lines` = its line count, any unit `u`,
    written values in the finite `long double` range: `inLd_quotient`) returns `back x_i u` for every entry, in order -/
theorem list_bytes_roundtrip (data : List ℚ) (u : ℚ) (header : List Char)
    (hh : ∀ l ∈ headerLinesC header, l.length < 10000)
    (hfin : ∀ x ∈ data, InLd (tokVal (tokOf (x / u)))) :
    importList (exportList data u header) u (headerLineCount header) = .ok (data.map (fun x => back x u)) := by
  unfold importList exportList lexFile
  rw [skipLines_header header _ hh, splitWs_listBody u data]
  have h1 : data.map (fun x => fmt6 (x / u)) = (data.map (fun x => tokOf (x / u))).map Tok.chars := by
    rw [List.map_map]; rfl
  rw [h1, readAllC_toks]
  · simp only [bind, Except.bind, pure, Except.pure, List.map_map]
    rfl
  · intro t ht
    obtain ⟨x, hx, rfl⟩ := List.mem_map.mp ht
    exact ⟨parseDec_tokOf _, hfin x hx⟩

example : importList (exportList [1, 5 / 2, 1099511627776] 2 "# h".toList) 2 1 = .ok [1, 5 / 2, 1099512000000] := by
  decide +kernel
example : importList (exportList [1, 5 / 2, 1099511627776] 2 "# h".toList) 2 (headerLineCount "# h".toList)
    = .ok ([1, 5 / 2, 1099511627776].map (fun x => back x 2)) :=
  list_bytes_roundtrip _ _ _ (by decide +kernel) (by decide +kernel)

/-- dimension mismatch → diagnostic (export and import) -/
theorem exportT_mismatch (data : List (List ℚ)) (dims : List ℚ) (header : List (List Tok))
    (hd : dims ≠ []) (row : List ℚ) (hrow : row ∈ data) (hne : row.length ≠ dims.length) :
    exportT data dims header = .error .diag := by
  unfold exportT
  rw [if_pos]
  refine ⟨by simpa using hd, ?_⟩
  exact List.any_eq_true.mpr ⟨row, hrow, by simpa using hne⟩

theorem importCore_mismatch (n : ℕ) (vals dims : List ℚ) (k : ℕ) (hk : k < n) (hd : dims ≠ [])
    (hne : dims.length ≠ vals.length / (n - k)) : importCore n vals dims k = .error .diag := by
  unfold importCore
  rw [if_neg (by omega), if_neg (by omega), if_pos ⟨by simpa using hd, hne⟩]

/-- **no line left after the ignored ones is an empty table** (5eb5000): an empty file, or a file that
    holds header lines only, read with that number of ignored lines — whatever tokens and unit factors -/
theorem importCore_no_lines (n : ℕ) (vals dims : List ℚ) : importCore n vals dims n = .ok [] := by
  unfold importCore
  rw [if_neg (by omega), if_pos rfl]

/-- the export of a table without rows is the header alone (or nothing), and reading it back with the
    number of header lines written gives the empty table -/
theorem empty_table_roundtrip (dims : List ℚ) (header : List (List Tok)) :
    ∃ f, exportT [] dims header = .ok f ∧ importT f dims header.length = .ok [] := by
  refine ⟨⟨header, []⟩, ?_, ?_⟩
  · unfold exportT; simp
  · unfold importT TFile.lines
    simp only [List.append_nil]
    exact importCore_no_lines _ _ _

/-! ## In_Units -/

/-- **inUnits_undo**: `In_Units(x·u, u) = x` for `u ≠ 0`; with rounding it is `Round(x, digits)` -/
theorem inUnits_undo (x u : ℚ) (hu : u ≠ 0) (d : ℕ) :
    inUnits (x * u) u false d = .ok x ∧ inUnits (x * u) u true d = C17.round x d := by
  unfold inUnits
  simp [mul_div_cancel_right₀ x hu]

theorem inUnitsList_undo (xs : List ℚ) (u : ℚ) (hu : u ≠ 0) (d : ℕ) :
    inUnitsList (xs.map (· * u)) u false d = .ok xs := by
  unfold inUnitsList
  induction xs with
  | nil => rfl
  | cons x r ih =>
    simp only [List.map_cons, mapE, (inUnits_undo x u hu d).1, ih]
    rfl

theorem inUnitsTable_undo (t : List (List ℚ)) (u : ℚ) (hu : u ≠ 0) (d : ℕ) :
    inUnitsTable (t.map (fun r => r.map (· * u))) u false d = .ok t := by
  unfold inUnitsTable
  induction t with
  | nil => rfl
  | cons x r ih =>
    simp only [List.map_cons, mapE, inUnitsList_undo x u hu d, ih]
    rfl

theorem zipE_undo : ∀ (row us : List ℚ), row.length = us.length → (∀ u ∈ us, u ≠ 0) → ∀ d : ℕ,
    zipE (fun x u => inUnits x u false d) (List.zipWith (· * ·) row us) us = .ok row := by
  intro row
  induction row with
  | nil => intro us h _ d; cases us <;> simp_all [zipE]
  | cons x r ih =>
    intro us h hu d
    cases us with
    | nil => simp at h
    | cons u s =>
      simp only [List.zipWith_cons_cons, zipE, (inUnits_undo x u (hu u (by simp)) d).1,
        ih s (by simpa using h) (fun u' hu' => hu u' (by simp [hu'])) d]
      rfl

/-- per-column overload -/
theorem inUnitsCols_undo (t : List (List ℚ)) (us : List ℚ) (hrect : ∀ r ∈ t, r.length = us.length)
    (hu : ∀ u ∈ us, u ≠ 0) (d : ℕ) :
    inUnitsCols (t.map (fun r => List.zipWith (· * ·) r us)) us false d = .ok t := by
  unfold inUnitsCols
  induction t with
  | nil => rfl
  | cons x r ih =>
    have hx : x.length = us.length := hrect x (by simp)
    simp only [List.map_cons, mapE]
    rw [if_neg (by simp [List.length_zipWith, hx]), zipE_undo x us hx hu d,
      ih (fun r' hr' => hrect r' (by simp [hr']))]
    rfl

/-- all overloads preserve the shape (also with rounding) -/
theorem inUnitsList_length (xs : List ℚ) (u : ℚ) (r : Bool) (d : ℕ) (ys : List ℚ)
    (h : inUnitsList xs u r d = .ok ys) : ys.length = xs.length := by
  unfold inUnitsList at h
  induction xs generalizing ys with
  | nil => simp [mapE] at h; subst h; rfl
  | cons x r' ih =>
    simp only [mapE] at h
    cases hx : inUnits x u r d with
    | error e => simp [hx, bind, Except.bind] at h
    | ok b =>
      cases hr : mapE (fun x => inUnits x u r d) r' with
      | error e => simp [hx, hr, bind, Except.bind] at h
      | ok bs =>
        simp [hx, hr, bind, Except.bind, pure, Except.pure] at h
        subst h
        simp [ih bs hr]

/-- dimension-count mismatch → diagnostic -/
theorem inUnitsCols_mismatch (row : List ℚ) (rest : List (List ℚ)) (us : List ℚ) (r : Bool) (d : ℕ)
    (hne : row.length ≠ us.length) : inUnitsCols (row :: rest) us r d = .error .diag := by
  unfold inUnitsCols
  simp [mapE, hne, bind, Except.bind]

end Lp.C20
