import LpModel.C20
namespace Lp.C20

theorem units_wellOrdered : wellOrdered unitDefs = true := by decide +kernel
theorem derived_units : derivedOK unitDefs = true := by decide +kernel

#eval (dynamicDefs unitDefs).map (·.1)
#eval (valueS unitDefs "mPlanck_reduced").show
#eval (valueS unitDefs "Joule").show
end Lp.C20
