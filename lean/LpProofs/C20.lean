/-
  C20 — property theorems (units part; the export/import part follows below).
-/
import LpModel.C20
import LpProofs.C20.Units
namespace Lp.C20

/-! ## Initialisation order -/

/-- **units_init_sound** (generic, any table): if no name is defined twice and every name a
    dynamic definition refers to is static, or dynamic and textually earlier (`wellOrdered`),
    then after start-up every constant equals the value of its defining expression. -/
theorem units_init_sound (T : Transc) (defs : List Def) (h : wellOrdered defs = true) :
    ∀ p ∈ defs, value T defs p.1 = eval T (startup T defs) p.2 := by
  intro p hp
  simp only [wellOrdered, Bool.and_eq_true] at h
  obtain ⟨hnd, hdyn⟩ := h
  have hperm := split_perm defs []
  have hnd' : (names (staticDefs defs) ++ names (dynamicDefs defs)).Nodup := by
    have h1 : List.Perm (names (staticDefs defs) ++ names (dynamicDefs defs)) (defs.map (·.1)) := by
      have := hperm.map (·.1)
      simpa [names, staticDefs, dynamicDefs] using this
    exact h1.nodup_iff.mpr ((nodupNames_iff _).mp hnd)
  obtain ⟨hndS, hndD, hdisj⟩ := List.nodup_append.mp hnd'
  have hstat := static_readsOK defs []
  have hp' : p ∈ staticDefs defs ++ dynamicDefs defs := hperm.mem_iff.mpr hp
  unfold value startup
  rcases List.mem_append.mp hp' with hs | hd
  · -- a static definition: true after the static phase, untouched by the dynamic phase
    have h1 := run_sound T (staticDefs defs) [] [] hstat hndS (fun _ _ hc => by cases hc) p hs
    have hpn : p.1 ∈ names (staticDefs defs) := List.mem_map_of_mem hs
    have hnot : ∀ x ∈ names (staticDefs defs), x ∉ names (dynamicDefs defs) :=
      fun x hx hc => hdisj x hx x hc rfl
    rw [run_get_not_mem T _ _ _ (hnot _ hpn), h1]
    apply eval_congr
    intro x hx
    rcases readsOK_refs _ _ hstat p hs x hx with hc | hc
    · cases hc
    · exact (run_get_not_mem T _ _ _ (hnot _ hc)).symm
  · -- a dynamic definition
    exact run_sound T (dynamicDefs defs) (staticNames defs) _ hdyn hndD
      (fun n hn hc => hdisj n hc n hn rfl) p hd

example : wellOrdered [("J", .mul (.ref "kg") (.powi (.ref "m") 2)), ("kg", .q 1000 1), ("m", .q 5 1)] = true := by
  decide

/-- the model reflects the hazard: an ingredient that is itself dynamic and defined later is rejected -/
example : wellOrdered [("J", .mul (.ref "kg") (.powi (.ref "m") 2)), ("g", .q 1 1),
    ("kg", .mul (.powi (.q 10 1) 3) (.ref "g")), ("m", .q 5 1)] = false := by decide

/-- … and then the constant really is wrong after start-up (reads the zero-initialised `kg`) -/
example : valueQ [("J", .mul (.ref "kg") (.powi (.ref "m") 2)), ("g", .q 1 1),
    ("kg", .mul (.powi (.q 10 1) 3) (.ref "g")), ("m", .q 5 1)] "J" = some 0 := by decide +kernel

/-- **units_wellOrdered**: the table generated from the current `Natural_Units.cpp` is well ordered
    (kernel evaluation; re-checked whenever the translator rewrites `Generated.lean`). -/
theorem units_wellOrdered : wellOrdered unitDefs = true := by decide +kernel

/-- **units_correct**: every constant of `Natural_Units.cpp` equals its defining expression
    after start-up, in every build whose compiler folds call-free initialisers. -/
theorem units_correct (T : Transc) :
    ∀ p ∈ unitDefs, value T unitDefs p.1 = eval T (startup T unitDefs) p.2 :=
  units_init_sound T unitDefs units_wellOrdered

/-- the exact rational computed by the partial evaluator is the run-time value, for every
    interpretation of the opaque functions -/
theorem valueQ_sound (defs : List Def) (n : String) (v : Rat) (h : valueQ defs n = some v) (T : Transc) :
    value T defs n = v := by
  have hs := startupS_sound T defs n
  unfold valueQ valueS at h
  unfold value
  rw [← hs]
  split at h
  · rename_i w hw
    rw [hw]; simp only [Option.some.injEq] at h; rw [← h]; rfl
  · cases h

theorem identity_sound (defs : List Def) (lhs : String) (rhs : Expr) (h : identity defs lhs rhs = true)
    (T : Transc) : value T defs lhs = eval T (startup T defs) rhs ∧ value T defs lhs ≠ 0 := by
  unfold identity at h
  split at h
  · rename_i v w hv hw
    simp only [Bool.and_eq_true, decide_eq_true_eq] at h
    have h1 := valueQ_sound defs lhs v hv T
    have h2 := pe_sound T (startupS defs) (startup T defs) (startupS_sound T defs) rhs
    rw [hw] at h2
    refine ⟨?_, by rw [h1]; exact h.2⟩
    rw [h1, ← h2, h.1]; rfl
  · cases h

/-- **derived_units** (exact rational identities on the generated table, kernel evaluation):
    Joule = kg·m²/s², Newton, Watt, Pascal, erg, dyne, Volt·Coulomb = Joule, Ohm = Volt/Ampere,
    Tesla, Hz, the time and length multiples, … (`derivedIdentities`), each side non-zero. -/
theorem derived_units : derivedOK unitDefs = true := by decide +kernel

/-- the same, spelled out semantically for every interpretation of `M_PI`, `sqrt`, `pow` -/
theorem derived_units_sem (T : Transc) : ∀ p ∈ derivedIdentities,
    value T unitDefs p.1 = eval T (startup T unitDefs) p.2 ∧ value T unitDefs p.1 ≠ 0 := by
  intro p hp
  have h := List.all_eq_true.mp derived_units p hp
  exact identity_sound unitDefs p.1 p.2 h T

/-- e.g. Joule -/
theorem joule_def (T : Transc) :
    value T unitDefs "Joule"
      = value T unitDefs "kg" * (value T unitDefs "meter" * value T unitDefs "meter")
        / (value T unitDefs "sec" * value T unitDefs "sec") :=
  (derived_units_sem T ("Joule", .div (.mul (.ref "kg") (.mul (.ref "meter") (.ref "meter")))
      (.mul (.ref "sec") (.ref "sec"))) (by simp [derivedIdentities])).1

end Lp.C20
