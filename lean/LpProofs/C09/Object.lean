/-
  Helper lemmas for C09 (also used by C08): every query of the object is a *pure* function of
  the table and the prefactor — the search state only decides how the index is found, never
  which index — and leaves behind an admissible search state.
-/
import LpProofs.C09.Locate
import LpProofs.C01.Table
namespace Lp.C09
open Lp.Interp

/-- what the constructor establishes about the table (independent of the search state) -/
structure Tbl (o : Obj) : Prop where
  hN : 3 ≤ o.N
  mono : Mono o.N o.x

/-- the invariant of the search state: `jLast ≤ N-2` -/
def Inv (o : Obj) (st : LState) : Prop := st.jLast + 2 ≤ o.N

/-- table hypotheses + invariant -/
structure WF (o : Obj) : Prop where
  tbl : Tbl o
  inv : Inv o o.st

/-! ### Locate is the canonical index from every admissible state -/

theorem locateCanon_in {N : Nat} {x : Nat → Rat} (m : Mono N x) (hN : 3 ≤ N) (v : Rat)
    (h : ¬ (v < x 0 ∨ v > x (N - 1))) :
    ∃ j, Canon N x v j ∧ locateCanon N x v = .ok j := by
  have hlo : x 0 ≤ v := le_of_not_gt (fun c => h (Or.inl c))
  have hhi : v ≤ x (N - 1) := le_of_not_gt (fun c => h (Or.inr c))
  refine ⟨bump N x v (rawIdx N x ⟨0, false⟩ v), bump_canon m v _ (rawIdx_spec m (by omega) _ (by simp; omega) v hlo hhi), ?_⟩
  unfold locateCanon
  rw [locate_in N x _ v h]

theorem locate_closed {N : Nat} {x : Nat → Rat} (m : Mono N x) (hN : 3 ≤ N) (st : LState)
    (hst : st.jLast + 2 ≤ N) (v : Rat) :
    locate N x st v = match locateCanon N x v with
      | .ok j => .ok (j, nst st j)
      | .error e => .error e := by
  by_cases h : v < x 0 ∨ v > x (N - 1)
  · unfold locateCanon
    rw [locate_out N x st v h, locate_out N x _ v h]
    cases edgeIdx N x v <;> rfl
  · have hlo : x 0 ≤ v := le_of_not_gt (fun c => h (Or.inl c))
    have hhi : v ≤ x (N - 1) := le_of_not_gt (fun c => h (Or.inr c))
    obtain ⟨j, hc, he⟩ := locateCanon_in m hN v h
    rw [he, locate_in N x st v h]
    have e : bump N x v (rawIdx N x st v) = j :=
      Canon.unique m (bump_canon m v _ (rawIdx_spec m (by omega) st hst v hlo hhi)) hc
    rw [e]

theorem locateCanon_bound {N : Nat} {x : Nat → Rat} (m : Mono N x) (hN : 3 ≤ N) {v : Rat} {j : Nat}
    (h : locateCanon N x v = .ok j) : j + 2 ≤ N := by
  by_cases hd : v < x 0 ∨ v > x (N - 1)
  · unfold locateCanon at h
    rw [locate_out N x _ v hd] at h
    cases he : edgeIdx N x v with
    | error e => rw [he] at h; cases h
    | ok j' =>
      rw [he] at h
      have : j' = j := by injection h
      subst this
      exact edgeIdx_bound (by omega) he
  · obtain ⟨j', hc, he⟩ := locateCanon_in m hN v hd
    rw [he] at h
    have : j' = j := by injection h
    subst this
    exact hc.1

/-- in the domain the canonical index is the bracket with the tie rule -/
theorem locateCanon_canon {N : Nat} {x : Nat → Rat} (m : Mono N x) (hN : 3 ≤ N) {v : Rat} {j : Nat}
    (hlo : x 0 ≤ v) (hhi : v ≤ x (N - 1)) (h : locateCanon N x v = .ok j) : Canon N x v j := by
  obtain ⟨j', hc, he⟩ := locateCanon_in m hN v (by
    intro c; rcases c with c | c <;> linarith)
  rw [he] at h
  have : j' = j := by injection h
  subst this
  exact hc

/-! ### Closed forms of the queries -/

/-- `r` answers `p` and leaves the object unchanged up to an admissible search state -/
def Closed {α : Type} (o : Obj) (r : Except Err (α × Obj)) (p : Except Err α) : Prop :=
  match p with
  | .ok a => ∃ st' : LState, Inv o st' ∧ r = .ok (a, { o with st := st' })
  | .error e => r = .error e

theorem locate_obj (o : Obj) (t : Tbl o) (st : LState) (hst : Inv o st) (v : Rat) :
    Obj.locate { o with st := st } v = match locateCanon o.N o.x v with
      | .ok j => .ok (j, { o with st := nst st j })
      | .error e => .error e := by
  unfold Obj.locate
  have := locate_closed t.mono t.hN st hst v
  show (match Interp.locate o.N o.x st v with
    | .ok (j, st') => Except.ok (j, ({ o with st := st' } : Obj))
    | .error e => .error e) = _
  rw [this]
  cases locateCanon o.N o.x v <;> rfl

theorem closed_locate (o : Obj) (t : Tbl o) (st : LState) (hst : Inv o st) (v : Rat) :
    Closed o (Obj.locate { o with st := st } v) (locateCanon o.N o.x v) := by
  rw [locate_obj o t st hst v]
  unfold Closed
  cases h : locateCanon o.N o.x v with
  | error e => rfl
  | ok j => exact ⟨nst st j, locateCanon_bound t.mono t.hN h, rfl⟩

/-- pure `Interpolate` -/
def pInterp (o : Obj) (v : Rat) : Except Err Rat :=
  match locateCanon o.N o.x v with
  | .ok j => .ok (o.cubicAt j v)
  | .error e => .error e

/-- fix 5863798 (`Interpolate` returns the tabulated value at the last abscissa) is value-neutral over
    the rationals at the index `Locate` returns: `Obj.valueAt` is the cubic of that interval -/
theorem valueAt_canon (o : Obj) (t : Tbl o) {v : Rat} {j : Nat} (h : locateCanon o.N o.x v = .ok j) :
    o.valueAt j v = o.cubicAt j v := by
  by_cases hv : v = o.x (o.N - 1)
  · have hx : Lp.C01.StrictInc o.N o.x := fun i hi => t.mono i (i + 1) (by omega) hi
    have hN := t.hN
    have hlo : o.x 0 ≤ v := by rw [hv]; exact t.mono.le (Nat.zero_le _) (by omega)
    have hc := locateCanon_canon t.mono t.hN hlo (le_of_eq hv) h
    exact Lp.C01.valueAt_eq_cubicAt hx (by have := hc.1; omega) hc.2.1 hc.2.2.1
  · exact Lp.C01.valueAt_of_ne hv

theorem interpolate_obj (o : Obj) (t : Tbl o) (st : LState) (hst : Inv o st) (v : Rat) :
    Obj.interpolate { o with st := st } v = match locateCanon o.N o.x v with
      | .ok j => .ok (o.cubicAt j v, { o with st := nst st j })
      | .error e => .error e := by
  unfold Obj.interpolate
  rw [locate_obj o t st hst v]
  cases h : locateCanon o.N o.x v with
  | error e => rfl
  | ok j =>
    show Except.ok (o.valueAt j v, ({ o with st := nst st j } : Obj)) = _
    rw [valueAt_canon o t h]

theorem closed_interpolate (o : Obj) (t : Tbl o) (st : LState) (hst : Inv o st) (v : Rat) :
    Closed o (Obj.interpolate { o with st := st } v) (pInterp o v) := by
  rw [interpolate_obj o t st hst v]
  unfold Closed pInterp
  cases h : locateCanon o.N o.x v with
  | error e => rfl
  | ok j => exact ⟨nst st j, locateCanon_bound t.mono t.hN h, rfl⟩

/-- value of `Derivative(x,k)` on segment `j` -/
def dval (o : Obj) (j : Nat) (v : Rat) : Nat → Rat
  | 0 => o.cubicAt j v
  | 1 => o.pref * segD1 (coefA o.N o.x o.y j) (coefB o.N o.x o.y j) (coefC o.N o.x o.y j) (v - o.x j)
  | 2 => o.pref * segD2 (coefA o.N o.x o.y j) (coefB o.N o.x o.y j) (v - o.x j)
  | 3 => o.pref * segD3 (coefA o.N o.x o.y j)
  | _ => 0

def pDeriv (o : Obj) (v : Rat) (k : Nat) : Except Err Rat :=
  match locateCanon o.N o.x v with
  | .ok j => .ok (dval o j v k)
  | .error e => .error e

theorem closed_derivative (o : Obj) (t : Tbl o) (st : LState) (hst : Inv o st) (v : Rat) (k : Nat) :
    Closed o (Obj.derivative { o with st := st } v k) (pDeriv o v k) := by
  unfold Obj.derivative
  rw [locate_obj o t st hst v]
  unfold Closed pDeriv
  cases h : locateCanon o.N o.x v with
  | error e => rfl
  | ok j =>
    have hb := locateCanon_bound t.mono t.hN h
    rcases k with _ | _ | _ | _ | k
    · have hi := interpolate_obj o t (nst st j) hb v
      rw [h] at hi
      exact ⟨nst (nst st j) j, hb, by
        show Obj.interpolate { o with st := nst st j } v = _
        rw [hi]; rfl⟩
    · exact ⟨nst st j, hb, rfl⟩
    · exact ⟨nst st j, hb, rfl⟩
    · exact ⟨nst st j, hb, rfl⟩
    · exact ⟨nst st j, hb, rfl⟩

/-- the sum over the segments `i1 … i1+n` that `Integrate` forms -/
def segSum (o : Obj) (i1 n : Nat) (lo hi : Rat) : Rat :=
  (List.range (n + 1)).foldl (fun acc i =>
    let j := i1 + i
    let xj := o.x j
    let xl := if i = 0 then lo else xj
    let xr := if i = n then hi else o.x (j + 1)
    let a := coefA o.N o.x o.y j
    let b := coefB o.N o.x o.y j
    let c := coefC o.N o.x o.y j
    let d := coefD o.y j
    acc + (o.pref * segStem a b c d xj xr - o.pref * segStem a b c d xj xl)) (0 : Rat)

def pIntegCore (o : Obj) (lo hi sgn : Rat) : Except Err Rat :=
  match locateCanon o.N o.x lo with
  | .error e => .error e
  | .ok i1 => match locateCanon o.N o.x hi with
    | .error e => .error e
    | .ok i2 => .ok (sgn * segSum o i1 (i2 - i1) lo hi)

/-- pure `Integrate` -/
def pInteg (o : Obj) (v1 v2 : Rat) : Except Err Rat :=
  if v1 > v2 then pIntegCore o v2 v1 (-1) else pIntegCore o v1 v2 1

/-- the sum `Integrate` forms since fix 441bef8: every piece in the Taylor form at its left limit, without the prefactor -/
def segSumT (o : Obj) (i1 n : Nat) (lo hi : Rat) : Rat :=
  (List.range (n + 1)).foldl (fun acc i =>
    let j := i1 + i
    let xj := o.x j
    let xl := if i = 0 then lo else xj
    let xr := if i = n then hi else o.x (j + 1)
    let a := coefA o.N o.x o.y j
    let b := coefB o.N o.x o.y j
    let c := coefC o.N o.x o.y j
    let d := coefD o.y j
    acc + segInteg a b c d (xl - xj) (xr - xl)) (0 : Rat)

theorem foldl_mul_add (p : Rat) (f g : Nat → Rat) (h : ∀ i, g i = p * f i) : ∀ (l : List Nat) (acc : Rat),
    l.foldl (fun a i => a + g i) (p * acc) = p * l.foldl (fun a i => a + f i) acc
  | [], acc => rfl
  | i :: t, acc => by
    show t.foldl (fun a i => a + g i) (p * acc + g i) = p * t.foldl (fun a i => a + f i) (acc + f i)
    rw [h i, ← mul_add]
    exact foldl_mul_add p f g h t (acc + f i)

/-- fix 441bef8 is value-neutral over the rationals: prefactor times the Taylor-form sum is the sum of the
    prefactor-scaled stem-function differences (the Taylor form of a piece is `stem(right) − stem(left)`) -/
theorem segSumT_eq (o : Obj) (i1 n : Nat) (lo hi : Rat) : o.pref * segSumT o i1 n lo hi = segSum o i1 n lo hi := by
  have key := foldl_mul_add o.pref
    (fun i => segInteg (coefA o.N o.x o.y (i1 + i)) (coefB o.N o.x o.y (i1 + i)) (coefC o.N o.x o.y (i1 + i)) (coefD o.y (i1 + i))
      ((if i = 0 then lo else o.x (i1 + i)) - o.x (i1 + i))
      ((if i = n then hi else o.x (i1 + i + 1)) - (if i = 0 then lo else o.x (i1 + i))))
    (fun i => o.pref * segStem (coefA o.N o.x o.y (i1 + i)) (coefB o.N o.x o.y (i1 + i)) (coefC o.N o.x o.y (i1 + i)) (coefD o.y (i1 + i))
        (o.x (i1 + i)) (if i = n then hi else o.x (i1 + i + 1)) -
      o.pref * segStem (coefA o.N o.x o.y (i1 + i)) (coefB o.N o.x o.y (i1 + i)) (coefC o.N o.x o.y (i1 + i)) (coefD o.y (i1 + i))
        (o.x (i1 + i)) (if i = 0 then lo else o.x (i1 + i)))
    (fun i => by unfold segInteg segStem; ring) (List.range (n + 1)) 0
  rw [mul_zero] at key
  exact key.symm

/-- `Integrate` after the limits have been ordered -/
def integCore (o : Obj) (lo hi sgn : Rat) : Except Err (Rat × Obj) := do
  let (i1, o1) ← o.locate lo
  let (i2, o2) ← o1.locate hi
  pure (sgn * o.pref * segSumT o i1 (i2 - i1) lo hi, o2)

theorem integrate_core (o : Obj) (v1 v2 : Rat) :
    o.integrate v1 v2 = if v1 > v2 then integCore o v2 v1 (-1) else integCore o v1 v2 1 := by
  unfold Obj.integrate integCore segSumT
  by_cases h : v1 > v2
  · simp only [h, if_true]
  · simp only [h, if_false]

theorem closed_integCore (o : Obj) (t : Tbl o) (st : LState) (hst : Inv o st) (lo hi sgn : Rat) :
    Closed o (integCore { o with st := st } lo hi sgn) (pIntegCore o lo hi sgn) := by
  unfold integCore
  rw [locate_obj o t st hst lo]
  unfold Closed pIntegCore
  cases h1 : locateCanon o.N o.x lo with
  | error e => rfl
  | ok i1 =>
    have hb1 := locateCanon_bound t.mono t.hN h1
    have h2' := locate_obj o t (nst st i1) hb1 hi
    cases h2 : locateCanon o.N o.x hi with
    | error e =>
      rw [h2] at h2'
      show (do
        let (i2, o2) ← Obj.locate { o with st := nst st i1 } hi
        pure (sgn * o.pref * segSumT o i1 (i2 - i1) lo hi, o2) : Except Err (Rat × Obj)) = _
      rw [h2']; rfl
    | ok i2 =>
      rw [h2] at h2'
      refine ⟨nst (nst st i1) i2, locateCanon_bound t.mono t.hN h2, ?_⟩
      show (do
        let (i2, o2) ← Obj.locate { o with st := nst st i1 } hi
        pure (sgn * o.pref * segSumT o i1 (i2 - i1) lo hi, o2) : Except Err (Rat × Obj)) = _
      rw [h2', ← segSumT_eq o i1 (i2 - i1) lo hi, ← mul_assoc]; rfl

theorem closed_integrate (o : Obj) (t : Tbl o) (st : LState) (hst : Inv o st) (v1 v2 : Rat) :
    Closed o (Obj.integrate { o with st := st } v1 v2) (pInteg o v1 v2) := by
  rw [integrate_core]
  unfold pInteg
  by_cases h : v1 > v2
  · simp only [h, if_true]; exact closed_integCore o t st hst v2 v1 (-1)
  · simp only [h, if_false]; exact closed_integCore o t st hst v1 v2 1

/-- the value `Local_Minimum/Maximum` forms from the end values, the knots `first … last` and (for a limit in
    the extrapolation zone, fix 51ca844) the stationary values of the edge cubic: `Obj.extValue` of the model -/
abbrev extVal [SqrtFn] (o : Obj) (isMax : Bool) (v1 v2 fl fr : Rat) (i1 i2 : Nat) : Rat :=
  o.extValue isMax v1 v2 fl fr i1 i2

/-- pure `Local_Minimum` / `Local_Maximum` -/
def pLocalExt [SqrtFn] (o : Obj) (isMax : Bool) (v1 v2 : Rat) : Except Err Rat :=
  if v2 < v1 then .error .diag
  else match locateCanon o.N o.x v1 with
    | .error e => .error e
    | .ok i1 => match locateCanon o.N o.x v2 with
      | .error e => .error e
      | .ok i2 => .ok (extVal o isMax v1 v2 (o.cubicAt i1 v1) (o.cubicAt i2 v2) i1 i2)

/-- the four look-ups of `Local_*` after the argument check -/
def extCore [SqrtFn] (o : Obj) (isMax : Bool) (v1 v2 : Rat) : Except Err (Rat × Obj) := do
  let (fl, oa) ← o.interpolate v1
  let (fr, ob) ← oa.interpolate v2
  let (i1, oc) ← ob.locate v1
  let (i2, od) ← oc.locate v2
  pure (o.extValue isMax v1 v2 fl fr i1 i2, od)

theorem localExt_core [SqrtFn] (o : Obj) (isMax : Bool) (v1 v2 : Rat) :
    o.localExt isMax v1 v2 = if v2 < v1 then .error .diag else extCore o isMax v1 v2 := by
  unfold Obj.localExt extCore
  by_cases h : v2 < v1
  · simp only [h, if_true]; rfl
  · simp only [h, if_false]

theorem closed_localExt [SqrtFn] (o : Obj) (t : Tbl o) (st : LState) (hst : Inv o st) (isMax : Bool) (v1 v2 : Rat) :
    Closed o (Obj.localExt { o with st := st } isMax v1 v2) (pLocalExt o isMax v1 v2) := by
  rw [localExt_core]
  unfold pLocalExt
  by_cases hlt : v2 < v1
  · simp only [hlt, if_true]; rfl
  · simp only [hlt, if_false]
    unfold extCore
    rw [interpolate_obj o t st hst v1]
    unfold Closed
    cases h1 : locateCanon o.N o.x v1 with
    | error e => rfl
    | ok i1 =>
      have hb1 := locateCanon_bound t.mono t.hN h1
      have ha := interpolate_obj o t (nst st i1) hb1 v2
      cases h2 : locateCanon o.N o.x v2 with
      | error e =>
        rw [h2] at ha
        show (do
          let (fr, ob) ← Obj.interpolate { o with st := nst st i1 } v2
          let (i1', oc) ← ob.locate v1
          let (i2, od) ← oc.locate v2
          pure (o.extValue isMax v1 v2 (o.cubicAt i1 v1) fr i1' i2, od) : Except Err (Rat × Obj)) = _
        rw [ha]; rfl
      | ok i2 =>
        rw [h2] at ha
        have hb2 := locateCanon_bound t.mono t.hN h2
        have hc := locate_obj o t (nst (nst st i1) i2) hb2 v1
        rw [h1] at hc
        have hd := locate_obj o t (nst (nst (nst st i1) i2) i1) hb1 v2
        rw [h2] at hd
        refine ⟨nst (nst (nst (nst st i1) i2) i1) i2, hb2, ?_⟩
        show (do
          let (fr, ob) ← Obj.interpolate { o with st := nst st i1 } v2
          let (i1', oc) ← ob.locate v1
          let (i2, od) ← oc.locate v2
          pure (o.extValue isMax v1 v2 (o.cubicAt i1 v1) fr i1' i2, od) : Except Err (Rat × Obj)) = _
        rw [ha]
        show (do
          let (i1', oc) ← Obj.locate { o with st := nst (nst st i1) i2 } v1
          let (i2', od) ← oc.locate v2
          pure (o.extValue isMax v1 v2 (o.cubicAt i1 v1) (o.cubicAt i2 v2) i1' i2', od) : Except Err (Rat × Obj)) = _
        rw [hc]
        show (do
          let (i2', od) ← Obj.locate { o with st := nst (nst (nst st i1) i2) i1 } v2
          pure (o.extValue isMax v1 v2 (o.cubicAt i1 v1) (o.cubicAt i2 v2) i1 i2', od) : Except Err (Rat × Obj)) = _
        rw [hd]
        rfl

end Lp.C09
