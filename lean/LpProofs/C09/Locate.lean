/-
  Helper lemmas for C09: the three searches of `Interpolation::Locate` (bisection, hunting up,
  hunting down) bracket the abscissa from every admissible search state, and the bracket with
  the tie rule of fix c70b127 is unique.
-/
import LpModel.C09
import Mathlib.Tactic.Linarith
namespace Lp.C09
open Lp.Interp

/-- the abscissae of the table are strictly increasing (what the constructor checks) -/
def Mono (N : Nat) (x : Nat → Rat) : Prop := ∀ i j, i < j → j < N → x i < x j

theorem Mono.le {N : Nat} {x : Nat → Rat} (m : Mono N x) {i j : Nat} (h : i ≤ j) (hj : j < N) : x i ≤ x j := by
  rcases Nat.lt_or_eq_of_le h with h | h
  · exact le_of_lt (m i j h hj)
  · subst h; exact le_refl _

/-- `j` is the interval of `v` with the tie rule "a knot is the left end of its interval, except the last knot" -/
def Canon (N : Nat) (x : Nat → Rat) (v : Rat) (j : Nat) : Prop :=
  j + 2 ≤ N ∧ x j ≤ v ∧ v ≤ x (j + 1) ∧ (j + 2 < N → v < x (j + 1))

theorem Canon.unique {N : Nat} {x : Nat → Rat} {v : Rat} (m : Mono N x) {j j' : Nat}
    (h : Canon N x v j) (h' : Canon N x v j') : j = j' := by
  obtain ⟨b, l, _, s⟩ := h
  obtain ⟨b', l', _, s'⟩ := h'
  rcases Nat.lt_trichotomy j j' with c | c | c
  · have h1 : v < x (j + 1) := s (by omega)
    have h2 : x (j + 1) ≤ x j' := m.le (by omega) (by omega)
    linarith
  · exact c
  · have h1 : v < x (j' + 1) := s' (by omega)
    have h2 : x (j' + 1) ≤ x j := m.le (by omega) (by omega)
    linarith

/-! ### Bisection -/

theorem bisectionF_spec (x : Nat → Rat) (v : Rat) :
    ∀ (f jl jr : Nat), jl < jr → jr - jl ≤ f →
      jl ≤ bisectionF x v f jl jr ∧ bisectionF x v f jl jr < jr ∧
      (bisectionF x v f jl jr = jl ∨ x (bisectionF x v f jl jr) ≤ v) ∧
      (bisectionF x v f jl jr + 1 = jr ∨ v < x (bisectionF x v f jl jr + 1)) := by
  intro f
  induction f with
  | zero => intro jl jr h1 h2; omega
  | succ f ih =>
    intro jl jr h1 h2
    unfold bisectionF
    by_cases hgap : jr - jl > 1
    · simp only [hgap, if_true]
      have hm1 : jl < (jr + jl) / 2 := by omega
      have hm2 : (jr + jl) / 2 < jr := by omega
      by_cases hv : v ≥ x ((jr + jl) / 2)
      · simp only [hv, if_true]
        obtain ⟨a, b, c, d⟩ := ih ((jr + jl) / 2) jr hm2 (by omega)
        refine ⟨by omega, b, ?_, d⟩
        rcases c with c | c
        · right; rw [c]; exact hv
        · right; exact c
      · simp only [hv, if_false]
        obtain ⟨a, b, c, d⟩ := ih jl ((jr + jl) / 2) hm1 (by omega)
        refine ⟨a, by omega, c, ?_⟩
        rcases d with d | d
        · right; rw [d]; exact lt_of_not_ge hv
        · right; exact d
    · simp only [hgap, if_false]
      exact ⟨le_refl _, h1, by simp, Or.inl (by omega)⟩

theorem bisection_spec (x : Nat → Rat) (v : Rat) (jl jr : Nat) (h : jl < jr) :
    jl ≤ bisection x v jl jr ∧ bisection x v jl jr < jr ∧
    (bisection x v jl jr = jl ∨ x (bisection x v jl jr) ≤ v) ∧
    (bisection x v jl jr + 1 = jr ∨ v < x (bisection x v jl jr + 1)) :=
  bisectionF_spec x v (jr - jl) jl jr h (le_refl _)

/-! ### Hunting -/

theorem huntUp_spec (N : Nat) (x : Nat → Rat) (v : Rat) (hv : v ≤ x (N - 1)) :
    ∀ (f jd ju dj : Nat), jd < ju → ju ≤ N - 1 → x jd < v → 1 ≤ dj → N ≤ f + ju →
      (huntUp N x v f jd ju dj).1 < (huntUp N x v f jd ju dj).2 ∧ (huntUp N x v f jd ju dj).2 ≤ N - 1 ∧
      x (huntUp N x v f jd ju dj).1 < v ∧ v ≤ x (huntUp N x v f jd ju dj).2 := by
  intro f
  induction f with
  | zero => intro jd ju dj h1 h2 _ _ h5; omega
  | succ f ih =>
    intro jd ju dj h1 h2 h3 h4 h5
    unfold huntUp
    by_cases hgt : v > x ju
    · simp only [hgt, if_true]
      have hne : ju ≠ N - 1 := by
        intro e; rw [e] at hgt; linarith
      by_cases hoff : ju + dj > N - 1
      · simp only [hoff, if_true]
        exact ⟨by omega, le_refl _, hgt, hv⟩
      · simp only [hoff, if_false]
        exact ih ju (ju + dj) (dj + dj) (by omega) (by omega) hgt (by omega) (by omega)
    · simp only [hgt, if_false]
      exact ⟨h1, h2, h3, le_of_not_gt hgt⟩

theorem huntDown_spec (x : Nat → Rat) (v : Rat) (hv : x 0 ≤ v) :
    ∀ (f : Nat) (jd : Int) (ju dj : Nat), 0 ≤ jd → jd < (ju : Int) → v < x ju → 1 ≤ dj → jd < (f : Int) →
      (huntDown x v f jd ju dj).1 < (huntDown x v f jd ju dj).2 ∧ (huntDown x v f jd ju dj).2 ≤ ju ∧
      x (huntDown x v f jd ju dj).1 ≤ v ∧ v < x (huntDown x v f jd ju dj).2 := by
  intro f
  induction f with
  | zero => intro jd ju dj h1 _ _ _ h5; omega
  | succ f ih =>
    intro jd ju dj h1 h2 h3 h4 h5
    unfold huntDown
    by_cases hlt : v < x jd.toNat
    · simp only [hlt, if_true]
      have hne : jd.toNat ≠ 0 := by
        intro e; rw [e] at hlt; linarith
      by_cases hoff : jd - (dj : Int) < 0
      · simp only [hoff, if_true]
        exact ⟨by omega, by omega, hv, hlt⟩
      · simp only [hoff, if_false]
        obtain ⟨a, b, c, d⟩ := ih (jd - (dj : Int)) jd.toNat (dj + dj) (by omega) (by omega) hlt (by omega) (by omega)
        exact ⟨a, by omega, c, d⟩
    · simp only [hlt, if_false]
      exact ⟨by omega, le_refl _, le_of_not_gt hlt, h3⟩

/-- the index `Hunt` returns from any admissible starting point brackets the abscissa -/
theorem hunt_spec {N : Nat} {x : Nat → Rat} (m : Mono N x) (v : Rat) (jLast : Nat)
    (hj : jLast + 2 ≤ N) (hlo : x 0 ≤ v) (hhi : v ≤ x (N - 1)) :
    hunt N x v jLast + 2 ≤ N ∧ x (hunt N x v jLast) ≤ v ∧ v ≤ x (hunt N x v jLast + 1) := by
  unfold hunt
  by_cases hup : v > x jLast
  · simp only [hup, if_true]
    obtain ⟨a, b, c, d⟩ := huntUp_spec N x v hhi N jLast (jLast + 1) 1 (by omega) (by omega) hup (le_refl _) (by omega)
    generalize huntUp N x v N jLast (jLast + 1) 1 = r at a b c d
    obtain ⟨jd, ju⟩ := r
    simp only at a b c d ⊢
    by_cases hgap : ju - jd > 1
    · simp only [hgap, if_true]
      obtain ⟨p, q, r, s⟩ := bisection_spec x v jd ju a
      refine ⟨by omega, ?_, ?_⟩
      · rcases r with r | r
        · rw [r]; exact le_of_lt c
        · exact r
      · rcases s with s | s
        · rw [s]; exact d
        · exact le_of_lt s
    · simp only [hgap, if_false]
      have : ju = jd + 1 := by omega
      subst this
      exact ⟨by omega, le_of_lt c, d⟩
  · simp only [hup, if_false]
    by_cases hdn : v < x jLast
    · simp only [hdn, if_true]
      have hpos : jLast ≠ 0 := by
        intro e; rw [e] at hdn; linarith
      obtain ⟨a, b, c, d⟩ := huntDown_spec x v hlo N ((jLast : Int) - 1) jLast 1 (by omega) (by omega) hdn (le_refl _) (by omega)
      generalize huntDown x v N ((jLast : Int) - 1) jLast 1 = r at a b c d
      obtain ⟨jd, ju⟩ := r
      simp only at a b c d ⊢
      by_cases hgap : ju - jd > 1
      · simp only [hgap, if_true]
        obtain ⟨p, q, r, s⟩ := bisection_spec x v jd ju a
        refine ⟨by omega, ?_, ?_⟩
        · rcases r with r | r
          · rw [r]; exact c
          · exact r
        · rcases s with s | s
          · rw [s]; exact le_of_lt d
          · exact le_of_lt s
      · simp only [hgap, if_false]
        have : ju = jd + 1 := by omega
        subst this
        exact ⟨by omega, c, le_of_lt d⟩
    · simp only [hdn, if_false]
      have e : v = x jLast := le_antisymm (le_of_not_gt hup) (le_of_not_gt hdn)
      exact ⟨hj, le_of_eq e.symm, by rw [e]; exact le_of_lt (m jLast (jLast + 1) (by omega) (by omega))⟩

/-- whole-table bisection (the search of a new object) brackets the abscissa -/
theorem bisect_spec {N : Nat} {x : Nat → Rat} (v : Rat) (hN : 2 ≤ N) (hlo : x 0 ≤ v) (hhi : v ≤ x (N - 1)) :
    bisection x v 0 (N - 1) + 2 ≤ N ∧ x (bisection x v 0 (N - 1)) ≤ v ∧ v ≤ x (bisection x v 0 (N - 1) + 1) := by
  obtain ⟨p, q, r, s⟩ := bisection_spec x v 0 (N - 1) (by omega)
  refine ⟨by omega, ?_, ?_⟩
  · rcases r with r | r
    · rw [r]; exact hlo
    · exact r
  · rcases s with s | s
    · rw [s]; exact hhi
    · exact le_of_lt s

/-! ### Locate -/

/-- the search selected by `correlated_calls` -/
def rawIdx (N : Nat) (x : Nat → Rat) (st : LState) (v : Rat) : Nat :=
  if st.corr then hunt N x v st.jLast else bisection x v 0 (N - 1)

/-- the tie rule of fix c70b127 -/
def bump (N : Nat) (x : Nat → Rat) (v : Rat) (j : Nat) : Nat :=
  if j < N - 2 ∧ v = x (j + 1) then j + 1 else j

/-- the search state `Locate` leaves behind -/
def nst (st : LState) (j : Nat) : LState :=
  { jLast := j, corr := decide (j ≥ st.jLast ∧ j - st.jLast < 10) }

theorem rawIdx_spec {N : Nat} {x : Nat → Rat} (m : Mono N x) (hN : 2 ≤ N) (st : LState) (hst : st.jLast + 2 ≤ N)
    (v : Rat) (hlo : x 0 ≤ v) (hhi : v ≤ x (N - 1)) :
    rawIdx N x st v + 2 ≤ N ∧ x (rawIdx N x st v) ≤ v ∧ v ≤ x (rawIdx N x st v + 1) := by
  unfold rawIdx
  cases st.corr
  · simpa using bisect_spec v hN hlo hhi
  · simpa using hunt_spec m v st.jLast hst hlo hhi

theorem bump_canon {N : Nat} {x : Nat → Rat} (m : Mono N x) (v : Rat) (j : Nat)
    (h : j + 2 ≤ N ∧ x j ≤ v ∧ v ≤ x (j + 1)) : Canon N x v (bump N x v j) := by
  obtain ⟨a, b, c⟩ := h
  by_cases hb : j < N - 2 ∧ v = x (j + 1)
  · rw [show bump N x v j = j + 1 from if_pos hb]
    obtain ⟨h1, h2⟩ := hb
    have lt : x (j + 1) < x (j + 1 + 1) := m (j + 1) (j + 1 + 1) (by omega) (by omega)
    refine ⟨by omega, le_of_eq h2.symm, ?_, fun _ => ?_⟩ <;> rw [h2]
    · exact le_of_lt lt
    · exact lt
  · rw [show bump N x v j = j from if_neg hb]
    refine ⟨a, b, c, fun hlt => ?_⟩
    rcases lt_or_eq_of_le c with c | c
    · exact c
    · exact absurd ⟨by omega, c⟩ hb

theorem locate_in (N : Nat) (x : Nat → Rat) (st : LState) (v : Rat) (h : ¬ (v < x 0 ∨ v > x (N - 1))) :
    locate N x st v = .ok (bump N x v (rawIdx N x st v), nst st (bump N x v (rawIdx N x st v))) := by
  unfold locate
  simp only [h, if_false]
  rfl

/-- the index in the 1 % extrapolation zone; it does not involve the search state -/
def edgeIdx (N : Nat) (x : Nat → Rat) (v : Rat) : Except Err Nat :=
  if rabs (v - x 0) ≤ (1 : Rat) / 100 * (x 1 - x 0) then .ok 0
  else if rabs (v - x (N - 1)) ≤ (1 : Rat) / 100 * (x (N - 1) - x (N - 2)) then .ok (N - 2)
  else .error .diag

theorem locate_out (N : Nat) (x : Nat → Rat) (st : LState) (v : Rat) (h : v < x 0 ∨ v > x (N - 1)) :
    locate N x st v = match edgeIdx N x v with
      | .ok j => .ok (j, nst st j)
      | .error e => .error e := by
  unfold locate edgeIdx
  simp only [h, if_true]
  by_cases h1 : rabs (v - x 0) ≤ (1 : Rat) / 100 * (x 1 - x 0)
  · simp only [h1, if_true]; rfl
  · simp only [h1, if_false]
    by_cases h2 : rabs (v - x (N - 1)) ≤ (1 : Rat) / 100 * (x (N - 1) - x (N - 2))
    · simp only [h2, if_true]; rfl
    · simp only [h2, if_false]

theorem edgeIdx_bound {N : Nat} {x : Nat → Rat} {v : Rat} {j : Nat} (hN : 2 ≤ N) (h : edgeIdx N x v = .ok j) : j + 2 ≤ N := by
  unfold edgeIdx at h
  split at h
  · cases h; omega
  · split at h
    · cases h; omega
    · cases h

end Lp.C09
