/-
  C01: covariance of the Steffen interpolant under a change of units  x ↦ lam·x (lam ≠ 0), y ↦ mu·y
  (any mu, also negative or zero).  This is what the unit factors `x_dim`, `f_dim` of the constructor do,
  and it is why the property has no preferred scale: a table with ordinates in 1e-20..1e20 over abscissae
  of size 1e+90 (secant slopes 1e-110) is interpolated by the same cubic shape as the table in natural
  size — provided `Sign` looks at the sign only, never at the magnitude (`sign1_mul`).
-/
import LpProofs.C01.Kernel

namespace Lp.C01
open Lp Lp.Interp

theorem rabs_mul (a b : Rat) : rabs (a * b) = rabs a * rabs b := by
  rw [rabs_eq_abs, rabs_eq_abs, rabs_eq_abs, abs_mul]

theorem rmin_mul_of_nonneg {c : Rat} (hc : 0 ≤ c) (a b : Rat) : rmin (c * a) (c * b) = c * rmin a b := by
  rw [rmin_eq_min, rmin_eq_min, mul_min_of_nonneg _ _ hc]

theorem sign1_mul (a b : Rat) : sign1 (a * b) = sign1 a * sign1 b := by
  rcases lt_trichotomy a 0 with ha | ha | ha <;> rcases lt_trichotomy b 0 with hb | hb | hb
  · rw [sign1_neg ha, sign1_neg hb, sign1_pos (mul_pos_of_neg_of_neg ha hb)]; rfl
  · subst hb; simp [sign1_zero]
  · rw [sign1_neg ha, sign1_pos hb, sign1_neg (mul_neg_of_neg_of_pos ha hb)]; rfl
  · subst ha; simp [sign1_zero]
  · subst ha; simp [sign1_zero]
  · subst ha; simp [sign1_zero]
  · rw [sign1_pos ha, sign1_neg hb, sign1_neg (mul_neg_of_pos_of_neg ha hb)]; rfl
  · subst hb; simp [sign1_zero]
  · rw [sign1_pos ha, sign1_pos hb, sign1_pos (mul_pos ha hb)]; rfl

theorem sign1_mul_rabs (k : Rat) : (sign1 k : Rat) * rabs k = k := by
  rcases lt_trichotomy k 0 with h | h | h
  · rw [sign1_neg h, rabs_of_nonpos (le_of_lt h)]; push_cast; ring
  · subst h; simp [sign1_zero]
  · rw [sign1_pos h, rabs_of_nonneg (le_of_lt h)]; push_cast; ring

theorem pInterior_scale {lam : Rat} (hl : lam ≠ 0) (k hm h sm s : Rat) :
    pInterior (lam * hm) (lam * h) (k * sm) (k * s) = k * pInterior hm h sm s := by
  unfold pInterior
  have e : k * sm * (lam * h) + k * s * (lam * hm) = lam * (k * (sm * h + s * hm)) := by ring
  have e' : lam * hm + lam * h = lam * (hm + h) := by ring
  rw [e, e', mul_div_mul_left _ _ hl, mul_div_assoc]

theorem pEdge_scale {lam : Rat} (hl : lam ≠ 0) (k h0 h1 s0 s1 : Rat) :
    pEdge (lam * h0) (lam * h1) (k * s0) (k * s1) = k * pEdge h0 h1 s0 s1 := by
  unfold pEdge
  have e' : lam * h0 + lam * h1 = lam * (h0 + h1) := by ring
  have r : lam * h0 / (lam * h0 + lam * h1) = h0 / (h0 + h1) := by rw [e', mul_div_mul_left _ _ hl]
  have r2 : k * s1 * (lam * h0) / (lam * h0 + lam * h1) = k * s1 * (h0 / (h0 + h1)) := by
    rw [mul_div_assoc, r]
  rw [r, r2]; ring

theorem limited_scale (k : Rat) (σ : Int) (m : Rat) :
    ((sign1 k * σ : Int) : Rat) * (rabs k * m) = k * ((σ : Rat) * m) := by
  have := sign1_mul_rabs k
  push_cast
  calc (sign1 k : Rat) * (σ : Rat) * (rabs k * m) = ((sign1 k : Rat) * rabs k) * ((σ : Rat) * m) := by ring
    _ = k * ((σ : Rat) * m) := by rw [this]

theorem dyInterior_scale {lam : Rat} (hl : lam ≠ 0) (k hm h sm s : Rat) :
    dyInterior (lam * hm) (lam * h) (k * sm) (k * s) = k * dyInterior hm h sm s := by
  unfold dyInterior
  rw [pInterior_scale hl, sign1_mul, sign1_mul, rabs_mul, rabs_mul, rabs_mul, ← Int.mul_add]
  have key : rmin (K.limIntP * (rabs k * rabs (pInterior hm h sm s)) / K.limIntPDiv)
        (rmin (K.limIntS * (rabs k * rabs s)) (K.limIntSm * (rabs k * rabs sm)))
      = rabs k * rmin (K.limIntP * rabs (pInterior hm h sm s) / K.limIntPDiv)
        (rmin (K.limIntS * rabs s) (K.limIntSm * rabs sm)) := by
    rw [← rmin_mul_of_nonneg (rabs_nonneg k), ← rmin_mul_of_nonneg (rabs_nonneg k)]
    congr 1
    · ring
    · congr 1 <;> ring
  rw [key]
  exact limited_scale k _ _

theorem dyEdge_scale {lam : Rat} (hl : lam ≠ 0) (k h0 h1 s0 s1 : Rat) :
    dyEdge (lam * h0) (lam * h1) (k * s0) (k * s1) = k * dyEdge h0 h1 s0 s1 := by
  unfold dyEdge
  rw [pEdge_scale hl, sign1_mul, sign1_mul, rabs_mul, rabs_mul, ← Int.mul_add]
  have key : rmin (K.limEdgeS * (rabs k * rabs s0)) (K.limEdgeP * (rabs k * rabs (pEdge h0 h1 s0 s1)))
      = rabs k * rmin (K.limEdgeS * rabs s0) (K.limEdgeP * rabs (pEdge h0 h1 s0 s1)) := by
    rw [← rmin_mul_of_nonneg (rabs_nonneg k)]
    congr 1 <;> ring
  rw [key]
  exact limited_scale k _ _

section
variable (N : Nat) (x y : Nat → Rat) (lam mu : Rat)

theorem h_scale (j : Nat) : h (fun i => lam * x i) j = lam * h x j := by
  unfold h; ring

theorem s_scale (j : Nat) : s (fun i => lam * x i) (fun i => mu * y i) j = mu / lam * s x y j := by
  unfold s
  rw [h_scale]
  have e : mu * y (j + 1) - mu * y j = mu * (y (j + 1) - y j) := by ring
  show (mu * y (j + 1) - mu * y j) / (lam * h x j) = _
  rw [e, mul_div_mul_comm]

theorem dy_scale (hl : lam ≠ 0) (i : Nat) :
    dy N (fun i => lam * x i) (fun i => mu * y i) i = mu / lam * dy N x y i := by
  unfold dy
  simp only [h_scale, s_scale]
  split
  · exact dyEdge_scale hl _ _ _ _ _
  · split
    · exact dyEdge_scale hl _ _ _ _ _
    · exact dyInterior_scale hl _ _ _ _ _

theorem cubic_scale (hl : lam ≠ 0) (j : Nat) (v : Rat) :
    cubic N (fun i => lam * x i) (fun i => mu * y i) j (lam * v) = mu * cubic N x y j v
    ∧ cubicD1 N (fun i => lam * x i) (fun i => mu * y i) j (lam * v) = mu / lam * cubicD1 N x y j v := by
  unfold cubic cubicD1 coefA coefB coefC coefD segA segB segEval segD1
  simp only [h_scale, s_scale, dy_scale N x y lam mu hl]
  constructor <;> field_simp

end

end Lp.C01
