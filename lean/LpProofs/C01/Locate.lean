/-
  C01 glue: the index a freshly constructed object's `Locate` returns brackets the abscissa
  (bisection), and the constructor's guards give `3 ≤ N`, strictly increasing abscissae and the
  fresh search state.  (Correctness of `Locate` from *every* search state is property C09.)
-/
import LpProofs.C01.Table

namespace Lp.C01
open Lp Lp.Interp

theorem bisectionF_spec (x : Nat → Rat) (v : Rat) :
    ∀ f jl jr, jl < jr → jr - jl ≤ f + 1 → x jl ≤ v → v ≤ x jr →
      jl ≤ bisectionF x v f jl jr ∧ bisectionF x v f jl jr < jr
      ∧ x (bisectionF x v f jl jr) ≤ v ∧ v ≤ x (bisectionF x v f jl jr + 1) := by
  intro f
  induction f with
  | zero =>
    intro jl jr hlt hw h0 h1
    have : jr = jl + 1 := by omega
    subst this
    simp only [bisectionF]
    exact ⟨le_refl _, by omega, h0, h1⟩
  | succ f ih =>
    intro jl jr hlt hw h0 h1
    simp only [bisectionF]
    split
    · rename_i hgt
      split
      · rename_i hge
        have := ih ((jr + jl) / 2) jr (by omega) (by omega) hge h1
        exact ⟨by omega, this.2.1, this.2.2⟩
      · rename_i hlt'
        have := ih jl ((jr + jl) / 2) (by omega) (by omega) h0 (le_of_lt (not_le.mp hlt'))
        exact ⟨this.1, by omega, this.2.2⟩
    · have : jr = jl + 1 := by omega
      subst this
      exact ⟨le_refl _, by omega, h0, h1⟩

theorem bisection_spec (x : Nat → Rat) (v : Rat) {jl jr : Nat} (hlt : jl < jr) (h0 : x jl ≤ v) (h1 : v ≤ x jr) :
    jl ≤ bisection x v jl jr ∧ bisection x v jl jr < jr
      ∧ x (bisection x v jl jr) ≤ v ∧ v ≤ x (bisection x v jl jr + 1) := by
  unfold bisection
  exact bisectionF_spec x v (jr - jl) jl jr hlt (by omega) h0 h1

/-- the index a non-correlated `Locate` computes inside the domain: bisection, then the knot rule -/
def jAdj (N : Nat) (x : Nat → Rat) (v : Rat) : Nat :=
  if bisection x v 0 (N - 1) < N - 2 ∧ v = x (bisection x v 0 (N - 1) + 1) then bisection x v 0 (N - 1) + 1
  else bisection x v 0 (N - 1)

theorem locate_inside (N : Nat) (x : Nat → Rat) (st : LState) (v : Rat)
    (hg : ¬ (v < x 0 ∨ v > x (N - 1))) (hst : st.corr = false) :
    Interp.locate N x st v =
      .ok (jAdj N x v, { jLast := jAdj N x v, corr := decide (jAdj N x v ≥ st.jLast ∧ jAdj N x v - st.jLast < 10) }) := by
  unfold Interp.locate jAdj
  simp only [hg, if_false, hst, Bool.false_eq_true]

theorem jAdj_bracket {N : Nat} {x : Nat → Rat} (hN : 2 ≤ N) (hx : StrictInc N x) {v : Rat}
    (h0 : x 0 ≤ v) (h1 : v ≤ x (N - 1)) :
    jAdj N x v + 1 < N ∧ x (jAdj N x v) ≤ v ∧ v ≤ x (jAdj N x v + 1) := by
  obtain ⟨b0, b1, b2, b3⟩ := bisection_spec x v (show 0 < N - 1 by omega) h0 h1
  unfold jAdj
  split
  · rename_i hk
    refine ⟨by omega, le_of_eq hk.2.symm, ?_⟩
    have := hx (bisection x v 0 (N - 1) + 1) (by omega)
    calc v = x (bisection x v 0 (N - 1) + 1) := hk.2
      _ ≤ x (bisection x v 0 (N - 1) + 1 + 1) := le_of_lt this
  · exact ⟨by omega, b2, b3⟩

/-- `Locate` of an object whose calls are not (yet) correlated, on the tabulated domain -/
theorem locate_fresh_bracket (o : Obj) (hN : 2 ≤ o.N) (hx : StrictInc o.N o.x) (hst : o.st.corr = false)
    {v : Rat} (h0 : o.x 0 ≤ v) (h1 : v ≤ o.x (o.N - 1)) :
    ∃ j o', o.locate v = .ok (j, o') ∧ j + 1 < o.N ∧ o.x j ≤ v ∧ v ≤ o.x (j + 1) := by
  have hguard : ¬ (v < o.x 0 ∨ v > o.x (o.N - 1)) := by
    intro h; rcases h with h | h <;> linarith
  obtain ⟨c0, c1, c2⟩ := jAdj_bracket hN hx h0 h1
  have hl : o.locate v = .ok (jAdj o.N o.x v, { o with st :=
      { jLast := jAdj o.N o.x v, corr := decide (jAdj o.N o.x v ≥ o.st.jLast ∧ jAdj o.N o.x v - o.st.jLast < 10) } }) := by
    unfold Obj.locate
    rw [locate_inside o.N o.x o.st v hguard hst]
  exact ⟨_, _, hl, c0, c1, c2⟩

/-! ### the constructor -/

theorem strictlyIncreasing_spec : ∀ (l : List Rat), strictlyIncreasing l = true →
    ∀ i, i + 1 < l.length → l.getD i 0 < l.getD (i + 1) 0
  | [], _, i, hi => by simp at hi
  | [_], _, i, hi => by simp at hi
  | a :: b :: r, h, i, hi => by
    simp only [strictlyIncreasing, Bool.and_eq_true, decide_eq_true_eq] at h
    cases i with
    | zero => simpa using h.1
    | succ i =>
      have := strictlyIncreasing_spec (b :: r) h.2 i (by simpa using hi)
      simpa using this

theorem strictlyIncreasing_map_mul {c : Rat} (hc : 0 < c) : ∀ (l : List Rat), strictlyIncreasing l = true →
    strictlyIncreasing (l.map (· * c)) = true
  | [], _ => rfl
  | [_], _ => rfl
  | a :: b :: r, h => by
    simp only [strictlyIncreasing, Bool.and_eq_true, decide_eq_true_eq] at h
    have ih := strictlyIncreasing_map_mul hc (b :: r) h.2
    simp only [List.map, strictlyIncreasing, Bool.and_eq_true, decide_eq_true_eq]
    exact ⟨mul_lt_mul_of_pos_right h.1 hc, by simpa using ih⟩

theorem mk_ok {xs ys : List Rat} {xdim fdim : Rat} {o : Obj} (hmk : mk xs ys xdim fdim = .ok o) :
    3 ≤ o.N ∧ StrictInc o.N o.x ∧ o.st.corr = false ∧ o.pref = 1 := by
  unfold mk at hmk
  split at hmk
  · exact absurd hmk (by simp)
  · split at hmk
    · exact absurd hmk (by simp)
    · split at hmk
      · exact absurd hmk (by simp)
      · rename_i h1 h2 h3
        injection hmk with hmk
        subst hmk
        have hinc : strictlyIncreasing xs = true := by simpa using h3
        refine ⟨by simp only; omega, ?_, rfl, rfl⟩
        intro i hi
        simp only [Obj.x]
        by_cases hd : xdim > 0
        · simp only [hd, if_true]
          have := strictlyIncreasing_spec _ (strictlyIncreasing_map_mul hd xs hinc) i (by simpa using hi)
          simpa using this
        · simp only [hd, if_false]
          have := strictlyIncreasing_spec _ hinc i (by simpa using hi)
          simpa using this


/-- proposed repair C01-2 (order test after the unit conversion, negated comparison): over the rationals the test gives
    the same verdict before and after multiplying by a positive factor — the coded change is outcome-neutral in the model;
    what it repairs (two products rounding onto each other, NaN) exists only in doubles and is judged by the oracle on the
    implementation (props/c01.py, families `unitx`, `nan`) -/
theorem strictlyIncreasing_map_mul_eq {c : Rat} (hc : 0 < c) : ∀ (l : List Rat),
    strictlyIncreasing (l.map (· * c)) = strictlyIncreasing l
  | [] => rfl
  | [_] => rfl
  | a :: b :: r => by
    have ih := strictlyIncreasing_map_mul_eq hc (b :: r)
    simp only [List.map] at ih
    simp only [List.map, strictlyIncreasing, ih]
    congr 1
    exact decide_eq_decide.mpr (mul_lt_mul_iff_of_pos_right hc)

theorem zip_rows (xs : List Rat) : ∀ (ys : List Rat), xs.length = ys.length →
    (List.zipWith (fun a b => [a, b]) xs ys).any (fun r => decide (r.length ≠ 2)) = false
    ∧ (List.zipWith (fun a b => [a, b]) xs ys).map (fun r => r.getD 0 0) = xs
    ∧ (List.zipWith (fun a b => [a, b]) xs ys).map (fun r => r.getD 1 0) = ys := by
  induction xs with
  | nil => intro ys h; cases ys with
    | nil => simp
    | cons _ _ => simp at h
  | cons a xs ih => intro ys h; cases ys with
    | nil => simp at h
    | cons b ys =>
      obtain ⟨i1, i2, i3⟩ := ih ys (by simpa using h)
      refine ⟨?_, ?_, ?_⟩
      · simp only [List.zipWith, List.any_cons, i1]; simp
      · simp only [List.zipWith, List.map_cons, i2]; rfl
      · simp only [List.zipWith, List.map_cons, i3]; rfl

/-- the table constructor on the rows `{x_i, y_i}` builds the object the list constructor builds -/
theorem mkTable_zip (xs ys : List Rat) (h : xs.length = ys.length) (xdim fdim : Rat) :
    mkTable (List.zipWith (fun a b => [a, b]) xs ys) xdim fdim = mk xs ys xdim fdim := by
  obtain ⟨h1, h2, h3⟩ := zip_rows xs ys h
  unfold mkTable
  rw [h2, h3]
  simp only [h1]
  rfl

theorem construct_eq_mk (ctor : Nat) (hc : ctor ≠ 3) (xs ys : List Rat) (h : xs.length = ys.length) (xdim fdim : Rat) :
    construct ctor xs ys xdim fdim = mk xs ys xdim fdim := by
  unfold construct
  split
  · simp only [h, if_true]; exact mkTable_zip xs ys h xdim fdim
  · exact absurd rfl hc
  · rfl

/-! ### request level: what the driver runs for one `Interpolate` query -/

theorem run1D_between_aux {xs ys : List Rat} {xdim fdim pref mul v : Rat} {o : Obj}
    (hmk : mk xs ys xdim fdim = .ok o) (h0 : o.x 0 ≤ v) (h1 : v ≤ o.x (o.N - 1)) :
    ∃ r j, run1D xs ys xdim fdim pref mul [(v, -1)] = .ok [(r, j)] ∧ j + 1 < o.N ∧ o.x j ≤ v ∧ v ≤ o.x (j + 1)
      ∧ rmin (pref * mul * o.y j) (pref * mul * o.y (j + 1)) ≤ r
      ∧ r ≤ rmax (pref * mul * o.y j) (pref * mul * o.y (j + 1)) := by
  obtain ⟨hN, hx, hst, hp⟩ := mk_ok hmk
  obtain ⟨j, o', hl, hj, hb0, hb1⟩ :=
    locate_fresh_bracket ((o.setPrefactor pref).multiply mul) (show 2 ≤ o.N by omega) hx hst h0 h1
  have hi := interpolate_eq hl (valueAt_eq_cubicAt (o := (o.setPrefactor pref).multiply mul) hx hj hb0 hb1)
  refine ⟨pref * mul * cubic o.N o.x o.y j v, j, ?_, hj, hb0, hb1, ?_⟩
  · unfold run1D
    rw [hmk]
    simp [queries, query, hl, hi, bind, Except.bind, pure, Except.pure]
    rfl
  · exact scale_between (pref * mul) (cubic_between hx hj hb0 hb1)

/-! ### a concrete table for the non-vacuity examples -/

def exX : Nat → Rat := fun i => [0, 1, 3, 7].getD i 0
def exY : Nat → Rat := fun i => [5, -2, -2, 11].getD i 0

theorem exX_inc : StrictInc 4 exX := by
  intro i hi
  have : i = 0 ∨ i = 1 ∨ i = 2 := by omega
  rcases this with rfl | rfl | rfl <;> decide +kernel

end Lp.C01
