/-
  C01 helper: the 1 % extrapolation zone.  `Locate` accepts abscissae up to 1 % of the end interval's
  width beyond the end abscissae and continues the end segment's cubic there.  Steffen's monotonicity
  argument does not cover that continuation; what does hold is an explicit bound of the excursion
  beyond the end value, derived here from the limiter box (`dy_box`) and the Hermite coefficients.

  Derivation (right end; `h, s` of the last interval, `dl, dr` its end slopes, `δ = v - x_{N-1}`):
    (P(h+δ) - P(h))·h² = δ·( dr·h² + (dl + 2dr - 3s)·δh + (dl + dr - 2s)·δ² )          (`zone_right_identity`)
  with `0 ≤ dl, dr ≤ 2s` (box, `s ≥ 0`) and `0 ≤ δ ≤ h/100` the bracket lies in
    [ -(3/100 + 2/10000)·s·h² , (2 + 3/100 + 2/10000)·s·h² ]                           (`zone_Q_bound`)
  so `|P(v) - y_{N-1}| ≤ (10151/5000)·|s|·δ`; the constant is sharp (`dl = dr = 2s`, `δ → h/100`).
-/
import LpProofs.C01.Locate

namespace Lp.C01
open Lp Lp.Interp

/-- the constant of the extrapolation-zone bound: `2 + 3/100 + 2/10000` -/
def zoneC : Rat := 10151 / 5000

/-- the (much smaller) constant of the excursion *against* the direction of the data -/
def zoneCback : Rat := 151 / 5000

theorem segEval_neg (a b c d t : Rat) : segEval (-a) (-b) (-c) (-d) t = -segEval a b c d t := by
  unfold segEval; ring

theorem Box.neg {d s : Rat} (hb : Box d s) : Box (-d) (-s) := by
  refine ⟨fun h => ?_, fun h => ?_⟩
  · have := hb.2 (by linarith); constructor <;> linarith [this.1, this.2]
  · have := hb.1 (by linarith); constructor <;> linarith [this.1, this.2]

/-- continuation beyond the right end: exact identity -/
theorem zone_right_identity {h : Rat} (hh : h ≠ 0) (s dl dr y0 δ : Rat) :
    (segEval (segA h s dl dr) (segB h s dl dr) dl y0 (h + δ) - (y0 + s * h)) * h ^ 2 =
      δ * (dr * h ^ 2 + (dl + 2 * dr - 3 * s) * (δ * h) + (dl + dr - 2 * s) * δ ^ 2) := by
  have ha := segA_mul hh s dl dr
  have hb := segB_mul hh s dl dr
  unfold segEval
  linear_combination (h + δ) ^ 3 * ha + h * (h + δ) ^ 2 * hb

/-- continuation beyond the left end: exact identity (mirror image) -/
theorem zone_left_identity {h : Rat} (hh : h ≠ 0) (s dl dr y0 δ : Rat) :
    (-(segEval (segA h s dl dr) (segB h s dl dr) dl y0 (-δ) - y0)) * h ^ 2 =
      δ * (dl * h ^ 2 + (dr + 2 * dl - 3 * s) * (δ * h) + (dr + dl - 2 * s) * δ ^ 2) := by
  have ha := segA_mul hh s dl dr
  have hb := segB_mul hh s dl dr
  unfold segEval
  linear_combination δ ^ 3 * ha - h * δ ^ 2 * hb

/-- the bracket of the two identities: `p` the slope at the end knot, `q` the slope at the other end -/
theorem zone_Q_bound {h s p q δ : Rat} (hh : 0 < h) (hs : 0 ≤ s) (hp0 : 0 ≤ p) (hp : p ≤ 2 * s)
    (hq0 : 0 ≤ q) (hq : q ≤ 2 * s) (hd0 : 0 ≤ δ) (hd : δ ≤ h / 100) :
    -(zoneCback * s * h ^ 2) ≤ p * h ^ 2 + (q + 2 * p - 3 * s) * (δ * h) + (q + p - 2 * s) * δ ^ 2
    ∧ p * h ^ 2 + (q + 2 * p - 3 * s) * (δ * h) + (q + p - 2 * s) * δ ^ 2 ≤ zoneC * s * h ^ 2 := by
  have h2 : 0 ≤ h ^ 2 := sq_nonneg h
  have dh0 : 0 ≤ δ * h := mul_nonneg hd0 (le_of_lt hh)
  have dd0 : 0 ≤ δ ^ 2 := sq_nonneg δ
  have dh1 : δ * h ≤ h ^ 2 / 100 := by nlinarith
  have dd1 : δ ^ 2 ≤ h ^ 2 / 10000 := by nlinarith
  unfold zoneCback zoneC
  constructor
  · have a1 := mul_nonneg hp0 h2
    have a2 := mul_nonneg (show 0 ≤ q + 2 * p by linarith) dh0
    have a3 := mul_nonneg hs (show 0 ≤ h ^ 2 / 100 - δ * h by linarith)
    have a4 := mul_nonneg (show 0 ≤ q + p by linarith) dd0
    have a5 := mul_nonneg hs (show 0 ≤ h ^ 2 / 10000 - δ ^ 2 by linarith)
    linarith
  · have a1 := mul_nonneg (show 0 ≤ 2 * s - p by linarith) h2
    have a2 := mul_nonneg (show 0 ≤ 6 * s - q - 2 * p by linarith) dh0
    have a3 := mul_nonneg hs (show 0 ≤ h ^ 2 / 100 - δ * h by linarith)
    have a4 := mul_nonneg (show 0 ≤ 4 * s - q - p by linarith) dd0
    have a5 := mul_nonneg hs (show 0 ≤ h ^ 2 / 10000 - δ ^ 2 by linarith)
    linarith

/-- from the identity to the two-sided bound, rising data -/
theorem zone_core {h s p q δ E : Rat} (hh : 0 < h) (hs : 0 ≤ s) (hp0 : 0 ≤ p) (hp : p ≤ 2 * s)
    (hq0 : 0 ≤ q) (hq : q ≤ 2 * s) (hd0 : 0 ≤ δ) (hd : δ ≤ h / 100)
    (hE : E * h ^ 2 = δ * (p * h ^ 2 + (q + 2 * p - 3 * s) * (δ * h) + (q + p - 2 * s) * δ ^ 2)) :
    -(zoneCback * s * δ) ≤ E ∧ E ≤ zoneC * s * δ := by
  obtain ⟨lo, hi⟩ := zone_Q_bound hh hs hp0 hp hq0 hq hd0 hd
  have hpos : 0 < h ^ 2 := by positivity
  constructor
  · have : -(zoneCback * s * δ) * h ^ 2 ≤ E * h ^ 2 := by
      rw [hE]; have := mul_le_mul_of_nonneg_left lo hd0; linarith
    exact le_of_mul_le_mul_right this hpos
  · have : E * h ^ 2 ≤ (zoneC * s * δ) * h ^ 2 := by
      rw [hE]; have := mul_le_mul_of_nonneg_left hi hd0; linarith
    exact le_of_mul_le_mul_right this hpos

theorem zoneCback_le : zoneCback ≤ zoneC := by unfold zoneCback zoneC; norm_num

theorem zone_abs_of_core {s δ E : Rat} (hs : 0 ≤ s) (hd0 : 0 ≤ δ)
    (h : -(zoneCback * s * δ) ≤ E ∧ E ≤ zoneC * s * δ) : rabs E ≤ zoneC * rabs s * δ := by
  rw [rabs_eq_abs, rabs_of_nonneg hs, abs_le]
  have : zoneCback * s * δ ≤ zoneC * s * δ := by
    have := mul_le_mul_of_nonneg_right zoneCback_le (mul_nonneg hs hd0)
    linarith
  exact ⟨by linarith [h.1], h.2⟩

/-- kernel, right end, either direction of the data -/
theorem zone_right_kernel {h s dl dr y0 δ : Rat} (hh : 0 < h) (bl : Box dl s) (br : Box dr s)
    (hd0 : 0 ≤ δ) (hd : δ ≤ h / 100) :
    rabs (segEval (segA h s dl dr) (segB h s dl dr) dl y0 (h + δ) - (y0 + s * h)) ≤ zoneC * rabs s * δ := by
  rcases le_total 0 s with hs | hs
  · obtain ⟨l0, l1⟩ := bl.1 hs
    obtain ⟨r0, r1⟩ := br.1 hs
    exact zone_abs_of_core hs hd0
      (zone_core hh hs r0 r1 l0 l1 hd0 hd (zone_right_identity (ne_of_gt hh) s dl dr y0 δ))
  · have hs' : 0 ≤ -s := by linarith
    obtain ⟨l0, l1⟩ := bl.neg.1 hs'
    obtain ⟨r0, r1⟩ := br.neg.1 hs'
    have := zone_abs_of_core hs' hd0
      (zone_core hh hs' r0 r1 l0 l1 hd0 hd (zone_right_identity (ne_of_gt hh) (-s) (-dl) (-dr) (-y0) δ))
    rw [segA_neg, segB_neg, segEval_neg] at this
    have e : -segEval (segA h s dl dr) (segB h s dl dr) dl y0 (h + δ) - (-y0 + -s * h)
        = -(segEval (segA h s dl dr) (segB h s dl dr) dl y0 (h + δ) - (y0 + s * h)) := by ring
    rw [e] at this
    rw [rabs_eq_abs] at this ⊢
    rw [abs_neg, rabs_eq_abs, abs_neg] at this
    rwa [rabs_eq_abs]

/-- kernel, left end, either direction of the data -/
theorem zone_left_kernel {h s dl dr y0 δ : Rat} (hh : 0 < h) (bl : Box dl s) (br : Box dr s)
    (hd0 : 0 ≤ δ) (hd : δ ≤ h / 100) :
    rabs (segEval (segA h s dl dr) (segB h s dl dr) dl y0 (-δ) - y0) ≤ zoneC * rabs s * δ := by
  have flip : ∀ E : Rat, rabs (-E) = rabs E := by
    intro E; rw [rabs_eq_abs, rabs_eq_abs, abs_neg]
  rcases le_total 0 s with hs | hs
  · obtain ⟨l0, l1⟩ := bl.1 hs
    obtain ⟨r0, r1⟩ := br.1 hs
    have := zone_abs_of_core hs hd0
      (zone_core hh hs l0 l1 r0 r1 hd0 hd (zone_left_identity (ne_of_gt hh) s dl dr y0 δ))
    rwa [flip] at this
  · have hs' : 0 ≤ -s := by linarith
    obtain ⟨l0, l1⟩ := bl.neg.1 hs'
    obtain ⟨r0, r1⟩ := br.neg.1 hs'
    have := zone_abs_of_core hs' hd0
      (zone_core hh hs' l0 l1 r0 r1 hd0 hd (zone_left_identity (ne_of_gt hh) (-s) (-dl) (-dr) (-y0) δ))
    rw [segA_neg, segB_neg, segEval_neg, flip] at this
    have e : -segEval (segA h s dl dr) (segB h s dl dr) dl y0 (-δ) - -y0
        = -(segEval (segA h s dl dr) (segB h s dl dr) dl y0 (-δ) - y0) := by ring
    rw [e, flip, flip] at this
    exact this

/-! ### table level -/

section Table
variable {N : Nat} {x y : Nat → Rat}

theorem cubic_zone_right (hN : 2 ≤ N) (hx : StrictInc N x) {v : Rat} (h0 : x (N - 1) ≤ v)
    (h1 : v ≤ x (N - 1) + (x (N - 1) - x (N - 2)) / 100) :
    rabs (cubic N x y (N - 2) v - y (N - 1)) ≤ zoneC * rabs (s x y (N - 2)) * (v - x (N - 1)) := by
  obtain ⟨k, rfl⟩ : ∃ k, N = k + 2 := ⟨N - 2, by omega⟩
  have h0 : x (k + 1) ≤ v := h0
  have h1 : v ≤ x (k + 1) + (x (k + 1) - x k) / 100 := h1
  show rabs (cubic (k + 2) x y k v - y (k + 1)) ≤ zoneC * rabs (s x y k) * (v - x (k + 1))
  have hj : k + 1 < k + 2 := by omega
  have hh := h_pos hx hj
  have bl := dy_box (k + 2) x y k k hj (by omega) (Or.inl rfl)
  have br := dy_box (k + 2) x y (k + 1) k hj hj (Or.inr rfl)
  have hk := zone_right_kernel (y0 := y k) (δ := v - x (k + 1)) hh bl br (by linarith)
    (by unfold h; linarith)
  have et : v - x k = h x k + (v - x (k + 1)) := by unfold h; ring
  have ey : y k + s x y k * h x k = y (k + 1) := by rw [s_mul_h (ne_of_gt hh)]; ring
  unfold cubic coefA coefB coefC coefD
  rw [et, ← ey]; exact hk

theorem cubic_zone_left (hN : 2 ≤ N) (hx : StrictInc N x) {v : Rat}
    (h0 : x 0 - (x 1 - x 0) / 100 ≤ v) (h1 : v ≤ x 0) :
    rabs (cubic N x y 0 v - y 0) ≤ zoneC * rabs (s x y 0) * (x 0 - v) := by
  have hj : 0 + 1 < N := by omega
  have hh := h_pos hx hj
  have bl := dy_box N x y 0 0 hj (by omega) (Or.inl rfl)
  have br := dy_box N x y (0 + 1) 0 hj hj (Or.inr rfl)
  have hk := zone_left_kernel (y0 := y 0) (δ := x 0 - v) hh bl br (by linarith)
    (by unfold h; simp only [Nat.zero_add]; linarith)
  have et : v - x 0 = -(x 0 - v) := by ring
  unfold cubic coefA coefB coefC coefD
  rw [et]; exact hk

theorem strictInc_le (hx : StrictInc N x) : ∀ {i j : Nat}, i ≤ j → j < N → x i ≤ x j := by
  intro i j hij
  induction j with
  | zero => intro _; have : i = 0 := by omega
            subst this; exact le_refl _
  | succ j ih =>
    intro hj
    rcases Nat.eq_or_lt_of_le hij with e | hlt
    · subst e; exact le_refl _
    · exact le_trans (ih (by omega) (by omega)) (le_of_lt (hx j hj))

/-- `Locate` in the right zone — closed at the one-percent edge since fix a411065 (`<=`) —: index `N-2`,
    from every search state -/
theorem locate_zone_right (hN : 3 ≤ N) (hx : StrictInc N x) (st : LState) {v : Rat} (h0 : x (N - 1) < v)
    (h1 : v ≤ x (N - 1) + (x (N - 1) - x (N - 2)) / 100) :
    Interp.locate N x st v = .ok (N - 2, { jLast := N - 2, corr := decide (N - 2 ≥ st.jLast ∧ N - 2 - st.jLast < 10) }) := by
  have hx1 : x 1 ≤ x (N - 1) := strictInc_le hx (by omega) (by omega)
  have hx01 : x 0 < x 1 := hx 0 (by omega)
  have c1 : v < x 0 ∨ v > x (N - 1) := Or.inr h0
  have c2 : ¬ rabs (v - x 0) ≤ K.edgeTolL * (x 1 - x 0) := by
    rw [rabs_of_nonneg (by linarith)]; simp only [K.edgeTolL]; intro hc; linarith
  have c3 : rabs (v - x (N - 1)) ≤ K.edgeTolR * (x (N - 1) - x (N - 2)) := by
    rw [rabs_of_nonneg (by linarith)]; simp only [K.edgeTolR]; linarith
  unfold Interp.locate
  simp only [c1, c2, c3, if_true, if_false]

/-- `Locate` in the left zone (closed at the one-percent edge): index `0`, from every search state -/
theorem locate_zone_left (st : LState) {v : Rat}
    (h0 : x 0 - (x 1 - x 0) / 100 ≤ v) (h1 : v < x 0) :
    Interp.locate N x st v = .ok (0, { jLast := 0, corr := decide (0 ≥ st.jLast ∧ 0 - st.jLast < 10) }) := by
  have c1 : v < x 0 ∨ v > x (N - 1) := Or.inl h1
  have c2 : rabs (v - x 0) ≤ K.edgeTolL * (x 1 - x 0) := by
    rw [rabs_of_nonpos (by linarith)]; simp only [K.edgeTolL]; linarith
  unfold Interp.locate
  simp only [c1, c2, if_true]

end Table

end Lp.C01
