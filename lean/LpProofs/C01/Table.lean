/-
  Table-level lemmas for C01: the segment cubic of a table with strictly increasing abscissae,
  linear / parabola data, the bilinear cell, and the glue to `Lp.Interp.Obj.interpolate`,
  `Obj.derivative`, `Obj2.interpolate`.
-/
import LpProofs.C01.Kernel

namespace Lp.C01
open Lp Lp.Interp

/-- the constructor's guard `x_values[i] > x_values[i-1]`, in index form -/
def StrictInc (N : Nat) (x : Nat → Rat) : Prop := ∀ i, i + 1 < N → x i < x (i + 1)

section Table
variable {N : Nat} {x y : Nat → Rat}

theorem h_pos (hx : StrictInc N x) {j : Nat} (hj : j + 1 < N) : 0 < h x j := by
  unfold h; linarith [hx j hj]

theorem s_mul_h {j : Nat} (hh : h x j ≠ 0) : s x y j * h x j = y (j + 1) - y j := by
  unfold s; field_simp

theorem s_nonneg (hx : StrictInc N x) {j : Nat} (hj : j + 1 < N) (hy : y j ≤ y (j + 1)) : 0 ≤ s x y j := by
  unfold s; exact div_nonneg (by linarith) (le_of_lt (h_pos hx hj))

theorem s_nonpos (hx : StrictInc N x) {j : Nat} (hj : j + 1 < N) (hy : y (j + 1) ≤ y j) : s x y j ≤ 0 := by
  unfold s; exact div_nonpos_of_nonpos_of_nonneg (by linarith) (le_of_lt (h_pos hx hj))

theorem cubic_left (N : Nat) (x y : Nat → Rat) (j : Nat) : cubic N x y j (x j) = y j := by
  unfold cubic coefD; rw [sub_self, segEval_zero]

theorem cubic_right (hx : StrictInc N x) {j : Nat} (hj : j + 1 < N) :
    cubic N x y j (x (j + 1)) = y (j + 1) := by
  have hh := ne_of_gt (h_pos hx hj)
  unfold cubic coefA coefB coefC coefD
  have e : x (j + 1) - x j = h x j := rfl
  rw [e, segEval_right hh, s_mul_h hh]; ring

theorem cubicD1_left (N : Nat) (x y : Nat → Rat) (j : Nat) : cubicD1 N x y j (x j) = dy N x y j := by
  unfold cubicD1 coefC; rw [sub_self, segD1_zero]

theorem cubicD1_right (hx : StrictInc N x) {j : Nat} (hj : j + 1 < N) :
    cubicD1 N x y j (x (j + 1)) = dy N x y (j + 1) := by
  have hh := ne_of_gt (h_pos hx hj)
  unfold cubicD1 coefA coefB coefC
  have e : x (j + 1) - x j = h x j := rfl
  rw [e, segD1_right hh]

theorem cubic_mono_up (hx : StrictInc N x) {j : Nat} (hj : j + 1 < N) (hy : y j ≤ y (j + 1))
    {v v' : Rat} (h0 : x j ≤ v) (h1 : v ≤ v') (h2 : v' ≤ x (j + 1)) :
    cubic N x y j v ≤ cubic N x y j v' := by
  have hs := s_nonneg hx hj hy
  obtain ⟨l0, l1⟩ := (dy_box N x y j j hj (by omega) (Or.inl rfl)).1 hs
  obtain ⟨r0, r1⟩ := (dy_box N x y (j + 1) j hj hj (Or.inr rfl)).1 hs
  unfold cubic coefA coefB coefC coefD
  refine segEval_mono (h_pos hx hj) l0 (by linarith) r0 (by linarith) (by linarith) (by linarith) ?_
  unfold h; linarith

theorem cubic_mono_down (hx : StrictInc N x) {j : Nat} (hj : j + 1 < N) (hy : y (j + 1) ≤ y j)
    {v v' : Rat} (h0 : x j ≤ v) (h1 : v ≤ v') (h2 : v' ≤ x (j + 1)) :
    cubic N x y j v' ≤ cubic N x y j v := by
  have hs := s_nonpos hx hj hy
  obtain ⟨l0, l1⟩ := (dy_box N x y j j hj (by omega) (Or.inl rfl)).2 hs
  obtain ⟨r0, r1⟩ := (dy_box N x y (j + 1) j hj hj (Or.inr rfl)).2 hs
  unfold cubic coefA coefB coefC coefD
  refine segEval_anti (h_pos hx hj) l1 (by linarith) r1 (by linarith) (by linarith) (by linarith) ?_
  unfold h; linarith

theorem cubic_between (hx : StrictInc N x) {j : Nat} (hj : j + 1 < N)
    {v : Rat} (h0 : x j ≤ v) (h1 : v ≤ x (j + 1)) :
    rmin (y j) (y (j + 1)) ≤ cubic N x y j v ∧ cubic N x y j v ≤ rmax (y j) (y (j + 1)) := by
  have hl := cubic_left N x y j
  have hr := cubic_right (y := y) hx hj
  have hxx : x j ≤ x (j + 1) := le_trans h0 h1
  rw [rmin_eq_min, rmax_eq_max]
  rcases le_total (y j) (y (j + 1)) with hy | hy
  · have a := cubic_mono_up hx hj hy (le_refl _) h0 h1
    have b := cubic_mono_up hx hj hy h0 h1 (le_refl _)
    rw [hl] at a; rw [hr] at b
    rw [min_eq_left hy, max_eq_right hy]; exact ⟨a, b⟩
  · have a := cubic_mono_down hx hj hy (le_refl _) h0 h1
    have b := cubic_mono_down hx hj hy h0 h1 (le_refl _)
    rw [hl] at a; rw [hr] at b
    rw [min_eq_right hy, max_eq_left hy]; exact ⟨b, a⟩

/-! ### straight-line data -/

theorem dyEdge_const (h0 h1 m : Rat) : dyEdge h0 h1 m m = m := by
  have hp : pEdge h0 h1 m m = m := by unfold pEdge; ring
  unfold dyEdge; rw [hp]
  simp only [K.limEdgeS, K.limEdgeP, one_mul]
  have e : (1 / 2 : Rat) * rabs m = rabs m / 2 := by ring
  rw [e]
  have hmin : rmin (rabs m) (rabs m / 2) = rabs m / 2 := by
    have := rabs_nonneg m
    unfold rmin; split
    · rfl
    · linarith
  rw [hmin]; exact limit_id m

theorem dyInterior_const {hm h : Rat} (hne : hm + h ≠ 0) (m : Rat) : dyInterior hm h m m = m := by
  have hp : pInterior hm h m m = m := by unfold pInterior; field_simp; ring
  unfold dyInterior; rw [hp]
  simp only [K.limIntP, K.limIntPDiv, K.limIntS, K.limIntSm, one_mul]
  have hmin : rmin (rabs m / 2) (rmin (rabs m) (rabs m)) = rabs m / 2 := by
    have := rabs_nonneg m
    have hin : rmin (rabs m) (rabs m) = rabs m := by unfold rmin; split <;> rfl
    rw [hin]; unfold rmin; split
    · linarith
    · rfl
  rw [hmin]; exact limit_id m

theorem s_linear (hx : StrictInc N x) {m q : Rat} (hy : ∀ i, i < N → y i = m * x i + q)
    {j : Nat} (hj : j + 1 < N) : s x y j = m := by
  have hh := h_pos hx hj
  unfold s; rw [hy (j + 1) hj, hy j (by omega)]
  unfold h at *
  have : x (j + 1) - x j ≠ 0 := ne_of_gt hh
  field_simp; ring

theorem dy_linear (hN : 3 ≤ N) (hx : StrictInc N x) {m q : Rat} (hy : ∀ i, i < N → y i = m * x i + q)
    {i : Nat} (hi : i < N) : dy N x y i = m := by
  unfold dy
  split
  · rw [s_linear hx hy (show 0 + 1 < N by omega), s_linear hx hy (show 1 + 1 < N by omega)]
    exact dyEdge_const _ _ _
  · split
    · rw [s_linear hx hy (show N - 2 + 1 < N by omega), s_linear hx hy (show N - 3 + 1 < N by omega)]
      exact dyEdge_const _ _ _
    · rename_i h0 h1
      rw [s_linear hx hy (show i - 1 + 1 < N by omega), s_linear hx hy (show i + 1 < N by omega)]
      have a := h_pos hx (show i - 1 + 1 < N by omega)
      have b := h_pos hx (show i + 1 < N by omega)
      exact dyInterior_const (by linarith) m

theorem cubic_linear (hN : 3 ≤ N) (hx : StrictInc N x) {m q : Rat} (hy : ∀ i, i < N → y i = m * x i + q)
    {j : Nat} (hj : j + 1 < N) (v : Rat) :
    cubic N x y j v = m * v + q ∧ cubicD1 N x y j v = m ∧ cubicD2 N x y j v = 0 ∧ cubicD3 N x y j = 0 := by
  have e0 := dy_linear hN hx hy (show j < N by omega)
  have e1 := dy_linear hN hx hy hj
  have es := s_linear hx hy hj
  have ea : coefA N x y j = 0 := by unfold coefA segA; rw [e0, e1, es]; ring
  have eb : coefB N x y j = 0 := by unfold coefB segB; rw [e0, e1, es]; ring
  have ec : coefC N x y j = m := e0
  refine ⟨?_, ?_, ?_, ?_⟩
  · unfold cubic segEval coefD; rw [ea, eb, ec, hy j (by omega)]; ring
  · unfold cubicD1 segD1; rw [ea, eb, ec]; ring
  · unfold cubicD2 segD2; rw [ea, eb]; ring
  · unfold cubicD3 segD3; rw [ea]; ring

/-! ### parabola data -/

theorem s_parabola (hx : StrictInc N x) {α β γ : Rat} (hy : ∀ i, i < N → y i = α * x i ^ 2 + β * x i + γ)
    {j : Nat} (hj : j + 1 < N) : s x y j = α * (x j + x (j + 1)) + β := by
  have hh := h_pos hx hj
  unfold s; rw [hy (j + 1) hj, hy j (by omega)]
  unfold h at *
  have : x (j + 1) - x j ≠ 0 := ne_of_gt hh
  field_simp; ring

theorem pEdge_parabola_left (a b c α β : Rat) (hab : a < b) (hbc : b < c) :
    pEdge (b - a) (c - b) (α * (a + b) + β) (α * (b + c) + β) = 2 * α * a + β := by
  have : b - a + (c - b) ≠ 0 := by
    have : 0 < b - a + (c - b) := by linarith
    exact ne_of_gt this
  unfold pEdge; field_simp; ring

theorem pEdge_parabola_right (a b c α β : Rat) (hab : a < b) (hbc : b < c) :
    pEdge (c - b) (b - a) (α * (b + c) + β) (α * (a + b) + β) = 2 * α * c + β := by
  have : c - b + (b - a) ≠ 0 := by
    have : 0 < c - b + (b - a) := by linarith
    exact ne_of_gt this
  unfold pEdge; field_simp; ring

theorem pInterior_parabola (a b c α β : Rat) (hab : a < b) (hbc : b < c) :
    pInterior (b - a) (c - b) (α * (a + b) + β) (α * (b + c) + β) = 2 * α * b + β := by
  have : b - a + (c - b) ≠ 0 := by
    have : 0 < b - a + (c - b) := by linarith
    exact ne_of_gt this
  unfold pInterior; field_simp; ring

/-- on parabola data the un-limited estimate is the exact derivative at every knot
    (also at the two boundary knots, with the one-sided formula) -/
theorem pEst_parabola (hN : 3 ≤ N) (hx : StrictInc N x) {α β γ : Rat}
    (hy : ∀ i, i < N → y i = α * x i ^ 2 + β * x i + γ) {i : Nat} (hi : i < N) :
    pEst N x y i = 2 * α * x i + β := by
  obtain ⟨k, rfl⟩ : ∃ k, N = k + 3 := ⟨N - 3, by omega⟩
  unfold pEst
  split
  · rename_i h0; subst h0
    rw [s_parabola hx hy (show 0 + 1 < k + 3 by omega), s_parabola hx hy (show 1 + 1 < k + 3 by omega)]
    exact pEdge_parabola_left _ _ _ α β (hx 0 (by omega)) (hx 1 (by omega))
  · split
    · rename_i h0 h1; subst h1
      have e1 : k + 3 - 1 = k + 2 := rfl
      have e2 : k + 3 - 2 = k + 1 := rfl
      have e3 : k + 3 - 3 = k := rfl
      rw [e1, e2, e3]
      rw [s_parabola hx hy (show k + 1 + 1 < k + 3 by omega), s_parabola hx hy (show k + 1 < k + 3 by omega)]
      exact pEdge_parabola_right _ _ _ α β (hx k (by omega)) (hx (k + 1) (by omega))
    · rename_i h0 h1
      obtain ⟨i', rfl⟩ : ∃ i', i = i' + 1 := ⟨i - 1, by omega⟩
      have e1 : i' + 1 - 1 = i' := rfl
      rw [e1]
      rw [s_parabola hx hy (show i' + 1 < k + 3 by omega), s_parabola hx hy (show i' + 1 + 1 < k + 3 by omega)]
      exact pInterior_parabola _ _ _ α β (hx i' (by omega)) (hx (i' + 1) (by omega))

theorem cubic_parabola (hN : 3 ≤ N) (hx : StrictInc N x) {α β γ : Rat}
    (hy : ∀ i, i < N → y i = α * x i ^ 2 + β * x i + γ) {j : Nat} (hj : j + 1 < N)
    (hl : limiterInactive N x y j) (hr : limiterInactive N x y (j + 1)) (v : Rat) :
    cubic N x y j v = α * v ^ 2 + β * v + γ ∧ cubicD1 N x y j v = 2 * α * v + β
      ∧ cubicD2 N x y j v = 2 * α ∧ cubicD3 N x y j = 0 := by
  unfold limiterInactive at hl hr
  rw [pEst_parabola hN hx hy (show j < N by omega)] at hl
  rw [pEst_parabola hN hx hy hj] at hr
  have es := s_parabola hx hy hj
  have hh : x (j + 1) - x j ≠ 0 := ne_of_gt (h_pos hx hj)
  have ea : coefA N x y j = 0 := by unfold coefA segA; rw [hl, hr, es]; ring
  have eb : coefB N x y j = α := by
    unfold coefB segB; rw [hl, hr, es]; unfold h; field_simp; ring
  have ec : coefC N x y j = 2 * α * x j + β := hl
  refine ⟨?_, ?_, ?_, ?_⟩
  · unfold cubic segEval coefD; rw [ea, eb, ec, hy j (by omega)]; ring
  · unfold cubicD1 segD1; rw [ea, eb, ec]; ring
  · unfold cubicD2 segD2; rw [ea, eb]; ring
  · unfold cubicD3 segD3; rw [ea]; ring

end Table

/-! ### bilinear cell -/

theorem bilinear_hull {t u f0 f1 f2 f3 lo hi : Rat} (ht0 : 0 ≤ t) (ht1 : t ≤ 1) (hu0 : 0 ≤ u) (hu1 : u ≤ 1)
    (l0 : lo ≤ f0) (l1 : lo ≤ f1) (l2 : lo ≤ f2) (l3 : lo ≤ f3)
    (u0 : f0 ≤ hi) (u1 : f1 ≤ hi) (u2 : f2 ≤ hi) (u3 : f3 ≤ hi) :
    lo ≤ bilinear t u f0 f1 f2 f3 ∧ bilinear t u f0 f1 f2 f3 ≤ hi := by
  have a : bilinear t u f0 f1 f2 f3 - lo =
      (1 - t) * (1 - u) * (f0 - lo) + t * (1 - u) * (f1 - lo) + t * u * (f2 - lo) + (1 - t) * u * (f3 - lo) := by
    unfold bilinear; ring
  have b : hi - bilinear t u f0 f1 f2 f3 =
      (1 - t) * (1 - u) * (hi - f0) + t * (1 - u) * (hi - f1) + t * u * (hi - f2) + (1 - t) * u * (hi - f3) := by
    unfold bilinear; ring
  have w0 : 0 ≤ (1 - t) * (1 - u) := mul_nonneg (by linarith) (by linarith)
  have w1 : 0 ≤ t * (1 - u) := mul_nonneg ht0 (by linarith)
  have w2 : 0 ≤ t * u := mul_nonneg ht0 hu0
  have w3 : 0 ≤ (1 - t) * u := mul_nonneg (by linarith) hu0
  constructor
  · have : 0 ≤ bilinear t u f0 f1 f2 f3 - lo := by
      rw [a]
      have := mul_nonneg w0 (show 0 ≤ f0 - lo by linarith)
      have := mul_nonneg w1 (show 0 ≤ f1 - lo by linarith)
      have := mul_nonneg w2 (show 0 ≤ f2 - lo by linarith)
      have := mul_nonneg w3 (show 0 ≤ f3 - lo by linarith)
      linarith
    linarith
  · have : 0 ≤ hi - bilinear t u f0 f1 f2 f3 := by
      rw [b]
      have := mul_nonneg w0 (show 0 ≤ hi - f0 by linarith)
      have := mul_nonneg w1 (show 0 ≤ hi - f1 by linarith)
      have := mul_nonneg w2 (show 0 ≤ hi - f2 by linarith)
      have := mul_nonneg w3 (show 0 ≤ hi - f3 by linarith)
      linarith
    linarith

/-- the smallest / largest of the four corner values, with `std::min/std::max` -/
def min4 (a b c d : Rat) : Rat := rmin (rmin a b) (rmin c d)
def max4 (a b c d : Rat) : Rat := rmax (rmax a b) (rmax c d)

theorem min4_le (a b c d : Rat) : min4 a b c d ≤ a ∧ min4 a b c d ≤ b ∧ min4 a b c d ≤ c ∧ min4 a b c d ≤ d := by
  unfold min4
  exact ⟨le_trans (rmin_le_left _ _) (rmin_le_left _ _), le_trans (rmin_le_left _ _) (rmin_le_right _ _),
    le_trans (rmin_le_right _ _) (rmin_le_left _ _), le_trans (rmin_le_right _ _) (rmin_le_right _ _)⟩

theorem le_max4 (a b c d : Rat) : a ≤ max4 a b c d ∧ b ≤ max4 a b c d ∧ c ≤ max4 a b c d ∧ d ≤ max4 a b c d := by
  unfold max4
  exact ⟨le_trans (le_rmax_left _ _) (le_rmax_left _ _), le_trans (le_rmax_right _ _) (le_rmax_left _ _),
    le_trans (le_rmax_left _ _) (le_rmax_right _ _), le_trans (le_rmax_right _ _) (le_rmax_right _ _)⟩

theorem frac_mem {a b v : Rat} (hab : a < b) (h0 : a ≤ v) (h1 : v ≤ b) :
    0 ≤ (v - a) / (b - a) ∧ (v - a) / (b - a) ≤ 1 := by
  have hpos : 0 < b - a := by linarith
  exact ⟨div_nonneg (by linarith) (le_of_lt hpos), (div_le_one hpos).mpr (by linarith)⟩

/-! ### glue to the object-level queries of `Lp.Interp` -/

theorem cubicAt_eq (o : Obj) (j : Nat) (v : Rat) : o.cubicAt j v = o.pref * cubic o.N o.x o.y j v := rfl

theorem StrictInc.lt {N : Nat} {x : Nat → Rat} (hx : StrictInc N x) {i : Nat} :
    ∀ {k : Nat}, i < k → k < N → x i < x k := by
  intro k
  induction k with
  | zero => intro h; omega
  | succ k ih =>
    intro hik hk
    rcases Nat.lt_or_ge i k with h | h
    · exact lt_trans (ih h (by omega)) (hx k hk)
    · have : i = k := by omega
      subst this; exact hx i hk

/-- `Interpolate` as coded after fix 5863798: the value is `Obj.valueAt` of the located interval -/
theorem interpolate_eq_valueAt {o o' : Obj} {v : Rat} {j : Nat} (hl : o.locate v = .ok (j, o')) :
    o.interpolate v = .ok (o.valueAt j v, o') := by
  unfold Obj.interpolate; rw [hl]; rfl

/-- the special branch: at the last abscissa the tabulated value itself is returned — by the code's
    own comparison, for every located interval (no arithmetic involved) -/
theorem valueAt_last (o : Obj) (j : Nat) : o.valueAt j (o.x (o.N - 1)) = o.pref * o.y (o.N - 1) := by
  unfold Obj.valueAt; simp

theorem valueAt_of_ne {o : Obj} {j : Nat} {v : Rat} (h : v ≠ o.x (o.N - 1)) : o.valueAt j v = o.cubicAt j v := by
  unfold Obj.valueAt; simp [h]

/-- fix 5863798 is value-neutral over the rationals: on a strictly increasing table, whenever the located
    interval brackets the abscissa, the special branch returns what the cubic returns (`cubic_right`) -/
theorem valueAt_eq_cubicAt {o : Obj} (hx : StrictInc o.N o.x) {j : Nat} (hj : j + 1 < o.N) {v : Rat}
    (_h0 : o.x j ≤ v) (h1 : v ≤ o.x (j + 1)) : o.valueAt j v = o.cubicAt j v := by
  by_cases hv : v = o.x (o.N - 1)
  · have hjN : j + 1 = o.N - 1 := by
      by_contra hne
      have : o.x (j + 1) < o.x (o.N - 1) := hx.lt (by omega) (by omega)
      rw [hv] at h1; linarith
    subst hv
    rw [valueAt_last, cubicAt_eq, ← hjN, cubic_right hx hj]
  · exact valueAt_of_ne hv

theorem interpolate_eq {o o' : Obj} {v : Rat} {j : Nat} (hl : o.locate v = .ok (j, o'))
    (hv : o.valueAt j v = o.cubicAt j v) :
    o.interpolate v = .ok (o.pref * cubic o.N o.x o.y j v, o') := by
  rw [interpolate_eq_valueAt hl, hv]; rfl

theorem locate_state_only {o o' : Obj} {v : Rat} {j : Nat} (hl : o.locate v = .ok (j, o')) :
    o'.N = o.N ∧ o'.xs = o.xs ∧ o'.ys = o.ys ∧ o'.pref = o.pref := by
  unfold Obj.locate at hl
  split at hl
  · injection hl with hl; injection hl with h1 h2; subst h2; exact ⟨rfl, rfl, rfl, rfl⟩
  · exact absurd hl (by simp)

theorem derivative_eq {o o' : Obj} {v : Rat} {j : Nat} (hl : o.locate v = .ok (j, o')) :
    o.derivative v 1 = .ok (o.pref * cubicD1 o.N o.x o.y j v, o')
    ∧ o.derivative v 2 = .ok (o.pref * cubicD2 o.N o.x o.y j v, o')
    ∧ o.derivative v 3 = .ok (o.pref * cubicD3 o.N o.x o.y j, o')
    ∧ ∀ k, 4 ≤ k → o.derivative v k = .ok (0, o') := by
  refine ⟨?_, ?_, ?_, ?_⟩
  · unfold Obj.derivative; rw [hl]; rfl
  · unfold Obj.derivative; rw [hl]; rfl
  · unfold Obj.derivative; rw [hl]; rfl
  · intro k hk
    obtain ⟨k', rfl⟩ : ∃ k', k = k' + 4 := ⟨k - 4, by omega⟩
    unfold Obj.derivative; rw [hl]; rfl

theorem interpolate2_eq {o : Obj2} {vx vy : Rat} {i j : Nat} {ox' oy' : Obj}
    (hx : o.ox.locate vx = .ok (i, ox')) (hy : o.oy.locate vy = .ok (j, oy')) :
    o.interpolate vx vy = .ok (o.pref * cell o.ox.x o.oy.x o.F i j vx vy, { o with ox := ox', oy := oy' }) := by
  unfold Obj2.interpolate; rw [hx]
  show (do let (j, oy') ← o.oy.locate vy; _) = _
  rw [hy]; rfl

end Lp.C01
