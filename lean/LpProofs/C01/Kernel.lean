/-
  Helper lemmas for C01: `rabs/rmin/rmax/sign1` facts, the Steffen limiter box, the Hermite
  segment identities and the sign certificate of the first derivative.
-/
import Mathlib.Tactic.Ring
import Mathlib.Tactic.Linarith
import Mathlib.Tactic.LinearCombination
import Mathlib.Tactic.Positivity
import Mathlib.Tactic.FieldSimp
import Mathlib.Tactic.Push
import LpModel.C01

namespace Lp.C01
open Lp Lp.Interp

/-! ### rabs / rmin / rmax -/

theorem rabs_nonneg (x : Rat) : 0 ≤ rabs x := by
  unfold rabs; split <;> linarith

theorem rabs_of_nonneg {x : Rat} (h : 0 ≤ x) : rabs x = x := by
  unfold rabs; split
  · linarith
  · rfl

theorem rabs_of_nonpos {x : Rat} (h : x ≤ 0) : rabs x = -x := by
  unfold rabs; split
  · rfl
  · have : x = 0 := by linarith
    subst this; simp

theorem rabs_eq_abs (x : Rat) : rabs x = |x| := by
  rcases le_total 0 x with h | h
  · rw [rabs_of_nonneg h, abs_of_nonneg h]
  · rw [rabs_of_nonpos h, abs_of_nonpos h]

theorem rmin_le_left (x y : Rat) : rmin x y ≤ x := by
  unfold rmin; split <;> linarith

theorem rmin_le_right (x y : Rat) : rmin x y ≤ y := by
  unfold rmin; split <;> linarith

theorem le_rmin {a x y : Rat} (hx : a ≤ x) (hy : a ≤ y) : a ≤ rmin x y := by
  unfold rmin; split <;> assumption

theorem rmin_eq_min (x y : Rat) : rmin x y = min x y := by
  unfold rmin; split
  · rename_i h; rw [min_eq_right (le_of_lt h)]
  · rename_i h; rw [min_eq_left (not_lt.mp h)]

theorem rmax_eq_max (x y : Rat) : rmax x y = max x y := by
  unfold rmax; split
  · rename_i h; rw [max_eq_right (le_of_lt h)]
  · rename_i h; rw [max_eq_left (not_lt.mp h)]

theorem rmin_le_iff_cases {a x y : Rat} (h : a ≤ x ∧ a ≤ y) : a ≤ rmin x y := le_rmin h.1 h.2

theorem le_rmax_left (x y : Rat) : x ≤ rmax x y := by
  unfold rmax; split <;> linarith

theorem le_rmax_right (x y : Rat) : y ≤ rmax x y := by
  unfold rmax; split <;> linarith

/-! ### sign1 -/

theorem sign1_pos {x : Rat} (h : 0 < x) : sign1 x = 1 := by
  unfold sign1; simp [h]

theorem sign1_zero : sign1 0 = 0 := by
  unfold sign1; simp

theorem sign1_neg {x : Rat} (h : x < 0) : sign1 x = -1 := by
  unfold sign1
  have h1 : ¬ (x > 0) := by intro h'; linarith
  have h2 : ¬ (x = 0) := by intro h'; linarith
  simp [h1, h2]

theorem sign1_bounds (x : Rat) : (-1 : Rat) ≤ (sign1 x : Rat) ∧ (sign1 x : Rat) ≤ 1 := by
  rcases lt_trichotomy x 0 with h | h | h
  · rw [sign1_neg h]; norm_num
  · subst h; rw [sign1_zero]; norm_num
  · rw [sign1_pos h]; norm_num

/-- `(Sign m + Sign m) * |m|/2 = m` -/
theorem limit_id (m : Rat) : ((sign1 m + sign1 m : Int) : Rat) * (rabs m / 2) = m := by
  rcases lt_trichotomy m 0 with h | h | h
  · rw [sign1_neg h, rabs_of_nonpos (le_of_lt h)]; push_cast; ring
  · subst h; rw [sign1_zero]; simp [rabs]
  · rw [sign1_pos h, rabs_of_nonneg (le_of_lt h)]; push_cast; ring

/-! ### The limiter box -/

/-- the signed box: `d` has the sign of `s` (or vanishes) and `|d| ≤ 2|s|` -/
def Box (d s : Rat) : Prop := (0 ≤ s → 0 ≤ d ∧ d ≤ 2 * s) ∧ (s ≤ 0 → 2 * s ≤ d ∧ d ≤ 0)

theorem box_of {σ m s : Rat} (hm0 : 0 ≤ m) (hm : m ≤ rabs s)
    (hpos : 0 < s → 0 ≤ σ ∧ σ ≤ 2) (hneg : s < 0 → -2 ≤ σ ∧ σ ≤ 0) : Box (σ * m) s := by
  rcases lt_trichotomy s 0 with h | h | h
  · obtain ⟨h1, h2⟩ := hneg h
    rw [rabs_of_nonpos (le_of_lt h)] at hm
    refine ⟨fun h' => absurd h' (not_le.mpr h), fun _ => ⟨?_, ?_⟩⟩
    · nlinarith [mul_nonneg (show (0 : Rat) ≤ σ + 2 by linarith) hm0]
    · nlinarith [mul_nonneg (show (0 : Rat) ≤ -σ by linarith) hm0]
  · subst h
    have : m = 0 := by
      have : rabs (0 : Rat) = 0 := by simp [rabs]
      rw [this] at hm; linarith
    subst this
    refine ⟨fun _ => ⟨by simp, by simp⟩, fun _ => ⟨by simp, by simp⟩⟩
  · obtain ⟨h1, h2⟩ := hpos h
    rw [rabs_of_nonneg (le_of_lt h)] at hm
    refine ⟨fun _ => ⟨?_, ?_⟩, fun h' => absurd h' (not_le.mpr h)⟩
    · exact mul_nonneg h1 hm0
    · nlinarith [mul_nonneg (show (0 : Rat) ≤ 2 - σ by linarith) hm0]

theorem Box.abs_le {d s : Rat} (hb : Box d s) : rabs d ≤ 2 * rabs s := by
  rcases le_total 0 s with h | h
  · obtain ⟨h1, h2⟩ := hb.1 h
    rw [rabs_of_nonneg h1, rabs_of_nonneg h]; exact h2
  · obtain ⟨h1, h2⟩ := hb.2 h
    rw [rabs_of_nonpos h2, rabs_of_nonpos h]; linarith

theorem Box.mul_nonneg {d s : Rat} (hb : Box d s) : 0 ≤ d * s := by
  rcases le_total 0 s with h | h
  · exact _root_.mul_nonneg (hb.1 h).1 h
  · have := (hb.2 h).2
    nlinarith [_root_.mul_nonneg (show (0 : Rat) ≤ -d by linarith) (show (0 : Rat) ≤ -s by linarith)]

theorem sigma_pos_right (a : Rat) {s : Rat} (h : 0 < s) :
    0 ≤ ((sign1 a + sign1 s : Int) : Rat) ∧ ((sign1 a + sign1 s : Int) : Rat) ≤ 2 := by
  have := sign1_bounds a
  rw [sign1_pos h]; push_cast; constructor <;> linarith [this.1, this.2]

theorem sigma_neg_right (a : Rat) {s : Rat} (h : s < 0) :
    -2 ≤ ((sign1 a + sign1 s : Int) : Rat) ∧ ((sign1 a + sign1 s : Int) : Rat) ≤ 0 := by
  have := sign1_bounds a
  rw [sign1_neg h]; push_cast; constructor <;> linarith [this.1, this.2]

theorem sigma_pos_left (a : Rat) {s : Rat} (h : 0 < s) :
    0 ≤ ((sign1 s + sign1 a : Int) : Rat) ∧ ((sign1 s + sign1 a : Int) : Rat) ≤ 2 := by
  rw [Int.add_comm]; exact sigma_pos_right a h

theorem sigma_neg_left (a : Rat) {s : Rat} (h : s < 0) :
    -2 ≤ ((sign1 s + sign1 a : Int) : Rat) ∧ ((sign1 s + sign1 a : Int) : Rat) ≤ 0 := by
  rw [Int.add_comm]; exact sigma_neg_right a h

/-! The limiter factors are the constants `Lp.C01.K.*`, read from src/Numerics.cpp before every build
    (LpModel/C01/Constants.lean).  The lemmas below unfold them: they go through for
    `1.0·|p|/2.0`, `1.0·|s_i|`, `1.0·|s_{i-1}|` (interior) and `1.0·|s|`, `0.5·|p|` (boundary) and stop
    compiling when the source says otherwise. -/

theorem interior_min_nonneg (p s sm : Rat) : 0 ≤ rmin (rabs p / 2) (rmin (rabs s) (rabs sm)) :=
  le_rmin (by have := rabs_nonneg p; linarith) (le_rmin (rabs_nonneg s) (rabs_nonneg sm))

/-- interior slopes lie in the box of the right neighbour slope … -/
theorem dyInterior_box_right (hm h sm s : Rat) : Box (dyInterior hm h sm s) s := by
  unfold dyInterior
  simp only [K.limIntP, K.limIntPDiv, K.limIntS, K.limIntSm, one_mul]
  refine box_of (interior_min_nonneg _ _ _) ?_ (sigma_pos_right sm) (sigma_neg_right sm)
  exact le_trans (rmin_le_right _ _) (rmin_le_left _ _)

/-- … and of the left neighbour slope -/
theorem dyInterior_box_left (hm h sm s : Rat) : Box (dyInterior hm h sm s) sm := by
  unfold dyInterior
  simp only [K.limIntP, K.limIntPDiv, K.limIntS, K.limIntSm, one_mul]
  refine box_of (interior_min_nonneg _ _ _) ?_ (sigma_pos_left s) (sigma_neg_left s)
  exact le_trans (rmin_le_right _ _) (rmin_le_right _ _)

/-- boundary slopes lie in the box of the boundary interval's slope -/
theorem dyEdge_box (h0 h1 s0 s1 : Rat) : Box (dyEdge h0 h1 s0 s1) s0 := by
  unfold dyEdge
  simp only [K.limEdgeS, K.limEdgeP, one_mul]
  refine box_of (le_rmin (rabs_nonneg _) (by have := rabs_nonneg (pEdge h0 h1 s0 s1); linarith)) ?_
    (sigma_pos_right _) (sigma_neg_right _)
  exact rmin_le_left _ _

/-- every slope the constructor produces lies in the box of each adjacent interval's slope -/
theorem dy_box (N : Nat) (x y : Nat → Rat) (i j : Nat) (hj : j + 1 < N) (hi : i < N)
    (hadj : j = i ∨ j + 1 = i) : Box (dy N x y i) (s x y j) := by
  unfold dy
  split
  · rename_i h0
    have : j = 0 := by omega
    subst this; exact dyEdge_box _ _ _ _
  · split
    · rename_i h0 h1
      have : j = N - 2 := by omega
      subst this; exact dyEdge_box _ _ _ _
    · rename_i h0 h1
      rcases hadj with rfl | rfl
      · exact dyInterior_box_right _ _ _ _
      · have e : j + 1 - 1 = j := by omega
        rw [e]; exact dyInterior_box_left _ _ _ _

/-! ### Hermite segment -/

theorem segA_mul {h : Rat} (hh : h ≠ 0) (s dl dr : Rat) : segA h s dl dr * (h * h) = dl + dr - 2 * s := by
  unfold segA; field_simp

theorem segB_mul {h : Rat} (hh : h ≠ 0) (s dl dr : Rat) : segB h s dl dr * h = 3 * s - 2 * dl - dr := by
  unfold segB; field_simp

theorem segEval_zero (a b c d : Rat) : segEval a b c d 0 = d := by
  unfold segEval; ring

theorem segD1_zero (a b c : Rat) : segD1 a b c 0 = c := by
  unfold segD1; ring

theorem segEval_right {h : Rat} (hh : h ≠ 0) (s dl dr y0 : Rat) :
    segEval (segA h s dl dr) (segB h s dl dr) dl y0 h = y0 + s * h := by
  have ha := segA_mul hh s dl dr
  have hb := segB_mul hh s dl dr
  unfold segEval
  linear_combination h * ha + h * hb

theorem segD1_right {h : Rat} (hh : h ≠ 0) (s dl dr : Rat) :
    segD1 (segA h s dl dr) (segB h s dl dr) dl h = dr := by
  have ha := segA_mul hh s dl dr
  have hb := segB_mul hh s dl dr
  unfold segD1
  linear_combination 3 * ha + 2 * hb

theorem segEval_taylor (a b c d t δ : Rat) :
    segEval a b c d (t + δ) =
      segEval a b c d t + segD1 a b c t * δ + segD2 a b t * δ ^ 2 / 2 + segD3 a * δ ^ 3 / 6 := by
  unfold segEval segD1 segD2 segD3; ring

theorem segD1_taylor (a b c t δ : Rat) :
    segD1 a b c (t + δ) = segD1 a b c t + segD2 a b t * δ + segD3 a * δ ^ 2 / 2 := by
  unfold segD1 segD2 segD3; ring

theorem segD2_taylor (a b t δ : Rat) : segD2 a b (t + δ) = segD2 a b t + segD3 a * δ := by
  unfold segD2 segD3; ring

theorem segEval_diff (a b c d t t' : Rat) :
    segEval a b c d t' - segEval a b c d t =
      (t' - t) * (segD1 a b c t + 4 * segD1 a b c ((t + t') / 2) + segD1 a b c t') / 6 := by
  unfold segEval segD1; ring

/-- the sign certificate of the first derivative (DESIGN.md §6 C01) -/
theorem segD1_certificate {h : Rat} (hh : h ≠ 0) (s dl dr t : Rat) :
    segD1 (segA h s dl dr) (segB h s dl dr) dl t * (h ^ 2 * (9 * s ^ 2)) =
      (3 * s - dl) * (3 * s - dr) * (6 * s * t * (h - t)) + dl * (3 * s - dr) * (3 * s * (h - t) ^ 2)
        + (3 * s - dl) * dr * (3 * s * t ^ 2) + dl * dr * (3 * s * (h - 2 * t) ^ 2) := by
  have ha := segA_mul hh s dl dr
  have hb := segB_mul hh s dl dr
  unfold segD1
  linear_combination (27 * s ^ 2 * t ^ 2) * ha + (18 * s ^ 2 * t * h) * hb

theorem segD1_nonneg {h s dl dr t : Rat} (hh : 0 < h) (hl0 : 0 ≤ dl) (hl : dl ≤ 3 * s)
    (hr0 : 0 ≤ dr) (hr : dr ≤ 3 * s) (ht0 : 0 ≤ t) (ht : t ≤ h) :
    0 ≤ segD1 (segA h s dl dr) (segB h s dl dr) dl t := by
  have hs : 0 ≤ s := by linarith
  rcases eq_or_lt_of_le hs with hs0 | hspos
  · -- s = 0: both slopes vanish, the segment is constant
    subst hs0
    have e1 : dl = 0 := by linarith
    have e2 : dr = 0 := by linarith
    subst e1; subst e2
    unfold segD1 segA segB; simp
  · have key := segD1_certificate (ne_of_gt hh) s dl dr t
    have hA : 0 ≤ 3 * s - dl := by linarith
    have hB : 0 ≤ 3 * s - dr := by linarith
    have hT : 0 ≤ h - t := by linarith
    have rhs : 0 ≤ (3 * s - dl) * (3 * s - dr) * (6 * s * t * (h - t)) + dl * (3 * s - dr) * (3 * s * (h - t) ^ 2)
        + (3 * s - dl) * dr * (3 * s * t ^ 2) + dl * dr * (3 * s * (h - 2 * t) ^ 2) := by positivity
    have hpos : 0 < h ^ 2 * (9 * s ^ 2) := by positivity
    rw [← key] at rhs
    exact nonneg_of_mul_nonneg_left rhs hpos

/-- negating the data negates the segment -/
theorem segA_neg (h s dl dr : Rat) : segA h (-s) (-dl) (-dr) = -segA h s dl dr := by
  unfold segA; ring

theorem segB_neg (h s dl dr : Rat) : segB h (-s) (-dl) (-dr) = -segB h s dl dr := by
  unfold segB; ring

theorem segD1_neg (a b c t : Rat) : segD1 (-a) (-b) (-c) t = -segD1 a b c t := by
  unfold segD1; ring

theorem segD1_nonpos {h s dl dr t : Rat} (hh : 0 < h) (hl0 : dl ≤ 0) (hl : 3 * s ≤ dl)
    (hr0 : dr ≤ 0) (hr : 3 * s ≤ dr) (ht0 : 0 ≤ t) (ht : t ≤ h) :
    segD1 (segA h s dl dr) (segB h s dl dr) dl t ≤ 0 := by
  have := segD1_nonneg (s := -s) (dl := -dl) (dr := -dr) hh (by linarith) (by linarith) (by linarith)
    (by linarith) ht0 ht
  rw [segA_neg, segB_neg, segD1_neg] at this
  linarith

/-- a segment whose end slopes lie in `[0,3s]` is non-decreasing on `[0,h]` -/
theorem segEval_mono {h s dl dr y0 t t' : Rat} (hh : 0 < h) (hl0 : 0 ≤ dl) (hl : dl ≤ 3 * s)
    (hr0 : 0 ≤ dr) (hr : dr ≤ 3 * s) (ht0 : 0 ≤ t) (htt : t ≤ t') (ht : t' ≤ h) :
    segEval (segA h s dl dr) (segB h s dl dr) dl y0 t ≤ segEval (segA h s dl dr) (segB h s dl dr) dl y0 t' := by
  have d := segEval_diff (segA h s dl dr) (segB h s dl dr) dl y0 t t'
  have n1 := segD1_nonneg hh hl0 hl hr0 hr ht0 (le_trans htt ht)
  have n2 := segD1_nonneg hh hl0 hl hr0 hr (t := (t + t') / 2) (by linarith) (by linarith)
  have n3 := segD1_nonneg hh hl0 hl hr0 hr (le_trans ht0 htt) ht
  have : 0 ≤ (t' - t) * (segD1 (segA h s dl dr) (segB h s dl dr) dl t
      + 4 * segD1 (segA h s dl dr) (segB h s dl dr) dl ((t + t') / 2)
      + segD1 (segA h s dl dr) (segB h s dl dr) dl t') / 6 := by
    apply div_nonneg _ (by norm_num)
    exact mul_nonneg (by linarith) (by linarith)
  linarith

/-- … and non-increasing when they lie in `[3s,0]` -/
theorem segEval_anti {h s dl dr y0 t t' : Rat} (hh : 0 < h) (hl0 : dl ≤ 0) (hl : 3 * s ≤ dl)
    (hr0 : dr ≤ 0) (hr : 3 * s ≤ dr) (ht0 : 0 ≤ t) (htt : t ≤ t') (ht : t' ≤ h) :
    segEval (segA h s dl dr) (segB h s dl dr) dl y0 t' ≤ segEval (segA h s dl dr) (segB h s dl dr) dl y0 t := by
  have d := segEval_diff (segA h s dl dr) (segB h s dl dr) dl y0 t t'
  have n1 := segD1_nonpos hh hl0 hl hr0 hr ht0 (le_trans htt ht)
  have n2 := segD1_nonpos hh hl0 hl hr0 hr (t := (t + t') / 2) (by linarith) (by linarith)
  have n3 := segD1_nonpos hh hl0 hl hr0 hr (le_trans ht0 htt) ht
  have : (t' - t) * (segD1 (segA h s dl dr) (segB h s dl dr) dl t
      + 4 * segD1 (segA h s dl dr) (segB h s dl dr) dl ((t + t') / 2)
      + segD1 (segA h s dl dr) (segB h s dl dr) dl t') / 6 ≤ 0 := by
    apply div_nonpos_of_nonpos_of_nonneg _ (by norm_num)
    exact mul_nonpos_of_nonneg_of_nonpos (by linarith) (by linarith)
  linarith

end Lp.C01

namespace Lp.C01
open Lp

/-- scaling by a prefactor of either sign keeps a value between the scaled neighbours -/
theorem scale_between {a b c : Rat} (p : Rat) (h : rmin a b ≤ c ∧ c ≤ rmax a b) :
    rmin (p * a) (p * b) ≤ p * c ∧ p * c ≤ rmax (p * a) (p * b) := by
  rw [rmin_eq_min, rmax_eq_max] at *
  obtain ⟨h1, h2⟩ := h
  refine ⟨min_le_iff.mpr ?_, le_max_iff.mpr ?_⟩
  · rcases le_total 0 p with hp | hp
    · rcases min_le_iff.mp h1 with h | h
      · exact Or.inl (mul_le_mul_of_nonneg_left h hp)
      · exact Or.inr (mul_le_mul_of_nonneg_left h hp)
    · rcases le_max_iff.mp h2 with h | h
      · exact Or.inl (mul_le_mul_of_nonpos_left h hp)
      · exact Or.inr (mul_le_mul_of_nonpos_left h hp)
  · rcases le_total 0 p with hp | hp
    · rcases le_max_iff.mp h2 with h | h
      · exact Or.inl (mul_le_mul_of_nonneg_left h hp)
      · exact Or.inr (mul_le_mul_of_nonneg_left h hp)
    · rcases min_le_iff.mp h1 with h | h
      · exact Or.inl (mul_le_mul_of_nonpos_left h hp)
      · exact Or.inr (mul_le_mul_of_nonpos_left h hp)

end Lp.C01
