import LpModel.C01
namespace Lp.C01
end Lp.C01
