/-
  C01 — Interpolants reproduce the data and never overshoot it.

  Property theorems about the executable model `LpModel.Interp` (+ `LpModel.C01`), over exact
  rationals (every finite `double` table is a rational table; rounding is absorbed and measured by
  the class-B correspondence of props/c01.py).  Helper lemmas: `LpProofs/C01/Kernel.lean`,
  `LpProofs/C01/Table.lean`, `LpProofs/C01/Locate.lean`.

  Notation.  A table is `N`, `x y : Nat → Rat` (the driver instantiates `x i = xs[i]`);
  `StrictInc N x` is the constructor's guard; `cubic N x y j v` is the cubic of interval `j`
  at abscissa `v` — by `cubicAt_eq`/`interpolate_eq` exactly what `Interpolate(v)` returns
  (up to the prefactor) when `Locate(v) = j`; `cubicD1..3` are what `Derivative(v,1..3)` returns
  (`derivative_eq`).  None of the segment theorems needs `3 ≤ N` (which the constructor demands):
  they hold for every interval `j` with `j + 1 < N`.
-/
import LpProofs.C01.Kernel
import LpProofs.C01.Table
import LpProofs.C01.Locate
import LpProofs.C01.Zone
import LpProofs.C01.Scale

namespace Lp.C01
open Lp Lp.Interp

/-! ## 0. The constants read from the source fit the shape of the model -/

/-- `LpModel.Interp` has ONE `pEdge`/`dyEdge` for both ends of the table and writes `pow(h[i], 2.0)` as
    `h * h`.  The numeric literals of the source are regenerated into `Lp.C01.K` before every build
    (translators/constants.py); the model is the code only if the literals of the last-point branch equal
    those of the first-point branch and the exponent is 2.  Any other source text breaks this obligation. -/
theorem model_shape_constants :
    K.limLastS = K.limEdgeS ∧ K.limLastP = K.limEdgeP ∧ K.pLastOne = K.pEdgeOne ∧ K.aPow = 2 := by
  refine ⟨?_, ?_, ?_, ?_⟩ <;>
    norm_num [K.limLastS, K.limEdgeS, K.limLastP, K.limEdgeP, K.pLastOne, K.pEdgeOne, K.aPow]

/-! ## 1. Knots are reproduced; value and first derivative are continuous across knots -/

/-- kernel: a segment takes `d` and slope `c` at its left end -/
theorem seg_left (a b c d : Rat) : segEval a b c d 0 = d ∧ segD1 a b c 0 = c :=
  ⟨segEval_zero a b c d, segD1_zero a b c⟩

/-- kernel: with the Hermite coefficients of the C++ the segment takes `y0 + s*h` (= `y_{j+1}`)
    at its right end; needs only `h ≠ 0` -/
theorem seg_right {h : Rat} (hh : h ≠ 0) (s dl dr y0 : Rat) :
    segEval (segA h s dl dr) (segB h s dl dr) dl y0 h = y0 + s * h := segEval_right hh s dl dr y0

theorem seg_d1_left (a b c : Rat) : segD1 a b c 0 = c := segD1_zero a b c

/-- kernel: the first derivative at the right end is the slope `dr` handed in for that knot -/
theorem seg_d1_right {h : Rat} (hh : h ≠ 0) (s dl dr : Rat) :
    segD1 (segA h s dl dr) (segB h s dl dr) dl h = dr := segD1_right hh s dl dr

/-- every table, every interval: the interpolant returns the tabulated values at both ends -/
theorem interp_reproduces_knots {N : Nat} {x y : Nat → Rat} (hx : StrictInc N x) {j : Nat} (hj : j + 1 < N) :
    cubic N x y j (x j) = y j ∧ cubic N x y j (x (j + 1)) = y (j + 1) :=
  ⟨cubic_left N x y j, cubic_right hx hj⟩

/-- every table, every interior knot `x_{j+1}`: value and first derivative of the two adjacent
    segments agree there (C¹), and both equal `y_{j+1}` resp. the limited slope `dy_{j+1}` -/
theorem interp_C1 {N : Nat} {x y : Nat → Rat} (hx : StrictInc N x) {j : Nat} (hj : j + 2 < N) :
    cubic N x y j (x (j + 1)) = cubic N x y (j + 1) (x (j + 1))
    ∧ cubicD1 N x y j (x (j + 1)) = cubicD1 N x y (j + 1) (x (j + 1))
    ∧ cubicD1 N x y j (x (j + 1)) = dy N x y (j + 1) := by
  have hj' : j + 1 < N := by omega
  refine ⟨?_, ?_, cubicD1_right hx hj'⟩
  · rw [cubic_right hx hj', cubic_left]
  · rw [cubicD1_right hx hj', cubicD1_left]

example : StrictInc 4 (fun i => (i : Rat)) := by
  intro i _; push_cast; linarith

/-! ## 2. The reported derivatives are the derivatives of the returned cubic -/

/-- the Taylor expansion of the segment about any point, with the reported derivatives as
    coefficients, is the segment itself (a polynomial identity: it characterises them uniquely);
    likewise for the reported first and second derivative -/
theorem seg_taylor (a b c d t δ : Rat) :
    segEval a b c d (t + δ) = segEval a b c d t + segD1 a b c t * δ + segD2 a b t * δ ^ 2 / 2 + segD3 a * δ ^ 3 / 6
    ∧ segD1 a b c (t + δ) = segD1 a b c t + segD2 a b t * δ + segD3 a * δ ^ 2 / 2
    ∧ segD2 a b (t + δ) = segD2 a b t + segD3 a * δ :=
  ⟨segEval_taylor a b c d t δ, segD1_taylor a b c t δ, segD2_taylor a b t δ⟩

/-- table level: on every interval, for all `v`, `δ` -/
theorem interp_taylor (N : Nat) (x y : Nat → Rat) (j : Nat) (v δ : Rat) :
    cubic N x y j (v + δ) = cubic N x y j v + cubicD1 N x y j v * δ + cubicD2 N x y j v * δ ^ 2 / 2
      + cubicD3 N x y j * δ ^ 3 / 6 := by
  unfold cubic cubicD1 cubicD2 cubicD3
  have e : v + δ - x j = (v - x j) + δ := by ring
  rw [e]; exact segEval_taylor _ _ _ _ _ _

/-- what `Interpolate` / `Derivative(·,k)` return, given the interval `Locate` chose: the cubic and
    its derivatives times the prefactor; order ≥ 4 returns 0 -/
theorem queries_are_cubic {o o' : Obj} {v : Rat} {j : Nat} (hl : o.locate v = .ok (j, o')) :
    o.interpolate v = .ok (o.valueAt j v, o')
    ∧ o.derivative v 1 = .ok (o.pref * cubicD1 o.N o.x o.y j v, o')
    ∧ o.derivative v 2 = .ok (o.pref * cubicD2 o.N o.x o.y j v, o')
    ∧ o.derivative v 3 = .ok (o.pref * cubicD3 o.N o.x o.y j, o')
    ∧ ∀ k, 4 ≤ k → o.derivative v k = .ok (0, o') :=
  ⟨interpolate_eq_valueAt hl, derivative_eq hl⟩

/-! ## 3. The Steffen limiter -/

/-- kernel: interior and boundary formulas, for all arguments (also all sign cases of
    `Sign a + Sign b`): the slope has the sign of each neighbouring secant (or vanishes) and
    `|dy| ≤ 2·min(|s_{i-1}|,|s_i|)` (boundary: `≤ 2|s_0|`) -/
theorem limiter_box_kernel (hm h sm s h0 h1 s0 s1 : Rat) :
    (0 ≤ dyInterior hm h sm s * s ∧ 0 ≤ dyInterior hm h sm s * sm
      ∧ rabs (dyInterior hm h sm s) ≤ 2 * rmin (rabs sm) (rabs s))
    ∧ (0 ≤ dyEdge h0 h1 s0 s1 * s0 ∧ rabs (dyEdge h0 h1 s0 s1) ≤ 2 * rabs s0) := by
  have br := dyInterior_box_right hm h sm s
  have bl := dyInterior_box_left hm h sm s
  have be := dyEdge_box h0 h1 s0 s1
  refine ⟨⟨br.mul_nonneg, bl.mul_nonneg, ?_⟩, be.mul_nonneg, be.abs_le⟩
  have := le_rmin (a := rabs (dyInterior hm h sm s) / 2) (x := rabs sm) (y := rabs s)
    (by have := bl.abs_le; linarith) (by have := br.abs_le; linarith)
  linarith

/-- every table (no hypothesis on the abscissae is needed), every knot `i`, every interval `j`
    adjacent to it: `dy_i · s_j ≥ 0` and `|dy_i| ≤ 2|s_j|` -/
theorem limiter_box (N : Nat) (x y : Nat → Rat) (i j : Nat) (hi : i < N) (hj : j + 1 < N)
    (hadj : j = i ∨ j + 1 = i) :
    0 ≤ dy N x y i * s x y j ∧ rabs (dy N x y i) ≤ 2 * rabs (s x y j) :=
  ⟨(dy_box N x y i j hj hi hadj).mul_nonneg, (dy_box N x y i j hj hi hadj).abs_le⟩

/-- where the data have a local extremum or a plateau (`s_{i-1}·s_i ≤ 0`) the slope is zero -/
theorem limiter_zero_at_extremum (N : Nat) (x y : Nat → Rat) (i : Nat) (hi : i + 1 < N) (h0 : 0 < i)
    (hext : s x y (i - 1) * s x y i ≤ 0) : dy N x y i = 0 := by
  have b1 := dy_box N x y i i hi (by omega) (Or.inl rfl)
  have b0 := dy_box N x y i (i - 1) (by omega) (by omega) (Or.inr (by omega))
  rcases le_total 0 (s x y i) with h | h <;> rcases le_total 0 (s x y (i - 1)) with h' | h'
  · have e1 := (b1.1 h); have e0 := (b0.1 h')
    rcases eq_or_lt_of_le h with hz | hp
    · rw [← hz] at e1; linarith [e1.1, e1.2]
    · have : s x y (i - 1) = 0 := by nlinarith
      rw [this] at e0; linarith [e0.1, e0.2]
  · linarith [(b1.1 h).1, (b0.2 h').2]
  · linarith [(b1.2 h).2, (b0.1 h').1]
  · have e1 := (b1.2 h); have e0 := (b0.2 h')
    rcases eq_or_lt_of_le h with hz | hp
    · rw [hz] at e1; linarith [e1.1, e1.2]
    · have : s x y (i - 1) = 0 := by nlinarith
      rw [this] at e0; linarith [e0.1, e0.2]

/-! ## 4. Monotone and bounded on every interval of every table -/

/-- the certificate of DESIGN.md: with end slopes in `[0,3s]` the first derivative is `≥ 0` on `[0,h]` -/
theorem seg_d1_nonneg {h s dl dr t : Rat} (hh : 0 < h) (hl0 : 0 ≤ dl) (hl : dl ≤ 3 * s)
    (hr0 : 0 ≤ dr) (hr : dr ≤ 3 * s) (ht0 : 0 ≤ t) (ht : t ≤ h) :
    0 ≤ segD1 (segA h s dl dr) (segB h s dl dr) dl t := segD1_nonneg hh hl0 hl hr0 hr ht0 ht

example : (0 : Rat) < 2 ∧ (0 : Rat) ≤ 1 ∧ (1 : Rat) ≤ 3 * 1 ∧ (0 : Rat) ≤ 3 ∧ (3 : Rat) ≤ 3 * 1 := by norm_num

/-- increments of the cubic are Simpson's rule applied to the reported first derivative (exact) -/
theorem seg_diff (a b c d t t' : Rat) :
    segEval a b c d t' - segEval a b c d t =
      (t' - t) * (segD1 a b c t + 4 * segD1 a b c ((t + t') / 2) + segD1 a b c t') / 6 :=
  segEval_diff a b c d t t'

/-- THE HEART OF THE PROPERTY.  For every table with strictly increasing abscissae, every interval
    `j`, all `v ≤ v'` in `[x_j, x_{j+1}]`: the interpolant is monotone in the direction of the data -/
theorem interp_monotone_on_segment {N : Nat} {x y : Nat → Rat} (hx : StrictInc N x) {j : Nat} (hj : j + 1 < N)
    {v v' : Rat} (h0 : x j ≤ v) (h1 : v ≤ v') (h2 : v' ≤ x (j + 1)) :
    (y j ≤ y (j + 1) → cubic N x y j v ≤ cubic N x y j v')
    ∧ (y (j + 1) ≤ y j → cubic N x y j v' ≤ cubic N x y j v) :=
  ⟨fun hy => cubic_mono_up hx hj hy h0 h1 h2, fun hy => cubic_mono_down hx hj hy h0 h1 h2⟩

/-- … and stays between the two tabulated neighbours: no extremum that is not in the data -/
theorem interp_between_neighbours {N : Nat} {x y : Nat → Rat} (hx : StrictInc N x) {j : Nat} (hj : j + 1 < N)
    {v : Rat} (h0 : x j ≤ v) (h1 : v ≤ x (j + 1)) :
    rmin (y j) (y (j + 1)) ≤ cubic N x y j v ∧ cubic N x y j v ≤ rmax (y j) (y (j + 1)) :=
  cubic_between hx hj h0 h1

/-- the same for the object, with a prefactor of either sign (`Set_Prefactor`, `Multiply`) -/
theorem cubicAt_between_neighbours (o : Obj) (hx : StrictInc o.N o.x) {j : Nat} (hj : j + 1 < o.N)
    {v : Rat} (h0 : o.x j ≤ v) (h1 : v ≤ o.x (j + 1)) :
    rmin (o.pref * o.y j) (o.pref * o.y (j + 1)) ≤ o.cubicAt j v
    ∧ o.cubicAt j v ≤ rmax (o.pref * o.y j) (o.pref * o.y (j + 1)) := by
  rw [cubicAt_eq]; exact scale_between o.pref (cubic_between hx hj h0 h1)

/-- request level: a freshly constructed object (`jLast = 0`, `correlated_calls = false`), any
    abscissa of the tabulated domain: `Interpolate` answers, the interval it used brackets the
    abscissa, and the value lies between the two neighbouring tabulated values (times prefactor) -/
theorem interpolate_fresh_between (o : Obj) (hN : 2 ≤ o.N) (hx : StrictInc o.N o.x) (hst : o.st.corr = false)
    {v : Rat} (h0 : o.x 0 ≤ v) (h1 : v ≤ o.x (o.N - 1)) :
    ∃ j o' r, o.interpolate v = .ok (r, o') ∧ j + 1 < o.N ∧ o.x j ≤ v ∧ v ≤ o.x (j + 1)
      ∧ rmin (o.pref * o.y j) (o.pref * o.y (j + 1)) ≤ r ∧ r ≤ rmax (o.pref * o.y j) (o.pref * o.y (j + 1)) := by
  obtain ⟨j, o', hl, hj, hb0, hb1⟩ := locate_fresh_bracket o hN hx hst h0 h1
  refine ⟨j, o', _, interpolate_eq hl (valueAt_eq_cubicAt hx hj hb0 hb1), hj, hb0, hb1, ?_⟩
  have := cubicAt_between_neighbours o hx hj hb0 hb1
  rwa [cubicAt_eq] at this

/-- `Interpolate` as coded (fix 5863798) at the knots: at every knot but the last the located interval's cubic is
    evaluated at offset 0 and returns `d[k] = y_k`; at the last abscissa the code's own branch returns
    `prefactor * function_values[N-1]` whatever interval was located — no arithmetic is involved, so this clause
    is exact in doubles as well (the comparator demands bit-equality at every knot) -/
theorem valueAt_at_every_knot (o : Obj) (hx : StrictInc o.N o.x) :
    (∀ k, k + 1 < o.N → o.valueAt k (o.x k) = o.pref * o.y k)
    ∧ (∀ j, o.valueAt j (o.x (o.N - 1)) = o.pref * o.y (o.N - 1)) := by
  refine ⟨fun k hk => ?_, fun j => valueAt_last o j⟩
  have hne : o.x k ≠ o.x (o.N - 1) := ne_of_lt (hx.lt (by omega) (by omega))
  rw [valueAt_of_ne hne, cubicAt_eq, cubic_left]

/-- the fix is value-neutral over the rationals: whenever the located interval brackets the abscissa the branch
    returns what the cubic returns -/
theorem fix_5863798_noop {o : Obj} (hx : StrictInc o.N o.x) {j : Nat} (hj : j + 1 < o.N) {v : Rat}
    (h0 : o.x j ≤ v) (h1 : v ≤ o.x (j + 1)) : o.valueAt j v = o.cubicAt j v := valueAt_eq_cubicAt hx hj h0 h1

/-- request level: a fresh object returns exactly `prefactor * y_k` at EVERY tabulated abscissa, the last included -/
theorem interpolate_fresh_reproduces_every_knot (o : Obj) (hN : 2 ≤ o.N) (hx : StrictInc o.N o.x)
    (hst : o.st.corr = false) {k : Nat} (hk : k < o.N) :
    ∃ o', o.interpolate (o.x k) = .ok (o.pref * o.y k, o') := by
  have hk0 : o.x 0 ≤ o.x k := by
    rcases Nat.eq_zero_or_pos k with h | h
    · subst h; exact le_refl _
    · exact le_of_lt (hx.lt h hk)
  have hk1 : o.x k ≤ o.x (o.N - 1) := by
    rcases Nat.lt_or_ge k (o.N - 1) with h | h
    · exact le_of_lt (hx.lt h (by omega))
    · have : k = o.N - 1 := by omega
      rw [this]
  obtain ⟨j, o', hl, hj, hb0, hb1⟩ := locate_fresh_bracket o hN hx hst hk0 hk1
  refine ⟨o', ?_⟩
  rw [interpolate_eq hl (valueAt_eq_cubicAt hx hj hb0 hb1)]
  have hjk : j ≤ k := by
    by_contra h
    have := hx.lt (show k < j by omega) (by omega); linarith
  have hkj : k ≤ j + 1 := by
    by_contra h
    have := hx.lt (show j + 1 < k by omega) hk; linarith
  rcases Nat.lt_or_ge j k with h | h
  · have : k = j + 1 := by omega
    subst this; rw [cubic_right hx hj]
  · have : k = j := by omega
    subst this; rw [cubic_left]

example : ∀ o, mk [0, 1, 3, 7] [5, -2, -2, 11] (-1) (-1) = .ok o →
    ∃ o', o.interpolate (o.x (o.N - 1)) = .ok (o.pref * o.y (o.N - 1), o') := fun o h => by
  obtain ⟨hN, hx, hst, _⟩ := mk_ok h
  exact interpolate_fresh_reproduces_every_knot o (by omega) hx hst (by omega)

/-- the constructor's guards give exactly the hypotheses used above -/
theorem mk_gives_hypotheses {xs ys : List Rat} {xdim fdim : Rat} {o : Obj} (hmk : mk xs ys xdim fdim = .ok o) :
    3 ≤ o.N ∧ StrictInc o.N o.x ∧ o.st.corr = false ∧ o.pref = 1 := mk_ok hmk

example : ∃ o, mk [0, 1, 3, 7] [5, -2, -2, 11] (-1) (-1) = .ok o := ⟨_, rfl⟩

/-- request level, exactly what the driver (`run1D`) evaluates for one `Interpolate(v)` request and
    what the harness asks of the real library: table accepted by the constructor (any unit factors),
    any `Set_Prefactor`/`Multiply`, any abscissa of the tabulated domain ⇒ the answer is a number,
    computed on an interval that brackets `v`, between the two neighbouring tabulated values -/
theorem run1D_between_neighbours {xs ys : List Rat} {xdim fdim pref mul v : Rat} {o : Obj}
    (hmk : mk xs ys xdim fdim = .ok o) (h0 : o.x 0 ≤ v) (h1 : v ≤ o.x (o.N - 1)) :
    ∃ r j, run1D xs ys xdim fdim pref mul [(v, -1)] = .ok [(r, j)] ∧ j + 1 < o.N ∧ o.x j ≤ v ∧ v ≤ o.x (j + 1)
      ∧ rmin (pref * mul * o.y j) (pref * mul * o.y (j + 1)) ≤ r
      ∧ r ≤ rmax (pref * mul * o.y j) (pref * mul * o.y (j + 1)) := run1D_between_aux hmk h0 h1

/-- non-vacuity of the segment theorems on the table `x = 0,1,3,7`, `y = 5,-2,-2,11`
    (a descent, a plateau, a rise; spacing ratio 4): interval 2, abscissa 5 -/
example : rmin (exY 2) (exY 3) ≤ cubic 4 exX exY 2 5 ∧ cubic 4 exX exY 2 5 ≤ rmax (exY 2) (exY 3) :=
  interp_between_neighbours exX_inc (j := 2) (by decide) (by decide +kernel) (by decide +kernel)

example : cubic 4 exX exY 2 4 ≤ cubic 4 exX exY 2 5 :=
  (interp_monotone_on_segment exX_inc (j := 2) (v := 4) (v' := 5) (by decide) (by decide +kernel) (by decide +kernel)
    (by decide +kernel)).1 (by decide +kernel)

/-! ## 4a. Every constructor builds the same object -/

/-- the table constructor `Interpolation(vector<vector<double>>)` on the rows `{x_i, y_i}` and both spellings of the
    list constructor's call (operator() / named `Interpolate`) yield the object of `mk`; hence every theorem of this
    file holds for each way a request can build the interpolant (`run1Dc`, constructor flag 0, 1, 2) -/
theorem constructors_agree (ctor : Nat) (hc : ctor ≠ 3) (xs ys : List Rat) (h : xs.length = ys.length) (xdim fdim : Rat) :
    construct ctor xs ys xdim fdim = mk xs ys xdim fdim := construct_eq_mk ctor hc xs ys h xdim fdim

/-- the default constructor is a valid table (`{-1,0,1} → 0`) -/
example : ∃ o, mkDefault = .ok o ∧ o.N = 3 := ⟨_, rfl, rfl⟩

/-- proposed repair C01-2: testing the order after the unit conversion gives, over the rationals, the verdict of
    testing it before (for the positive factors the conversion applies) -/
theorem order_test_after_unit_conversion_noop {c : Rat} (hc : 0 < c) (l : List Rat) :
    strictlyIncreasing (l.map (· * c)) = strictlyIncreasing l := strictlyIncreasing_map_mul_eq hc l

/-! ## 4b. The 1 % extrapolation zone: explicit bound of the excursion beyond the end values

`Locate` accepts abscissae up to and including 1 % of the end interval's width beyond the two end abscissae
(fix a411065: only arguments outside by MORE than one percent are rejected) and
evaluates the end interval's cubic there.  Steffen's argument (section 4) does not cover that
continuation, and the value does leave the range of the data — but by no more than the bound below. -/

theorem rabs_s_mul_h {N : Nat} {x y : Nat → Rat} (hx : StrictInc N x) {j : Nat} (hj : j + 1 < N) :
    rabs (s x y j) * h x j = rabs (y (j + 1) - y j) := by
  have hh := h_pos hx hj
  rw [← s_mul_h (y := y) (ne_of_gt hh), rabs_eq_abs, rabs_eq_abs, abs_mul, abs_of_pos hh]

/-- For every table (`N ≥ 3`, strictly increasing abscissae) and every query `v` of the right zone
    `x_{N-1} < v ≤ x_{N-1} + (x_{N-1} - x_{N-2})/100` (closed at the one-percent edge: `Locate` accepts it
    since fix a411065), the last interval's cubic continued beyond the knot
    satisfies `|P(v) - y_{N-1}| ≤ C·|s_{N-2}|·(v - x_{N-1})` with `C = 2 + 3/100 + 2/10000 = 10151/5000`,
    hence `|P(v) - y_{N-1}| ≤ (C/100)·|y_{N-1} - y_{N-2}|` (about 2.03 % of the last step of the data);
    mirror image in the left zone.  The constant is sharp (both end slopes at the limiter's cap `2s`,
    `v` at the far end of the zone). -/
theorem extrapolation_zone_bound {N : Nat} {x y : Nat → Rat} (hN : 3 ≤ N) (hx : StrictInc N x) {v : Rat} :
    (x (N - 1) < v → v ≤ x (N - 1) + (x (N - 1) - x (N - 2)) / 100 →
      rabs (cubic N x y (N - 2) v - y (N - 1)) ≤ 10151 / 5000 * rabs (s x y (N - 2)) * (v - x (N - 1))
      ∧ rabs (cubic N x y (N - 2) v - y (N - 1)) ≤ 10151 / 500000 * rabs (y (N - 1) - y (N - 2)))
    ∧ (x 0 - (x 1 - x 0) / 100 ≤ v → v < x 0 →
      rabs (cubic N x y 0 v - y 0) ≤ 10151 / 5000 * rabs (s x y 0) * (x 0 - v)
      ∧ rabs (cubic N x y 0 v - y 0) ≤ 10151 / 500000 * rabs (y 1 - y 0)) := by
  constructor
  · intro h0 h1
    have b := cubic_zone_right (y := y) (show 2 ≤ N by omega) hx (le_of_lt h0) h1
    have hj : N - 2 + 1 < N := by omega
    have e := rabs_s_mul_h (y := y) hx hj
    have eN : N - 2 + 1 = N - 1 := by omega
    rw [eN] at e
    unfold zoneC at b
    refine ⟨b, le_trans b ?_⟩
    have hd : v - x (N - 1) ≤ h x (N - 2) / 100 := by unfold h; rw [eN]; linarith
    have := mul_le_mul_of_nonneg_left hd (rabs_nonneg (s x y (N - 2)))
    rw [← e]; linarith
  · intro h0 h1
    have b := cubic_zone_left (y := y) (show 2 ≤ N by omega) hx h0 (le_of_lt h1)
    have hj : 0 + 1 < N := by omega
    have e := rabs_s_mul_h (y := y) hx hj
    unfold zoneC at b
    refine ⟨b, le_trans b ?_⟩
    have hd : x 0 - v ≤ h x 0 / 100 := by unfold h; simp only [Nat.zero_add]; linarith
    have := mul_le_mul_of_nonneg_left hd (rabs_nonneg (s x y 0))
    simp only [Nat.zero_add] at e
    rw [← e]; linarith

/-- non-vacuity: on `x = 0,1,3,7`, `y = 5,-2,-2,11` the abscissa `7 + 1/50` lies in the right zone
    (width `4/100`) and `-1/200` in the left zone (width `1/100`); the right-zone value does exceed the
    largest tabulated value `11` — the zone is where the interpolant leaves the range of the data -/
example : rabs (cubic 4 exX exY 2 (7 + 1 / 50) - exY 3) ≤ 10151 / 5000 * rabs (s exX exY 2) * (7 + 1 / 50 - exX 3) :=
  ((extrapolation_zone_bound (N := 4) (by decide) exX_inc (y := exY) (v := 7 + 1 / 50)).1 (by decide +kernel)
    (by decide +kernel)).1

/-- … and exactly AT the one-percent edge `7 + 4/100` the bound still holds (and is where it is attained for
    tables at the limiter's cap) -/
example : rabs (cubic 4 exX exY 2 (7 + 1 / 25) - exY 3) ≤ 10151 / 500000 * rabs (exY 3 - exY 2) :=
  ((extrapolation_zone_bound (N := 4) (by decide) exX_inc (y := exY) (v := 7 + 1 / 25)).1 (by decide +kernel)
    (by decide +kernel)).2

example : rabs (cubic 4 exX exY 0 (-1 / 200) - exY 0) ≤ 10151 / 500000 * rabs (exY 1 - exY 0) :=
  ((extrapolation_zone_bound (N := 4) (by decide) exX_inc (y := exY) (v := -1 / 200)).2 (by decide +kernel)
    (by decide +kernel)).2

example : exY 3 < cubic 4 exX exY 2 (7 + 1 / 50) := by decide +kernel

/-- the excursion *against* the direction of the data is far smaller (kernel form, rising data):
    `-(151/5000)·s·δ ≤ P(h+δ) - P(h) ≤ (10151/5000)·s·δ` for `0 ≤ δ ≤ h/100` -/
theorem extrapolation_zone_kernel {h s dl dr y0 δ : Rat} (hh : 0 < h) (hs : 0 ≤ s) (hl0 : 0 ≤ dl) (hl : dl ≤ 2 * s)
    (hr0 : 0 ≤ dr) (hr : dr ≤ 2 * s) (hd0 : 0 ≤ δ) (hd : δ ≤ h / 100) :
    -(151 / 5000 * s * δ) ≤ segEval (segA h s dl dr) (segB h s dl dr) dl y0 (h + δ) - (y0 + s * h)
    ∧ segEval (segA h s dl dr) (segB h s dl dr) dl y0 (h + δ) - (y0 + s * h) ≤ 10151 / 5000 * s * δ :=
  zone_core hh hs hr0 hr hl0 hl hd0 hd (zone_right_identity (ne_of_gt hh) s dl dr y0 δ)

example : (0 : Rat) < 4 ∧ (0 : Rat) ≤ 13 / 4 ∧ (0 : Rat) ≤ 0 ∧ (0 : Rat) ≤ 2 * (13 / 4) ∧ (0 : Rat) ≤ 1 / 50
    ∧ (1 / 50 : Rat) ≤ 4 / 100 := by norm_num

/-- request level: in the two zones `Interpolate` answers from EVERY search state (no history
    dependence), with the end interval's cubic, and the answer obeys the bound (times `|prefactor|`) -/
theorem interpolate_zone_bound (o : Obj) (hN : 3 ≤ o.N) (hx : StrictInc o.N o.x) {v : Rat} :
    (o.x (o.N - 1) < v → v ≤ o.x (o.N - 1) + (o.x (o.N - 1) - o.x (o.N - 2)) / 100 →
      ∃ o', o.interpolate v = .ok (o.pref * cubic o.N o.x o.y (o.N - 2) v, o')
        ∧ rabs (o.pref * cubic o.N o.x o.y (o.N - 2) v - o.pref * o.y (o.N - 1))
            ≤ 10151 / 500000 * rabs (o.pref * (o.y (o.N - 1) - o.y (o.N - 2))))
    ∧ (o.x 0 - (o.x 1 - o.x 0) / 100 ≤ v → v < o.x 0 →
      ∃ o', o.interpolate v = .ok (o.pref * cubic o.N o.x o.y 0 v, o')
        ∧ rabs (o.pref * cubic o.N o.x o.y 0 v - o.pref * o.y 0)
            ≤ 10151 / 500000 * rabs (o.pref * (o.y 1 - o.y 0))) := by
  have scale : ∀ p a b c : Rat, rabs (a - b) ≤ 10151 / 500000 * rabs c →
      rabs (p * a - p * b) ≤ 10151 / 500000 * rabs (p * c) := by
    intro p a b c hab
    rw [rabs_eq_abs] at *
    rw [rabs_eq_abs] at hab
    rw [← mul_sub, abs_mul, rabs_eq_abs, abs_mul]
    have := mul_le_mul_of_nonneg_left hab (abs_nonneg p)
    linarith
  constructor
  · intro h0 h1
    have hl : o.locate v = .ok (o.N - 2, { o with st :=
        { jLast := o.N - 2, corr := decide (o.N - 2 ≥ o.st.jLast ∧ o.N - 2 - o.st.jLast < 10) } }) := by
      unfold Obj.locate; rw [locate_zone_right hN hx o.st h0 h1]
    exact ⟨_, interpolate_eq hl (valueAt_of_ne (ne_of_gt h0)), scale _ _ _ _ ((extrapolation_zone_bound hN hx).1 h0 h1).2⟩
  · intro h0 h1
    have hl : o.locate v = .ok (0, { o with st :=
        { jLast := 0, corr := decide (0 ≥ o.st.jLast ∧ 0 - o.st.jLast < 10) } }) := by
      unfold Obj.locate; rw [locate_zone_left o.st h0 h1]
    have hlt : o.x 0 < o.x (o.N - 1) := hx.lt (by omega) (by omega)
    exact ⟨_, interpolate_eq hl (valueAt_of_ne (ne_of_lt (lt_trans h1 hlt))),
      scale _ _ _ _ ((extrapolation_zone_bound hN hx).2 h0 h1).2⟩

example : ∃ o, mk [0, 1, 3, 7] [5, -2, -2, 11] (-1) (-1) = .ok o ∧ 3 ≤ o.N
    ∧ o.x (o.N - 1) < 7 + 1 / 50 ∧ (7 + 1 / 50 : Rat) < o.x (o.N - 1) + (o.x (o.N - 1) - o.x (o.N - 2)) / 100 :=
  ⟨_, rfl, by decide, by decide +kernel, by decide +kernel⟩

/-! ## 5. Exactness on straight lines and (limiter inactive) on parabolas -/

/-- data on a straight line are reproduced exactly — any `N ≥ 3`, any spacing, every interval, every
    abscissa (also in the extrapolation zone); the reported derivatives are `m, 0, 0` -/
theorem steffen_linear_exact {N : Nat} {x y : Nat → Rat} (hN : 3 ≤ N) (hx : StrictInc N x) {m q : Rat}
    (hy : ∀ i, i < N → y i = m * x i + q) {j : Nat} (hj : j + 1 < N) (v : Rat) :
    cubic N x y j v = m * v + q ∧ cubicD1 N x y j v = m ∧ cubicD2 N x y j v = 0 ∧ cubicD3 N x y j = 0 :=
  cubic_linear hN hx hy hj v

example : cubic 4 exX (fun i => 2 * exX i + 1) 1 2 = 2 * 2 + 1 :=
  (steffen_linear_exact (N := 4) (by decide) exX_inc (m := 2) (q := 1) (y := fun i => 2 * exX i + 1)
    (fun _ _ => rfl) (j := 1) (by decide) 2).1

/-- data on a parabola are reproduced exactly on every interval at whose two ends the limiter is
    inactive (`limiterInactive`: the limited slope equals the un-limited estimate; decidable) -/
theorem steffen_parabola_exact {N : Nat} {x y : Nat → Rat} (hN : 3 ≤ N) (hx : StrictInc N x) {α β γ : Rat}
    (hy : ∀ i, i < N → y i = α * x i ^ 2 + β * x i + γ) {j : Nat} (hj : j + 1 < N)
    (hl : limiterInactive N x y j) (hr : limiterInactive N x y (j + 1)) (v : Rat) :
    cubic N x y j v = α * v ^ 2 + β * v + γ ∧ cubicD1 N x y j v = 2 * α * v + β
      ∧ cubicD2 N x y j v = 2 * α ∧ cubicD3 N x y j = 0 :=
  cubic_parabola hN hx hy hj hl hr v

/-- non-vacuity: on `x = 1,2,3,5`, `y = x²` the limiter is inactive at every knot
    (also at both boundary knots) -/
example : ∀ i, i < 4 → limiterInactive 4 (fun i => [1, 2, 3, 5].getD i 0) (fun i => [1, 4, 9, 25].getD i 0) i := by
  decide +kernel

/-- … and it is active e.g. at a local extremum of the data: the estimate is `1/2`, the slope `0` -/
example : dy 4 (fun i => [1, 2, 3, 5].getD i 0) (fun i => [1, 4, 2, 25].getD i 0) 1 = 0
    ∧ pEst 4 (fun i => [1, 2, 3, 5].getD i 0) (fun i => [1, 4, 2, 25].getD i 0) 1 = 1 / 2 := by
  decide +kernel

/-! ## 5b. No preferred scale: covariance under a change of units -/

/-- `Sign` sees the sign only, never the magnitude: multiplying by any positive factor (1e-300 … 1e+300) does not
    change it.  (A `Sign` that loses tiny arguments — e.g. by narrowing to `float` — violates exactly this.) -/
theorem sign_scale_invariant {k : Rat} (hk : 0 < k) (a : Rat) : sign1 (k * a) = sign1 a := by
  rw [sign1_mul, sign1_pos hk]; simp

/-- every table, every interval, every abscissa: rescaling the abscissae by `lam ≠ 0` and the ordinates by any `mu`
    (what the unit factors `x_dim`, `f_dim` do) rescales every limited slope by `mu/lam`, the interpolant by `mu`
    and its first derivative by `mu/lam` — so all clauses of the property hold at every joint scale of the table,
    however small or large the secant slopes are -/
theorem interp_scale_covariant (N : Nat) (x y : Nat → Rat) {lam : Rat} (hl : lam ≠ 0) (mu : Rat) (j : Nat) (v : Rat) :
    dy N (fun i => lam * x i) (fun i => mu * y i) j = mu / lam * dy N x y j
    ∧ cubic N (fun i => lam * x i) (fun i => mu * y i) j (lam * v) = mu * cubic N x y j v
    ∧ cubicD1 N (fun i => lam * x i) (fun i => mu * y i) j (lam * v) = mu / lam * cubicD1 N x y j v :=
  ⟨dy_scale N x y lam mu hl j, (cubic_scale N x y lam mu hl j v).1, (cubic_scale N x y lam mu hl j v).2⟩

/-- non-vacuity: the table `exX, exY` over abscissae of size `2^300` with ordinates of size `2^-60`
    (secant slopes ≈ 1e-108) -/
example : cubic 4 (fun i => (2 : Rat) ^ 300 * exX i) (fun i => (2 : Rat) ^ (-60 : Int) * exY i) 2 ((2 : Rat) ^ 300 * 5)
    = (2 : Rat) ^ (-60 : Int) * cubic 4 exX exY 2 5 :=
  (interp_scale_covariant 4 exX exY (by positivity) _ 2 5).2.1

/-! ## 6. Two-dimensional (bilinear) interpolant -/

/-- grid values are returned at the four nodes of every cell -/
theorem bilinear_at_nodes {x y : Nat → Rat} (F : Nat → Nat → Rat) {i j : Nat}
    (hx : x i ≠ x (i + 1)) (hy : y j ≠ y (j + 1)) :
    cell x y F i j (x i) (y j) = F i j ∧ cell x y F i j (x (i + 1)) (y j) = F (i + 1) j
    ∧ cell x y F i j (x (i + 1)) (y (j + 1)) = F (i + 1) (j + 1) ∧ cell x y F i j (x i) (y (j + 1)) = F i (j + 1) := by
  have hx' : x (i + 1) - x i ≠ 0 := sub_ne_zero.mpr (Ne.symm hx)
  have hy' : y (j + 1) - y j ≠ 0 := sub_ne_zero.mpr (Ne.symm hy)
  unfold cell bilinear
  simp only [sub_self, zero_div, div_self hx', div_self hy']
  refine ⟨by ring, by ring, by ring, by ring⟩

/-- inside a cell the value stays within the minimum and maximum of the four surrounding values -/
theorem bilinear_in_hull {x y : Nat → Rat} (F : Nat → Nat → Rat) {i j : Nat}
    (hx : x i < x (i + 1)) (hy : y j < y (j + 1)) {vx vy : Rat}
    (hx0 : x i ≤ vx) (hx1 : vx ≤ x (i + 1)) (hy0 : y j ≤ vy) (hy1 : vy ≤ y (j + 1)) :
    min4 (F i j) (F (i + 1) j) (F (i + 1) (j + 1)) (F i (j + 1)) ≤ cell x y F i j vx vy
    ∧ cell x y F i j vx vy ≤ max4 (F i j) (F (i + 1) j) (F (i + 1) (j + 1)) (F i (j + 1)) := by
  obtain ⟨t0, t1⟩ := frac_mem hx hx0 hx1
  obtain ⟨u0, u1⟩ := frac_mem hy hy0 hy1
  obtain ⟨a0, a1, a2, a3⟩ := min4_le (F i j) (F (i + 1) j) (F (i + 1) (j + 1)) (F i (j + 1))
  obtain ⟨b0, b1, b2, b3⟩ := le_max4 (F i j) (F (i + 1) j) (F (i + 1) (j + 1)) (F i (j + 1))
  unfold cell
  exact bilinear_hull t0 t1 u0 u1 a0 a1 a2 a3 b0 b1 b2 b3

example : min4 (0 - 2) (1 - 2) (1 - 3) (0 - 3) ≤ cell exX exX (fun i j => (i : Rat) - j) 0 2 (1 / 2) 5 :=
  (bilinear_in_hull (x := exX) (y := exX) (fun i j => (i : Rat) - j) (i := 0) (j := 2) (by decide +kernel)
    (by decide +kernel) (vx := 1 / 2) (vy := 5) (by decide +kernel) (by decide +kernel) (by decide +kernel)
    (by decide +kernel)).1

/-- the value is continuous across the edge shared by two neighbouring cells (both directions) -/
theorem bilinear_edge_continuous {x y : Nat → Rat} (F : Nat → Nat → Rat) {i j : Nat} (vx vy : Rat) :
    (x i ≠ x (i + 1) → x (i + 1) ≠ x (i + 2) →
      cell x y F i j (x (i + 1)) vy = cell x y F (i + 1) j (x (i + 1)) vy)
    ∧ (y j ≠ y (j + 1) → y (j + 1) ≠ y (j + 2) →
      cell x y F i j vx (y (j + 1)) = cell x y F i (j + 1) vx (y (j + 1))) := by
  constructor
  · intro h1 _
    have h1' : x (i + 1) - x i ≠ 0 := sub_ne_zero.mpr (Ne.symm h1)
    unfold cell bilinear
    simp only [sub_self, zero_div, div_self h1']
    ring
  · intro h1 _
    have h1' : y (j + 1) - y j ≠ 0 := sub_ne_zero.mpr (Ne.symm h1)
    unfold cell bilinear
    simp only [sub_self, zero_div, div_self h1']
    ring

/-- a table sampled from `A + B·x + C·y + D·x·y` is reproduced exactly, everywhere (also in the
    extrapolation zone) -/
theorem bilinear_reproduces_bilinear {x y : Nat → Rat} {F : Nat → Nat → Rat} {A B C D : Rat} {i j : Nat}
    (hx : x i ≠ x (i + 1)) (hy : y j ≠ y (j + 1))
    (hF : ∀ a b, (a = i ∨ a = i + 1) → (b = j ∨ b = j + 1) → F a b = A + B * x a + C * y b + D * x a * y b)
    (vx vy : Rat) : cell x y F i j vx vy = A + B * vx + C * vy + D * vx * vy := by
  have hx' : x (i + 1) - x i ≠ 0 := sub_ne_zero.mpr (Ne.symm hx)
  have hy' : y (j + 1) - y j ≠ 0 := sub_ne_zero.mpr (Ne.symm hy)
  unfold cell bilinear
  rw [hF i j (Or.inl rfl) (Or.inl rfl), hF (i + 1) j (Or.inr rfl) (Or.inl rfl),
    hF (i + 1) (j + 1) (Or.inr rfl) (Or.inr rfl), hF i (j + 1) (Or.inl rfl) (Or.inr rfl)]
  field_simp
  ring

/-- what `Interpolation_2D::Interpolate` returns, given the cell the two `Locate` calls chose -/
theorem interpolate2_is_cell {o : Obj2} {vx vy : Rat} {i j : Nat} {ox' oy' : Obj}
    (hx : o.ox.locate vx = .ok (i, ox')) (hy : o.oy.locate vy = .ok (j, oy')) :
    o.interpolate vx vy = .ok (o.pref * cell o.ox.x o.oy.x o.F i j vx vy, { o with ox := ox', oy := oy' }) :=
  interpolate2_eq hx hy

end Lp.C01
