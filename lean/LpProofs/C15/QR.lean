/-
  C15 — helper lemmas for the end-to-end QR statement on the list model (`qr_list_model`):
  entry-wise description of the block embedding, of `P·R` for an embedded reflector `P`, of the
  explicit zeroing and of `Sub_Matrix(0,0)`; determinant of a matrix with a zero pivot column.
-/
import LpProofs.C15.Defs
import LpProofs.C15.Bridge
import Mathlib.Algebra.BigOperators.Group.Finset.Basic
import Mathlib.Algebra.Order.BigOperators.Group.Finset
import Mathlib.LinearAlgebra.Matrix.Block
import Mathlib.Tactic.Ring
import Mathlib.Tactic.Linarith
namespace Lp.C15
open Matrix

/-! ### sums -/

theorem sumTo_eq_range (n : Nat) (t : Nat → Rat) : sumTo n t = ∑ k ∈ Finset.range n, t k := by
  induction n with
  | zero => simp [sumTo]
  | succ k ih => rw [sumTo_succ', ih, Finset.sum_range_succ]

theorem sum_map_range_eq_sumTo (n : Nat) (t : Nat → Rat) : ((List.range n).map t).sum = sumTo n t := by
  induction n with
  | zero => simp [sumTo]
  | succ k ih => rw [sumTo_succ', ← ih]; simp [List.range_succ]

theorem sumTo_congr (n : Nat) (t t' : Nat → Rat) (h : ∀ c, c < n → t c = t' c) : sumTo n t = sumTo n t' := by
  rw [sumTo_eq_range, sumTo_eq_range]
  exact Finset.sum_congr rfl fun c hc => h c (Finset.mem_range.mp hc)

theorem sumTo_zero (n : Nat) (t : Nat → Rat) (h : ∀ c, c < n → t c = 0) : sumTo n t = 0 := by
  rw [sumTo_eq_range]
  exact Finset.sum_eq_zero fun c hc => h c (Finset.mem_range.mp hc)

theorem sumTo_split (i n : Nat) (h : i ≤ n) (t : Nat → Rat) :
    sumTo n t = sumTo i t + sumTo (n - i) (fun c => t (c + i)) := by
  rw [sumTo_eq_range, sumTo_eq_range, sumTo_eq_range]
  have hn : n = i + (n - i) := by omega
  conv_lhs => rw [hn]
  rw [Finset.sum_range_add]
  congr 1
  exact Finset.sum_congr rfl fun c _ => by rw [Nat.add_comm]

theorem sumTo_delta_left (n a : Nat) (ha : a < n) (t : Nat → Rat) :
    sumTo n (fun c => delta a c * t c) = t a := by
  rw [sumTo_eq_range]
  simp only [delta, ite_mul, one_mul, zero_mul]
  rw [Finset.sum_ite_eq]
  simp [ha]

theorem sumTo_sq_eq_zero (n : Nat) (t : Nat → Rat) (h : sumTo n (fun c => t c * t c) = 0) :
    ∀ c, c < n → t c = 0 := by
  rw [sumTo_eq_range] at h
  intro c hc
  have := (Finset.sum_eq_zero_iff_of_nonneg (fun c _ => mul_self_nonneg (t c))).mp h c (Finset.mem_range.mpr hc)
  exact mul_self_eq_zero.mp this

/-! ### entries of the model's matrices -/

theorem get_mul (n : Nat) (A B : Mat) (a b : Nat) (ha : a < n) (hb : b < n) :
    get (mul id n A B) a b = sumTo n fun c => get A a c * get B c b := by
  simp only [mul, id]
  rw [get_tab n _ a b ha hb]

theorem get_embed (n i : Nat) (P : Mat) (a b : Nat) (ha : a < n) (hb : b < n) :
    get (embed n i P) a b = if a < i ∨ b < i then delta a b else get P (a - i) (b - i) := by
  simp only [embed]
  rw [get_tab n _ a b ha hb]

theorem get_zeroBelow (n i : Nat) (R : Mat) (a b : Nat) (ha : a < n) (hb : b < n) :
    get (zeroBelow n i R) a b = if b = i ∧ a > i then 0 else get R a b := by
  simp only [zeroBelow]
  rw [get_tab n _ a b ha hb]

theorem get_sub00 (k : Nat) (A : Mat) (a b : Nat) (ha : a < k - 1) (hb : b < k - 1) :
    get (sub00 k A) a b = get A (a + 1) (b + 1) := by
  simp only [sub00]
  rw [get_tab (k - 1) _ a b ha hb]

/-- two list matrices with the same entries below `n` are the same Mathlib matrix -/
theorem toM_congr (n : Nat) (A B : Mat) (h : ∀ a b, a < n → b < n → get A a b = get B a b) :
    toM n A = toM n B := by
  ext a b
  exact h a b a.2 b.2

/-- entries of a product of Mathlib readings, as a model sum -/
theorem toM_mul_apply (n : Nat) (A B : Mat) (a b : Fin n) :
    (toM n A * toM n B) a b = sumTo n fun c => get A a c * get B c b := by
  rw [Matrix.mul_apply, sumTo_eq_sum]
  rfl

/-- **`P·X` for the embedded block `P = [[1,0],[0,P_sub]]`**: the first `i` rows of `X` are kept, the
    others are `P_sub` times the last `n−i` rows. -/
theorem embed_mul_get (n i : Nat) (hi : i ≤ n) (P X : Mat) (a b : Nat) (ha : a < n) (hb : b < n) :
    get (mul id n (embed n i P) X) a b =
      if a < i then get X a b else sumTo (n - i) fun c => get P (a - i) c * get X (c + i) b := by
  rw [get_mul n _ _ a b ha hb]
  by_cases hai : a < i
  · rw [if_pos hai]
    rw [sumTo_congr n _ (fun c => delta a c * get X c b)]
    · exact sumTo_delta_left n a ha _
    · intro c hc
      rw [get_embed n i P a c ha hc, if_pos (Or.inl hai)]
  · rw [if_neg hai, sumTo_split i n hi]
    rw [sumTo_zero i, zero_add]
    · apply sumTo_congr
      intro c hc
      rw [get_embed n i P a (c + i) ha (by omega), if_neg (by omega), Nat.add_sub_cancel]
    · intro c hc
      rw [get_embed n i P a c ha (by omega), if_pos (Or.inr hc)]
      have : a ≠ c := by omega
      simp [delta, this]

/-- the embedded block of a symmetric orthogonal matrix is symmetric orthogonal (list model) -/
theorem toM_embed_symm_orth (n i : Nat) (hi : i ≤ n) (P : Mat)
    (hPt : (toM (n - i) P)ᵀ = toM (n - i) P) (hPP : toM (n - i) P * toM (n - i) P = 1) :
    (toM n (embed n i P))ᵀ = toM n (embed n i P) ∧ toM n (embed n i P) * toM n (embed n i P) = 1 := by
  constructor
  · ext a b
    simp only [Matrix.transpose_apply, toM]
    rw [get_embed n i P b a b.2 a.2, get_embed n i P a b a.2 b.2]
    by_cases h : (a : Nat) < i ∨ (b : Nat) < i
    · rw [if_pos h, if_pos h.symm]
      simp only [delta, eq_comm]
    · rw [if_neg h, if_neg (fun h' => h h'.symm)]
      have ha : (a : Nat) - i < n - i := by omega
      have hb : (b : Nat) - i < n - i := by omega
      have := congrFun (congrFun hPt ⟨a - i, ha⟩) ⟨b - i, hb⟩
      simpa only [Matrix.transpose_apply, toM] using this
  · rw [← toM_mul]
    ext a b
    simp only [toM]
    rw [embed_mul_get n i hi P _ a b a.2 b.2]
    by_cases hai : (a : Nat) < i
    · rw [if_pos hai, get_embed n i P a b a.2 b.2, if_pos (Or.inl hai)]
      simp [delta, Matrix.one_apply, Fin.ext_iff]
    · rw [if_neg hai]
      by_cases hbi : (b : Nat) < i
      · rw [sumTo_zero]
        · have : (a : Nat) ≠ b := by omega
          simp [Fin.ext_iff, this]
        · intro c hc
          rw [get_embed n i P (c + i) b (by omega) b.2, if_pos (Or.inr hbi)]
          have : c + i ≠ b := by omega
          simp [delta, this]
      · have ha : (a : Nat) - i < n - i := by omega
        have hb : (b : Nat) - i < n - i := by omega
        have h1 := congrFun (congrFun hPP ⟨a - i, ha⟩) ⟨b - i, hb⟩
        rw [toM_mul_apply] at h1
        rw [sumTo_congr (n - i) _ (fun c => get P (a - i) c * get P c (b - i))]
        · rw [h1]
          have : ((a : Nat) - i = b - i) ↔ (a : Nat) = b := by omega
          simp [Matrix.one_apply, Fin.ext_iff, this]
        · intro c hc
          rw [get_embed n i P (c + i) b (by omega) b.2, if_neg (by omega), Nat.add_sub_cancel]

/-! ### one iteration on `R`: entries of `P·R`, the zeroing is a no-op, the trailing block -/

section Step
variable (n i : Nat) (hi : i < n) (P R Rsub : Mat)
  (hupper : ∀ a b, a < n → b < i → b < a → get R a b = 0)
  (hsub : ∀ a b, a < n - i → b < n - i → get Rsub a b = get R (a + i) (b + i))

include hi in
theorem step_rows_above (a b : Nat) (ha : a < n) (hb : b < n) (hai : a < i) :
    get (mul id n (embed n i P) R) a b = get R a b := by
  rw [embed_mul_get n i hi.le P R a b ha hb, if_pos hai]

include hi hupper in
theorem step_left_zero (a b : Nat) (ha : a < n) (hb : b < n) (hai : ¬ a < i) (hbi : b < i) :
    get (mul id n (embed n i P) R) a b = 0 := by
  rw [embed_mul_get n i hi.le P R a b ha hb, if_neg hai]
  apply sumTo_zero
  intro c hc
  rw [hupper (c + i) b (by omega) hbi (by omega), mul_zero]

include hi hsub in
theorem step_block (a b : Nat) (ha : a < n) (hb : b < n) (hai : ¬ a < i) (hbi : ¬ b < i) :
    get (mul id n (embed n i P) R) a b = get (mul id (n - i) P Rsub) (a - i) (b - i) := by
  rw [embed_mul_get n i hi.le P R a b ha hb, if_neg hai, get_mul (n - i) P Rsub _ _ (by omega) (by omega)]
  apply sumTo_congr
  intro c hc
  rw [hsub c (b - i) hc (by omega)]
  have : b - i + i = b := by omega
  rw [this]

variable (hcol : ∀ a, 0 < a → a < n - i → get (mul id (n - i) P Rsub) a 0 = 0)

include hi hsub hcol in
/-- **the explicit zeroing `R[j][i] = 0.0` changes nothing in exact arithmetic** -/
theorem zeroBelow_noop (a b : Nat) (ha : a < n) (hb : b < n) :
    get (zeroBelow n i (mul id n (embed n i P) R)) a b = get (mul id n (embed n i P) R) a b := by
  rw [get_zeroBelow n i _ a b ha hb]
  split
  · rename_i h
    obtain ⟨rfl, hgt⟩ := h
    rw [step_block n b hi P R Rsub hsub a b ha hb (by omega) (by omega), Nat.sub_self]
    exact (hcol (a - b) (by omega) (by omega)).symm
  · rfl

include hi hupper hsub hcol in
theorem step_upper (a b : Nat) (ha : a < n) (hb : b < i + 1) (hba : b < a) :
    get (zeroBelow n i (mul id n (embed n i P) R)) a b = 0 := by
  rw [zeroBelow_noop n i hi P R Rsub hsub hcol a b ha (by omega)]
  by_cases hbi : b < i
  · by_cases hai : a < i
    · rw [step_rows_above n i hi P R a b ha (by omega) hai]
      exact hupper a b ha hbi hba
    · exact step_left_zero n i hi P R hupper a b ha (by omega) hai hbi
  · have : b = i := by omega
    subst this
    rw [step_block n b hi P R Rsub hsub a b ha (by omega) (by omega) (by omega), Nat.sub_self]
    exact hcol (a - b) (by omega) (by omega)

include hi hsub hcol in
theorem step_sub (a b : Nat) (ha : a < n - (i + 1)) (hb : b < n - (i + 1)) :
    get (sub00 (n - i) (mul id (n - i) P Rsub)) a b =
      get (zeroBelow n i (mul id n (embed n i P) R)) (a + (i + 1)) (b + (i + 1)) := by
  rw [zeroBelow_noop n i hi P R Rsub hsub hcol _ _ (by omega) (by omega)]
  rw [step_block n i hi P R Rsub hsub _ _ (by omega) (by omega) (by omega) (by omega)]
  rw [get_sub00 (n - i) _ a b (by omega) (by omega)]
  have h1 : a + (i + 1) - i = a + 1 := by omega
  have h2 : b + (i + 1) - i = b + 1 := by omega
  rw [h1, h2]

end Step

/-! ### a matrix whose first `i` columns are upper triangular and whose column `i` vanishes from row `i`
    on is singular -/

theorem det_eq_zero_of_pivot_col_zero {n : Nat} (R : Matrix (Fin n) (Fin n) ℚ) (i : Fin n)
    (hupper : ∀ a b : Fin n, b < i → b < a → R a b = 0) (hcol : ∀ a : Fin n, ¬ a < i → R a i = 0) :
    R.det = 0 := by
  rw [twoBlockTriangular_det R (fun a => a < i) (fun a ha b hb => hupper a b hb (lt_of_lt_of_le hb (not_lt.mp ha)))]
  have : (toSquareBlockProp R fun a => ¬ a < i).det = 0 :=
    det_eq_zero_of_column_eq_zero ⟨i, lt_irrefl i⟩ (fun a => hcol a.1 a.2)
  rw [this, mul_zero]

end Lp.C15
