/-
  C15 — definitions used by the property theorems: the algebraic skeleton of the QR loop over
  Mathlib matrices, and the reading of the list model as a Mathlib matrix.
-/
import LpModel.C15
import Mathlib.Data.Matrix.Mul
namespace Lp.C15
open Matrix

section Algebra
variable {n : Type} [Fintype n] [DecidableEq n]

/-- the Householder reflector `1 − 2·u·uᵀ` -/
def reflector (u : n → ℚ) : Matrix n n ℚ := 1 - (2 : ℚ) • vecMulVec u u

/-- the algebraic skeleton of the loop of `QR_Decomposition`: `Q ← Q·P`, `R ← P·R`
    (the explicit zeroing of the sub-diagonal entries changes nothing in exact arithmetic) -/
def qrFold (Ps : List (Matrix n n ℚ)) (QR : Matrix n n ℚ × Matrix n n ℚ) : Matrix n n ℚ × Matrix n n ℚ :=
  Ps.foldl (fun QR P => (QR.1 * P, P * QR.2)) QR

/-- a QR step: `A' = R·Q` where `A = Q·R` with `Q` orthogonal -/
def IsQRStep (A A' : Matrix n n ℚ) : Prop := ∃ Q R, Q * R = A ∧ Qᵀ * Q = 1 ∧ A' = R * Q

end Algebra

/-- `k` steps `A ↦ R·Q` of the model -/
def qrIterate (sq rnd : Rat → Rat) (n : Nat) : Nat → Mat → Option Mat
  | 0, A => some A
  | k + 1, A => (qrStep sq rnd n A).bind (qrIterate sq rnd n k)

/-- the list model read as a Mathlib matrix -/
def toM (n : Nat) (A : Mat) : Matrix (Fin n) (Fin n) ℚ := fun i j => get A i j

/-- the vector `w = x − alpha·e₁` of the model's `householder` and its norm -/
def hhWvec (sq : Rat → Rat) (k : Nat) (A : Mat) : Fin k → ℚ := fun i => get A i 0 - hhAlpha sq k A * delta i 0
def hhNw (sq : Rat → Rat) (k : Nat) (A : Mat) : ℚ := sq (sumTo k fun i => hhW sq k A i * hhW sq k A i)

/-- the diagonal matrix diag(2,1): witness of the known finding on Eigensystem/Eigenvectors -/
def witnessM : Mat := [[2, 0], [0, 1]]

/-- `ev` is an eigenvalue of the model matrix `M` (with a non-zero eigenvector of length `n`) -/
def IsEigenvalue (n : Nat) (M : Mat) (ev : Rat) : Prop :=
  ∃ v : List Rat, v.length = n ∧ (∃ x ∈ v, x ≠ 0) ∧ matVec n M v = v.map (ev * ·)

end Lp.C15
