/-
  C15 — definitions used by the property theorems: the algebraic skeleton of the QR loop over
  Mathlib matrices, and the reading of the list model as a Mathlib matrix.
-/
import LpModel.C15
import Mathlib.Data.Matrix.Mul
namespace Lp.C15
open Matrix

section Algebra
variable {n : Type} [Fintype n] [DecidableEq n]

/-- the Householder reflector `1 − 2·u·uᵀ` -/
def reflector (u : n → ℚ) : Matrix n n ℚ := 1 - (2 : ℚ) • vecMulVec u u

/-- the algebraic skeleton of the loop of `QR_Decomposition`: `Q ← Q·P`, `R ← P·R`
    (the explicit zeroing of the sub-diagonal entries changes nothing in exact arithmetic) -/
def qrFold (Ps : List (Matrix n n ℚ)) (QR : Matrix n n ℚ × Matrix n n ℚ) : Matrix n n ℚ × Matrix n n ℚ :=
  Ps.foldl (fun QR P => (QR.1 * P, P * QR.2)) QR

/-- a QR step: `A' = R·Q` where `A = Q·R` with `Q` orthogonal -/
def IsQRStep (A A' : Matrix n n ℚ) : Prop := ∃ Q R, Q * R = A ∧ Qᵀ * Q = 1 ∧ A' = R * Q

end Algebra

/-- `k` steps `A ↦ R·Q` of the model -/
def qrIterate (sq rnd : Rat → Rat) (n : Nat) : Nat → Mat → Option Mat
  | 0, A => some A
  | k + 1, A => (qrStep sq rnd n A).bind (qrIterate sq rnd n k)

/-- the list model read as a Mathlib matrix -/
def toM (n : Nat) (A : Mat) : Matrix (Fin n) (Fin n) ℚ := fun i j => get A i j

/-- the vector `w = x − alpha·e₁` of the model's `householder` and its norm -/
def hhWvec (sq : Rat → Rat) (k : Nat) (A : Mat) : Fin k → ℚ := fun i => get A i 0 - hhAlpha sq k A * delta i 0
def hhNw (sq : Rat → Rat) (k : Nat) (A : Mat) : ℚ := sq (sumTo k fun i => hhW sq k A i * hhW sq k A i)

/-! ### the end-to-end QR statement on the list model (`qr_list_model`) -/

/-- what the theorems assume of the square-root parameter **at one argument**: `sq y` is the
    non-negative root of `y` (a global hypothesis would be unsatisfiable over ℚ) -/
structure SqAt (sq : Rat → Rat) (y : Rat) : Prop where
  sq_mul : sq y * sq y = y
  sq_nonneg : 0 ≤ sq y

/-- `‖x‖²` of the first column `x` of the k×k matrix `A` — the first argument `householder` hands to `sq` -/
def colSq (k : Nat) (A : Mat) : Rat := sumTo k fun i => get A i 0 * get A i 0
/-- `‖x − alpha·e₁‖²` — the second argument `householder` hands to `sq` -/
def wSq (sq : Rat → Rat) (k : Nat) (A : Mat) : Rat := sumTo k fun i => hhW sq k A i * hhW sq k A i

/-- **the square roots taken by the run of `qrLoop` (no rounding) are exact**: follows the loop
    (`i`, iterations left, `R_submatrix`) and asks `SqAt` at exactly the two arguments of `sq` in
    each call of `householder` — nothing about any other argument. -/
def qrSqOK (sq : Rat → Rat) (n : Nat) : Nat → Nat → Mat → Prop
  | _, 0, _ => True
  | i, steps + 1, Rsub =>
    SqAt sq (colSq (n - i) Rsub) ∧ SqAt sq (wSq sq (n - i) Rsub) ∧
      ∀ P, householder sq id (n - i) Rsub = some P →
        qrSqOK sq n (i + 1) steps (sub00 (n - i) (mul id (n - i) P Rsub))

/-- the loop invariant of `QR_Decomposition` before the iteration for column `i`:
    `Q·R = M`, `Q` orthogonal, the first `i` columns of `R` are zero below the diagonal, and
    `R_submatrix` is the trailing (n−i)×(n−i) block of `R`. -/
structure QRInv (n i : Nat) (M Q R Rsub : Mat) : Prop where
  prod : toM n Q * toM n R = toM n M
  orth : (toM n Q)ᵀ * toM n Q = 1
  upper : ∀ a b, a < n → b < i → b < a → get R a b = 0
  sub : ∀ a b, a < n - i → b < n - i → get Rsub a b = get R (a + i) (b + i)

/-- a decidable sufficient condition for `qrSqOK`: run the loop and test the two roots of each step
    (used for the concrete non-vacuity examples) -/
def qrSqCheck (sq : Rat → Rat) (n : Nat) : Nat → Nat → Mat → Bool
  | _, 0, _ => true
  | i, steps + 1, Rsub =>
    decide (sq (colSq (n - i) Rsub) * sq (colSq (n - i) Rsub) = colSq (n - i) Rsub ∧ 0 ≤ sq (colSq (n - i) Rsub)) &&
    decide (sq (wSq sq (n - i) Rsub) * sq (wSq sq (n - i) Rsub) = wSq sq (n - i) Rsub ∧ 0 ≤ sq (wSq sq (n - i) Rsub)) &&
    match householder sq id (n - i) Rsub with
    | none => true
    | some P => qrSqCheck sq n (i + 1) steps (sub00 (n - i) (mul id (n - i) P Rsub))

/-- Pythagorean examples: every square root the run takes is rational
    (`‖(7,24)‖ = 25`, `‖(32,24)‖ = 40`; `‖(23,24,36)‖ = 49`, `‖(72,24,36)‖ = 84`, …) -/
def exM2 : Mat := [[7, 0], [24, 25]]
def exM3 : Mat := [[23, -1055, -96], [24, -25, 17], [36, 624, 50]]

/-- the square roots taken by `k` steps of the model's QR iteration (no rounding) are exact -/
def eigSqOK (sq : Rat → Rat) (n : Nat) : Nat → Mat → Prop
  | 0, _ => True
  | k + 1, A => qrSqOK sq n 0 n A ∧ ∀ A', qrStep sq id n A = some A' → eigSqOK sq n k A'

/-- decidable sufficient condition for `eigSqOK` (for the examples) -/
def eigSqCheck (sq : Rat → Rat) (n : Nat) : Nat → Mat → Bool
  | 0, _ => true
  | k + 1, A => qrSqCheck sq n 0 n A &&
    match qrStep sq id n A with
    | none => true
    | some A' => eigSqCheck sq n k A'

deriving instance DecidableEq for EigOut

/-- the diagonal matrix diag(2,1): witness of the known finding on Eigensystem/Eigenvectors -/
def witnessM : Mat := [[2, 0], [0, 1]]

/-- `ev` is an eigenvalue of the model matrix `M` (with a non-zero eigenvector of length `n`) -/
def IsEigenvalue (n : Nat) (M : Mat) (ev : Rat) : Prop :=
  ∃ v : List Rat, v.length = n ∧ (∃ x ∈ v, x ≠ 0) ∧ matVec n M v = v.map (ev * ·)

end Lp.C15
