/-
  C15 — bridging lemmas: the list model's matrix operations are Mathlib's.
-/
import LpProofs.C15.Defs
import Mathlib.Algebra.BigOperators.Fin
import Mathlib.Tactic.Ring
namespace Lp.C15
open Matrix

theorem get_tab (n : Nat) (f : Nat → Nat → Rat) (i j : Nat) (hi : i < n) (hj : j < n) :
    get (tab n f) i j = f i j := by
  simp [get, tab, List.getD_eq_getElem?_getD, hi, hj]

theorem sumTo_succ' (n : Nat) (t : Nat → Rat) : sumTo (n + 1) t = sumTo n t + t n := by
  simp [sumTo, List.range_succ, List.foldl_append]

theorem sumTo_eq_sum (n : Nat) (t : Nat → Rat) : sumTo n t = ∑ k : Fin n, t k := by
  induction n with
  | zero => simp [sumTo]
  | succ k ih => rw [sumTo_succ', ih, Fin.sum_univ_castSucc]; simp

theorem sumTo_mul (n : Nat) (c : Rat) (t : Nat → Rat) : sumTo n (fun i => c * t i) = c * sumTo n t := by
  induction n with
  | zero => simp [sumTo]
  | succ k ih => rw [sumTo_succ', sumTo_succ', ih]; ring

/-- the model's matrix product (without rounding) is Mathlib's -/
theorem toM_mul (n : Nat) (A B : Mat) : toM n (mul id n A B) = toM n A * toM n B := by
  ext i j
  simp only [toM, mul, Matrix.mul_apply, id]
  rw [get_tab n _ i j i.2 j.2, sumTo_eq_sum]

theorem toM_ident (n : Nat) : toM n (ident n) = 1 := by
  ext i j
  simp only [toM, ident]
  rw [get_tab n _ i j i.2 j.2]
  simp [delta, Matrix.one_apply, Fin.ext_iff]

theorem toM_transpose (n : Nat) (A : Mat) : toM n (transpose n A) = (toM n A)ᵀ := by
  ext i j
  simp only [toM, transpose, Matrix.transpose_apply]
  rw [get_tab n _ i j i.2 j.2]

end Lp.C15
