/-
  Knuth's Poisson sampler WITH the `exp(STEP)` rescaling: loop invariant for every mean.

  `remF exp ll` = the factor still to be multiplied into `p` when `lambda_left = ll`
  (`exp ll` for `ll > 0`, `1` once `lambda_left` is exhausted).  Invariant of the C++ loop:
      p * remF lambda_left = (product of the uniforms drawn so far) * remF lambda.
  What is needed of `exp` (on `(0, λ]` only):
      `Peel exp step lam` : `exp x = exp step * exp (x - step)` for `step < x ≤ λ`
                            (the one splitting the code performs; implied by `exp (a+b) = exp a * exp b`),
      `Ge1 exp lam`       : `1 ≤ exp x` for `0 < x ≤ λ`.
-/
import LpProofs.C18.Poisson
namespace Lp.C18

variable {G : Type}

/-- the factor still owed to `p` when `lambda_left = ll` -/
def remF (exp : Rat → Rat) (ll : Rat) : Rat := if 0 < ll then exp ll else 1

def Peel (exp : Rat → Rat) (step lam : Rat) : Prop := ∀ x, step < x → x ≤ lam → exp x = exp step * exp (x - step)
def Ge1 (exp : Rat → Rat) (lam : Rat) : Prop := ∀ x, 0 < x → x ≤ lam → 1 ≤ exp x

theorem remF_pos_arg {exp : Rat → Rat} {ll : Rat} (h : 0 < ll) : remF exp ll = exp ll := by simp [remF, h]
theorem remF_zero (exp : Rat → Rat) : remF exp 0 = 1 := by simp [remF]

theorem remF_ge1 {exp : Rat → Rat} {lam ll : Rat} (hge : Ge1 exp lam) (h2 : ll ≤ lam) : 1 ≤ remF exp ll := by
  unfold remF
  split_ifs with h
  · exact hge ll h h2
  · exact le_refl 1

/-- the inner `while(p < 1.0 && lambda_left > 0.0)` with enough fuel (`ll ≤ rf·STEP`): it preserves
    `p * remF ll`, and stops either with `lambda_left = 0` or with `p ≥ 1`, `lambda_left = ll - i·STEP > 0`
    after `i` multiplications by `exp STEP`. -/
theorem poisRescale_spec (exp : Rat → Rat) (step lam : Rat) (hstep : 0 < step) (hpeel : Peel exp step lam) :
    ∀ (rf : Nat) (p ll : Rat), 0 ≤ ll → ll ≤ lam → ll ≤ rf * step →
      0 ≤ (poisRescale exp (fun x => x) step rf p ll).2 ∧ (poisRescale exp (fun x => x) step rf p ll).2 ≤ ll ∧
      (poisRescale exp (fun x => x) step rf p ll).1 * remF exp (poisRescale exp (fun x => x) step rf p ll).2 = p * remF exp ll ∧
      ((poisRescale exp (fun x => x) step rf p ll).2 = 0 ∨
        ∃ i : Nat, 0 < (poisRescale exp (fun x => x) step rf p ll).2 ∧ 1 ≤ (poisRescale exp (fun x => x) step rf p ll).1 ∧
          (poisRescale exp (fun x => x) step rf p ll).2 = ll - i * step ∧
          (poisRescale exp (fun x => x) step rf p ll).1 = p * exp step ^ i) := by
  intro rf
  induction rf with
  | zero =>
    intro p ll h0 _ hf
    have : ll = 0 := by
      have : ll ≤ 0 := by simpa using hf
      linarith
    subst this
    simp [poisRescale]
  | succ f ih =>
    intro p ll h0 hl hf
    simp only [poisRescale]
    by_cases hc : p < 1 ∧ ll > 0
    · rw [if_pos hc]
      obtain ⟨hp, hll⟩ := hc
      by_cases hs : ll > step
      · rw [if_pos hs]
        have hf' : ll - step ≤ (f : Rat) * step := by
          have : ((f + 1 : Nat) : Rat) * step = (f : Rat) * step + step := by push_cast; ring
          linarith
        obtain ⟨a, b, c, d⟩ := ih (p * exp step) (ll - step) (by linarith) (by linarith) hf'
        refine ⟨a, by linarith, ?_, ?_⟩
        · rw [c, remF_pos_arg (by linarith : 0 < ll - step), remF_pos_arg hll, hpeel ll hs hl]; ring
        · rcases d with d | ⟨i, d1, d2, d3, d4⟩
          · exact Or.inl d
          · refine Or.inr ⟨i + 1, d1, d2, ?_, ?_⟩
            · rw [d3]; push_cast; ring
            · rw [d4]; ring
      · rw [if_neg hs, poisRescale_zero]
        refine ⟨le_refl 0, h0, ?_, Or.inl rfl⟩
        rw [remF_zero, remF_pos_arg hll]; ring
    · rw [if_neg hc]
      refine ⟨h0, le_refl _, rfl, ?_⟩
      by_cases hll : 0 < ll
      · have hp : 1 ≤ p := by
          by_contra hh
          exact hc ⟨not_le.mp hh, hll⟩
        exact Or.inr ⟨0, hll, hp, by simp, by simp⟩
      · exact Or.inl (by linarith)

/-- the outer `do … while(p > 1)` from any state `(p, lambda_left = ll)`: if it returns, it returns after
    `n+1` further uniforms with `n` least such that `p·remF ll·u₁…u_{n+1} ≤ 1`.
    `htie`: the exit test `p > 1` is never met with `p = 1` while `lambda_left > 0`. -/
theorem poisLoop_inv (u01 : U01 G) (exp : Rat → Rat) (step lam : Rat) (rf : Nat) (hstep : 0 < step)
    (hpeel : Peel exp step lam) (hge : Ge1 exp lam) :
    ∀ (fuel k : Nat) (p ll : Rat) (g : G) (K : Nat) (gout : G), 0 ≤ ll → ll ≤ lam → ll ≤ rf * step →
      (∀ j m : Nat, 1 ≤ j → (m : Rat) * step < ll → p * prodU u01 g j * exp step ^ m ≠ 1) →
      poisLoop u01 exp (fun x => x) step rf fuel k p ll g = some (K, gout) →
      ∃ n, K = k + n ∧ gout = adv u01 (n + 1) g ∧ p * remF exp ll * prodU u01 g (n + 1) ≤ 1 ∧
        ∀ j, 1 ≤ j → j ≤ n → 1 < p * remF exp ll * prodU u01 g j := by
  intro fuel
  induction fuel with
  | zero => intro k p ll g K gout _ _ _ _ h; simp [poisLoop] at h
  | succ fuel ih =>
    intro k p ll g K gout h0 hl hf htie h
    simp only [poisLoop] at h
    obtain ⟨r0, rle, rinv, rcase⟩ := poisRescale_spec exp step lam hstep hpeel rf (p * (u01 g).1) ll h0 hl hf
    generalize poisRescale exp (fun x => x) step rf (p * (u01 g).1) ll = r at h r0 rle rinv rcase
    have hp1 : prodU u01 g 1 = (u01 g).1 := by simp [prodU, uAt, adv]
    split_ifs at h with h1
    · -- p > 1: next iteration
      have htie' : ∀ j m : Nat, 1 ≤ j → (m : Rat) * step < r.2 →
          r.1 * prodU u01 (u01 g).2 j * exp step ^ m ≠ 1 := by
        intro j m hj hm
        rcases rcase with z | ⟨i, _, _, e2, e1⟩
        · exfalso
          have : (0 : Rat) ≤ (m : Rat) * step := mul_nonneg (Nat.cast_nonneg m) (le_of_lt hstep)
          linarith
        · have := htie (j + 1) (i + m) (by omega) (by push_cast; linarith)
          rw [prodU_front] at this
          intro hh; apply this
          rw [← hh, e1, pow_add]; ring
      obtain ⟨n, hK, hg, hle, hgt⟩ := ih (k + 1) r.1 r.2 (u01 g).2 K gout r0 (by linarith) (by linarith) htie' h
      refine ⟨n + 1, by omega, ?_, ?_, ?_⟩
      · rw [hg]; rfl
      · rw [prodU_front]
        have e : p * remF exp ll * ((u01 g).1 * prodU u01 (u01 g).2 (n + 1)) =
            (p * (u01 g).1 * remF exp ll) * prodU u01 (u01 g).2 (n + 1) := by ring
        rw [e, ← rinv]; exact hle
      · intro j hj1 hj2
        cases j with
        | zero => omega
        | succ j =>
          rw [prodU_front]
          have e : p * remF exp ll * ((u01 g).1 * prodU u01 (u01 g).2 j) =
              (p * (u01 g).1 * remF exp ll) * prodU u01 (u01 g).2 j := by ring
          rw [e, ← rinv]
          cases j with
          | zero =>
            simp only [prodU, mul_one]
            have hE : 1 ≤ remF exp r.2 := remF_ge1 hge (by linarith)
            nlinarith
          | succ j => exact hgt (j + 1) (by omega) (by omega)
    · -- exit
      simp only [Option.some.injEq, Prod.mk.injEq] at h
      obtain ⟨hK, hg⟩ := h
      refine ⟨0, by omega, ?_, ?_, ?_⟩
      · rw [← hg]; rfl
      · rw [hp1]
        have e : p * remF exp ll * (u01 g).1 = p * (u01 g).1 * remF exp ll := by ring
        rw [e, ← rinv]
        rcases rcase with z | ⟨i, i1, i2, i3, i4⟩
        · rw [z, remF_zero, mul_one]; exact not_lt.mp h1
        · exfalso
          have h11 : r.1 = 1 := le_antisymm (not_lt.mp h1) i2
          have := htie 1 i (le_refl 1) (by linarith)
          apply this
          rw [hp1, ← i4, h11]
      · intro j hj1 hj2; omega

/-- termination: if some `n < fuel` has `p·remF ll·u₁…u_{n+1} ≤ 1`, the loop returns -/
theorem poisLoop_total (u01 : U01 G) (exp : Rat → Rat) (step lam : Rat) (rf : Nat) (hstep : 0 < step)
    (hpeel : Peel exp step lam) (hge : Ge1 exp lam) :
    ∀ (fuel k : Nat) (p ll : Rat) (g : G), 0 ≤ ll → ll ≤ lam → ll ≤ rf * step →
      (∃ n, n < fuel ∧ p * remF exp ll * prodU u01 g (n + 1) ≤ 1) →
      ∃ K gout, poisLoop u01 exp (fun x => x) step rf fuel k p ll g = some (K, gout) := by
  intro fuel
  induction fuel with
  | zero => intro k p ll g _ _ _ ⟨n, hn, _⟩; omega
  | succ fuel ih =>
    intro k p ll g h0 hl hf ⟨n, hn, hle⟩
    simp only [poisLoop]
    obtain ⟨r0, rle, rinv, _⟩ := poisRescale_spec exp step lam hstep hpeel rf (p * (u01 g).1) ll h0 hl hf
    generalize poisRescale exp (fun x => x) step rf (p * (u01 g).1) ll = r at r0 rle rinv
    split_ifs with h1
    · have hE : 1 ≤ remF exp r.2 := remF_ge1 hge (by linarith)
      rw [prodU_front] at hle
      have e : p * remF exp ll * ((u01 g).1 * prodU u01 (u01 g).2 n) =
          (p * (u01 g).1 * remF exp ll) * prodU u01 (u01 g).2 n := by ring
      rw [e, ← rinv] at hle
      cases n with
      | zero =>
        exfalso
        simp only [prodU, mul_one] at hle
        nlinarith
      | succ n => exact ih (k + 1) r.1 r.2 (u01 g).2 r0 (by linarith) (by linarith) ⟨n, by omega, hle⟩
    · exact ⟨k, (u01 g).2, rfl⟩

/-- full multiplicativity gives the one splitting the code performs -/
theorem peel_of_mul (exp : Rat → Rat) (step lam : Rat) (hmul : ∀ a b, exp (a + b) = exp a * exp b) : Peel exp step lam := by
  intro x _ _
  rw [← hmul]; congr 1; ring

theorem exp_nat_mul (exp : Rat → Rat) (step : Rat) (hmul : ∀ a b, exp (a + b) = exp a * exp b) (hpos : ∀ a, 0 < exp a) :
    ∀ m : Nat, exp ((m : Rat) * step) = exp step ^ m := by
  have h0 : exp 0 = 1 := by
    have h := hmul 0 0
    rw [add_zero] at h
    have hp := hpos 0
    have : exp 0 * (exp 0 - 1) = 0 := by linarith [h]
    rcases mul_eq_zero.mp this with h' | h'
    · linarith
    · linarith
  intro m
  induction m with
  | zero => simp [h0]
  | succ m ih =>
    have : ((m + 1 : Nat) : Rat) * step = (m : Rat) * step + step := by push_cast; ring
    rw [this, hmul, ih, pow_succ]

/-- uniforms in `[0, c]`, `c ≤ 1`: every non-empty product is in `[0, c]` -/
theorem prodU_bounds (u01 : U01 G) (c : Rat) (hc : c ≤ 1) (hu : ∀ g, 0 ≤ (u01 g).1 ∧ (u01 g).1 ≤ c) :
    ∀ (k : Nat) (g : G), 0 ≤ prodU u01 g (k + 1) ∧ prodU u01 g (k + 1) ≤ c := by
  intro k
  induction k with
  | zero => intro g; simpa [prodU, uAt, adv] using hu g
  | succ k ih =>
    intro g
    rw [prodU_front]
    obtain ⟨a, b⟩ := hu g
    obtain ⟨a', b'⟩ := ih (u01 g).2
    have hc0 : 0 ≤ c := le_trans a b
    refine ⟨mul_nonneg a a', ?_⟩
    calc (u01 g).1 * prodU u01 (u01 g).2 (k + 1) ≤ c * 1 :=
          mul_le_mul b (le_trans b' hc) a' hc0
      _ = c := mul_one c

/-- uniforms in `[0,1)`: every non-empty product is `< 1` -/
theorem prodU_lt_one (u01 : U01 G) (hu : ∀ g, 0 ≤ (u01 g).1 ∧ (u01 g).1 < 1) :
    ∀ (k : Nat) (g : G), 0 ≤ prodU u01 g (k + 1) ∧ prodU u01 g (k + 1) < 1 := by
  intro k
  induction k with
  | zero => intro g; simpa [prodU, uAt, adv] using hu g
  | succ k ih =>
    intro g
    rw [prodU_front]
    obtain ⟨a, b⟩ := hu g
    obtain ⟨a', b'⟩ := ih (u01 g).2
    refine ⟨mul_nonneg a a', ?_⟩
    nlinarith



/-- the number of uniforms consumed is the result plus one — for every `exp`, `rnd`, mean and stream -/
theorem poisLoop_draws (u01 : U01 G) (exp rnd : Rat → Rat) (step : Rat) (rf : Nat) :
    ∀ (fuel k : Nat) (p ll : Rat) (g : G) (K : Nat) (gout : G),
      poisLoop u01 exp rnd step rf fuel k p ll g = some (K, gout) → k ≤ K ∧ gout = adv u01 (K - k + 1) g := by
  intro fuel
  induction fuel with
  | zero => intro k p ll g K gout h; simp [poisLoop] at h
  | succ fuel ih =>
    intro k p ll g K gout h
    simp only [poisLoop] at h
    split_ifs at h with h1
    · obtain ⟨a, b⟩ := ih _ _ _ _ _ _ h
      refine ⟨by omega, ?_⟩
      rw [b]
      have : K - k + 1 = (K - (k + 1) + 1) + 1 := by omega
      rw [this]; rfl
    · simp only [Option.some.injEq, Prod.mk.injEq] at h
      obtain ⟨hK, hg⟩ := h
      subst hK
      refine ⟨le_refl _, ?_⟩
      rw [← hg, Nat.sub_self]; rfl

/-! ### a non-trivial rational instance of the hypotheses: `2^⌈x⌉` on `(0, 5/2]`, `STEP = 1`
    (a rational-valued `exp` that is multiplicative on ALL rationals is constant 1, since `exp a` would be
    an n-th power for every n; the theorems therefore ask multiplicativity only where the code splits) -/

def expS (x : Rat) : Rat := if x ≤ 1 then 2 else if x ≤ 2 then 4 else 8

theorem expS_peel : Peel expS 1 (5 / 2) := by
  intro x h1 h2
  unfold expS
  split_ifs <;> linarith

theorem expS_ge1 : Ge1 expS (5 / 2) := by
  intro x _ _
  unfold expS
  split_ifs <;> norm_num

/-- constant source `u = c` on `G = Nat` -/
def constU (c : Rat) : U01 Nat := fun n => (c, n + 1)

theorem nat_le_two_of (m : Nat) (h : (m : Rat) * 1 < 5 / 2) : m ≤ 2 := by
  by_contra hh
  have : (3 : Rat) ≤ (m : Rat) := by exact_mod_cast (by omega : 3 ≤ m)
  linarith

theorem constU_fifth_notie : ∀ k m : Nat, 1 ≤ k → (m : Rat) * 1 < 5 / 2 → prodU (constU (1 / 5)) 0 k * expS 1 ^ m ≠ 1 := by
  intro k m hk hm
  obtain ⟨j, rfl⟩ : ∃ j, k = j + 1 := ⟨k - 1, by omega⟩
  obtain ⟨a, b⟩ := prodU_bounds (constU (1 / 5)) (1 / 5) (by norm_num) (fun g => by simp [constU]) j 0
  have hm2 := nat_le_two_of m hm
  have e : expS 1 = 2 := by norm_num [expS]
  rw [e]
  have h3 : m = 0 ∨ m = 1 ∨ m = 2 := by omega
  rcases h3 with rfl | rfl | rfl <;> intro h <;> norm_num at h <;> linarith

end Lp.C18
