/-
  Knuth's Poisson sampler without rescaling (`0 < λ ≤ STEP`, i.e. expectation values up to 500).
-/
import LpProofs.C18.Lemmas
namespace Lp.C18

variable {G : Type}

theorem uAt_succ (u01 : U01 G) (g : G) (m : Nat) : uAt u01 g (m + 1) = uAt u01 (u01 g).2 m := rfl

theorem prodU_front (u01 : U01 G) (g : G) : ∀ m, prodU u01 g (m + 1) = (u01 g).1 * prodU u01 (u01 g).2 m := by
  intro m
  induction m with
  | zero => simp [prodU, uAt, adv]
  | succ m ih =>
    have e : prodU u01 g (m + 1 + 1) = prodU u01 g (m + 1) * uAt u01 g (m + 1) := rfl
    rw [e, ih, uAt_succ]
    have e2 : prodU u01 (u01 g).2 (m + 1) = prodU u01 (u01 g).2 m * uAt u01 (u01 g).2 m := rfl
    rw [e2]; ring

theorem poisRescale_zero (exp : Rat → Rat) (step : Rat) (rf : Nat) (p : Rat) :
    poisRescale exp (fun x => x) step rf p 0 = (p, 0) := by
  cases rf with
  | zero => rfl
  | succ f => simp [poisRescale]

/-- the phase after the (single) rescaling: `lambda_left = 0`, the product is only multiplied by uniforms -/
theorem poisLoop_zero_phase (u01 : U01 G) (exp : Rat → Rat) (step : Rat) (rf : Nat) :
    ∀ fuel k p g K gout, poisLoop u01 exp (fun x => x) step rf fuel k p 0 g = some (K, gout) →
      ∃ n, K = k + n ∧ gout = adv u01 (n + 1) g ∧ p * prodU u01 g (n + 1) ≤ 1 ∧
        ∀ j, 1 ≤ j → j ≤ n → 1 < p * prodU u01 g j := by
  intro fuel
  induction fuel with
  | zero => intro k p g K gout h; simp [poisLoop] at h
  | succ fuel ih =>
    intro k p g K gout h
    simp only [poisLoop, poisRescale_zero] at h
    split_ifs at h with h1
    · obtain ⟨n, hK, hg, hle, hgt⟩ := ih _ _ _ _ _ h
      refine ⟨n + 1, by omega, ?_, ?_, ?_⟩
      · rw [hg]; rfl
      · rw [prodU_front]; rw [← mul_assoc]; exact hle
      · intro j hj1 hj2
        cases j with
        | zero => omega
        | succ j =>
          rw [prodU_front, ← mul_assoc]
          cases j with
          | zero => simpa [prodU] using h1
          | succ j => exact hgt (j + 1) (by omega) (by omega)
    · simp only [Option.some.injEq, Prod.mk.injEq] at h
      obtain ⟨hK, hg⟩ := h
      refine ⟨0, by omega, ?_, ?_, ?_⟩
      · rw [← hg]; rfl
      · rw [prodU_front]; simp only [prodU, mul_one]; exact not_lt.mp h1
      · intro j hj1 hj2; omega

end Lp.C18
