/-
  Helper lemmas for C18: counting multiples in a window, the bookkeeping loop, generator
  advance, the rejection loop.
-/
import LpModel.C18
import Mathlib.Algebra.Order.Field.Rat
import Mathlib.Tactic.Ring
import Mathlib.Tactic.Linarith
import Mathlib.Tactic.SplitIfs
import Mathlib.Tactic.FieldSimp
import Mathlib.Tactic.NormNum
import Mathlib.Algebra.Order.Field.Basic
namespace Lp.C18

/-! ### number of loop indices `j ∈ [i, i+n)` with `j ≥ burn ∧ j % thin = 0` -/

def cnt (burn thin : Nat) : Nat → Nat → Nat
  | 0, _ => 0
  | n + 1, i => (if i ≥ burn ∧ i % thin = 0 then 1 else 0) + cnt burn thin n (i + 1)

theorem cnt_add (burn thin : Nat) (a b : Nat) : ∀ i, cnt burn thin (a + b) i = cnt burn thin a i + cnt burn thin b (i + a) := by
  induction a with
  | zero => intro i; simp [cnt]
  | succ a ih =>
    intro i
    have : a + 1 + b = (a + b) + 1 := by omega
    rw [this]
    simp only [cnt]
    rw [ih (i + 1)]
    have e : i + 1 + a = i + (a + 1) := by omega
    rw [e]; omega

theorem cnt_below (burn thin : Nat) : ∀ n i, i + n ≤ burn → cnt burn thin n i = 0 := by
  intro n
  induction n with
  | zero => intro i _; rfl
  | succ n ih =>
    intro i h
    simp only [cnt]
    have h1 : ¬ (i ≥ burn ∧ i % thin = 0) := by omega
    rw [if_neg h1, ih (i + 1) (by omega)]

/-- `⌈(i+1)/t⌉ = ⌈i/t⌉ + [t ∣ i]` -/
theorem ceil_succ (t i : Nat) (ht : 1 ≤ t) :
    (i + 1 + t - 1) / t = (i + t - 1) / t + (if i % t = 0 then 1 else 0) := by
  have e : i + 1 + t - 1 = (i + t - 1) + 1 := by omega
  rw [e, Nat.succ_div]
  have e2 : i + t - 1 + 1 = i + t := by omega
  rw [e2]
  have : (t ∣ i + t) ↔ i % t = 0 := by
    rw [Nat.dvd_add_self_right, Nat.dvd_iff_mod_eq_zero]
  by_cases h : i % t = 0
  · rw [if_pos h, if_pos (this.mpr h)]
  · rw [if_neg h, if_neg (fun hh => h (this.mp hh))]

/-- above the burn-in the count is `⌈(i+n)/t⌉ − ⌈i/t⌉` (written without subtraction) -/
theorem cnt_ceil (burn thin : Nat) (ht : 1 ≤ thin) :
    ∀ n i, burn ≤ i → cnt burn thin n i + (i + thin - 1) / thin = (i + n + thin - 1) / thin := by
  intro n
  induction n with
  | zero => intro i _; simp [cnt]
  | succ n ih =>
    intro i hi
    simp only [cnt]
    have h := ih (i + 1) (by omega)
    have c := ceil_succ thin i ht
    have e : i + 1 + n + thin - 1 = i + (n + 1) + thin - 1 := by omega
    rw [e] at h
    by_cases hm : i % thin = 0
    · rw [if_pos ⟨hi, hm⟩]; rw [if_pos hm] at c; omega
    · rw [if_neg (fun hh => hm hh.2)]; rw [if_neg hm] at c; omega

/-- **the arithmetic lemma**: every window `[b, b + t·s)` above the burn-in contains exactly `s`
    multiples of `t` (the C++ tests `i % thinning == 0` with `i` counted from 0, not from `burn_in`) -/
theorem cnt_window (burn thin s b : Nat) (ht : 1 ≤ thin) (hb : burn ≤ b) : cnt burn thin (thin * s) b = s := by
  have h := cnt_ceil burn thin ht (thin * s) b hb
  have e : b + thin * s + thin - 1 = (b + thin - 1) + thin * s := by omega
  rw [e, Nat.add_mul_div_left _ _ (by omega : 0 < thin)] at h
  omega

theorem cnt_total (burn thin s : Nat) (ht : 1 ≤ thin) : cnt burn thin (burn + thin * s) 0 = s := by
  rw [cnt_add, cnt_below burn thin burn 0 (by omega), Nat.zero_add, Nat.zero_add]
  exact cnt_window burn thin s burn ht (Nat.le_refl _)

/-! ### the bookkeeping loop -/

variable {G X : Type}

theorem metroLoop_length (step : X → G → X × G) (burn thin : Nat) :
    ∀ n i x g acc, (metroLoop step burn thin n i x g acc).1.length = acc.length + cnt burn thin n i := by
  intro n
  induction n with
  | zero => intro i x g acc; simp [metroLoop, cnt]
  | succ n ih =>
    intro i x g acc
    simp only [metroLoop, cnt]
    rw [ih]
    by_cases h : i ≥ burn ∧ i % thin = 0
    · rw [if_pos h, if_pos h]; simp; omega
    · rw [if_neg h, if_neg h]; omega

/-- if every step advances the generator by `k` uniforms, the loop advances it by `k·n` -/
theorem adv_add (u01 : U01 G) (a b : Nat) : ∀ g, adv u01 (a + b) g = adv u01 b (adv u01 a g) := by
  induction a with
  | zero => intro g; simp [adv]
  | succ a ih =>
    intro g
    have : a + 1 + b = (a + b) + 1 := by omega
    rw [this]; simp only [adv]; exact ih _

theorem metroLoop_state (u01 : U01 G) (step : X → G → X × G) (k : Nat)
    (hstep : ∀ x g, (step x g).2 = adv u01 k g) (burn thin : Nat) :
    ∀ n i x g acc, (metroLoop step burn thin n i x g acc).2 = adv u01 (k * n) g := by
  intro n
  induction n with
  | zero => intro i x g acc; simp [metroLoop, adv]
  | succ n ih =>
    intro i x g acc
    simp only [metroLoop]
    rw [ih, hstep]
    have : k * (n + 1) = k + k * n := by ring
    rw [this, adv_add]

/-- invariant preservation: if `P` holds of the start and is preserved by every step, it holds of
    every pushed sample -/
theorem metroLoop_all (step : X → G → X × G) (P : X → Prop) (hstep : ∀ x g, P x → P (step x g).1) (burn thin : Nat) :
    ∀ n i x g acc, P x → (∀ y ∈ acc, P y) → ∀ y ∈ (metroLoop step burn thin n i x g acc).1, P y := by
  intro n
  induction n with
  | zero => intro i x g acc _ hacc y hy; simp [metroLoop] at hy; exact hacc y hy
  | succ n ih =>
    intro i x g acc hx hacc
    simp only [metroLoop]
    apply ih
    · exact hstep x g hx
    · intro y hy
      split_ifs at hy
      · rcases List.mem_cons.mp hy with h | h
        · rw [h]; exact hstep x g hx
        · exact hacc y h
      · exact hacc y hy

end Lp.C18
