/-
  C14 — Vegas `Rebin` as coded (`LpModel/C14.lean`: `rebinWhile`, `rebinLoop`, `rebin`): helper lemmas for
  `rebin_preserves_grid`.  Bookkeeping: with `S k = r[0] + … + r[k-1]`, at the head of the `i`-th pass
  `dr = S k − i·rc`, and the emitted `xin[i]` is the point of old bin `k` at which the cumulated weight is
  `(i+1)·rc`.
-/
import LpProofs.C14.Inside
namespace Lp.C14

/-- `r[0] + … + r[k-1]` -/
def psum (r : Nat → Rat) : Nat → Rat
  | 0 => 0
  | k + 1 => psum r k + r k

/-- the grid invariant of one axis: `n ≥ 1` bins with right edges `0 < xi 0 < xi 1 < … < xi (n-1) = 1` -/
def GridOK (n : Nat) (xi : Nat → Rat) : Prop :=
  1 ≤ n ∧ 0 < xi 0 ∧ (∀ i, i + 1 < n → xi i < xi (i + 1)) ∧ xi (n - 1) = 1

/-- left edge of (1-based) bin `k`: `xi[k-2]`, and `0` for the first bin (the local `xo` of `Rebin`) -/
def xprev (xi : Nat → Rat) (k : Nat) : Rat := if k > 1 then xi (k - 2) else 0

/-- the point of bin `k` that leaves the weight `dr` of that bin to its right (`0` before the first bin) -/
def rpos (xi r : Nat → Rat) (k : Nat) (dr : Rat) : Rat :=
  if k = 0 then 0 else xi (k - 1) - (xi (k - 1) - xprev xi k) * dr / r (k - 1)

/-- `a < x₁ < x₂ < … < xₙ < b` -/
def ChainLt (b : Rat) : Rat → List Rat → Prop
  | a, [] => a < b
  | a, x :: xs => a < x ∧ ChainLt b x xs

theorem grid_strict {n : Nat} {xi : Nat → Rat} (hg : GridOK n xi) : ∀ d i, i + d + 1 < n → xi i < xi (i + d + 1) := by
  intro d
  induction d with
  | zero => intro i h; exact hg.2.2.1 i h
  | succ d ih =>
    intro i h
    exact lt_trans (ih i (by omega)) (by have := hg.2.2.1 (i + d + 1) (by omega); rwa [show i + (d + 1) + 1 = i + d + 1 + 1 by omega])

theorem grid_lt {n : Nat} {xi : Nat → Rat} (hg : GridOK n xi) (i j : Nat) (hij : i < j) (hj : j < n) : xi i < xi j := by
  have := grid_strict hg (j - i - 1) i (by omega)
  rwa [show i + (j - i - 1) + 1 = j by omega] at this

theorem grid_le {n : Nat} {xi : Nat → Rat} (hg : GridOK n xi) (i j : Nat) (hij : i ≤ j) (hj : j < n) : xi i ≤ xi j := by
  rcases Nat.lt_or_ge i j with h | h
  · exact le_of_lt (grid_lt hg i j h hj)
  · have : i = j := by omega
    subst this; exact le_refl _

theorem grid_pos {n : Nat} {xi : Nat → Rat} (hg : GridOK n xi) (i : Nat) (hi : i < n) : 0 < xi i :=
  lt_of_lt_of_le hg.2.1 (grid_le hg 0 i (by omega) hi)

/-- every bin has a positive width -/
theorem xprev_lt {n : Nat} {xi : Nat → Rat} (hg : GridOK n xi) (k : Nat) (h1 : 1 ≤ k) (hk : k ≤ n) : xprev xi k < xi (k - 1) := by
  unfold xprev
  split_ifs with h
  · exact grid_lt hg _ _ (by omega) (by omega)
  · have : k = 1 := by omega
    subst this; exact hg.2.1

theorem xprev_nonneg {n : Nat} {xi : Nat → Rat} (hg : GridOK n xi) (k : Nat) (hk : k ≤ n) : 0 ≤ xprev xi k := by
  unfold xprev
  split_ifs with h
  · exact le_of_lt (grid_pos hg _ (by omega))
  · exact le_refl _

theorem chain_lt (b : Rat) : ∀ l a, ChainLt b a l → a < b := by
  intro l
  induction l with
  | nil => intro a h; exact h
  | cons x xs ih => intro a h; exact lt_trans h.1 (ih x h.2)

theorem chain_get (b : Rat) : ∀ l a, ChainLt b a l → ∀ i, i < l.length →
    a < l.getD i 0 ∧ l.getD i 0 < b ∧ (i + 1 < l.length → l.getD i 0 < l.getD (i + 1) 0) := by
  intro l
  induction l with
  | nil => intro a _ i hi; simp at hi
  | cons x xs ih =>
    intro a h i hi
    cases i with
    | zero =>
      refine ⟨by simpa using h.1, by simpa using chain_lt b xs x h.2, ?_⟩
      intro h1
      have := (ih x h.2 0 (by simpa using h1)).1
      simpa using this
    | succ j =>
      have hj : j < xs.length := by simpa using hi
      obtain ⟨a1, a2, a3⟩ := ih x h.2 j hj
      refine ⟨by simpa using lt_trans h.1 a1, by simpa using a2, ?_⟩
      intro h1
      have := a3 (by simpa using h1)
      simpa using this

/-! ## the `while` loop -/

theorem rebinWhile_spec (rc : Rat) (r : Nat → Rat) (len no : Nat) (hno : no ≤ len) :
    ∀ fuel k dr, k ≤ no → no - k < fuel → rc ≤ dr + (psum r no - psum r k) →
      ∃ k' dr', (∀ r' : Nat → Rat, (∀ i, i < no → r' i = r i) → rebinWhile rc r' len fuel k dr = some (k', dr')) ∧ k ≤ k' ∧ k' ≤ no ∧ dr' = dr + (psum r k' - psum r k) ∧ rc ≤ dr' ∧
        ((k' = k ∧ dr' = dr) ∨ (k < k' ∧ dr < rc ∧ dr' - r (k' - 1) < rc)) := by
  intro fuel
  induction fuel with
  | zero => intro k dr _ h _; omega
  | succ fuel ih =>
    intro k dr hk hf hS
    by_cases hc : rc > dr
    · have hkn : k < no := by
        rcases Nat.lt_or_ge k no with h | h
        · exact h
        · have : k = no := by omega
          subst this; linarith
      obtain ⟨k', dr', e, h1, h2, h3, h4, h5⟩ := ih (k + 1) (dr + r k) (by omega) (by omega) (by simp only [psum]; linarith)
      refine ⟨k', dr', fun r' hrr => by simp only [rebinWhile]; rw [if_pos hc, if_pos (by omega), hrr k hkn]; exact e r' hrr, by omega, h2, by rw [h3]; simp only [psum]; ring, h4, Or.inr ⟨by omega, hc, ?_⟩⟩
      rcases h5 with ⟨h5, h6⟩ | ⟨_, _, h6⟩
      · rw [h5, h6]; simp; linarith
      · exact h6
    · exact ⟨k, dr, fun r' _ => by simp only [rebinWhile]; rw [if_neg hc], le_refl _, hk, by ring, by linarith, Or.inl ⟨rfl, rfl⟩⟩

/-! ## the `for` loop -/

theorem rpos_le (xi r : Nat → Rat) (no : Nat) (hg : GridOK no xi) (hr : ∀ i, i < no → 0 < r i) (k : Nat) (dr : Rat)
    (h1 : 1 ≤ k) (hk : k ≤ no) (hdr : 0 ≤ dr) : rpos xi r k dr ≤ xi (k - 1) := by
  unfold rpos
  rw [if_neg (by omega)]
  have hw := xprev_lt hg k h1 hk
  have : 0 ≤ (xi (k - 1) - xprev xi k) * dr / r (k - 1) :=
    div_nonneg (mul_nonneg (by linarith) hdr) (le_of_lt (hr _ (by omega)))
  linarith

theorem rpos_gt (xi r : Nat → Rat) (no : Nat) (hg : GridOK no xi) (hr : ∀ i, i < no → 0 < r i) (k : Nat) (dr : Rat)
    (h1 : 1 ≤ k) (hk : k ≤ no) (hdr : dr < r (k - 1)) : xprev xi k < rpos xi r k dr := by
  unfold rpos
  rw [if_neg (by omega)]
  have hw := xprev_lt hg k h1 hk
  have hrk := hr (k - 1) (by omega)
  have : (xi (k - 1) - xprev xi k) * dr / r (k - 1) < xi (k - 1) - xprev xi k := by
    rw [div_lt_iff₀ hrk]
    exact mul_lt_mul_of_pos_left hdr (by linarith)
  linarith

/-- `r', xi'` are the arrays the code actually reads; they need to agree with `r, xi` only on the cells
    `< no` (the loop never reads another cell: this gives the read-set of `Rebin`) -/
theorem rebinLoop_spec (rc : Rat) (r xi : Nat → Rat) (len no : Nat) (hno : no ≤ len) (hg : GridOK no xi)
    (hr : ∀ i, i < no → 0 < r i) (hrc : 0 < rc) :
    ∀ (n : Nat) k dr, k ≤ no → 0 ≤ dr → (k = 0 → dr = 0) → (0 < k → dr < r (k - 1)) →
      psum r k - dr + ((n : Rat) + 1) * rc = psum r no →
      ∃ l, (∀ (r' xi' : Nat → Rat) (xo : Rat), (∀ i, i < no → r' i = r i) → (∀ i, i < no → xi' i = xi i) → xo = xprev xi k →
              rebinLoop rc r' xi' len n k dr xo = some l) ∧ l.length = n ∧ ChainLt 1 (rpos xi r k dr) l := by
  intro n
  induction n with
  | zero =>
    intro k dr hk hdr hk0 hkr hS
    refine ⟨[], fun _ _ _ _ _ _ => rfl, rfl, ?_⟩
    show rpos xi r k dr < 1
    simp only [Nat.cast_zero, zero_add, one_mul] at hS
    rcases Nat.eq_zero_or_pos k with h0 | hpos
    · unfold rpos; rw [if_pos h0]; exact one_pos
    rcases Nat.lt_or_ge k no with hlt | hge
    · have h1 := rpos_le xi r no hg hr k dr hpos hk hdr
      have h2 := grid_lt hg (k - 1) (no - 1) (by omega) (by omega)
      rw [hg.2.2.2] at h2; linarith
    · have hkn : k = no := by omega
      subst hkn
      have hdr' : dr = rc := by linarith
      unfold rpos
      rw [if_neg (by omega), hg.2.2.2]
      have hw := xprev_lt hg k hpos (le_refl _)
      rw [hg.2.2.2] at hw
      have : 0 < (1 - xprev xi k) * dr / r (k - 1) :=
        div_pos (mul_pos (by linarith) (by rw [hdr']; exact hrc)) (hr _ (by omega))
      linarith
  | succ n ih =>
    intro k dr hk hdr hk0 hkr hS
    push_cast at hS
    have hnn : (0 : Rat) ≤ n := Nat.cast_nonneg n
    obtain ⟨k', dr', e, h1, h2, h3, h4, h5⟩ := rebinWhile_spec rc r len no hno (len + 1) k dr hk (by omega)
      (by nlinarith [mul_nonneg hnn (le_of_lt hrc)])
    have hk'pos : 0 < k' := by
      rcases h5 with ⟨h5, h6⟩ | ⟨h5, _, _⟩
      · rcases Nat.eq_zero_or_pos k with h0 | hp
        · have := hk0 h0; rw [h6, this] at h4; linarith
        · omega
      · omega
    have hdr''0 : 0 ≤ dr' - rc := by linarith
    have hdr''r : dr' - rc < r (k' - 1) := by
      rcases h5 with ⟨h5, h6⟩ | ⟨_, _, h6⟩
      · rw [h5, h6]; have := hkr (by omega); linarith
      · linarith
    obtain ⟨rest, erest, hlen, hchain⟩ := ih k' (dr' - rc) h2 hdr''0 (by omega) (fun _ => hdr''r) (by rw [h3]; linarith)
    refine ⟨rpos xi r k' (dr' - rc) :: rest, ?_, by simp [hlen], ?_⟩
    · intro r' xi' xo hrr hxx hxo
      have hxo' : (if k' > 1 then xi' (k' - 2) else xo) = xprev xi k' := by
        unfold xprev
        split_ifs with h
        · exact hxx _ (by omega)
        · rw [hxo]; unfold xprev; rw [if_neg (by omega)]
      simp only [rebinLoop]
      rw [e r' hrr]
      simp only []
      rw [if_neg (by omega), erest r' xi' _ hrr hxx hxo', hxo', hxx _ (by omega : k' - 1 < no), hrr _ (by omega : k' - 1 < no)]
      unfold rpos; rw [if_neg (by omega)]
    · refine ⟨?_, hchain⟩
      -- the new point is to the right of the previous one
      rcases h5 with ⟨h5, h6⟩ | ⟨h5, _, _⟩
      · -- same old bin: less weight is left to the right
        subst h5; subst h6
        simp only [rpos, if_neg (show ¬ k' = 0 by omega)]
        have hw := xprev_lt hg k' hk'pos h2
        have hrk := hr (k' - 1) (by omega)
        have : (xi (k' - 1) - xprev xi k') * (dr' - rc) / r (k' - 1) < (xi (k' - 1) - xprev xi k') * dr' / r (k' - 1) := by
          apply div_lt_div_of_pos_right _ hrk
          exact mul_lt_mul_of_pos_left (by linarith) (by linarith)
        linarith
      · -- a later old bin
        have hgt := rpos_gt xi r no hg hr k' (dr' - rc) hk'pos h2 hdr''r
        have hle : rpos xi r k dr ≤ xprev xi k' := by
          rcases Nat.eq_zero_or_pos k with h0 | hp
          · unfold rpos; rw [if_pos h0]; exact xprev_nonneg hg k' h2
          · have a1 := rpos_le xi r no hg hr k dr hp hk hdr
            have a2 : xi (k - 1) ≤ xprev xi k' := by
              unfold xprev; rw [if_pos (by omega)]
              exact grid_le hg _ _ (by omega) (by omega)
            linarith
        linarith

/-! ## the whole routine -/

theorem psum_pos (r : Nat → Rat) (no : Nat) (hr : ∀ i, i < no → 0 < r i) : ∀ k, 1 ≤ k → k ≤ no → 0 < psum r k := by
  intro k
  induction k with
  | zero => intro h; omega
  | succ k ih =>
    intro _ hk
    simp only [psum]
    rcases Nat.eq_zero_or_pos k with h0 | hp
    · subst h0; simp only [psum]; linarith [hr 0 (by omega)]
    · linarith [ih hp (by omega), hr k (by omega)]

/-- the first loop of `Rebin` started as coded (`k = 0, dr = 0, xo = 0`) with `rc = (r[0]+…+r[no-1]) / nd`:
    the list `xin` is the same for all arrays `r', xi'` that agree with `r, xi` on the old bins `< no` -/
theorem rebin_loop_top (rc : Rat) (nd no len : Nat) (r xi : Nat → Rat) (hno : no ≤ len) (hnd1 : 1 ≤ nd)
    (hg : GridOK no xi) (hr : ∀ i, i < no → 0 < r i) (hrc : (nd : Rat) * rc = psum r no) :
    ∃ l, (∀ (r' xi' : Nat → Rat), (∀ i, i < no → r' i = r i) → (∀ i, i < no → xi' i = xi i) →
            rebinLoop rc r' xi' len (nd - 1) 0 0 0 = some l) ∧ l.length = nd - 1 ∧ ChainLt 1 0 l := by
  have hS := psum_pos r no hr no hg.1 (le_refl _)
  have hndp : (0 : Rat) < nd := by exact_mod_cast hnd1
  have hrcp : 0 < rc := by
    by_contra h
    have : (nd : Rat) * rc ≤ 0 := mul_nonpos_of_nonneg_of_nonpos (le_of_lt hndp) (by linarith)
    linarith
  have hcast : ((nd - 1 : Nat) : Rat) + 1 = nd := by
    have : nd - 1 + 1 = nd := by omega
    exact_mod_cast this
  obtain ⟨l, e, hl, hc⟩ := rebinLoop_spec rc r xi len no hno hg hr hrcp (nd - 1) 0 0 (by omega) (le_refl _)
    (fun _ => rfl) (fun h => absurd h (by omega)) (by simp only [psum]; rw [hcast]; linarith)
  exact ⟨l, fun r' xi' hrr hxx => e r' xi' 0 hrr hxx (by unfold xprev; rw [if_neg (by omega)]), hl, by simpa [rpos] using hc⟩

/-- the row written back by `Rebin` is a grid again -/
theorem rebinRow_grid (nd : Nat) (l : List Rat) (xi : Nat → Rat) (hnd1 : 1 ≤ nd) (hl : l.length = nd - 1) (hc : ChainLt 1 0 l) :
    GridOK nd (rebinRow nd l xi) := by
  refine ⟨hnd1, ?_, ?_, ?_⟩
  · unfold rebinRow
    split_ifs with h1 h2
    · exact (chain_get 1 l 0 hc 0 (by omega)).1
    · exact one_pos
    · omega
  · intro i hi
    unfold rebinRow
    rw [if_pos (by omega)]
    obtain ⟨_, a2, a3⟩ := chain_get 1 l 0 hc i (by omega)
    split_ifs with h1 h2
    · exact a3 (by omega)
    · exact a2
    · omega
  · unfold rebinRow
    rw [if_neg (by omega), if_pos rfl]

end Lp.C14
