/-
  C14 — helper lemmas for the Miser theorems: the LCG stays below its modulus, the bisection axis
  chosen by `chooseSplit` exists, sub-regions are inside their parent, the allocation
  `nptl, nptr ≥ MNPT`, plain sampling stays inside / sums constants.
-/
import LpProofs.C14.Inside
namespace Lp.C14

variable {G : Type}

/-! ## the private LCG -/

theorem lcg_lt (iran : Nat) : lcg iran < 175000 := by unfold lcg; omega

theorem lcgN_lt_of_lt : ∀ n iran, iran < 175000 → lcgN n iran < 175000 := by
  intro n
  induction n with
  | zero => intro iran h; simpa [lcgN] using h
  | succ n ih => intro iran _; simp only [lcgN]; exact ih _ (lcg_lt _)

theorem lcgN_lt (n iran : Nat) (hn : 0 < n) : lcgN n iran < 175000 := by
  obtain ⟨m, rfl⟩ : ∃ m, n = m + 1 := ⟨n - 1, by omega⟩
  simp only [lcgN]; exact lcgN_lt_of_lt _ _ (lcg_lt _)

/-! ## folds -/

theorem foldl_inv {α β : Type} (P : β → Prop) (Q : α → Prop) (f : β → α → β)
    (hstep : ∀ b a, P b → Q a → P (f b a)) : ∀ (l : List α), (∀ a ∈ l, Q a) → ∀ b, P b → P (l.foldl f b) := by
  intro l
  induction l with
  | nil => intro _ b hb; simpa using hb
  | cons x xs ih =>
    intro hQ b hb
    simp only [List.foldl_cons]
    exact ih (fun a ha => hQ a (List.mem_cons_of_mem _ ha)) _ (hstep b x hb (hQ x List.mem_cons_self))

/-- on samples that all carry the value `c`, `sideRange` shows no variation -/
theorem sideRange_const (c : Rat) (l : List (List Rat × Rat)) (hl : ∀ p ∈ l, p.2 = c) (j : Nat) (mid : Rat) (left : Bool) :
    sideRange l j mid left = none ∨ sideRange l j mid left = some (c, c) := by
  unfold sideRange
  refine foldl_inv (fun acc => acc = none ∨ acc = some (c, c)) (fun p => p.2 = c) _ ?_ l hl none (Or.inl rfl)
  intro acc p hacc hp
  split_ifs
  · rcases hacc with h | h
    · subst h; right; simp [hp]
    · subst h; right; simp [hp, rmin, rmax]
  · exact hacc

/-! ## the bisection axis -/

/-- what `chooseSplit` returns: an existing axis; its two spreads are either the defaults `1, 1` or
    `pw23` of strictly positive ranges -/
def GoodSplit (pw23 : Rat → Rat) (dim : Nat) (s : Split) : Prop :=
  s.jb < dim ∧ ((s.siglb = 1 ∧ s.sigrb = 1) ∨ ∃ a b, 0 < a ∧ 0 < b ∧ s.siglb = pw23 a ∧ s.sigrb = pw23 b)

theorem chooseSplit_good (pw23 : Rat → Rat) (pre : List (List Rat × Rat)) (region : List Rat) (dim iran : Nat)
    (hd : 0 < dim) (hi : iran < 175000) : GoodSplit pw23 dim (chooseSplit pw23 pre region dim iran) := by
  unfold chooseSplit
  have key := foldl_inv (fun (acc : Option (Rat × Split)) => ∀ v s, acc = some (v, s) → GoodSplit pw23 dim s)
    (fun j => j < dim)
    (splitStep pw23 pre region dim)
    (by
      intro acc j hacc hj
      unfold splitStep
      split
      · rename_i mnl mxl mnr mxr _ _
        split_ifs with hv
        · have good : GoodSplit pw23 dim ⟨j, pw23 (mxl - mnl), pw23 (mxr - mnr)⟩ :=
            ⟨hj, Or.inr ⟨mxl - mnl, mxr - mnr, by linarith [hv.1], by linarith [hv.2], rfl, rfl⟩⟩
          split
          · dsimp only
            split_ifs
            · intro v s h; simp only [Option.some.injEq, Prod.mk.injEq] at h; rw [← h.2]; exact good
            · exact hacc
          · intro v s h; simp only [Option.some.injEq, Prod.mk.injEq] at h; rw [← h.2]; exact good
        · exact hacc
      · exact hacc)
    (List.range dim) (fun a ha => List.mem_range.mp ha) none (by intro v s h; simp at h)
  unfold splitResult
  split
  · rename_i v s h; exact key v s h
  · refine ⟨?_, Or.inl ⟨rfl, rfl⟩⟩
    dsimp only
    rw [Nat.div_lt_iff_lt_mul (by decide)]
    exact Nat.mul_lt_mul_of_pos_left hi hd

/-- a constant integrand never shows a variation: the fallback axis with spreads `1, 1` is taken -/
theorem chooseSplit_const (pw23 : Rat → Rat) (c : Rat) (pre : List (List Rat × Rat)) (hpre : ∀ p ∈ pre, p.2 = c)
    (region : List Rat) (dim iran : Nat) :
    (chooseSplit pw23 pre region dim iran).siglb = 1 ∧ (chooseSplit pw23 pre region dim iran).sigrb = 1 := by
  unfold chooseSplit
  have key := foldl_inv (fun (acc : Option (Rat × Split)) => acc = none)
    (fun _ => True)
    (splitStep pw23 pre region dim)
    (by
      intro acc j hacc _
      unfold splitStep
      split
      · rename_i mnl mxl mnr mxr h1 _
        rcases sideRange_const c pre hpre j (rmid region dim j) true with h | h
        · rw [h] at h1; simp at h1
        · rw [h] at h1; simp only [Option.some.injEq, Prod.mk.injEq] at h1
          rw [if_neg (by rw [← h1.1, ← h1.2]; intro hv; exact lt_irrefl _ hv.1)]
          exact hacc
      · exact hacc)
    (List.range dim) (fun _ _ => trivial) none rfl
  rw [key]
  exact ⟨rfl, rfl⟩

/-! ## plain sampling (leaf and pre-sampling) -/

theorem sampleN_inside (u01 : U01 G) (hu : Unit01 u01) (f : List Rat → Rat) (region : List Rat) (hw : WellFormed region) :
    ∀ n g, ∀ p ∈ (sampleN u01 f region n g).1.map (·.1), p.length = region.length / 2 ∧ Inside region p := by
  intro n
  induction n with
  | zero => intro g p hp; simp [sampleN] at hp
  | succ n ih =>
    intro g p hp
    simp only [sampleN, List.map_cons] at hp
    rcases List.mem_cons.mp hp with h | h
    · rw [h]; exact ⟨randomPoint_length u01 region g, randomPoint_inside u01 hu region hw g⟩
    · exact ih _ p h

theorem sampleN_vals (u01 : U01 G) (f : List Rat → Rat) (region : List Rat) :
    ∀ n g, ∀ p ∈ (sampleN u01 f region n g).1, p.2 = f p.1 := by
  intro n
  induction n with
  | zero => intro g p hp; simp [sampleN] at hp
  | succ n ih =>
    intro g p hp
    simp only [sampleN] at hp
    rcases List.mem_cons.mp hp with h | h
    · rw [h]
    · exact ih _ p h

theorem foldl_add_const (c : Rat) : ∀ (l : List Rat), (∀ v ∈ l, v = c) → ∀ a, l.foldl (· + ·) a = a + (l.length : Rat) * c := by
  intro l
  induction l with
  | nil => intro _ a; simp
  | cons x xs ih =>
    intro h a
    simp only [List.foldl_cons, List.length_cons]
    rw [ih (fun v hv => h v (List.mem_cons_of_mem _ hv)), h x List.mem_cons_self]
    push_cast; ring

theorem sampleN_length (u01 : U01 G) (f : List Rat → Rat) (region : List Rat) :
    ∀ n g, (sampleN u01 f region n g).1.length = n := by
  intro n
  induction n with
  | zero => intro g; simp [sampleN]
  | succ n ih => intro g; simp [sampleN, ih]

/-- the leaf sum over a constant integrand is `n · c` -/
theorem sumVals_const (u01 : U01 G) (c : Rat) (region : List Rat) (n : Nat) (g : G) :
    sumVals (sampleN u01 (fun _ => c) region n g).1 = (n : Rat) * c := by
  unfold sumVals
  rw [foldl_add_const c]
  · simp [sampleN_length]
  · intro v hv
    obtain ⟨p, hp, rfl⟩ := List.mem_map.mp hv
    exact sampleN_vals u01 (fun _ => c) region n g p hp

/-! ## sub-regions -/

/-- cutting axis `jb` at a point of `[lo, hi]` gives a well-formed region whose points (with `dim`
    coordinates) are points of the parent; also when `dim = 0` (nothing to cut) -/
theorem subRegion_inside (region : List Rat) (hw : WellFormed region) (jb : Nat) (mid : Rat) (left : Bool)
    (hjb : (jb < region.length / 2 ∧ at_ region jb ≤ mid ∧ mid ≤ at_ region (region.length / 2 + jb)) ∨ region.length / 2 = 0) :
    WellFormed (subRegion region (region.length / 2) jb mid left) ∧
    ∀ p, p.length = (subRegion region (region.length / 2) jb mid left).length / 2 ∧
      Inside (subRegion region (region.length / 2) jb mid left) p → p.length = region.length / 2 ∧ Inside region p := by
  rcases hjb with ⟨hjb, hm⟩ | h0
  · have hat := subRegion_at region jb mid left hjb
    rw [Nat.add_comm] at hm
    constructor
    · intro i hi
      rw [subRegion_length] at hi ⊢
      obtain ⟨e1, e2⟩ := hat i hi
      rw [e1, e2]
      have := hw i hi
      cases left <;> by_cases h : i = jb <;> simp [h] <;> first | (subst h; linarith [hm.1, hm.2]) | exact this
    · rintro p ⟨hp, hin⟩
      rw [subRegion_length] at hp
      refine ⟨hp, ?_⟩
      unfold Inside at hin ⊢
      rw [subRegion_length] at hin
      refine insideFrom_mono region _ _ ?_ p 0 (by omega) hin
      intro a ha
      obtain ⟨e1, e2⟩ := hat a ha
      rw [e1, e2]
      cases left <;> by_cases h : a = jb <;> simp [h] <;> (subst h; linarith [hm.1, hm.2])
  · constructor
    · intro i hi; rw [subRegion_length] at hi; omega
    · rintro p ⟨hp, _⟩
      rw [subRegion_length] at hp
      refine ⟨hp, ?_⟩
      have : p = [] := List.eq_nil_of_length_eq_zero (by omega)
      subst this; trivial

/-- the same for strictly positive widths: both halves of a cut at an interior point keep them -/
theorem subRegion_strict (region : List Rat) (hw : StrictWF region) (jb : Nat) (mid : Rat) (left : Bool)
    (hjb : jb < region.length / 2)
    (hm : at_ region jb < mid ∧ mid < at_ region (region.length / 2 + jb)) :
    StrictWF (subRegion region (region.length / 2) jb mid left) := by
  have hat := subRegion_at region jb mid left hjb
  rw [Nat.add_comm] at hm
  intro i hi
  rw [subRegion_length] at hi ⊢
  obtain ⟨e1, e2⟩ := hat i hi
  rw [e1, e2]
  have := hw i hi
  cases left <;> by_cases h : i = jb <;> simp [h] <;> first | (subst h; linarith [hm.1, hm.2]) | exact this

/-! ## the allocation of the remaining budget -/

theorem truncInt_of_nonneg (x : Rat) (h : 0 ≤ x) : truncInt x = x.floor := by
  unfold truncInt; rw [if_pos h]

/-! ## the constants of Miser (`LpModel/C14/Constants.lean`, regenerated from src/Integration.cpp — DESIGN.md §4.5).
    The lemmas of this block are the ONLY places where the values are unfolded: a changed `MNPT`, `MNBS`, `PFAC`
    (or `2` of `2·MNPT`, `dith`, `TINY`, `BIG`) that invalidates one of them breaks its proof. -/

/-- `MNPT ≥ 1`: a half never gets an empty budget (the C++ divides by `npts` at a leaf) -/
theorem mnpt_pos : 1 ≤ K.mnpt := by decide

/-- `MNBS ≥ 1`: a call with `npts ≤ 0` is never a bisecting node -/
theorem mnbs_pos : 1 ≤ K.mnbs := by decide

/-- `int(npts·PFAC) = npts / 10` for a non-negative budget (`PFAC = 0.1` exactly in the model) -/
theorem trunc_pfac (npts : Int) (h : 0 ≤ npts) : truncInt ((npts : Rat) * K.pfac) = npts / 10 := by
  have h0 : (0 : Rat) ≤ (npts : Rat) * K.pfac := by
    have : (0 : Rat) ≤ npts := by exact_mod_cast h
    simp only [K.pfac]; positivity
  rw [truncInt_of_nonneg _ h0]
  have e : (npts : Rat) * K.pfac = (npts : Rat) / 10 := by simp only [K.pfac]; ring
  rw [e]
  have hF := Rat.floor_le ((npts : Rat) / 10)
  have hF' : ((npts : Rat) / 10).floor * 10 ≤ npts := by
    have : ((((npts : Rat) / 10).floor : Int) : Rat) * 10 ≤ npts := by linarith
    exact_mod_cast this
  have hq : npts / 10 ≤ ((npts : Rat) / 10).floor := by
    rw [Rat.le_floor_iff, le_div_iff₀ (by norm_num)]
    exact_mod_cast (by omega : npts / 10 * 10 ≤ npts)
  omega

/-- `npre = max(int(npts·PFAC), MNPT)` leaves room for the two halves: `MNPT ≤ npre`, `npre + 2·MNPT ≤ npts`, `npre < npts`
    whenever the node bisects (`npts ≥ MNBS`); needs `MNBS·(1 − PFAC) ≥ 2·MNPT` and `MNBS ≥ 3·MNPT` (60, 0.1, 15: 54 ≥ 30, 60 ≥ 45) -/
theorem npre_room (npts : Int) (h : K.mnbs ≤ npts) :
    K.mnpt ≤ max (truncInt ((npts : Rat) * K.pfac)) K.mnpt ∧
    max (truncInt ((npts : Rat) * K.pfac)) K.mnpt + K.mnptTwice * K.mnpt ≤ npts ∧
    max (truncInt ((npts : Rat) * K.pfac)) K.mnpt < npts := by
  have h' := h
  simp only [K.mnbs] at h'
  rw [trunc_pfac npts (by omega)]
  simp only [K.mnpt, K.mnptTwice]
  omega

/-- the model's `rmid` (mid-point, `s = 0`) is the code's only because `Integrate_MC_Miser` passes `dith = 0` -/
theorem miser_dith_zero : K.dith = 0 := rfl

/-- the floors `max(TINY, ·)` and the start values `±BIG`, which the model omits, act only outside `[1e-30, 1e30]` -/
theorem miser_floors_out_of_range : 0 < K.tinyMiser ∧ K.tinyMiser ≤ 1 / 10 ^ 30 ∧ (10 : Rat) ^ 30 ≤ K.bigMiser := by
  simp only [K.tinyMiser, K.bigMiser]; norm_num

/-- as coded `nptl = int(MNPT + (npts − npre − 2·MNPT)·t)` with `t = fracl·σl / (fracl·σl + (1−fracl)·σr) ∈ [0,1]`:
    both halves get at least `MNPT` points (`c`) -/
theorem alloc_bounds (c m : Int) (hc : 0 ≤ c) (hm : 0 ≤ m) (fracl sl sr : Rat) (hf0 : 0 < fracl) (hf1 : fracl < 1) (hsl : 0 < sl) (hsr : 0 < sr) :
    c ≤ truncInt ((c : Rat) + (m : Rat) * fracl * sl / (fracl * sl + (1 - fracl) * sr)) ∧
    truncInt ((c : Rat) + (m : Rat) * fracl * sl / (fracl * sl + (1 - fracl) * sr)) ≤ c + m := by
  have hD : 0 < fracl * sl + (1 - fracl) * sr := by
    have := mul_pos hf0 hsl
    have := mul_pos (by linarith : (0 : Rat) < 1 - fracl) hsr
    linarith
  have hm' : (0 : Rat) ≤ m := by exact_mod_cast hm
  have hc' : (0 : Rat) ≤ c := by exact_mod_cast hc
  have ht0 : 0 ≤ (m : Rat) * fracl * sl / (fracl * sl + (1 - fracl) * sr) :=
    div_nonneg (mul_nonneg (mul_nonneg hm' (le_of_lt hf0)) (le_of_lt hsl)) (le_of_lt hD)
  have ht1 : (m : Rat) * fracl * sl / (fracl * sl + (1 - fracl) * sr) ≤ m := by
    rw [div_le_iff₀ hD]
    have := mul_nonneg hm' (le_of_lt (mul_pos (by linarith : (0 : Rat) < 1 - fracl) hsr))
    nlinarith
  rw [truncInt_of_nonneg _ (by linarith)]
  constructor
  · rw [Rat.le_floor_iff]; linarith
  · have h1 := Rat.floor_le ((c : Rat) + (m : Rat) * fracl * sl / (fracl * sl + (1 - fracl) * sr))
    have h2 : ((((c : Rat) + (m : Rat) * fracl * sl / (fracl * sl + (1 - fracl) * sr)).floor : Int) : Rat) ≤ ((c + m : Int) : Rat) := by
      push_cast; linarith
    exact_mod_cast h2

/-- with `dith = 0` and a positive width, `fracl = |rgm − rgl| / |rgr − rgl| = 1/2` -/
theorem fracl_half (lo hi : Rat) (h : lo < hi) : rabs (((1 / 2) * lo + (1 / 2) * hi - lo) / (hi - lo)) = 1 / 2 := by
  have hd : hi - lo ≠ 0 := by linarith
  have : ((1 / 2) * lo + (1 / 2) * hi - lo) / (hi - lo) = 1 / 2 := by field_simp; ring
  rw [this]; unfold rabs; norm_num

/-! ## one bisecting node of the recursion, with its local quantities named -/

section Node
variable (u01 : U01 G) (f : List Rat → Rat) (pw23 : Rat → Rat) (region : List Rat) (npts : Int) (iran : Nat) (g : G)

/-- `npre = max(int(npts·PFAC), MNPT)` -/
def mNpre : Int := max (truncInt ((npts : Rat) * K.pfac)) K.mnpt
/-- the pre-sampling -/
def mPre : List (List Rat × Rat) × G := sampleN u01 f region (mNpre npts).toNat g
def mSplit : Split := chooseSplit pw23 (mPre u01 f region npts g).1 region (region.length / 2) (lcgN (region.length / 2) iran)
def mJb : Nat := (mSplit u01 f pw23 region npts iran g).jb
def mMid : Rat := rmid region (region.length / 2) (mJb u01 f pw23 region npts iran g)
def mFracl : Rat :=
  rabs ((mMid u01 f pw23 region npts iran g - at_ region (mJb u01 f pw23 region npts iran g)) /
        (at_ region (region.length / 2 + mJb u01 f pw23 region npts iran g) - at_ region (mJb u01 f pw23 region npts iran g)))
def mNptl : Int :=
  truncInt ((K.mnpt : Rat) + ((npts - mNpre npts - K.mnptTwice * K.mnpt : Int) : Rat) * mFracl u01 f pw23 region npts iran g * (mSplit u01 f pw23 region npts iran g).siglb /
    (mFracl u01 f pw23 region npts iran g * (mSplit u01 f pw23 region npts iran g).siglb +
     (1 - mFracl u01 f pw23 region npts iran g) * (mSplit u01 f pw23 region npts iran g).sigrb))
def mNptr : Int := npts - mNpre npts - mNptl u01 f pw23 region npts iran g
def mLeft : List Rat := subRegion region (region.length / 2) (mJb u01 f pw23 region npts iran g) (mMid u01 f pw23 region npts iran g) true
def mRight : List Rat := subRegion region (region.length / 2) (mJb u01 f pw23 region npts iran g) (mMid u01 f pw23 region npts iran g) false

/-- a successful bisecting node: both recursive calls succeeded and the node combines them as coded -/
theorem miser_node_some (fuel : Nat) (h2 : K.mnbs ≤ npts) (o : MiserOut G)
    (h : miser u01 f pw23 (fuel + 1) region npts iran g = some o) :
    ∃ l r, miser u01 f pw23 fuel (mLeft u01 f pw23 region npts iran g) (mNptl u01 f pw23 region npts iran g)
              (lcgN (region.length / 2) iran) (mPre u01 f region npts g).2 = some l ∧
           miser u01 f pw23 fuel (mRight u01 f pw23 region npts iran g) (mNptr u01 f pw23 region npts iran g) l.iran l.g = some r ∧
           o.ave = mFracl u01 f pw23 region npts iran g * l.ave + (1 - mFracl u01 f pw23 region npts iran g) * r.ave ∧
           o.pts = (mPre u01 f region npts g).1.map (·.1) ++ l.pts ++ r.pts := by
  have hK := mnbs_pos
  simp only [miser] at h
  rw [if_neg (by omega), if_neg (by omega)] at h
  split at h
  · exact absurd h (by simp)
  · rename_i l hl
    split at h
    · exact absurd h (by simp)
    · rename_i r hr
      simp only [Option.some.injEq] at h
      exact ⟨l, r, hl, hr, by rw [← h]; rfl, by rw [← h]; rfl⟩

/-- conversely: a bisecting node fails only if one of its two recursive calls fails -/
theorem miser_node_none (fuel : Nat) (h2 : K.mnbs ≤ npts)
    (h : miser u01 f pw23 (fuel + 1) region npts iran g = none) :
    miser u01 f pw23 fuel (mLeft u01 f pw23 region npts iran g) (mNptl u01 f pw23 region npts iran g)
        (lcgN (region.length / 2) iran) (mPre u01 f region npts g).2 = none ∨
    ∃ l, miser u01 f pw23 fuel (mLeft u01 f pw23 region npts iran g) (mNptl u01 f pw23 region npts iran g)
        (lcgN (region.length / 2) iran) (mPre u01 f region npts g).2 = some l ∧
      miser u01 f pw23 fuel (mRight u01 f pw23 region npts iran g) (mNptr u01 f pw23 region npts iran g) l.iran l.g = none := by
  have hK := mnbs_pos
  simp only [miser] at h
  rw [if_neg (by omega), if_neg (by omega)] at h
  split at h
  · rename_i hl; exact Or.inl hl
  · rename_i l hl
    split at h
    · rename_i hr; exact Or.inr ⟨l, hl, hr⟩
    · exact absurd h (by simp)

/-- a leaf: `npts` plain samples, `ave = summ / npts` -/
theorem miser_leaf (fuel : Nat) (h1 : 0 < npts) (h2 : npts < K.mnbs) :
    miser u01 f pw23 (fuel + 1) region npts iran g =
      some ⟨sumVals (sampleN u01 f region npts.toNat g).1 / npts, (sampleN u01 f region npts.toNat g).1.map (·.1), npts, iran,
            (sampleN u01 f region npts.toNat g).2, false⟩ := by
  simp only [miser]
  rw [if_neg (by omega), if_pos h2]

/-! facts about the local quantities of a bisecting node -/

theorem node_jb (hd : 0 < region.length / 2) : mJb u01 f pw23 region npts iran g < region.length / 2 :=
  (chooseSplit_good pw23 _ region _ _ hd (lcgN_lt _ _ hd)).1

theorem node_mid_inside (hw : WellFormed region) (hd : 0 < region.length / 2) :
    at_ region (mJb u01 f pw23 region npts iran g) ≤ mMid u01 f pw23 region npts iran g ∧
    mMid u01 f pw23 region npts iran g ≤ at_ region (region.length / 2 + mJb u01 f pw23 region npts iran g) := by
  have h := hw _ (node_jb u01 f pw23 region npts iran g hd)
  rw [Nat.add_comm] at h
  unfold mMid rmid; constructor <;> linarith

theorem node_mid_strict (hs : StrictWF region) (hd : 0 < region.length / 2) :
    at_ region (mJb u01 f pw23 region npts iran g) < mMid u01 f pw23 region npts iran g ∧
    mMid u01 f pw23 region npts iran g < at_ region (region.length / 2 + mJb u01 f pw23 region npts iran g) := by
  have h := hs _ (node_jb u01 f pw23 region npts iran g hd)
  rw [Nat.add_comm] at h
  unfold mMid rmid; constructor <;> linarith

theorem node_fracl (hs : StrictWF region) (hd : 0 < region.length / 2) : mFracl u01 f pw23 region npts iran g = 1 / 2 := by
  have h := hs _ (node_jb u01 f pw23 region npts iran g hd)
  rw [Nat.add_comm] at h
  unfold mFracl mMid rmid
  exact fracl_half _ _ h

theorem node_sig_pos (hp : ∀ x, 0 < x → 0 < pw23 x) (hd : 0 < region.length / 2) :
    0 < (mSplit u01 f pw23 region npts iran g).siglb ∧ 0 < (mSplit u01 f pw23 region npts iran g).sigrb := by
  rcases (chooseSplit_good pw23 (mPre u01 f region npts g).1 region _ _ hd (lcgN_lt _ iran hd)).2 with ⟨h1, h2⟩ | ⟨a, b, ha, hb, h1, h2⟩
  · unfold mSplit; rw [h1, h2]; exact ⟨one_pos, one_pos⟩
  · unfold mSplit; rw [h1, h2]; exact ⟨hp a ha, hp b hb⟩

theorem node_sig_const (c : Rat) :
    (mSplit u01 (fun _ => c) pw23 region npts iran g).siglb = 1 ∧ (mSplit u01 (fun _ => c) pw23 region npts iran g).sigrb = 1 := by
  unfold mSplit mPre
  exact chooseSplit_const pw23 c _ (fun p hp => sampleN_vals u01 (fun _ => c) region _ g p hp) region _ _

/-- both halves of a bisecting node get at least `MNPT` points — hence at least one (`mnpt_pos`) — and fewer than the node itself -/
theorem node_alloc (hs : StrictWF region) (hd : 0 < region.length / 2) (h60 : K.mnbs ≤ npts)
    (hsig : 0 < (mSplit u01 f pw23 region npts iran g).siglb ∧ 0 < (mSplit u01 f pw23 region npts iran g).sigrb) :
    K.mnpt ≤ mNptl u01 f pw23 region npts iran g ∧ mNptl u01 f pw23 region npts iran g < npts ∧
    K.mnpt ≤ mNptr u01 f pw23 region npts iran g ∧ mNptr u01 f pw23 region npts iran g < npts := by
  have hf := node_fracl u01 f pw23 region npts iran g hs hd
  have hroom := npre_room npts h60
  have hpos := mnpt_pos
  have hb := alloc_bounds K.mnpt (npts - mNpre npts - K.mnptTwice * K.mnpt) (by omega) (by unfold mNpre; omega) (mFracl u01 f pw23 region npts iran g) _ _
    (by rw [hf]; norm_num) (by rw [hf]; norm_num) hsig.1 hsig.2
  unfold mNptr
  change K.mnpt ≤ mNptl u01 f pw23 region npts iran g ∧
    mNptl u01 f pw23 region npts iran g ≤ K.mnpt + (npts - mNpre npts - K.mnptTwice * K.mnpt) at hb
  unfold mNpre at hb ⊢
  simp only [K.mnptTwice] at hb hroom
  omega

end Node

end Lp.C14
