/-
  C14 — Vegas stratification cells and the cell odometer `kg`: index range, largest index, sweep length.
-/
import LpModel.C14
import Mathlib.Tactic.Ring
import Mathlib.Tactic.Linarith
import Mathlib.Tactic.SplitIfs
namespace Lp.C14

def InCells (ng : Nat) (l : List Nat) : Prop := ∀ c ∈ l, 1 ≤ c ∧ c ≤ ng

theorem odoRev_length (ng : Nat) : ∀ l, (odoRev ng l).1.length = l.length := by
  intro l
  induction l with
  | nil => rfl
  | cons c rest ih =>
    simp only [odoRev]
    split_ifs <;> simp [ih]

/-- the odometer never leaves `1..ng` -/
theorem odoRev_range (ng : Nat) (hng : 1 ≤ ng) : ∀ l, InCells ng l → InCells ng (odoRev ng l).1 := by
  intro l
  induction l with
  | nil => intro _ c hc; simp [odoRev] at hc
  | cons c rest ih =>
    intro h
    have hrest : InCells ng rest := fun x hx => h x (List.mem_cons_of_mem _ hx)
    simp only [odoRev]
    split_ifs with hm
    · intro x hx
      rcases List.mem_cons.mp hx with e | e
      · subst e
        have : c % ng < ng := Nat.mod_lt _ (by omega)
        omega
      · exact hrest x e
    · intro x hx
      rcases List.mem_cons.mp hx with e | e
      · subst e; omega
      · exact ih hrest x e

/-- a finished sweep leaves the odometer at `(1,…,1)` -/
theorem odoRev_done_ones (ng : Nat) : ∀ l, (odoRev ng l).2 = true → (odoRev ng l).1 = List.replicate l.length 1 := by
  intro l
  induction l with
  | nil => intro _; rfl
  | cons c rest ih =>
    simp only [odoRev]
    split_ifs with hm
    · intro h; simp at h
    · intro h; simp [List.replicate_succ, ih h]

/-- the value `ng` itself is stored in `kg`: from `ng - 1` the last axis steps to `ng` -/
theorem odoRev_reaches_ng (ng : Nat) (hng : 2 ≤ ng) (rest : List Nat) :
    odoRev ng ((ng - 1) :: rest) = (ng :: rest, false) := by
  have h1 : (ng - 1) % ng = ng - 1 := Nat.mod_eq_of_lt (by omega)
  simp only [odoRev, h1]
  rw [if_pos (by omega)]
  congr 2; omega

/-- one step advances the position by one; the sweep finishes exactly at the last position -/
theorem odoVal_step (ng : Nat) (hng : 1 ≤ ng) : ∀ l, InCells ng l →
    ((odoRev ng l).2 = false → odoVal ng (odoRev ng l).1 = odoVal ng l + 1) ∧
    ((odoRev ng l).2 = true → odoVal ng l + 1 = ng ^ l.length) := by
  intro l
  induction l with
  | nil => intro _; simp [odoRev, odoVal]
  | cons c rest ih =>
    intro h
    have hc := h c (List.mem_cons_self ..)
    have hrest : InCells ng rest := fun x hx => h x (List.mem_cons_of_mem _ hx)
    obtain ⟨ih1, ih2⟩ := ih hrest
    simp only [odoRev]
    split_ifs with hm
    · have hlt : c < ng := by
        by_contra hh
        have : c = ng := by omega
        rw [this, Nat.mod_self] at hm; exact hm rfl
      have e : c % ng = c := Nat.mod_eq_of_lt hlt
      constructor
      · intro _; simp only [odoVal, e]; omega
      · intro hh; simp at hh
    · have hcn : c = ng := by
        by_contra hh
        have hlt : c < ng := by omega
        rw [Nat.mod_eq_of_lt hlt] at hm; omega
      constructor
      · intro hf
        have := ih1 hf
        simp only [odoVal, this, hcn]
        have : ng * (odoVal ng rest + 1) = ng * odoVal ng rest + ng := by ring
        omega
      · intro ht
        have := ih2 ht
        simp only [odoVal, hcn, List.length_cons, pow_succ]
        have e : ng ^ rest.length * ng = ng * (odoVal ng rest + 1) := by rw [this]; ring
        rw [e]
        have : ng * (odoVal ng rest + 1) = ng * odoVal ng rest + ng := by ring
        omega

theorem odoVal_lt (ng : Nat) (hng : 1 ≤ ng) : ∀ l, InCells ng l → odoVal ng l < ng ^ l.length := by
  intro l
  induction l with
  | nil => intro _; simp [odoVal]
  | cons c rest ih =>
    intro h
    have hc := h c (List.mem_cons_self ..)
    have hrest : InCells ng rest := fun x hx => h x (List.mem_cons_of_mem _ hx)
    have := ih hrest
    simp only [odoVal, List.length_cons, pow_succ]
    have e : ng ^ rest.length * ng = ng * ng ^ rest.length := by ring
    rw [e]
    have : ng * (odoVal ng rest + 1) ≤ ng * ng ^ rest.length := Nat.mul_le_mul_left _ (by omega)
    have e2 : ng * (odoVal ng rest + 1) = ng * odoVal ng rest + ng := by ring
    omega

/-- a sweep that starts at position `odoVal kg` visits exactly the remaining `ng^ndim − odoVal kg` cells -/
theorem sweepLen_eq (ng : Nat) (hng : 1 ≤ ng) : ∀ m f l, InCells ng l → ng ^ l.length - odoVal ng l = m → m ≤ f →
    sweepLen ng f l = m := by
  intro m
  induction m with
  | zero =>
    intro f l h hm _
    have := odoVal_lt ng hng l h
    omega
  | succ m ih =>
    intro f l h hm hf
    obtain ⟨f', rfl⟩ : ∃ f', f = f' + 1 := ⟨f - 1, by omega⟩
    obtain ⟨s1, s2⟩ := odoVal_step ng hng l h
    simp only [sweepLen]
    cases hb : (odoRev ng l).2 with
    | true =>
      have := s2 hb
      simp; omega
    | false =>
      have hv := s1 hb
      have hr := odoRev_range ng hng l h
      have hl := odoRev_length ng l
      have := ih f' (odoRev ng l).1 hr (by rw [hl, hv]; omega) (by omega)
      simp [this]; omega

end Lp.C14
