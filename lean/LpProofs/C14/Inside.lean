/-
  C14 — definitions shared by the C14 proofs (`Unit01`, `Inside`, `WellFormed`) and the
  `Random_Point` lemmas; helper lemmas about `at_`, `List.set` and containment of regions.
-/
import LpModel.C14
import Mathlib.Algebra.Order.Field.Rat
import Mathlib.Tactic.Ring
import Mathlib.Tactic.Linarith
import Mathlib.Tactic.FieldSimp
import Mathlib.Tactic.SplitIfs
namespace Lp.C14

variable {G : Type}

def Unit01 (u01 : U01 G) : Prop := ∀ g, 0 ≤ (u01 g).1 ∧ (u01 g).1 < 1

/-- axis `i+k` of the point list `pts` (starting at axis `i`) lies between the region's bounds -/
def InsideFrom (region : List Rat) (dim : Nat) : Nat → List Rat → Prop
  | _, [] => True
  | i, p :: ps => at_ region i ≤ p ∧ p ≤ at_ region (i + dim) ∧ InsideFrom region dim (i + 1) ps

/-- a whole point is inside the hyper-rectangle `{lower…, upper…}` -/
def Inside (region : List Rat) (pt : List Rat) : Prop := InsideFrom region (region.length / 2) 0 pt

/-- the region is well-formed: every lower bound ≤ its upper bound (upper bound of axis `i` at `i + dim`) -/
def WellFormed (region : List Rat) : Prop := ∀ i, i < region.length / 2 → at_ region i ≤ at_ region (i + region.length / 2)

/-- every axis has a strictly positive width (what `Miser` needs: it divides by `rgr − rgl`) -/
def StrictWF (region : List Rat) : Prop := ∀ i, i < region.length / 2 → at_ region i < at_ region (i + region.length / 2)

theorem StrictWF.wellFormed {region : List Rat} (h : StrictWF region) : WellFormed region :=
  fun i hi => le_of_lt (h i hi)

/-! ## Random_Point stays inside -/

theorem coord_inside (lo hi u : Rat) (h : lo ≤ hi) (h0 : 0 ≤ u) (h1 : u < 1) :
    lo ≤ lo + u * (hi - lo) ∧ lo + u * (hi - lo) ≤ hi := by
  have hd : 0 ≤ hi - lo := by linarith
  constructor
  · nlinarith [mul_nonneg h0 hd]
  · nlinarith [mul_nonneg (by linarith : (0 : Rat) ≤ 1 - u) hd]

theorem randomPointAux_inside (u01 : U01 G) (hu : Unit01 u01) (region : List Rat) (dim : Nat) :
    ∀ n i g, (∀ k, i ≤ k → k < i + n → at_ region k ≤ at_ region (k + dim)) →
      InsideFrom region dim i (randomPointAux u01 region dim n i g).1 := by
  intro n
  induction n with
  | zero => intro i g _; simp [randomPointAux, InsideFrom]
  | succ n ih =>
    intro i g h
    simp only [randomPointAux, InsideFrom]
    obtain ⟨h0, h1⟩ := hu g
    have c := coord_inside (at_ region i) (at_ region (i + dim)) (u01 g).1 (h i (Nat.le_refl _) (by omega)) h0 h1
    exact ⟨c.1, c.2, ih (i + 1) _ (fun k hk1 hk2 => h k (by omega) (by omega))⟩

theorem randomPoint_inside (u01 : U01 G) (hu : Unit01 u01) (region : List Rat) (hw : WellFormed region) (g : G) :
    Inside region (randomPoint u01 region g).1 := by
  unfold Inside randomPoint
  apply randomPointAux_inside u01 hu
  intro k _ hk
  exact hw k (by omega)

theorem randomPointAux_length (u01 : U01 G) (region : List Rat) (dim : Nat) :
    ∀ n i g, (randomPointAux u01 region dim n i g).1.length = n := by
  intro n
  induction n with
  | zero => intro i g; simp [randomPointAux]
  | succ n ih => intro i g; simp [randomPointAux, ih]

theorem randomPoint_length (u01 : U01 G) (region : List Rat) (g : G) :
    (randomPoint u01 region g).1.length = region.length / 2 := by
  unfold randomPoint; exact randomPointAux_length u01 region _ _ _ _

/-! ## `region.set`, sub-regions -/

theorem at_set (region : List Rat) (k : Nat) (v : Rat) (i : Nat) (hk : k < region.length) :
    at_ (region.set k v) i = if i = k then v else at_ region i := by
  unfold at_
  simp only [List.getD_eq_getElem?_getD, List.getElem?_set]
  by_cases h : i = k
  · subst h; simp [hk]
  · have h' : ¬ k = i := fun e => h e.symm
    simp [h, h']

/-- containment of regions transfers to points that have at most `dim` coordinates -/
theorem insideFrom_mono (R S : List Rat) (dim : Nat)
    (h : ∀ a, a < dim → at_ R a ≤ at_ S a ∧ at_ S (a + dim) ≤ at_ R (a + dim)) :
    ∀ ps i, i + ps.length ≤ dim → InsideFrom S dim i ps → InsideFrom R dim i ps := by
  intro ps
  induction ps with
  | nil => intro i _ _; trivial
  | cons p ps ih =>
    intro i hl hin
    simp only [List.length_cons] at hl
    obtain ⟨h1, h2, h3⟩ := hin
    obtain ⟨a1, a2⟩ := h i (by omega)
    exact ⟨le_trans a1 h1, le_trans h2 a2, ih (i + 1) (by omega) h3⟩

theorem subRegion_length (region : List Rat) (dim jb : Nat) (mid : Rat) (left : Bool) :
    (subRegion region dim jb mid left).length = region.length := by
  unfold subRegion; split <;> simp

/-- the bounds of a sub-region produced by `Miser`: axis `jb` is cut at `mid`, everything else is kept -/
theorem subRegion_at (region : List Rat) (jb : Nat) (mid : Rat) (left : Bool) (hjb : jb < region.length / 2) (a : Nat)
    (ha : a < region.length / 2) :
    at_ (subRegion region (region.length / 2) jb mid left) a = (if a = jb ∧ left = false then mid else at_ region a) ∧
    at_ (subRegion region (region.length / 2) jb mid left) (a + region.length / 2)
      = (if a = jb ∧ left = true then mid else at_ region (a + region.length / 2)) := by
  unfold subRegion
  cases left
  · simp only [Bool.false_eq_true, if_false, and_true, and_false]
    rw [at_set _ _ _ _ (by omega), at_set _ _ _ _ (by omega)]
    refine ⟨rfl, ?_⟩
    rw [if_neg (by omega)]
  · simp only [if_true, and_true]
    rw [at_set _ _ _ _ (by omega), at_set _ _ _ _ (by omega)]
    refine ⟨by rw [if_neg (by omega)]; simp, ?_⟩
    by_cases h : a = jb
    · subst h; simp [Nat.add_comm]
    · rw [if_neg (by omega), if_neg h]

end Lp.C14
