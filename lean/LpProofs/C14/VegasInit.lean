/-
  C14 — Vegas: the arrays after the initialisation blocks with `init = 0` (`vegasInitArrays`) and the
  iteration prologue: helper lemmas for `vegas_arrays_live_after_init`.
-/
import LpProofs.C14.Rebin
namespace Lp.C14

/-- the cells `< nd` of the row written back by `Rebin` do not depend on the old row -/
theorem rebinRow_lt (nd : Nat) (l : List Rat) (X Y : Nat → Rat) (i : Nat) (hi : i < nd) : rebinRow nd l X i = rebinRow nd l Y i := by
  unfold rebinRow
  split_ifs <;> first | rfl | omega

/-- the grid reset `for(j < ndim) Rebin(ndo/xnd, nd, r, xin, xi, j)` with `ndo = 1`: every row whose
    cell 0 is `1` becomes `rebinRow nd l ·` for the one list `l` computed from the unit grid -/
theorem rebinRows_reset (rc : Rat) (nd : Nat) (r : Nat → Rat) (l : List Rat) (hnd1 : 1 ≤ nd) (hnd : nd ≤ K.ndmx)
    (hl : ∀ (r' xi' : Nat → Rat), (∀ i, i < 1 → r' i = 1) → (∀ i, i < 1 → xi' i = 1) → rebinLoop rc r' xi' K.ndmx (nd - 1) 0 0 0 = some l)
    (hr : ∀ i, i < 1 → r i = 1) :
    ∀ cnt (xi : Nat → Nat → Rat), (∀ j, j < cnt → xi j 0 = 1) →
      ∃ xi2, rebinRows rc nd r cnt xi = some xi2 ∧ (∀ j, j < cnt → xi2 j = rebinRow nd l (xi j)) ∧ (∀ j, cnt ≤ j → xi2 j = xi j) := by
  intro cnt
  induction cnt with
  | zero => intro xi _; exact ⟨xi, rfl, fun j hj => absurd hj (by omega), fun _ _ => rfl⟩
  | succ cnt ih =>
    intro xi hxi
    obtain ⟨xi1, e1, h1, h2⟩ := ih xi (fun j hj => hxi j (by omega))
    have hx0 : ∀ i, i < 1 → xi cnt i = 1 := by
      intro i hi
      have : i = 0 := by omega
      subst this; exact hxi cnt (by omega)
    have hrow : rebin rc nd r (xi1 cnt) K.ndmx = some (rebinRow nd l (xi cnt)) := by
      unfold rebin
      rw [if_neg (by omega), h2 cnt (le_refl _), hl r (xi cnt) hr hx0]
    refine ⟨fun j' => if j' = cnt then rebinRow nd l (xi cnt) else xi1 j', ?_, ?_, ?_⟩
    · simp only [rebinRows]; rw [e1]; simp only []; rw [hrow]
    · intro j hj
      by_cases h : j = cnt
      · subst h; simp
      · simp only [if_neg h]; exact h1 j (by omega)
    · intro j hj
      simp only [if_neg (show ¬ j = cnt by omega)]; exact h2 j (by omega)

end Lp.C14
