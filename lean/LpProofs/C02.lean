/-
  C02 — Find_Root (Ridder's method): property theorems (DESIGN.md §6, C02).
  Statements are about the executable model `Lp.C02.findRoot` (exact rationals, `rnd = id`),
  for every user function `f : Rat → Option Rat` (`none` = NaN) and every square-root parameter
  `sq` with `SqOK sq` (`0 < sq y` and `y ≤ sq y * sq y` for `y > 0`).
  The tie to src/Numerics.cpp is the correspondence run.
-/
import LpProofs.C02.Lemmas
import LpProofs.C02.Frexp
import LpProofs.C02.Sqrt
namespace Lp.C02

/-! ## The loop -/

/-- what holds of the result of the loop started with fuel `n` on a bracket not wider than `W` -/
def LoopPost (f : Rat → Option Rat) (lo hi acc W : Rat) (n : Nat) (R : Res) : Prop :=
  (∀ x ∈ R.evals, lo ≤ x ∧ x ≤ hi) ∧
  (∀ (i : Nat) (h : Head), R.heads[i]? = some h →
      Br f lo hi h.x1 h.x2 h.f1 h.f2 ∧ |h.x2 - h.x1| ≤ W / 2 ^ i) ∧
  (R.out = .nanInside ∨
   (∃ r, R.out = .root r ∧ lo ≤ r ∧ r ≤ hi ∧ (f r = some 0 ∨ Witness f lo hi acc true r)) ∨
   (∃ r, R.out = .maxIter r ∧ Witness f lo hi (W / 2 ^ n) false r))

theorem loop_spec (f : Rat → Option Rat) (sq : Rat → Rat) (hsq : SqOK sq) (lo hi acc : Rat) (n : Nat) :
    ∀ x1 x2 f1 f2 res W : Rat, Br f lo hi x1 x2 f1 f2 → |x2 - x1| ≤ W →
      (n = 0 → res = x1 ∨ res = x2) →
      LoopPost f lo hi acc W n (loop f sq id acc n x1 x2 f1 f2 res) := by
  induction n with
  | zero =>
    intro x1 x2 f1 f2 res W hbr hW hres
    obtain ⟨hf1, hf2, hsc, hl1, hh1, hl2, hh2⟩ := hbr
    have hr := hres rfl
    rw [loop]
    refine ⟨?_, ?_, Or.inr (Or.inr ⟨res, rfl, x1, x2, f1, f2, hf1, hf2, hsc, hr, ?_, hl1, hh1, hl2, hh2⟩)⟩
    · intro x hx
      simp only [List.mem_cons, List.not_mem_nil, or_false] at hx
      subst hx
      rcases hr with rfl | rfl
      · exact ⟨hl1, hh1⟩
      · exact ⟨hl2, hh2⟩
    · intro i h hi'; simp at hi'
    · simpa using hW
  | succ n ih =>
    intro x1 x2 f1 f2 res W hbr hW _
    have hs := step_spec f sq hsq lo hi acc x1 x2 f1 f2 hbr
    rw [loop]
    have hhead0 : Br f lo hi x1 x2 f1 f2 ∧ |x2 - x1| ≤ W / 2 ^ 0 := ⟨hbr, by simpa using hW⟩
    generalize step f sq id acc x1 x2 f1 f2 = st at hs
    cases st with
    | done o ev =>
      obtain ⟨hev, hout⟩ := hs
      refine ⟨hev, ?_, ?_⟩
      · intro i h hi'
        match i with
        | 0 => simp only [List.getElem?_cons_zero, Option.some.injEq] at hi'; subst hi'; exact hhead0
        | i + 1 => simp at hi'
      · rcases hout with h | ⟨r, h1, h2, h3, h4⟩
        · exact Or.inl h
        · exact Or.inr (Or.inl ⟨r, h1, h2, h3, h4⟩)
    | next y1 y2 g1 g2 r ev =>
      obtain ⟨hev, hbr', hw', hr⟩ := hs
      have hW' : |y2 - y1| ≤ W / 2 := by linarith
      obtain ⟨ie, ih', io⟩ := ih y1 y2 g1 g2 r (W / 2) hbr' hW' (fun _ => hr)
      refine ⟨?_, ?_, ?_⟩
      · intro x hx
        simp only [List.mem_append] at hx
        rcases hx with hx | hx
        · exact hev x hx
        · exact ie x hx
      · intro i h hi'
        match i with
        | 0 => simp only [List.getElem?_cons_zero, Option.some.injEq] at hi'; subst hi'; exact hhead0
        | i + 1 =>
          simp only [List.getElem?_cons_succ] at hi'
          obtain ⟨a1, a2⟩ := ih' i h hi'
          refine ⟨a1, ?_⟩
          have : W / 2 / 2 ^ i = W / 2 ^ (i + 1) := by rw [pow_succ]; field_simp
          rw [← this]; exact a2
      · rcases io with h | ⟨r', h1, h2, h3, h4⟩ | ⟨r', h1, h2⟩
        · exact Or.inl h
        · exact Or.inr (Or.inl ⟨r', h1, h2, h3, h4⟩)
        · refine Or.inr (Or.inr ⟨r', h1, ?_⟩)
          have : W / 2 / 2 ^ n = W / 2 ^ (n + 1) := by rw [pow_succ]; field_simp
          rw [← this]; exact h2

/-! ## Find_Root -/

theorem lo_eq_min (xl xr : Rat) : (if xl > xr then xr else xl) = min xl xr := by
  by_cases h : xl > xr
  · rw [if_pos h, min_eq_right (le_of_lt h)]
  · rw [if_neg h, min_eq_left (not_lt.mp h)]

theorem hi_eq_max (xl xr : Rat) : (if xl > xr then xl else xr) = max xl xr := by
  by_cases h : xl > xr
  · rw [if_pos h, max_eq_left (le_of_lt h)]
  · rw [if_neg h, max_eq_right (not_lt.mp h)]

/-- unfolding of `findRoot` in terms of `min`/`max` of the ends -/
theorem findRoot_eq (f : Rat → Option Rat) (sq : Rat → Rat) (xl xr acc : Rat) :
    findRoot f sq xl xr acc =
      match f (min xl xr), f (max xl xr) with
      | some fl, some fr =>
        if fl * fr ≥ 0 then
          if fl = 0 then { out := .root (min xl xr), evals := [min xl xr, max xl xr], heads := [] }
          else if fr = 0 then { out := .root (max xl xr), evals := [min xl xr, max xl xr], heads := [] }
          else { out := .errNoSignChange, evals := [min xl xr, max xl xr], heads := [] }
        else
          let R := loop f sq id acc maxIterations (min xl xr) (max xl xr) fl fr result0
          { out := R.out, evals := min xl xr :: max xl xr :: R.evals, heads := R.heads }
      | _, _ => { out := .errNaN, evals := [min xl xr, max xl xr], heads := [] } := by
  unfold findRoot findRootR
  simp only [lo_eq_min, hi_eq_max]
  rfl

/-- **findRoot_swap**: the ends in either order give the same run (outcome, abscissae, states). -/
theorem findRoot_swap (f : Rat → Option Rat) (sq : Rat → Rat) (xl xr acc : Rat) :
    findRoot f sq xr xl acc = findRoot f sq xl xr acc := by
  rw [findRoot_eq, findRoot_eq, min_comm, max_comm]

/-- **findRoot_nan**: NaN at a bracket end gives the diagnostic outcome, never a number. -/
theorem findRoot_nan (f : Rat → Option Rat) (sq : Rat → Rat) (xl xr acc : Rat)
    (h : f (min xl xr) = none ∨ f (max xl xr) = none) :
    (findRoot f sq xl xr acc).out = .errNaN := by
  rw [findRoot_eq]
  rcases h with h | h
  · rw [h]
  · rw [h]; cases f (min xl xr) <;> rfl

/-- **findRoot_no_sign_change**: equal strict signs at the ends give the diagnostic outcome. -/
theorem findRoot_no_sign_change (f : Rat → Option Rat) (sq : Rat → Rat) (xl xr acc fl fr : Rat)
    (hl : f (min xl xr) = some fl) (hr : f (max xl xr) = some fr) (h : 0 < fl * fr) :
    (findRoot f sq xl xr acc).out = .errNoSignChange := by
  rw [findRoot_eq, hl, hr]
  have h1 : fl ≠ 0 := by rintro rfl; simp at h
  have h2 : fr ≠ 0 := by rintro rfl; simp at h
  simp only [ge_iff_le, le_of_lt h, if_true, if_neg h1, if_neg h2]

/-- **findRoot_end_zero**: a bracket end that is a zero is returned as is (the left one first),
    after exactly the two evaluations at the ends. -/
theorem findRoot_end_zero (f : Rat → Option Rat) (sq : Rat → Rat) (xl xr acc fl fr : Rat)
    (hl : f (min xl xr) = some fl) (hr : f (max xl xr) = some fr) :
    (fl = 0 → (findRoot f sq xl xr acc).out = .root (min xl xr) ∧
        (findRoot f sq xl xr acc).evals = [min xl xr, max xl xr]) ∧
    (fl ≠ 0 → fr = 0 → (findRoot f sq xl xr acc).out = .root (max xl xr) ∧
        (findRoot f sq xl xr acc).evals = [min xl xr, max xl xr]) := by
  rw [findRoot_eq, hl, hr]
  constructor
  · rintro rfl; simp
  · intro h1 h2; subst h2; simp [h1]

/-- the full specification of a run on a bracket with a strict sign change -/
theorem findRoot_spec (f : Rat → Option Rat) (sq : Rat → Rat) (hsq : SqOK sq) (xl xr acc fl fr : Rat)
    (hl : f (min xl xr) = some fl) (hr : f (max xl xr) = some fr) (h : fl * fr < 0) :
    ∃ R, LoopPost f (min xl xr) (max xl xr) acc |xr - xl| maxIterations R ∧
      findRoot f sq xl xr acc = { out := R.out, evals := min xl xr :: max xl xr :: R.evals, heads := R.heads } := by
  refine ⟨loop f sq id acc maxIterations (min xl xr) (max xl xr) fl fr result0, ?_, ?_⟩
  · apply loop_spec f sq hsq
    · exact ⟨hl, hr, h, le_refl _, min_le_max, min_le_max, le_refl _⟩
    · rcases le_total xl xr with hle | hle
      · rw [min_eq_left hle, max_eq_right hle]
      · rw [min_eq_right hle, max_eq_left hle, abs_sub_comm]
    · intro h0; exact absurd h0 (by decide)
  · rw [findRoot_eq, hl, hr]
    simp only [ge_iff_le, not_le.mpr h, if_false]

/-- case analysis of a run: every run is one of the guard outcomes or a loop run -/
theorem findRoot_cases (f : Rat → Option Rat) (sq : Rat → Rat) (hsq : SqOK sq) (xl xr acc : Rat) :
    ((findRoot f sq xl xr acc).heads = [] ∧ (findRoot f sq xl xr acc).evals = [min xl xr, max xl xr] ∧
      ((findRoot f sq xl xr acc).out = .errNaN ∨ (findRoot f sq xl xr acc).out = .errNoSignChange ∨
        ((findRoot f sq xl xr acc).out = .root (min xl xr) ∧ f (min xl xr) = some 0) ∨
        ((findRoot f sq xl xr acc).out = .root (max xl xr) ∧ f (max xl xr) = some 0))) ∨
    (∃ R, LoopPost f (min xl xr) (max xl xr) acc |xr - xl| maxIterations R ∧
      findRoot f sq xl xr acc = { out := R.out, evals := min xl xr :: max xl xr :: R.evals, heads := R.heads }) := by
  cases hl : f (min xl xr) with
  | none =>
    left; rw [findRoot_eq, hl]; exact ⟨rfl, rfl, Or.inl rfl⟩
  | some fl =>
    cases hr : f (max xl xr) with
    | none => left; rw [findRoot_eq, hl, hr]; exact ⟨rfl, rfl, Or.inl rfl⟩
    | some fr =>
      by_cases h : fl * fr < 0
      · right; exact findRoot_spec f sq hsq xl xr acc fl fr hl hr h
      · left
        rw [findRoot_eq, hl, hr]
        simp only [ge_iff_le, not_lt.mp h, if_true]
        by_cases h1 : fl = 0
        · subst h1; simp
        · by_cases h2 : fr = 0
          · subst h2; simp [h1]
          · simp [h1, h2]

/-- **ridder_evals_in_bracket**: for every user function, **every** square root `sq`, **every**
    rounding `rnd` and every positive iteration budget, every abscissa at which `f` is evaluated
    lies in `[min xl xr, max xl xr]` (the iterate is clamped into the current bracket, commit
    008fb03; no hypothesis on `sq` or `rnd`). -/
theorem ridder_evals_in_bracket (f : Rat → Option Rat) (sq rnd : Rat → Rat) (xl xr acc : Rat)
    (fuel : Nat) (hfuel : 0 < fuel) :
    ∀ x ∈ (findRootR f sq rnd xl xr acc fuel).evals, min xl xr ≤ x ∧ x ≤ max xl xr := by
  intro x hx
  have ends : ∀ y, y = min xl xr ∨ y = max xl xr → min xl xr ≤ y ∧ y ≤ max xl xr := by
    rintro y (rfl | rfl)
    · exact ⟨le_refl _, min_le_max⟩
    · exact ⟨min_le_max, le_refl _⟩
  unfold findRootR at hx
  simp only [lo_eq_min, hi_eq_max] at hx
  split at hx
  · split at hx
    · split at hx
      · simp only [List.mem_cons, List.not_mem_nil, or_false] at hx; exact ends x hx
      · split at hx <;> (simp only [List.mem_cons, List.not_mem_nil, or_false] at hx; exact ends x hx)
    · simp only [List.mem_cons] at hx
      rcases hx with h | h | h
      · exact ends x (Or.inl h)
      · exact ends x (Or.inr h)
      · exact loop_hull f sq rnd _ _ acc fuel _ _ _ _ _
          ⟨le_refl _, min_le_max, min_le_max, le_refl _⟩ (fun h0 => absurd h0 (by omega)) x h
  · simp only [List.mem_cons, List.not_mem_nil, or_false] at hx; exact ends x hx

/-- the instance the other theorems are about: exact arithmetic, 2200 iterations -/
theorem findRoot_evals_in_bracket (f : Rat → Option Rat) (sq : Rat → Rat) (xl xr acc : Rat) :
    ∀ x ∈ (findRoot f sq xl xr acc).evals, min xl xr ≤ x ∧ x ≤ max xl xr :=
  ridder_evals_in_bracket f sq id xl xr acc maxIterations (by decide)

/-- **ridder_invariant**: at the head of every iteration `f1·f2 < 0` with `f1 = f x1`, `f2 = f x2`,
    both ends inside the initial bracket, and the bracket has at most half the width of the
    previous one (`|x2 − x1| ≤ |xr − xl| / 2^i` at iteration `i`); the
    "does not reach the root" exit is unreachable. -/
theorem ridder_invariant (f : Rat → Option Rat) (sq : Rat → Rat) (hsq : SqOK sq) (xl xr acc : Rat) :
    (∀ (i : Nat) (h : Head), (findRoot f sq xl xr acc).heads[i]? = some h →
        f h.x1 = some h.f1 ∧ f h.x2 = some h.f2 ∧ h.f1 * h.f2 < 0 ∧
        min xl xr ≤ h.x1 ∧ h.x1 ≤ max xl xr ∧ min xl xr ≤ h.x2 ∧ h.x2 ≤ max xl xr ∧
        |h.x2 - h.x1| ≤ |xr - xl| / 2 ^ i) ∧
    (findRoot f sq xl xr acc).out ≠ .errStuck := by
  rcases findRoot_cases f sq hsq xl xr acc with ⟨hh, _, ho⟩ | ⟨R, hp, he⟩
  · refine ⟨?_, ?_⟩
    · intro i h hi'; rw [hh] at hi'; simp at hi'
    · rcases ho with h | h | ⟨h, _⟩ | ⟨h, _⟩ <;> rw [h] <;> simp
  · rw [he]
    refine ⟨?_, ?_⟩
    · intro i h hi'
      obtain ⟨⟨a1, a2, a3, a4, a5, a6, a7⟩, hw⟩ := hp.2.1 i h hi'
      exact ⟨a1, a2, a3, a4, a5, a6, a7, hw⟩
    · rcases hp.2.2 with h | ⟨r, h, _⟩ | ⟨r, h, _⟩ <;> simp only [h] <;> simp

/-- **findRoot_accuracy** (full clause): if the run returns `r` normally then `r` lies in the
    bracket and either `f r = 0`, or `r` is an end of an interval `[u,v]` inside the bracket with
    `f u · f v < 0` and `|v − u| < acc` — a sign change of `f` within `acc` of `r`. -/
theorem findRoot_accuracy (f : Rat → Option Rat) (sq : Rat → Rat) (hsq : SqOK sq) (xl xr acc r : Rat)
    (hret : (findRoot f sq xl xr acc).out = .root r) :
    min xl xr ≤ r ∧ r ≤ max xl xr ∧
      (f r = some 0 ∨ Witness f (min xl xr) (max xl xr) acc true r) := by
  rcases findRoot_cases f sq hsq xl xr acc with ⟨_, _, ho⟩ | ⟨R, hp, he⟩
  · rcases ho with h | h | ⟨h, hz⟩ | ⟨h, hz⟩
    · rw [h] at hret; cases hret
    · rw [h] at hret; cases hret
    · rw [h] at hret; cases hret; exact ⟨le_refl _, min_le_max, Or.inl hz⟩
    · rw [h] at hret; cases hret; exact ⟨min_le_max, le_refl _, Or.inl hz⟩
  · rw [he] at hret
    simp only at hret
    rcases hp.2.2 with h | ⟨r', h, h1, h2, h3⟩ | ⟨r', h, _⟩
    · rw [h] at hret; cases hret
    · rw [h] at hret; cases hret; exact ⟨h1, h2, h3⟩
    · rw [h] at hret; cases hret

/-- **findRoot_maxiter_bound**: if the 2200 iterations are used up, the returned iterate is an end of
    an interval with a sign change not wider than `|xr − xl| / 2^2200`. -/
theorem findRoot_maxiter_bound (f : Rat → Option Rat) (sq : Rat → Rat) (hsq : SqOK sq) (xl xr acc r : Rat)
    (hret : (findRoot f sq xl xr acc).out = .maxIter r) :
    Witness f (min xl xr) (max xl xr) (|xr - xl| / 2 ^ 2200) false r := by
  rcases findRoot_cases f sq hsq xl xr acc with ⟨_, _, ho⟩ | ⟨R, hp, he⟩
  · rcases ho with h | h | ⟨h, _⟩ | ⟨h, _⟩ <;> rw [h] at hret <;> cases hret
  · rw [he] at hret
    simp only at hret
    rcases hp.2.2 with h | ⟨r', h, _⟩ | ⟨r', h, hw⟩
    · rw [h] at hret; cases hret
    · rw [h] at hret; cases hret
    · rw [h] at hret; cases hret; exact hw

/-- **findRoot_sign_change_returns**: a bracket with a sign change (or a zero end) never gives a
    diagnostic outcome: the run returns a number (or meets a NaN inside, which is not modelled). -/
theorem findRoot_sign_change_returns (f : Rat → Option Rat) (sq : Rat → Rat) (hsq : SqOK sq)
    (xl xr acc fl fr : Rat) (hl : f (min xl xr) = some fl) (hr : f (max xl xr) = some fr)
    (h : fl * fr ≤ 0) :
    (∃ r, (findRoot f sq xl xr acc).out = .root r) ∨ (∃ r, (findRoot f sq xl xr acc).out = .maxIter r) ∨
      (findRoot f sq xl xr acc).out = .nanInside := by
  rcases lt_or_eq_of_le h with hlt | heq
  · obtain ⟨R, hp, he⟩ := findRoot_spec f sq hsq xl xr acc fl fr hl hr hlt
    rw [he]
    rcases hp.2.2 with h | ⟨r, h, _⟩ | ⟨r, h, _⟩
    · exact Or.inr (Or.inr h)
    · exact Or.inl ⟨r, h⟩
    · exact Or.inr (Or.inl ⟨r, h⟩)
  · have hz := findRoot_end_zero f sq xl xr acc fl fr hl hr
    by_cases h1 : fl = 0
    · exact Or.inl ⟨_, (hz.1 h1).1⟩
    · have h2 : fr = 0 := by
        rcases mul_eq_zero.mp heq with h | h
        · exact absurd h h1
        · exact h
      exact Or.inl ⟨_, (hz.2 h1 h2).1⟩

/-! ## Linear functions are solved exactly -/

/-- **findRoot_linear_exact**: for `f x = m·x + q`, `m ≠ 0`, with a square root that is exact on
    squares (`sq (t·t) = |t|`), the first Ridder iterate is the exact root `−q/m` and is returned
    after four evaluations (the two ends, the midpoint, the root). -/
theorem findRoot_linear_exact (sq : Rat → Rat) (hsq : ∀ t : Rat, sq (t * t) = |t|)
    (m q xl xr acc : Rat) (hm : m ≠ 0)
    (hsc : (m * min xl xr + q) * (m * max xl xr + q) < 0) :
    (findRoot (fun x => some (m * x + q)) sq xl xr acc).out = .root (-q / m) ∧
    (findRoot (fun x => some (m * x + q)) sq xl xr acc).evals
      = [min xl xr, max xl xr, (min xl xr + max xl xr) / 2, -q / m] := by
  rw [findRoot_eq]
  simp only [ge_iff_le, not_le.mpr hsc, if_false]
  set lo := min xl xr
  set hi := max xl xr
  have hlh : lo ≤ hi := min_le_max
  -- the root lies strictly inside
  have hprod : (m * lo + q) * (m * hi + q) = (m * m) * ((lo - -q / m) * (hi - -q / m)) := by
    field_simp; ring
  have hmm : 0 < m * m := mul_self_pos.mpr hm
  have hin : (lo - -q / m) * (hi - -q / m) < 0 := by
    by_contra hn; push Not at hn
    have := mul_nonneg (le_of_lt hmm) hn
    linarith
  have hlo : lo ≤ -q / m := by
    by_contra hn; push Not at hn
    have : 0 ≤ (lo - -q / m) * (hi - -q / m) := mul_nonneg (by linarith) (by linarith)
    linarith
  have hhi : -q / m ≤ hi := by
    by_contra hn; push Not at hn
    have : 0 ≤ (lo - -q / m) * (hi - -q / m) := mul_nonneg_of_nonpos_of_nonpos (by linarith) (by linarith)
    linarith
  have hne : lo ≠ hi := by
    rintro h; rw [h] at hsc; nlinarith [mul_self_nonneg (m * hi + q)]
  -- the first iterate
  have hx4 : ridderX4 sq id lo (m * lo + q) (m * hi + q) ((lo + hi) / 2) (m * ((lo + hi) / 2) + q) = -q / m := by
    have hD : (m * ((lo + hi) / 2) + q) * (m * ((lo + hi) / 2) + q) - (m * lo + q) * (m * hi + q)
        = ((m * (lo - hi)) / 2) * ((m * (lo - hi)) / 2) := by ring
    have hd : (m * lo + q) - (m * hi + q) = m * (lo - hi) := by ring
    have hdne0 : m * (lo - hi) / 2 ≠ 0 := by
      have := mul_ne_zero hm (sub_ne_zero.mpr hne)
      intro h0; apply this; linarith
    -- the scaling by a power of two does not change the iterate (ridder_scale_invariant)
    have hc := ridderScale_pos (m * lo + q) (m * hi + q) (m * ((lo + hi) / 2) + q)
    rw [ridder_scale_invariant sq _ _ _ _ _ (by rw [hD, hsq]; exact abs_pos.mpr hdne0)
      (by
        rw [hD]
        have : ridderScale (m * lo + q) (m * hi + q) (m * ((lo + hi) / 2) + q) *
            ridderScale (m * lo + q) (m * hi + q) (m * ((lo + hi) / 2) + q) *
            (m * (lo - hi) / 2 * (m * (lo - hi) / 2))
            = (ridderScale (m * lo + q) (m * hi + q) (m * ((lo + hi) / 2) + q) * (m * (lo - hi) / 2)) *
              (ridderScale (m * lo + q) (m * hi + q) (m * ((lo + hi) / 2) + q) * (m * (lo - hi) / 2)) := by ring
        rw [this, hsq, hsq, abs_mul, abs_of_pos hc])]
    rw [hD, hsq, hd]
    have hdne : m * (lo - hi) ≠ 0 := mul_ne_zero hm (sub_ne_zero.mpr hne)
    rcases lt_or_gt_of_ne hdne with hneg | hpos
    · rw [sign1_neg hneg, abs_of_neg (by linarith)]
      have : -(m * (lo - hi) / 2) ≠ 0 := by linarith
      field_simp
      push_cast
      ring
    · rw [sign1_pos hpos, abs_of_pos (by linarith)]
      have : m * (lo - hi) / 2 ≠ 0 := by linarith
      field_simp
      push_cast
      ring
  have h50 : maxIterations = 2199 + 1 := rfl
  rw [h50, loop]
  unfold step
  simp only []
  rw [hx4, clampX4_of_mem lo hi _ (by rw [min_eq_left hlh]; exact hlo) (by rw [max_eq_right hlh]; exact hhi)]
  have hz : m * (-q / m) + q = 0 := by field_simp; ring
  simp only [hz, if_true]
  and_intros <;> first | trivial | rfl

/-! ## The driver's square root is an instance of the hypotheses

  `Driver/C02.lean` runs `findRootR fn.eval sqrtRat (rndK 200) …`.  `sqrtRat` (LpModel/C02.lean) returns the
  exact root when numerator and denominator are perfect squares and otherwise `(⌊√⌊y·4^k⌋⌋ + 1)/2^k`, i.e. it
  rounds UP (never to nearest), so `SqOK` holds of it, and it is exact on squares.  The theorems above therefore
  apply to the very `sq` the driver passes (they are about exact arithmetic, `rnd = id`; the driver's
  `rnd = rndK 200` of the iterate stays a correspondence matter). -/

/-- **`SqOK` holds of the driver's square root** -/
theorem sqrtRat_sqOK : SqOK sqrtRat := sqrtRat_SqOK

/-- **the driver's square root is exact on squares** (hypothesis of `findRoot_linear_exact`) -/
theorem sqrtRat_sq_exact (t : Rat) : sqrtRat (t * t) = |t| := sqrtRat_exact_on_squares t

/-- it rounds strictly up whenever it is not exact (scaling-independent statement of the rounded branch) -/
theorem sqrtRat_round_up (y : Rat) (hy : 0 < y) (k : Int) :
    y < ((Nat.sqrt (y * Lp.pow2 (2 * k)).floor.toNat + 1 : Nat) : Rat) / Lp.pow2 k *
        (((Nat.sqrt (y * Lp.pow2 (2 * k)).floor.toNat + 1 : Nat) : Rat) / Lp.pow2 k) :=
  (sqrt_round_branch y hy k).2

example : sqrtRat (9 / 4) = 3 / 2 := by
  rw [show (9 / 4 : Rat) = (3 / 2) * (3 / 2) by norm_num, sqrtRat_sq_exact, abs_of_pos (by norm_num)]

example : (0 : Rat) < sqrtRat 2 ∧ (2 : Rat) ≤ sqrtRat 2 * sqrtRat 2 := sqrtRat_sqOK 2 (by norm_num)

/-- the theorems instantiated at the driver's square root -/
theorem ridder_invariant_driver (f : Rat → Option Rat) (xl xr acc : Rat) :
    (∀ (i : Nat) (h : Head), (findRoot f sqrtRat xl xr acc).heads[i]? = some h →
        f h.x1 = some h.f1 ∧ f h.x2 = some h.f2 ∧ h.f1 * h.f2 < 0 ∧
        min xl xr ≤ h.x1 ∧ h.x1 ≤ max xl xr ∧ min xl xr ≤ h.x2 ∧ h.x2 ≤ max xl xr ∧
        |h.x2 - h.x1| ≤ |xr - xl| / 2 ^ i) ∧
    (findRoot f sqrtRat xl xr acc).out ≠ .errStuck := ridder_invariant f sqrtRat sqrtRat_SqOK xl xr acc

theorem findRoot_accuracy_driver (f : Rat → Option Rat) (xl xr acc r : Rat)
    (hret : (findRoot f sqrtRat xl xr acc).out = .root r) :
    min xl xr ≤ r ∧ r ≤ max xl xr ∧ (f r = some 0 ∨ Witness f (min xl xr) (max xl xr) acc true r) :=
  findRoot_accuracy f sqrtRat sqrtRat_SqOK xl xr acc r hret

theorem findRoot_maxiter_bound_driver (f : Rat → Option Rat) (xl xr acc r : Rat)
    (hret : (findRoot f sqrtRat xl xr acc).out = .maxIter r) :
    Witness f (min xl xr) (max xl xr) (|xr - xl| / 2 ^ 2200) false r :=
  findRoot_maxiter_bound f sqrtRat sqrtRat_SqOK xl xr acc r hret

theorem findRoot_sign_change_returns_driver (f : Rat → Option Rat) (xl xr acc fl fr : Rat)
    (hl : f (min xl xr) = some fl) (hr : f (max xl xr) = some fr) (h : fl * fr ≤ 0) :
    (∃ r, (findRoot f sqrtRat xl xr acc).out = .root r) ∨ (∃ r, (findRoot f sqrtRat xl xr acc).out = .maxIter r) ∨
      (findRoot f sqrtRat xl xr acc).out = .nanInside :=
  findRoot_sign_change_returns f sqrtRat sqrtRat_SqOK xl xr acc fl fr hl hr h

theorem findRoot_linear_exact_driver (m q xl xr acc : Rat) (hm : m ≠ 0)
    (hsc : (m * min xl xr + q) * (m * max xl xr + q) < 0) :
    (findRoot (fun x => some (m * x + q)) sqrtRat xl xr acc).out = .root (-q / m) ∧
    (findRoot (fun x => some (m * x + q)) sqrtRat xl xr acc).evals
      = [min xl xr, max xl xr, (min xl xr + max xl xr) / 2, -q / m] :=
  findRoot_linear_exact sqrtRat sqrtRat_exact_on_squares m q xl xr acc hm hsc

-- non-vacuity: `2x − 1` on `[0, 2]` with the driver's square root
example : (findRoot (fun x => some (2 * x + -1)) sqrtRat 0 2 (1 / 1000)).out = .root (1 / 2) := by
  have h := (findRoot_linear_exact_driver 2 (-1) 0 2 (1 / 1000) (by norm_num) (by norm_num)).1
  rw [h]; norm_num

/-! ## Non-vacuity -/

/-- `SqOK` is satisfiable, even by a very crude "square root" -/
example : SqOK (fun y => y + 1) := by
  intro y hy
  exact ⟨by linarith, by nlinarith⟩

/-- a square root that is exact on squares exists (hypothesis of `findRoot_linear_exact`) -/
example : ∃ sq : Rat → Rat, ∀ t : Rat, sq (t * t) = |t| := by
  classical
  refine ⟨fun y => if h : ∃ t : Rat, t * t = y then |Classical.choose h| else 0, ?_⟩
  intro t
  have h : ∃ s : Rat, s * s = t * t := ⟨t, rfl⟩
  simp only [dif_pos h]
  have hc := Classical.choose_spec h
  exact abs_eq_abs.mpr (mul_self_eq_mul_self_iff.mp hc)

/-- a concrete bracket meeting the hypotheses of `findRoot_linear_exact`: `2x − 1` on `[0, 2]` -/
example (sq : Rat → Rat) (hsq : ∀ t : Rat, sq (t * t) = |t|) :
    (findRoot (fun x => some (2 * x + -1)) sq 0 2 (1 / 1000)).out = .root (1 / 2) := by
  have h := (findRoot_linear_exact sq hsq 2 (-1) 0 2 (1 / 1000) (by norm_num) (by norm_num)).1
  rw [h]; norm_num

/-- a concrete run meeting the hypotheses of `findRoot_accuracy` (zero end) -/
example (sq : Rat → Rat) : (findRoot (fun x => some (x - 1)) sq 1 2 (1 / 10)).out = .root 1 := by
  have h := (findRoot_end_zero (fun x => some (x - 1)) sq 1 2 (1 / 10) 0 1 (by norm_num) (by norm_num)).1 rfl
  rw [h.1]; norm_num


/-- **midpoint_overflow_branch_noop** (commit 8bf0489): the alternative midpoint `x1/2 + x2/2`, which the
    code takes when the double sum `x1 + x2` overflows, is the same number as `(x1 + x2)/2`: the branch is
    value-neutral over the rationals and every theorem about the midpoint holds for either form. -/
theorem midpoint_overflow_branch_noop (x1 x2 : Rat) : x1 / 2 + x2 / 2 = (x1 + x2) / 2 := by ring

/-! ## The decision table of the end-value checks -/

/-- class of the value of the user function at a bracket end (`none` = NaN) -/
inductive EndVal where
  | neg | pos | zero | nan
  deriving DecidableEq, Repr

def classify : Option Rat → EndVal
  | none => .nan
  | some v => if v < 0 then .neg else if v = 0 then .zero else .pos

/-- what the checks before the loop decide -/
inductive Guard where
  | diagNaN            -- "Function returns nan at the brackets", exit
  | diagNoSignChange   -- "f(xLeft) * f(xRight) > 0", exit
  | retLeft            -- return xLeft
  | retRight           -- return xRight
  | enterLoop          -- Ridder's loop
  deriving DecidableEq, Repr

/-- the decision table: NaN at either end wins over everything (also over an exact zero at the other
    end); then a zero end is returned, the left one first; then equal signs stop with the diagnostic. -/
def guardTable : EndVal → EndVal → Guard
  | .nan, _ => .diagNaN
  | _, .nan => .diagNaN
  | .zero, _ => .retLeft
  | _, .zero => .retRight
  | .neg, .neg => .diagNoSignChange
  | .pos, .pos => .diagNoSignChange
  | .neg, .pos => .enterLoop
  | .pos, .neg => .enterLoop

/-- **findRoot_guard_table**: for every user function, square root, rounding and iteration budget the
    checks before the loop follow `guardTable` on the classes of the two end values; in particular
    the run stops with the NaN diagnostic whenever either end value is NaN, whatever the other is.
    In the four non-loop cases exactly the two ends are evaluated. -/
theorem findRoot_guard_table (f : Rat → Option Rat) (sq rnd : Rat → Rat) (xl xr acc : Rat) (fuel : Nat) :
    let lo := min xl xr
    let hi := max xl xr
    let R := findRootR f sq rnd xl xr acc fuel
    match guardTable (classify (f lo)) (classify (f hi)) with
    | .diagNaN => R.out = .errNaN ∧ R.evals = [lo, hi]
    | .diagNoSignChange => R.out = .errNoSignChange ∧ R.evals = [lo, hi]
    | .retLeft => R.out = .root lo ∧ R.evals = [lo, hi]
    | .retRight => R.out = .root hi ∧ R.evals = [lo, hi]
    | .enterLoop => ∃ fl fr, f lo = some fl ∧ f hi = some fr ∧ fl * fr < 0 ∧
        R.out = (loop f sq rnd acc fuel lo hi fl fr result0).out := by
  intro lo hi R
  have hR : R = findRootR f sq rnd xl xr acc fuel := rfl
  unfold findRootR at hR
  simp only [lo_eq_min, hi_eq_max] at hR
  change R = (match f lo, f hi with
      | some fl, some fr =>
        if fl * fr ≥ 0 then
          if fl = 0 then { out := .root lo, evals := [lo, hi], heads := [] }
          else if fr = 0 then { out := .root hi, evals := [lo, hi], heads := [] }
          else { out := .errNoSignChange, evals := [lo, hi], heads := [] }
        else
          let R := loop f sq rnd acc fuel lo hi fl fr result0
          { out := R.out, evals := lo :: hi :: R.evals, heads := R.heads }
      | _, _ => { out := .errNaN, evals := [lo, hi], heads := [] }) at hR
  cases hl : f lo with
  | none =>
    rw [hl] at hR
    simp only [classify, guardTable]
    rw [hR]; exact ⟨rfl, rfl⟩
  | some fl =>
    cases hr : f hi with
    | none =>
      rw [hl, hr] at hR
      have : guardTable (classify (some fl)) (classify none) = .diagNaN := by
        simp only [classify]; split_ifs <;> rfl
      rw [this, hR]; exact ⟨rfl, rfl⟩
    | some fr =>
      rw [hl, hr] at hR
      simp only at hR
      rcases lt_trichotomy fl 0 with h1 | h1 | h1
      · rcases lt_trichotomy fr 0 with h2 | h2 | h2
        · have hc : guardTable (classify (some fl)) (classify (some fr)) = .diagNoSignChange := by
            simp [classify, h1, h2, guardTable]
          have hp : fl * fr ≥ 0 := le_of_lt (mul_pos_of_neg_of_neg h1 h2)
          rw [hc, hR, if_pos hp, if_neg (ne_of_lt h1), if_neg (ne_of_lt h2)]; exact ⟨rfl, rfl⟩
        · subst h2
          have hc : guardTable (classify (some fl)) (classify (some 0)) = .retRight := by
            simp [classify, h1, guardTable]
          rw [hc, hR, if_pos (by simp), if_neg (ne_of_lt h1), if_pos rfl]; exact ⟨rfl, rfl⟩
        · have hc : guardTable (classify (some fl)) (classify (some fr)) = .enterLoop := by
            simp [classify, h1, not_lt.mpr (le_of_lt h2), (ne_of_gt h2), guardTable]
          have hp : ¬ fl * fr ≥ 0 := not_le.mpr (mul_neg_of_neg_of_pos h1 h2)
          rw [hc, hR, if_neg hp]
          exact ⟨fl, fr, rfl, rfl, mul_neg_of_neg_of_pos h1 h2, rfl⟩
      · subst h1
        have hc : guardTable (classify (some 0)) (classify (some fr)) = .retLeft := by
          simp only [classify]; split_ifs <;> simp_all [guardTable]
        rw [hc, hR, if_pos (by simp), if_pos rfl]; exact ⟨rfl, rfl⟩
      · rcases lt_trichotomy fr 0 with h2 | h2 | h2
        · have hc : guardTable (classify (some fl)) (classify (some fr)) = .enterLoop := by
            simp [classify, h2, not_lt.mpr (le_of_lt h1), (ne_of_gt h1), guardTable]
          have hp : ¬ fl * fr ≥ 0 := not_le.mpr (mul_neg_of_pos_of_neg h1 h2)
          rw [hc, hR, if_neg hp]
          exact ⟨fl, fr, rfl, rfl, mul_neg_of_pos_of_neg h1 h2, rfl⟩
        · subst h2
          have hc : guardTable (classify (some fl)) (classify (some 0)) = .retRight := by
            simp [classify, not_lt.mpr (le_of_lt h1), (ne_of_gt h1), guardTable]
          rw [hc, hR, if_pos (by simp), if_neg (ne_of_gt h1), if_pos rfl]; exact ⟨rfl, rfl⟩
        · have hc : guardTable (classify (some fl)) (classify (some fr)) = .diagNoSignChange := by
            simp [classify, not_lt.mpr (le_of_lt h1), (ne_of_gt h1), not_lt.mpr (le_of_lt h2), (ne_of_gt h2), guardTable]
          have hp : fl * fr ≥ 0 := le_of_lt (mul_pos h1 h2)
          rw [hc, hR, if_pos hp, if_neg (ne_of_gt h1), if_neg (ne_of_gt h2)]; exact ⟨rfl, rfl⟩

/-- the clause seeded change C02-k breaks: NaN at one end and an exact zero at the other still stops
    with the NaN diagnostic -/
theorem findRoot_nan_beats_zero (f : Rat → Option Rat) (sq rnd : Rat → Rat) (xl xr acc : Rat) (fuel : Nat)
    (h : f (min xl xr) = none ∨ f (max xl xr) = none) :
    (findRootR f sq rnd xl xr acc fuel).out = .errNaN := by
  have t := findRoot_guard_table f sq rnd xl xr acc fuel
  simp only at t
  have hc : guardTable (classify (f (min xl xr))) (classify (f (max xl xr))) = .diagNaN := by
    rcases h with h | h
    · rw [h]; rfl
    · rw [h]; cases classify (f (min xl xr)) <;> rfl
  rw [hc] at t
  exact t.1

/-- non-vacuity: zero at the left end, NaN at the right end -/
example (sq rnd : Rat → Rat) :
    (findRootR (fun x => if x = 2 then none else some x) sq rnd 0 2 (1 / 10) 2200).out = .errNaN :=
  findRoot_nan_beats_zero _ sq rnd 0 2 (1 / 10) 2200 (Or.inr (by norm_num))

end Lp.C02
