import LpModel.C02
namespace Lp.C02
end Lp.C02
