/-
  C20 — the BYTES `Export_Table` writes, as lines of tab-separated six-digit renderings, and what the
  import side (`lexFile`, `countLines`, `readAllC`, `lexLines`) makes of them.
-/
import LpModel.C20
import LpProofs.C20.IO
import LpProofs.C20.Lex
namespace Lp.C20
open Lp.Dec

/-! ### the characters of one value -/

theorem fmt6_chars (y : ℚ) : ∀ c ∈ fmt6 y, OkChar c := by
  intro c hc
  unfold fmt6 tokOf at hc
  split at hc
  · simp only [Tok.chars, List.mem_singleton] at hc
    subst hc; exact Or.inl (by decide)
  · exact render_chars _ c hc

theorem fmt6_ne_nil (y : ℚ) : fmt6 y ≠ [] := by
  unfold fmt6 tokOf
  split
  · simp [Tok.chars]
  · exact render_ne_nil _

/-- **render_no_separator**: what `ostream << x` writes is not empty and consists of digits, `-`,
    `+`, `.`, `e` only — no blank, tab, line feed (or other white space) inside a value -/
theorem fmt6_noWs (y : ℚ) : fmt6 y ≠ [] ∧ NoWs (fmt6 y) ∧ NoNl (fmt6 y) :=
  ⟨fmt6_ne_nil y, fun c hc => okChar_not_ws (fmt6_chars y c hc), fun c hc => okChar_ne_nl (fmt6_chars y c hc)⟩

/-- the characters of the token written for `y` read back as the token's value -/
theorem parseDec_tokOf (y : ℚ) : parseDec (tokOf y).chars = some (tokVal (tokOf y)) := by
  by_cases hy : y = 0
  · simp only [tokOf, hy, if_true, Tok.chars, tokVal, Tok.value, Option.getD_some]
    exact parseDec_zero
  · obtain ⟨d, hd, _, _, hm⟩ := tokOf_bound y hy
    rw [hd]
    simp only [Tok.chars, tokVal, Tok.value, Option.getD_some]
    exact parseDec_render d (by omega)

theorem parseDec_tokOf_value (y : ℚ) : parseDec (tokOf y).chars = (tokOf y).value := by
  rw [parseDec_tokOf]
  obtain ⟨v, hv⟩ := tokOf_value_some y
  simp [tokVal, hv]

theorem mem_exportRowT {dims row : List ℚ} {t : Tok} (ht : t ∈ exportRowT dims row) : ∃ y, t = tokOf y := by
  unfold exportRowT at ht
  obtain ⟨i, hi, rfl⟩ := List.mem_iff_getElem.mp ht
  simp only [List.getElem_zipWith]
  exact ⟨_, rfl⟩

/-! ### one row, all rows -/

/-- unit factor of column `j` as `Export_Table` picks it -/
def unitAt (dims : List ℚ) (j : ℕ) : ℚ := if dims.isEmpty then 1 else dims.getD j 1

/-- the renderings of the entries of a row, from column `j` on -/
def rowToksC (dims : List ℚ) : List ℚ → ℕ → List (List Char)
  | [], _ => []
  | x :: r, j => fmt6 (x / unitAt dims j) :: rowToksC dims r (j + 1)

theorem mem_rowToksC {dims : List ℚ} {t : List Char} : ∀ {row : List ℚ} {j : ℕ}, t ∈ rowToksC dims row j →
    ∃ y, t = fmt6 y := by
  intro row
  induction row with
  | nil => intro j h; simp [rowToksC] at h
  | cons x r ih =>
    intro j h
    simp only [rowToksC, List.mem_cons] at h
    rcases h with h | h
    · exact ⟨_, h⟩
    · exact ih h

theorem rowToksC_length (dims : List ℚ) : ∀ (row : List ℚ) (j : ℕ), (rowToksC dims row j).length = row.length := by
  intro row
  induction row with
  | nil => intro j; rfl
  | cons x r ih => intro j; simp [rowToksC, ih]

/-- a row as coded = its renderings joined by tabs, then a line feed unless it is the last row -/
theorem exportRowC_eq (dims : List ℚ) (lastRow : Bool) : ∀ (row : List ℚ) (j : ℕ), row ≠ [] →
    exportRowC dims lastRow row j
      = joinWith '\t' (rowToksC dims row j) ++ (if lastRow then [] else [nl]) := by
  intro row
  induction row with
  | nil => intro j h; exact absurd rfl h
  | cons x r ih =>
    intro j _
    cases r with
    | nil =>
      simp only [exportRowC, rowToksC, joinWith, unitAt, List.isEmpty_nil, Bool.not_true,
        Bool.false_eq_true, if_false, List.append_nil]
      cases lastRow <;> simp
    | cons y r' =>
      have h2 := ih (j + 1) (by simp)
      have hne : rowToksC dims (y :: r') (j + 1) ≠ [] := by simp [rowToksC]
      have e : rowToksC dims (x :: y :: r') j = fmt6 (x / unitAt dims j) :: rowToksC dims (y :: r') (j + 1) := rfl
      rw [e, joinWith_cons _ hne, exportRowC, h2]
      simp [unitAt, rowToksC]

theorem joinWith_ne_nil {sep : Char} {a : List Char} (l : List (List Char)) (h : a ≠ []) :
    joinWith sep (a :: l) ≠ [] := by
  cases l with
  | nil => simpa [joinWith] using h
  | cons b r => rw [joinWith_cons a (by simp)]; simp [h]

/-- the line of a row: its renderings joined by tabs -/
def rowLine (dims : List ℚ) (row : List ℚ) : List Char := joinWith '\t' (rowToksC dims row 0)

theorem rowLine_ne_nil (dims : List ℚ) {row : List ℚ} (h : row ≠ []) : rowLine dims row ≠ [] := by
  obtain ⟨x, r, rfl⟩ := List.exists_cons_of_ne_nil h
  unfold rowLine
  rw [rowToksC]
  exact joinWith_ne_nil _ (fmt6_ne_nil _)

theorem rowLine_noNl (dims : List ℚ) (row : List ℚ) : NoNl (rowLine dims row) := by
  intro c hc
  rcases mem_joinWith hc with h | ⟨t, ht, hct⟩
  · subst h; decide
  · obtain ⟨y, rfl⟩ := mem_rowToksC ht
    exact (fmt6_noWs y).2.2 c hct

/-- **line_tokenize** (one line): splitting the line of a row on white space returns exactly the
    renderings of its entries -/
theorem splitWs_rowLine (dims : List ℚ) (row : List ℚ) :
    splitWs (rowLine dims row) [] = rowToksC dims row 0 := by
  apply splitWs_joinWith_tokens '\t' (by decide)
  intro t ht
  obtain ⟨y, rfl⟩ := mem_rowToksC ht
  exact ⟨(fmt6_noWs y).1, (fmt6_noWs y).2.1⟩

/-- all rows as coded = the row lines joined by line feeds -/
theorem exportRowsC_eq (dims : List ℚ) : ∀ data : List (List ℚ), data ≠ [] → (∀ row ∈ data, row ≠ []) →
    (∀ row ∈ data, ¬(!dims.isEmpty ∧ dims.length ≠ row.length)) →
    exportRowsC dims data = .ok (joinWith nl (data.map (rowLine dims))) := by
  intro data
  induction data with
  | nil => intro h; exact absurd rfl h
  | cons row r ih =>
    intro _ hne hg
    have hrow := hne row (by simp)
    cases r with
    | nil =>
      rw [exportRowsC, if_neg (hg row (by simp)), exportRowC_eq dims _ row 0 hrow]
      simp [exportRowsC, joinWith, rowLine, bind, Except.bind, pure, Except.pure]
    | cons row2 r' =>
      have h2 := ih (by simp) (fun x hx => hne x (List.mem_cons_of_mem _ hx))
        (fun x hx => hg x (List.mem_cons_of_mem _ hx))
      rw [exportRowsC, if_neg (hg row (by simp)), h2, exportRowC_eq dims _ row 0 hrow]
      show _ = Except.ok (joinWith nl (rowLine dims row :: (List.map (rowLine dims) (row2 :: r'))))
      rw [joinWith_cons _ (by simp)]
      simp [rowLine, bind, Except.bind, pure, Except.pure]

/-! ### character level = token level, entry by entry -/

theorem rowToksC_nil_dims : ∀ (row : List ℚ) (j : ℕ),
    rowToksC [] row j = (List.zipWith (fun x u => tokOf (x / u)) row (row.map (fun _ => (1 : ℚ)))).map Tok.chars := by
  intro row
  induction row with
  | nil => intro j; rfl
  | cons x r ih => intro j; simp [rowToksC, unitAt, fmt6, ih]

theorem rowToksC_dims (dims : List ℚ) (hne : dims ≠ []) : ∀ (row : List ℚ) (j : ℕ), j + row.length ≤ dims.length →
    rowToksC dims row j = (List.zipWith (fun x u => tokOf (x / u)) row (dims.drop j)).map Tok.chars := by
  intro row
  induction row with
  | nil => intro j _; rfl
  | cons x r ih =>
    intro j hj
    have hj' : j < dims.length := by simp at hj; omega
    have he : dims.isEmpty = false := by cases dims with | nil => exact absurd rfl hne | cons _ _ => rfl
    rw [List.drop_eq_getElem_cons hj', List.zipWith_cons_cons, List.map_cons, rowToksC,
      ih (j + 1) (by simp at hj; omega)]
    congr 1
    simp [unitAt, he, fmt6, List.getD_eq_getElem?_getD, hj']

/-- the renderings of a row are the characters of the token-level row -/
theorem rowToksC_eq_T (dims : List ℚ) (row : List ℚ) (hd : dims = [] ∨ dims.length = row.length) :
    rowToksC dims row 0 = (exportRowT dims row).map Tok.chars := by
  unfold exportRowT unitRow
  by_cases hne : dims = []
  · subst hne; simpa using rowToksC_nil_dims row 0
  · have hl : dims.length = row.length := by rcases hd with h | h; exact absurd h hne; exact h
    have he : dims.isEmpty = false := by cases dims with | nil => exact absurd rfl hne | cons _ _ => rfl
    simpa [he] using rowToksC_dims dims hne row 0 (by omega)

/-! ### the reader -/

/-- the finite `long double` range of the reader after 5c3fb95 (x87 80-bit on x86-64; `strtold` would
    otherwise deliver ±HUGE_VALL / 0 with `ERANGE`, and `>>` sets `failbit`: outside the model).
    Every quotient of two finite doubles (`|x/u| < 2¹⁰²⁴·2¹⁰⁷⁴`) lies inside it: `inLd_quotient`. -/
def InLd (v : ℚ) : Prop := ¬(rabs v > ldMax ∨ (v ≠ 0 ∧ rabs v < ldTiny))

instance (v : ℚ) : Decidable (InLd v) := by unfold InLd; infer_instance

theorem readAllC_toks : ∀ ts : List Tok,
    (∀ t ∈ ts, parseDec t.chars = some (tokVal t) ∧ InLd (tokVal t)) →
    readAllC (ts.map Tok.chars) = .ok (ts.map tokVal) := by
  intro ts
  induction ts with
  | nil => intro _; rfl
  | cons t r ih =>
    intro h
    obtain ⟨h1, h2⟩ := h t (by simp)
    simp only [List.map_cons, readAllC, h1]
    rw [if_neg h2, ih (fun t' ht' => h t' (List.mem_cons_of_mem _ ht'))]
    rfl

/-- a value inside the `long double` range (with a 10⁻⁵ margin) stays inside when rounded to six digits:
    `|v − y| ≤ ½·10^(e−5) ≤ |y|/200000` -/
theorem inLd_tokOf (y : ℚ) (h : y = 0 ∨ (ldTiny * (100001 / 100000) ≤ |y| ∧ |y| * (100001 / 100000) ≤ ldMax)) :
    InLd (tokVal (tokOf y)) := by
  by_cases hy : y = 0
  · subst hy
    simp only [InLd, tokOf, tokVal, Tok.value, if_true, Option.getD_some]
    rintro (hc | ⟨hc, _⟩)
    · have h0 : rabs 0 = 0 := by decide +kernel
      have hm : (0 : ℚ) < ldMax := by decide +kernel
      rw [h0] at hc
      exact absurd hc (not_lt.mpr hm.le)
    · exact hc rfl
  · rcases h with h | ⟨h1, h2⟩
    · exact absurd h hy
    obtain ⟨d, hd, hb, _, _⟩ := tokOf_bound y hy
    have hs := expo10_spec |y| (abs_pos.mpr hy)
    have hv : tokVal (tokOf y) = d.value := by simp [hd, tokVal, Tok.value]
    rw [hv]
    have hp : pow10 (expo10 |y| - 5) = pow10 (expo10 |y|) * pow10 (-5) := by rw [← pow10_add]; rfl
    have hm5 : pow10 (-5) = 1 / 100000 := by unfold pow10; norm_num
    have hbb : |d.value - y| ≤ |y| / 200000 := by
      rw [hp, hm5] at hb
      linarith [hs.1]
    have hup : |d.value| ≤ |y| + |y| / 200000 := by
      have := abs_sub_abs_le_abs_sub d.value y
      linarith
    have hlo : |y| - |y| / 200000 ≤ |d.value| := by
      have := abs_sub_abs_le_abs_sub y d.value
      rw [abs_sub_comm] at this
      linarith
    have hypos : 0 < |y| := abs_pos.mpr hy
    unfold InLd
    rw [rabs_eq_abs]
    rintro (hc | ⟨_, hc⟩)
    · linarith
    · linarith

/-- every quotient `x/u` of two finite non-zero doubles (`2⁻¹⁰⁷⁴ ≤ |x|,|u| ≤ 2¹⁰²⁴`) — the stated domain
    "values over 600 decades, unit factors over 60 decades" is far inside — meets the hypothesis of
    `inLd_tokOf`: after 5c3fb95 no value of the round trip leaves the reader's range -/
theorem inLd_quotient (x u : ℚ) (hx1 : 1 / 2 ^ 1074 ≤ |x|) (hx2 : |x| ≤ 2 ^ 1024) (hu1 : 1 / 2 ^ 1074 ≤ |u|) (hu2 : |u| ≤ 2 ^ 1024) :
    InLd (tokVal (tokOf (x / u))) := by
  apply inLd_tokOf
  right
  have hu0 : 0 < |u| := lt_of_lt_of_le (by positivity) hu1
  rw [abs_div]
  have hlo : (1 : ℚ) / 2 ^ 2098 ≤ |x| / |u| := by
    rw [le_div_iff₀ hu0]
    calc (1 : ℚ) / 2 ^ 2098 * |u| ≤ 1 / 2 ^ 2098 * 2 ^ 1024 := mul_le_mul_of_nonneg_left hu2 (by positivity)
      _ = 1 / 2 ^ 1074 := by decide +kernel
      _ ≤ |x| := hx1
  have hhi : |x| / |u| ≤ 2 ^ 2098 := by
    rw [div_le_iff₀ hu0]
    calc |x| ≤ 2 ^ 1024 := hx2
      _ = 2 ^ 2098 * (1 / 2 ^ 1074) := by decide +kernel
      _ ≤ 2 ^ 2098 * |u| := mul_le_mul_of_nonneg_left hu1 (by positivity)
  constructor
  · have : ldTiny * (100001 / 100000) ≤ 1 / 2 ^ 2098 := by decide +kernel
    linarith
  · have : (2 : ℚ) ^ 2098 * (100001 / 100000) ≤ ldMax := by decide +kernel
    have h2 : |x| / |u| * (100001 / 100000) ≤ 2 ^ 2098 * (100001 / 100000) := mul_le_mul_of_nonneg_right hhi (by norm_num)
    linarith

example : (0 : ℚ) = 0 ∨ (ldTiny * (100001 / 100000) ≤ |(0 : ℚ)| ∧ |(0 : ℚ)| * (100001 / 100000) ≤ ldMax) := Or.inl rfl
example : InLd (tokVal (tokOf (-1099511627776 / 2))) := inLd_tokOf _ (Or.inr (by decide +kernel))

/-! ### the whole file -/

/-- the header lines as they stand in the file (none if the header text is empty) -/
def headerLinesC (header : List Char) : List (List Char) :=
  if header.isEmpty then [] else splitLines header []

theorem headerLinesC_length (header : List Char) : (headerLinesC header).length = headerLineCount header := by
  unfold headerLinesC headerLineCount
  split <;> simp

theorem headerLinesC_noNl (header : List Char) : ∀ l ∈ headerLinesC header, NoNl l := by
  unfold headerLinesC
  split
  · intro l hl; cases hl
  · exact (joinWith_splitLines header [] (fun _ h => by cases h)).2

theorem headerLinesT_eq (header : List Char) :
    headerLinesT header = (headerLinesC header).map (fun l => (splitWs l []).map Tok.raw) := by
  unfold headerLinesT headerLinesC
  split <;> rfl

/-- the shape guard of `Export_Table` for a rectangular table -/
theorem guard_of_rect {data : List (List ℚ)} {dims : List ℚ} {c : ℕ} (hrect : ∀ row ∈ data, row.length = c)
    (hd : dims = [] ∨ dims.length = c) : ∀ row ∈ data, ¬(!dims.isEmpty ∧ dims.length ≠ row.length) := by
  rintro row hrow ⟨h1, h2⟩
  rcases hd with h | h
  · simp [h] at h1
  · exact h2 (by rw [h, hrect row hrow])

/-- **the file `Export_Table` writes**: the header lines, then one line per row — the six-digit
    renderings of the row's entries (in units) joined by tabs — all joined by line feeds, no line
    feed at the end -/
theorem exportTable_lines (data : List (List ℚ)) (dims : List ℚ) (header : List Char) (hr : data ≠ [])
    (hne : ∀ row ∈ data, row ≠ []) (hg : ∀ row ∈ data, ¬(!dims.isEmpty ∧ dims.length ≠ row.length)) :
    exportTable data dims header
      = .ok (joinWith nl (headerLinesC header ++ data.map (rowLine dims))) := by
  unfold exportTable
  rw [exportRowsC_eq dims data hr hne hg]
  simp only [bind, Except.bind, pure, Except.pure]
  congr 1
  unfold headerLinesC
  by_cases hh : header = []
  · subst hh; simp
  · have hpos : header.length > 0 := List.length_pos_iff.mpr hh
    have hemp : header.isEmpty = false := by cases header with | nil => exact absurd rfl hh | cons _ _ => rfl
    rw [if_pos hpos, hemp]
    simp only [Bool.false_eq_true, if_false]
    rw [joinWith_append _ _ (splitLines_ne_nil header []) (by simpa using hr),
      (joinWith_splitLines header [] (fun _ h => by cases h)).1]
    simp

theorem fileLines_noNl (data : List (List ℚ)) (dims : List ℚ) (header : List Char) :
    ∀ l ∈ headerLinesC header ++ data.map (rowLine dims), NoNl l := by
  intro l hl
  rcases List.mem_append.mp hl with h | h
  · exact headerLinesC_noNl header l h
  · obtain ⟨row, _, rfl⟩ := List.mem_map.mp h
    exact rowLine_noNl dims row

/-- `Count_Lines` of the written file: header lines + rows -/
theorem countLines_export (data : List (List ℚ)) (dims : List ℚ) (header : List Char) (hr : data ≠ [])
    (hne : ∀ row ∈ data, row ≠ []) :
    countLines (joinWith nl (headerLinesC header ++ data.map (rowLine dims)))
      = headerLineCount header + data.length := by
  rw [countLines_joinWith _ (by simp [hr]) (fileLines_noNl data dims header)]
  · simp [headerLinesC_length]
  · intro l hl
    rw [List.getLast?_append] at hl
    have hm : (data.map (rowLine dims)) ≠ [] := by simpa using hr
    obtain ⟨ys, hys⟩ : ∃ a, (data.map (rowLine dims)).getLast? = some a := by
      cases hg : (data.map (rowLine dims)).getLast? with
      | none => exact absurd (List.getLast?_eq_none_iff.mp hg) hm
      | some a => exact ⟨a, rfl⟩
    rw [hys] at hl
    simp only [Option.some_or, Option.some.injEq] at hl
    subst hl
    obtain ⟨row, hrow, rfl⟩ := List.mem_map.mp (List.mem_of_getLast? hys)
    exact rowLine_ne_nil dims (hne row hrow)

/-- `ignore(10000, '\n')` once per header line leaves exactly the rows -/
theorem skipLines_export (header : List Char) (hh : ∀ l ∈ headerLinesC header, l.length < 10000)
    (rows : List (List Char)) (hrows : rows ≠ []) :
    skipLines (headerLineCount header) (joinWith nl (headerLinesC header ++ rows)) = joinWith nl rows := by
  rw [← headerLinesC_length]
  by_cases he : headerLinesC header = []
  · rw [he]; rfl
  · rw [joinWith_append _ _ he hrows]
    exact skipLines_lines _ he (fun l hl => ⟨headerLinesC_noNl header l hl, hh l hl⟩) _

/-- **line_tokenize** (whole file): the function that takes the import from BYTES to tokens
    (`lexFile`: skip `h` header lines, then the white-space delimited tokens) returns, for the file
    `Export_Table` writes, exactly the renderings of the entries — rows × columns tokens, row by row -/
theorem lexFile_export (data : List (List ℚ)) (dims : List ℚ) (header : List Char) (hr : data ≠ [])
    (hh : ∀ l ∈ headerLinesC header, l.length < 10000) :
    lexFile (joinWith nl (headerLinesC header ++ data.map (rowLine dims))) (headerLineCount header)
      = (data.map (fun row => rowToksC dims row 0)).flatten := by
  unfold lexFile
  rw [skipLines_export header hh _ (by simpa using hr), splitWs_joinWith_lines nl (by decide), List.map_map]
  congr 1
  apply List.map_congr_left
  intro row _
  exact splitWs_rowLine dims row

/-- line view of the written file (what the driver's glue check lexes) -/
theorem lexLines_export (data : List (List ℚ)) (dims : List ℚ) (header : List Char) (hr : data ≠ [])
    (hne : ∀ row ∈ data, row ≠ []) :
    lexLines (joinWith nl (headerLinesC header ++ data.map (rowLine dims)))
      = headerLinesT header ++ data.map (fun row => (rowToksC dims row 0).map Tok.raw) := by
  unfold lexLines
  rw [countLines_export data dims header hr hne,
    splitLines_joinWith _ (by simp [hr]) (fileLines_noNl data dims header)]
  have hl : headerLineCount header + data.length
      = (headerLinesC header ++ data.map (rowLine dims)).length := by simp [headerLinesC_length]
  rw [hl, List.take_length, List.map_append, headerLinesT_eq, List.map_map]
  congr 1
  apply List.map_congr_left
  intro row _
  simp only [Function.comp, splitWs_rowLine]

/-- **glue_proved**: the driver's per-request glue check (`glue1`) holds for every request -/
theorem glue_proved (data : List (List ℚ)) (dims : List ℚ) (header : List Char) (c : ℕ)
    (hr : data ≠ []) (hc : 1 ≤ c) (hrect : ∀ row ∈ data, row.length = c) (hd : dims = [] ∨ dims.length = c) :
    ∃ bytes f, exportTable data dims header = .ok bytes ∧ exportT data dims (headerLinesT header) = .ok f ∧
      glueOK bytes f = true := by
  have hne : ∀ row ∈ data, row ≠ [] := by
    intro row hrow h
    have := hrect row hrow
    subst h
    simp only [List.length_nil] at this
    omega
  have hg := guard_of_rect hrect hd
  refine ⟨_, ⟨headerLinesT header, data.map (exportRowT dims)⟩, exportTable_lines data dims header hr hne hg, ?_, ?_⟩
  · unfold exportT
    rw [if_neg]
    rintro ⟨h1, h2⟩
    obtain ⟨row, hrow, hx⟩ := List.any_eq_true.mp h2
    exact hg row hrow ⟨h1, fun e => (of_decide_eq_true hx) e.symm⟩
  · unfold glueOK TFile.lines
    simp only
    rw [lexLines_export data dims header hr hne, List.map_append, List.map_append, List.map_map, List.map_map]
    have : List.map ((fun l => List.map Tok.value l) ∘ fun row => List.map Tok.raw (rowToksC dims row 0)) data
        = List.map ((fun l => List.map Tok.value l) ∘ exportRowT dims) data := by
      apply List.map_congr_left
      intro row hrow
      simp only [Function.comp]
      rw [rowToksC_eq_T dims row (by rcases hd with h | h; exact Or.inl h; exact Or.inr (by rw [h, hrect row hrow])),
        List.map_map, List.map_map]
      apply List.map_congr_left
      intro t ht
      obtain ⟨y, rfl⟩ := mem_exportRowT ht
      simp only [Function.comp, Tok.value]
      exact parseDec_tokOf_value y
    rw [this]
    exact beq_self_eq_true _

/-! ### `Export_List` -/

/-- one value per line, each followed by a line feed: the tokens are the renderings -/
theorem splitWs_listBody (u : ℚ) : ∀ data : List ℚ,
    splitWs ((data.map (fun x => fmt6 (x / u) ++ [nl])).flatten) [] = data.map (fun x => fmt6 (x / u)) := by
  intro data
  induction data with
  | nil => rfl
  | cons x r ih =>
    simp only [List.map_cons, List.flatten_cons, List.append_assoc, List.singleton_append]
    rw [splitWs_append_ws _ [] nl _ (by decide), splitWs_token _ (fmt6_noWs _).1 (fmt6_noWs _).2.1, ih]
    rfl

theorem skipLines_header (header body : List Char) (hh : ∀ l ∈ headerLinesC header, l.length < 10000) :
    skipLines (headerLineCount header) ((if header.length > 0 then header ++ [nl] else []) ++ body) = body := by
  by_cases he : header = []
  · subst he; rfl
  · have hpos : header.length > 0 := List.length_pos_iff.mpr he
    have hemp : header.isEmpty = false := by cases header with | nil => exact absurd rfl he | cons _ _ => rfl
    have hl : headerLinesC header = splitLines header [] := by unfold headerLinesC; rw [hemp]; rfl
    have hj := (joinWith_splitLines header [] (fun _ h => by cases h)).1
    simp only [List.reverse_nil, List.nil_append] at hj
    rw [if_pos hpos, ← headerLinesC_length, hl, List.append_assoc, List.singleton_append]
    have key := skipLines_lines (splitLines header []) (splitLines_ne_nil header [])
      (fun l hl' => ⟨(joinWith_splitLines header [] (fun _ h => by cases h)).2 l hl',
        hh l (by rw [hl]; exact hl')⟩) body
    rw [hj] at key
    exact key

end Lp.C20
