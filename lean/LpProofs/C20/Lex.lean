/-
  C20 — from BYTES to tokens: the white-space tokenizer (`splitWs`, what `>>` sees), the line
  splitter (`splitLines`, `Count_Lines`), `ignore(10000, '\n')` (`skipLines`) on text that is a
  list of lines joined by line feeds, each line a list of tokens joined by a separator.
-/
import LpModel.C20
import LpProofs.C20.Chars
namespace Lp.C20
open Lp.Dec

/-- pieces joined by one separator character (none after the last piece) -/
def joinWith (sep : Char) : List (List Char) → List Char
  | [] => []
  | [a] => a
  | a :: b :: r => a ++ sep :: joinWith sep (b :: r)

def NoWs (t : List Char) : Prop := ∀ c ∈ t, isWs c = false
def NoNl (t : List Char) : Prop := ∀ c ∈ t, c ≠ nl

instance (t : List Char) : Decidable (NoWs t) := by unfold NoWs; infer_instance
instance (t : List Char) : Decidable (NoNl t) := by unfold NoNl; infer_instance

theorem joinWith_cons {sep : Char} (a : List Char) {l : List (List Char)} (h : l ≠ []) :
    joinWith sep (a :: l) = a ++ sep :: joinWith sep l := by
  obtain ⟨b, r, rfl⟩ := List.exists_cons_of_ne_nil h
  rfl

theorem joinWith_append {sep : Char} : ∀ (a b : List (List Char)), a ≠ [] → b ≠ [] →
    joinWith sep (a ++ b) = joinWith sep a ++ sep :: joinWith sep b := by
  intro a
  induction a with
  | nil => intro b h; exact absurd rfl h
  | cons x r ih =>
    intro b _ hb
    cases r with
    | nil => simp [joinWith_cons x hb, joinWith]
    | cons y r' =>
      have h1 : (y :: r') ++ b ≠ [] := by simp
      rw [List.cons_append, joinWith_cons x h1, ih b (by simp) hb, joinWith_cons x (by simp)]
      simp

theorem mem_joinWith {sep c : Char} : ∀ {ts : List (List Char)}, c ∈ joinWith sep ts →
    c = sep ∨ ∃ t ∈ ts, c ∈ t := by
  intro ts
  induction ts with
  | nil => intro h; simp [joinWith] at h
  | cons a r ih =>
    intro h
    cases r with
    | nil => exact Or.inr ⟨a, by simp, by simpa [joinWith] using h⟩
    | cons b r' =>
      rw [joinWith_cons a (by simp)] at h
      rcases List.mem_append.mp h with h | h
      · exact Or.inr ⟨a, by simp, h⟩
      · rcases List.mem_cons.mp h with h | h
        · exact Or.inl h
        · rcases ih h with h | ⟨t, ht, hc⟩
          · exact Or.inl h
          · exact Or.inr ⟨t, List.mem_cons_of_mem _ ht, hc⟩

/-! ### `splitWs` -/

theorem splitWs_acc : ∀ (t cur rest : List Char), NoWs t →
    splitWs (t ++ rest) cur = splitWs rest (t.reverse ++ cur) := by
  intro t
  induction t with
  | nil => intro cur rest _; rfl
  | cons c t ih =>
    intro cur rest h
    have hc : isWs c = false := h c (by simp)
    simp only [List.cons_append, splitWs, hc, Bool.false_eq_true, if_false]
    rw [ih _ _ (fun c' hc' => h c' (by simp [hc']))]
    simp

/-- a white-space character ends the current token: what follows is tokenized afresh -/
theorem splitWs_append_ws : ∀ (a cur : List Char) (w : Char) (b : List Char), isWs w = true →
    splitWs (a ++ w :: b) cur = splitWs a cur ++ splitWs b [] := by
  intro a
  induction a with
  | nil =>
    intro cur w b hw
    simp only [List.nil_append, splitWs, hw, if_true]
    split <;> simp
  | cons c a ih =>
    intro cur w b hw
    simp only [List.cons_append, splitWs]
    split
    · split <;> simp [ih _ w b hw]
    · exact ih _ w b hw

/-- a non-empty run without white space is one token -/
theorem splitWs_token (t : List Char) (hne : t ≠ []) (h : NoWs t) : splitWs t [] = [t] := by
  have := splitWs_acc t [] [] h
  simp only [List.append_nil] at this
  rw [this]
  simp [splitWs, hne]

/-- tokens joined by a white-space separator are recovered exactly -/
theorem splitWs_joinWith_tokens (sep : Char) (hsep : isWs sep = true) :
    ∀ ts : List (List Char), (∀ t ∈ ts, t ≠ [] ∧ NoWs t) → splitWs (joinWith sep ts) [] = ts := by
  intro ts
  induction ts with
  | nil => intro _; rfl
  | cons a r ih =>
    intro h
    have ha := h a (by simp)
    cases r with
    | nil => exact splitWs_token a ha.1 ha.2
    | cons b r' =>
      rw [joinWith_cons a (by simp), splitWs_append_ws a [] sep _ hsep, splitWs_token a ha.1 ha.2,
        ih (fun t ht => h t (List.mem_cons_of_mem _ ht))]
      rfl

example : (∀ t ∈ ["12".toList, "-3.5e+07".toList], t ≠ [] ∧ NoWs t) ∧
    splitWs (joinWith '\t' ["12".toList, "-3.5e+07".toList]) [] = ["12".toList, "-3.5e+07".toList] := by
  decide +kernel

/-- tokenizing lines joined by a white-space separator = tokenizing line by line -/
theorem splitWs_joinWith_lines (sep : Char) (hsep : isWs sep = true) :
    ∀ ls : List (List Char), splitWs (joinWith sep ls) [] = (ls.map (fun l => splitWs l [])).flatten := by
  intro ls
  induction ls with
  | nil => rfl
  | cons a r ih =>
    cases r with
    | nil => simp [joinWith]
    | cons b r' =>
      rw [joinWith_cons a (by simp), splitWs_append_ws a [] sep _ hsep, ih]
      simp

/-! ### `splitLines`, `countLines`, `skipLines` -/

theorem splitLines_acc : ∀ (p cur rest : List Char), NoNl p →
    splitLines (p ++ rest) cur = splitLines rest (p.reverse ++ cur) := by
  intro p
  induction p with
  | nil => intro cur rest _; rfl
  | cons c p ih =>
    intro cur rest h
    have hc : c ≠ nl := h c (by simp)
    simp only [List.cons_append, splitLines, hc, if_false]
    rw [ih _ _ (fun c' hc' => h c' (by simp [hc']))]
    simp

theorem splitLines_append_nl (p cur rest : List Char) (h : NoNl p) :
    splitLines (p ++ nl :: rest) cur = (cur.reverse ++ p) :: splitLines rest [] := by
  rw [splitLines_acc p cur _ h]
  simp [splitLines]

theorem splitLines_noNl (p cur : List Char) (h : NoNl p) : splitLines p cur = [cur.reverse ++ p] := by
  have := splitLines_acc p cur [] h
  simp only [List.append_nil] at this
  rw [this]
  simp [splitLines]

theorem splitLines_ne_nil : ∀ (s cur : List Char), splitLines s cur ≠ [] := by
  intro s
  induction s with
  | nil => intro cur; simp [splitLines]
  | cons c s ih =>
    intro cur
    simp only [splitLines]
    split
    · simp
    · exact ih _

/-- lines (without line feeds) joined by line feeds are recovered exactly -/
theorem splitLines_joinWith : ∀ ls : List (List Char), ls ≠ [] → (∀ l ∈ ls, NoNl l) →
    splitLines (joinWith nl ls) [] = ls := by
  intro ls
  induction ls with
  | nil => intro h; exact absurd rfl h
  | cons a r ih =>
    intro _ h
    have ha := h a (by simp)
    cases r with
    | nil => simpa [joinWith] using splitLines_noNl a [] ha
    | cons b r' =>
      rw [joinWith_cons a (by simp), splitLines_append_nl a [] _ ha,
        ih (by simp) (fun l hl => h l (List.mem_cons_of_mem _ hl))]
      rfl

example : ["# a".toList, [], "1\t2".toList] ≠ [] ∧ (∀ l ∈ ["# a".toList, [], "1\t2".toList], NoNl l) ∧
    splitLines "# a\n\n1\t2".toList [] = ["# a".toList, [], "1\t2".toList] := by decide +kernel

/-- every text is its `splitLines` pieces joined by line feeds, and no piece contains one -/
theorem joinWith_splitLines : ∀ (s cur : List Char), NoNl cur →
    joinWith nl (splitLines s cur) = cur.reverse ++ s ∧ ∀ l ∈ splitLines s cur, NoNl l := by
  intro s
  induction s with
  | nil =>
    intro cur hcur
    refine ⟨by simp [splitLines, joinWith], ?_⟩
    intro l hl
    simp only [splitLines, List.mem_singleton] at hl
    subst hl
    intro c hc
    exact hcur c (List.mem_reverse.mp hc)
  | cons c s ih =>
    intro cur hcur
    simp only [splitLines]
    split
    · rename_i hc
      obtain ⟨h1, h2⟩ := ih [] (fun _ h => by cases h)
      refine ⟨?_, ?_⟩
      · rw [joinWith_cons _ (splitLines_ne_nil s []), h1, hc]; simp
      · intro l hl
        rcases List.mem_cons.mp hl with hl | hl
        · subst hl; intro c' hc'; exact hcur c' (List.mem_reverse.mp hc')
        · exact h2 l hl
    · rename_i hc
      obtain ⟨h1, h2⟩ := ih (c :: cur) (by
        intro c' hc'
        rcases List.mem_cons.mp hc' with h | h
        · subst h; exact hc
        · exact hcur c' h)
      exact ⟨by rw [h1]; simp, h2⟩

/-- `Count_Lines` of lines joined by line feeds, the last one not empty -/
theorem countLines_joinWith (ls : List (List Char)) (hne : ls ≠ []) (h : ∀ l ∈ ls, NoNl l)
    (hlast : ∀ l, ls.getLast? = some l → l ≠ []) : countLines (joinWith nl ls) = ls.length := by
  unfold countLines
  simp only [splitLines_joinWith ls hne h]
  obtain ⟨l, hl⟩ : ∃ l, ls.getLast? = some l := by
    cases hg : ls.getLast? with
    | none => exact absurd (List.getLast?_eq_none_iff.mp hg) hne
    | some l => exact ⟨l, rfl⟩
  have := hlast l hl
  rw [hl]
  simp [this]

example : (∀ l, ["# a".toList, "1\t2".toList].getLast? = some l → l ≠ []) ∧
    countLines (joinWith nl ["# a".toList, "1\t2".toList]) = 2 := by
  refine ⟨?_, by decide +kernel⟩
  intro l hl; simp at hl; subst hl; decide

theorem ignoreLine_line : ∀ (p : List Char) (n : ℕ) (rest : List Char), NoNl p → p.length < n →
    ignoreLine n (p ++ nl :: rest) = rest := by
  intro p
  induction p with
  | nil =>
    intro n rest _ hn
    obtain ⟨n', rfl⟩ : ∃ n', n = n' + 1 := ⟨n - 1, by simp at hn; omega⟩
    simp [ignoreLine]
  | cons c p ih =>
    intro n rest h hn
    obtain ⟨n', rfl⟩ : ∃ n', n = n' + 1 := ⟨n - 1, by simp at hn; omega⟩
    have hc : c ≠ nl := h c (by simp)
    simp only [List.cons_append, ignoreLine, hc, if_false]
    exact ih n' rest (fun c' hc' => h c' (by simp [hc'])) (by simp at hn; omega)

/-- one `ignore(10000, '\n')` per header line skips exactly the header -/
theorem skipLines_lines : ∀ ls : List (List Char), ls ≠ [] → (∀ l ∈ ls, NoNl l ∧ l.length < 10000) →
    ∀ body, skipLines ls.length (joinWith nl ls ++ nl :: body) = body := by
  intro ls
  induction ls with
  | nil => intro h; exact absurd rfl h
  | cons a r ih =>
    intro _ h body
    have ha := h a (by simp)
    cases r with
    | nil =>
      simp only [joinWith, List.length_singleton, skipLines]
      exact ignoreLine_line a 10000 body ha.1 ha.2
    | cons b r' =>
      rw [joinWith_cons a (by simp), List.length_cons, skipLines, List.append_assoc, List.cons_append,
        ignoreLine_line a 10000 _ ha.1 ha.2]
      exact ih (by simp) (fun l hl => h l (List.mem_cons_of_mem _ hl)) body

example : (∀ l ∈ ["# a".toList, "# b".toList], NoNl l ∧ l.length < 10000) ∧
    skipLines 2 (joinWith nl ["# a".toList, "# b".toList] ++ nl :: "1\t2".toList) = "1\t2".toList := by
  decide +kernel

end Lp.C20
