/-
  Six-digit tokens and the token-level export/import round trip.
-/
import LpModel.C20
import LpProofs.C20.Dec
namespace Lp.C20
open Lp.Dec

theorem floor_le' (r : ℚ) : ((r.floor : Int) : ℚ) ≤ r := Int.floor_le r
theorem lt_floor_add_one' (r : ℚ) : r < ((r.floor : Int) : ℚ) + 1 := Int.lt_floor_add_one r

/-- nearest integer -/
theorem roundHalfEven_spec (r : ℚ) : |((roundHalfEven r : Int) : ℚ) - r| ≤ 1 / 2 := by
  have h1 := floor_le' r
  have h2 := lt_floor_add_one' r
  unfold roundHalfEven
  simp only
  split
  · rename_i h; rw [abs_le]; constructor <;> linarith
  · split
    · rename_i h h'; push_cast; rw [abs_le]; constructor <;> linarith
    · rename_i h h'
      have hd : r - ((r.floor : Int) : ℚ) = 1 / 2 := le_antisymm (not_lt.mp h') (not_lt.mp h)
      split
      · rw [abs_le]; constructor <;> linarith
      · push_cast; rw [abs_le]; constructor <;> linarith

/-- an integer within `1/2` of a real `≥ L` (integer) is `≥ L` -/
theorem int_ge_of_near {m L : Int} {s : ℚ} (h : |(m : ℚ) - s| ≤ 1 / 2) (hs : (L : ℚ) ≤ s) : L ≤ m := by
  rw [abs_le] at h
  have : (L : ℚ) - 1 < m := by linarith
  have : L - 1 < m := by exact_mod_cast this
  omega

theorem int_le_of_near {m U : Int} {s : ℚ} (h : |(m : ℚ) - s| ≤ 1 / 2) (hs : s < (U : ℚ)) : m ≤ U := by
  rw [abs_le] at h
  have : (m : ℚ) < U + 1 := by linarith
  have : m < U + 1 := by exact_mod_cast this
  omega

theorem pow10_five : pow10 5 = 100000 := by unfold pow10; norm_num
theorem pow10_six : pow10 6 = 1000000 := by unfold pow10; norm_num

/-- scaled mantissa of `x` with exponent `e` lies in `[10^5, 10^6)` -/
theorem scaled_range {a : ℚ} {e : Int} (h1 : pow10 e ≤ a) (h2 : a < pow10 (e + 1)) :
    (100000 : ℚ) ≤ a * pow10 (5 - e) ∧ a * pow10 (5 - e) < 1000000 := by
  have hp := pow10_pos (5 - e)
  constructor
  · have : pow10 e * pow10 (5 - e) = 100000 := by rw [← pow10_add]; simp [pow10_five]
    nlinarith
  · have : pow10 (e + 1) * pow10 (5 - e) = 1000000 := by
      rw [← pow10_add]; have : e + 1 + (5 - e) = 6 := by ring
      rw [this, pow10_six]
    nlinarith

/-- value of the six-digit token: the rounded mantissa times `10^(e−5)`, in both branches -/
theorem toDec6_value (x : ℚ) (e : Int) (h1 : pow10 e ≤ |x|) (h2 : |x| < pow10 (e + 1)) :
    (toDec6 x e).value =
      (if x < 0 then -1 else 1) * (((roundHalfEven (|x| * pow10 (5 - e)) : Int) : ℚ) * pow10 (e - 5)) := by
  obtain ⟨hs1, hs2⟩ := scaled_range h1 h2
  have hr := roundHalfEven_spec (|x| * pow10 (5 - e))
  have hm0 : (100000 : Int) ≤ roundHalfEven (|x| * pow10 (5 - e)) := int_ge_of_near hr (by exact_mod_cast hs1)
  have hcast : (((roundHalfEven (|x| * pow10 (5 - e))).toNat : ℕ) : ℚ) = ((roundHalfEven (|x| * pow10 (5 - e)) : Int) : ℚ) := by
    have : (((roundHalfEven (|x| * pow10 (5 - e))).toNat : ℕ) : Int) = roundHalfEven (|x| * pow10 (5 - e)) :=
      Int.toNat_of_nonneg (by omega)
    exact_mod_cast this
  unfold toDec6
  simp only [rabs_eq_abs]
  split
  · rename_i hm
    have hmq : ((roundHalfEven (|x| * pow10 (5 - e)) : Int) : ℚ) = 1000000 := by
      rw [← hcast, hm]; norm_num
    unfold Dec6.value
    simp only [decide_eq_true_eq]
    rw [hmq]
    have : pow10 (e + 1 - 5) = pow10 (e - 5) * 10 := by
      have : e + 1 - 5 = (e - 5) + 1 := by ring
      rw [this, pow10_succ]
    rw [this]; push_cast; ring
  · unfold Dec6.value
    simp only [decide_eq_true_eq]
    rw [hcast]

/-- mantissa and exponent of the token are in range -/
theorem toDec6_range (x : ℚ) (e : Int) (h1 : pow10 e ≤ |x|) (h2 : |x| < pow10 (e + 1)) :
    100000 ≤ (toDec6 x e).m ∧ (toDec6 x e).m ≤ 999999 ∧ ((toDec6 x e).e = e ∨ (toDec6 x e).e = e + 1) := by
  obtain ⟨hs1, hs2⟩ := scaled_range h1 h2
  have hr := roundHalfEven_spec (|x| * pow10 (5 - e))
  have hm0 : (100000 : Int) ≤ roundHalfEven (|x| * pow10 (5 - e)) := int_ge_of_near hr (by exact_mod_cast hs1)
  have hm1 : roundHalfEven (|x| * pow10 (5 - e)) ≤ (1000000 : Int) := int_le_of_near hr (by exact_mod_cast hs2)
  unfold toDec6
  simp only [rabs_eq_abs]
  split
  · exact ⟨by norm_num, by norm_num, Or.inr rfl⟩
  · rename_i hne
    refine ⟨by simp only; omega, by simp only; omega, Or.inl rfl⟩

/-- **fmt6_roundtrip** (token level): the value of the six-digit token of `x ≠ 0` is within half a
    unit of the sixth significant digit of `x` -/
theorem toDec6_bound (x : ℚ) (e : Int) (h1 : pow10 e ≤ |x|) (h2 : |x| < pow10 (e + 1)) :
    |(toDec6 x e).value - x| ≤ 1 / 2 * pow10 (e - 5) := by
  rw [toDec6_value x e h1 h2]
  have hr := roundHalfEven_spec (|x| * pow10 (5 - e))
  set m : ℚ := ((roundHalfEven (|x| * pow10 (5 - e)) : Int) : ℚ) with hm
  have hp := pow10_pos (e - 5)
  have hinv : pow10 (5 - e) * pow10 (e - 5) = 1 := by rw [← pow10_add]; simp [pow10_zero]
  have hax : |x| = |x| * pow10 (5 - e) * pow10 (e - 5) := by rw [mul_assoc, hinv, mul_one]
  have key : abs (m * pow10 (e - 5) - abs x) ≤ 1 / 2 * pow10 (e - 5) := by
    have : m * pow10 (e - 5) - |x| = (m - |x| * pow10 (5 - e)) * pow10 (e - 5) := by
      conv_lhs => rw [hax]
      ring
    rw [this, abs_mul, abs_of_pos hp]
    exact mul_le_mul_of_nonneg_right hr hp.le
  by_cases hx : x < 0
  · rw [if_pos hx]
    have : |x| = -x := abs_of_neg hx
    rw [this] at key
    have e1 : -1 * (m * pow10 (e - 5)) - x = -(m * pow10 (e - 5) - -x) := by ring
    rw [e1, abs_neg]; exact key
  · rw [if_neg hx]
    have : |x| = x := abs_of_nonneg (not_lt.mp hx)
    rw [this] at key
    rw [one_mul]; exact key

/-- `fmt6_roundtrip` for the exponent the model computes -/
theorem tokOf_bound (y : ℚ) (hy : y ≠ 0) :
    ∃ d, tokOf y = .num d ∧ |d.value - y| ≤ 1 / 2 * pow10 (expo10 |y| - 5) ∧
      100000 ≤ d.m ∧ d.m ≤ 999999 := by
  have hpos : 0 < |y| := abs_pos.mpr hy
  have hs := expo10_spec |y| hpos
  refine ⟨toDec6 y (expo10 |y|), ?_, toDec6_bound y _ hs.1 hs.2, (toDec6_range y _ hs.1 hs.2).1, (toDec6_range y _ hs.1 hs.2).2.1⟩
  unfold tokOf
  rw [if_neg hy, rabs_eq_abs, expo10Fast_eq _ hpos]

theorem tokOf_value_some (y : ℚ) : ∃ v, (tokOf y).value = some v := by
  unfold tokOf
  split
  · exact ⟨0, rfl⟩
  · exact ⟨_, rfl⟩

/-! ### reader -/

def tokVal (t : Tok) : ℚ := t.value.getD 0

theorem readAll_num : ∀ ts : List Tok, (∀ t ∈ ts, ∃ v, t.value = some v) → readAll ts = ts.map tokVal := by
  intro ts
  induction ts with
  | nil => intro _; rfl
  | cons t r ih =>
    intro h
    obtain ⟨v, hv⟩ := h t (by simp)
    simp only [readAll, hv, List.map_cons, tokVal, Option.getD_some]
    rw [ih (fun t' ht' => h t' (by simp [ht']))]

theorem chunks_flatten : ∀ (ls : List (List ℚ)) (c : ℕ), (∀ l ∈ ls, l.length = c) →
    chunks ls.length c ls.flatten = ls := by
  intro ls
  induction ls with
  | nil => intro _ _; rfl
  | cons l r ih =>
    intro c h
    have hl : l.length = c := h l (by simp)
    simp only [List.length_cons, List.flatten_cons, chunks]
    rw [List.take_left' hl, List.drop_left' hl, ih c (fun l' hl' => h l' (by simp [hl']))]

theorem length_flatten_const : ∀ (ls : List (List ℚ)) (c : ℕ), (∀ l ∈ ls, l.length = c) →
    ls.flatten.length = ls.length * c := by
  intro ls
  induction ls with
  | nil => intro _ _; simp
  | cons l r ih =>
    intro c h
    simp only [List.flatten_cons, List.length_append, List.length_cons]
    rw [ih c (fun l' hl' => h l' (by simp [hl'])), h l (by simp)]
    ring

theorem zipWith_zipWith_right {α β γ δ} (f : α → β → γ) (g : γ → β → δ) :
    ∀ (a : List α) (b : List β), List.zipWith g (List.zipWith f a b) b = List.zipWith (fun x u => g (f x u) u) a b := by
  intro a
  induction a with
  | nil => intro b; simp
  | cons x r ih =>
    intro b
    cases b with
    | nil => simp
    | cons u s => simp [ih s]

theorem unitRow_length (dims : List ℚ) (row : List ℚ) (c : ℕ) (hrow : row.length = c)
    (hd : dims = [] ∨ dims.length = c) : (unitRow dims row).length = c := by
  unfold unitRow
  rcases hd with rfl | hd
  · simp [hrow]
  · split
    · simp [hrow]
    · exact hd

theorem exportRowT_length (dims : List ℚ) (row : List ℚ) (c : ℕ) (hrow : row.length = c)
    (hd : dims = [] ∨ dims.length = c) : (exportRowT dims row).length = c := by
  unfold exportRowT
  rw [List.length_zipWith, unitRow_length dims row c hrow hd, hrow]; simp

/-- one row: export, read, re-apply the units -/
theorem row_back (dims : List ℚ) (row : List ℚ) (c : ℕ)
    (hd : dims = [] ∨ dims.length = c) :
    applyDims dims ((exportRowT dims row).map tokVal) = List.zipWith back row (unitRow dims row) := by
  unfold exportRowT applyDims
  by_cases he : dims.isEmpty
  · have hd0 : dims = [] := List.isEmpty_iff.mp he
    subst hd0
    simp only [List.isEmpty_nil, if_true, unitRow]
    rw [List.map_zipWith]
    -- back x 1 = tokVal (tokOf (x / 1)) * 1
    apply List.ext_getElem
    · simp
    · intro i h1 h2
      simp [back, tokVal]
  · have hne : dims ≠ [] := fun h => he (by simp [h])
    have hdl : dims.length = c := by rcases hd with h | h; exact absurd h hne; exact h
    simp only [he, if_false, unitRow, Bool.false_eq_true]
    rw [List.map_zipWith, zipWith_zipWith_right]
    rfl

end Lp.C20
