/-
  Decimal exponent and six-digit rounding: lemmas used by C20 (fmt6) and C17 (Round).
-/
import LpModel.C17.Dec
import Mathlib.Tactic.Linarith
import Mathlib.Tactic.Positivity
import Mathlib.Tactic.Ring
import Mathlib.Tactic.FieldSimp
import Mathlib.Tactic.NormNum
import Mathlib.Data.Rat.Floor
import Mathlib.Algebra.Order.Field.Power
namespace Lp.Dec

theorem pow10_pos (e : Int) : (0 : ℚ) < pow10 e := by unfold pow10; positivity
theorem pow10_add (a b : Int) : pow10 (a + b) = pow10 a * pow10 b := by
  unfold pow10; rw [zpow_add₀ (by norm_num)]
theorem pow10_mono {a b : Int} (h : a ≤ b) : pow10 a ≤ pow10 b := by
  unfold pow10; exact zpow_le_zpow_right₀ (by norm_num) h
theorem pow10_lt_iff {a b : Int} : pow10 a < pow10 b ↔ a < b := by
  unfold pow10; exact zpow_lt_zpow_iff_right₀ (by norm_num)
theorem pow10_zero : pow10 0 = 1 := by unfold pow10; simp
theorem pow10_one : pow10 1 = 10 := by unfold pow10; simp
theorem pow10_succ (a : Int) : pow10 (a + 1) = pow10 a * 10 := by rw [pow10_add, pow10_one]
theorem pow10_neg_mul (a : Int) : pow10 (-a) * pow10 a = 1 := by
  rw [← pow10_add]; simp [pow10_zero]
theorem pow10_natCast (n : ℕ) : pow10 (n : Int) = (10 : ℚ) ^ n := by unfold pow10; simp

theorem rabs_eq_abs (x : ℚ) : rabs x = |x| := by
  unfold rabs
  split
  · rw [abs_of_neg (by assumption)]
  · rw [abs_of_nonneg (by linarith)]

/-- the decimal exponent is unique -/
theorem expo_unique {x : ℚ} {e e' : Int} (h1 : pow10 e ≤ x) (h2 : x < pow10 (e + 1))
    (h1' : pow10 e' ≤ x) (h2' : x < pow10 (e' + 1)) : e = e' := by
  have a : e < e' + 1 := pow10_lt_iff.mp (lt_of_le_of_lt h1 h2')
  have b : e' < e + 1 := pow10_lt_iff.mp (lt_of_le_of_lt h1' h2)
  omega

theorem expoUp_spec (x : ℚ) : ∀ (f : ℕ) (k : Int), pow10 k ≤ x → x < pow10 (k + f + 1) →
    pow10 (expoUp x f k) ≤ x ∧ x < pow10 (expoUp x f k + 1) := by
  intro f
  induction f with
  | zero =>
    intro k h1 h2
    have h2' : x < pow10 (k + 1) := by simpa using h2
    exact ⟨h1, h2'⟩
  | succ f ih =>
    intro k h1 h2
    unfold expoUp
    split
    · exact ⟨h1, by assumption⟩
    · rename_i h
      apply ih (k + 1) (not_lt.mp h)
      have : k + 1 + (f : Int) + 1 = k + ((f + 1 : ℕ) : Int) + 1 := by push_cast; ring
      rw [this]; exact h2

theorem expoDown_spec (x : ℚ) : ∀ (f : ℕ) (k : Int), x < pow10 (k + 1) → pow10 (k - f) ≤ x →
    pow10 (expoDown x f k) ≤ x ∧ x < pow10 (expoDown x f k + 1) := by
  intro f
  induction f with
  | zero =>
    intro k h1 h2
    have h2' : pow10 k ≤ x := by simpa using h2
    exact ⟨h2', h1⟩
  | succ f ih =>
    intro k h1 h2
    unfold expoDown
    split
    · exact ⟨by assumption, h1⟩
    · rename_i h
      apply ih (k - 1)
      · simpa using not_le.mp h
      · have : k - 1 - (f : Int) = k - ((f + 1 : ℕ) : Int) := by push_cast; ring
        rw [this]; exact h2

theorem nat_lt_pow10 (n : ℕ) : (n : ℚ) < (10 : ℚ) ^ n := by
  have : n < 10 ^ n := Nat.lt_pow_self (by norm_num)
  exact_mod_cast this

/-- **the search finds the decimal exponent** of every positive rational -/
theorem expo10_spec (x : ℚ) (hx : 0 < x) : pow10 (expo10 x) ≤ x ∧ x < pow10 (expo10 x + 1) := by
  unfold expo10
  have hnum : 0 < x.num := Rat.num_pos.mpr hx
  have hden : (1 : ℚ) ≤ x.den := by exact_mod_cast x.den_pos
  have hxe : x = (x.num : ℚ) / x.den := (Rat.num_div_den x).symm
  split
  · rename_i h1
    apply expoUp_spec x _ 0 (by simpa [pow10_zero] using h1)
    have hle : x ≤ (x.num : ℚ) := by
      have hn0 : (0 : ℚ) ≤ (x.num : ℚ) := by exact_mod_cast hnum.le
      calc x = (x.num : ℚ) / x.den := hxe
        _ ≤ (x.num : ℚ) := div_le_self hn0 hden
    have hn : ((x.num.toNat : ℕ) : ℚ) = (x.num : ℚ) := by
      have : ((x.num.toNat : ℕ) : Int) = x.num := Int.toNat_of_nonneg hnum.le
      exact_mod_cast this
    have h2 : (x.num : ℚ) < pow10 ((x.num.toNat : ℕ) : Int) := by
      rw [pow10_natCast, ← hn]; exact nat_lt_pow10 _
    have h3 : pow10 ((x.num.toNat : ℕ) : Int) ≤ pow10 (0 + (x.num.toNat : Int) + 1) := pow10_mono (by omega)
    linarith
  · rename_i h1
    apply expoDown_spec x _ (-1) (by simpa [pow10_zero] using not_le.mp h1)
    -- 10^(-1-den) ≤ 1/den ≤ x
    have hd0 : (0 : ℚ) < x.den := by linarith
    have h1d : 1 / (x.den : ℚ) ≤ x := by
      have hn1 : (1 : ℚ) ≤ (x.num : ℚ) := by exact_mod_cast hnum
      calc 1 / (x.den : ℚ) ≤ (x.num : ℚ) / x.den := div_le_div_of_nonneg_right hn1 hd0.le
        _ = x := hxe.symm
    have h2 : pow10 (-1 - (x.den : Int)) ≤ 1 / (x.den : ℚ) := by
      have hlt : (x.den : ℚ) < pow10 (x.den : Int) := by rw [pow10_natCast]; exact nat_lt_pow10 _
      have hm : pow10 (-1 - (x.den : Int)) ≤ pow10 (-(x.den : Int)) := pow10_mono (by omega)
      have hinv : pow10 (-(x.den : Int)) = 1 / pow10 (x.den : Int) := by
        have := pow10_neg_mul (x.den : Int)
        have hp := pow10_pos (x.den : Int)
        field_simp; linarith
      rw [hinv] at hm
      have : 1 / pow10 (x.den : Int) ≤ 1 / (x.den : ℚ) := one_div_le_one_div_of_le hd0 hlt.le
      linarith
    linarith

theorem isExpo_iff (x : ℚ) (e : Int) : isExpo x e = true ↔ pow10 e ≤ x ∧ x < pow10 (e + 1) := by
  unfold isExpo; simp

/-- the checked guess of the driver is the searched exponent -/
theorem expo10Fast_eq (x : ℚ) (hx : 0 < x) : expo10Fast x = expo10 x := by
  have hs := expo10_spec x hx
  unfold expo10Fast
  simp only
  split
  · rename_i h; have := (isExpo_iff _ _).mp h; exact expo_unique this.1 this.2 hs.1 hs.2
  · split
    · rename_i h; have := (isExpo_iff _ _).mp h; exact expo_unique this.1 this.2 hs.1 hs.2
    · split
      · rename_i h; have := (isExpo_iff _ _).mp h; exact expo_unique this.1 this.2 hs.1 hs.2
      · rfl

theorem expo10Fast_spec (x : ℚ) (hx : 0 < x) :
    pow10 (expo10Fast x) ≤ x ∧ x < pow10 (expo10Fast x + 1) := by
  rw [expo10Fast_eq x hx]; exact expo10_spec x hx

end Lp.Dec
