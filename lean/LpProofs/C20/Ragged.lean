/-
  The repaired shape rule of `Import_Table` (audit item P10): exact fill or diagnostic; agreement with
  the rule on HEAD for rectangular files; trailing blank lines do not count.
-/
import LpModel.C20.Ragged
import LpProofs.C20.IO
namespace Lp.C20

/-- **ragged ⇒ diagnostic**: entries that do not fill `rows` rows of equal length -/
theorem importCore2_ragged (rows : ℕ) (vals dims : List ℚ) (hr : 0 < rows) (h : vals.length % rows ≠ 0) :
    importCore2 rows vals dims = .error .diag := by
  unfold importCore2
  rw [if_neg (by omega), if_pos]
  intro he
  apply h
  rw [he]; simp

/-- **rectangular ⇒ the rule on HEAD**: when the entries fill the rows exactly the repaired rule and
    `importCore` (rows = lines − ignored) agree — nothing changes for the files `Export_Table` writes -/
theorem importCore2_eq (rows c k : ℕ) (vals dims : List ℚ) (hr : 0 < rows) (h : vals.length = rows * c) :
    importCore2 rows vals dims = importCore (rows + k) vals dims k := by
  have hc : vals.length / rows = c := by rw [h]; exact Nat.mul_div_cancel_left c hr
  have hk : rows + k - k = rows := by omega
  unfold importCore2 importCore
  rw [if_neg (by omega)]
  rw [if_neg (by omega : ¬ rows + k < k), if_neg (by omega : ¬ rows + k = k)]
  simp only [hk, hc]
  rw [if_neg (by intro hne; exact hne h)]

theorem chunks_length : ∀ (r c : ℕ) (vals : List ℚ), (chunks r c vals).length = r := by
  intro r
  induction r with
  | zero => intro _ _; rfl
  | succ r ih => intro c vals; simp [chunks, ih]

theorem chunks_flatten_take : ∀ (r c : ℕ) (vals : List ℚ), (chunks r c vals).flatten = vals.take (r * c) := by
  intro r
  induction r with
  | zero => intro c vals; simp [chunks]
  | succ r ih =>
    intro c vals
    simp only [chunks, List.flatten_cons, ih]
    have : (r + 1) * c = c + r * c := by ring
    rw [this, List.take_add]

/-- **no entry is dropped or invented**: an accepted file gives `rows` rows whose concatenation is the
    sequence of entries read (no unit factors) -/
theorem importCore2_exact (rows : ℕ) (vals : List ℚ) (t : List (List ℚ)) (hr : 0 < rows)
    (h : importCore2 rows vals [] = .ok t) : t.length = rows ∧ t.flatten = vals := by
  unfold importCore2 at h
  rw [if_neg (by omega)] at h
  simp only at h
  split at h
  · cases h
  · rename_i hfill
    rw [if_neg (by simp)] at h
    simp only [Except.ok.injEq] at h
    subst h
    have happ : ∀ l : List (List ℚ), l.map (applyDims []) = l := by
      intro l; induction l with
      | nil => rfl
      | cons a r ih => simp [applyDims, ih]
    rw [happ]
    refine ⟨chunks_length _ _ _, ?_⟩
    rw [chunks_flatten_take]
    have : vals.length = rows * (vals.length / rows) := by
      by_contra hne; exact hfill hne
    rw [← this, List.take_length]

theorem dropWhile_blank_append : ∀ (B L : List (List Char)), (∀ l ∈ B, isBlankLine l = true) →
    (B ++ L).dropWhile isBlankLine = L.dropWhile isBlankLine := by
  intro B
  induction B with
  | nil => intro L _; rfl
  | cons a r ih =>
    intro L h
    rw [List.cons_append, List.dropWhile_cons_of_pos (h a (by simp))]
    exact ih L (fun l hl => h l (by simp [hl]))

/-- **trailing blank lines do not count**: appending blank lines to the data lines leaves the rows unchanged -/
theorem dropTrailingBlank_append (ls blanks : List (List Char)) (hb : ∀ l ∈ blanks, isBlankLine l = true) :
    dropTrailingBlank (ls ++ blanks) = dropTrailingBlank ls := by
  unfold dropTrailingBlank
  rw [List.reverse_append, dropWhile_blank_append _ _ (fun l hl => hb l (List.mem_reverse.mp hl))]

example : dataRows "1 2\n3 4\n\n\n".toList 0 = 2 ∧ dataRows "# h\n1 2\n3 4\n \t\n".toList 1 = 2 ∧
    importTable2 "1 2 3\n4 5 6\n7 8\n".toList [1, 1] 0 = .error .diag ∧
    importTable2 "1 2\n3 4\n\n\n".toList [] 0 = .ok [[1, 2], [3, 4]] := by decide +kernel

end Lp.C20
