/-
  C20 (coverage extension, second part) — structure of the text written by `operator<<` for `Vector`
  and `Matrix`, by `Save_Function` (1-D, 2-D), and the default `Interpolation_2D()`.
-/
import LpModel.C20
import Mathlib.Tactic.Ring
import Mathlib.Tactic.Linarith
import Mathlib.Tactic.NormNum
namespace Lp.C20

/-! ## operator<< -/

theorem vecShowLoop_eq (n : Nat) : ∀ (r : List Rat) (i : Nat), i + r.length = n →
    vecShowLoop n r i = List.intercalate [' ', ',', ' '] (r.map fmt6) := by
  intro r
  induction r with
  | nil => intro i _; simp [vecShowLoop, List.intercalate]
  | cons x r ih =>
    intro i hi
    cases r with
    | nil =>
      have : ¬ (i + 1 < n) := by simp at hi; omega
      simp [vecShowLoop, List.intercalate, this]
    | cons y r' =>
      have hlt : i + 1 < n := by simp at hi; omega
      have := ih (i + 1) (by simp at hi ⊢; omega)
      rw [vecShowLoop, this]
      simp [List.intercalate, hlt]

/-- **vecShow_eq**: `operator<<(ostream, Vector)` writes `(`, the six-digit renderings of the components separated
    by `" , "`, and `)` — for every length (the unsigned `Size() - 1` of the code never matters: the loop body does
    not run for the empty vector). -/
theorem vecShow_eq (v : List Rat) : vecShow v = '(' :: (List.intercalate [' ', ',', ' '] (v.map fmt6) ++ [')']) := by
  unfold vecShow
  rw [vecShowLoop_eq v.length v 0 (by simp)]

example : vecShow [1, 5 / 2, -3] = "(1 , 2.5 , -3)".toList := by decide +kernel
example : vecShow [] = "()".toList := by decide +kernel

/-- one row in closed form: opening bracket, entries separated by tabs, closing bracket -/
def matRowStr (R : Nat) (row : List Rat) (i : Nat) : List Char :=
  matOpen R i :: (List.intercalate ['\t'] (row.map fmt6) ++ [matClose R i])

theorem matRowLoop_eq (R C i : Nat) : ∀ (r : List Rat) (j : Nat), r ≠ [] → j + r.length = C →
    matRowLoop R C i r j = List.intercalate ['\t'] (r.map fmt6) ++ [matClose R i] := by
  intro r
  induction r with
  | nil => intro j h; exact absurd rfl h
  | cons x r ih =>
    intro j _ hj
    cases r with
    | nil =>
      have : ¬ (j + 1 < C) := by simp at hj; omega
      simp [matRowLoop, List.intercalate, this]
    | cons y r' =>
      have hlt : j + 1 < C := by simp at hj; omega
      have := ih (j + 1) (by simp) (by simp at hj ⊢; omega)
      rw [matRowLoop, this]
      simp [List.intercalate, hlt]

theorem matLoop_eq (R C : Nat) (hC : 0 < C) : ∀ (m : List (List Rat)) (i : Nat), (∀ row ∈ m, row.length = C) →
    i + m.length = R →
    matLoop R C m i = List.intercalate [nl] (m.zipIdx i |>.map (fun p => matRowStr R p.1 p.2)) := by
  intro m
  induction m with
  | nil => intro i _ _; simp [matLoop, List.intercalate]
  | cons row rest ih =>
    intro i hrect hi
    have hrow : row.length = C := hrect row (by simp)
    have hne : row ≠ [] := by intro h; rw [h] at hrow; simp at hrow; omega
    have hr := matRowLoop_eq R C i row 0 hne (by simpa using hrow)
    cases rest with
    | nil =>
      have : ¬ (i + 1 < R) := by simp at hi; omega
      simp [matLoop, List.intercalate, this, hr, matRowStr]
    | cons row2 rest' =>
      have hlt : i + 1 < R := by simp at hi; omega
      have := ih (i + 1) (fun r hr' => hrect r (by simp [hr'])) (by simp at hi ⊢; omega)
      rw [matLoop, this, hr]
      simp [List.intercalate, hlt, matRowStr]

/-- **matShow_eq**: `operator<<(ostream, Matrix)` on an `R × C` matrix (`C ≥ 1`) writes `R` lines separated by
    newlines (none after the last); line `i` is an opening bracket (`⌈` for the first row, `⌊` for the last of
    several, `|` otherwise), the `C` six-digit renderings separated by tabs, and the matching closing bracket. -/
theorem matShow_eq (m : List (List Rat)) (C : Nat) (hC : 0 < C) (hrect : ∀ row ∈ m, row.length = C) :
    matShow m = List.intercalate [nl] (m.zipIdx.map (fun p => matRowStr m.length p.1 p.2)) := by
  unfold matShow
  cases m with
  | nil => simp [matLoop, List.intercalate]
  | cons r0 rest =>
    have h0 : r0.length = C := hrect r0 (by simp)
    simp only [List.headD_cons, h0]
    exact matLoop_eq _ C hC (r0 :: rest) 0 hrect (by simp)

example : matShow [[1, 2], [3, 4], [5, 6]] = "⌈1\t2⌉\n|3\t4|\n⌊5\t6⌋".toList := by decide +kernel
example : matShow [[1, 2]] = "⌈1\t2⌉".toList := by decide +kernel
example : (∀ row ∈ [[(1 : Rat), 2], [3, 4]], row.length = 2) := by decide

/-! ## Save_Function -/

/-- one line per abscissa, two tokens per line -/
theorem saveLinesT_shape (xs : List Rat) (f : Rat → Rat) :
    (saveLinesT xs f).length = xs.length ∧ ∀ l ∈ saveLinesT xs f, l.length = 2 := by
  unfold saveLinesT
  refine ⟨by simp, ?_⟩
  intro l hl
  obtain ⟨x, _, rfl⟩ := List.mem_map.mp hl
  rfl

/-- line `i` holds the six-digit tokens of `x_i` and of `f(x_i)` -/
theorem saveLinesT_getElem? (xs : List Rat) (f : Rat → Rat) (i : Nat) :
    (saveLinesT xs f)[i]? = xs[i]?.map (fun x => [tokOf x, tokOf (f x)]) := by
  unfold saveLinesT; simp

theorem linearSpace_length (lo hi : Rat) (n : Nat) (h2 : 2 ≤ n) (hne : lo ≠ hi) : (C19.linearSpace lo hi n).length = n := by
  unfold C19.linearSpace
  have : ¬ (n < 2 ∨ lo = hi) := by intro h; rcases h with h | h; omega; exact hne h
  simp [this]

theorem linearSpace_length_degenerate (lo hi : Rat) (n : Nat) (h : n < 2 ∨ lo = hi) : (C19.linearSpace lo hi n).length = 1 := by
  unfold C19.linearSpace
  simp [h]

/-- **saveFunction_lines**: `Interpolation::Save_Function(file, points)` writes the rendering of exactly `points`
    lines (`points ≥ 2`, non-degenerate domain; a single line otherwise), each `x \t f(x) \n`. -/
theorem saveFunction_lines (lo hi : Rat) (n : Nat) (f : Rat → Rat) :
    ∃ ls : List (List Tok), saveFunction lo hi n f = renderLines ls ∧ (∀ l ∈ ls, l.length = 2) ∧
      ls.length = (if n < 2 ∨ lo = hi then 1 else n) := by
  refine ⟨saveLinesT (C19.linearSpace lo hi n) f, rfl, (saveLinesT_shape _ f).2, ?_⟩
  rw [(saveLinesT_shape _ f).1]
  split
  · rename_i h; exact linearSpace_length_degenerate lo hi n h
  · rename_i h
    exact linearSpace_length lo hi n (by omega) (fun e => h (Or.inr e))

example : saveFunction 0 2 3 (fun x => x * x) = "0\t0\n1\t1\n2\t4\n".toList := by decide +kernel

theorem save2LinesT_length (xs ys : List Rat) (f : Rat → Rat → Rat) :
    (save2LinesT xs ys f).length = xs.length * ys.length := by
  unfold save2LinesT
  induction xs with
  | nil => simp
  | cons x r ih => simp [List.flatMap_cons, ih, Nat.succ_mul, Nat.add_comm]

theorem save2LinesT_tokens (xs ys : List Rat) (f : Rat → Rat → Rat) : ∀ l ∈ save2LinesT xs ys f, l.length = 3 := by
  intro l hl
  unfold save2LinesT at hl
  obtain ⟨x, _, hx⟩ := List.mem_flatMap.mp hl
  obtain ⟨y, _, rfl⟩ := List.mem_map.mp hx
  rfl

/-- **save2LinesT_rowMajor**: row-major order — line `i·|ys| + j` is the line of `(x_i, y_j)` -/
theorem save2LinesT_rowMajor (ys : List Rat) (f : Rat → Rat → Rat) : ∀ (xs : List Rat) (i j : Nat)
    (hi : i < xs.length) (hj : j < ys.length),
    (save2LinesT xs ys f)[i * ys.length + j]? = some [tokOf xs[i], tokOf ys[j], tokOf (f xs[i] ys[j])] := by
  intro xs
  induction xs with
  | nil => intro i j hi; simp at hi
  | cons x r ih =>
    intro i j hi hj
    unfold save2LinesT at ih ⊢
    rw [List.flatMap_cons]
    cases i with
    | zero =>
      simp only [Nat.zero_mul, Nat.zero_add, List.getElem_cons_zero]
      rw [List.getElem?_append_left (by simpa using hj)]
      simp [hj]
    | succ k =>
      have hk : k < r.length := by simpa using hi
      rw [List.getElem?_append_right (by simp [Nat.succ_mul]; omega)]
      have e : (k + 1) * ys.length + j - (ys.map (fun y => [tokOf x, tokOf y, tokOf (f x y)])).length = k * ys.length + j := by
        simp [Nat.succ_mul]; omega
      rw [e]
      simpa using ih k j hk hj

/-- **saveFunction2_lines**: `Interpolation_2D::Save_Function(file, x_points, y_points)` writes `|xs|·|ys|` lines of
    three tab-separated tokens (`ys` has `x_points` entries when `y_points = 0`) -/
theorem saveFunction2_lines (xlo xhi ylo yhi : Rat) (xp yp : Nat) (f : Rat → Rat → Rat) :
    ∃ xs ys : List Rat, xs = C19.linearSpace xlo xhi xp ∧ ys = C19.linearSpace ylo yhi (if yp = 0 then xp else yp) ∧
      saveFunction2 xlo xhi ylo yhi xp yp f = renderLines (save2LinesT xs ys f) ∧
      (save2LinesT xs ys f).length = xs.length * ys.length ∧ ∀ l ∈ save2LinesT xs ys f, l.length = 3 :=
  ⟨_, _, rfl, rfl, rfl, save2LinesT_length _ _ f, save2LinesT_tokens _ _ f⟩

example : saveFunction2 0 1 0 2 2 3 (fun x y => x + y) = "0\t0\t0\n0\t1\t1\n0\t2\t2\n1\t0\t1\n1\t1\t2\n1\t2\t3\n".toList := by
  decide +kernel

/-! ## Interpolation_2D() -/

/-- every entry of the zero table reads as zero, whatever the indices -/
theorem zeroTable_F (o : Interp.Obj2) (hf : o.f = #[#[0, 0, 0], #[0, 0, 0], #[0, 0, 0]]) (i j : Nat) : o.F i j = 0 := by
  unfold Interp.Obj2.F
  rw [hf]
  have h1 : ∀ i : Nat, (#[#[0, 0, 0], #[0, 0, 0], #[0, 0, 0]] : Array (Array Rat)).getD i #[] = #[0, 0, 0] ∨
      (#[#[0, 0, 0], #[0, 0, 0], #[0, 0, 0]] : Array (Array Rat)).getD i #[] = #[] := by
    intro i; rcases i with _ | _ | _ | i <;> simp [Array.getD]
  have h2 : ∀ j : Nat, (#[0, 0, 0] : Array Rat).getD j 0 = 0 := by
    intro j; rcases j with _ | _ | _ | j <;> simp [Array.getD]
  rcases h1 i with h | h <;> rw [h]
  · exact h2 j
  · simp [Array.getD]

/-- **default2D_zero**: the default-constructed `Interpolation_2D()` exists (its constructor does not stop) and
    every successful evaluation returns `0` -/
theorem default2D_zero : ∃ o : Interp.Obj2, default2D = .ok o ∧ o.pref = 1 ∧
    ∀ vx vy r o', o.interpolate vx vy = .ok (r, o') → r = 0 := by
  have hmk : ∃ o : Interp.Obj2, default2D = .ok o ∧ o.pref = 1 ∧ o.f = #[#[0, 0, 0], #[0, 0, 0], #[0, 0, 0]] := by
    unfold default2D Interp.mk2 Interp.mk
    norm_num [Interp.strictlyIncreasing]
  obtain ⟨o, ho, hp, hf⟩ := hmk
  refine ⟨o, ho, hp, ?_⟩
  intro vx vy r o' h
  unfold Interp.Obj2.interpolate at h
  simp only [bind, Except.bind] at h
  split at h
  · cases h
  · split at h
    · cases h
    · simp only [pure, Except.pure, Except.ok.injEq, Prod.mk.injEq] at h
      rw [← h.1]
      simp [zeroTable_F o hf, Interp.bilinear]

/-- the index objects of `Interpolation_2D()`: knots `-1, 0, 1`, fresh search state -/
def dObj : Interp.Obj := ⟨3, #[-1, 0, 1], #[0, 0, 0], 1, ⟨0, false⟩⟩

theorem default2D_eq : default2D = .ok ⟨dObj, dObj, #[#[0, 0, 0], #[0, 0, 0], #[0, 0, 0]], 1⟩ := by
  unfold default2D Interp.mk2 Interp.mk dObj
  norm_num [Interp.strictlyIncreasing]

theorem locate_in_domain (o : Interp.Obj) (v : ℚ) (h1 : o.x 0 ≤ v) (h2 : v ≤ o.x (o.N - 1)) :
    ∃ j o', o.locate v = .ok (j, o') ∧ o'.N = o.N ∧ o'.xs = o.xs := by
  have hx' : ¬ (v < o.x 0 ∨ v > o.x (o.N - 1)) := by intro h; rcases h with h | h <;> linarith
  unfold Interp.Obj.locate Interp.locate
  simp only [hx', if_false]
  exact ⟨_, _, rfl, rfl, rfl⟩

/-- **default2D_total**: on its whole domain `[-1,1]²` the default `Interpolation_2D()` evaluates, and to `0` -/
theorem default2D_total (vx vy : ℚ) (hx : -1 ≤ vx ∧ vx ≤ 1) (hy : -1 ≤ vy ∧ vy ≤ 1) :
    ∃ o o', default2D = .ok o ∧ o.interpolate vx vy = .ok (0, o') := by
  obtain ⟨o, ho, _, hz⟩ := default2D_zero
  have he := default2D_eq
  rw [ho] at he
  have hox : o.ox = dObj := by injection he with he; rw [he]
  have hoy : o.oy = dObj := by injection he with he; rw [he]
  have e0 : dObj.x 0 = -1 := by simp [Interp.Obj.x, dObj]
  have e1 : dObj.x (dObj.N - 1) = 1 := by simp [Interp.Obj.x, dObj]
  obtain ⟨i, ox', hi, -, -⟩ := locate_in_domain dObj vx (by rw [e0]; exact hx.1) (by rw [e1]; exact hx.2)
  obtain ⟨j, oy', hj, -, -⟩ := locate_in_domain dObj vy (by rw [e0]; exact hy.1) (by rw [e1]; exact hy.2)
  have hres : ∃ r o', o.interpolate vx vy = .ok (r, o') := by
    unfold Interp.Obj2.interpolate
    rw [hox, hoy]
    simp only [bind, Except.bind, hi, hj, pure, Except.pure]
    exact ⟨_, _, rfl⟩
  obtain ⟨r, o', hr⟩ := hres
  have := hz vx vy r o' hr
  subst this
  exact ⟨o, o', ho, hr⟩

example : (-1 : ℚ) ≤ 1 / 2 ∧ (1 / 2 : ℚ) ≤ 1 := by norm_num

end Lp.C20
