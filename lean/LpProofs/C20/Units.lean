/-
  Helper lemmas for the units part of C20: soundness of the start-up model for well-ordered
  tables and soundness of the partial evaluator.
-/
import LpModel.C20
namespace Lp.C20

theorem get_set (σ : State) (n : String) (v : Rat) (m : String) :
    get (set σ n v) m = if m = n then v else get σ m := by
  unfold get set
  by_cases h : m = n
  · subst h; simp [List.lookup]
  · have : (m == n) = false := by simpa using h
    simp [List.lookup, this, h]

theorem eval_congr (T : Transc) (σ σ' : State) (e : Expr)
    (h : ∀ r ∈ refs e, get σ r = get σ' r) : eval T σ e = eval T σ' e := by
  induction e with
  | lit v => rfl
  | ref n => exact h n (by simp [refs])
  | pi => rfl
  | neg a ih => simp only [eval]; rw [ih (fun r hr => h r (by simpa [refs] using hr))]
  | add a b iha ihb =>
    simp only [eval]
    rw [iha (fun r hr => h r (by simp [refs, hr])), ihb (fun r hr => h r (by simp [refs, hr]))]
  | sub a b iha ihb =>
    simp only [eval]
    rw [iha (fun r hr => h r (by simp [refs, hr])), ihb (fun r hr => h r (by simp [refs, hr]))]
  | mul a b iha ihb =>
    simp only [eval]
    rw [iha (fun r hr => h r (by simp [refs, hr])), ihb (fun r hr => h r (by simp [refs, hr]))]
  | div a b iha ihb =>
    simp only [eval]
    rw [iha (fun r hr => h r (by simp [refs, hr])), ihb (fun r hr => h r (by simp [refs, hr]))]
  | powi a k ih => simp only [eval]; rw [ih (fun r hr => h r (by simpa [refs] using hr))]
  | sqrt a ih => simp only [eval]; rw [ih (fun r hr => h r (by simpa [refs] using hr))]
  | powr a b iha ihb =>
    simp only [eval]
    rw [iha (fun r hr => h r (by simp [refs, hr])), ihb (fun r hr => h r (by simp [refs, hr]))]

def names (l : List Def) : List String := l.map (·.1)

theorem run_get_not_mem (T : Transc) : ∀ (l : List Def) (σ : State) (n : String),
    n ∉ names l → get (run T l σ) n = get σ n := by
  intro l
  induction l with
  | nil => intro σ n _; rfl
  | cons p r ih =>
    intro σ n hn
    obtain ⟨m, e⟩ := p
    simp only [names, List.map_cons, List.mem_cons, not_or] at hn
    simp only [run]
    rw [ih _ _ hn.2, get_set, if_neg hn.1]

theorem all_contains {l S : List String} (h : l.all (fun x => S.contains x) = true) :
    ∀ x ∈ l, x ∈ S := by
  intro x hx
  have := List.all_eq_true.mp h x hx
  simpa using this

/-- reads of a `readsOK` list are in `done` or among the list's own names -/
theorem readsOK_refs : ∀ (l : List Def) (done : List String), readsOK done l = true →
    ∀ p ∈ l, ∀ x ∈ refs p.2, x ∈ done ∨ x ∈ names l := by
  intro l
  induction l with
  | nil => intro _ _ p hp; cases hp
  | cons hd r ih =>
    intro done h p hp x hx
    obtain ⟨n, e⟩ := hd
    simp only [readsOK, Bool.and_eq_true] at h
    rcases List.mem_cons.mp hp with rfl | hp
    · exact Or.inl (all_contains h.1 x hx)
    · rcases ih (n :: done) h.2 p hp x hx with h1 | h1
      · rcases List.mem_cons.mp h1 with rfl | h1
        · exact Or.inr (by simp [names])
        · exact Or.inl h1
      · exact Or.inr (by simp only [names, List.map_cons, List.mem_cons]; exact Or.inr h1)

/-- generic: initialisers run in order, each reading only `done` names (never written by the
    list) or names written earlier, leave every equation `n = e` true in the final state -/
theorem run_sound (T : Transc) : ∀ (l : List Def) (done : List String) (σ : State),
    readsOK done l = true → (names l).Nodup → (∀ n ∈ names l, n ∉ done) →
    ∀ p ∈ l, get (run T l σ) p.1 = eval T (run T l σ) p.2 := by
  intro l
  induction l with
  | nil => intro _ _ _ _ _ p hp; cases hp
  | cons hd r ih =>
    intro done σ hro hnd hdis p hp
    obtain ⟨n, e⟩ := hd
    simp only [readsOK, Bool.and_eq_true] at hro
    simp only [names, List.map_cons, List.nodup_cons] at hnd
    have hn_done : n ∉ done := hdis n (by simp [names])
    rcases List.mem_cons.mp hp with rfl | hp
    · simp only [run]
      rw [run_get_not_mem T r _ n hnd.1, get_set, if_pos rfl]
      apply eval_congr
      intro x hx
      have hxd : x ∈ done := all_contains hro.1 x hx
      have hxr : x ∉ names r := fun hc => hdis x (by simp only [names, List.map_cons, List.mem_cons]; exact Or.inr hc) hxd
      have hxn : x ≠ n := fun hc => hn_done (hc ▸ hxd)
      rw [run_get_not_mem T r _ x hxr, get_set, if_neg hxn]
    · simp only [run]
      apply ih (n :: done) _ hro.2 hnd.2 _ p hp
      intro k hk hc
      rcases List.mem_cons.mp hc with rfl | hc
      · exact hnd.1 hk
      · exact hdis k (by simp only [names, List.map_cons, List.mem_cons]; exact Or.inr hk) hc

theorem split_perm : ∀ (defs : List Def) (S : List String),
    List.Perm ((split S defs).1 ++ (split S defs).2) defs := by
  intro defs
  induction defs with
  | nil => intro S; simp [split]
  | cons hd r ih =>
    intro S
    obtain ⟨n, e⟩ := hd
    simp only [split]
    split
    · simpa using (ih (n :: S))
    · simp only
      exact List.perm_middle.trans ((ih S).cons _)

/-- static definitions read textually earlier static names only — by construction -/
theorem static_readsOK : ∀ (defs : List Def) (S : List String), readsOK S (split S defs).1 = true := by
  intro defs
  induction defs with
  | nil => intro S; rfl
  | cons hd r ih =>
    intro S
    obtain ⟨n, e⟩ := hd
    simp only [split]
    split
    · rename_i h
      simp only [isStaticExpr, Bool.and_eq_true] at h
      simp only [readsOK, Bool.and_eq_true]
      exact ⟨h.2, ih (n :: S)⟩
    · exact ih S

theorem nodupNames_iff : ∀ l : List String, nodupNames l = true ↔ l.Nodup := by
  intro l
  induction l with
  | nil => simp [nodupNames]
  | cons a r ih => simp [nodupNames, ih]

/-! ### partial evaluator -/

theorem eval_mk2_add (T : Transc) (s : State) (a b : Expr) :
    eval T s (mk2 .add (· + ·) a b) = eval T s a + eval T s b := by
  cases a <;> cases b <;> rfl
theorem eval_mk2_sub (T : Transc) (s : State) (a b : Expr) :
    eval T s (mk2 .sub (· - ·) a b) = eval T s a - eval T s b := by
  cases a <;> cases b <;> rfl
theorem eval_mk2_mul (T : Transc) (s : State) (a b : Expr) :
    eval T s (mk2 .mul (· * ·) a b) = eval T s a * eval T s b := by
  cases a <;> cases b <;> rfl
theorem eval_mk2_div (T : Transc) (s : State) (a b : Expr) :
    eval T s (mk2 .div (· / ·) a b) = eval T s a / eval T s b := by
  cases a <;> cases b <;> rfl

/-- the symbolic state describes the concrete one -/
def SInv (T : Transc) (σs : SState) (σ : State) : Prop := ∀ n, eval T [] (getS σs n) = get σ n

theorem pe_sound (T : Transc) (σs : SState) (σ : State) (h : SInv T σs σ) (e : Expr) :
    eval T [] (pe σs e) = eval T σ e := by
  induction e with
  | lit v => rfl
  | ref n => exact h n
  | pi => rfl
  | neg a ih =>
    simp only [pe, eval]; rw [← ih]
    cases pe σs a <;> rfl
  | add a b iha ihb => simp only [pe, eval]; rw [eval_mk2_add, iha, ihb]
  | sub a b iha ihb => simp only [pe, eval]; rw [eval_mk2_sub, iha, ihb]
  | mul a b iha ihb => simp only [pe, eval]; rw [eval_mk2_mul, iha, ihb]
  | div a b iha ihb => simp only [pe, eval]; rw [eval_mk2_div, iha, ihb]
  | powi a k ih =>
    simp only [pe, eval]; rw [← ih]
    cases pe σs a <;> rfl
  | sqrt a ih => simp only [pe, eval]; rw [ih]
  | powr a b iha ihb => simp only [pe, eval]; rw [iha, ihb]

theorem runS_sound (T : Transc) : ∀ (l : List Def) (σs : SState) (σ : State),
    SInv T σs σ → SInv T (runS l σs) (run T l σ) := by
  intro l
  induction l with
  | nil => intro _ _ h; exact h
  | cons hd r ih =>
    intro σs σ h
    obtain ⟨n, e⟩ := hd
    simp only [runS, run]
    apply ih
    intro m
    rw [get_set]
    unfold getS
    by_cases hm : m = n
    · subst hm; simp [List.lookup, pe_sound T σs σ h e]
    · have : (m == n) = false := by simpa using hm
      simp only [List.lookup, this, if_neg hm]
      exact h m

theorem startupS_sound (T : Transc) (defs : List Def) : SInv T (startupS defs) (startup T defs) := by
  unfold startupS startup
  apply runS_sound
  apply runS_sound
  intro n
  rfl

end Lp.C20
