/-
  C20 — character level of the six-digit output: `parseDec (render d) = d.value` for every six-digit
  decimal, in all three branches of the `%g` rendering, and the alphabet of `render`.
  Digit strings are handled through core's `Nat.ofDigitChars` / `Nat.toDigits` lemmas.
-/
import LpModel.C20
import LpProofs.C20.Dec
namespace Lp.C20
open Lp.Dec

/-- value of a string of decimal digits -/
abbrev dval (cs : List Char) : ℕ := Nat.ofDigitChars 10 cs 0

def AllDigits (cs : List Char) : Prop := ∀ c ∈ cs, c.isDigit = true

instance (cs : List Char) : Decidable (AllDigits cs) := by unfold AllDigits; infer_instance

theorem AllDigits.append {a b : List Char} (ha : AllDigits a) (hb : AllDigits b) : AllDigits (a ++ b) := by
  intro c hc
  rcases List.mem_append.mp hc with h | h
  · exact ha c h
  · exact hb c h

theorem allDigits_replicate_zero (k : ℕ) : AllDigits (List.replicate k '0') := by
  intro c hc
  rw [(List.mem_replicate.mp hc).2]; decide

theorem allDigits_toDigits (n : ℕ) : AllDigits (Nat.toDigits 10 n) :=
  fun _ hc => Nat.isDigit_of_mem_toDigits (by decide) (by decide) hc

theorem digitVal?_of_isDigit {c : Char} (h : c.isDigit = true) :
    digitVal? c = some (c.toNat - '0'.toNat) := by
  unfold digitVal?
  rw [if_pos]
  simp only [Char.isDigit, Bool.and_eq_true, decide_eq_true_eq] at h
  exact ⟨h.1, h.2⟩

theorem digitVal?_none_of_not_isDigit {c : Char} (h : c.isDigit = false) : digitVal? c = none := by
  unfold digitVal?
  rw [if_neg]
  intro hc
  have : c.isDigit = true := by
    simp only [Char.isDigit, Bool.and_eq_true, decide_eq_true_eq]
    exact ⟨hc.1, hc.2⟩
  rw [h] at this; cases this

/-- a rest at which `takeDigits` stops -/
def Stops (rest : List Char) : Prop := ∀ c r, rest = c :: r → c.isDigit = false

theorem stops_nil : Stops [] := fun _ _ h => by cases h
theorem stops_cons {c : Char} {r : List Char} (h : c.isDigit = false) : Stops (c :: r) :=
  fun _ _ he => by cases he; exact h

/-- `takeDigits` reads a whole digit string -/
theorem takeDigits_digits : ∀ (ds rest : List Char) (acc n : ℕ), AllDigits ds → Stops rest →
    takeDigits (ds ++ rest) acc n = (Nat.ofDigitChars 10 ds acc, n + ds.length, rest) := by
  intro ds
  induction ds with
  | nil =>
    intro rest acc n _ hs
    cases rest with
    | nil => rfl
    | cons c r =>
      simp only [List.nil_append, takeDigits, digitVal?_none_of_not_isDigit (hs c r rfl),
        Nat.ofDigitChars_nil, List.length_nil, Nat.add_zero]
  | cons c ds ih =>
    intro rest acc n hd hs
    have hc : c.isDigit = true := hd c (by simp)
    simp only [List.cons_append, takeDigits, digitVal?_of_isDigit hc]
    rw [ih rest _ _ (fun c' hc' => hd c' (by simp [hc'])) hs, Nat.ofDigitChars_cons, Nat.mul_comm acc 10,
      List.length_cons]
    congr 2
    omega

/-! ### stages of `parseDec` -/

theorem splitSign_of_digit {c : Char} (r : List Char) (h : c.isDigit = true) :
    splitSign (c :: r) = (false, c :: r) := by
  unfold splitSign
  split
  · rename_i heq; cases heq; exact absurd h (by decide)
  · rename_i heq; cases heq; exact absurd h (by decide)
  · rfl

def fracStr : Option (List Char) → List Char
  | none => []
  | some fr => '.' :: fr

def expStr : Option (Bool × List Char) → List Char
  | none => []
  | some (en, ex) => 'e' :: (if en then '-' else '+') :: ex

def fracN : Option (List Char) → ℕ × ℕ
  | none => (0, 0)
  | some fr => (dval fr, fr.length)

def expZ : Option (Bool × List Char) → Int
  | none => 0
  | some (en, ex) => if en then -(dval ex : Int) else dval ex

theorem stops_expStr (ex : Option (Bool × List Char)) : Stops (expStr ex) := by
  cases ex with
  | none => exact stops_nil
  | some p => exact stops_cons (by decide)

theorem stops_frac_exp (fr : Option (List Char)) (ex : Option (Bool × List Char)) :
    Stops (fracStr fr ++ expStr ex) := by
  cases fr with
  | none => simpa [fracStr] using stops_expStr ex
  | some f => exact stops_cons (by decide)

theorem fracPart_frac_exp (fr : Option (List Char)) (ex : Option (Bool × List Char))
    (hfr : ∀ f, fr = some f → AllDigits f) :
    fracPart (fracStr fr ++ expStr ex) = ((fracN fr).1, (fracN fr).2, expStr ex) := by
  cases fr with
  | none =>
    cases ex with
    | none => rfl
    | some p => rfl
  | some f =>
    show takeDigits (f ++ expStr ex) 0 0 = _
    rw [takeDigits_digits f _ 0 0 (hfr f rfl) (stops_expStr ex)]
    simp [fracN]

theorem tailExp_expStr (ex : Option (Bool × List Char))
    (hex : ∀ en e, ex = some (en, e) → AllDigits e ∧ e ≠ []) :
    tailExp (expStr ex) = some (expZ ex) := by
  cases ex with
  | none => rfl
  | some p =>
    obtain ⟨en, e⟩ := p
    obtain ⟨hd, hne⟩ := hex en e rfl
    have hs : splitSign ((if en then '-' else '+') :: e) = (en, e) := by cases en <;> rfl
    have ht : takeDigits e 0 0 = (dval e, 0 + e.length, []) := by
      have := takeDigits_digits e [] 0 0 hd stops_nil
      simpa using this
    have hl : 0 < e.length := List.length_pos_iff.mpr hne
    show (if ('e' : Char) = 'e' ∨ ('e' : Char) = 'E' then expPart ((if en then '-' else '+') :: e) else none) = _
    rw [if_pos (Or.inl rfl)]
    unfold expPart
    simp only [hs, ht, expZ]
    rw [if_neg (by simp [hne])]

/-- **the grammar lemma**: sign, integer digits, optional `.digits`, optional `e±digits` parse to the
    value they denote -/
theorem parseDec_gen (neg : Bool) (ip : List Char) (fr : Option (List Char)) (ex : Option (Bool × List Char))
    (hip : AllDigits ip) (hne : ip ≠ []) (hfr : ∀ f, fr = some f → AllDigits f)
    (hex : ∀ en e, ex = some (en, e) → AllDigits e ∧ e ≠ []) :
    parseDec (signChars neg ++ ip ++ fracStr fr ++ expStr ex)
      = some ((if neg then -1 else 1) *
          ((((dval ip : ℕ) : ℚ) + ((fracN fr).1 : ℚ) * pow10 (-((fracN fr).2 : Int))) * pow10 (expZ ex))) := by
  have h1 : splitSign (signChars neg ++ ip ++ fracStr fr ++ expStr ex) = (neg, ip ++ (fracStr fr ++ expStr ex)) := by
    cases neg with
    | true => simp [signChars, splitSign]
    | false =>
      obtain ⟨c, r, rfl⟩ := List.exists_cons_of_ne_nil hne
      simp only [signChars, Bool.false_eq_true, if_false, List.nil_append, List.cons_append, List.append_assoc]
      exact splitSign_of_digit _ (hip c (by simp))
  have h2 := takeDigits_digits ip (fracStr fr ++ expStr ex) 0 0 hip (stops_frac_exp fr ex)
  have h3 := fracPart_frac_exp fr ex hfr
  have h4 := tailExp_expStr ex hex
  have hl : 0 < ip.length := List.length_pos_iff.mpr hne
  unfold parseDec
  simp only [h1, h2, h3, h4]
  rw [if_neg (by omega)]

/-- non-vacuity: `-12.5e+07` -/
example : AllDigits "12".toList ∧ "12".toList ≠ [] ∧ (∀ f, some "5".toList = some f → AllDigits f) ∧
    (∀ en e, some (false, "07".toList) = some (en, e) → AllDigits e ∧ e ≠ []) ∧
    parseDec "-12.5e+07".toList = some (-125000000) := by
  refine ⟨by decide, by decide, ?_, ?_, by decide +kernel⟩
  · intro f hf; cases hf; decide
  · intro en e he; cases he; exact ⟨by decide, by decide⟩

/-! ### the six mantissa digits -/

theorem digits6_allDigits (m : ℕ) : AllDigits (digits6 m) :=
  (allDigits_replicate_zero _).append (allDigits_toDigits m)

theorem digits6_length {m : ℕ} (h : m < 1000000) : (digits6 m).length = 6 := by
  have h6 : (Nat.toDigits 10 m).length ≤ 6 :=
    (Nat.length_toDigits_le_iff (b := 10) (k := 6) (by decide) (by decide)).mpr (by omega)
  unfold digits6
  simp only [List.length_append, List.length_replicate]
  omega

theorem digits6_val (m : ℕ) : dval (digits6 m) = m := by
  unfold digits6 dval
  simp only [Nat.ofDigitChars_append, Nat.ofDigitChars_replicate_zero, Nat.mul_zero,
    Nat.ofDigitChars_ten_toDigits]

theorem dval_append (a b : List Char) : dval (a ++ b) = 10 ^ b.length * dval a + dval b := by
  unfold dval
  rw [Nat.ofDigitChars_append, Nat.ofDigitChars_eq_ofDigitChars_zero]

theorem dval_zeros_append (k : ℕ) (s : List Char) : dval (List.replicate k '0' ++ s) = dval s := by
  unfold dval
  rw [Nat.ofDigitChars_append, Nat.ofDigitChars_replicate_zero, Nat.mul_zero]

theorem dval_append_zeros (s : List Char) (k : ℕ) : dval (s ++ List.replicate k '0') = 10 ^ k * dval s := by
  unfold dval
  rw [Nat.ofDigitChars_append, Nat.ofDigitChars_replicate_zero]

/-- stripping removes a block of trailing zeros and nothing else -/
theorem stripZeros_spec (ds : List Char) : ∃ k, ds = stripZeros ds ++ List.replicate k '0' := by
  refine ⟨(ds.reverse.takeWhile (· == '0')).length, ?_⟩
  have h1 : ds.reverse = ds.reverse.takeWhile (· == '0') ++ ds.reverse.dropWhile (· == '0') :=
    List.takeWhile_append_dropWhile.symm
  have h2 : ds.reverse.takeWhile (· == '0') = List.replicate (ds.reverse.takeWhile (· == '0')).length '0' := by
    rw [List.eq_replicate_iff]
    refine ⟨rfl, fun b hb => ?_⟩
    have := List.all_eq_true.mp (List.all_takeWhile (p := (· == '0')) (l := ds.reverse)) b hb
    simpa using this
  have h3 : ds = (ds.reverse.dropWhile (· == '0')).reverse ++ (ds.reverse.takeWhile (· == '0')).reverse := by
    rw [← List.reverse_append, ← h1, List.reverse_reverse]
  unfold stripZeros
  rw [h2] at h3
  rw [List.reverse_replicate] at h3
  exact h3

theorem mem_stripZeros {c : Char} {ds : List Char} (h : c ∈ stripZeros ds) : c ∈ ds := by
  obtain ⟨k, hk⟩ := stripZeros_spec ds
  rw [hk]; exact List.mem_append_left _ h

theorem stripZeros_allDigits {ds : List Char} (h : AllDigits ds) : AllDigits (stripZeros ds) :=
  fun c hc => h c (mem_stripZeros hc)

theorem pow10_neg_nat_mul (k : ℕ) : pow10 (-(k : Int)) * (10 : ℚ) ^ k = 1 := by
  rw [← pow10_natCast]; exact pow10_neg_mul _

/-- a fraction keeps its value when trailing zeros are stripped -/
theorem frac_strip (ds : List Char) :
    ((dval (stripZeros ds) : ℕ) : ℚ) * pow10 (-((stripZeros ds).length : Int))
      = ((dval ds : ℕ) : ℚ) * pow10 (-(ds.length : Int)) := by
  obtain ⟨k, hk⟩ := stripZeros_spec ds
  generalize stripZeros ds = s at hk
  subst hk
  rw [dval_append_zeros, List.length_append, List.length_replicate]
  have : (-(((s.length + k : ℕ)) : Int)) = -(s.length : Int) + -(k : Int) := by push_cast; ring
  rw [this, pow10_add]
  push_cast
  have hk := pow10_neg_nat_mul k
  symm
  calc (10 : ℚ) ^ k * (dval s : ℚ) * (pow10 (-(s.length : Int)) * pow10 (-(k : Int)))
      = (dval s : ℚ) * pow10 (-(s.length : Int)) * (pow10 (-(k : Int)) * (10 : ℚ) ^ k) := by ring
    _ = _ := by rw [hk, mul_one]

/-- integer digits plus fraction digits: the value of the whole string, scaled -/
theorem split_value (ds : List Char) (p : ℕ) :
    ((dval (ds.take p) : ℕ) : ℚ) + ((dval (ds.drop p) : ℕ) : ℚ) * pow10 (-((ds.drop p).length : Int))
      = ((dval ds : ℕ) : ℚ) * pow10 (-((ds.drop p).length : Int)) := by
  have h : dval ds = 10 ^ (ds.drop p).length * dval (ds.take p) + dval (ds.drop p) := by
    conv_lhs => rw [← List.take_append_drop p ds]
    exact dval_append _ _
  rw [h]
  push_cast
  have hk := pow10_neg_nat_mul (ds.drop p).length
  calc ((dval (ds.take p) : ℕ) : ℚ) + ((dval (ds.drop p) : ℕ) : ℚ) * pow10 (-((ds.drop p).length : Int))
      = (dval (ds.take p) : ℚ) * (pow10 (-((ds.drop p).length : Int)) * (10 : ℚ) ^ (ds.drop p).length)
          + (dval (ds.drop p) : ℚ) * pow10 (-((ds.drop p).length : Int)) := by rw [hk, mul_one]
    _ = _ := by ring

/-- `None` for an empty fraction (the bare point is not written) -/
def optFr (s : List Char) : Option (List Char) := if s.isEmpty then none else some s

theorem withPoint_eq (ip s : List Char) : withPoint ip s = ip ++ fracStr (optFr s) := by
  unfold withPoint optFr
  split <;> simp [fracStr]

theorem fracN_optFr (s : List Char) :
    (((fracN (optFr s)).1 : ℕ) : ℚ) * pow10 (-((fracN (optFr s)).2 : Int))
      = ((dval s : ℕ) : ℚ) * pow10 (-(s.length : Int)) := by
  unfold optFr
  split
  · rename_i h
    have : s = [] := List.isEmpty_iff.mp h
    subst this
    simp [fracN, dval]
  · rfl

theorem optFr_allDigits {s : List Char} (h : AllDigits s) : ∀ f, optFr s = some f → AllDigits f := by
  intro f hf
  unfold optFr at hf
  split at hf
  · cases hf
  · cases hf; exact h

/-- digits of the exponent: at least two, value `|x|` -/
theorem expDigits_eq (x : Int) :
    'e' :: expDigits x = expStr (some (decide (x < 0),
      List.replicate (2 - (Nat.toDigits 10 x.natAbs).length) '0' ++ Nat.toDigits 10 x.natAbs)) := by
  unfold expDigits expStr
  by_cases h : x < 0 <;> simp [h]

theorem expZ_expDigits (x : Int) :
    expZ (some (decide (x < 0),
      List.replicate (2 - (Nat.toDigits 10 x.natAbs).length) '0' ++ Nat.toDigits 10 x.natAbs)) = x := by
  unfold expZ
  simp only [dval_zeros_append, dval, Nat.ofDigitChars_ten_toDigits, decide_eq_true_eq]
  split <;> omega

theorem Dec6.value_eq (d : Dec6) :
    d.value = (if d.neg then -1 else 1) * (((d.m : ℕ) : ℚ) * pow10 (d.e - 5)) := rfl

/-- **parseDec_render** — reading the characters of a six-digit decimal gives back its value:
    for every sign, every mantissa below `10^6` (in particular the six-digit mantissas
    `10^5 ≤ m < 10^6` that `toDec6` produces) and every exponent — scientific notation with
    any number of exponent digits, fixed notation with the point inside or in front of the
    digits, trailing zeros and the bare point stripped. -/
theorem parseDec_render (d : Dec6) (hm : d.m < 1000000) : parseDec (render d) = some d.value := by
  have hD := digits6_allDigits d.m
  have hL := digits6_length hm
  have hV := digits6_val d.m
  rw [Dec6.value_eq]
  unfold render
  simp only
  split
  · -- scientific notation
    rw [withPoint_eq, List.append_assoc, expDigits_eq, ← List.append_assoc, ← List.append_assoc]
    rw [parseDec_gen d.neg _ _ _ (fun c hc => hD c (List.mem_of_mem_take hc))
      (by intro h; have := congrArg List.length h; simp [hL] at this)
      (optFr_allDigits (stripZeros_allDigits (fun c hc => hD c (List.mem_of_mem_drop hc))))
      (by intro en e he; cases he
          exact ⟨(allDigits_replicate_zero _).append (allDigits_toDigits _), by simp⟩)]
    rw [fracN_optFr, frac_strip, split_value, expZ_expDigits, hV]
    have h5 : ((digits6 d.m).drop 1).length = 5 := by simp [hL]
    rw [h5, mul_assoc, ← pow10_add, show (-((5 : ℕ) : Int) + d.e) = d.e - 5 by omega]
  · split
    · -- fixed notation, point after `e + 1` digits
      rename_i h1 h2
      have he : 0 ≤ d.e ∧ d.e ≤ 5 := by omega
      rw [withPoint_eq, ← List.append_assoc]
      have hx : signChars d.neg ++ (digits6 d.m).take (d.e.toNat + 1)
          ++ fracStr (optFr (stripZeros ((digits6 d.m).drop (d.e.toNat + 1))))
          = signChars d.neg ++ (digits6 d.m).take (d.e.toNat + 1)
            ++ fracStr (optFr (stripZeros ((digits6 d.m).drop (d.e.toNat + 1)))) ++ expStr none := by
        simp [expStr]
      rw [hx, parseDec_gen d.neg _ _ _ (fun c hc => hD c (List.mem_of_mem_take hc))
        (by intro h; have := congrArg List.length h; simp [hL] at this)
        (optFr_allDigits (stripZeros_allDigits (fun c hc => hD c (List.mem_of_mem_drop hc))))
        (by intro en e he; cases he)]
      rw [fracN_optFr, frac_strip, split_value, hV]
      have h5 : (((digits6 d.m).drop (d.e.toNat + 1)).length : Int) = 5 - d.e := by
        simp only [List.length_drop, hL]; omega
      rw [h5, mul_assoc, ← pow10_add]
      congr 3
      simp [expZ]
    · -- fixed notation, `0.` and leading zeros
      rename_i h1 h2
      have he : -4 ≤ d.e ∧ d.e ≤ -1 := by omega
      have hx : signChars d.neg ++ '0' :: '.' :: (List.replicate ((-d.e).toNat - 1) '0' ++ stripZeros (digits6 d.m))
          = signChars d.neg ++ ['0']
            ++ fracStr (some (List.replicate ((-d.e).toNat - 1) '0' ++ stripZeros (digits6 d.m))) ++ expStr none := by
        simp [expStr, fracStr]
      rw [hx, parseDec_gen d.neg _ _ _ (by intro c hc; simp at hc; subst hc; decide) (by simp)
        (by intro f hf; cases hf
            exact (allDigits_replicate_zero _).append (stripZeros_allDigits hD))
        (by intro en e he; cases he)]
      have hs := frac_strip (digits6 d.m)
      rw [hL, hV] at hs
      simp only [fracN, dval_zeros_append, List.length_append, List.length_replicate, expZ]
      have h0 : dval ['0'] = 0 := by decide
      rw [h0]
      have hsplit : (-(((((-d.e).toNat - 1) + (stripZeros (digits6 d.m)).length : ℕ)) : Int))
          = -((stripZeros (digits6 d.m)).length : Int) + (d.e + 1) := by
        push_cast; omega
      rw [hsplit, pow10_add]
      have key : (((0 : ℕ) : ℚ) + ((dval (stripZeros (digits6 d.m)) : ℕ) : ℚ)
            * (pow10 (-((stripZeros (digits6 d.m)).length : Int)) * pow10 (d.e + 1))) * pow10 0
          = ((d.m : ℕ) : ℚ) * pow10 (d.e - 5) := by
        rw [pow10_zero, mul_one, Nat.cast_zero, zero_add, ← mul_assoc, hs, mul_assoc, ← pow10_add,
          show (-((6 : ℕ) : Int) + (d.e + 1)) = d.e - 5 by omega]
      rw [key]

example : parseDec (render ⟨true, 250000, -7⟩) = some (-1 / 4000000) ∧
    String.ofList (render ⟨true, 250000, -7⟩) = "-2.5e-07" := by decide +kernel
example : String.ofList (render ⟨false, 123457, 3⟩) = "1234.57" ∧
    String.ofList (render ⟨false, 120000, -3⟩) = "0.0012" ∧
    String.ofList (render ⟨false, 100000, 123⟩) = "1e+123" := by decide +kernel

/-- the character `0` written for a zero reads back as zero -/
theorem parseDec_zero : parseDec ['0'] = some 0 := by decide +kernel

/-! ### the alphabet of the rendering -/

/-- digits, `-`, `+`, `.`, `e` -/
def OkChar (c : Char) : Prop := c.isDigit = true ∨ c = '-' ∨ c = '+' ∨ c = '.' ∨ c = 'e'

theorem okChar_of_digit {c : Char} (h : c.isDigit = true) : OkChar c := Or.inl h

theorem okChar_signChars {neg : Bool} {c : Char} (h : c ∈ signChars neg) : OkChar c := by
  unfold signChars at h
  split at h
  · simp at h; subst h; exact Or.inr (Or.inl rfl)
  · simp at h

theorem okChar_withPoint {ip fr : List Char} (hi : AllDigits ip) (hf : AllDigits fr) {c : Char}
    (h : c ∈ withPoint ip fr) : OkChar c := by
  unfold withPoint at h
  split at h
  · exact Or.inl (hi c h)
  · rcases List.mem_append.mp h with h | h
    · exact Or.inl (hi c h)
    · rcases List.mem_cons.mp h with h | h
      · subst h; exact Or.inr (Or.inr (Or.inr (Or.inl rfl)))
      · exact Or.inl (hf c h)

theorem okChar_expDigits {x : Int} {c : Char} (h : c ∈ expDigits x) : OkChar c := by
  unfold expDigits at h
  rcases List.mem_cons.mp h with h | h
  · split at h
    · subst h; exact Or.inr (Or.inl rfl)
    · subst h; exact Or.inr (Or.inr (Or.inl rfl))
  · exact Or.inl (((allDigits_replicate_zero _).append (allDigits_toDigits _)) c h)

/-- every character of a rendered six-digit decimal is a digit, `-`, `+`, `.` or `e`
    (any mantissa, any exponent) -/
theorem render_chars (d : Dec6) : ∀ c ∈ render d, OkChar c := by
  have hD := digits6_allDigits d.m
  have hT : ∀ p, AllDigits ((digits6 d.m).take p) := fun p c hc => hD c (List.mem_of_mem_take hc)
  have hS : ∀ p, AllDigits (stripZeros ((digits6 d.m).drop p)) :=
    fun p => stripZeros_allDigits (fun c hc => hD c (List.mem_of_mem_drop hc))
  intro c hc
  unfold render at hc
  simp only at hc
  split at hc
  · rcases List.mem_append.mp hc with h | h
    · rcases List.mem_append.mp h with h | h
      · exact okChar_signChars h
      · exact okChar_withPoint (hT 1) (hS 1) h
    · rcases List.mem_cons.mp h with h | h
      · subst h; exact Or.inr (Or.inr (Or.inr (Or.inr rfl)))
      · exact okChar_expDigits h
  · split at hc
    · rcases List.mem_append.mp hc with h | h
      · exact okChar_signChars h
      · exact okChar_withPoint (hT _) (hS _) h
    · rcases List.mem_append.mp hc with h | h
      · exact okChar_signChars h
      · rcases List.mem_cons.mp h with h | h
        · subst h; exact Or.inl (by decide)
        · rcases List.mem_cons.mp h with h | h
          · subst h; exact Or.inr (Or.inr (Or.inr (Or.inl rfl)))
          · exact Or.inl (((allDigits_replicate_zero _).append (stripZeros_allDigits hD)) c h)

theorem digits6_ne_nil (m : ℕ) : digits6 m ≠ [] := by
  unfold digits6
  simp

/-- a rendered six-digit decimal is not empty -/
theorem render_ne_nil (d : Dec6) : render d ≠ [] := by
  have hne := digits6_ne_nil d.m
  obtain ⟨c, r, hcr⟩ := List.exists_cons_of_ne_nil hne
  unfold render
  simp only
  split
  · simp
  · split
    · intro h
      have h2 := (List.append_eq_nil_iff.mp h).2
      unfold withPoint at h2
      rw [hcr] at h2
      split at h2 <;> simp at h2
    · simp

/-- no character of the alphabet is white space -/
theorem okChar_not_ws {c : Char} (h : OkChar c) : isWs c = false := by
  rcases h with h | h | h | h | h
  · simp only [Char.isDigit, Bool.and_eq_true, decide_eq_true_eq] at h
    have h48 : 48 ≤ c.toNat := by
      have := h.1
      rw [ge_iff_le, UInt32.le_iff_toNat_le] at this
      exact this
    unfold isWs
    simp only [decide_eq_false_iff_not, not_or]
    refine ⟨?_, ?_, ?_, ?_, ?_, ?_⟩
    · rintro rfl; revert h48; decide
    · rintro rfl; revert h48; decide
    · rintro rfl; revert h48; decide
    · rintro rfl; revert h48; decide
    · omega
    · omega
  all_goals (subst h; decide)

/-- … and none is a line feed -/
theorem okChar_ne_nl {c : Char} (h : OkChar c) : c ≠ nl := by
  intro hc
  have := okChar_not_ws h
  rw [hc] at this
  revert this; decide

end Lp.C20
