/-
  `Count_Lines` is independent of any chunking of the file.
-/
import LpModel.C20.Chunk
import LpProofs.C20.Lex
namespace Lp.C20

theorem splitLines_shape : ∀ (s cur : List Char),
    (splitLines s cur).length = nlCount s + 1 ∧
    ((splitLines s cur).getLast?.getD []).isEmpty = !(openFrom (!cur.isEmpty) s) := by
  intro s
  induction s with
  | nil => intro cur; simp [splitLines, nlCount, openFrom]
  | cons c s ih =>
    intro cur
    simp only [splitLines, nlCount, openFrom]
    split
    · obtain ⟨h1, h2⟩ := ih []
      refine ⟨by simp [h1]; omega, ?_⟩
      rw [List.getLast?_cons_of_ne_nil (splitLines_ne_nil s [])] <;> try exact []
      simpa using h2
    · obtain ⟨h1, h2⟩ := ih (c :: cur)
      refine ⟨by simp [h1], ?_⟩
      simpa using h2

/-- **countLines_eq**: line feeds, plus one for an unterminated non-empty last line -/
theorem countLines_eq (s : List Char) : countLines s = nlCount s + (if openEnd s then 1 else 0) := by
  obtain ⟨h1, h2⟩ := splitLines_shape s []
  have h2' : ((splitLines s []).getLast?.getD []).isEmpty = !(openFrom false s) := by simpa using h2
  unfold countLines openEnd
  simp only [h1, h2']
  cases openFrom false s <;> simp

theorem nlCount_append (a b : List Char) : nlCount (a ++ b) = nlCount a + nlCount b := by
  induction a with
  | nil => simp [nlCount]
  | cons c a ih => simp [nlCount, ih]; omega

theorem openFrom_append (o : Bool) (a b : List Char) : openFrom o (a ++ b) = openFrom (openFrom o a) b := by
  induction a generalizing o with
  | nil => rfl
  | cons c a ih => simp only [List.cons_append, openFrom]; split <;> exact ih _

theorem openFrom_ne_nil (o o' : Bool) (b : List Char) (hb : b ≠ []) : openFrom o b = openFrom o' b := by
  cases b with
  | nil => exact absurd rfl hb
  | cons c b => simp [openFrom]

/-- **countLines_append** (chunking lemma): cutting a file in two, the line feeds add up and the
    "one more for an open last line" is taken from the *last non-empty* piece only -/
theorem countLines_append (a b : List Char) :
    countLines (a ++ b) = if b = [] then countLines a else nlCount a + countLines b := by
  by_cases hb : b = []
  · subst hb; simp
  · rw [if_neg hb, countLines_eq, countLines_eq, nlCount_append]
    unfold openEnd
    rw [openFrom_append, openFrom_ne_nil _ false b hb]
    omega

theorem foldr_nlCount_flatten (blocks : List (List Char)) :
    (blocks.map nlCount).foldr (· + ·) 0 = nlCount blocks.flatten := by
  induction blocks with
  | nil => rfl
  | cons b r ih => simp [nlCount_append, ih]

/-- **countLines_blocks**: for every way of cutting the file into blocks (any block size, also a
    size that divides the file length so that the final read is empty) block-wise counting gives
    `Count_Lines` of the whole file -/
theorem countLines_blocks (blocks : List (List Char)) : countLinesBlocks blocks = countLines blocks.flatten := by
  unfold countLinesBlocks
  rw [foldr_nlCount_flatten, countLines_eq]

/-- an empty final block changes nothing: a file whose size is a multiple of the block size keeps
    its unterminated last line -/
theorem countLines_blocks_trailing_empty (blocks : List (List Char)) :
    countLinesBlocks (blocks ++ [[]]) = countLinesBlocks blocks := by
  rw [countLines_blocks, countLines_blocks]; simp

example : countLinesBlocks ["# h\n1\t".toList, "2\n3\t4".toList, []] = 3 ∧
    countLines "# h\n1\t2\n3\t4".toList = 3 := by decide

end Lp.C20
