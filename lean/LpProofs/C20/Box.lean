/-
  C20 (coverage extension) — geometry of `Print_Box` and cell count of `Print_Progress_Bar`.
  Listed in lean/obligations/C20.txt.
-/
import LpModel.C20
set_option linter.unusedSimpArgs false
namespace Lp.C20

/-! ## Print_Box -/

/-- **printBox_silent_rank**: on every rank other than 0 nothing is written. -/
theorem printBox_silent_rank (str : List Char) (tabs : Nat) (rank : Int) (bc tc : List Char) (h : rank ≠ 0) :
    printBox str tabs rank bc tc = [] := by
  simp [printBox, printBoxLen, h]

example : printBox "abc".toList 2 1 "Red".toList "Blue".toList = [] := by decide +kernel
example : printBox "abc".toList 2 0 "Red".toList "Blue".toList ≠ [] := by decide +kernel

theorem boxTop_length (len tabs : Nat) : (boxTop len tabs).length = tabs + len + 4 := by
  simp [boxTop, tabsL]; omega
theorem boxBottom_length (len tabs : Nat) : (boxBottom len tabs).length = tabs + len + 4 := by
  simp [boxBottom, tabsL]; omega
theorem boxMid_length (str : List Char) (tabs : Nat) : (boxMid str tabs).length = tabs + str.length + 4 := by
  simp [boxMid, boxLeft, boxRight, tabsL]; omega

/-! ### removing the colour codes -/

theorem strip_noesc_append (a rest : List Char) (h : esc ∉ a) :
    stripAnsiAux false (a ++ rest) = a ++ stripAnsiAux false rest := by
  induction a with
  | nil => rfl
  | cons c r ih =>
    have hc : c ≠ esc := fun e => h (by simp [e])
    have hr : esc ∉ r := fun e => h (by simp [e])
    simp [stripAnsiAux, hc, ih hr]

theorem strip_noesc (a : List Char) (h : esc ∉ a) : stripAnsi a = a := by
  have := strip_noesc_append a [] h
  simpa [stripAnsi, stripAnsiAux] using this

theorem strip_skip (l rest : List Char) (h : 'm' ∉ l) :
    stripAnsiAux true (l ++ 'm' :: rest) = stripAnsiAux false rest := by
  induction l with
  | nil => simp [stripAnsiAux]
  | cons c r ih =>
    have hc : c ≠ 'm' := fun e => h (by simp [e])
    have hr : 'm' ∉ r := fun e => h (by simp [e])
    simp [stripAnsiAux, hc, ih hr]

theorem strip_reset (rest : List Char) : stripAnsiAux false (ansiReset ++ rest) = stripAnsiAux false rest := by
  have h1 : ('[' : Char) ≠ 'm' := by decide
  have h2 : ('0' : Char) ≠ 'm' := by decide
  simp [ansiReset, stripAnsiAux, h1, h2]

theorem getD_no_m (L : List (List Char)) (hL : ∀ l ∈ L, 'm' ∉ l) (i : Nat) : 'm' ∉ L.getD i [] := by
  rw [List.getD_eq_getElem?_getD]
  cases hq : L[i]? with
  | none => simp
  | some l => simpa using hL l (List.mem_of_getElem? hq)

theorem colorCodes_no_m : ∀ l ∈ colorCodes, 'm' ∉ l := by decide
theorem bgCodes_no_m : ∀ l ∈ bgCodes, 'm' ∉ l := by decide

theorem strip_prefix (cc bc : List Char) (bold ul : Bool) (rest : List Char) (hc : 'm' ∉ cc) (hb : 'm' ∉ bc) :
    stripAnsiAux false (ansiPrefix cc bc bold ul ++ rest) = stripAnsiAux false rest := by
  have key : ansiPrefix cc bc bold ul ++ rest
      = esc :: (('[' :: (if bold then '1' else '0') :: ';' :: (if ul then '4' else '0') :: ';' :: (cc ++ ';' :: bc)) ++ 'm' :: rest) := by
    simp [ansiPrefix]
  rw [key]
  have hm : 'm' ∉ ('[' :: (if bold then '1' else '0') :: ';' :: (if ul then '4' else '0') :: ';' :: (cc ++ ';' :: bc)) := by
    cases bold <;> cases ul <;> simp [hc, hb]
  simp only [stripAnsiAux, if_true]
  exact strip_skip _ rest hm

/-- a bold `Formatted_String` shows exactly its text, whatever the colour name -/
theorem strip_fmtBold (s c rest : List Char) (hs : esc ∉ s) :
    stripAnsiAux false (fmtBold s c ++ rest) = s ++ stripAnsiAux false rest := by
  unfold fmtBold formattedString
  split
  · rename_i h; simp at h
  · split
    · exact strip_noesc_append s rest hs
    · simp only [List.append_assoc]
      rw [strip_prefix _ _ _ _ _ (getD_no_m _ colorCodes_no_m _) (getD_no_m _ bgCodes_no_m _),
        strip_noesc_append s _ hs, strip_reset]

theorem esc_ne_tab : ¬ esc = '\t' := by decide
theorem esc_ne_nl : ¬ esc = '\n' := by decide
theorem esc_ne_sp : ¬ esc = ' ' := by decide
theorem esc_ne_TL : ¬ esc = boxTL := by decide
theorem esc_ne_TR : ¬ esc = boxTR := by decide
theorem esc_ne_BL : ¬ esc = boxBL := by decide
theorem esc_ne_BR : ¬ esc = boxBR := by decide
theorem esc_ne_H : ¬ esc = boxH := by decide
theorem esc_ne_V : ¬ esc = boxV := by decide

theorem esc_notin_boxString1 (len tabs : Nat) : esc ∉ boxString1 len tabs := by
  simp [boxString1, boxTop, boxLeft, tabsL, List.mem_replicate, esc_ne_tab, esc_ne_nl, esc_ne_sp, esc_ne_TL, esc_ne_TR, esc_ne_BL, esc_ne_BR, esc_ne_H, esc_ne_V]
theorem esc_notin_boxString2 (len tabs : Nat) : esc ∉ boxString2 len tabs := by
  simp [boxString2, boxBottom, boxRight, tabsL, List.mem_replicate, esc_ne_tab, esc_ne_nl, esc_ne_sp, esc_ne_TL, esc_ne_TR, esc_ne_BL, esc_ne_BR, esc_ne_H, esc_ne_V]

/-- **printBox_visible**: for every text without an escape character, every `tabs`, every pair of
    colour names (known or not), what rank 0 displays once the colour codes are removed is: top
    border, text line, bottom border, and the empty line of `std::endl`. -/
theorem printBox_visible (len : Nat) (str : List Char) (tabs : Nat) (bc tc : List Char) (hs : esc ∉ str) :
    stripAnsi (printBoxLen len str tabs 0 bc tc)
      = boxTop len tabs ++ '\n' :: (boxMid str tabs ++ '\n' :: (boxBottom len tabs ++ ['\n', '\n'])) := by
  unfold stripAnsi printBoxLen
  simp only [if_true, List.append_assoc]
  rw [strip_fmtBold _ _ _ (esc_notin_boxString1 len tabs), strip_fmtBold _ _ _ hs,
    strip_fmtBold _ _ _ (esc_notin_boxString2 len tabs)]
  have hn : ('\n' : Char) ≠ esc := by decide
  simp [boxString1, boxString2, boxMid, stripAnsiAux, hn]

example : esc ∉ "two words".toList := by decide
example : stripAnsi (printBox "ab".toList 1 0 "Red".toList "Purple".toList)
    = "\t╔════╗\n\t║ ab ║\n\t╚════╝\n\n".toList := by decide +kernel

/-- **printBox_equal_width**: the three lines of the box have the same visible width, the text
    length plus the fixed frame (`tabs` tab characters, two frame characters, two blanks), whenever
    the length passed to the frame is the number of characters of the text (every ASCII text; for
    multi-byte UTF-8 `str.length()` counts bytes and the borders are longer: `printBox_width_bytes`). -/
theorem printBox_equal_width (str : List Char) (tabs : Nat) (hs : esc ∉ str) :
    visibleWidth (boxTop str.length tabs) = tabs + str.length + 4
    ∧ visibleWidth (boxMid str tabs) = tabs + str.length + 4
    ∧ visibleWidth (boxBottom str.length tabs) = tabs + str.length + 4 := by
  have e1 : esc ∉ boxTop str.length tabs := by
    simp [boxTop, tabsL, List.mem_replicate, esc_ne_tab, esc_ne_nl, esc_ne_sp, esc_ne_TL, esc_ne_TR, esc_ne_BL, esc_ne_BR, esc_ne_H, esc_ne_V]
  have e3 : esc ∉ boxBottom str.length tabs := by
    simp [boxBottom, tabsL, List.mem_replicate, esc_ne_tab, esc_ne_nl, esc_ne_sp, esc_ne_TL, esc_ne_TR, esc_ne_BL, esc_ne_BR, esc_ne_H, esc_ne_V]
  have e2 : esc ∉ boxMid str tabs := by
    simp [boxMid, boxLeft, boxRight, tabsL, List.mem_replicate, hs, esc_ne_tab, esc_ne_nl, esc_ne_sp, esc_ne_TL, esc_ne_TR, esc_ne_BL, esc_ne_BR, esc_ne_H, esc_ne_V]
  unfold visibleWidth
  rw [strip_noesc _ e1, strip_noesc _ e2, strip_noesc _ e3]
  exact ⟨boxTop_length _ _, boxMid_length _ _, boxBottom_length _ _⟩

example : visibleWidth (boxTop 3 2) = 9 ∧ visibleWidth (boxMid "abc".toList 2) = 9 := by decide +kernel

/-- **printBox_width_bytes**: as coded the borders are `len - str.length` cells wider than the text
    line when `len = str.length()` (bytes) exceeds the number of characters. -/
theorem printBox_width_bytes (len : Nat) (str : List Char) (tabs : Nat) :
    (boxTop len tabs).length + str.length = (boxMid str tabs).length + len
    ∧ (boxBottom len tabs).length = (boxTop len tabs).length := by
  rw [boxTop_length, boxMid_length, boxBottom_length]; omega

/-! ## Print_Progress_Bar -/

theorem pctSkip_le (p : Rat) : pctSkip p ≤ 3 := by
  unfold pctSkip; split <;> (try split) <;> omega

theorem barCells_length (p : Rat) (L : Nat) (c : List Char) (a n : Nat) : (barCells p L c a n).length = n := by
  simp [barCells]

/-- the count is the number of cell items of the loop (the items are the cells and the percentage) -/
theorem barItems_length (p : Rat) (L : Nat) (c pct : List Char) (hL : 0 < L) :
    (barItems p L c pct).length = barCellCount p L + 1 := by
  have h0 : L ≠ 0 := by omega
  simp [barItems, barCellCount, barCells_length, h0]; omega

/-- **progressBar_cells**: for every progress (in `[0,1]` or not) and every `bar_length ≥ 7`, the
    cells written plus the `pctSkip + 1 ∈ {2,3,4}` loop indices the percentage replaces are exactly
    `bar_length`. -/
theorem progressBar_cells (p : Rat) (L : Nat) (hL : 7 ≤ L) : barCellCount p L + (pctSkip p + 1) = L := by
  have h0 : L ≠ 0 := by omega
  have := pctSkip_le p
  simp [barCellCount, barCells_length, h0]; omega

/-- for short bars the percentage can run past the end: never more than `bar_length` cells -/
theorem progressBar_cells_le (p : Rat) (L : Nat) : barCellCount p L ≤ L - 1 := by
  by_cases h0 : L = 0
  · simp [barCellCount, h0]
  · simp [barCellCount, barCells_length, h0]; omega

example : barCellCount (1 / 2) 50 + (pctSkip (1 / 2) + 1) = 50 := by decide +kernel
example : barCellCount (1 / 2) 50 = 47 ∧ barCellCount 1 50 = 46 ∧ barCellCount (1 / 16) 50 = 48 := by decide +kernel

end Lp.C20
