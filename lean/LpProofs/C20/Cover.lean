/-
  C20 (coverage extension) — theorems about `Time_Display`, `Reduced_Mass`, `Formatted_String`,
  `Check_For_Warning`, `File_Exists`, `operator<<` (Vector, Matrix), `Save_Function` and the default
  `Interpolation_2D()`.  Listed in lean/obligations/C20.txt.
-/
import LpModel.C20
import LpProofs.C20.IO
import Mathlib.Tactic.Ring
import Mathlib.Tactic.Linarith
import Mathlib.Tactic.FieldSimp
namespace Lp.C20

/-! ## Time_Display -/

/-- **timeRatios_eq**: on the generated unit table the seven units of `Time_Display`, in seconds, are
    `365.25·86400, 7·86400, 86400, 3600, 60, 1, 1/1000` (kernel evaluation; re-checked whenever the
    translator rewrites `Generated.lean`). -/
theorem timeRatios_eq : timeRatios = timeRatiosStd := by decide +kernel

theorem floor_step (u s : ℚ) (hu : 0 < u) (hs : 0 ≤ s) :
    0 ≤ (s / u).floor ∧ 0 ≤ s - ((s / u).floor : ℚ) * u ∧ s - ((s / u).floor : ℚ) * u < u := by
  have h1 := floor_le' (s / u)
  have h2 := lt_floor_add_one' (s / u)
  have h0 : (0 : ℚ) ≤ s / u := div_nonneg hs hu.le
  have h3 : ((s / u).floor : ℚ) * u ≤ s := (le_div_iff₀ hu).mp h1
  have h4 : s < (((s / u).floor : ℚ) + 1) * u := (div_lt_iff₀ hu).mp h2
  refine ⟨?_, by linarith, by linarith⟩
  have : (-1 : ℚ) < ((s / u).floor : ℚ) := by linarith
  have : (-1 : Int) < (s / u).floor := by exact_mod_cast this
  omega

theorem floor_lt_of (u r B : ℚ) (hu : 0 < u) (hr : r < B * u) : ((r / u).floor : ℚ) < B := by
  have h1 := floor_le' (r / u)
  have : r / u < B := (div_lt_iff₀ hu).mpr hr
  linarith

/-- **timeSplit_spec**: for `seconds ≥ 0` the seven components `y w d h m s ms` are non-negative integers below
    their carry bounds (`w ≤ 52`, `d < 7`, `h < 24`, `m < 60`, `s < 60`, `ms < 1000`; the years are unbounded), and
    their weighted sum reconstructs the input up to a remainder in `[0, 1 ms)`. -/
theorem timeSplit_spec (s : ℚ) (hs : 0 ≤ s) :
    ∃ y w d h m sc ms : Int, ∃ r : ℚ, timeSplit timeRatiosStd s = ([y, w, d, h, m, sc, ms], r) ∧
      0 ≤ y ∧ (0 ≤ w ∧ w ≤ 52) ∧ (0 ≤ d ∧ d < 7) ∧ (0 ≤ h ∧ h < 24) ∧ (0 ≤ m ∧ m < 60) ∧ (0 ≤ sc ∧ sc < 60) ∧
      (0 ≤ ms ∧ ms < 1000) ∧
      s = timeRecon timeRatiosStd [y, w, d, h, m, sc, ms] + r ∧ 0 ≤ r ∧ r < 1 / 1000 := by
  obtain ⟨a0, b0, c0⟩ := floor_step 31557600 s (by norm_num) hs
  generalize hr0 : s - ((s / 31557600).floor : ℚ) * 31557600 = r0 at b0 c0
  obtain ⟨a1, b1, c1⟩ := floor_step 604800 r0 (by norm_num) b0
  have u1 := floor_lt_of 604800 r0 53 (by norm_num) (by linarith)
  generalize hr1 : r0 - ((r0 / 604800).floor : ℚ) * 604800 = r1 at b1 c1
  obtain ⟨a2, b2, c2⟩ := floor_step 86400 r1 (by norm_num) b1
  have u2 := floor_lt_of 86400 r1 7 (by norm_num) (by linarith)
  generalize hr2 : r1 - ((r1 / 86400).floor : ℚ) * 86400 = r2 at b2 c2
  obtain ⟨a3, b3, c3⟩ := floor_step 3600 r2 (by norm_num) b2
  have u3 := floor_lt_of 3600 r2 24 (by norm_num) (by linarith)
  generalize hr3 : r2 - ((r2 / 3600).floor : ℚ) * 3600 = r3 at b3 c3
  obtain ⟨a4, b4, c4⟩ := floor_step 60 r3 (by norm_num) b3
  have u4 := floor_lt_of 60 r3 60 (by norm_num) (by linarith)
  generalize hr4 : r3 - ((r3 / 60).floor : ℚ) * 60 = r4 at b4 c4
  obtain ⟨a5, b5, c5⟩ := floor_step 1 r4 (by norm_num) b4
  have u5 := floor_lt_of 1 r4 60 (by norm_num) (by linarith)
  generalize hr5 : r4 - ((r4 / 1).floor : ℚ) * 1 = r5 at b5 c5
  obtain ⟨a6, b6, c6⟩ := floor_step (1 / 1000) r5 (by norm_num) b5
  have u6 := floor_lt_of (1 / 1000) r5 1000 (by norm_num) (by linarith)
  generalize hr6 : r5 - ((r5 / (1 / 1000)).floor : ℚ) * (1 / 1000) = r6 at b6 c6
  refine ⟨(s / 31557600).floor, (r0 / 604800).floor, (r1 / 86400).floor, (r2 / 3600).floor, (r3 / 60).floor,
    (r4 / 1).floor, (r5 / (1 / 1000)).floor, r6, ?_, a0, ⟨a1, ?_⟩, ⟨a2, by exact_mod_cast u2⟩, ⟨a3, by exact_mod_cast u3⟩,
    ⟨a4, by exact_mod_cast u4⟩, ⟨a5, by exact_mod_cast u5⟩, ⟨a6, by exact_mod_cast u6⟩, ?_, b6, c6⟩
  · simp only [timeRatiosStd, timeSplit, hr0, hr1, hr2, hr3, hr4, hr5, hr6]
  · have : (r0 / 604800).floor < 53 := by exact_mod_cast u1
    omega
  · simp only [timeRatiosStd, timeRecon]
    linarith

example : timeSplit timeRatiosStd 90061 = ([0, 0, 1, 1, 1, 1, 0], 0) := by decide +kernel
example : (timeSplit timeRatiosStd (31557600 - 1 / 2000)).1 = [0, 52, 1, 5, 59, 59, 999] := by decide +kernel

/-- two characters for a component in `0 … 99` that is not the last one -/
theorem padField_width2 (t : Int) (h0 : 0 ≤ t) (h1 : t < 100) : (padField false (intChars t)).length = 2 := by
  have key : ∀ n : Fin 100, (padField false (intChars (n.val : Int))).length = 2 := by decide +kernel
  have h := key ⟨t.toNat, by omega⟩
  simpa [Int.toNat_of_nonneg h0] using h

/-- three characters for the milliseconds `0 … 999` -/
theorem padField_width3 (t : Int) (h0 : 0 ≤ t) (h1 : t < 1000) : (padField true (intChars t)).length = 3 := by
  have key : ∀ n : Fin 1000, (padField true (intChars (n.val : Int))).length = 3 := by decide +kernel
  have h := key ⟨t.toNat, by omega⟩
  simpa [Int.toNat_of_nonneg h0] using h

example : padField false (intChars 7) = ['0', '7'] ∧ padField true (intChars 7) = ['0', '0', '7'] ∧
    padField true (intChars 42) = ['0', '4', '2'] ∧ padField false (intChars 123) = ['1', '2', '3'] ∧
    padField true (intChars (-1)) = ['0', '-', '1'] := by decide +kernel

/-- the search `for(i = 0; i < 4; i++) if(times[i] > 0) break;` on seven components -/
def firstOf (y w d h : Int) : Nat := if y > 0 then 0 else if w > 0 then 1 else if d > 0 then 2 else if h > 0 then 3 else 4

theorem firstIdx_seven (y w d h m sc ms : Int) : firstIdx [y, w, d, h, m, sc, ms] = firstOf y w d h := by
  unfold firstIdx firstOf
  by_cases h0 : y > 0 <;> by_cases h1 : w > 0 <;> by_cases h2 : d > 0 <;> by_cases h3 : h > 0 <;>
    simp [List.take, List.takeWhile, h0, h1, h2, h3]

/-- field `k` of the seven: the zero-padded component -/
def fieldOf (ts : List Int) (k : Nat) : List Char := padField (k == 6) (intChars (ts.getD k 0))

/-- **timeDisplay_format**: for `seconds ≥ 0`, `Time_Display` is `[` F_i U_i `:` F_{i+1} U_{i+1} `:` F_{i+2} U_{i+2} `]`
    where `i` is the first of the four units y, w, d, h with a positive component (`4`, i.e. minutes, if there is
    none), `U = y w d h m s ms`, every displayed field other than the years has exactly two characters (three for the
    milliseconds), the years have two when there are fewer than 100 of them; the components are those of
    `timeSplit_spec`. -/
theorem timeDisplay_format (s : ℚ) (hs : 0 ≤ s) :
    ∃ y w d h m sc ms : Int, (timeSplit timeRatios s).1 = [y, w, d, h, m, sc, ms] ∧
      let ts := [y, w, d, h, m, sc, ms]
      let i := firstOf y w d h
      i ≤ 4 ∧ (∀ k, k < i → ts.getD k 0 = 0) ∧ (i < 4 → 0 < ts.getD i 0) ∧
      timeDisplay s = '[' :: (fieldOf ts i ++ timeUnitStrings.getD i []) ++ ':' :: (fieldOf ts (i + 1) ++ timeUnitStrings.getD (i + 1) [])
          ++ ':' :: (fieldOf ts (i + 2) ++ timeUnitStrings.getD (i + 2) []) ++ [']'] ∧
      (fieldOf ts (i + 1)).length = 2 ∧ (fieldOf ts (i + 2)).length = (if i = 4 then 3 else 2) ∧
      ((i ≠ 0 ∨ y < 100) → (fieldOf ts i).length = 2) := by
  obtain ⟨y, w, d, h, m, sc, ms, r, hsp, hy, ⟨hw0, hw1⟩, ⟨hd0, hd1⟩, ⟨hh0, hh1⟩, ⟨hm0, hm1⟩, ⟨hs0, hs1⟩, ⟨hms0, hms1⟩, -, -, -⟩ :=
    timeSplit_spec s hs
  refine ⟨y, w, d, h, m, sc, ms, by rw [timeRatios_eq, hsp], ?_⟩
  have hdisp : timeDisplay s = timeDisplayOf timeRatiosStd s := by unfold timeDisplay; rw [timeRatios_eq]
  simp only
  rw [hdisp]
  unfold timeDisplayOf
  simp only [hsp, firstIdx_seven]
  have W2 := padField_width2
  have W3 := padField_width3
  unfold firstOf
  by_cases h0 : y > 0
  · simp only [h0, if_true]
    refine ⟨by omega, by intro k hk; omega, fun _ => h0, rfl, W2 w hw0 (by omega), ?_, ?_⟩
    · simpa [fieldOf] using W2 d hd0 (by omega)
    · intro hc; rcases hc with hc | hc
      · exact absurd rfl hc
      · exact W2 y hy hc
  · have y0 : y = 0 := by omega
    by_cases h1 : w > 0
    · simp only [h0, h1, if_true, if_false]
      refine ⟨by omega, ?_, fun _ => h1, rfl, W2 d hd0 (by omega), ?_, fun _ => W2 w hw0 (by omega)⟩
      · intro k hk; have hk0 : k = 0 := by omega
        subst hk0; simpa using y0
      · simpa [fieldOf] using W2 h hh0 (by omega)
    · have w0 : w = 0 := by omega
      by_cases h2 : d > 0
      · simp only [h0, h1, h2, if_true, if_false]
        refine ⟨by omega, ?_, fun _ => h2, rfl, W2 h hh0 (by omega), ?_, fun _ => W2 d hd0 (by omega)⟩
        · intro k hk; have hk0 : k = 0 ∨ k = 1 := by omega
          rcases hk0 with rfl | rfl <;> simp [y0, w0]
        · simpa [fieldOf] using W2 m hm0 (by omega)
      · have d0 : d = 0 := by omega
        by_cases h3 : h > 0
        · simp only [h0, h1, h2, h3, if_true, if_false]
          refine ⟨by omega, ?_, fun _ => h3, rfl, W2 m hm0 (by omega), ?_, fun _ => W2 h hh0 (by omega)⟩
          · intro k hk; have hk0 : k = 0 ∨ k = 1 ∨ k = 2 := by omega
            rcases hk0 with rfl | rfl | rfl <;> simp [y0, w0, d0]
          · simpa [fieldOf] using W2 sc hs0 (by omega)
        · have h0' : h = 0 := by omega
          simp only [h0, h1, h2, h3, if_false]
          refine ⟨le_refl _, ?_, fun hc => absurd hc (by omega), rfl, W2 sc hs0 (by omega), ?_, fun _ => W2 m hm0 (by omega)⟩
          · intro k hk; have hk0 : k = 0 ∨ k = 1 ∨ k = 2 ∨ k = 3 := by omega
            rcases hk0 with rfl | rfl | rfl | rfl <;> simp [y0, w0, d0, h0']
          · simpa [fieldOf] using W3 ms hms0 hms1

example : timeDisplay 90061 = "[01d:01h:01m]".toList := by decide +kernel
example : timeDisplay (3 / 2) = "[00m:01s:500ms]".toList := by decide +kernel
example : timeDisplay (31557600 * 123 + 604800 * 3) = "[123y:03w:00d]".toList := by decide +kernel

/-! ## Reduced_Mass -/

/-- symmetric in its arguments -/
theorem reducedMass_symm (m1 m2 : ℚ) : reducedMass m1 m2 = reducedMass m2 m1 := by
  unfold reducedMass; rw [mul_comm m1 m2, add_comm m1 m2]

/-- for positive masses the reduced mass is positive and smaller than either mass -/
theorem reducedMass_bounds (m1 m2 : ℚ) (h1 : 0 < m1) (h2 : 0 < m2) :
    0 < reducedMass m1 m2 ∧ reducedMass m1 m2 < m1 ∧ reducedMass m1 m2 < m2 := by
  unfold reducedMass
  have hs : 0 < m1 + m2 := by linarith
  refine ⟨div_pos (mul_pos h1 h2) hs, ?_, ?_⟩
  · rw [div_lt_iff₀ hs]; nlinarith [mul_pos h1 h1]
  · rw [div_lt_iff₀ hs]; nlinarith [mul_pos h2 h2]

example : reducedMass 3 6 = 2 := by norm_num [reducedMass]

/-- equal masses: half the mass (also for `m = 0` in the model, where the C++ divides by zero) -/
theorem reducedMass_equal (m : ℚ) : reducedMass m m = m / 2 := by
  unfold reducedMass
  by_cases h : m = 0
  · subst h; simp
  · field_simp; ring

/-- scaling law: a common factor of the masses is a factor of the reduced mass -/
theorem reducedMass_scale (c m1 m2 : ℚ) : reducedMass (c * m1) (c * m2) = c * reducedMass m1 m2 := by
  unfold reducedMass
  by_cases hc : c = 0
  · subst hc; simp
  by_cases hs : m1 + m2 = 0
  · have : c * m1 + c * m2 = 0 := by rw [← mul_add, hs, mul_zero]
    rw [this, hs]; simp
  · have : c * m1 + c * m2 ≠ 0 := by rw [← mul_add]; exact mul_ne_zero hc hs
    field_simp

/-! ## Formatted_String, Check_For_Warning, File_Exists -/

/-- `Default` and not bold: the string is returned unchanged, nothing is printed -/
theorem formattedString_default (str : List Char) (ul : Bool) (bg : List Char) :
    formattedString str "Default".toList false ul bg = (str, false) := by
  simp [formattedString]

/-- an unknown colour or background colour: the string is returned unchanged and the warning is printed -/
theorem formattedString_unknown (str color : List Char) (bold ul : Bool) (bg : List Char)
    (hd : ¬ (color = "Default".toList ∧ bold = false)) (hu : color ∉ colors ∨ bg ∉ colors) :
    formattedString str color bold ul bg = (str, true) := by
  unfold formattedString
  rw [if_neg hd, if_pos]
  rcases hu with h | h
  · left; simpa using h
  · right; simpa using h

example : ¬ ("Purple".toList = "Default".toList ∧ true = false) ∧ "Purple".toList ∉ colors := by decide

theorem codes_mem (l : List (List Char)) (hl : l.length = colors.length) (c : List Char) (hc : c ∈ colors) :
    l.getD (colors.idxOf c) [] ∈ l := by
  have h : colors.idxOf c < l.length := by rw [hl]; exact List.idxOf_lt_length_of_mem hc
  rw [List.getD_eq_getElem?_getD, List.getElem?_eq_getElem h]
  exact List.getElem_mem h

/-- known colours (and not the `Default`/not-bold shortcut): the text is wrapped in the escape sequence
    `ESC[<bold>;<underlined>;<colour code>;<background code>m` … `ESC[0m`, nothing is printed -/
theorem formattedString_known (str color : List Char) (bold ul : Bool) (bg : List Char)
    (hd : ¬ (color = "Default".toList ∧ bold = false)) (hc : color ∈ colors) (hb : bg ∈ colors) :
    ∃ cc ∈ colorCodes, ∃ bc ∈ bgCodes,
      formattedString str color bold ul bg = (ansiPrefix cc bc bold ul ++ (str ++ ansiReset), false) := by
  unfold formattedString
  rw [if_neg hd, if_neg]
  · exact ⟨_, codes_mem colorCodes rfl color hc, _, codes_mem bgCodes rfl bg hb, rfl⟩
  · simp [hc, hb]

example : formattedString "ab".toList "Red".toList true false "Default".toList
    = ((Char.ofNat 27 :: "[1;0;31;49mab".toList) ++ (Char.ofNat 27 :: "[0m".toList), false) := by decide +kernel

/-- `Check_For_Warning` writes to `std::cerr` iff the condition holds (and always returns: the model is a
    total function without an error branch) -/
theorem checkForWarning_iff (cond : Bool) (fn msg : List Char) : checkForWarning cond fn msg ≠ [] ↔ cond = true := by
  unfold checkForWarning
  cases cond <;> simp

/-- what is written contains the function name and the message, in this order, and ends with a newline -/
theorem checkForWarning_text (fn msg : List Char) :
    checkForWarning true fn msg = warningWord ++ " in ".toList ++ fn ++ [':', ' '] ++ msg ++ ['\n'] := by
  simp [checkForWarning]

theorem fileExists_iff (k : PathKind) : fileExists k = true ↔ k = .file ∨ k = .dir := by
  cases k <;> simp [fileExists]

end Lp.C20
