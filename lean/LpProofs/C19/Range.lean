/- helper lemmas for `range_spec`: the two loops with enough fuel -/
import LpModel.C19
import Mathlib.Tactic.Ring
import Mathlib.Tactic.Linarith
namespace Lp.C19

theorem rangeAsc_spec (mx step : Int) (hs : 1 ≤ step) :
    ∀ (fuel : Nat) (i : Int), (mx - i).toNat ≤ fuel →
      ∃ n : Nat, rangeAsc i mx step fuel = (List.range n).map (fun (k : Nat) => i + (k : Int) * step) ∧
        (∀ k : Nat, k < n → i + (k : Int) * step < mx) ∧ mx ≤ i + (n : Int) * step := by
  intro fuel
  induction fuel with
  | zero =>
    intro i h
    exact ⟨0, by simp [rangeAsc], by intro k hk; omega, by omega⟩
  | succ f ih =>
    intro i h
    by_cases hlt : i < mx
    · obtain ⟨n, h1, h2, h3⟩ := ih (i + step) (by omega)
      refine ⟨n + 1, ?_, ?_, ?_⟩
      · rw [rangeAsc, if_pos hlt, h1, List.range_succ_eq_map, List.map_cons, List.map_map]
        congr 1
        · simp
        · apply List.map_congr_left; intro k _; simp only [Function.comp]; push_cast; ring
      · intro k hk
        cases k with
        | zero => simpa using hlt
        | succ k =>
          have := h2 k (by omega)
          push_cast; linarith
      · push_cast; linarith
    · exact ⟨0, by simp [rangeAsc, hlt], by intro k hk; omega, by omega⟩

theorem rangeDesc_spec (mx step : Int) (hs : 1 ≤ step) :
    ∀ (fuel : Nat) (i : Int), (i - mx).toNat ≤ fuel →
      ∃ n : Nat, rangeDesc i mx step fuel = (List.range n).map (fun (k : Nat) => i - (k : Int) * step) ∧
        (∀ k : Nat, k < n → i - (k : Int) * step > mx) ∧ mx ≥ i - (n : Int) * step := by
  intro fuel
  induction fuel with
  | zero =>
    intro i h
    exact ⟨0, by simp [rangeDesc], by intro k hk; omega, by omega⟩
  | succ f ih =>
    intro i h
    by_cases hlt : i > mx
    · obtain ⟨n, h1, h2, h3⟩ := ih (i - step) (by omega)
      refine ⟨n + 1, ?_, ?_, ?_⟩
      · rw [rangeDesc, if_pos hlt, h1, List.range_succ_eq_map, List.map_cons, List.map_map]
        congr 1
        · simp
        · apply List.map_congr_left; intro k _; simp only [Function.comp]; push_cast; ring
      · intro k hk
        cases k with
        | zero => simpa using hlt
        | succ k =>
          have := h2 k (by omega)
          push_cast; linarith
      · push_cast; linarith
    · exact ⟨0, by simp [rangeDesc, hlt], by intro k hk; omega, by omega⟩

end Lp.C19
