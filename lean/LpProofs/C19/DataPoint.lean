/-
  C19 (coverage extension) — `DataPoint` ordering operators `<`, `>`, `==` (src/Statistics.cpp §4) and
  their use by `std::sort` (Perform_KDE).
-/
import LpModel.C19
import Mathlib.Tactic.Linarith
import Mathlib.Data.List.Perm.Basic
import Mathlib.Data.List.Sort
namespace Lp.C19

/-- `<` is irreflexive -/
theorem dpLt_irrefl (a : DP) : dpLt a a = false := by simp [dpLt]

/-- `<` is transitive -/
theorem dpLt_trans (a b c : DP) (h1 : dpLt a b = true) (h2 : dpLt b c = true) : dpLt a c = true := by
  simp only [dpLt, decide_eq_true_eq] at *; exact lt_trans h1 h2

/-- incomparability under `<` is transitive: with the two above, `<` is a **strict weak order**
    (what `std::sort` requires of its comparison) -/
theorem dpLt_incomp_trans (a b c : DP) (h1 : dpLt a b = false ∧ dpLt b a = false)
    (h2 : dpLt b c = false ∧ dpLt c b = false) : dpLt a c = false ∧ dpLt c a = false := by
  simp only [dpLt, decide_eq_false_iff_not, not_lt] at *
  exact ⟨le_trans h2.1 h1.1, le_trans h1.2 h2.2⟩

example : dpLt ⟨1, 5⟩ ⟨2, 0⟩ = true ∧ dpLt ⟨2, 0⟩ ⟨3, 1⟩ = true := by decide
example : dpLt ⟨1, 5⟩ ⟨1, 0⟩ = false ∧ dpLt ⟨1, 0⟩ ⟨1, 5⟩ = false := by decide

/-- `a > b` is `b < a` -/
theorem dpGt_eq_flip (a b : DP) : dpGt a b = dpLt b a := by simp [dpGt, dpLt]

/-- `==` compares the values only: the weight is ignored -/
theorem dpEq_iff (a b : DP) : dpEq a b = true ↔ a.value = b.value := by simp [dpEq]

theorem dpEq_ignores_weight (v w1 w2 : Rat) : dpEq ⟨v, w1⟩ ⟨v, w2⟩ = true := by simp [dpEq]

/-- … so `==` is coarser than equality of data points -/
example : dpEq ⟨1, 2⟩ ⟨1, 3⟩ = true ∧ (⟨1, 2⟩ : DP) ≠ ⟨1, 3⟩ := by decide

/-- `==` is exactly the incomparability of `<` -/
theorem dpEq_iff_incomparable (a b : DP) : dpEq a b = true ↔ (dpLt a b = false ∧ dpLt b a = false) := by
  simp only [dpEq, dpLt, decide_eq_true_eq, decide_eq_false_iff_not, not_lt]
  constructor
  · intro h; rw [h]; exact ⟨le_refl _, le_refl _⟩
  · intro h; exact le_antisymm h.2 h.1

/-- trichotomy: exactly one of `<`, `==`, `>` holds -/
theorem dp_trichotomy (a b : DP) :
    (dpLt a b = true ∧ dpEq a b = false ∧ dpGt a b = false) ∨
    (dpLt a b = false ∧ dpEq a b = true ∧ dpGt a b = false) ∨
    (dpLt a b = false ∧ dpEq a b = false ∧ dpGt a b = true) := by
  simp only [dpLt, dpEq, dpGt, decide_eq_true_eq, decide_eq_false_iff_not, gt_iff_lt]
  rcases lt_trichotomy a.value b.value with h | h | h
  · left; exact ⟨h, ne_of_lt h, not_lt.mpr h.le⟩
  · right; left; exact ⟨by rw [h]; exact lt_irrefl _, h, by rw [h]; exact lt_irrefl _⟩
  · right; right; exact ⟨not_lt.mpr h.le, (ne_of_lt h).symm, h⟩

/-- `std::sort` with `operator<` (Perform_KDE): a permutation of the data … -/
theorem sortDP_perm (l : List DP) : (sortDP l).Perm l := List.mergeSort_perm l _

/-- … in non-decreasing order of the values -/
theorem sortDP_sorted (l : List DP) : (sortDP l).Pairwise (fun a b => a.value ≤ b.value) := by
  unfold sortDP
  have tr : ∀ (a b c : DP), (!dpLt b a) = true → (!dpLt c b) = true → (!dpLt c a) = true := by
    intro a b c h1 h2
    simp only [dpLt, Bool.not_eq_true', decide_eq_false_iff_not, not_lt] at *
    exact le_trans h1 h2
  have tot : ∀ (a b : DP), ((!dpLt b a) || (!dpLt a b)) = true := by
    intro a b
    simp only [dpLt, Bool.or_eq_true, Bool.not_eq_true', decide_eq_false_iff_not, not_lt]
    exact le_total _ _
  have p := List.pairwise_mergeSort tr tot l
  refine p.imp ?_
  intro a b h
  simpa [dpLt] using h

/-- the sequence of values after sorting does not depend on the order of the input nor on the weights' order -/
theorem sortDP_values_perm_invariant {l1 l2 : List DP} (h : l1.Perm l2) :
    (sortDP l1).map (·.value) = (sortDP l2).map (·.value) := by
  apply List.Perm.eq_of_pairwise' (r := fun (a b : Rat) => a ≤ b)
  · rw [List.pairwise_map]; exact sortDP_sorted l1
  · rw [List.pairwise_map]; exact sortDP_sorted l2
  · exact (((sortDP_perm l1).trans h).trans (sortDP_perm l2).symm).map _

example : [(⟨1, 2⟩ : DP), ⟨0, 3⟩].Perm [⟨0, 3⟩, ⟨1, 2⟩] := by decide

/-- descending sort with `operator>`: a permutation in non-increasing order of the values -/
theorem sortDPDesc_spec (l : List DP) :
    (sortDPDesc l).Perm l ∧ (sortDPDesc l).Pairwise (fun a b => b.value ≤ a.value) := by
  refine ⟨List.mergeSort_perm l _, ?_⟩
  unfold sortDPDesc
  have tr : ∀ (a b c : DP), (!dpGt b a) = true → (!dpGt c b) = true → (!dpGt c a) = true := by
    intro a b c h1 h2
    simp only [dpGt, Bool.not_eq_true', decide_eq_false_iff_not, not_lt, gt_iff_lt] at *
    exact le_trans h2 h1
  have tot : ∀ (a b : DP), ((!dpGt b a) || (!dpGt a b)) = true := by
    intro a b
    simp only [dpGt, Bool.or_eq_true, Bool.not_eq_true', decide_eq_false_iff_not, not_lt, gt_iff_lt]
    exact le_total _ _
  have p := List.pairwise_mergeSort tr tot l
  refine p.imp ?_
  intro a b h
  simpa [dpGt] using h

/-- `std::count` with `operator==` counts the points with the same value, whatever their weights -/
theorem countDP_eq (l : List DP) (x : DP) : countDP l x = (l.filter (fun a => decide (a.value = x.value))).length := by
  simp [countDP, dpEq]

end Lp.C19
