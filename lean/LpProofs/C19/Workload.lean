/- helper lemmas for `workload_spec`: the state of `index_list` after the first `k` remainder steps -/
import LpModel.C19
import Mathlib.Tactic.Ring
import Mathlib.Tactic.Linarith
namespace Lp.C19

theorem workloadStep_length (w r : Nat) (k : Nat) (l : List Nat) :
    ((List.range k).foldl (fun l i => l.modify (w - i) (· + (r - i))) l).length = l.length := by
  induction k with
  | zero => simp
  | succ k ih => rw [List.range_succ, List.foldl_append]; simp [ih]

theorem workloadStep_getElem? (w r : Nat) (l : List Nat) (k : Nat) (hk : k ≤ w) (j : Nat) (hj : j ≤ w) :
    ((List.range k).foldl (fun l i => l.modify (w - i) (· + (r - i))) l)[j]? =
      l[j]?.map (· + if w - j < k then r - (w - j) else 0) := by
  induction k with
  | zero => simp
  | succ k ih =>
    rw [List.range_succ, List.foldl_append]
    simp only [List.foldl_cons, List.foldl_nil, List.getElem?_modify, ih (by omega)]
    cases hl : l[j]? with
    | none => simp
    | some a =>
      simp only [Option.map_some, Option.map_eq_map]
      congr 1
      by_cases h : w - k = j
      · rw [if_pos h, if_neg (by omega), if_pos (by omega)]; omega
      · rw [if_neg h]
        by_cases h2 : w - j < k
        · rw [if_pos h2, if_pos (by omega)]
        · rw [if_neg h2, if_neg (by omega)]

theorem workloadAdd_getElem? (w r : Nat) (hr : r ≤ w) (l : List Nat) (j : Nat) (hj : j ≤ w) :
    (workloadAdd w r l)[j]? = l[j]?.map (· + (j - (w - r))) := by
  unfold workloadAdd
  rw [workloadStep_getElem? w r l r hr j hj]
  congr 1; funext a
  split <;> omega

theorem filter_ge_range_length (n m : Nat) :
    ((List.range n).filter (fun i => decide (m ≤ i))).length = n - m := by
  induction n with
  | zero => simp
  | succ n ih =>
    rw [List.range_succ, List.filter_append, List.length_append, ih]
    by_cases h : m ≤ n
    · simp [h]; omega
    · simp [h]; omega

end Lp.C19
