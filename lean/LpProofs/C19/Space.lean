/- finite `exp`/`log` tables used by the non-vacuity example of `logSpace2_log_spacing` -/
import LpModel.C19
namespace Lp.C19
def exT : Rat → Rat := fun x => if x = 0 then 1 else if x = 1 then 2 else if x = 2 then 4 else if x = -1 then 1/2 else if x = -2 then 1/4 else 0
def lgT : Rat → Rat := fun y => if y = 1 then 0 else if y = 2 then 1 else if y = 4 then 2 else 0
end Lp.C19
