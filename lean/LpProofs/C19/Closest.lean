/- helper lemmas for `locateClosest_nearest`: `isSorted`, `upperBound`, `rabs` -/
import LpModel.C19
import Mathlib.Tactic.Ring
import Mathlib.Tactic.Linarith
import Mathlib.Algebra.Order.Group.Abs
import Mathlib.Algebra.Order.Ring.Abs
namespace Lp.C19

theorem rabs_eq_abs (x : Rat) : Lp.rabs x = |x| := by
  unfold Lp.rabs
  split
  · rw [abs_of_neg ‹_›]
  · rw [abs_of_nonneg (by linarith [not_lt.mp ‹_›])]

theorem isSorted_iff_pairwise (l : List Rat) : isSorted l = true ↔ l.Pairwise (· ≤ ·) := by
  induction l with
  | nil => simp [isSorted]
  | cons a tl ih =>
    cases tl with
    | nil => simp [isSorted]
    | cons b r =>
      rw [isSorted, Bool.and_eq_true, decide_eq_true_eq, ih, List.pairwise_cons (a := a)]
      constructor
      · rintro ⟨hab, hP⟩
        refine ⟨?_, hP⟩
        intro x hx
        rcases List.mem_cons.mp hx with rfl | hx
        · exact hab
        · exact le_trans hab ((List.pairwise_cons.mp hP).1 x hx)
      · rintro ⟨ha, hP⟩
        exact ⟨ha b (by simp), hP⟩

theorem upperBound_le_length (l : List Rat) (t : Rat) : upperBound l t ≤ l.length := by
  unfold upperBound; exact (List.takeWhile_sublist _).length_le

theorem upperBound_below (l : List Rat) (t : Rat) (j : Nat) (hj : j < upperBound l t)
    (hjl : j < l.length) : l[j] ≤ t := by
  induction l generalizing j with
  | nil => simp at hjl
  | cons a tl ih =>
    unfold upperBound at hj
    rw [List.takeWhile_cons] at hj
    by_cases ha : a ≤ t
    · cases j with
      | zero => simpa using ha
      | succ j =>
        simp only [ha, decide_true, if_true, List.length_cons] at hj
        simp only [List.getElem_cons_succ]
        exact ih j (by unfold upperBound; omega) _
    · simp [ha] at hj

theorem upperBound_above (l : List Rat) (t : Rat) (h : upperBound l t < l.length) :
    t < l[upperBound l t] := by
  induction l with
  | nil => simp at h
  | cons a tl ih =>
    by_cases ha : a ≤ t
    · have e : upperBound (a :: tl) t = upperBound tl t + 1 := by
        unfold upperBound; rw [List.takeWhile_cons]; simp [ha]
      simp only [e, List.getElem_cons_succ]
      apply ih
    · have e : upperBound (a :: tl) t = 0 := by
        unfold upperBound; rw [List.takeWhile_cons]; simp [ha]
      simp only [e, List.getElem_cons_zero]
      exact not_le.mp ha



theorem sorted_getElem_le {l : List Rat} (h : isSorted l = true) {i j : Nat} (hij : i ≤ j)
    (hj : j < l.length) : l[i]'(by omega) ≤ l[j] := by
  rcases Nat.lt_or_eq_of_le hij with hlt | rfl
  · exact (List.pairwise_iff_getElem.mp ((isSorted_iff_pairwise l).mp h)) i j (by omega) hj hlt
  · exact le_refl _

end Lp.C19
