/- helper lemmas for the statistics laws: `sum` as `List.sum`, sums of mapped lists, `sortRat` on permutations -/
import LpModel.C19
import Mathlib.Tactic.Ring
import Mathlib.Tactic.Linarith
import Mathlib.Tactic.FieldSimp
import Mathlib.Algebra.BigOperators.Group.List.Basic
import Mathlib.Data.List.Perm.Basic
import Mathlib.Data.List.Sort
namespace Lp.C19

theorem foldl_add_eq (l : List Rat) (a : Rat) : l.foldl (· + ·) a = a + l.sum := by
  induction l generalizing a with
  | nil => simp
  | cons x xs ih => simp only [List.foldl_cons, List.sum_cons, ih]; ring

theorem sum_eq_sum (l : List Rat) : sum l = l.sum := by
  unfold sum; rw [foldl_add_eq]; ring

theorem sum_map_add_const (l : List Rat) (c : Rat) :
    sum (l.map (· + c)) = sum l + (l.length : Rat) * c := by
  simp only [sum_eq_sum]
  induction l with
  | nil => simp
  | cons x xs ih => simp only [List.map_cons, List.sum_cons, ih, List.length_cons]; push_cast; ring

theorem sum_map_const_mul (l : List Rat) (c : Rat) : sum (l.map (c * ·)) = c * sum l := by
  simp only [sum_eq_sum]
  induction l with
  | nil => simp
  | cons x xs ih => simp only [List.map_cons, List.sum_cons, ih]; ring

theorem sum_map_const_mul' {β : Type} (l : List β) (f : β → Rat) (c : Rat) :
    sum (l.map (fun p => c * f p)) = c * sum (l.map f) := by
  simp only [sum_eq_sum]
  induction l with
  | nil => simp
  | cons x xs ih => simp only [List.map_cons, List.sum_cons, ih]; ring

theorem sum_map_zero {β : Type} (l : List β) : sum (l.map (fun _ => (0 : Rat))) = 0 := by
  simp only [sum_eq_sum]
  induction l with
  | nil => simp
  | cons x xs ih => simp only [List.map_cons, List.sum_cons, ih]; ring

theorem sum_map_const {β : Type} (l : List β) (c : Rat) :
    sum (l.map (fun _ => c)) = (l.length : Rat) * c := by
  simp only [sum_eq_sum]
  induction l with
  | nil => simp
  | cons x xs ih => simp only [List.map_cons, List.sum_cons, ih, List.length_cons]; push_cast; ring

theorem sum_perm {l1 l2 : List Rat} (h : l1.Perm l2) : sum l1 = sum l2 := by
  simp only [sum_eq_sum]; exact h.sum_eq

theorem sortRat_perm {l1 l2 : List Rat} (h : l1.Perm l2) : sortRat l1 = sortRat l2 := by
  unfold sortRat
  have tr : ∀ (a b c : Rat), decide (a ≤ b) = true → decide (b ≤ c) = true → decide (a ≤ c) = true := by
    intro a b c h1 h2; simp only [decide_eq_true_eq] at *; exact le_trans h1 h2
  have tot : ∀ (a b : Rat), (decide (a ≤ b) || decide (b ≤ a)) = true := by
    intro a b; simp only [Bool.or_eq_true, decide_eq_true_eq]; exact le_total a b
  have p1 := List.pairwise_mergeSort tr tot l1
  have p2 := List.pairwise_mergeSort tr tot l2
  have hp : (l1.mergeSort (fun a b => decide (a ≤ b))).Perm (l2.mergeSort (fun a b => decide (a ≤ b))) :=
    ((List.mergeSort_perm l1 _).trans h).trans (List.mergeSort_perm l2 _).symm
  simp only [decide_eq_true_eq] at p1 p2
  exact List.Perm.eq_of_pairwise' p1 p2 hp

theorem len_ne {l : List Rat} (h : ¬ l.length = 0) : (l.length : Rat) ≠ 0 := by
  exact_mod_cast h

theorem sortRat_sorted (l : List Rat) : (sortRat l).Pairwise (· ≤ ·) := by
  unfold sortRat
  have tr : ∀ (a b c : Rat), decide (a ≤ b) = true → decide (b ≤ c) = true → decide (a ≤ c) = true := by
    intro a b c h1 h2; simp only [decide_eq_true_eq] at *; exact le_trans h1 h2
  have tot : ∀ (a b : Rat), (decide (a ≤ b) || decide (b ≤ a)) = true := by
    intro a b; simp only [Bool.or_eq_true, decide_eq_true_eq]; exact le_total a b
  have p1 := List.pairwise_mergeSort tr tot l
  simpa only [decide_eq_true_eq] using p1

theorem sortRat_perm_self (l : List Rat) : (sortRat l).Perm l := List.mergeSort_perm l _

theorem sortRat_length (l : List Rat) : (sortRat l).length = l.length := (sortRat_perm_self l).length_eq

theorem sortRat_map_mono (f : Rat → Rat) (hf : ∀ a b, a ≤ b → f a ≤ f b) (l : List Rat) :
    sortRat (l.map f) = (sortRat l).map f := by
  apply List.Perm.eq_of_pairwise' (sortRat_sorted _)
  · rw [List.pairwise_map]
    exact (sortRat_sorted l).imp (fun h => hf _ _ h)
  · exact (sortRat_perm_self _).trans ((sortRat_perm_self l).map f).symm

theorem getD_map_lt (f : Rat → Rat) (s : List Rat) (i : Nat) (hi : i < s.length) :
    (s.map f).getD i 0 = f (s.getD i 0) := by
  simp [List.getD_eq_getElem?_getD, List.getElem?_eq_getElem hi]

theorem sortRat_map_anti (f : Rat → Rat) (hf : ∀ a b, a ≤ b → f b ≤ f a) (l : List Rat) :
    sortRat (l.map f) = ((sortRat l).map f).reverse := by
  apply List.Perm.eq_of_pairwise' (sortRat_sorted _)
  · rw [List.pairwise_reverse, List.pairwise_map]
    exact (sortRat_sorted l).imp (fun h => hf _ _ h)
  · exact (sortRat_perm_self _).trans
      (((sortRat_perm_self l).map f).symm.trans (List.reverse_perm _).symm)

theorem getD_reverse_map_lt (f : Rat → Rat) (s : List Rat) (i : Nat) (hi : i < s.length) :
    ((s.map f).reverse).getD i 0 = f (s.getD (s.length - 1 - i) 0) := by
  rw [List.getD_eq_getElem?_getD, List.getElem?_reverse (by simpa using hi)]
  simp [List.getD_eq_getElem?_getD, List.getElem?_eq_getElem (show s.length - 1 - i < s.length by omega)]

end Lp.C19
