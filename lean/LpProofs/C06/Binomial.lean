/-
  Helper lemmas for C06: the gcd-reduced product of `Binomial_Coefficient` for n > 170 is `Nat.choose`.
-/
import LpModel.C06
import Mathlib.Data.Nat.Choose.Basic
import Mathlib.Tactic.Ring
import Mathlib.Tactic.Linarith
import Mathlib.Tactic.FieldSimp

namespace Lp.C06

/-- one pass of the loop turns `C(N, j)` into `C(N+1, j+1)`, `N = n - m + j`: dividing by `i/gcd` first and multiplying
    by `factor/gcd` afterwards is exact -/
theorem binomProductStep_choose (n m j : Nat) :
    binomProductStep n m ((((n - m + j).choose j : Nat) : Rat)) j = ((((n - m + (j + 1)).choose (j + 1) : Nat)) : Rat) := by
  unfold binomProductStep
  simp only
  have hf : n - m + (j + 1) = (n - m + j) + 1 := by omega
  rw [hf]
  generalize n - m + j = N
  have h := Nat.add_one_mul_choose_eq N j
  generalize N.choose j = C at *
  generalize (N + 1).choose (j + 1) = C' at *
  have gpos : 0 < Nat.gcd (N + 1) (j + 1) := Nat.gcd_pos_of_pos_right _ (Nat.succ_pos j)
  obtain ⟨f', hf'⟩ : Nat.gcd (N + 1) (j + 1) ∣ N + 1 := Nat.gcd_dvd_left _ _
  obtain ⟨i', hi'⟩ : Nat.gcd (N + 1) (j + 1) ∣ j + 1 := Nat.gcd_dvd_right _ _
  generalize Nat.gcd (N + 1) (j + 1) = g at *
  have e1 : (N + 1) / g = f' := by rw [hf']; exact Nat.mul_div_cancel_left _ gpos
  have e2 : (j + 1) / g = i' := by rw [hi']; exact Nat.mul_div_cancel_left _ gpos
  rw [e1, e2]
  have i'pos : 0 < i' := by
    rcases Nat.eq_zero_or_pos i' with h0 | h0
    · rw [h0] at hi'; omega
    · exact h0
  have key : f' * C = C' * i' := by
    apply Nat.eq_of_mul_eq_mul_left gpos
    calc g * (f' * C) = (g * f') * C := by ring
      _ = (N + 1) * C := by rw [← hf']
      _ = C' * (j + 1) := h
      _ = C' * (g * i') := by rw [← hi']
      _ = g * (C' * i') := by ring
  have hi0 : ((i' : Nat) : Rat) ≠ 0 := by exact_mod_cast i'pos.ne'
  have keyQ : ((f' : Nat) : Rat) * ((C : Nat) : Rat) = ((C' : Nat) : Rat) * ((i' : Nat) : Rat) := by exact_mod_cast key
  field_simp
  linarith [keyQ]

theorem binomFold (n m j : Nat) :
    (List.range j).foldl (binomProductStep n m) 1 = ((((n - m + j).choose j : Nat)) : Rat) := by
  induction j with
  | zero => simp
  | succ j ih =>
    rw [List.range_succ, List.foldl_append, ih]
    simp only [List.foldl_cons, List.foldl_nil]
    exact binomProductStep_choose n m j

/-- **the product loop is the binomial coefficient**, for every `0 ≤ k ≤ n` -/
theorem binomProduct_eq_choose (n k : Nat) (hk : k ≤ n) : binomProduct n k = ((n.choose k : Nat) : Rat) := by
  unfold binomProduct
  simp only
  rw [binomFold]
  have hm : min k (n - k) ≤ n := le_trans (min_le_left _ _) hk
  have e : n - min k (n - k) + min k (n - k) = n := by omega
  rw [e]
  rcases le_total k (n - k) with h | h
  · rw [min_eq_left h]
  · rw [min_eq_right h, Nat.choose_symm hk]

end Lp.C06
