/-
  Helper lemmas for C06: the Halley loop of Inv_GammaP keeps its iterate positive.
-/
import LpModel.C06
import Mathlib.Tactic.Ring
import Mathlib.Tactic.Linarith

namespace Lp.C06

theorem step_pos (x t : Rat) (hx : 0 < x) : 0 < (if x - t ≤ 0 then 1 / 2 * (x - t + t) else x - t) := by
  split_ifs with h
  · have : 1 / 2 * (x - t + t) = x / 2 := by ring
    rw [this]; linarith
  · exact not_le.mp h

/-- a pass of the Halley loop keeps `x` positive (`x ← x/2` when the step would leave the domain) -/
theorem halleyStep_pos (px p a t x : Rat) (hx : 0 < x) : 0 < (halleyStep px p a t x).1 := by
  unfold halleyStep
  exact step_pos _ _ hx

theorem halley_nonneg (T : Transc) (P : Rat → Rat → Except Err Rat) (p a gln : Rat) (f : Nat) (x r : Rat)
    (h : halley T P p a gln f x = .ok r) (hx : 0 < x ∨ 0 < f) : 0 ≤ r := by
  induction f generalizing x with
  | zero =>
    simp only [halley] at h
    cases h
    rcases hx with hx | hx
    · exact le_of_lt hx
    · omega
  | succ f ih =>
    unfold halley at h
    split_ifs at h with h0
    · cases h; exact le_refl _
    · have hx' : 0 < x := not_le.mp h0
      cases hP : P x a with
      | error e => rw [hP] at h; cases h
      | ok px =>
        rw [hP] at h
        simp only at h
        have hpos := halleyStep_pos px p a (halleyDensity T a gln x) x hx'
        split_ifs at h with ht hb
        · cases h; exact le_of_lt hx'
        · cases h; exact le_of_lt hpos
        · exact ih _ h (Or.inl hpos)

end Lp.C06
