/-
  Helper lemmas for C06: modified Lentz = Wallis convergents; series terms.
-/
import LpModel.C06
import Mathlib.Tactic.Ring
import Mathlib.Tactic.Linarith
import Mathlib.Tactic.FieldSimp
import Mathlib.Tactic.Positivity

namespace Lp.C06

/-! ### Legendre's continued fraction for Q(x,a)·Γ(a)/(e^-x x^a):
    `1/(b₀ + a₁/(b₁ + a₂/(b₂ + …)))`, `aᵢ = -i(i-a)`, `bᵢ = x + 2i + 1 - a`. -/

def legA (a : Rat) (i : Nat) : Rat := -(i : Rat) * ((i : Rat) - a)
def legB (x a : Rat) (i : Nat) : Rat := x + 2 * (i : Rat) + 1 - a

/-- Wallis numerators: `(A_n, A_{n-1})`, started from `A_0 = 1`, `A_{-1} = am1`.
    (`am1 = 0` gives the classical convergents; the code's `c = 1/FPMIN` is `am1 = FPMIN`.) -/
def wallisA (am1 x a : Rat) : Nat → Rat × Rat
  | 0 => (1, am1)
  | n + 1 =>
    let p := wallisA am1 x a n
    (legB x a (n + 1) * p.1 + legA a (n + 1) * p.2, p.1)

/-- Wallis denominators: `(B_n, B_{n-1})`, `B_0 = b₀`, `B_{-1} = 1`. -/
def wallisB (x a : Rat) : Nat → Rat × Rat
  | 0 => (legB x a 0, 1)
  | n + 1 =>
    let p := wallisB x a n
    (legB x a (n + 1) * p.1 + legA a (n + 1) * p.2, p.1)

/-- neither `if(fabs(d) < FPMIN)` nor `if(fabs(c) < FPMIN)` fires in the pass that starts in `s` -/
def NoClamp (fpmin a : Rat) (s : LS) : Prop :=
  ¬ rabs (coefA a s.i * s.d + (s.b + 2)) < fpmin ∧ ¬ rabs ((s.b + 2) + coefA a s.i / s.c) < fpmin

theorem ne_zero_of_not_rabs_lt {fpmin v : Rat} (hf : 0 < fpmin) (h : ¬ rabs v < fpmin) : v ≠ 0 := by
  intro hv
  apply h
  subst hv
  simp [rabs, hf]

theorem coefA_eq (a : Rat) (i : Nat) : coefA a i = legA a i := by
  unfold coefA legA; ring

/-- what the loop state is after `n` passes, in terms of the Wallis recurrences -/
structure LentzInv (fpmin x a : Rat) (n : Nat) (s : LS) : Prop where
  idx : s.i = n + 1
  bb : s.b = legB x a n
  An : (wallisA fpmin x a n).1 ≠ 0
  Am : (wallisA fpmin x a n).2 ≠ 0
  Bn : (wallisB x a n).1 ≠ 0
  cc : s.c = (wallisA fpmin x a n).1 / (wallisA fpmin x a n).2
  dd : s.d = (wallisB x a n).2 / (wallisB x a n).1
  hh : s.h = (wallisA fpmin x a n).1 / (wallisB x a n).1

theorem lentzInv_init (fpmin x a : Rat) (hf : 0 < fpmin) (hb : x + 1 - a ≠ 0) :
    LentzInv fpmin x a 0 (lentzInit fpmin x a) := by
  have hb' : legB x a 0 ≠ 0 := by simpa [legB] using hb
  refine ⟨rfl, ?_, ?_, ?_, ?_, ?_, ?_, ?_⟩ <;> simp [lentzInit, wallisA, wallisB, legB, hf.ne']
  exact hb

theorem lentzInv_step (fpmin x a : Rat) (hf : 0 < fpmin) (n : Nat) (s : LS)
    (I : LentzInv fpmin x a n s) (hc : NoClamp fpmin a s) :
    LentzInv fpmin x a (n + 1) (lentzStep fpmin a s) := by
  obtain ⟨idx, bb, An, Am, Bn, cc, dd, hh⟩ := I
  obtain ⟨hd, hc'⟩ := hc
  have hbn : s.b + 2 = legB x a (n + 1) := by rw [bb]; unfold legB; push_cast; ring
  have han : coefA a s.i = legA a (n + 1) := by rw [idx, coefA_eq]
  -- the two quantities that are compared with FPMIN
  have eD : coefA a s.i * s.d + (s.b + 2) = (wallisB x a (n + 1)).1 / (wallisB x a n).1 := by
    rw [han, hbn, dd]; simp only [wallisB]; field_simp; ring
  have eC : (s.b + 2) + coefA a s.i / s.c = (wallisA fpmin x a (n + 1)).1 / (wallisA fpmin x a n).1 := by
    rw [han, hbn, cc]; simp only [wallisA]; field_simp
  have d0 := ne_zero_of_not_rabs_lt hf hd
  have c0 := ne_zero_of_not_rabs_lt hf hc'
  have Bn1 : (wallisB x a (n + 1)).1 ≠ 0 := by
    intro h; apply d0; rw [eD, h]; simp
  have An1 : (wallisA fpmin x a (n + 1)).1 ≠ 0 := by
    intro h; apply c0; rw [eC, h]; simp
  have ed : (lentzStep fpmin a s).d = (wallisB x a n).1 / (wallisB x a (n + 1)).1 := by
    simp only [lentzStep, lentzBody, clamp, if_neg hd]
    rw [eD]; simp
  have ec : (lentzStep fpmin a s).c = (wallisA fpmin x a (n + 1)).1 / (wallisA fpmin x a n).1 := by
    simp only [lentzStep, lentzBody, clamp, if_neg hc']
    rw [eC]
  refine ⟨?_, ?_, An1, An, Bn1, ?_, ?_, ?_⟩
  · simp [lentzStep, lentzBody, idx]
  · simp only [lentzStep, lentzBody]; exact hbn
  · rw [ec]; simp [wallisA]
  · rw [ed]; simp [wallisB]
  · have eh : (lentzStep fpmin a s).h = s.h * ((lentzStep fpmin a s).d * (lentzStep fpmin a s).c) := by
      simp [lentzStep, lentzBody]
    rw [eh, ed, ec, hh]
    field_simp

/-! ### series -/

/-- `a (a+1) … (a+n)` -/
def poch (a : Rat) : Nat → Rat
  | 0 => a
  | n + 1 => poch a n * (a + ((n + 1 : Nat) : Rat))

theorem poch_pos (a : Rat) (ha : 0 < a) (n : Nat) : 0 < poch a n := by
  induction n with
  | zero => exact ha
  | succ n ih =>
    simp only [poch]
    have : (0 : Rat) ≤ ((n + 1 : Nat) : Rat) := Nat.cast_nonneg _
    exact mul_pos ih (by linarith)

theorem pserIter_ap (x a : Rat) (n : Nat) : (pserIter x a n).ap = a + (n : Rat) := by
  induction n with
  | zero => simp [pserIter, pserInit]
  | succ n ih => simp only [pserIter, pserStep, ih]; push_cast; ring

theorem pserIter_del (x a : Rat) (n : Nat) : (pserIter x a n).del = x ^ n / poch a n := by
  induction n with
  | zero => simp [pserIter, pserInit, poch]
  | succ n ih =>
    simp only [pserIter, pserStep, ih, pserIter_ap, poch]
    rw [div_mul_div_comm, pow_succ]
    push_cast
    ring

theorem pserIter_sum_succ (x a : Rat) (n : Nat) :
    (pserIter x a (n + 1)).sum = (pserIter x a n).sum + (pserIter x a (n + 1)).del := by
  simp [pserIter, pserStep]

end Lp.C06
