/-
  Helper lemmas for C06: the factorial memo machine and the binomial floor formula.
-/
import LpModel.C06
import Mathlib.Data.Nat.Choose.Basic
import Mathlib.Data.Rat.Floor
import Mathlib.Tactic.Ring
import Mathlib.Tactic.Linarith
import Mathlib.Tactic.FieldSimp

namespace Lp.C06
open Nat

/-- the table `[0!, 1!, …, (m-1)!]` -/
def FT (m : Nat) : Tbl := (List.range m).map (fun i => ((i ! : Nat) : Rat))

/-- table invariant: non-empty and `tbl[i] = i!` for every stored index -/
def TblInv (t : Tbl) : Prop := ∃ m, 1 ≤ m ∧ t = FT m

theorem fact_eq (n : Nat) : fact n = n ! := by
  induction n with
  | zero => rfl
  | succ n ih => simp [fact, ih, Nat.factorial_succ]

theorem FT_length (m : Nat) : (FT m).length = m := by simp [FT]

theorem FT_succ (m : Nat) : FT (m + 1) = FT m ++ [((m ! : Nat) : Rat)] := by
  simp [FT, List.range_succ]

theorem FT_getD (m n : Nat) (h : n < m) : (FT m).getD n 0 = ((n ! : Nat) : Rat) := by
  simp [FT, List.getD_eq_getElem?_getD, h]

theorem FT_getLastD (m : Nat) (d : Rat) : (FT (m + 1)).getLastD d = ((m ! : Nat) : Rat) := by
  rw [FT_succ, List.getLastD_concat]

theorem pushNext_FT (m : Nat) (h : 1 ≤ m) : pushNext (FT m) = FT (m + 1) := by
  obtain ⟨k, rfl⟩ : ∃ k, m = k + 1 := ⟨m - 1, by omega⟩
  rw [FT_succ (k + 1)]
  unfold pushNext
  rw [FT_getLastD, FT_length, Nat.factorial_succ]
  push_cast
  congr 2
  ring

theorem extend_FT (f m : Nat) (h : 1 ≤ m) : extend f (FT m) = FT (m + f) := by
  induction f generalizing m with
  | zero => rfl
  | succ f ih =>
    simp only [extend]
    rw [pushNext_FT m h, ih (m + 1) (by omega)]
    congr 1
    omega

theorem factorial_FT (m n : Nat) (hm : 1 ≤ m) (hn : n ≤ 170) :
    factorial (FT m) n = (.ok ((n ! : Nat) : Rat), FT (max m (n + 1))) := by
  unfold factorial
  -- the bound of the code (`K.factMax`, read from the source) is the 170 of the statement
  rw [if_neg (show ¬ n > K.factMax by simp only [K.factMax]; omega), FT_length]
  by_cases h : n < m
  · rw [if_pos h, FT_getD m n h, Nat.max_eq_left (by omega)]
  · rw [if_neg h]
    simp only
    rw [extend_FT _ _ hm]
    have e : m + (n + 1 - m) = n + 1 := by omega
    rw [e, FT_getLastD, Nat.max_eq_right (by omega)]

/-- the floor formula is the binomial coefficient, for all `k ≤ n` (no bound on `n`) -/
theorem floor_formula (n k : Nat) (h : k ≤ n) :
    (((1 : Rat) / 2 + ((n ! : Nat) : Rat) / ((k ! : Nat) : Rat) / (((n - k)! : Nat) : Rat)).floor : Rat)
      = ((n.choose k : Nat) : Rat) := by
  have hk : ((k ! : Nat) : Rat) ≠ 0 := by exact_mod_cast Nat.factorial_ne_zero k
  have hnk : (((n - k)! : Nat) : Rat) ≠ 0 := by exact_mod_cast Nat.factorial_ne_zero (n - k)
  have e : ((n ! : Nat) : Rat) / ((k ! : Nat) : Rat) / (((n - k)! : Nat) : Rat) = ((n.choose k : Nat) : Rat) := by
    rw [← Nat.choose_mul_factorial_mul_factorial h]
    push_cast
    field_simp
  rw [e]
  have : (((1 : Rat) / 2 + ((n.choose k : Nat) : Rat)).floor) = ((n.choose k : Nat) : Int) := by
    change ⌊(1 : Rat) / 2 + ((n.choose k : Nat) : Rat)⌋ = _
    rw [Int.floor_eq_iff]
    constructor
    · push_cast; linarith
    · push_cast; linarith
  rw [this]
  push_cast
  rfl

end Lp.C06
