/-
  Helper lemmas for C03 (adaptive Simpson): unfolding equations of the model, absolute values,
  Boole's rule on quintics, the per-panel error algebra.
-/
import LpModel.C03
import Mathlib.Tactic.Ring
import Mathlib.Tactic.Linarith
import Mathlib.Tactic.FieldSimp
import Mathlib.Tactic.Positivity
import Mathlib.Algebra.Order.Field.Rat
import Mathlib.Algebra.Order.Ring.Abs
namespace Lp.C03

theorem rabs_eq_abs (x : Rat) : Lp.rabs x = |x| := by
  unfold Lp.rabs
  split
  · rename_i h; rw [abs_of_neg h]
  · rename_i h; rw [abs_of_nonneg (not_lt.mp h)]

theorem rabs_neg (x : Rat) : Lp.rabs (-x) = Lp.rabs x := by
  rw [rabs_eq_abs, rabs_eq_abs, abs_neg]

theorem rabs_nonneg (x : Rat) : 0 ≤ Lp.rabs x := by
  rw [rabs_eq_abs]; exact abs_nonneg x

/-! ### unfolding equations -/

section unfold
variable (f : Rat → Rat) (a b eps S fa fb fc : Rat)

/-- the quantities one invocation computes -/
def mid : Rat := (a + b) / 2
def dL : Rat := (a + (a + b) / 2) / 2
def eR : Rat := (b + (a + b) / 2) / 2
def sLeft : Rat := ((b - a) / K.sLeftDiv) * (fa + K.sLeftMidW * f ((a + (a + b) / 2) / 2) + fc)
def sRight : Rat := ((b - a) / K.sRightDiv) * (fc + K.sRightMidW * f ((b + (a + b) / 2) / 2) + fb)
def s2 : Rat := sLeft f a b fa fc + sRight f a b fb fc

def mkPanel (bottom : Nat) (leaf : Bool) : Panel :=
  { a := a, b := b, eps := eps, S := S, fa := fa, fb := fb, fc := fc, S2 := s2 f a b fa fb fc, bottom := bottom, leaf := leaf }

theorem adaptive_zero :
    adaptive f a b eps S fa fb fc 0 =
      { val := s2 f a b fa fb fc + (s2 f a b fa fb fc - S) / K.richardson, evals := [dL a b, eR a b],
        warn := decide (Lp.rabs (s2 f a b fa fb fc - S) > K.warnFactor * eps),
        panels := [mkPanel f a b eps S fa fb fc 0 true] } := by
  rfl

theorem adaptive_succ_accept (n : Nat) (h : Lp.rabs (s2 f a b fa fb fc - S) ≤ K.accFactor * eps) :
    adaptive f a b eps S fa fb fc (n + 1) =
      { val := s2 f a b fa fb fc + (s2 f a b fa fb fc - S) / K.richardson, evals := [dL a b, eR a b],
        warn := false, panels := [mkPanel f a b eps S fa fb fc (n + 1) true] } := by
  unfold s2 sLeft sRight at h
  rw [adaptive]; simp only []
  rw [if_pos h]; rfl

theorem adaptive_succ_reject (n : Nat) (h : ¬ Lp.rabs (s2 f a b fa fb fc - S) ≤ K.accFactor * eps) :
    adaptive f a b eps S fa fb fc (n + 1) =
      let L := adaptive f a (mid a b) (eps / K.epsDivL) (sLeft f a b fa fc) fa fc (f (dL a b)) n
      let R := adaptive f (mid a b) b (eps / K.epsDivR) (sRight f a b fb fc) fc fb (f (eR a b)) n
      { val := L.val + R.val, evals := dL a b :: eR a b :: (L.evals ++ R.evals), warn := L.warn || R.warn,
        panels := mkPanel f a b eps S fa fb fc (n + 1) false :: (L.panels ++ R.panels) } := by
  unfold s2 sLeft sRight at h
  rw [adaptive]; simp only []
  rw [if_neg h]; rfl

end unfold

end Lp.C03
