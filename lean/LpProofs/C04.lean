/-
  C04 — Vector and matrix algebra obeys the algebraic laws for every conformable shape.
  Property theorems: every operation of the model (LpModel/C04.lean, mirroring
  src/Linear_Algebra.cpp) refines the corresponding operation on Mathlib's
  `Matrix (Fin m) (Fin n) ℚ` through `toM` / `toV`; the algebraic laws follow from Mathlib for all shapes.
  Helper lemmas: LpProofs/C04/Basic.lean.
-/
import LpProofs.C04.Basic
import LpProofs.C04.Assign
import LpModel.C04.History
import Mathlib.LinearAlgebra.Matrix.Trace
import Mathlib.LinearAlgebra.CrossProduct
import Mathlib.Logic.Equiv.Fin.Basic

namespace Lp.C04
open Mat Matrix


/-! ## Sums and differences: defined iff the shapes are equal; entry-wise -/

theorem plus_defined_iff (A B : Mat) :
    (∃ C, plus A B = .ok C) ↔ (A.rows = B.rows ∧ A.cols = B.cols) := by
  unfold plus; split <;> simp_all; omega

theorem plus_err_iff (A B : Mat) :
    plus A B = .error .diag ↔ ¬ (A.rows = B.rows ∧ A.cols = B.cols) := by
  unfold plus; split <;> simp_all; omega

theorem plus_refines {A B C : Mat} (h : plus A B = .ok C) :
    C.WellShaped ∧ C.rows = A.rows ∧ (A.rows ≠ 0 → C.cols = A.cols) ∧
    toM C A.rows A.cols = toM A A.rows A.cols + toM B A.rows A.cols := by
  unfold plus at h; split at h
  · cases h
  · cases h
    refine ⟨wellShaped_ofFnE _ _ _, rfl, fun h0 => by simp [ofFnE, h0], ?_⟩
    ext i j
    simp [get_ofFnE _ i.isLt j.isLt]

theorem minus_defined_iff (A B : Mat) :
    (∃ C, minus A B = .ok C) ↔ (A.rows = B.rows ∧ A.cols = B.cols) := by
  unfold minus; split <;> simp_all; omega

theorem minus_err_iff (A B : Mat) :
    minus A B = .error .diag ↔ ¬ (A.rows = B.rows ∧ A.cols = B.cols) := by
  unfold minus; split <;> simp_all; omega

theorem minus_refines {A B C : Mat} (h : minus A B = .ok C) :
    C.WellShaped ∧ C.rows = A.rows ∧ (A.rows ≠ 0 → C.cols = A.cols) ∧
    toM C A.rows A.cols = toM A A.rows A.cols - toM B A.rows A.cols := by
  unfold minus at h; split at h
  · cases h
  · cases h
    refine ⟨wellShaped_ofFnE _ _ _, rfl, fun h0 => by simp [ofFnE, h0], ?_⟩
    ext i j
    simp [get_ofFnE _ i.isLt j.isLt]

/-! ## Products -/

theorem mul_defined_iff (A B : Mat) : (∃ C, mul A B = .ok C) ↔ A.cols = B.rows := by
  unfold mul; split <;> simp_all

theorem mul_err_iff (A B : Mat) : mul A B = .error .diag ↔ A.cols ≠ B.rows := by
  unfold mul; split <;> simp_all

/-- entries `Σ_k a_ik b_kj`: the triple loop is Mathlib's matrix product -/
theorem mul_refines {A B C : Mat} (h : mul A B = .ok C) :
    C.WellShaped ∧ C.rows = A.rows ∧ C.cols = B.cols ∧
    toM C A.rows B.cols = toM A A.rows A.cols * toM B A.cols B.cols := by
  unfold mul at h; split at h
  · cases h
  · cases h
    refine ⟨wellShaped_ofFn _ _ _, rfl, rfl, ?_⟩
    ext i j
    simp [get_ofFn _ i.isLt j.isLt, Matrix.mul_apply, sumRange_eq_sum]

theorem mul_entry {A B C : Mat} (h : mul A B = .ok C) {i j : ℕ} (hi : i < A.rows) (hj : j < B.cols) :
    C.get i j = ∑ k : Fin A.cols, A.get i k * B.get k j := by
  unfold mul at h; split at h
  · cases h
  · cases h; simp [get_ofFn _ hi hj, sumRange_eq_sum]

theorem transpose_refines (A : Mat) :
    (transpose A).WellShaped ∧ (transpose A).rows = A.cols ∧ (A.cols ≠ 0 → (transpose A).cols = A.rows) ∧
    toM (transpose A) A.cols A.rows = (toM A A.rows A.cols)ᵀ := by
  refine ⟨wellShaped_ofFnE _ _ _, rfl, fun h0 => by simp [transpose, ofFnE, h0], ?_⟩
  ext i j
  simp [transpose, get_ofFnE _ i.isLt j.isLt]

theorem smul_refines (s : ℚ) (A : Mat) :
    (smul s A).WellShaped ∧ (smul s A).rows = A.rows ∧ (A.rows ≠ 0 → (smul s A).cols = A.cols) ∧
    toM (smul s A) A.rows A.cols = s • toM A A.rows A.cols := by
  refine ⟨wellShaped_ofFnE _ _ _, rfl, fun h0 => by simp [smul, ofFnE, h0], ?_⟩
  ext i j
  simp [smul, get_ofFnE _ i.isLt j.isLt]

theorem sdiv_refines (A : Mat) (s : ℚ) :
    (sdiv A s).WellShaped ∧ (sdiv A s).rows = A.rows ∧ (A.rows ≠ 0 → (sdiv A s).cols = A.cols) ∧
    toM (sdiv A s) A.rows A.cols = s⁻¹ • toM A A.rows A.cols := by
  refine ⟨wellShaped_ofFnE _ _ _, rfl, fun h0 => by simp [sdiv, ofFnE, h0], ?_⟩
  ext i j
  simp [sdiv, get_ofFnE _ i.isLt j.isLt, div_eq_inv_mul]

theorem matVec_defined_iff (A : Mat) (v : Vec) : (∃ w, matVec A v = .ok w) ↔ v.length = A.cols := by
  unfold matVec; split <;> simp_all

theorem matVec_refines {A : Mat} {v w : Vec} (h : matVec A v = .ok w) :
    w.length = A.rows ∧ toV w A.rows = (toM A A.rows A.cols).mulVec (toV v A.cols) := by
  unfold matVec at h; split at h
  · cases h
  · cases h
    refine ⟨vtab_length _ _, ?_⟩
    ext i
    rw [toV_apply, vtab_getD _ i.isLt]
    simp [Matrix.mulVec, dotProduct, sumRange_eq_sum]

theorem vecMat_defined_iff (v : Vec) (A : Mat) : (∃ w, vecMat v A = .ok w) ↔ v.length = A.rows := by
  unfold vecMat; split <;> simp_all

theorem vecMat_refines {A : Mat} {v w : Vec} (h : vecMat v A = .ok w) :
    w.length = A.cols ∧ toV w A.cols = Matrix.vecMul (toV v A.rows) (toM A A.rows A.cols) := by
  unfold vecMat at h; split at h
  · cases h
  · cases h
    refine ⟨vtab_length _ _, ?_⟩
    ext i
    rw [toV_apply, vtab_getD _ i.isLt]
    simp [Matrix.vecMul, dotProduct, sumRange_eq_sum]

/-- the outer product is the product of the column matrix of `u` with the row matrix of `v` -/
theorem outer_refines (u v : Vec) :
    (outer u v).WellShaped ∧ (outer u v).rows = u.length ∧ (outer u v).cols = v.length ∧
    toM (outer u v) u.length v.length = Matrix.vecMulVec (toV u u.length) (toV v v.length) ∧
    toM (outer u v) u.length v.length
      = Matrix.replicateCol (Fin 1) (toV u u.length) * Matrix.replicateRow (Fin 1) (toV v v.length) := by
  have key : toM (outer u v) u.length v.length = Matrix.vecMulVec (toV u u.length) (toV v v.length) := by
    ext i j
    simp [outer, get_ofFn _ i.isLt j.isLt, Matrix.vecMulVec_apply]
  refine ⟨wellShaped_ofFn _ _ _, rfl, rfl, key, ?_⟩
  rw [key]
  ext i j
  simp [Matrix.vecMulVec_apply, Matrix.mul_apply]

theorem dot_defined_iff (u v : Vec) : (∃ d, dot u v = .ok d) ↔ u.length = v.length := by
  unfold dot; split <;> simp_all

/-- the dot product is the (1×n)·(n×1) matrix product -/
theorem dot_refines {u v : Vec} {d : ℚ} (h : dot u v = .ok d) :
    d = toV u u.length ⬝ᵥ toV v u.length ∧
    Matrix.replicateRow (Fin 1) (toV u u.length) * Matrix.replicateCol (Fin 1) (toV v u.length)
      = Matrix.of (fun _ _ => d) := by
  unfold dot at h; split at h
  · cases h
  · cases h
    constructor
    · simp [dotProduct, sumRange_eq_sum]
    · ext i j
      simp [Matrix.mul_apply, sumRange_eq_sum]

theorem cross_defined_iff (u v : Vec) : (∃ w, cross u v = .ok w) ↔ (u.length = 3 ∧ v.length = 3) := by
  unfold cross; split <;> simp_all; omega

theorem cross_refines {u v w : Vec} (h : cross u v = .ok w) :
    w.length = 3 ∧ toV w 3 = crossProduct (toV u 3) (toV v 3) := by
  unfold cross at h; split at h
  · cases h
  · cases h
    refine ⟨rfl, ?_⟩
    rw [cross_apply]
    ext i
    fin_cases i <;> simp [toV]

theorem identity_refines (n : ℕ) :
    (identity n).WellShaped ∧ (identity n).rows = n ∧ (identity n).cols = n ∧
    toM (identity n) n n = (1 : Matrix (Fin n) (Fin n) ℚ) := by
  have hl : (List.replicate n (1 : ℚ)).length = n := by simp
  refine ⟨wellShaped_ofFn _ _ _, by simp [identity, diagM], by simp [identity, diagM], ?_⟩
  ext i j
  have hi : (i : ℕ) < (List.replicate n (1 : ℚ)).length := by simp
  have hj : (j : ℕ) < (List.replicate n (1 : ℚ)).length := by simp
  simp only [identity, diagM, toM_apply, get_ofFn _ hi hj, Matrix.one_apply, Fin.ext_iff]
  split <;> simp [List.getD_eq_getElem?_getD]

theorem diagM_refines (d : Vec) :
    (diagM d).WellShaped ∧ toM (diagM d) d.length d.length = Matrix.diagonal (toV d d.length) := by
  refine ⟨wellShaped_ofFn _ _ _, ?_⟩
  ext i j
  simp only [diagM, toM_apply, get_ofFn _ i.isLt j.isLt, Matrix.diagonal_apply, Fin.ext_iff]
  split <;> simp

theorem trace_defined_iff (A : Mat) : (∃ t, trace A = .ok t) ↔ A.rows = A.cols := by
  unfold trace; split <;> simp_all

theorem trace_refines {A : Mat} {t : ℚ} (h : trace A = .ok t) :
    A.rows = A.cols ∧ t = Matrix.trace (toM A A.rows A.rows) := by
  unfold trace at h; split at h
  · cases h
  · cases h
    refine ⟨by omega, ?_⟩
    simp [Matrix.trace, sumRange_eq_sum]



/-! ## Sub_Matrix, Delete_Row/Column, Return_Row/Column -/

/-- `Sub_Matrix(r, c)` of an in-range request is the total `subMatrixN` -/
theorem subMatrix_eq {A : Mat} {r c : ℕ} (hr : r < A.rows) (hc : c < A.cols) (hr' : r < 4294967296)
    (hc' : c < 4294967296) : subMatrix A (r : ℤ) (c : ℤ) = .ok (subMatrixN A r c) := by
  have e1 : toU32 (r : ℤ) = r := by
    unfold toU32; rw [Int.emod_eq_of_lt (by omega) (by omega)]; simp
  have e2 : toU32 (c : ℤ) = c := by
    unfold toU32; rw [Int.emod_eq_of_lt (by omega) (by omega)]; simp
  simp only [subMatrix, e1, e2, deleteRow, deleteCol, bind, Except.bind]
  have : ¬ r ≥ A.rows := by omega
  have : ¬ c ≥ A.cols := by omega
  simp [*, subMatrixN]

/-- out-of-range (or negative) indices give the diagnostic -/
theorem subMatrix_err {A : Mat} {r c : ℤ} (h : toU32 r ≥ A.rows ∨ toU32 c ≥ A.cols) :
    subMatrix A r c = .error .diag := by
  simp only [subMatrix, deleteRow, deleteCol, bind, Except.bind]
  by_cases h1 : toU32 r ≥ A.rows
  · simp [h1]
  · have h2 : toU32 c ≥ A.cols := by tauto
    simp [h1, h2]

/-- `Sub_Matrix(r,c)` deletes row `r` and column `c`: Mathlib's `submatrix` along `succAbove` -/
theorem subMatrix_refines {A : Mat} {m n : ℕ} (hm : A.rows = m + 1) (hn : A.cols = n + 1)
    (r : Fin (m + 1)) (c : Fin (n + 1)) :
    toM (subMatrixN A r c) m n = (toM A (m + 1) (n + 1)).submatrix r.succAbove c.succAbove := by
  ext i j
  simp only [toM_apply, get_subMatrixN, Matrix.submatrix_apply]
  congr 1
  · by_cases h : (i : ℕ) < r
    · simp [h, Fin.succAbove, Fin.lt_def]
    · simp [h, Fin.succAbove, Fin.lt_def]
  · by_cases h : (j : ℕ) < c
    · simp [h, Fin.succAbove, Fin.lt_def]
    · simp [h, Fin.succAbove, Fin.lt_def]

theorem deleteRow_refines {A B : Mat} {r : ℕ} (h : deleteRow A r = .ok B) :
    r < A.rows ∧ B.rows = A.rows - 1 ∧ B.cols = A.cols ∧
    ∀ i j, B.get i j = A.get (if i < r then i else i + 1) j := by
  unfold deleteRow at h; split at h
  · cases h
  · cases h
    refine ⟨by omega, rfl, rfl, fun i j => ?_⟩
    simp only [Mat.get, Mat.row, getD_eraseIdx]

theorem deleteCol_refines {A B : Mat} {c : ℕ} (h : deleteCol A c = .ok B) :
    c < A.cols ∧ B.rows = A.rows ∧ B.cols = A.cols - 1 ∧
    ∀ i j, B.get i j = A.get i (if j < c then j else j + 1) := by
  unfold deleteCol at h; split at h
  · cases h
  · cases h
    refine ⟨by omega, rfl, rfl, fun i j => ?_⟩
    simp only [Mat.get, Mat.row]
    rw [← getD_eraseIdx]
    simp only [List.getD_eq_getElem?_getD, List.getElem?_map]
    cases h : A.data[i]? <;> simp

theorem returnRow_refines {A : Mat} (hA : A.WellShaped) {r : ℕ} {v : Vec} (h : returnRow A r = .ok v) :
    ∃ hr : r < A.rows, v.length = A.cols ∧ toV v A.cols = toM A A.rows A.cols ⟨r, hr⟩ := by
  unfold returnRow at h; split at h
  · cases h
  · cases h
    have hr : r < A.rows := by omega
    refine ⟨hr, ?_, ?_⟩
    · obtain ⟨h1, h2⟩ := hA
      have hr' : r < A.data.length := by omega
      have : A.row r = A.data[r] := by simp [Mat.row, List.getD_eq_getElem?_getD, hr']
      rw [this]; exact h2 _ (List.getElem_mem hr')
    · ext j; simp [Mat.get]

theorem returnRow_err_iff (A : Mat) (r : ℕ) : returnRow A r = .error .diag ↔ A.rows ≤ r := by
  unfold returnRow; split <;> simp_all

theorem returnCol_refines {A : Mat} {c : ℕ} {v : Vec} (h : returnCol A c = .ok v) :
    ∃ hc : c < A.cols, v.length = A.rows ∧ toV v A.rows = fun i => toM A A.rows A.cols i ⟨c, hc⟩ := by
  unfold returnCol at h; split at h
  · cases h
  · have hc : c < A.cols := by omega
    have h0 : A.cols ≠ 0 := by omega
    unfold returnRow at h
    have : ¬ c ≥ (transpose A).rows := by simp [transpose]; omega
    simp only [this, if_false] at h
    cases h
    refine ⟨hc, ?_, ?_⟩
    · simp [transpose, ofFnE, h0, ofFn, Mat.row, List.getD_eq_getElem?_getD, hc]
    · ext i
      have := get_ofFnE (fun i j => A.get j i) (m := A.cols) (n := A.rows) hc i.isLt
      simp only [toV_apply, toM_apply]
      simpa [Mat.get, transpose] using this

theorem returnCol_err_iff (A : Mat) (c : ℕ) : returnCol A c = .error .diag ↔ A.cols ≤ c := by
  unfold returnCol; split
  · simp_all
  · unfold returnRow
    have : ¬ c ≥ (transpose A).rows := by simp [transpose]; omega
    simp [this]; omega

/-! ## Predicates -/

theorem square_iff (A : Mat) : square A = true ↔ A.rows = A.cols := by simp [square]

theorem symmetric_iff (A : Mat) :
    symmetric A = true ↔ A.rows = A.cols ∧ (toM A A.rows A.rows)ᵀ = toM A A.rows A.rows := by
  simp only [symmetric, Bool.and_eq_true, square_iff, upperAll_iff, decide_eq_true_eq]
  constructor
  · rintro ⟨hs, h⟩
    refine ⟨hs, ?_⟩
    ext i j
    simp only [Matrix.transpose_apply, toM_apply]
    rcases le_total (i : ℕ) j with hij | hij
    · exact (h i j i.isLt hij (by have := j.isLt; omega)).symm
    · exact h j i j.isLt hij (by have := i.isLt; omega)
  · rintro ⟨hs, h⟩
    refine ⟨hs, fun i j hi _ hj => ?_⟩
    have := congrFun (congrFun h ⟨j, by omega⟩) ⟨i, hi⟩
    simpa using this

theorem antisymmetric_iff (A : Mat) :
    antisymmetric A = true ↔ A.rows = A.cols ∧ (toM A A.rows A.rows)ᵀ = - toM A A.rows A.rows := by
  simp only [antisymmetric, Bool.and_eq_true, square_iff, upperAll_iff, decide_eq_true_eq]
  constructor
  · rintro ⟨hs, h⟩
    refine ⟨hs, ?_⟩
    ext i j
    simp only [Matrix.transpose_apply, toM_apply, Matrix.neg_apply]
    rcases le_total (i : ℕ) j with hij | hij
    · have := h i j i.isLt hij (by have := j.isLt; omega)
      linarith
    · have := h j i j.isLt hij (by have := i.isLt; omega)
      linarith
  · rintro ⟨hs, h⟩
    refine ⟨hs, fun i j hi _ hj => ?_⟩
    have := congrFun (congrFun h ⟨j, by omega⟩) ⟨i, hi⟩
    simp only [Matrix.transpose_apply, toM_apply, Matrix.neg_apply] at this
    linarith

theorem diagonal_iff (A : Mat) :
    diagonal A = true ↔ A.rows = A.cols ∧ ∀ i j : Fin A.rows, i ≠ j → toM A A.rows A.rows i j = 0 := by
  simp only [diagonal, Bool.and_eq_true, square_iff, List.all_eq_true, List.mem_range, Bool.not_eq_true',
    Bool.and_eq_false_imp, decide_eq_true_eq, decide_eq_false_iff_not, not_not, toM_apply]
  constructor
  · rintro ⟨hs, h⟩
    exact ⟨hs, fun i j hij => h i i.isLt j (by have := j.isLt; omega) (fun e => hij (Fin.ext e))⟩
  · rintro ⟨hs, h⟩
    exact ⟨hs, fun i hi j hj hij => h ⟨i, hi⟩ ⟨j, by omega⟩ (fun e => hij (by simpa using congrArg Fin.val e))⟩



/-! ## WellShaped is closed under the remaining operations -/

theorem wellShaped_deleteRow {A B : Mat} (hA : A.WellShaped) {r : ℕ} (h : deleteRow A r = .ok B) :
    B.WellShaped := by
  unfold deleteRow at h; split at h
  · cases h
  · cases h
    obtain ⟨h1, h2⟩ := hA
    refine ⟨?_, fun row hrow => h2 row (List.mem_of_mem_eraseIdx hrow)⟩
    have : r < A.data.length := by omega
    simp [List.length_eraseIdx, h1]; omega

theorem wellShaped_deleteCol {A B : Mat} (hA : A.WellShaped) {c : ℕ} (h : deleteCol A c = .ok B) :
    B.WellShaped := by
  unfold deleteCol at h; split at h
  · cases h
  · cases h
    obtain ⟨h1, h2⟩ := hA
    refine ⟨by simp [h1], fun row hrow => ?_⟩
    simp only [List.mem_map] at hrow
    obtain ⟨x, hx, rfl⟩ := hrow
    have hc : c < x.length := by rw [h2 x hx]; omega
    simp [List.length_eraseIdx, h2 x hx]; omega

theorem wellShaped_ofRows {e : List (List ℚ)} {A : Mat} (h : ofRows e = .ok A) : A.WellShaped := by
  unfold ofRows at h
  simp only at h
  split at h
  · cases h
    rename_i hall
    refine ⟨rfl, fun r hr => ?_⟩
    simp only [List.all_eq_true, decide_eq_true_eq] at hall
    exact hall r hr
  · cases h

/-- ragged input is exactly what the constructor rejects -/
theorem ofRows_err_iff (e : List (List ℚ)) :
    ofRows e = .error .diag ↔ ∃ r ∈ e, r.length ≠ (e.headD []).length := by
  unfold ofRows
  simp only
  split
  · rename_i hall
    simp only [List.all_eq_true, decide_eq_true_eq] at hall
    simp only [reduceCtorEq, false_iff, not_exists, not_and, not_not]
    exact fun r hr => hall r hr
  · rename_i hall
    simp only [List.all_eq_true, decide_eq_true_eq, not_forall] at hall
    simp only [true_iff]
    obtain ⟨r, hr, hne⟩ := hall
    exact ⟨r, hr, hne⟩

theorem wellShaped_const (m n : ℕ) (e : ℚ) : (Mat.const m n e).WellShaped := wellShaped_ofFn _ _ _

theorem wellShaped_blockCtor {g : List (List Mat)} {C : Mat} (h : blockCtor g = .ok C) : C.WellShaped := by
  unfold blockCtor at h
  simp only at h
  split at h
  · cases h
  · split at h
    · cases h
    · cases h; exact wellShaped_ofFn _ _ _

/-! ## The 2×2 block grid is `Matrix.fromBlocks` -/

theorem blockCtor_two_by_two (A11 A12 A21 A22 : Mat)
    (h1 : A12.rows = A11.rows) (h2 : A22.rows = A21.rows) (h3 : A21.cols = A11.cols) (h4 : A22.cols = A12.cols) :
    ∃ C, blockCtor [[A11, A12], [A21, A22]] = .ok C ∧ C.rows = A11.rows + A21.rows ∧
      C.cols = A11.cols + A12.cols ∧
      toM C (A11.rows + A21.rows) (A11.cols + A12.cols) =
        Matrix.reindex finSumFinEquiv finSumFinEquiv
          (Matrix.fromBlocks (toM A11 A11.rows A11.cols) (toM A12 A11.rows A12.cols)
            (toM A21 A21.rows A11.cols) (toM A22 A21.rows A12.cols)) := by
  have hv : blockValid [[A11, A12], [A21, A22]] = true := by
    simp [blockValid, List.range_succ, h1, h2, h3, h4]
  have hl : blockLayoutOk [[A11, A12], [A21, A22]] = true := by simp [blockLayoutOk]
  cases hb : blockCtor [[A11, A12], [A21, A22]] with
  | error e => simp [blockCtor, hv, hl] at hb
  | ok C =>
  simp [blockCtor, hv, hl] at hb
  subst hb
  refine ⟨_, rfl, by simp [listSum], by simp [listSum], ?_⟩
  ext i j
  obtain ⟨i, rfl⟩ := finSumFinEquiv.surjective i
  obtain ⟨j, rfl⟩ := finSumFinEquiv.surjective j
  simp only [Matrix.reindex_apply, Matrix.submatrix_apply, Equiv.symm_apply_apply, toM_apply]
  have hR : listSum [A11.rows, A21.rows] = A11.rows + A21.rows := by simp [listSum]
  have hC : listSum [A11.cols, A12.cols] = A11.cols + A12.cols := by simp [listSum]
  rcases i with a | b <;> rcases j with c | d
  · have ha := a.isLt; have hc := c.isLt
    rw [get_ofFn _ (by simp [hR]; omega) (by simp [hC]; omega)]
    simp [locate, ha, hc]
  · have ha := a.isLt; have hd := d.isLt
    rw [get_ofFn _ (by simp [hR]; omega) (by simp [hC])]
    simp [locate, ha, hd]
  · have hb := b.isLt; have hc := c.isLt
    rw [get_ofFn _ (by simp [hR]) (by simp [hC]; omega)]
    simp [locate, hb, hc]
  · have hb := b.isLt; have hd := d.isLt
    rw [get_ofFn _ (by simp [hR]) (by simp [hC])]
    simp [locate, hb, hd]

/-- **block constructor, general grid**: for a rectangular grid that passes the validity test,
    the entry at (row offset of block row `bi` + `ii`, column offset of block column `bj` + `jj`)
    is entry `(ii, jj)` of block `(bi, bj)` -/
theorem blockCtor_entry {g : List (List Mat)} {C : Mat} (h : blockCtor g = .ok C)
    {bi bj ii jj : ℕ} (hbi : bi < g.length) (hbj : bj < (g.headD []).length)
    (hii : ii < ((g.getD bi []).headD ⟨0, 0, []⟩).rows) (hjj : jj < ((g.headD []).getD bj ⟨0, 0, []⟩).cols) :
    C.get (offset (g.map fun r => (r.headD ⟨0, 0, []⟩).rows) bi + ii)
          (offset ((g.headD []).map fun B => B.cols) bj + jj)
      = ((g.getD bi []).getD bj ⟨0, 0, []⟩).get ii jj := by
  unfold blockCtor at h
  simp only at h
  split at h
  · cases h
  · split at h
    · cases h
    · cases h
      have hr := locate_offset (g.map fun r => (r.headD ⟨0, 0, []⟩).rows) bi ii (by simpa using hbi)
        (by simpa [List.getD_eq_getElem?_getD, List.getElem?_map, hbi] using hii)
      have hc := locate_offset ((g.headD []).map fun B => B.cols) bj jj (by simpa using hbj)
        (by
          have e : (List.map (fun B : Mat => B.cols) (g.headD [])).getD bj 0
              = ((g.headD []).getD bj ⟨0, 0, []⟩).cols := by
            simp only [List.getD_eq_getElem?_getD, List.getElem?_map]
            cases hq : (g.headD [])[bj]? with
            | none => rw [List.getElem?_eq_none_iff] at hq; omega
            | some x => rfl
          rw [e]; exact hjj)
      rw [get_ofFn _ hr.2 hc.2]
      simp only [hr.1, hc.1]


/-- an empty or ragged list of blocks is rejected with the diagnostic (fix f27d82c) -/
theorem blockCtor_layout_err {g : List (List Mat)} (h : blockLayoutOk g = false) : blockCtor g = .error .diag := by
  simp [blockCtor, h]

/-- the block constructor is defined exactly for a rectangular non-empty layout of blocks whose
    heights and widths are consistent; every other request gives the diagnostic -/
theorem blockCtor_defined_iff (g : List (List Mat)) :
    (∃ C, blockCtor g = .ok C) ↔ (blockLayoutOk g = true ∧ blockValid g = true) := by
  unfold blockCtor
  cases hl : blockLayoutOk g <;> cases hv : blockValid g <;> simp

theorem blockCtor_err_iff (g : List (List Mat)) :
    blockCtor g = .error .diag ↔ ¬ (blockLayoutOk g = true ∧ blockValid g = true) := by
  unfold blockCtor
  cases hl : blockLayoutOk g <;> cases hv : blockValid g <;> simp

/-- the layout test spelled out: at least one row, a non-empty first row, all rows of its length -/
theorem blockLayoutOk_iff (g : List (List Mat)) :
    blockLayoutOk g = true ↔ (g ≠ [] ∧ (g.headD []) ≠ [] ∧ ∀ r ∈ g, r.length = (g.headD []).length) := by
  simp [blockLayoutOk, List.all_eq_true, and_assoc]

example : blockCtor [] = .error .diag ∧ blockCtor [[]] = .error .diag ∧
    blockCtor [[⟨1, 1, [[1]]⟩, ⟨1, 1, [[2]]⟩], [⟨1, 1, [[3]]⟩]] = .error .diag := by decide +kernel

/-- a grid whose block shapes do not tile is rejected -/
theorem blockCtor_invalid_two_by_two (A11 A12 A21 A22 : Mat)
    (h : ¬ (A12.rows = A11.rows ∧ A22.rows = A21.rows ∧ A21.cols = A11.cols ∧ A22.cols = A12.cols)) :
    blockCtor [[A11, A12], [A21, A22]] = .error .diag := by
  have hv : blockValid [[A11, A12], [A21, A22]] = false := by
    by_contra hne
    have ht : blockValid [[A11, A12], [A21, A22]] = true := by simpa using hne
    apply h
    simp [blockValid, List.range_succ] at ht
    tauto
  simp [blockCtor, hv]


theorem toM_transpose (A : Mat) : toM (transpose A) A.cols A.rows = (toM A A.rows A.cols)ᵀ :=
  (transpose_refines A).2.2.2

theorem toM_identity (n : ℕ) : toM (identity n) n n = (1 : Matrix (Fin n) (Fin n) ℚ) :=
  (identity_refines n).2.2.2


/-! ## Corollaries for all shapes -/

/-- `(A·B)ᵀ = Bᵀ·Aᵀ` for every conformable shape triple `m,n,k ≥ 1` -/
theorem mul_transpose {A B C : Mat} (h : mul A B = .ok C) (hn : A.cols ≠ 0) (hk : B.cols ≠ 0) :
    ∃ D, mul (transpose B) (transpose A) = .ok D ∧
      toM (transpose C) B.cols A.rows = toM D B.cols A.rows := by
  have hAB : A.cols = B.rows := (by unfold mul at h; split at h <;> simp_all)
  have hcols : (transpose B).cols = (transpose A).rows := by
    simp [transpose, ofFnE, hk, hAB]
  obtain ⟨D, hD⟩ : ∃ D, mul (transpose B) (transpose A) = .ok D := by
    unfold mul; simp [hcols]
  refine ⟨D, hD, ?_⟩
  obtain ⟨-, hr, hc, hC⟩ := mul_refines h
  obtain ⟨-, -, -, hDm⟩ := mul_refines hD
  have e1 : (transpose B).rows = B.cols := rfl
  have e2 : (transpose A).cols = A.rows := by simp [transpose, ofFnE, hn]
  have e3 : (transpose B).cols = A.cols := by simp [transpose, ofFnE, hk, hAB]
  rw [e1, e2, e3] at hDm
  have hT := toM_transpose C
  rw [hr, hc] at hT
  rw [hT, hC, hDm, Matrix.transpose_mul, toM_transpose A]
  have : toM (transpose B) B.cols A.cols = (toM B A.cols B.cols)ᵀ := by
    have := toM_transpose B
    rw [← hAB] at this
    exact this
  rw [this]

/-- `A·1 = A` -/
theorem mul_identity (A : Mat) :
    ∃ C, mul A (identity A.cols) = .ok C ∧ toM C A.rows A.cols = toM A A.rows A.cols := by
  have hr : (identity A.cols).rows = A.cols := by simp [identity, diagM]
  have hc : (identity A.cols).cols = A.cols := by simp [identity, diagM]
  obtain ⟨C, hC⟩ : ∃ C, mul A (identity A.cols) = .ok C := by unfold mul; simp [hr]
  refine ⟨C, hC, ?_⟩
  obtain ⟨-, -, -, h⟩ := mul_refines hC
  rw [hc] at h
  rw [h, toM_identity, Matrix.mul_one]

/-- `1·A = A` -/
theorem identity_mul (A : Mat) :
    ∃ C, mul (identity A.rows) A = .ok C ∧ toM C A.rows A.cols = toM A A.rows A.cols := by
  have hr : (identity A.rows).rows = A.rows := by simp [identity, diagM]
  have hc : (identity A.rows).cols = A.rows := by simp [identity, diagM]
  obtain ⟨C, hC⟩ : ∃ C, mul (identity A.rows) A = .ok C := by unfold mul; simp [hc]
  refine ⟨C, hC, ?_⟩
  obtain ⟨-, -, -, h⟩ := mul_refines hC
  rw [hr, hc] at h
  rw [h, toM_identity, Matrix.one_mul]

/-- transposition is an involution (on the denoted matrix) -/
theorem transpose_transpose_toM (A : Mat) :
    toM (transpose (transpose A)) A.rows A.cols = toM A A.rows A.cols := by
  ext i j
  have hc : A.cols ≠ 0 := by have := j.isLt; omega
  have e : (transpose A).cols = A.rows := by simp [transpose, ofFnE, hc]
  have e' : (transpose A).rows = A.cols := rfl
  simp only [toM_apply]
  have h1 : (transpose (transpose A)).get i j = (transpose A).get j i := by
    have := get_ofFnE (fun i j => (transpose A).get j i) (m := (transpose A).cols) (n := (transpose A).rows)
      (i := i) (j := j) (by rw [e]; exact i.isLt) (by rw [e']; exact j.isLt)
    simpa [transpose] using this
  rw [h1]
  simp [transpose, get_ofFnE _ j.isLt i.isLt]

/-- transposition is an involution (on the representation, shapes `m,n ≥ 1`) -/
theorem transpose_transpose {A : Mat} (hA : A.WellShaped) (hm : A.rows ≠ 0) (hn : A.cols ≠ 0) :
    transpose (transpose A) = A := by
  have e : (transpose A).cols = A.rows := by simp [transpose, ofFnE, hn]
  have e' : (transpose A).rows = A.cols := rfl
  have r1 : (transpose (transpose A)).rows = A.rows := by
    show (transpose A).cols = A.rows; exact e
  have r2 : (transpose (transpose A)).cols = A.cols := by
    have : (transpose A).cols ≠ 0 := by rw [e]; exact hm
    simp [transpose, ofFnE, hn]
    intro h0; exact absurd h0 hm
  refine ext_of_get (wellShaped_ofFnE _ _ _) hA r1 r2 (fun i j hi hj => ?_)
  rw [r1] at hi; rw [r2] at hj
  have := congrFun (congrFun (transpose_transpose_toM A) ⟨i, hi⟩) ⟨j, hj⟩
  simpa using this

/-- scalar multiplication distributes over sums, for every shape -/
theorem smul_plus {A B P : Mat} (s : ℚ) (h : plus A B = .ok P) (hm : A.rows ≠ 0) :
    ∃ Q, plus (smul s A) (smul s B) = .ok Q ∧ toM (smul s P) A.rows A.cols = toM Q A.rows A.cols := by
  have hs : A.rows = B.rows ∧ A.cols = B.cols := by
    unfold plus at h; split at h <;> simp_all
  have hm' : B.rows ≠ 0 := by omega
  obtain ⟨Q, hQ⟩ : ∃ Q, plus (smul s A) (smul s B) = .ok Q := by
    unfold plus; simp [smul, ofFnE, hm, hm', hs.1, hs.2]
  refine ⟨Q, hQ, ?_⟩
  ext i j
  have hi := i.isLt; have hj := j.isLt
  unfold plus at h hQ
  split at h
  · cases h
  · cases h
    split at hQ
    · cases hQ
    · cases hQ
      have c1 : (smul s A).cols = A.cols := by simp [smul, ofFnE, hm]
      simp only [toM_apply]
      rw [show (smul s (ofFnE A.rows A.cols fun i j => A.get i j + B.get i j)).get i j
            = s * (A.get i j + B.get i j) from by
          simp only [smul, rows_ofFnE]
          have cc : (ofFnE A.rows A.cols fun i j => A.get i j + B.get i j).cols = A.cols := by simp [ofFnE, hm]
          rw [cc, get_ofFnE _ hi hj, get_ofFnE _ hi hj]]
      rw [get_ofFnE _ (by simpa [smul] using hi) (by rw [c1]; exact hj)]
      simp only [smul]
      rw [get_ofFnE _ hi hj, get_ofFnE _ (by omega) (by omega)]
      ring

/-- division by `s` is multiplication by `1/s`, entry-wise, for every shape -/
theorem sdiv_eq_smul (A : Mat) (s : ℚ) : sdiv A s = smul (1 / s) A := by
  simp only [sdiv, smul, ofFnE, ofFn]
  congr 1
  apply List.map_congr_left; intro i _
  apply List.map_congr_left; intro j _
  ring



/-! ## Compound assignment = binary operator; vectors -/

theorem vaddAssign_eq_vadd (u v : Vec) : vaddAssign u v = vadd u v := by
  simp [vaddAssign, vadd, vUpdLoop_eq]

theorem vsubAssign_eq_vsub (u v : Vec) : vsubAssign u v = vsub u v := by
  simp [vsubAssign, vsub, vUpdLoop_eq]

theorem vadd_defined_iff (u v : Vec) : (∃ w, vadd u v = .ok w) ↔ u.length = v.length := by
  unfold vadd; split <;> simp_all

theorem vadd_refines {u v w : Vec} (h : vadd u v = .ok w) :
    w.length = u.length ∧ toV w u.length = toV u u.length + toV v u.length := by
  unfold vadd at h; split at h
  · cases h
  · cases h
    refine ⟨vtab_length _ _, ?_⟩
    ext i
    rw [toV_apply, vtab_getD _ i.isLt]; simp

theorem vsub_refines {u v w : Vec} (h : vsub u v = .ok w) :
    w.length = u.length ∧ toV w u.length = toV u u.length - toV v u.length := by
  unfold vsub at h; split at h
  · cases h
  · cases h
    refine ⟨vtab_length _ _, ?_⟩
    ext i
    rw [toV_apply, vtab_getD _ i.isLt]; simp

theorem vsmul_refines (u : Vec) (s : ℚ) :
    (vsmul u s).length = u.length ∧ toV (vsmul u s) u.length = s • toV u u.length := by
  refine ⟨vtab_length _ _, ?_⟩
  ext i
  rw [toV_apply, vsmul, vtab_getD _ i.isLt]; simp [mul_comm]

theorem vsdiv_refines (u : Vec) (s : ℚ) :
    (vsdiv u s).length = u.length ∧ toV (vsdiv u s) u.length = s⁻¹ • toV u u.length := by
  refine ⟨vtab_length _ _, ?_⟩
  ext i
  rw [toV_apply, vsdiv, vtab_getD _ i.isLt]; simp [div_eq_inv_mul]

/-- `A += B` leaves exactly what `A + B` returns (every shape `m,n ≥ 1`) -/
theorem plusAssign_eq_plus {A : Mat} (B : Mat) (hA : A.WellShaped) (h0 : A.rows ≠ 0) :
    plusAssign A B = plus A B := by
  unfold plusAssign plus
  split
  · rfl
  · congr 1
    obtain ⟨hw, hg⟩ := mUpdLoop_spec (· + ·) A B hA
    refine ext_of_get hw (wellShaped_ofFnE _ _ _) rfl (by simp [mUpdLoop, ofFnE, h0]) (fun i j hi hj => ?_)
    have hi' : i < A.rows := hi
    have hj' : j < A.cols := hj
    rw [hg i j hi' hj', get_ofFnE _ hi' hj']

theorem minusAssign_eq_minus {A : Mat} (B : Mat) (hA : A.WellShaped) (h0 : A.rows ≠ 0) :
    minusAssign A B = minus A B := by
  unfold minusAssign minus
  split
  · rfl
  · congr 1
    obtain ⟨hw, hg⟩ := mUpdLoop_spec (· - ·) A B hA
    refine ext_of_get hw (wellShaped_ofFnE _ _ _) rfl (by simp [mUpdLoop, ofFnE, h0]) (fun i j hi hj => ?_)
    have hi' : i < A.rows := hi
    have hj' : j < A.cols := hj
    rw [hg i j hi' hj', get_ofFnE _ hi' hj']

theorem wellShaped_plusAssign {A B C : Mat} (hA : A.WellShaped) (h : plusAssign A B = .ok C) : C.WellShaped := by
  unfold plusAssign at h; split at h
  · cases h
  · cases h; exact (mUpdLoop_spec _ A B hA).1

theorem wellShaped_minusAssign {A B C : Mat} (hA : A.WellShaped) (h : minusAssign A B = .ok C) : C.WellShaped := by
  unfold minusAssign at h; split at h
  · cases h
  · cases h; exact (mUpdLoop_spec _ A B hA).1


/-! ## Object histories: every observer is a function of the current value only

In the model a `Vector` / `Matrix` object *is* its current value (`Vec` / `Mat`); `Hist.runS`
threads that value through a sequence of member calls.  So what the observers report after any
prefix depends on the prefix only through the value it leaves — by construction; the theorems
below say it explicitly.  (The correspondence run `c04.vhist` / `c04.mhist` checks that the C++
objects have no further state either, e.g. no stale cached norm.) -/

theorem runS_append {σ ο : Type} (step : σ → ο → Except Err (σ × List ℚ)) (s : σ) (a b : List ο) :
    Hist.runS step s (a ++ b) =
      match Hist.runS step s a with
      | .error e => .error e
      | .ok (s1, o1) =>
        match Hist.runS step s1 b with
        | .error e => .error e
        | .ok (s2, o2) => .ok (s2, o1 ++ o2) := by
  induction a generalizing s with
  | nil =>
    simp only [List.nil_append, Hist.runS]
    cases Hist.runS step s b with
    | error e => rfl
    | ok r => rfl
  | cons x a ih =>
    simp only [List.cons_append, Hist.runS]
    cases hx : step s x with
    | error e => rfl
    | ok r =>
      obtain ⟨s1, out1⟩ := r
      simp only [ih s1]
      cases Hist.runS step s1 a with
      | error e => rfl
      | ok r2 =>
        obtain ⟨s2, out2⟩ := r2
        simp only
        cases Hist.runS step s2 b with
        | error e => rfl
        | ok r3 => simp [List.append_assoc]

/-- two histories that leave the same value are indistinguishable by anything that follows:
    the same outcome, the same final value and the same reported observer values -/
theorem history_independent {σ ο : Type} (step : σ → ο → Except Err (σ × List ℚ)) {s1 s2 s : σ}
    {a1 a2 : List ο} {o1 o2 : List ℚ} (h1 : Hist.runS step s1 a1 = .ok (s, o1))
    (h2 : Hist.runS step s2 a2 = .ok (s, o2)) (b : List ο) :
    (∀ s' ob, Hist.runS step s b = .ok (s', ob) →
      Hist.runS step s1 (a1 ++ b) = .ok (s', o1 ++ ob) ∧ Hist.runS step s2 (a2 ++ b) = .ok (s', o2 ++ ob)) ∧
    (∀ e, Hist.runS step s b = .error e →
      Hist.runS step s1 (a1 ++ b) = .error e ∧ Hist.runS step s2 (a2 ++ b) = .error e) := by
  constructor
  · intro s' ob hb
    rw [runS_append, runS_append, h1, h2]; simp [hb]
  · intro e hb
    rw [runS_append, runS_append, h1, h2]; simp [hb]

/-- instances: `Vector` and `Matrix` histories -/
theorem vector_history_independent {v1 v2 v : Vec} {a1 a2 : List Hist.VOp} {o1 o2 : List ℚ}
    (h1 : Hist.runS Hist.vStep v1 a1 = .ok (v, o1)) (h2 : Hist.runS Hist.vStep v2 a2 = .ok (v, o2))
    (b : List Hist.VOp) (v' : Vec) (ob : List ℚ) (hb : Hist.runS Hist.vStep v b = .ok (v', ob)) :
    Hist.runS Hist.vStep v1 (a1 ++ b) = .ok (v', o1 ++ ob) ∧ Hist.runS Hist.vStep v2 (a2 ++ b) = .ok (v', o2 ++ ob) :=
  (history_independent Hist.vStep h1 h2 b).1 v' ob hb

theorem matrix_history_independent {A1 A2 A : Mat} {a1 a2 : List Hist.MOp} {o1 o2 : List ℚ}
    (h1 : Hist.runS Hist.mStep A1 a1 = .ok (A, o1)) (h2 : Hist.runS Hist.mStep A2 a2 = .ok (A, o2))
    (b : List Hist.MOp) (A' : Mat) (ob : List ℚ) (hb : Hist.runS Hist.mStep A b = .ok (A', ob)) :
    Hist.runS Hist.mStep A1 (a1 ++ b) = .ok (A', o1 ++ ob) ∧ Hist.runS Hist.mStep A2 (a2 ++ b) = .ok (A', o2 ++ ob) :=
  (history_independent Hist.mStep h1 h2 b).1 A' ob hb

-- v = (3,4): Norm, v -= (3,0), Norm reports 25 then 16 (squares): the second value is that of the current entries
example : Hist.vRun [3, 4] [.norm, .subA [3, 0], .norm] = .ok [25, 16] := by decide +kernel



/-! ## Norm as coded since 8a680df: scaling by a power of two is value-neutral -/

theorem sumRange_mul_left (n : ℕ) (c : ℚ) (t : ℕ → ℚ) : sumRange n (fun i => c * t i) = c * sumRange n t := by
  induction n with
  | zero => simp [sumRange]
  | succ n ih => rw [sumRange_succ, sumRange_succ, ih]; ring

/-- the scaled sum of squares, scaled back, is the plain sum of squares — for every exponent -/
theorem vnormScaledSq_eq (e : ℤ) (u : Vec) : vnormScaledSq e u = vnormSq u := by
  unfold vnormScaledSq vnormSq
  have h2 : (2 : ℚ) ^ e * (2 : ℚ) ^ (-e) = 1 := by
    rw [← zpow_add₀ (by norm_num : (2 : ℚ) ≠ 0)]; simp
  have : ∀ i, (u.getD i 0 * (2 : ℚ) ^ (-e)) * (u.getD i 0 * (2 : ℚ) ^ (-e))
      = ((2 : ℚ) ^ (-e) * (2 : ℚ) ^ (-e)) * (u.getD i 0 * u.getD i 0) := fun i => by ring
  simp only [this]
  rw [sumRange_mul_left]
  calc (2 : ℚ) ^ e * (2 : ℚ) ^ e * ((2 : ℚ) ^ (-e) * (2 : ℚ) ^ (-e) * sumRange u.length fun i => u.getD i 0 * u.getD i 0)
      = ((2 : ℚ) ^ e * (2 : ℚ) ^ (-e)) * ((2 : ℚ) ^ e * (2 : ℚ) ^ (-e)) * sumRange u.length (fun i => u.getD i 0 * u.getD i 0) := by ring
    _ = _ := by rw [h2]; ring

/-- the Frobenius norm computed in the scaled domain is the plain one, for every exponent -/
theorem normScaledSq_eq (e : ℤ) (A : Mat) : normScaledSq e A = normSq A := by
  unfold normScaledSq normSq
  have h2 : (2 : ℚ) ^ e * (2 : ℚ) ^ (-e) = 1 := by
    rw [← zpow_add₀ (by norm_num : (2 : ℚ) ≠ 0)]; simp
  have h : ∀ i j, (A.get i j * (2 : ℚ) ^ (-e)) * (A.get i j * (2 : ℚ) ^ (-e))
      = ((2 : ℚ) ^ (-e) * (2 : ℚ) ^ (-e)) * (A.get i j * A.get i j) := fun i j => by ring
  simp only [h, sumRange_mul_left]
  calc (2 : ℚ) ^ e * (2 : ℚ) ^ e * ((2 : ℚ) ^ (-e) * (2 : ℚ) ^ (-e) *
          sumRange A.rows fun i => sumRange A.cols fun j => A.get i j * A.get i j)
      = ((2 : ℚ) ^ e * (2 : ℚ) ^ (-e)) * ((2 : ℚ) ^ e * (2 : ℚ) ^ (-e)) *
          sumRange A.rows (fun i => sumRange A.cols fun j => A.get i j * A.get i j) := by ring
    _ = _ := by rw [h2]; ring

/-- the squared norm is the dot product of the vector with itself (`Norm() = sqrt(Dot(*this))` before the fix) -/
theorem vnormSq_eq_dot (u : Vec) : dot u u = .ok (vnormSq u) := by simp [dot, vnormSq]


/-- dividing in the scaled domain (fix a1cdfe7) is dividing by the norm, for every exponent -/
theorem vdivScaled_eq (e : ℤ) (v : Vec) (nrm : ℚ) : Hist.vdivScaled e v nrm = vsdiv v nrm := by
  unfold Hist.vdivScaled vsdiv
  have h2 : (2 : ℚ) ^ (-e) ≠ 0 := zpow_ne_zero _ (by norm_num)
  congr 1
  funext i
  rw [mul_div_mul_right _ _ h2]

/-! ## Chained compound assignment -/

/-- a chain `(x ⊕ b) ⊕' c …` is the sequential application of the binary operators: its first
    step is `x + b` / `x - b` and the rest of the chain continues from that value (every shape `m,n ≥ 1`) -/
theorem mChain_cons {x : Mat} (hx : x.WellShaped) (h0 : x.rows ≠ 0) (pl : Bool) (b : Mat) (r : List (Bool × Mat)) :
    Hist.mChain x ((pl, b) :: r) =
      match (if pl then plus x b else minus x b) with
      | .ok y => Hist.mChain y r
      | .error e => .error e := by
  cases pl
  · simp only [Hist.mChain, Bool.false_eq_true, if_false, minusAssign_eq_minus b hx h0]
    generalize minus x b = q; cases q <;> rfl
  · simp only [Hist.mChain, if_true, plusAssign_eq_plus b hx h0]
    generalize plus x b = q; cases q <;> rfl

/-- `(x += b) += c` leaves `(x + b) + c` in `x` (and likewise for the other three sign patterns) -/
theorem mChain_two {x b c y z : Mat} (hx : x.WellShaped) (h0 : x.rows ≠ 0) (h1 : plus x b = .ok y) (h2 : plus y c = .ok z) :
    Hist.mChain x [(true, b), (true, c)] = .ok z := by
  have hy := plus_refines h1
  rw [mChain_cons hx h0, if_pos rfl, h1]
  simp only
  rw [mChain_cons hy.1 (by rw [hy.2.1]; exact h0), if_pos rfl, h2]
  simp [Hist.mChain]

theorem vChain_cons (x : Vec) (pl : Bool) (b : Vec) (r : List (Bool × Vec)) :
    Hist.vChain x ((pl, b) :: r) =
      match (if pl then vadd x b else vsub x b) with
      | .ok y => Hist.vChain y r
      | .error e => .error e := by
  cases pl
  · simp only [Hist.vChain, Bool.false_eq_true, if_false, vsubAssign_eq_vsub]
    generalize vsub x b = q; cases q <;> rfl
  · simp only [Hist.vChain, if_true, vaddAssign_eq_vadd]
    generalize vadd x b = q; cases q <;> rfl

/-- a non-conformable step anywhere in the chain stops it with the diagnostic -/
theorem mChain_err {x b : Mat} (r : List (Bool × Mat)) (pl : Bool) (h : x.rows ≠ b.rows ∨ x.cols ≠ b.cols) :
    Hist.mChain x ((pl, b) :: r) = .error .diag := by
  cases pl <;> simp [Hist.mChain, plusAssign, minusAssign, h]

example : Hist.mChain ⟨1, 2, [[1, 2]]⟩ [(true, ⟨1, 2, [[10, 20]]⟩), (false, ⟨1, 2, [[1, 1]]⟩)] = .ok ⟨1, 2, [[10, 21]]⟩ := by
  decide +kernel
example : Hist.vChain [1, 2] [(true, [10, 20]), (true, [100, 200])] = .ok [111, 222] := by decide +kernel


/-! ## Moves -/

/-- swapping twice restores both objects; a swap exchanges the values (shape and entries) -/
theorem mMoves_swap (A B : Mat) : Hist.mMoves "swap" A B = .ok [B, A] := by simp [Hist.mMoves]

theorem mMoves_swap_swap (A B : Mat) :
    (Hist.mMoves "swap" A B).bind (fun l => Hist.mMoves "swap" (l.getD 0 A) (l.getD 1 B)) = .ok [A, B] := by
  simp [Hist.mMoves, Except.bind]

/-- a moved-to, pushed or returned object is the source value: same shape, same entries, hence every observer
    and every law evaluates as on the source -/
theorem mMoves_value (A B : Mat) :
    Hist.mMoves "move" A B = .ok [A] ∧ Hist.mMoves "ret" A B = .ok [A] ∧ Hist.mMoves "assign" A B = .ok [A] ∧
    Hist.mMoves "push" A B = .ok [A, B] := by
  simp [Hist.mMoves]

theorem vMoves_value (u v : Vec) :
    Hist.vMoves "swap" u v = .ok [v, u] ∧ Hist.vMoves "move" u v = .ok [u] ∧ Hist.vMoves "ret" u v = .ok [u] ∧
    Hist.vMoves "push" u v = .ok [u, v] := by
  simp [Hist.vMoves]

/-- a list of blocks filled by moves gives the block matrix of the source values -/
theorem mMoves_blocks (A B : Mat) :
    Hist.mMoves "blocks" A B = (match blockCtor [[A, B]] with | .ok C => .ok [C] | .error e => .error e) := by
  simp only [Hist.mMoves, String.reduceEq, if_false, if_true]
  generalize blockCtor [[A, B]] = q; cases q <;> rfl

/-! ## Non-vacuity: concrete instances of the hypotheses -/

example : plus ⟨2, 3, [[1, 2, 3], [4, 5, 6]]⟩ ⟨2, 3, [[1, 1, 1], [1, 1, 1]]⟩
    = .ok ⟨2, 3, [[2, 3, 4], [5, 6, 7]]⟩ := by decide +kernel
example : plus ⟨2, 3, [[1, 2, 3], [4, 5, 6]]⟩ ⟨3, 2, [[1, 1], [1, 1], [1, 1]]⟩ = .error .diag := by decide +kernel
example : mul ⟨2, 3, [[1, 2, 3], [4, 5, 6]]⟩ ⟨3, 1, [[1], [0], [-1]]⟩ = .ok ⟨2, 1, [[-2], [-2]]⟩ := by decide +kernel
example : (⟨2, 3, [[1, 2, 3], [4, 5, 6]]⟩ : Mat).WellShaped := by
  refine ⟨rfl, ?_⟩; intro r hr; simp at hr; rcases hr with rfl | rfl <;> rfl
example : plusAssign ⟨2, 2, [[1, 2], [3, 4]]⟩ ⟨2, 2, [[1, 1], [1, 1]]⟩ = .ok ⟨2, 2, [[2, 3], [4, 5]]⟩ := by decide +kernel
example : subMatrix ⟨2, 2, [[1, 2], [3, 4]]⟩ 0 1 = .ok ⟨1, 1, [[3]]⟩ := by decide +kernel
example : subMatrix ⟨2, 2, [[1, 2], [3, 4]]⟩ (-1) 1 = .error .diag := by decide +kernel
example : blockCtor [[⟨1, 1, [[5]]⟩, ⟨1, 2, [[6, 7]]⟩], [⟨2, 1, [[8], [9]]⟩, ⟨2, 2, [[1, 2], [3, 4]]⟩]]
    = .ok ⟨3, 3, [[5, 6, 7], [8, 1, 2], [9, 3, 4]]⟩ := by decide +kernel
example : offset [1, 2] 1 + 1 = 2 ∧ locate [1, 2] 2 = (1, 1) := by decide
example : cross [1, 0, 0] [0, 1, 0] = .ok [0, 0, 1] := by decide +kernel
example : symmetric ⟨2, 2, [[1, 2], [2, 1]]⟩ = true ∧ antisymmetric ⟨2, 2, [[0, 2], [-2, 0]]⟩ = true := by decide +kernel

end Lp.C04
