/-
  C12 — property theorems for the Gauss–Legendre model (LpModel/C12.lean).
  Everything is over exact rationals; `z i`, `pp i` are ARBITRARY root/derivative values, i.e. the
  statements about the table hold for whatever the Newton loop produced.
-/
import LpProofs.C12.Lemmas
import Mathlib.Tactic.Linarith
import LpProofs.C12.Legendre
import LpProofs.C12.N2
import LpProofs.C12.Small
import LpProofs.C12.N3
import LpProofs.C12.RealGL
import LpProofs.C12.Interval
import LpProofs.C12.RealRoots
namespace Lp.C12

/-! ## [T1] gl_mirror -/

/-- Weights are symmetric for every `n` and ANY root values. -/
theorem gl_mirror_weights (n : Nat) (xmin xmax : Rat) (z pp : Nat → Rat) (k : Nat) (hk : k < n) :
    weight n xmin xmax z pp k = weight n xmin xmax z pp (n - 1 - k) := by
  unfold weight
  rw [glTable_closed n xmin xmax z pp k hk, glTable_closed n xmin xmax z pp (n - 1 - k) (by omega),
    rootIdx_mirror n k hk]

/-- Nodes are symmetric about the midpoint, for every `n` and ANY root values, at every index
    that is not the middle one of an odd rule. -/
theorem gl_mirror_nodes_offcentre (n : Nat) (xmin xmax : Rat) (z pp : Nat → Rat) (k : Nat) (hk : k < n)
    (hne : k ≠ n - 1 - k) :
    node n xmin xmax z pp k + node n xmin xmax z pp (n - 1 - k) = xmin + xmax := by
  unfold node
  rw [glTable_closed n xmin xmax z pp k hk, glTable_closed n xmin xmax z pp (n - 1 - k) (by omega)]
  have e : n - 1 - (n - 1 - k) = k := by omega
  simp only [e]
  unfold half xMiddle
  by_cases h1 : n - 1 - k < (n + 1) / 2
  · have h2 : ¬ (k < (n + 1) / 2) := by omega
    simp only [if_pos h1, if_neg h2]; ring
  · have h2 : k < (n + 1) / 2 := by omega
    simp only [if_neg h1, if_pos h2]; ring

/-- The middle entry of an odd rule is written twice (`[i]` then `[n-i-1]` with `i = n-i-1`);
    what remains is `mid + h·z`. -/
theorem gl_middle_node (n : Nat) (xmin xmax : Rat) (z pp : Nat → Rat) (hodd : n % 2 = 1) :
    node n xmin xmax z pp (n / 2) = xMiddle xmin xmax + xHalfWidth xmin xmax * z (n / 2) := by
  unfold node
  rw [glTable_closed n xmin xmax z pp (n / 2) (by omega)]
  have e : n - 1 - n / 2 = n / 2 := by omega
  have h : n / 2 < half n := by unfold half; omega
  simp only [e, if_pos h]

/-- **gl_mirror**: for every `n` (odd and even) and any root values whose middle root (odd `n`) is 0 —
    which is what the coded iteration produces, see `newton_middle_root` — nodes are symmetric about
    the midpoint and weights are symmetric. -/
theorem gl_mirror (n : Nat) (xmin xmax : Rat) (z pp : Nat → Rat) (hmid : n % 2 = 1 → z (n / 2) = 0)
    (k : Nat) (hk : k < n) :
    node n xmin xmax z pp k + node n xmin xmax z pp (n - 1 - k) = xmin + xmax ∧
    weight n xmin xmax z pp k = weight n xmin xmax z pp (n - 1 - k) := by
  refine ⟨?_, gl_mirror_weights n xmin xmax z pp k hk⟩
  by_cases hne : k = n - 1 - k
  · have hodd : n % 2 = 1 := by omega
    have ek : k = n / 2 := by omega
    rw [← hne, ek, gl_middle_node n xmin xmax z pp hodd, hmid hodd]
    unfold xMiddle; ring
  · exact gl_mirror_nodes_offcentre n xmin xmax z pp k hk hne

example : node 3 0 4 (fun i => if i = 0 then 3/4 else 0) (fun _ => 1) 0
    + node 3 0 4 (fun i => if i = 0 then 3/4 else 0) (fun _ => 1) 2 = 4 := by decide +kernel

/-! ## [T1] gl_reversed -/

/-- Exchanging the limits negates every weight (any root values). -/
theorem gl_reversed_weights (n : Nat) (a b : Rat) (z pp : Nat → Rat) (k : Nat) (hk : k < n) :
    weight n b a z pp k = - weight n a b z pp k := by
  unfold weight
  rw [glTable_closed n b a z pp k hk, glTable_closed n a b z pp k hk]
  unfold weightOf xHalfWidth
  simp only []
  ring

/-- Exchanging the limits mirrors the nodes (any root values, off the middle). -/
theorem gl_reversed_nodes_offcentre (n : Nat) (a b : Rat) (z pp : Nat → Rat) (k : Nat) (hk : k < n)
    (hne : k ≠ n - 1 - k) :
    node n b a z pp k = node n a b z pp (n - 1 - k) := by
  unfold node
  rw [glTable_closed n b a z pp k hk, glTable_closed n a b z pp (n - 1 - k) (by omega)]
  have e : n - 1 - (n - 1 - k) = k := by omega
  simp only [e]
  unfold half xMiddle xHalfWidth
  by_cases h1 : n - 1 - k < (n + 1) / 2
  · have h2 : ¬ (k < (n + 1) / 2) := by omega
    simp only [if_pos h1, if_neg h2]; ring
  · have h2 : k < (n + 1) / 2 := by omega
    simp only [if_neg h1, if_pos h2]; ring

/-- **gl_reversed**: the rule on `[b,a]` is the mirror image of the rule on `[a,b]` with every weight
    negated. -/
theorem gl_reversed (n : Nat) (a b : Rat) (z pp : Nat → Rat) (hmid : n % 2 = 1 → z (n / 2) = 0)
    (k : Nat) (hk : k < n) :
    node n b a z pp k = node n a b z pp (n - 1 - k) ∧
    weight n b a z pp k = - weight n a b z pp (n - 1 - k) := by
  constructor
  · by_cases hne : k = n - 1 - k
    · have hodd : n % 2 = 1 := by omega
      have ek : k = n / 2 := by omega
      rw [← hne, ek, gl_middle_node n b a z pp hodd, gl_middle_node n a b z pp hodd, hmid hodd]
      unfold xMiddle; ring
    · exact gl_reversed_nodes_offcentre n a b z pp k hk hne
  · rw [gl_reversed_weights n a b z pp k hk, gl_mirror_weights n a b z pp k hk]

/-! ## [T1] gl_affine -/

/-- Nodes and weights on `[a,b]` are the affine image of those on `[-1,1]`. -/
theorem gl_affine (n : Nat) (a b : Rat) (z pp : Nat → Rat) (k : Nat) (hk : k < n) :
    node n a b z pp k = xMiddle a b + xHalfWidth a b * node n (-1) 1 z pp k ∧
    weight n a b z pp k = xHalfWidth a b * weight n (-1) 1 z pp k := by
  unfold node weight
  rw [glTable_closed n a b z pp k hk, glTable_closed n (-1) 1 z pp k hk]
  constructor
  · by_cases h1 : n - 1 - k < half n
    · simp only [if_pos h1]; unfold xMiddle xHalfWidth; ring
    · simp only [if_neg h1]; unfold xMiddle xHalfWidth; ring
  · simp only []
    unfold weightOf xHalfWidth; ring

theorem glSum_eq_sum (f : Rat → Rat) (n : Nat) (a b : Rat) (z pp : Nat → Rat) :
    glSum f n a b z pp = ((List.range n).map (fun k => f (node n a b z pp k) * weight n a b z pp k)).sum := by
  unfold glSum
  rw [foldl_add_eq_sum (fun k => f (node n a b z pp k) * weight n a b z pp k)]
  simp

/-- **gl_affine_sum** (exactness transfers between intervals): the rule on `[a,b]` applied to `f` is
    `(b-a)/2` times the rule on `[-1,1]` applied to `t ↦ f(m + h t)`.  Hence if the `[-1,1]` rule
    integrates `p(m + h·)` exactly, the `[a,b]` rule integrates `p` exactly. -/
theorem gl_affine_sum (f : Rat → Rat) (n : Nat) (a b : Rat) (z pp : Nat → Rat) :
    glSum f n a b z pp
      = (b - a) / 2 * glSum (fun t => f ((a + b) / 2 + (b - a) / 2 * t)) n (-1) 1 z pp := by
  rw [glSum_eq_sum, glSum_eq_sum, ← sum_map_mul_left]
  apply sum_map_congr
  intro k hk
  have hk' : k < n := List.mem_range.mp hk
  obtain ⟨h1, h2⟩ := gl_affine n a b z pp k hk'
  rw [h1, h2]
  unfold xMiddle xHalfWidth
  have e : (1 / 2 : Rat) * b + 1 / 2 * a + (1 / 2 * b - 1 / 2 * a) * node n (-1) 1 z pp k
      = (a + b) / 2 + (b - a) / 2 * node n (-1) 1 z pp k := by ring
  rw [e]; ring

/-! ## [T1] gl_overloads_agree, gl_size_mismatch -/

/-- mismatched lengths are rejected with the diagnostic, equal lengths never are -/
theorem gl_size_mismatch (vals : List Rat) (rw : List (Rat × Rat)) :
    (vals.length ≠ rw.length → integrateGLvals vals rw = .error .diag) ∧
    (vals.length = rw.length → integrateGLvals vals rw = .ok (weightedSum vals rw)) := by
  unfold integrateGLvals
  constructor
  · intro h; simp [h]
  · intro h; simp [h]

example : integrateGLvals [1, 2] [(0, 1)] = .error .diag := by decide +kernel

/-- the function overload evaluates `f` at the nodes and never fails -/
theorem gl_rule_overload (f : Rat → Rat) (rw : List (Rat × Rat)) :
    integrateGLrule f rw = .ok (weightedSum (rw.map (fun p => f p.1)) rw) := by
  unfold integrateGLrule
  exact (gl_size_mismatch _ rw).2 (by simp)

theorem glAssemble_getD (n : Nat) (a b : Rat) (z pp : Nat → Rat) (k : Nat) (hk : k < n) :
    (glAssemble n a b z pp).getD k (0, 0) = glTable n a b z pp k := by
  unfold glAssemble
  simp [List.getD, hk]

/-- **gl_overloads_agree**: the three overloads give the same value for the same rule — the
    integrating overload is the function overload on the computed rule, which is the values overload on
    the tabulated function values, and all equal the quadrature sum `Σ f(x_k) w_k`. -/
theorem gl_overloads_agree (f : Rat → Rat) (a b : Rat) (n : Nat) (z pp : Nat → Rat) :
    integrateGL f a b n z pp = integrateGLrule f (glAssemble n a b z pp) ∧
    integrateGLrule f (glAssemble n a b z pp)
      = integrateGLvals ((glAssemble n a b z pp).map (fun p => f p.1)) (glAssemble n a b z pp) ∧
    integrateGL f a b n z pp = .ok (glSum f n a b z pp) := by
  refine ⟨rfl, rfl, ?_⟩
  unfold integrateGL
  rw [gl_rule_overload]
  congr 1
  unfold weightedSum
  rw [glSum_eq_sum, foldl_add_eq_sum (fun i => ((glAssemble n a b z pp).map (fun p => f p.1)).getD i 0
      * ((glAssemble n a b z pp).getD i (0, 0)).2)]
  have hl : ((glAssemble n a b z pp).map (fun p => f p.1)).length = n := by simp [glAssemble]
  rw [hl, zero_add]
  apply sum_map_congr
  intro k hk
  have hk' : k < n := List.mem_range.mp hk
  rw [glAssemble_getD n a b z pp k hk']
  have : ((glAssemble n a b z pp).map (fun p => f p.1)).getD k 0 = f (glTable n a b z pp k).1 := by
    unfold glAssemble
    simp [List.getD, hk']
  rw [this]; rfl

/-! ## history independence (class D justification) -/

/-- **gl_history_independent**: in any sequence of rule computations the answer at a position is the
    rule of that position's own arguments `(n, a, b)` — whatever was computed before or after. -/
theorem gl_history_independent (rnd cospi : Rat → Rat) (eps : Rat) (fuel : Nat)
    (pre post : List (Nat × Rat × Rat)) (n : Nat) (a b : Rat) :
    (glSeq rnd cospi eps fuel (pre ++ (n, a, b) :: post))[pre.length]? = some (glRule rnd cospi eps fuel n a b) := by
  simp [glSeq]

/-- the same for the integrating overload: the value at a position of any call sequence is the value of
    that call alone, and equals the rule-taking overload on the rule of its own `(n, a, b)` -/
theorem integ_history_independent (f : Rat → Rat) (z pp : Nat → Nat → Rat)
    (pre post : List (Nat × Rat × Rat)) (n : Nat) (a b : Rat) :
    (integSeq f z pp (pre ++ (n, a, b) :: post))[pre.length]?
      = some (integrateGLrule f (glAssemble n a b (z n) (pp n))) := by
  simp [integSeq, integrateGL]

/-! ## fix fddea92 is value-neutral over the rationals -/

/-- halving the limits first (`0.5*x_max ± 0.5*x_min`) gives the same midpoint and half width as `0.5*(x_max ± x_min)` -/
theorem xMiddle_eq (a b : Rat) : xMiddle a b = (1 / 2 : Rat) * (b + a) := by unfold xMiddle; ring
theorem xHalfWidth_eq (a b : Rat) : xHalfWidth a b = (1 / 2 : Rat) * (b - a) := by unfold xHalfWidth; ring

/-! ## fix 455b721: rows that are not (root, weight) pairs are rejected by both rule-taking overloads -/

/-- **gl_row_shape**: a row of any length other than 2 (0, 1, 3, …; a transposed rule) makes both rule-taking
    overloads stop with the diagnostic; rules whose rows all have length 2 behave exactly as the pair model. -/
theorem gl_row_shape (f : Rat → Rat) (vals : List Rat) (rows : List (List Rat)) :
    (rowsOk rows = false → integrateGLruleRows f rows = .error .diag ∧ integrateGLvalsRows vals rows = .error .diag) ∧
    (rowsOk rows = true → integrateGLruleRows f rows = integrateGLrule f (toPairs rows) ∧
      integrateGLvalsRows vals rows = integrateGLvals vals (toPairs rows)) := by
  constructor
  · intro h
    unfold integrateGLruleRows integrateGLvalsRows
    simp only [h, Bool.not_false, if_true]
    refine ⟨trivial, ?_⟩
    by_cases hl : vals.length ≠ rows.length <;> simp [hl]
  · intro h
    have hlen : (toPairs rows).length = rows.length := by simp [toPairs]
    constructor
    · unfold integrateGLruleRows integrateGLvalsRows
      simp only [h, Bool.not_true, Bool.false_eq_true, if_false, List.length_map, ne_eq, not_true_eq_false]
      unfold integrateGLrule
      congr 1
      simp [toPairs, List.map_map, Function.comp_def]
    · unfold integrateGLvalsRows integrateGLvals
      simp only [h, Bool.not_true, Bool.false_eq_true, if_false, hlen]
      by_cases hl : vals.length ≠ rows.length <;> simp [hl]

example : integrateGLruleRows (fun x => x) [[1, 2], [3]] = .error .diag := by decide +kernel
example : integrateGLvalsRows [5, 6] [[1, 2, 9], [3, 4, 9]] = .error .diag := by decide +kernel
example : integrateGLvalsRows [5, 6] [[1, 2], [3, 4]] = .ok 34 := by decide +kernel

/-! ## the weight uses the derivative at the returned node (fix f38103c) -/

/-- **newtonRootPP_pp**: in exact arithmetic the `pp` returned together with the node `z` IS the coded derivative
    formula evaluated at that very `z` — `legendreDeriv n z = P_n'(z)` by `legendre_derivative` — not at the previous
    Newton iterate.  This is exactly the situation of `gl_weight_formula` / `ppK_eq_deriv` (Weights.lean): `pp` is
    `P_n'` at the node used. -/
theorem newtonRootPP_pp (eps : Rat) (n fuel : Nat) (z0 z pp : Rat)
    (h : newtonRootPP id eps n fuel z0 = some (z, pp)) :
    z * z - 1 ≠ 0 ∧ pp = legendreDeriv n z ∧ pp ≠ 0 := by
  unfold newtonRootPP at h
  cases hl : newtonLoop id eps n fuel z0 with
  | none => rw [hl] at h; simp at h
  | some r =>
    obtain ⟨zr, ppr⟩ := r
    rw [hl] at h
    simp only [] at h
    by_cases h1 : zr * zr - 1 = 0
    · simp [h1] at h
    · by_cases h2 : id (ppOf n zr (legPairR id zr n).1 (legPairR id zr n).2) = 0
      · exact absurd h2 (by simp [h1] at h; exact h.1)
      · simp only [if_neg h1, if_neg h2, Option.some.injEq, Prod.mk.injEq] at h
        obtain ⟨hz, hp⟩ := h
        subst hz
        refine ⟨h1, ?_, ?_⟩
        · rw [← hp]; rfl
        · rw [← hp]; exact h2

/-- **coded_weight_at_returned_node**: the weight the code writes on `[-1,1]` for a returned pair `(z, pp)` equals
    `codedWeight n z = 2/((1-z²) P_n'(z)²)` — the quantity `gl_weight_formula` identifies with the interpolatory
    (Gauss) weight when `z` is a root of `P_n`; on `[a,b]` it is `(b-a)/2` times that (`gl_affine`). -/
theorem coded_weight_at_returned_node (eps : Rat) (n fuel : Nat) (z0 z pp : Rat)
    (h : newtonRootPP id eps n fuel z0 = some (z, pp)) (a b : Rat) :
    weightOf 1 z pp = codedWeight n z ∧ weightOf (xHalfWidth a b) z pp = xHalfWidth a b * codedWeight n z := by
  obtain ⟨_, hp, _⟩ := newtonRootPP_pp eps n fuel z0 z pp h
  have e : weightOf 1 z pp = codedWeight n z := by rw [hp]; exact (codedWeight_eq_model n z).2.symm
  refine ⟨e, ?_⟩
  rw [← e]; unfold weightOf; ring

/-- the middle root of an odd rule through the final re-evaluation: still `(0, P_n'(0))` -/
theorem newtonRootPP_middle (cospi : Rat → Rat) (hc : cospi (1 / 2) = 0) (eps : Rat) (heps : 0 ≤ eps) (k fuel : Nat) :
    newtonRootPP id eps (2 * k + 1) (fuel + 1) (cospi (guessArg (2 * k + 1) k))
      = some (0, legendreDeriv (2 * k + 1) 0) := by
  unfold newtonRootPP
  rw [newton_middle_root cospi hc eps heps k fuel]
  have hpp := (legendre_odd_zero k).2
  have e1 : ¬ ((0 : Rat) * 0 - 1 = 0) := by norm_num
  have hpp' : ¬ (id (ppOf (2 * k + 1) 0 (legPairR id 0 (2 * k + 1)).1 (legPairR id 0 (2 * k + 1)).2) = 0) := hpp
  simp only [e1, if_false, hpp']
  rfl

/-! ## re-entrancy: nested use with limits depending on the outer variable -/

/-- **nestedGL_eq**: the nested call is the outer quadrature sum of the inner quadrature sums, each inner sum
    taken with the rule of its OWN `(nIn, lo x, hi x)` — no inner call changes the rule the outer loop uses. -/
theorem nestedGL_eq (g : Rat → Rat → Rat) (lo hi : Rat → Rat) (a b : Rat) (nOut nIn : Nat) (z pp : Nat → Nat → Rat) :
    nestedGL g lo hi a b nOut nIn z pp
      = .ok (glSum (fun x => glSum (g x) nIn (lo x) (hi x) (z nIn) (pp nIn)) nOut a b (z nOut) (pp nOut)) := by
  unfold nestedGL
  have e : (fun x => valueOf (integrateGL (g x) (lo x) (hi x) nIn (z nIn) (pp nIn)))
      = fun x => glSum (g x) nIn (lo x) (hi x) (z nIn) (pp nIn) := by
    funext x
    rw [(gl_overloads_agree (g x) (lo x) (hi x) nIn (z nIn) (pp nIn)).2.2]
    rfl
  rw [e]
  exact (gl_overloads_agree _ a b nOut (z nOut) (pp nOut)).2.2

/-- **nestedGL_exact**: if the inner rule integrates `y ↦ g x y` over `[lo x, hi x]` to `G x` for every `x`
    and the outer rule integrates `G` over `[a,b]` to `V` (both hold for polynomials of degree ≤ 2n−1 by
    `gl_exact_legendre_interval`), the nested call returns `V`. -/
theorem nestedGL_exact (g : Rat → Rat → Rat) (lo hi : Rat → Rat) (a b : Rat) (nOut nIn : Nat) (z pp : Nat → Nat → Rat)
    (G : Rat → Rat) (V : Rat)
    (hin : ∀ x, glSum (g x) nIn (lo x) (hi x) (z nIn) (pp nIn) = G x)
    (hout : glSum G nOut a b (z nOut) (pp nOut) = V) :
    nestedGL g lo hi a b nOut nIn z pp = .ok V := by
  rw [nestedGL_eq]
  have e : (fun x => glSum (g x) nIn (lo x) (hi x) (z nIn) (pp nIn)) = G := funext hin
  rw [e, hout]

/-- the triangle integral ∫₀¹(∫₀ˣ 2y dy)dx with the one-point inner rule and the two-point outer rule built from
    a candidate root `s`: the value is `(1 + 3 s²)/6 · …` — instance showing the hypotheses are met non-trivially -/
example : nestedGL (fun _ y => 2 * y) (fun _ => 0) (fun x => x) 0 1 1 1 (fun _ _ => 0) (fun _ _ => 1) = .ok (1 / 4) := by
  decide +kernel

/-! ## every interval, however narrow: nodes strictly inside, weights positive (never zero) -/

/-- **gl_node_inside**: for `a < b` and a root value strictly inside `(-1,1)` the node lies strictly inside `(a,b)` -/
theorem gl_node_inside (n : Nat) (a b : Rat) (z pp : Nat → Rat) (hab : a < b) (k : Nat) (hk : k < n)
    (hz : ∀ i, i < half n → -1 < z i ∧ z i < 1) :
    a < node n a b z pp k ∧ node n a b z pp k < b := by
  unfold node
  rw [glTable_closed n a b z pp k hk]
  have hh : 0 < xHalfWidth a b := by unfold xHalfWidth; linarith
  by_cases h1 : n - 1 - k < half n
  · obtain ⟨l, u⟩ := hz _ h1
    simp only [if_pos h1]
    have e1 : xHalfWidth a b * z (n - 1 - k) < xHalfWidth a b * 1 := mul_lt_mul_of_pos_left u hh
    have e2 : xHalfWidth a b * (-1) < xHalfWidth a b * z (n - 1 - k) := mul_lt_mul_of_pos_left l hh
    unfold xMiddle xHalfWidth at *
    constructor <;> linarith
  · have h2 : k < half n := by
      rcases half_cover n k hk with h' | h'
      · exact absurd h' h1
      · exact h'
    obtain ⟨l, u⟩ := hz _ h2
    simp only [if_neg h1]
    have e1 : xHalfWidth a b * z k < xHalfWidth a b * 1 := mul_lt_mul_of_pos_left u hh
    have e2 : xHalfWidth a b * (-1) < xHalfWidth a b * z k := mul_lt_mul_of_pos_left l hh
    unfold xMiddle xHalfWidth at *
    constructor <;> linarith

/-- **gl_weight_pos**: for `a < b`, roots strictly inside `(-1,1)` and `pp ≠ 0`, every weight is positive — in
    particular never zero, however small `b - a` is relative to `|a|`, `|b|` -/
theorem gl_weight_pos (n : Nat) (a b : Rat) (z pp : Nat → Rat) (hab : a < b) (k : Nat) (hk : k < n)
    (hz : ∀ i, i < half n → -1 < z i ∧ z i < 1) (hp : ∀ i, i < half n → pp i ≠ 0) :
    0 < weight n a b z pp k := by
  unfold weight
  rw [glTable_closed n a b z pp k hk]
  have hr : rootIdx n k < half n := by
    unfold rootIdx
    by_cases h1 : n - 1 - k < half n
    · simp [h1]
    · simp only [if_neg h1]
      rcases half_cover n k hk with h' | h'
      · exact absurd h' h1
      · exact h'
  obtain ⟨l, u⟩ := hz _ hr
  have hpp := hp _ hr
  have hh : 0 < xHalfWidth a b := by unfold xHalfWidth; linarith
  simp only []
  unfold weightOf
  apply div_pos (by linarith)
  have h1 : 0 < 1 - z (rootIdx n k) * z (rootIdx n k) := by nlinarith
  have h2 : 0 < pp (rootIdx n k) * pp (rootIdx n k) := mul_self_pos.mpr hpp
  have : (1 - z (rootIdx n k) * z (rootIdx n k)) * pp (rootIdx n k) * pp (rootIdx n k)
      = (1 - z (rootIdx n k) * z (rootIdx n k)) * (pp (rootIdx n k) * pp (rootIdx n k)) := by ring
  rw [this]
  exact mul_pos h1 h2

example : 0 < weight 2 100000000000 100000000004 (fun _ => 1 / 2) (fun _ => 3 / 2) 0 := by decide +kernel

/-! ## [T2] the coded recurrence, its derivative, the middle root, n = 1 -/

-- `legendre_derivative`, `legendre_odd_zero`, `newton_middle_root`, `gl_exact_n1` (Legendre.lean), `gl_n2_defect` (N2.lean),
-- `gl_n3_defect` (N3.lean) are in LpProofs/C12/*.lean (listed in obligations/C12.txt).

/-! ## [T2] exactness to degree 2n−1 for ALL n (clause "the rule integrates every polynomial of degree ≤ 2n−1 exactly")

  The integral over `[-1,1]` is the ALGEBRAIC one on polynomials (`integ`, Integ.lean: `∫ x^k = (1−(−1)^(k+1))/(k+1)`,
  with the fundamental theorem `integ_derivative` and `integ_by_parts` proved from that definition).

  * `gl_exact_of_orthogonality` (Exact.lean)  — structure theorem over any field: `P` of degree `n` vanishing at the
    nodes and orthogonal to degree `< n`, weights exact on degree `< n`  ⟹  exact on degree `≤ 2n−1`;
    `interp_weights_exact`/`interp_weights_unique`: the weight hypothesis is met exactly by the interpolatory weights;
    `gl_exact_nodal`: only orthogonality of the nodal polynomial is left as hypothesis.
  * `legendre_ode`, `legendre_orthogonal(_monomial/_K)`, `legPoly_natDegree` (Orthogonal.lean) — the polynomials of the
    CODED recurrence satisfy `((x²−1)P_n')' = n(n+1)P_n`, have degree `n`, and `∫ P_n q = 0` for every `q` of degree
    `< n`, for all `n` (general induction; no per-`n` computation).
  * `christoffel_darboux`, `gl_weight_formula` (Weights.lean) — at a root `z` of `P_n` the interpolatory weight IS the
    coded `2/((1−z²)P_n'(z)²)`, all `n ≥ 1`.
  * `gl_exact_legendre` (Weights.lean) — Gauss–Legendre exactness for ALL `n`, any field of characteristic zero:
    nodes = `n` distinct roots of the coded `P_n`, weights = the coded formula with the coded `pp`.
    `codedWeight_eq_model` (Small.lean): over ℚ these are the model's `legendreDeriv`, `weightOf 1`.
  * `gl_exact_legendre_interval` (Interval.lean) — the same on every interval `[a,b]` (either orientation): nodes
    `m + h z`, weights `2h/((1−z²)pp²)` as written by the C++, against the algebraic integral `integAB a b`
    (`integ_comp_affine` is the substitution rule, `integ_eq_integAB` ties it to `integ`).
  * `gl_exact_n2_field/_n3_field` (Small.lean), `gl_exact_n2_real/_n3_real` (RealGL.lean) — instances with the true
    irrational nodes in ℝ (non-vacuity of `gl_exact_legendre` for n = 2, 3); n = 1 over ℚ.

  What stays outside the theorems: that `P_n` HAS `n` distinct real roots in (−1,1) and that the coded Newton iteration
  from `cos(π(i+¾)/(n+½))` converges to the `i`-th of them (evaluated per `n` by the check), and the effect of stopping
  at `|Δz| ≤ 1e−14` / double rounding (`gl_n2_defect`, `gl_n3_defect` give the exact dependence of the defect on
  `P_n(s)` for n = 2, 3).  `gl_affine_sum` transfers exactness from `[-1,1]` to `[a,b]`. -/

end Lp.C12
