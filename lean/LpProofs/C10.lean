/-
  C10 — property theorems.  For every guarded entry point of the table in `LpModel/C10.lean`:
    `…_guard_iff`   : the guard stops  ↔  the request is not meaningful;
    `…_ok_in_bounds`: a meaningful request (on operands satisfying the class invariant) never
                      takes an out-of-range index in the checked-access model.
-/
import Mathlib.Tactic.Linarith
import Mathlib.Tactic.SplitIfs
import Mathlib.Algebra.Order.Field.Rat
import LpModel.C10
import LpProofs.C10.Lemmas
import LpProofs.C10.SortDedup
import LpProofs.C10.Generated
namespace Lp.C10

/-! ## 1. Vector -/

theorem vecIndex_guard_iff (dim i : Nat) : vecIndexGuard dim i = stop ↔ ¬ vecIndexMeaningful dim i := by
  unfold vecIndexGuard vecIndexMeaningful stop pass
  split <;> simp_all

theorem vecIndex_ok_in_bounds (xs : List Rat) (i : Nat) (h : vecIndexMeaningful xs.length i) :
    NoOOB (vecIndexReads xs i) := by
  unfold vecIndexMeaningful at h
  intro o ho
  simp [vecIndexReads] at ho
  subst ho
  simp [h]

example : vecIndexMeaningful [1, 2, 3].length 2 := by decide
example : vecIndexGuard 0 0 = stop := by decide

theorem vecPair_guard_iff (n m : Nat) : vecPairGuard n m = stop ↔ ¬ vecPairMeaningful n m := by
  unfold vecPairGuard vecPairMeaningful stop pass
  split <;> simp_all

theorem vecPair_ok_in_bounds (xs ys : List Rat) (h : vecPairMeaningful xs.length ys.length) :
    NoOOB (vecPairReads xs ys) := by
  unfold vecPairMeaningful at h
  intro o ho
  simp only [vecPairReads, List.mem_flatMap, List.mem_range] at ho
  obtain ⟨i, hi, ho⟩ := ho
  simp at ho
  rcases ho with rfl | rfl
  · simp [hi]
  · simp [← h, hi]

example : vecPairMeaningful [1, 2].length [3, 4].length := by decide

theorem cross_guard_iff (n m : Nat) : crossGuard n m = stop ↔ ¬ crossMeaningful n m := by
  unfold crossGuard crossMeaningful stop pass
  split <;> simp_all
  omega

theorem cross_ok_in_bounds (xs ys : List Rat) (h : crossMeaningful xs.length ys.length) :
    NoOOB (crossReads xs ys) := by
  obtain ⟨h1, h2⟩ := h
  intro o ho
  simp only [crossReads, List.mem_cons, List.not_mem_nil, or_false] at ho
  rcases ho with rfl | rfl | rfl | rfl | rfl | rfl | rfl | rfl | rfl | rfl | rfl | rfl <;> simp [h1, h2]

example : crossMeaningful [1, 2, 3].length [4, 5, 6].length := by decide
example : crossGuard 3 4 = stop := by decide

/-! ## 2. Matrix -/

theorem matIndex_guard_iff (rows i : Nat) : matIndexGuard rows i = stop ↔ ¬ matIndexMeaningful rows i := by
  unfold matIndexGuard matIndexMeaningful stop pass
  split <;> simp_all

/-- in particular a matrix without rows admits no index at all (fix 2a3ba6f) -/
theorem matIndex_empty (i : Nat) : matIndexGuard 0 i = stop := by
  simp [matIndexGuard]

theorem matIndex_ok_in_bounds (m : Mat) (hm : m.wf) (i : Nat) (h : matIndexMeaningful m.rows i) :
    NoOOB (matIndexReads m i) := by
  intro o ho
  simp [matIndexReads] at ho
  subst ho
  exact Mat.row_isSome hm h

example : (Mat.const 2 3 1).wf ∧ matIndexMeaningful (Mat.const 2 3 1).rows 1 := ⟨Mat.const_wf _ _ _, by decide⟩

theorem matEntries_guard_iff (lens : List Nat) : matEntriesGuard lens = stop ↔ ¬ matEntriesMeaningful lens := by
  unfold matEntriesGuard matEntriesMeaningful stop pass
  cases lens with
  | nil => simp
  | cons l0 rest =>
    simp only [List.all_cons, List.mem_cons]
    split
    · rename_i h
      simp only [Bool.and_eq_true, decide_eq_true_eq, List.all_eq_true] at h
      simp only [reduceCtorEq, false_iff, not_not]
      intro a ha b hb
      have e1 : a = l0 := by rcases ha with rfl | ha; · rfl
                             · exact h.2 a ha
      have e2 : b = l0 := by rcases hb with rfl | hb; · rfl
                             · exact h.2 b hb
      omega
    · rename_i h
      simp only [true_iff]
      intro hall
      apply h
      simp only [Bool.and_eq_true, decide_eq_true_eq, List.all_eq_true]
      exact ⟨trivial, fun x hx => hall x (Or.inr hx) l0 (Or.inl rfl)⟩

example : matEntriesMeaningful [3, 3, 3] := by decide
example : matEntriesGuard [2, 3] = stop := by decide
example : matEntriesGuard [] = pass := by decide

theorem blockValid_iff (R C : Nat) (rws cls : Nat → Nat → Nat) :
    blockValid R C rws cls = true ↔ blockMeaningful R C rws cls := by
  unfold blockValid blockMeaningful
  simp only [List.all_eq_true, List.mem_range, Bool.and_eq_true, Bool.or_eq_true, decide_eq_true_eq]
  constructor
  · intro h r hr c hc
    constructor
    · induction c with
      | zero => rfl
      | succ k ih =>
        have h2 := (h r hr (k + 1) hc).2
        simp only [Nat.add_eq_zero_iff, and_false, Nat.add_sub_cancel, false_or, one_ne_zero] at h2
        rw [h2]; exact ih (by omega)
    · induction r with
      | zero => rfl
      | succ k ih =>
        have h1 := (h (k + 1) hr c hc).1
        simp only [Nat.add_eq_zero_iff, and_false, Nat.add_sub_cancel, false_or, one_ne_zero] at h1
        rw [h1]; exact ih (by omega)
  · intro h r hr c hc
    constructor
    · by_cases h0 : r = 0
      · exact Or.inl h0
      · exact Or.inr (by rw [(h r hr c hc).2, (h (r - 1) (by omega) c hc).2])
    · by_cases h0 : c = 0
      · exact Or.inl h0
      · exact Or.inr (by rw [(h r hr c hc).1, (h r hr (c - 1) (by omega)).1])

/-- block constructor: adjacent-block comparison of the C++ ↔ every block row has one height and
    every block column one width -/
theorem block_guard_iff (R C : Nat) (rws cls : Nat → Nat → Nat) :
    blockGuard R C rws cls = stop ↔ ¬ blockMeaningful R C rws cls := by
  rw [← blockValid_iff]
  unfold blockGuard stop pass
  split <;> simp_all

example : blockMeaningful 2 2 (fun r _ => r + 1) (fun _ c => c + 2) := by
  intro r _ c _; exact ⟨rfl, rfl⟩

theorem matRow_guard_iff (rows i : Nat) : matRowGuard rows i = stop ↔ ¬ matRowMeaningful rows i := by
  unfold matRowGuard matRowMeaningful stop pass
  split <;> simp_all

theorem matRow_ok_in_bounds (m : Mat) (hm : m.wf) (i : Nat) (h : matRowMeaningful m.rows i) :
    NoOOB (matRowReads m i) := by
  intro o ho
  simp [matRowReads] at ho
  subst ho
  exact Mat.row_isSome hm h

theorem matCol_guard_iff (cols j : Nat) : matColGuard cols j = stop ↔ ¬ matColMeaningful cols j := by
  unfold matColGuard matColMeaningful stop pass
  split <;> simp_all

theorem matCol_ok_in_bounds (m : Mat) (hm : m.wf) (j : Nat) (h : matColMeaningful m.cols j) :
    NoOOB (matColReads m j) := by
  intro o ho
  simp only [matColReads, List.mem_map, List.mem_range] at ho
  obtain ⟨i, hi, rfl⟩ := ho
  exact Mat.get_isSome hm hi h

theorem matSum_guard_iff (r1 c1 r2 c2 : Nat) :
    matSumGuard r1 c1 r2 c2 = stop ↔ ¬ matSumMeaningful r1 c1 r2 c2 := by
  unfold matSumGuard matSumMeaningful stop pass
  split <;> simp_all
  omega

/-- transposed shapes are rejected unless the matrices are square (the defect repaired by 9df8ec7) -/
theorem matSum_transposed (r c : Nat) (h : r ≠ c) : matSumGuard r c c r = stop := by
  simp [matSumGuard, h]

theorem matSum_ok_in_bounds (a b : Mat) (ha : a.wf) (hb : b.wf)
    (h : matSumMeaningful a.rows a.cols b.rows b.cols) : NoOOB (matSumReads a b) := by
  obtain ⟨h1, h2⟩ := h
  intro o ho
  simp only [matSumReads, List.mem_flatMap, List.mem_range] at ho
  obtain ⟨i, hi, j, hj, ho⟩ := ho
  simp at ho
  rcases ho with rfl | rfl
  · exact Mat.get_isSome ha hi hj
  · exact Mat.get_isSome hb (h1 ▸ hi) (h2 ▸ hj)

example : (Mat.const 2 3 1).wf ∧ matSumMeaningful 2 3 2 3 := ⟨Mat.const_wf _ _ _, by decide⟩

theorem matProd_guard_iff (r1 c1 r2 c2 : Nat) :
    matProdGuard r1 c1 r2 c2 = stop ↔ ¬ matProdMeaningful r1 c1 r2 c2 := by
  unfold matProdGuard matProdMeaningful stop pass
  split <;> simp_all

theorem matProd_ok_in_bounds (a b : Mat) (ha : a.wf) (hb : b.wf)
    (h : matProdMeaningful a.rows a.cols b.rows b.cols) : NoOOB (matProdReads a b) := by
  intro o ho
  simp only [matProdReads, List.mem_flatMap, List.mem_range] at ho
  obtain ⟨i, hi, j, hj, k, hk, ho⟩ := ho
  simp at ho
  rcases ho with rfl | rfl
  · exact Mat.get_isSome ha hi hk
  · exact Mat.get_isSome hb (h ▸ hk) hj

theorem matVec_guard_iff (rows cols n : Nat) : matVecGuard rows cols n = stop ↔ ¬ matVecMeaningful rows cols n := by
  unfold matVecGuard matVecMeaningful stop pass
  split <;> simp_all

theorem matVec_ok_in_bounds (a : Mat) (ha : a.wf) (v : List Rat)
    (h : matVecMeaningful a.rows a.cols v.length) : NoOOB (matVecReads a v) := by
  intro o ho
  simp only [matVecReads, List.mem_flatMap, List.mem_range] at ho
  obtain ⟨i, hi, j, hj, ho⟩ := ho
  simp at ho
  rcases ho with rfl | rfl
  · exact Mat.get_isSome ha hi hj
  · have : j < v.length := by rw [h]; exact hj
    simp [this]

theorem vecMat_guard_iff (n rows cols : Nat) : vecMatGuard n rows cols = stop ↔ ¬ vecMatMeaningful n rows cols := by
  unfold vecMatGuard vecMatMeaningful stop pass
  split <;> simp_all

theorem vecMat_ok_in_bounds (v : List Rat) (a : Mat) (ha : a.wf)
    (h : vecMatMeaningful v.length a.rows a.cols) : NoOOB (vecMatReads v a) := by
  intro o ho
  simp only [vecMatReads, List.mem_flatMap, List.mem_range] at ho
  obtain ⟨i, hi, j, hj, ho⟩ := ho
  simp at ho
  rcases ho with rfl | rfl
  · have : j < v.length := by rw [h]; exact hj
    simp [this]
  · exact Mat.get_isSome ha hj hi

theorem square_guard_iff (rows cols : Nat) : squareGuard rows cols = stop ↔ ¬ squareMeaningful rows cols := by
  unfold squareGuard squareMeaningful stop pass
  split <;> simp_all

theorem trace_ok_in_bounds (a : Mat) (ha : a.wf) (h : squareMeaningful a.rows a.cols) : NoOOB (traceReads a) := by
  intro o ho
  simp only [traceReads, List.mem_map, List.mem_range] at ho
  obtain ⟨i, hi, rfl⟩ := ho
  exact Mat.get_isSome ha hi (h ▸ hi)

theorem det_ok_in_bounds (a : Mat) (ha : a.wf) (h : squareMeaningful a.rows a.cols) : NoOOB (detReads a) := by
  have hsq : a.rows = a.cols := h
  intro o ho
  unfold detReads at ho
  split at ho
  · rename_i h1
    simp at ho; subst ho
    exact Mat.get_isSome ha (by omega) (by omega)
  · split at ho
    · rename_i h2
      simp at ho
      rcases ho with rfl | rfl | rfl | rfl <;> exact Mat.get_isSome ha (by omega) (by omega)
    · rename_i h1 h2
      simp only [List.mem_map, List.mem_range] at ho
      obtain ⟨j, hj, rfl⟩ := ho
      exact Mat.get_isSome ha (by omega) hj

example : (Mat.const 3 3 1).wf ∧ squareMeaningful 3 3 := ⟨Mat.const_wf _ _ _, by decide⟩

theorem inverse_guard_iff (rows cols : Nat) (det : Rat) :
    inverseGuard rows cols det = stop ↔ ¬ inverseMeaningful rows cols det := by
  unfold inverseGuard inverseMeaningful stop pass
  split
  · simp_all
  · split <;> simp_all

example : inverseMeaningful 2 2 (-2) := by decide
example : inverseGuard 2 2 0 = stop := by decide

theorem rotation_guard_iff (dim : Int) (axisN : Nat) :
    rotationGuard dim axisN = stop ↔ ¬ rotationMeaningful dim axisN := by
  unfold rotationGuard rotationMeaningful stop pass
  split
  · simp_all
  · split
    · split <;> simp_all
    · simp_all

theorem rotation_ok_in_bounds (dim : Int) (axis : List Rat) (h : rotationMeaningful dim axis.length) :
    NoOOB (rotationReads dim axis) := by
  intro o ho
  unfold rotationReads at ho
  split at ho
  · rename_i h3
    have hl : axis.length = 3 := by
      rcases h with h | h
      · omega
      · exact h.2
    simp at ho
    rcases ho with rfl | rfl | rfl <;> simp [hl]
  · simp at ho

example : rotationMeaningful 3 [0, 0, 1].length := by decide

/-! ### Objects with state -/

/-- history enters only through the shape: after an accepted history `h` the outcome of ANY continuation is
    the outcome of that continuation on a fresh matrix of the current shape -/
theorem matHist_append (h t : List MatOp) :
    ∀ s : Nat × Nat, matHistGuard s h = pass → matHistGuard s (h ++ t) = matHistGuard (matShapeAfter s h) t := by
  induction h with
  | nil => intro s _; rfl
  | cons op ops ih =>
    intro s hp
    simp only [List.cons_append, matShapeAfter, List.foldl_cons]
    have e1 : matHistGuard s (op :: (ops ++ t)) = (match matOpGuard s op with
      | .error _ => stop
      | .ok _ => matHistGuard (matOpShape s op) (ops ++ t)) := rfl
    have e2 : matHistGuard s (op :: ops) = (match matOpGuard s op with
      | .error _ => stop
      | .ok _ => matHistGuard (matOpShape s op) ops) := rfl
    rw [e1]; rw [e2] at hp
    cases hg : matOpGuard s op with
    | error e => rw [hg] at hp; simp [stop, pass] at hp
    | ok u => rw [hg] at hp; simp only [] at hp ⊢; exact ih _ hp

/-- two accepted histories that end in the same shape are indistinguishable for every later request -/
theorem matHist_shape_only (s1 s2 : Nat × Nat) (h1 h2 t : List MatOp)
    (p1 : matHistGuard s1 h1 = pass) (p2 : matHistGuard s2 h2 = pass)
    (hs : matShapeAfter s1 h1 = matShapeAfter s2 h2) :
    matHistGuard s1 (h1 ++ t) = matHistGuard s2 (h2 ++ t) := by
  rw [matHist_append h1 t s1 p1, matHist_append h2 t s2 p2, hs]

theorem vecHist_append (h t : List VecOp) :
    ∀ d : Nat, vecHistGuard d h = pass → vecHistGuard d (h ++ t) = vecHistGuard (vecDimAfter d h) t := by
  induction h with
  | nil => intro d _; rfl
  | cons op ops ih =>
    intro d hp
    simp only [List.cons_append, vecDimAfter, List.foldl_cons]
    have e1 : vecHistGuard d (op :: (ops ++ t)) = (match vecOpGuard d op with
      | .error _ => stop
      | .ok _ => vecHistGuard (vecOpDim d op) (ops ++ t)) := rfl
    have e2 : vecHistGuard d (op :: ops) = (match vecOpGuard d op with
      | .error _ => stop
      | .ok _ => vecHistGuard (vecOpDim d op) ops) := rfl
    rw [e1]; rw [e2] at hp
    cases hg : vecOpGuard d op with
    | error e => rw [hg] at hp; simp [stop, pass] at hp
    | ok u => rw [hg] at hp; simp only [] at hp ⊢; exact ih _ hp

example : matHistGuard (2, 3) [.resize 4 3, .at 3, .sum 4 3, .transpose] = pass ∧
    matHistGuard (2, 3) [.resize 4 3, .at 4] = stop ∧ matHistGuard (2, 3) [.resize 4 3, .sum 2 3] = stop := by decide

/-- whatever self-consistent state a moved-from / moved-to / swapped vector is in (any reported size `d`): the requests
    formed from the size it reports are accepted, the index equal to that size is rejected -/
theorem vecRel_shape_free (d : Nat) (q : RelReq) : vecRelGuard d q = relOutcome q := by
  cases q with
  | useAll =>
    simp only [vecRelGuard, relOutcome, vecPairGuard, vecIndexGuard, pass, stop]
    by_cases h : d = 0 <;> simp [h]
    omega
  | atSize => simp [vecRelGuard, relOutcome, vecIndexGuard]
  | grow k =>
    simp only [vecRelGuard, relOutcome, vecIndexGuard, pass, stop]
    by_cases h : d + k = 0 <;> simp [h]
    omega

theorem matRel_shape_free (s : Nat × Nat) (q : RelReq) : matRelGuard s q = relOutcome q := by
  cases q with
  | useAll =>
    simp only [matRelGuard, relOutcome, matSumGuard, matVecGuard, matIndexGuard, pass, stop]
    by_cases h : s.1 = 0 <;> simp [h]
    omega
  | atSize => simp [matRelGuard, relOutcome, matIndexGuard]
  | grow k =>
    simp only [matRelGuard, relOutcome, matIndexGuard, pass, stop]
    by_cases h : s.1 + k = 0 <;> simp [h]
    omega

/-- a history of relative requests on objects in ARBITRARY self-consistent states (moved-from, moved-to, swapped, copied
    out of a container): the outcome is that of the requests alone — it stops at the first `atSize` and nowhere else -/
theorem relHist_shape_free (steps : List (Nat × RelReq)) (steps' : List ((Nat × Nat) × RelReq)) :
    seqGuard (steps.map fun p => vecRelGuard p.1 p.2) = seqGuard (steps.map fun p => relOutcome p.2) ∧
    seqGuard (steps'.map fun p => matRelGuard p.1 p.2) = seqGuard (steps'.map fun p => relOutcome p.2) := by
  constructor
  · congr 1; apply List.map_congr_left; intro p _; exact vecRel_shape_free p.1 p.2
  · congr 1; apply List.map_congr_left; intro p _; exact matRel_shape_free p.1 p.2

/-! ## 3. Interpolation -/

theorem interpCtor_guard_iff (xs ys : List Rat) (xd fd : Rat) :
    interpCtorGuard xs ys xd fd = stop ↔ ¬ interpCtorMeaningful xs ys := by
  unfold interpCtorGuard interpCtorMeaningful validAbscissae
  rcases mk_cases xs ys xd fd with ⟨hm, o, h⟩ | ⟨hm, h⟩
  · rw [h]
    constructor
    · intro hh; simp [stop, pass] at hh
    · intro hn; exact absurd hm hn
  · rw [h]; simp only [true_iff]; exact hm

/-- in particular tables of length 0, 1, 2 are rejected (fix 090357b) -/
theorem interpCtor_short (xs ys : List Rat) (xd fd : Rat) (h : xs.length < 3) :
    interpCtorGuard xs ys xd fd = stop := by
  rw [interpCtor_guard_iff]; intro hm; have := hm.2.1; omega

example : interpCtorMeaningful [0, 1, 3] [5, 5, 5] := by
  refine ⟨rfl, by decide, ?_⟩
  simp [List.pairwise_cons]

theorem interpTable_guard_iff (data : List (List Rat)) (xd fd : Rat) :
    interpTableGuard data xd fd = stop ↔ ¬ interpTableMeaningful data := by
  unfold interpTableGuard interpTableMeaningful
  split
  · rename_i hall
    simp only [List.all_eq_true, decide_eq_true_eq] at hall
    rw [interpCtor_guard_iff]
    apply not_congr
    constructor
    · rintro ⟨_, hv⟩; exact ⟨hall, hv⟩
    · rintro ⟨_, hv⟩; exact ⟨by simp, hv⟩
  · rename_i hall
    simp only [List.all_eq_true, decide_eq_true_eq] at hall
    simp only [true_iff]
    exact fun h => hall h.1

theorem locate_guard_iff (N : Nat) (x : Nat → Rat) (st : Interp.LState) (v : Rat) :
    locateGuard N x st v = stop ↔ ¬ inDomain N x v := by
  unfold locateGuard
  rcases locate_cases N x st v with ⟨hd, j, st', h⟩ | ⟨hd, h⟩
  · rw [h]; simp [stop, pass, hd]
  · rw [h]; simp only [true_iff]; exact hd

/-- a meaningful `Locate` on a table of at least two points, from any search state whose remembered
    index is a valid interval, returns an index `j ≤ N-2`: `x_values[j]`, `x_values[j+1]` and the
    coefficient arrays `a[j] … d[j]` (N-1 entries) exist; the remembered index stays valid -/
theorem locate_ok_in_bounds (N : Nat) (x : Nat → Rat) (st : Interp.LState) (v : Rat) (hN : 2 ≤ N)
    (hst : st.jLast ≤ N - 2) (h : inDomain N x v) :
    ∃ j st', Interp.locate N x st v = .ok (j, st') ∧ st'.jLast ≤ N - 2 ∧ NoOOB (interpolateReads N j) := by
  rcases locate_cases N x st v with ⟨_, j, st', hl⟩ | ⟨hd, _⟩
  · have hb := locate_ok_bound N x st v hN hst j st' hl
    refine ⟨j, st', hl, by omega, ?_⟩
    intro o ho
    simp only [interpolateReads, List.mem_cons, List.not_mem_nil, or_false] at ho
    rcases ho with rfl | rfl
    · rw [if_pos (by omega)]; rfl
    · rw [if_pos (by omega)]; rfl
  · exact absurd h hd

example : inDomain 3 (fun i => (i : Rat)) (-1/200) := by
  right; left; simp [rabs]; norm_num

/-- the domain guard does not depend on the call history of the object: after ANY sequence of
    accepted calls (any search state) an abscissa outside the tolerated domain stops the program -/
theorem history_guard_iff (N : Nat) (x : Nat → Rat) (vs : List Rat) :
    ∀ st : Interp.LState, historyGuard N x st vs = stop ↔ ¬ historyMeaningful N x vs := by
  induction vs with
  | nil => intro st; simp [historyGuard, historyMeaningful, stop, pass]
  | cons v vs ih =>
    intro st
    unfold historyGuard
    rcases locate_cases N x st v with ⟨hd, j, st', h⟩ | ⟨hd, h⟩
    · rw [h]; simp only []
      rw [ih st']
      unfold historyMeaningful
      simp [hd]
    · rw [h]; simp only [true_iff]
      exact fun hh => hd (hh v (List.mem_cons_self))

theorem integrate_guard_iff (N : Nat) (x : Nat → Rat) (st : Interp.LState) (v1 v2 : Rat) :
    integrateGuard N x st v1 v2 = stop ↔ ¬ integrateMeaningful N x v1 v2 := by
  unfold integrateGuard integrateMeaningful
  simp only []
  by_cases hgt : v1 > v2
  · simp only [hgt, if_true]
    rcases locate_cases N x st v2 with ⟨hd, j, st', h⟩ | ⟨hd, h⟩
    · rw [h]; simp only []
      rcases locate_cases N x st' v1 with ⟨hd', j', st'', h'⟩ | ⟨hd', h'⟩
      · rw [h']; simp [stop, pass, hd, hd']
      · rw [h']; simp only [true_iff]; exact fun hh => hd' hh.1
    · rw [h]; simp only [true_iff]; exact fun hh => hd hh.2
  · simp only [hgt, if_false]
    rcases locate_cases N x st v1 with ⟨hd, j, st', h⟩ | ⟨hd, h⟩
    · rw [h]; simp only []
      rcases locate_cases N x st' v2 with ⟨hd', j', st'', h'⟩ | ⟨hd', h'⟩
      · rw [h']; simp [stop, pass, hd, hd']
      · rw [h']; simp only [true_iff]; exact fun hh => hd' hh.2
    · rw [h]; simp only [true_iff]; exact fun hh => hd hh.1

theorem localExt_guard_iff (N : Nat) (x : Nat → Rat) (st : Interp.LState) (v1 v2 : Rat) :
    localExtGuard N x st v1 v2 = stop ↔ ¬ localExtMeaningful N x v1 v2 := by
  unfold localExtGuard localExtMeaningful
  by_cases hlt : v2 < v1
  · simp only [hlt, if_true, true_iff]; exact fun hh => absurd hh.1 (not_le.mpr hlt)
  · simp only [hlt, if_false]
    have hle : v1 ≤ v2 := not_lt.mp hlt
    rcases locate_cases N x st v1 with ⟨hd1, j1, s1, h1⟩ | ⟨hd1, h1⟩
    · rw [h1]; simp only []
      rcases locate_cases N x s1 v2 with ⟨hd2, j2, s2, h2⟩ | ⟨hd2, h2⟩
      · rw [h2]; simp only []
        rcases locate_cases N x s2 v1 with ⟨_, j3, s3, h3⟩ | ⟨hd3, _⟩
        · rw [h3]; simp only []
          rcases locate_cases N x s3 v2 with ⟨_, j4, s4, h4⟩ | ⟨hd4, _⟩
          · rw [h4]; simp [stop, pass, hle, hd1, hd2]
          · exact absurd hd2 hd4
        · exact absurd hd1 hd3
      · rw [h2]; simp only [true_iff]; exact fun hh => hd2 hh.2.2
    · rw [h1]; simp only [true_iff]; exact fun hh => hd1 hh.2.1

/-- translator tie: the regenerated `Check_For_Error(x_2 < x_1, …)` condition is the order test of the model -/
theorem gen_Local_Minimum_eq (N : Nat) (x : Nat → Rat) (st : Interp.LState) (v1 v2 : Rat) :
    localExtGuard N x st v1 v2 = stop ↔ (Gen.gen_Local_Minimum_order v1 v2 = true ∨ ¬ (inDomain N x v1 ∧ inDomain N x v2)) := by
  rw [localExt_guard_iff]
  unfold Gen.gen_Local_Minimum_order localExtMeaningful
  simp only [decide_eq_true_eq]
  constructor
  · intro h; by_contra hn; push Not at hn; exact h ⟨by linarith [hn.1], hn.2.1, hn.2.2⟩
  · rintro (h | h) ⟨h1, h2, h3⟩
    · linarith
    · exact h ⟨h2, h3⟩
theorem gen_Local_Maximum_eq (N : Nat) (x : Nat → Rat) (st : Interp.LState) (v1 v2 : Rat) :
    localExtGuard N x st v1 v2 = stop ↔ (Gen.gen_Local_Maximum_order v1 v2 = true ∨ ¬ (inDomain N x v1 ∧ inDomain N x v2)) := by
  rw [localExt_guard_iff]
  unfold Gen.gen_Local_Maximum_order localExtMeaningful
  simp only [decide_eq_true_eq]
  constructor
  · intro h; by_contra hn; push Not at hn; exact h ⟨by linarith [hn.1], hn.2.1, hn.2.2⟩
  · rintro (h | h) ⟨h1, h2, h3⟩
    · linarith
    · exact h ⟨h2, h3⟩

theorem interp2Eval_guard_iff (Nx : Nat) (x : Nat → Rat) (sx : Interp.LState) (Ny : Nat) (y : Nat → Rat)
    (sy : Interp.LState) (vx vy : Rat) :
    interp2EvalGuard Nx x sx Ny y sy vx vy = stop ↔ ¬ interp2EvalMeaningful Nx x Ny y vx vy := by
  unfold interp2EvalGuard interp2EvalMeaningful
  rcases locate_cases Nx x sx vx with ⟨hd, j, st', h⟩ | ⟨hd, h⟩
  · rw [h]; simp only []
    rcases locate_cases Ny y sy vy with ⟨hd', j', st'', h'⟩ | ⟨hd', h'⟩
    · rw [h']; simp [stop, pass, hd, hd']
    · rw [h']; simp only [true_iff]; exact fun hh => hd' hh.2
  · rw [h]; simp only [true_iff]; exact fun hh => hd hh.1

/-- bilinear interpolation reads `x[i+1]`, `y[j+1]`, `f[i+1][j+1]`: all inside the table -/
theorem interp2Eval_ok_in_bounds (Nx : Nat) (x : Nat → Rat) (sx : Interp.LState) (Ny : Nat) (y : Nat → Rat)
    (sy : Interp.LState) (vx vy : Rat) (hNx : 2 ≤ Nx) (hNy : 2 ≤ Ny) (hsx : sx.jLast ≤ Nx - 2) (hsy : sy.jLast ≤ Ny - 2)
    (h : interp2EvalMeaningful Nx x Ny y vx vy) :
    ∃ i sx' j sy', Interp.locate Nx x sx vx = .ok (i, sx') ∧ Interp.locate Ny y sy vy = .ok (j, sy') ∧
      NoOOB (interp2EvalReads Nx Ny i j) := by
  obtain ⟨i, sx', hi, _, _⟩ := locate_ok_in_bounds Nx x sx vx hNx hsx h.1
  obtain ⟨j, sy', hj, _, _⟩ := locate_ok_in_bounds Ny y sy vy hNy hsy h.2
  have bi := locate_ok_bound Nx x sx vx hNx hsx i sx' hi
  have bj := locate_ok_bound Ny y sy vy hNy hsy j sy' hj
  refine ⟨i, sx', j, sy', hi, hj, ?_⟩
  intro o ho
  simp only [interp2EvalReads, List.mem_cons, List.not_mem_nil, or_false] at ho
  rcases ho with rfl | rfl
  · rw [if_pos (by omega)]; rfl
  · rw [if_pos (by omega)]; rfl

theorem interp2Ctor_guard_iff (xs ys : List Rat) (f : List (List Rat)) (xd yd fd : Rat) :
    interp2CtorGuard xs ys f xd yd fd = stop ↔ ¬ interp2CtorMeaningful xs ys f := by
  unfold interp2CtorGuard
  rcases mk2_cases xs ys f xd yd fd with ⟨hm, o, h⟩ | ⟨hm, h⟩
  · rw [h]
    constructor
    · intro hh; simp [stop, pass] at hh
    · intro hn; exact absurd hm hn
  · rw [h]; simp only [true_iff]; exact hm

example : interp2CtorMeaningful [0, 1, 2] [0, 1, 2] [[1, 1, 1], [1, 1, 1], [1, 1, 1]] := by
  refine ⟨rfl, by simp, ⟨by decide, by simp [List.pairwise_cons]⟩, ⟨by decide, by simp [List.pairwise_cons]⟩⟩

/-- FULL statement for the table constructor of `Interpolation_2D`, PROVED.  The constructor sorts and
    de-duplicates the x and y columns (`std::sort` + `std::unique` = `sortDedup`, which by
    `sortDedup_spec` is THE strictly increasing list of the distinct values), checks
    `x.size()*y.size() == data_table.size()`, then checks row `k` against `(x[k / ny], y[k % ny])` in order,
    then runs the grid constructor (two 1-D constructors: at least 3 points each).  The guard passes iff
    every row has 3 entries and the table is exactly the row-major listing of a complete grid over
    strictly increasing abscissa lists of at least 3 values each. -/
theorem interp2Table_guard_iff_FULL (t : List (List Rat)) (xd yd fd : Rat) :
    interp2TableGuard t xd yd fd = stop ↔ ¬ interp2TableMeaningful t := by
  unfold interp2TableGuard
  by_cases hall : (t.all (fun r => decide (r.length = 3))) = true
  · have hall' : ∀ r ∈ t, r.length = 3 := by simpa using hall
    simp only [hall, Bool.not_true, Bool.false_eq_true, if_false]
    by_cases hlen : (sortDedup (t.map (fun r => r.getD 0 0))).length * (sortDedup (t.map (fun r => r.getD 1 0))).length
        ≠ t.length
    · rw [if_pos hlen]
      simp only [true_iff]
      rintro ⟨_, xs, ys, hx, hy, ht⟩
      obtain ⟨ex, ey⟩ := sortDedup_of_grid hx hy ht
      apply hlen
      have hl := congrArg List.length ht
      rw [List.length_map] at hl
      rw [ex, ey, ← gridOf_length]
      exact hl.symm
    · rw [if_neg hlen]
      have hlen' := not_not.mp hlen
      have hg : (gridOf (sortDedup (t.map (fun r => r.getD 0 0))) (sortDedup (t.map (fun r => r.getD 1 0)))).length
          = t.length := by rw [gridOf_length]; exact hlen'
      have hz := zip_all_iff _ t hg
      by_cases hzip : (List.zip (gridOf (sortDedup (t.map (fun r => r.getD 0 0))) (sortDedup (t.map (fun r => r.getD 1 0)))) t).all
          (fun p => decide (p.1.1 = p.2.getD 0 0) && decide (p.1.2 = p.2.getD 1 0)) = true
      · rw [if_pos hzip, interp2Ctor_guard_iff]
        apply not_congr
        constructor
        · rintro ⟨_, _, hx, hy⟩
          exact ⟨hall', _, _, hx, hy, hz.mp hzip⟩
        · rintro ⟨_, xs, ys, hx, hy, ht⟩
          obtain ⟨ex, ey⟩ := sortDedup_of_grid hx hy ht
          rw [ex, ey]
          exact ⟨by simp, by simp, hx, hy⟩
      · rw [if_neg hzip]
        simp only [true_iff]
        rintro ⟨_, xs, ys, hx, hy, ht⟩
        obtain ⟨ex, ey⟩ := sortDedup_of_grid hx hy ht
        apply hzip
        rw [hz, ex, ey]; exact ht
  · have hall' : ¬ ∀ r ∈ t, r.length = 3 := by simpa using hall
    have : (!(t.all (fun r => decide (r.length = 3)))) = true := by simpa using hall
    rw [if_pos this]
    simp only [true_iff]
    exact fun h => hall' h.1

/-- the modelling assumption made explicit: the theorem uses of `std::sort` + `std::unique` only the SPEC
    "strictly increasing, same elements" — which determines the result uniquely — and `sortDedup` meets it -/
theorem interp2Table_sort_unique_spec (l : List Rat) :
    (sortDedup l).Pairwise (· < ·) ∧ (∀ a, a ∈ sortDedup l ↔ a ∈ l)
    ∧ ∀ xs : List Rat, xs.Pairwise (· < ·) → (∀ a, a ∈ xs ↔ a ∈ l) → xs = sortDedup l := sortDedup_spec l

/-- a complete 3 × 3 grid table is meaningful … -/
example : interp2TableMeaningful
    [[0, 0, 5], [0, 1, 5], [0, 2, 5], [1, 0, 5], [1, 1, 5], [1, 2, 5], [2, 0, 5], [2, 1, 5], [2, 2, 5]] := by
  refine ⟨by simp, [0, 1, 2], [0, 1, 2], ⟨by decide, by simp [List.pairwise_cons]⟩,
    ⟨by decide, by simp [List.pairwise_cons]⟩, by simp⟩

/-- … and the same rows with two of them exchanged are not (all rows have 3 entries, the columns have the
    right distinct values and the count is right — only the ORDER check rejects it) -/
example : interp2TableGuard
    [[0, 1, 5], [0, 0, 5], [0, 2, 5], [1, 0, 5], [1, 1, 5], [1, 2, 5], [2, 0, 5], [2, 1, 5], [2, 2, 5]] (-1) (-1) (-1)
      = stop := by
  rw [interp2Table_guard_iff_FULL]
  rintro ⟨_, xs, ys, hx, hy, ht⟩
  obtain ⟨ex, ey⟩ := sortDedup_of_grid hx hy ht
  have e0 : xs = [0, 1, 2] := by
    rw [← ex]; exact sortDedup_eq_of_spec (by simp [List.pairwise_cons]) (by intro a; simp)
  have e1 : ys = [0, 1, 2] := by
    rw [← ey]; exact sortDedup_eq_of_spec (by simp [List.pairwise_cons]) (by intro a; simp; tauto)
  subst e0; subst e1
  simp at ht

/-- proved part: a table with a row that does not have three entries is rejected -/
theorem interp2Table_guard_partial (t : List (List Rat)) (xd yd fd : Rat) (h : ∃ r ∈ t, r.length ≠ 3) :
    interp2TableGuard t xd yd fd = stop ∧ ¬ interp2TableMeaningful t := by
  obtain ⟨r, hr, hne⟩ := h
  constructor
  · unfold interp2TableGuard
    have : (t.all (fun r => decide (r.length = 3))) = false := by
      simp only [List.all_eq_false, decide_eq_true_eq]; exact ⟨r, hr, hne⟩
    simp [this]
  · rintro ⟨hall, _⟩; exact hne (hall r hr)

example : ∃ r ∈ [[(0 : Rat), 1, 2], [0, 1]], r.length ≠ 3 := ⟨[0, 1], by simp, by decide⟩

theorem matDims_guard_iff (r c : Int) : matDimsGuard r c = stop ↔ ¬ matDimsMeaningful r c := by
  unfold matDimsGuard matDimsMeaningful stop pass
  split <;> simp_all
  all_goals omega

theorem simplexDeltas_guard_iff (n m : Nat) : simplexDeltasGuard n m = stop ↔ ¬ simplexDeltasMeaningful n m := by
  unfold simplexDeltasGuard simplexDeltasMeaningful stop pass
  split <;> simp_all
  all_goals omega

theorem simplex_guard_iff (lens : List Nat) : simplexGuard lens = stop ↔ ¬ simplexMeaningful lens := by
  unfold simplexGuard simplexMeaningful
  cases lens with
  | nil => simp
  | cons l0 rest =>
    simp only [List.length_cons, List.mem_cons]
    by_cases h : rest.length + 1 < 2 ∨ rest.length + 1 ≠ l0 + 1
    · rw [if_pos h]; simp only [true_iff]
      rintro ⟨n, hn, hl, hall⟩
      have := hall l0 (Or.inl rfl); omega
    · rw [if_neg h]
      split
      · rename_i ha; simp only [List.all_eq_true, decide_eq_true_eq] at ha
        constructor
        · intro hh; simp [stop, pass] at hh
        · intro hn; exfalso; apply hn
          refine ⟨l0, by omega, by omega, ?_⟩
          rintro l (rfl | hl)
          · rfl
          · exact ha l hl
      · rename_i ha; simp only [List.all_eq_true, decide_eq_true_eq] at ha
        simp only [true_iff]
        rintro ⟨n, _, _, hall⟩
        exact ha (fun l hl => by rw [hall l (Or.inr hl), hall l0 (Or.inl rfl)])

theorem dataLength_guard_iff (need n : Nat) : dataLengthGuard need n = stop ↔ ¬ dataLengthMeaningful need n := by
  unfold dataLengthGuard dataLengthMeaningful stop pass
  split <;> simp_all

example : simplexMeaningful [2, 2, 2] ∧ simplexGuard [2, 2] = stop ∧ simplexGuard [] = stop ∧ simplexGuard [0] = stop ∧ simplexGuard [1, 1] = pass :=
  ⟨⟨2, by decide, by decide, by simp⟩, by decide, by decide, by decide, by decide⟩

/-! ## 4. Find_Root -/

theorem findRoot_guard_iff (fl fr : Option Rat) : findRootGuard fl fr = stop ↔ ¬ findRootMeaningful fl fr := by
  unfold findRootGuard findRootMeaningful
  cases fl with
  | none => simp
  | some a =>
    cases fr with
    | none => simp
    | some b =>
      simp only [Option.some.injEq, exists_and_left, exists_eq_left']
      by_cases ha : a = 0
      · simp [ha, stop, pass]
      · by_cases hb : b = 0
        · simp [ha, hb, stop, pass]
        · by_cases hs : Interp.sign1 a = Interp.sign1 b
          · rw [if_pos (Or.inr (Or.inr hs)), if_neg ha, if_neg hb]
            simp only [true_iff]
            unfold Interp.sign1 at hs
            rintro (h | h | ⟨h1, h2⟩ | ⟨h1, h2⟩)
            · exact ha h
            · exact hb h
            · rw [if_neg (by linarith), if_neg ha, if_pos h2] at hs; omega
            · rw [if_pos h1, if_neg (by linarith), if_neg hb] at hs; omega
          · rw [if_neg (by rintro (h | h | h); exacts [ha h, hb h, hs h])]
            constructor
            · intro hh; simp [stop, pass] at hh
            · intro hn
              exfalso; apply hn
              right; right
              unfold Interp.sign1 at hs
              rcases lt_trichotomy a 0 with ha' | ha' | ha'
              · left; refine ⟨ha', ?_⟩
                by_contra hb'; push Not at hb'
                have hb'' : b < 0 := lt_of_le_of_ne hb' hb
                apply hs
                rw [if_neg (by linarith), if_neg ha, if_neg (by linarith), if_neg hb]
              · exact absurd ha' ha
              · right; refine ⟨ha', ?_⟩
                by_contra hb'; push Not at hb'
                have hb'' : 0 < b := lt_of_le_of_ne hb' (Ne.symm hb)
                apply hs
                rw [if_pos ha', if_pos hb'']

/-- the bracket test does not look at the product of the end values: ends of opposite sign whose
    product underflows in double (2^-600, -2^-600) are a meaningful request (fix 8302e13) -/
example : findRootMeaningful (some ((1 : Rat) / 2 ^ 600)) (some (-((1 : Rat) / 2 ^ 600))) := by
  have h : (0 : Rat) < 1 / 2 ^ 600 := one_div_pos.mpr (pow_pos (by norm_num) 600)
  exact ⟨_, _, rfl, rfl, Or.inr (Or.inr (Or.inr ⟨h, neg_lt_zero.mpr h⟩))⟩

example : findRootMeaningful (some (-1)) (some 2) := ⟨-1, 2, rfl, rfl, Or.inr (Or.inr (Or.inl ⟨by norm_num, by norm_num⟩))⟩
example : findRootGuard none (some 1) = stop := rfl

/-! ## 5. Integration -/

/-- the 1-D dispatcher stops exactly on the unknown method names — also on a degenerate interval
    `a = b` (fix d39b5c1) -/
theorem integrate1_guard_iff (a b : Rat) (method : String) :
    integrate1Guard a b method = stop ↔ ¬ integrate1Meaningful method := by
  unfold integrate1Guard integrate1Meaningful methods1D
  simp only [List.mem_cons, List.not_mem_nil, or_false]
  split_ifs <;> simp_all [stop, pass]

example : integrate1Guard 1 1 "no-such-method" = stop := by decide
example : integrate1Guard 1 1 "Tanh-Sinh" = pass := by decide

theorem integrateND_guard_iff (method : String) :
    integrateNDGuard method = stop ↔ ¬ integrateNDMeaningful method := by
  unfold integrateNDGuard integrateNDMeaningful methods1D methodsMC
  simp only [List.cons_append, List.nil_append, List.mem_cons, List.not_mem_nil, or_false]
  split_ifs <;> simp_all [stop, pass]
  all_goals tauto

theorem integrateMC_guard_iff (method : String) :
    integrateMCGuard method = stop ↔ ¬ integrateMCMeaningful method := by
  unfold integrateMCGuard integrateMCMeaningful methodsMC
  simp only [List.mem_cons, List.not_mem_nil, or_false]
  split_ifs <;> simp_all [stop, pass]

example : integrate1Meaningful "Gauss-Kronrod" := by decide
example : integrateNDGuard "vegas" = stop := by decide
example : integrateMCMeaningful "Vegas" := by decide

theorem gaussLegendre_guard_iff (n m : Nat) : gaussLegendreGuard n m = stop ↔ ¬ gaussLegendreMeaningful n m := by
  unfold gaussLegendreGuard gaussLegendreMeaningful stop pass
  split <;> simp_all

theorem integrateMCShape_guard_iff (rs : Nat) (n : Int) (method : String) :
    integrateMCShapeGuard rs n method = stop ↔ ¬ integrateMCShapeMeaningful rs n method := by
  unfold integrateMCShapeGuard integrateMCShapeMeaningful
  by_cases h1 : rs = 0 ∨ rs % 2 ≠ 0
  · rw [if_pos h1]; simp only [true_iff]; rintro ⟨a, b, _⟩; rcases h1 with h1 | h1 <;> omega
  · rw [if_neg h1]
    by_cases h2 : n < 1 ∨ (method = "Vegas" ∧ n < 2)
    · rw [if_pos h2]; simp only [true_iff]; rintro ⟨_, _, c, d, _⟩
      rcases h2 with h2 | ⟨hm, h2⟩
      · omega
      · have := d hm; omega
    · rw [if_neg h2, integrateMC_guard_iff]
      push Not at h1 h2
      apply not_congr
      constructor
      · intro hm; exact ⟨h1.1, by omega, by omega, fun hv => by have := h2.2 hv; omega, hm⟩
      · intro hh; exact hh.2.2.2.2

theorem gaussLegendreRows_guard_iff (n : Nat) (lens : List Nat) :
    gaussLegendreRowsGuard n lens = stop ↔ ¬ gaussLegendreRowsMeaningful n lens := by
  unfold gaussLegendreRowsGuard gaussLegendreRowsMeaningful
  by_cases h : n ≠ lens.length
  · rw [if_pos h]; simp only [true_iff]; exact fun hh => h hh.1
  · rw [if_neg h]; push Not at h
    split
    · rename_i ha; simp only [List.all_eq_true, decide_eq_true_eq] at ha
      constructor
      · intro hh; simp [stop, pass] at hh
      · intro hn; exact absurd ⟨h, ha⟩ hn
    · rename_i ha; simp only [List.all_eq_true, decide_eq_true_eq] at ha
      simp only [true_iff]; exact fun hh => ha hh.2

theorem gaussLegendreFunc_guard_iff (lens : List Nat) :
    gaussLegendreFuncGuard lens = stop ↔ ¬ gaussLegendreFuncMeaningful lens := by
  unfold gaussLegendreFuncGuard gaussLegendreFuncMeaningful
  split
  · rename_i ha; simp only [List.all_eq_true, decide_eq_true_eq] at ha
    constructor
    · intro hh; simp [stop, pass] at hh
    · intro hn; exact absurd ha hn
  · rename_i ha; simp only [List.all_eq_true, decide_eq_true_eq] at ha
    simp only [true_iff]; exact fun hh => ha hh

theorem gaussLegendre_ok_in_bounds (fv : List Rat) (rw : List (List Rat)) (hrw : ∀ r ∈ rw, r.length = 2)
    (h : gaussLegendreMeaningful fv.length rw.length) : NoOOB (gaussLegendreReads fv rw) := by
  intro o ho
  simp only [gaussLegendreReads, List.mem_flatMap, List.mem_range] at ho
  obtain ⟨i, hi, ho⟩ := ho
  simp only [List.mem_cons, List.not_mem_nil, or_false] at ho
  rcases ho with rfl | rfl
  · simp [hi]
  · have hi' : i < rw.length := by rw [← h]; exact hi
    have := hrw _ (List.getElem_mem hi')
    rw [List.getElem?_eq_getElem hi']
    simp [this]

/-! ## 6. Special functions -/

theorem factorial_guard_iff (n : Nat) : factorialGuard n = stop ↔ ¬ factorialMeaningful n := by
  unfold factorialGuard factorialMeaningful stop pass
  split <;> simp_all

example : factorialMeaningful 170 ∧ factorialGuard 171 = stop := by decide

/-- a `Factorial` call beyond 170 terminates WHATEVER the earlier calls of the process were (any table size) -/
theorem factorialHist_guard_iff (ns : List Nat) :
    ∀ size : Nat, factorialHistGuard size ns = stop ↔ ¬ factorialHistMeaningful ns := by
  induction ns with
  | nil => intro size; simp [factorialHistGuard, stop, pass]
  | cons n ns ih =>
    intro size
    unfold factorialHistGuard factorialStep
    by_cases h : n > 170
    · rw [if_pos h]; simp only [true_iff]
      intro hh; have := hh n (List.mem_cons_self); omega
    · rw [if_neg h]; simp only []
      rw [ih]
      simp only [factorialHistMeaningful, List.mem_cons, forall_eq_or_imp]
      have : n ≤ 170 := by omega
      simp [this]

/-- the memo table never grows beyond 171 entries (0! … 170!): no overflowed value is ever tabulated -/
theorem factorialStep_table_bounded (size n size' : Nat) (hs : size ≤ 171) (h : factorialStep size n = .ok size') :
    size' ≤ 171 := by
  unfold factorialStep at h
  split at h
  · simp at h
  · simp only [Except.ok.injEq] at h
    subst h
    split <;> omega

/-- a sequence of guarded calls in one process stops iff one of the calls stops -/
theorem seqGuard_iff (gs : List G) : seqGuard gs = stop ↔ ∃ g ∈ gs, g = stop := by
  induction gs with
  | nil => simp [seqGuard, stop, pass]
  | cons g gs ih =>
    unfold seqGuard
    cases g with
    | error e => cases e; simp [stop]
    | ok u => simp only []; rw [ih]; simp [stop]

example : factorialHistGuard 1 [165, 171] = stop ∧ factorialHistGuard 1 [165, 170] = pass := by decide

theorem binomial_guard_iff (n k : Int) : binomialGuard n k = stop ↔ ¬ binomialMeaningful n k := by
  unfold binomialGuard binomialMeaningful stop pass
  split <;> simp_all
  all_goals omega

theorem gammaLn_guard_iff (x : Rat) : gammaLnGuard x = stop ↔ ¬ gammaLnMeaningful x := by
  unfold gammaLnGuard gammaLnMeaningful stop pass
  split <;> simp_all

theorem gammaQ_guard_iff (x a : Rat) : gammaQGuard x a = stop ↔ ¬ gammaQMeaningful x a := by
  unfold gammaQGuard gammaQMeaningful stop pass
  split
  · rename_i h; simp only [true_iff]; rintro ⟨h1, h2⟩; rcases h with h | h <;> linarith
  · rename_i h; push Not at h; simp only [reduceCtorEq, false_iff, not_not]; exact ⟨h.1, h.2⟩

theorem invGammaP_guard_iff (a : Rat) : invGammaPGuard a = stop ↔ ¬ invGammaPMeaningful a := by
  unfold invGammaPGuard invGammaPMeaningful stop pass
  split <;> simp_all

/-- `Round` stops exactly when more than seven digits are requested — also for `N = 0` (fix 710b478) -/
theorem round_guard_iff (N : Rat) (digits : Nat) : roundGuard N digits = stop ↔ ¬ roundMeaningful digits := by
  unfold roundGuard roundMeaningful stop pass
  split_ifs <;> simp_all
  all_goals omega

example : roundGuard 0 8 = stop ∧ roundGuard 0 7 = pass ∧ roundGuard 1 0 = stop := by decide

theorem vsh_guard_iff (component : Int) : vshGuard component = stop ↔ ¬ vshMeaningful component := by
  unfold vshGuard vshMeaningful stop pass
  split_ifs <;> simp_all

theorem invErf_guard_iff (p : Rat) : invErfGuard p = stop ↔ ¬ invErfMeaningful p := by
  have he : (0 : Rat) < invErfEps := by unfold invErfEps; norm_num
  have he1 : invErfEps < 1 := by unfold invErfEps; norm_num
  unfold invErfGuard invErfMeaningful
  by_cases h1 : rabs (p - 1) < invErfEps
  · rw [if_pos h1]
    constructor
    · intro hh; simp [stop, pass] at hh
    · intro hn; exfalso; apply hn
      unfold rabs at h1
      split at h1 <;> constructor <;> linarith
  · rw [if_neg h1]
    by_cases h1' : rabs (p + 1) < invErfEps
    · rw [if_pos h1']
      constructor
      · intro hh; simp [stop, pass] at hh
      · intro hn; exfalso; apply hn
        unfold rabs at h1'
        split at h1' <;> constructor <;> linarith
    · rw [if_neg h1']
      by_cases h2 : rabs p ≥ 1
      · rw [if_pos h2]
        simp only [true_iff]
        rintro ⟨ha, hb⟩
        unfold rabs at h1 h1' h2
        split at h2
        · split at h1' <;> linarith
        · split at h1 <;> linarith
      · rw [if_neg h2]
        constructor
        · intro hh; simp [stop, pass] at hh
        · intro hn; exfalso; apply hn
          unfold rabs at h2
          split at h2 <;> constructor <;> linarith

example : invErfMeaningful (1/2) ∧ invErfMeaningful 1 ∧ invErfMeaningful (-1) ∧ ¬ invErfMeaningful (-2) := by
  unfold invErfMeaningful invErfEps; norm_num

/-! ## 7. Statistics -/

theorem probability_guard_iff (p : Rat) : probabilityGuard p = stop ↔ ¬ probabilityMeaningful p := by
  unfold probabilityGuard probabilityMeaningful stop pass
  split
  · rename_i h; simp only [true_iff]; rintro ⟨h1, h2⟩; rcases h with h | h <;> linarith
  · rename_i h; push Not at h; simp only [reduceCtorEq, false_iff, not_not]; exact ⟨h.1, h.2⟩

theorem poissonMean_guard_iff (mu : Rat) : poissonMeanGuard mu = stop ↔ ¬ poissonMeanMeaningful mu := by
  unfold poissonMeanGuard poissonMeanMeaningful stop pass
  split <;> simp_all

theorem positive_guard_iff (a : Rat) : positiveGuard a = stop ↔ ¬ positiveMeaningful a := by
  unfold positiveGuard positiveMeaningful stop pass
  split <;> simp_all

theorem chiBar_guard_iff (ws : List Rat) : chiBarGuard ws = stop ↔ ¬ chiBarMeaningful ws := by
  unfold chiBarGuard chiBarMeaningful
  split
  · rename_i h; simp only [List.all_eq_true, Bool.and_eq_true, decide_eq_true_eq] at h
    constructor
    · intro hh; simp [stop, pass] at hh
    · intro hn; exact absurd h hn
  · rename_i h; simp only [List.all_eq_true, Bool.and_eq_true, decide_eq_true_eq] at h
    simp only [true_iff]; exact fun hh => h hh

theorem importTableFill_guard_iff (entries rows nd : Nat) :
    importTableFillGuard entries rows nd = stop ↔ ¬ importTableFillMeaningful entries rows nd := by
  unfold importTableFillGuard importTableFillMeaningful
  by_cases h0 : rows = 0
  · simp [h0, stop, pass]
  · rw [if_neg h0]
    have hd : entries = rows * (entries / rows) ↔ entries % rows = 0 := by
      constructor
      · intro h; rw [h]; simp [Nat.mul_mod_right]
      · intro h; have := Nat.div_add_mod entries rows; omega
    by_cases h1 : entries ≠ rows * (entries / rows)
    · rw [if_pos h1]; simp only [true_iff]
      rintro (h | ⟨h, _⟩)
      · exact h0 h
      · exact h1 (hd.mpr h)
    · rw [if_neg h1]; push Not at h1
      have hm := hd.mp h1
      split
      · rename_i h2; simp only [true_iff]
        rintro (h | ⟨_, h | h⟩) <;> omega
      · rename_i h2
        constructor
        · intro hh; simp [stop, pass] at hh
        · intro hn; exfalso; apply hn; right; exact ⟨hm, by omega⟩

theorem binned_guard_iff (nPred nObs nBkg : Nat) :
    binnedGuard nPred nObs nBkg = stop ↔ ¬ binnedMeaningful nPred nObs nBkg := by
  unfold binnedGuard binnedMeaningful stop pass
  simp only []
  split_ifs <;> simp_all
  all_goals omega

theorem binned_ok_in_bounds (pred obs bkg : List Rat) (h : binnedMeaningful pred.length obs.length bkg.length) :
    NoOOB (binnedReads pred obs bkg) := by
  obtain ⟨h1, h2⟩ := h
  intro o ho
  simp only [binnedReads, List.mem_flatMap, List.mem_range] at ho
  obtain ⟨i, hi, ho⟩ := ho
  simp only [List.mem_cons, List.not_mem_nil, or_false] at ho
  rcases ho with rfl | rfl | rfl
  · simp [hi]
  · simp [h1, hi]
  · split
    · simp [hi]
    · rename_i hne
      have : bkg.length = pred.length := by omega
      simp [this, hi]

theorem metropolis_guard_iff (k n : Nat) : metropolisGuard k n = stop ↔ ¬ metropolisMeaningful k n := by
  unfold metropolisGuard metropolisMeaningful stop pass
  split_ifs <;> simp_all

theorem metropolis_ok_in_bounds (k : Nat) (domain : List Rat) (h : metropolisMeaningful k domain.length) :
    NoOOB (metropolisReads k domain) := by
  intro o ho
  unfold metropolisReads at ho
  split at ho
  · simp at ho
  · rename_i hne
    simp only [List.mem_map, List.mem_range] at ho
    obtain ⟨i, hi, rfl⟩ := ho
    have : domain.length = k := h.resolve_left hne
    simp [this, hi]

theorem interval_guard_iff (a b : Rat) : intervalGuard a b = stop ↔ ¬ intervalMeaningful a b := by
  unfold intervalGuard intervalMeaningful stop pass
  split <;> simp_all

theorem weakInterval_guard_iff (a b : Rat) : weakIntervalGuard a b = stop ↔ ¬ weakIntervalMeaningful a b := by
  unfold weakIntervalGuard weakIntervalMeaningful stop pass
  split <;> simp_all

theorem quantileGauss_guard_iff (p sigma : Rat) :
    quantileGaussGuard p sigma = stop ↔ ¬ quantileGaussMeaningful p sigma := by
  unfold quantileGaussGuard quantileGaussMeaningful
  by_cases h : sigma < 0
  · rw [if_pos h]; simp only [true_iff]; intro hh; linarith [hh.1]
  · rw [if_neg h, invErf_guard_iff]
    push Not at h
    simp [h]

theorem gauss2D_guard_iff (sx sy : Rat) : gauss2DGuard sx sy = stop ↔ ¬ gauss2DMeaningful sx sy := by
  unfold gauss2DGuard gauss2DMeaningful stop pass
  split
  · rename_i h; simp only [true_iff]; rintro ⟨h1, h2⟩; rcases h with h | h <;> linarith
  · rename_i h; push Not at h; simp only [reduceCtorEq, false_iff, not_not]; exact ⟨h.1, h.2⟩

theorem likelihoodPoisson_guard_iff (pred bkg : Rat) :
    likelihoodPoissonGuard pred bkg = stop ↔ ¬ likelihoodPoissonMeaningful pred bkg := by
  unfold likelihoodPoissonGuard likelihoodPoissonMeaningful stop pass
  split
  · rename_i h; simp only [true_iff]; rintro ⟨h1, h2⟩; rcases h with h | h <;> linarith
  · rename_i h; push Not at h; simp only [reduceCtorEq, false_iff, not_not]; exact ⟨h.1, h.2⟩

theorem incompleteGamma_guard_iff (x s : Rat) : incompleteGammaGuard x s = stop ↔ ¬ incompleteGammaMeaningful x s := by
  unfold incompleteGammaGuard incompleteGammaMeaningful stop pass
  split
  · rename_i h; simp only [true_iff]; rintro ⟨_, h2⟩; linarith
  · split
    · rename_i h1 h; simp only [true_iff]; rintro ⟨h2, h3⟩; rcases h with h | h <;> linarith
    · rename_i h1 h; push Not at h h1; simp only [reduceCtorEq, false_iff, not_not]; exact ⟨h.1, h1⟩

theorem invGammaPFull_guard_iff (p a : Rat) : invGammaPFullGuard p a = stop ↔ ¬ invGammaPFullMeaningful p a := by
  unfold invGammaPFullGuard invGammaPFullMeaningful stop pass
  split
  · rename_i h; simp only [true_iff]; rintro ⟨h1, _⟩; linarith
  · split
    · rename_i h1 h; simp only [true_iff]; rintro ⟨_, h2, h3⟩; rcases h with h | h <;> linarith
    · rename_i h1 h; push Not at h h1; simp only [reduceCtorEq, false_iff, not_not]; exact ⟨h1, h.1, h.2⟩

/-! ## 8. List helpers, utilities, units -/

theorem blockLayout_guard_iff (lens : List Nat) : blockLayoutGuard lens = stop ↔ ¬ blockLayoutMeaningful lens := by
  unfold blockLayoutGuard blockLayoutMeaningful
  cases lens with
  | nil => simp
  | cons l0 rest =>
    simp only []
    by_cases h0 : l0 = 0
    · rw [if_pos h0]; simp only [true_iff]
      rintro ⟨c, hc, _, hall⟩
      have := hall l0 (List.mem_cons_self); omega
    · rw [if_neg h0]
      split
      · rename_i h
        simp only [List.all_eq_true, decide_eq_true_eq] at h
        constructor
        · intro hh; simp [stop, pass] at hh
        · intro hn; exfalso; apply hn
          refine ⟨l0, by omega, by simp, ?_⟩
          intro l hl
          rcases List.mem_cons.mp hl with rfl | hl
          · rfl
          · exact h l hl
      · rename_i h
        simp only [List.all_eq_true, decide_eq_true_eq] at h
        simp only [true_iff]
        rintro ⟨c, _, _, hall⟩
        apply h
        intro l hl
        rw [hall l (List.mem_cons_of_mem _ hl), hall l0 (List.mem_cons_self)]

example : blockLayoutMeaningful [2, 2] ∧ blockLayoutGuard [2, 1] = stop ∧ blockLayoutGuard [] = stop ∧ blockLayoutGuard [1, 0] = stop :=
  ⟨⟨2, by decide, by simp, by simp⟩, by decide, by decide, by decide⟩



theorem transpose_guard_iff (l0 : Nat) (rest : List Nat) :
    transposeGuard l0 rest = stop ↔ ¬ transposeMeaningful l0 rest := by
  unfold transposeGuard transposeMeaningful stop pass
  split
  · rename_i h; simp only [List.all_eq_true, decide_eq_true_eq] at h
    simp only [reduceCtorEq, false_iff, not_not]; exact h
  · rename_i h; simp only [List.all_eq_true, decide_eq_true_eq] at h
    simp only [true_iff]; exact h

theorem transpose_ok_in_bounds (l0 : List Rat) (rest : List (List Rat))
    (h : transposeMeaningful l0.length (rest.map List.length)) : NoOOB (transposeReads (l0 :: rest)) := by
  intro o ho
  simp only [transposeReads, List.headD_cons, List.mem_flatMap, List.mem_range, List.mem_map] at ho
  obtain ⟨i, hi, j, hj, rfl⟩ := ho
  rw [List.getElem?_eq_getElem hi]
  have hlen : ((l0 :: rest)[i]).length = l0.length := by
    have hm := List.getElem_mem hi
    rcases List.mem_cons.mp hm with he | he
    · rw [he]
    · exact h _ (List.mem_map.mpr ⟨_, he, rfl⟩)
  simp [hlen, hj]

theorem closest_guard_iff (l : List Rat) : closestGuard l = stop ↔ ¬ closestMeaningful l := by
  unfold closestGuard closestMeaningful
  rw [← isSorted_iff]
  split <;> simp_all [stop, pass]

theorem closest_ok_in_bounds (l : List Rat) (idx : Nat) (h : idx ≤ l.length) : NoOOB (closestReads l idx) := by
  intro o ho
  unfold closestReads at ho
  split at ho
  · simp at ho
  · rename_i hne
    simp only [List.mem_cons, List.not_mem_nil, or_false] at ho
    have h1 : idx - 1 < l.length := by omega
    have h2 : idx < l.length := by omega
    rcases ho with rfl | rfl
    · simp [h1]
    · simp [h2]

theorem inUnits_ok_in_bounds (q : List (List Rat)) (dims : List Rat)
    (h : inUnitsMeaningful (q.map List.length) dims.length) : NoOOB (inUnitsReads q dims) := by
  intro o ho
  simp only [inUnitsReads, List.mem_flatMap, List.mem_range] at ho
  obtain ⟨i, hi, j, hj, ho⟩ := ho
  have hq : q.getD i [] = q[i] := by simp [List.getD, List.getElem?_eq_getElem hi]
  rw [hq] at hj
  have hlen : (q[i]).length = dims.length := h _ (List.mem_map.mpr ⟨_, List.getElem_mem hi, rfl⟩)
  simp only [List.mem_cons, List.not_mem_nil, or_false] at ho
  rcases ho with rfl | rfl
  · rw [List.getElem?_eq_getElem hi]; simp [hj]
  · have : j < dims.length := by omega
    simp [this]

/-- `Sub_List` never stops and never reads outside the source list, for EVERY index pair (fix 7658ded) -/
theorem subList_guard_never_stops (n : Nat) (i1 : Int) (i2 : Nat) : subListGuard n i1 i2 = pass := rfl

theorem subList_ok_in_bounds (v : List Rat) (i1 : Int) (i2 : Nat) : NoOOB (subListReads v i1 i2) := by
  intro o ho
  unfold subListReads at ho
  simp only [] at ho
  by_cases hv : v.length = 0
  · rw [if_pos hv] at ho; simp at ho
  · rw [if_neg hv] at ho
    by_cases hab : (if i1 < 0 then 0 else i1.toNat) > (if i2 ≥ v.length then v.length - 1 else i2)
    · rw [if_pos hab] at ho; simp at ho
    · rw [if_neg hab] at ho
      simp only [List.mem_map, List.mem_range] at ho
      obtain ⟨k, hk, rfl⟩ := ho
      have : (if i1 < 0 then 0 else i1.toNat) + k < v.length := by
        have hb : (if i2 ≥ v.length then v.length - 1 else i2) ≤ v.length - 1 := by split <;> omega
        generalize (if i2 ≥ v.length then v.length - 1 else i2) = b at *
        generalize (if i1 < 0 then 0 else i1.toNat) = a at *
        omega
      simp [this]

theorem inUnits_guard_iff (lens : List Nat) (nd : Nat) : inUnitsGuard lens nd = stop ↔ ¬ inUnitsMeaningful lens nd := by
  unfold inUnitsGuard inUnitsMeaningful stop pass
  split
  · rename_i h; simp only [List.all_eq_true, decide_eq_true_eq] at h
    simp only [reduceCtorEq, false_iff, not_not]; exact h
  · rename_i h; simp only [List.all_eq_true, decide_eq_true_eq] at h
    simp only [true_iff]; exact h

theorem exportTable_guard_iff (lens : List Nat) (nd : Nat) :
    exportTableGuard lens nd = stop ↔ ¬ exportTableMeaningful lens nd := by
  unfold exportTableGuard exportTableMeaningful stop pass
  by_cases h0 : nd = 0
  · simp [h0]
  · simp only [h0, decide_false, Bool.false_or, false_or]
    split
    · rename_i h; simp only [List.all_eq_true, decide_eq_true_eq] at h
      simp only [reduceCtorEq, false_iff, not_not]; exact fun l hl => (h l hl).symm
    · rename_i h; simp only [List.all_eq_true, decide_eq_true_eq] at h
      simp only [true_iff]; exact fun hh => h (fun l hl => (hh l hl).symm)

theorem importList_guard_iff (e : Bool) : importListGuard e = stop ↔ ¬ importListMeaningful e := by
  unfold importListGuard importListMeaningful stop pass
  cases e <;> simp

theorem importTable_guard_iff (e : Bool) (cols nd : Nat) :
    importTableGuard e cols nd = stop ↔ ¬ importTableMeaningful e cols nd := by
  unfold importTableGuard importTableMeaningful stop pass
  cases e
  · simp
  · simp only [if_true, true_and]
    split <;> simp_all
    omega

theorem checkForError_guard_iff (c : Bool) : checkForErrorGuard c = stop ↔ ¬ checkForErrorMeaningful c := by
  unfold checkForErrorGuard checkForErrorMeaningful stop pass
  cases c <;> simp

theorem transposeAll_guard_iff (lens : List Nat) : transposeAllGuard lens = stop ↔ ¬ transposeAllMeaningful lens := by
  unfold transposeAllGuard transposeAllMeaningful
  cases lens with
  | nil => simp [stop, pass]
  | cons l0 rest =>
    simp only []
    rw [transpose_guard_iff]
    unfold transposeMeaningful
    apply not_congr
    constructor
    · intro h a ha b hb
      have e1 : a = l0 := by rcases List.mem_cons.mp ha with rfl | ha; · rfl
                             · exact h a ha
      have e2 : b = l0 := by rcases List.mem_cons.mp hb with rfl | hb; · rfl
                             · exact h b hb
      omega
    · intro h l hl; exact h l (List.mem_cons_of_mem _ hl) l0 (List.mem_cons_self)

theorem closestAll_guard_iff (l : List Rat) : closestAllGuard l = stop ↔ ¬ closestAllMeaningful l := by
  unfold closestAllGuard closestAllMeaningful
  by_cases h : l.length = 0
  · rw [if_pos h]; simp only [true_iff]; rintro ⟨hne, _⟩; exact hne (List.length_eq_zero_iff.mp h)
  · rw [if_neg h, closest_guard_iff]
    have : l ≠ [] := fun e => h (by rw [e]; rfl)
    unfold closestMeaningful
    simp [this]

theorem importTableRows_guard_iff (e : Bool) (rows cols nd : Nat) :
    importTableRowsGuard e rows cols nd = stop ↔ ¬ importTableRowsMeaningful e rows cols nd := by
  unfold importTableRowsGuard importTableRowsMeaningful stop pass
  cases e
  · simp
  · simp only [if_true, true_and]
    split_ifs <;> simp_all
    all_goals omega

end Lp.C10
