/-
  Helper lemmas for C04/C05: tabulated matrices, the bridge `toM` to Mathlib's `Matrix`,
  `sumRange` as a `Finset` sum.
-/
import LpModel.C04
import Mathlib.Data.Matrix.Mul
import Mathlib.Data.Matrix.Block
import Mathlib.Algebra.BigOperators.Fin
import Mathlib.Tactic.Ring
import Mathlib.Tactic.Linarith

namespace Lp.C04
open Mat

/-- the matrix denoted by `A`, read at shape `m × n` (use `m = A.rows`, `n = A.cols`) -/
def toM (A : Mat) (m n : ℕ) : Matrix (Fin m) (Fin n) ℚ := Matrix.of fun i j => A.get i j

/-- the vector denoted by `v`, read at length `n` -/
def toV (v : Vec) (n : ℕ) : Fin n → ℚ := fun i => v.getD i 0

@[simp] theorem toM_apply (A : Mat) (m n : ℕ) (i : Fin m) (j : Fin n) : toM A m n i j = A.get i j := rfl
@[simp] theorem toV_apply (v : Vec) (n : ℕ) (i : Fin n) : toV v n i = v.getD i 0 := rfl

@[simp] theorem rows_ofFn (m n f) : (ofFn m n f).rows = m := rfl
@[simp] theorem cols_ofFn (m n f) : (ofFn m n f).cols = n := rfl

theorem wellShaped_ofFn (m n f) : (ofFn m n f).WellShaped := by
  constructor
  · simp [ofFn]
  · intro r hr
    simp only [ofFn, List.mem_map] at hr
    obtain ⟨i, -, rfl⟩ := hr
    simp

theorem get_ofFn {m n : ℕ} (f : ℕ → ℕ → ℚ) {i j : ℕ} (hi : i < m) (hj : j < n) :
    (ofFn m n f).get i j = f i j := by
  simp [Mat.get, Mat.row, ofFn, List.getD_eq_getElem?_getD, hi, hj]

theorem get_ofFn_of_not {m n : ℕ} (f : ℕ → ℕ → ℚ) {i j : ℕ} (h : ¬ (i < m ∧ j < n)) :
    (ofFn m n f).get i j = 0 := by
  simp only [Mat.get, Mat.row, ofFn, List.getD_eq_getElem?_getD]
  by_cases hi : i < m
  · have hj : ¬ j < n := fun hj => h ⟨hi, hj⟩
    simp [hi, hj]
  · simp [hi]

theorem ofFnE_eq {m n : ℕ} (f) (h : m ≠ 0) : ofFnE m n f = ofFn m n f := by simp [ofFnE, h]

theorem wellShaped_ofFnE (m n f) : (ofFnE m n f).WellShaped := wellShaped_ofFn _ _ _

@[simp] theorem rows_ofFnE (m n f) : (ofFnE m n f).rows = m := rfl

theorem get_ofFnE {m n : ℕ} (f : ℕ → ℕ → ℚ) {i j : ℕ} (hi : i < m) (hj : j < n) :
    (ofFnE m n f).get i j = f i j := by
  have : m ≠ 0 := by omega
  rw [ofFnE_eq f this, get_ofFn f hi hj]

theorem vtab_length (n f) : (vtab n f).length = n := by simp [vtab]

theorem vtab_getD {n : ℕ} (f : ℕ → ℚ) {i : ℕ} (hi : i < n) : (vtab n f).getD i 0 = f i := by
  simp [vtab, List.getD_eq_getElem?_getD, hi]

/-! ### `sumRange` is the finite sum -/

theorem sumRange_succ (n : ℕ) (t : ℕ → ℚ) : sumRange (n + 1) t = sumRange n t + t n := by
  simp [sumRange, List.range_succ, List.foldl_append]

theorem sumRange_eq_sum (n : ℕ) (t : ℕ → ℚ) : sumRange n t = ∑ k : Fin n, t k := by
  induction n with
  | zero => simp [sumRange]
  | succ n ih => rw [sumRange_succ, ih, Fin.sum_univ_castSucc]; simp

/-- well-shaped matrices are determined by their shape and entries -/
theorem ext_of_get {A B : Mat} (hA : A.WellShaped) (hB : B.WellShaped) (hr : A.rows = B.rows)
    (hc : A.cols = B.cols) (h : ∀ i j, i < A.rows → j < A.cols → A.get i j = B.get i j) : A = B := by
  obtain ⟨ar, ac, ad⟩ := A
  obtain ⟨br, bc, bd⟩ := B
  simp only at hr hc
  subst hr hc
  obtain ⟨hA1, hA2⟩ := hA
  obtain ⟨hB1, hB2⟩ := hB
  simp only at hA1 hA2 hB1 hB2
  congr 1
  apply List.ext_getElem (by omega)
  intro i h1 h2
  have hi : i < ar := by omega
  apply List.ext_getElem
  · rw [hA2 _ (List.getElem_mem h1), hB2 _ (List.getElem_mem h2)]
  intro j h3 h4
  have hj : j < ac := by rw [hA2 _ (List.getElem_mem h1)] at h3; exact h3
  have := h i j hi hj
  simp only [Mat.get, Mat.row, List.getD_eq_getElem?_getD] at this
  simpa [h1, h2, h3, h4] using this

/-! ### erased rows / columns, the upper-triangle loop -/

theorem getD_eraseIdx {α} (l : List α) (r i : ℕ) (d : α) :
    (l.eraseIdx r).getD i d = l.getD (if i < r then i else i + 1) d := by
  simp only [List.getD_eq_getElem?_getD, List.getElem?_eraseIdx]
  split <;> rfl

theorem get_subMatrixN (A : Mat) (r c i j : ℕ) :
    (subMatrixN A r c).get i j = A.get (if i < r then i else i + 1) (if j < c then j else j + 1) := by
  simp only [Mat.get, Mat.row, subMatrixN]
  rw [← getD_eraseIdx (A.data.getD (if i < r then i else i + 1) []) c j 0, ← getD_eraseIdx A.data r i []]
  simp only [List.getD_eq_getElem?_getD, List.getElem?_map]
  cases h : (A.data.eraseIdx r)[i]? <;> simp

theorem wellShaped_subMatrixN {A : Mat} (hA : A.WellShaped) {r c : ℕ} (hr : r < A.rows) (hc : c < A.cols) :
    (subMatrixN A r c).WellShaped := by
  obtain ⟨h1, h2⟩ := hA
  constructor
  · simp [subMatrixN, List.length_eraseIdx, h1, hr]
  · intro row hrow
    simp only [subMatrixN, List.mem_map] at hrow
    obtain ⟨x, hx, rfl⟩ := hrow
    have := h2 x (List.mem_of_mem_eraseIdx hx)
    simp [List.length_eraseIdx, this, hc, subMatrixN]

theorem toU32_neg {r : ℤ} (h : r < 0) (h' : -2147483648 ≤ r) : toU32 r ≥ 2147483648 := by
  unfold toU32; omega

theorem upperAll_iff (A : Mat) (p : ℕ → ℕ → Bool) :
    upperAll A p = true ↔ ∀ i j, i < A.rows → i ≤ j → j < A.cols → p i j = true := by
  simp only [upperAll, List.all_eq_true, List.mem_range]
  constructor
  · intro h i j hi hij hj
    have := h i hi (j - i) (by omega)
    rwa [Nat.add_sub_cancel' hij] at this
  · intro h i hi d hd
    exact h i (i + d) hi (by omega) (by omega)

/-! ### block offsets -/

/-- offset of block `b`: `std::accumulate(sizes.begin(), sizes.begin() + b, 0)` -/
def offset (sizes : List ℕ) (b : ℕ) : ℕ := listSum (sizes.take b)

theorem listSum_eq_sum (l : List ℕ) : listSum l = l.sum := by
  unfold listSum
  have : ∀ (a : ℕ) (l : List ℕ), l.foldl (· + ·) a = a + l.sum := by
    intro a l; induction l generalizing a with
    | nil => simp
    | cons x l ih => simp [ih, Nat.add_assoc]
  simpa using this 0 l

theorem locate_offset : ∀ (sizes : List ℕ) (b i : ℕ), b < sizes.length → i < sizes.getD b 0 →
    locate sizes (offset sizes b + i) = (b, i) ∧ offset sizes b + i < listSum sizes := by
  intro sizes
  induction sizes with
  | nil => intro b i hb; simp at hb
  | cons s r ih =>
    intro b i hb hi
    cases b with
    | zero =>
      simp only [List.getD_cons_zero] at hi
      simp [offset, listSum_eq_sum, locate, hi]
      omega
    | succ b =>
      simp only [List.length_cons, Nat.add_lt_add_iff_right] at hb
      simp only [List.getD_cons_succ] at hi
      obtain ⟨h1, h2⟩ := ih b i hb hi
      have e : offset (s :: r) (b + 1) = s + offset r b := by
        simp [offset, listSum_eq_sum]
      have h3 : ¬ (s + offset r b + i < s) := by omega
      constructor
      · rw [e]
        simp only [locate, h3, if_false]
        rw [show s + offset r b + i - s = offset r b + i by omega, h1]
      · rw [e]; simp only [listSum_eq_sum, List.sum_cons] at h2 ⊢; omega

end Lp.C04
