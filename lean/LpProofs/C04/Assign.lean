/-
  Helper lemmas for C04: the in-place loops of `operator+=` / `operator-=` (vectors and matrices)
  compute the same entries as the tabulating loops of the binary operators.
-/
import LpProofs.C04.Basic

namespace Lp.C04
open Mat

theorem getD_set_list {α} (l : List α) (i j : ℕ) (a d : α) :
    (l.set i a).getD j d = if i = j ∧ i < l.length then a else l.getD j d := by
  simp only [List.getD_eq_getElem?_getD, List.getElem?_set]
  by_cases h : i = j
  · subst h
    by_cases h2 : i < l.length
    · simp [h2]
    · simp [h2]
  · simp [h]

/-- the row loop `w[j] = op w[j] b[j]` for `j < k` -/
def rowUpd (op : ℚ → ℚ → ℚ) (b : ℕ → ℚ) (k : ℕ) (w : List ℚ) : List ℚ :=
  (List.range k).foldl (fun w j => w.set j (op (w.getD j 0) (b j))) w

theorem rowUpd_succ (op b k w) :
    rowUpd op b (k + 1) w = (rowUpd op b k w).set k (op ((rowUpd op b k w).getD k 0) (b k)) := by
  simp [rowUpd, List.range_succ, List.foldl_append]

theorem rowUpd_spec (op : ℚ → ℚ → ℚ) (b : ℕ → ℚ) (w : List ℚ) : ∀ k, k ≤ w.length →
    (rowUpd op b k w).length = w.length ∧
    ∀ j, (rowUpd op b k w).getD j 0 = if j < k then op (w.getD j 0) (b j) else w.getD j 0 := by
  intro k
  induction k with
  | zero => intro _; simp [rowUpd]
  | succ k ih =>
    intro hk
    obtain ⟨hl, hg⟩ := ih (by omega)
    rw [rowUpd_succ]
    refine ⟨by simp [hl], fun j => ?_⟩
    rw [getD_set_list, hl, hg k]
    by_cases e : k = j
    · subst e
      have : k < w.length := by omega
      simp [this]
    · have : ¬ (k = j ∧ k < w.length) := fun h => e h.1
      rw [if_neg this, hg j]
      by_cases h1 : j < k
      · have : j < k + 1 := by omega
        simp [h1, this]
      · have : ¬ j < k + 1 := by omega
        simp [h1, this]

theorem vUpdLoop_eq (op : ℚ → ℚ → ℚ) (u v : Vec) :
    vUpdLoop op u v = vtab u.length (fun i => op (u.getD i 0) (v.getD i 0)) := by
  have h := rowUpd_spec op (fun i => v.getD i 0) u u.length (le_refl _)
  show rowUpd op (fun i => v.getD i 0) u.length u = _
  apply List.ext_getElem
  · rw [h.1, vtab_length]
  · intro i h1 h2
    have hi : i < u.length := by rw [h.1] at h1; exact h1
    rw [List.getElem_eq_getD (0 : ℚ), List.getElem_eq_getD (0 : ℚ), h.2 i, vtab_getD _ hi]
    simp [hi]

/-! ### the matrix loop -/

/-- inner loop over `j < k` on row `i` of the stored rows -/
theorem inner_eq (op : ℚ → ℚ → ℚ) (b : ℕ → ℚ) (i : ℕ) (d : List (List ℚ)) (hi : i < d.length) (k : ℕ) :
    (List.range k).foldl (fun d j => setEntry d i j (op ((d.getD i []).getD j 0) (b j))) d
      = d.set i (rowUpd op b k (d.getD i [])) := by
  induction k with
  | zero =>
    simp only [List.range_zero, List.foldl_nil, rowUpd]
    apply List.ext_getElem (by simp)
    intro n h1 h2
    by_cases e : i = n
    · subst e; simp [List.getD_eq_getElem?_getD, hi]
    · simp [List.getElem_set_of_ne e]
  | succ k ih =>
    rw [List.range_succ, List.foldl_append, ih, rowUpd_succ]
    simp only [List.foldl_cons, List.foldl_nil, setEntry]
    have : (d.set i (rowUpd op b k (d.getD i []))).getD i [] = rowUpd op b k (d.getD i []) := by
      simp [List.getD_eq_getElem?_getD, hi]
    rw [this, List.set_set]

/-- one pass of the outer loop -/
def rowStep (op : ℚ → ℚ → ℚ) (B : Mat) (n : ℕ) (d : List (List ℚ)) (i : ℕ) : List (List ℚ) :=
  d.set i (rowUpd op (fun j => B.get i j) n (d.getD i []))

theorem outer_spec (op : ℚ → ℚ → ℚ) (B : Mat) (n : ℕ) (d0 : List (List ℚ)) : ∀ k, k ≤ d0.length →
    let d := (List.range k).foldl (rowStep op B n) d0
    d.length = d0.length ∧
    ∀ i, d.getD i [] = if i < k then rowUpd op (fun j => B.get i j) n (d0.getD i []) else d0.getD i [] := by
  intro k
  induction k with
  | zero => intro _; simp
  | succ k ih =>
    intro hk
    obtain ⟨hl, hg⟩ := ih (by omega)
    simp only [List.range_succ, List.foldl_append, List.foldl_cons, List.foldl_nil]
    refine ⟨by simp [rowStep, hl], fun i => ?_⟩
    rw [rowStep, getD_set_list, hl, hg k]
    by_cases e : k = i
    · subst e
      have : k < d0.length := by omega
      simp [this]
    · have : ¬ (k = i ∧ k < d0.length) := fun h => e h.1
      rw [if_neg this, hg i]
      by_cases h1 : i < k
      · have : i < k + 1 := by omega
        simp [h1, this]
      · have : ¬ i < k + 1 := by omega
        simp [h1, this]

theorem mUpdLoop_data (op : ℚ → ℚ → ℚ) (A B : Mat) (hA : A.WellShaped) :
    (mUpdLoop op A B).data = (List.range A.rows).foldl (rowStep op B A.cols) A.data := by
  simp only [mUpdLoop]
  -- every pass meets a row list of unchanged length, so `inner_eq` applies
  have gen : ∀ k, k ≤ A.data.length →
      (List.range k).foldl (fun d i => (List.range A.cols).foldl (fun d j =>
        setEntry d i j (op ((d.getD i []).getD j 0) (B.get i j))) d) A.data
      = (List.range k).foldl (rowStep op B A.cols) A.data := by
    intro k
    induction k with
    | zero => intro _; rfl
    | succ k ih =>
      intro hk
      rw [List.range_succ, List.foldl_append, List.foldl_append, ih (by omega)]
      simp only [List.foldl_cons, List.foldl_nil]
      have hl := (outer_spec op B A.cols A.data k (by omega)).1
      rw [inner_eq op (fun j => B.get k j) k _ (by rw [hl]; omega) A.cols]
      rfl
  exact gen A.rows (by rw [hA.1])

theorem mUpdLoop_spec (op : ℚ → ℚ → ℚ) (A B : Mat) (hA : A.WellShaped) :
    (mUpdLoop op A B).WellShaped ∧
    ∀ i j, i < A.rows → j < A.cols → (mUpdLoop op A B).get i j = op (A.get i j) (B.get i j) := by
  obtain ⟨h1, h2⟩ := hA
  have hd := mUpdLoop_data op A B ⟨h1, h2⟩
  obtain ⟨hl, hg⟩ := outer_spec op B A.cols A.data A.rows (by omega)
  rw [← hd] at hl hg
  have rowlen : ∀ i, i < A.rows → (A.data.getD i []).length = A.cols := by
    intro i hi
    have hi' : i < A.data.length := by omega
    simp only [List.getD_eq_getElem?_getD, hi', List.getElem?_eq_getElem, Option.getD_some]
    exact h2 _ (List.getElem_mem hi')
  constructor
  · refine ⟨by rw [hl, h1]; rfl, fun r hr => ?_⟩
    obtain ⟨i, hi, rfl⟩ := List.getElem_of_mem hr
    have hiA : i < A.rows := by rw [hl, h1] at hi; exact hi
    have := hg i
    simp only [hiA, if_true, List.getD_eq_getElem?_getD, hi, List.getElem?_eq_getElem, Option.getD_some] at this
    rw [this]
    have hs := rowUpd_spec op (fun j => B.get i j) (A.data[i]?.getD []) A.cols
      (by have := rowlen i hiA; simp only [List.getD_eq_getElem?_getD] at this; omega)
    rw [hs.1]
    have := rowlen i hiA
    show _ = A.cols
    simpa [List.getD_eq_getElem?_getD] using this
  · intro i j hi hj
    simp only [Mat.get, Mat.row]
    rw [hg i]
    simp only [hi, if_true]
    have hs := rowUpd_spec op (fun j => B.get i j) (A.data.getD i []) A.cols (by rw [rowlen i hi])
    rw [hs.2 j]
    simp only [hj, if_true, Mat.get, Mat.row]

end Lp.C04
