import LpProofs.C12.N2
namespace Lp.C12

/-- closed forms of the coded recurrence for `n = 3`: `P_3(s) = s (5 s² − 3)/2`, `pp = (15 s² − 3)/2` -/
theorem legendreP_three (s : Rat) :
    legendreP 3 s = s * (5 * s * s - 3) / 2 ∧ (s * s - 1 ≠ 0 → legendreDeriv 3 s = (15 * s * s - 3) / 2) := by
  have h1 : legendreP 3 s = s * (5 * s * s - 3) / 2 := by
    unfold legendreP
    rw [legPair_succ, legPair_succ, legPair_succ, legPair_zero']
    norm_num
    ring
  have h2 : legendrePrev 3 s = (3 * s * s - 1) / 2 := (legendreP_two s).1
  refine ⟨h1, ?_⟩
  intro hs
  unfold legendreDeriv ppOf
  rw [h1, h2, div_eq_iff hs]
  push_cast
  ring

theorem weight3_closed (s : Rat) (hs1 : 1 - s * s ≠ 0) (hs5 : 5 * (s * s) - 1 ≠ 0) :
    weightOf 1 s ((15 * s * s - 3) / 2) = 8 / (9 * ((1 - s * s) * (5 * (s * s) - 1) * (5 * (s * s) - 1))) := by
  have h15 : (15 * s * s - 3) / 2 ≠ 0 := by
    intro h; apply hs5; linear_combination (2 / 3 : Rat) * h
  unfold weightOf
  rw [div_eq_div_iff (mul_ne_zero (mul_ne_zero hs1 h15) h15)
    (mul_ne_zero (by norm_num) (mul_ne_zero (mul_ne_zero hs1 hs5) hs5))]
  ring

/-- **gl_n3_defect**: the three-point rule on `[-1,1]` built from ANY candidate outer root value `s` (middle
    root `0`, coded derivatives `pp₀ = P_3'(s) = (15 s² − 3)/2`, `pp₁ = P_3'(0) = −3/2`) integrates every
    quintic with a defect that is `(5 s² − 3)` — the non-trivial factor of `P_3(s) = s (5 s² − 3)/2` — times
    an expression regular at the root: the rule is exact to degree 5 = 2n−1 precisely because the iteration
    drives `P_3(s)` to zero.  (`gl_affine_sum` transfers the statement to any `[a,b]`.) -/
theorem gl_n3_defect (c0 c1 c2 c3 c4 c5 s : Rat) (z pp : Nat → Rat) (hz0 : z 0 = s) (hz1 : z 1 = 0)
    (hp0 : pp 0 = (15 * s * s - 3) / 2) (hp1 : pp 1 = -3 / 2)
    (hs1 : 1 - s * s ≠ 0) (hs5 : 5 * (s * s) - 1 ≠ 0) :
    let t := s * s
    let D := (1 - t) * (5 * t - 1) * (5 * t - 1)
    glSum (fun x => c0 + c1 * x + c2 * x ^ 2 + c3 * x ^ 3 + c4 * x ^ 4 + c5 * x ^ 5) 3 (-1) 1 z pp
      - (2 * c0 + 2 * c2 / 3 + 2 * c4 / 5)
      = (5 * s * s - 3) * (c0 * (50 * t * t - 40 * t - 2) / (9 * D) + c2 * (30 * t * t - 24 * t + 2) / (9 * D)
          + c4 * (90 * t * t - 56 * t + 6) / (45 * D)) := by
  intro t D
  have hn0 : node 3 (-1) 1 z pp 0 = -s := by
    unfold node
    rw [glTable_closed 3 (-1) 1 z pp 0 (by norm_num)]
    simp [half, hz0, xMiddle, xHalfWidth]
    try ring
  have hn1 : node 3 (-1) 1 z pp 1 = 0 := by
    unfold node
    rw [glTable_closed 3 (-1) 1 z pp 1 (by norm_num)]
    simp [half, hz1, xMiddle, xHalfWidth]
  have hn2 : node 3 (-1) 1 z pp 2 = s := by
    unfold node
    rw [glTable_closed 3 (-1) 1 z pp 2 (by norm_num)]
    simp [half, hz0, xMiddle, xHalfWidth]
    try ring
  have h15 : 15 * s * s - 3 ≠ 0 := by
    intro h; apply hs5; linear_combination h / 3
  have hs1' : 1 - s ^ 2 ≠ 0 := by rwa [pow_two]
  have hs5' : 5 * s ^ 2 - 1 ≠ 0 := by rwa [pow_two]
  have h15' : 15 * s ^ 2 - 3 ≠ 0 := by
    intro h; apply h15; linear_combination h
  have hh : xHalfWidth (-1) 1 = 1 := by unfold xHalfWidth; norm_num
  have hw0 : weight 3 (-1) 1 z pp 0 = 8 / (9 * ((1 - s * s) * (5 * (s * s) - 1) * (5 * (s * s) - 1))) := by
    unfold weight
    rw [glTable_closed 3 (-1) 1 z pp 0 (by norm_num)]
    simp only [rootIdx, half, hh]
    norm_num [hz0, hp0]
    exact weight3_closed s hs1 hs5
  have hw1 : weight 3 (-1) 1 z pp 1 = 8 / 9 := by
    unfold weight
    rw [glTable_closed 3 (-1) 1 z pp 1 (by norm_num)]
    simp [rootIdx, half, hz1, hp1, weightOf, xHalfWidth]
    norm_num
  have hw2 : weight 3 (-1) 1 z pp 2 = 8 / (9 * ((1 - s * s) * (5 * (s * s) - 1) * (5 * (s * s) - 1))) := by
    unfold weight
    rw [glTable_closed 3 (-1) 1 z pp 2 (by norm_num)]
    simp only [rootIdx, half, hh]
    norm_num [hz0, hp0]
    exact weight3_closed s hs1 hs5
  unfold glSum
  simp only [List.range_succ, List.range_zero, List.nil_append, List.cons_append, List.foldl_cons, List.foldl_nil,
    hn0, hn1, hn2, hw0, hw1, hw2]
  simp only [t, D]
  simp only [← div_div]
  have ha := mul_inv_cancel₀ hs1
  have hb := mul_inv_cancel₀ hs5
  linear_combination
    (-(c0 * 8 / 9 - (2 * c0 + 2 * c2 / 3 + 2 * c4 / 5))) * ((5 * (s * s) - 1) ^ 2 * ((5 * (s * s) - 1)⁻¹) ^ 2) * ha
    + (-(c0 * 8 / 9 - (2 * c0 + 2 * c2 / 3 + 2 * c4 / 5))) * ((5 * (s * s) - 1) * (5 * (s * s) - 1)⁻¹ + 1) * hb

/-- non-vacuity: `s = 3/4` (near the root `√(3/5) ≈ 0.7746`) meets the side conditions -/
example : (1 : Rat) - (3 / 4) * (3 / 4) ≠ 0 ∧ 5 * ((3 / 4 : Rat) * (3 / 4)) - 1 ≠ 0 := by
  constructor <;> norm_num

end Lp.C12
