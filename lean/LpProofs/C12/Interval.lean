/-
  C12 [T2]: from `[-1,1]` to an arbitrary interval `[a,b]` (either orientation, `a = b` included), on the
  polynomial side: the algebraic integral over `[a,b]` (antiderivative of monomials), the substitution rule for
  the affine map, and Gauss–Legendre exactness with the nodes `m + h z` and the weights `2h/((1−z²)pp²)` the
  C++ writes (`m = (a+b)/2`, `h = (b−a)/2`).
-/
import LpProofs.C12.Weights
namespace Lp.C12
open Polynomial

variable {K : Type} [Field K] [CharZero K]

/-- the antiderivative without constant term: `x^k ↦ x^(k+1)/(k+1)`, linearly extended -/
noncomputable def antider : K[X] →ₗ[K] K[X] :=
  Polynomial.lsum (fun k => ((k : K) + 1)⁻¹ • monomial (k + 1))

omit [CharZero K] in
theorem antider_monomial (k : ℕ) (c : K) : antider (monomial k c) = monomial (k + 1) (((k : K) + 1)⁻¹ * c) := by
  unfold antider
  rw [Polynomial.lsum_apply, Polynomial.sum_monomial_index]
  · simp [smul_monomial]
  · simp

theorem derivative_antider (p : K[X]) : derivative (antider p) = p := by
  induction p using Polynomial.induction_on' with
  | add p q hp hq => rw [map_add, derivative_add, hp, hq]
  | monomial k c =>
    have pos : ((k : K) + 1) ≠ 0 := by
      have : ((k + 1 : ℕ) : K) ≠ 0 := Nat.cast_ne_zero.mpr (Nat.succ_ne_zero k)
      simpa using this
    rw [antider_monomial, derivative_monomial, Nat.add_sub_cancel]
    congr 1
    push_cast
    field_simp

/-- the algebraic integral over `[a,b]`: `F(b) − F(a)` for the antiderivative `F` of monomials -/
noncomputable def integAB (a b : K) (p : K[X]) : K := (antider p).eval b - (antider p).eval a

omit [CharZero K] in
/-- on monomials: `∫_a^b c x^k = c (b^(k+1) − a^(k+1))/(k+1)` -/
theorem integAB_monomial (a b : K) (k : ℕ) (c : K) :
    integAB a b (monomial k c) = c * (b ^ (k + 1) - a ^ (k + 1)) / ((k : K) + 1) := by
  unfold integAB
  rw [antider_monomial, eval_monomial, eval_monomial]
  ring

/-- `integ` is the algebraic integral over `[-1,1]` -/
theorem integ_eq_integAB (p : K[X]) : integ p = integAB (-1) 1 p := by
  unfold integAB
  rw [← integ_derivative, derivative_antider]

omit [CharZero K] in
/-- reversed limits change the sign; equal limits give zero -/
theorem integAB_swap (a b : K) (p : K[X]) : integAB b a p = - integAB a b p := by
  unfold integAB; ring

/-- **substitution rule** for the affine map `t ↦ m + h t`: `h ∫_{-1}^{1} p(m + h t) dt = ∫_{m−h}^{m+h} p` -/
theorem integ_comp_affine (m h : K) (p : K[X]) :
    h * integ (p.comp (C m + C h * X)) = integAB (m - h) (m + h) p := by
  have hd : derivative ((antider p).comp (C m + C h * X)) = C h * p.comp (C m + C h * X) := by
    rw [derivative_comp, derivative_antider]
    simp only [derivative_add, derivative_C, zero_add, derivative_mul, zero_mul, derivative_X, mul_one]
  rw [← integ_C_mul, ← hd, integ_derivative]
  unfold integAB
  simp only [eval_comp, eval_add, eval_C, eval_mul, eval_X]
  ring_nf

variable [DecidableEq K]

/-- **gl_exact_legendre_interval** (ALL `n`, every interval): with `z` running over `n` distinct roots of the coded
    `P_n`, nodes `m + h z` and weights `2h/((1−z²) pp(z)²)` — the values `Compute_Gauss_Legendre_Roots_and_Weights`
    writes, `m = (a+b)/2`, `h = (b−a)/2` — integrate every polynomial of degree `≤ 2n−1` exactly over `[a,b]`,
    for `a < b`, `a > b` (negative weights, integral with reversed orientation) and `a = b` alike. -/
theorem gl_exact_legendre_interval (n : ℕ) (s : Finset K) (hcard : s.card = n)
    (hroot : ∀ x ∈ s, (legPolyK K n).eval x = 0) (a b : K) (p : K[X]) (hp : p.natDegree < 2 * n) :
    ∑ z ∈ s, 2 * ((b - a) / 2) / ((1 - z * z) * ppK n z * ppK n z) * p.eval ((a + b) / 2 + (b - a) / 2 * z)
      = integAB a b p := by
  have hdeg : (p.comp (C ((a + b) / 2) + C ((b - a) / 2) * X)).natDegree < 2 * n := by
    refine lt_of_le_of_lt natDegree_comp_le ?_
    have h1 : (C ((a + b) / 2) + C ((b - a) / 2) * X : K[X]).natDegree ≤ 1 := by
      refine (natDegree_add_le _ _).trans (max_le (by simp) ?_)
      exact (natDegree_C_mul_le _ _).trans (by simp)
    calc p.natDegree * _ ≤ p.natDegree * 1 := Nat.mul_le_mul_left _ h1
      _ = p.natDegree := Nat.mul_one _
      _ < 2 * n := hp
  have h := gl_exact_legendre n s hcard hroot _ hdeg
  have hs := integ_comp_affine ((a + b) / 2) ((b - a) / 2) p
  rw [← h] at hs
  have e1 : (a + b) / 2 - (b - a) / 2 = a := by ring
  have e2 : (a + b) / 2 + (b - a) / 2 = b := by ring
  rw [e1, e2] at hs
  rw [← hs]
  unfold quad codedWeight
  rw [Finset.mul_sum]
  refine Finset.sum_congr rfl (fun z _ => ?_)
  simp only [eval_comp, eval_add, eval_C, eval_mul, eval_X]
  ring

/-- **gl_weights_sum** (ALL `n ≥ 1`): the coded weights at `n` distinct roots of the coded `P_n` sum to `b − a`
    (degree-0 case of exactness; same hypotheses as `gl_exact_legendre_interval`, instances there). -/
theorem gl_weights_sum (n : ℕ) (hn : 0 < n) (s : Finset K) (hcard : s.card = n)
    (hroot : ∀ x ∈ s, (legPolyK K n).eval x = 0) (a b : K) :
    ∑ z ∈ s, 2 * ((b - a) / 2) / ((1 - z * z) * ppK n z * ppK n z) = b - a := by
  have h := gl_exact_legendre_interval n s hcard hroot a b 1 (by rw [natDegree_one]; omega)
  simp only [eval_one, mul_one] at h
  rw [h, ← C_1, ← monomial_zero_left, integAB_monomial]
  simp

/-- non-vacuity (n = 1 over ℚ, `[0,4]`, `p = x`): the hypotheses are met by the root `0` of `P_1` -/
example : ∑ z ∈ ({0} : Finset ℚ), 2 * ((4 - 0) / 2) / ((1 - z * z) * ppK 1 z * ppK 1 z)
      * (X : ℚ[X]).eval ((0 + 4) / 2 + (4 - 0) / 2 * z) = integAB 0 4 X :=
  gl_exact_legendre_interval 1 {0} (by simp)
    (by intro x hx; rw [Finset.mem_singleton.mp hx]; simp [legPolyK, legPoly, legPolyPair]) 0 4 X (by simp)

end Lp.C12
